/-
  The length budget of a buffer (C01): every in/out primitive keeps `len ≤ max_len` and `out_len ≤ max_len`.
  These are facts about the scalar fields only; they hold whenever the primitive returns, whatever the Vec
  contents are.  (No-panic is a separate matter, Lemmas/BufZipper.lean.)
-/
import RbModel.Lifecycle
import RbModel.Lemmas.Lifecycle

namespace RbModel.Buf
open RbModel.Life (bind_ok)

/-- the fields the budget argument is about are unchanged -/
structure Same (b b' : Buf) : Prop where
  idx : b'.idx = b.idx
  len : b'.len = b.len
  outLen : b'.outLen = b.outLen
  maxLen : b'.maxLen = b.maxLen
  haveOutput : b'.haveOutput = b.haveOutput

theorem Same.rfl' (b : Buf) : Same b b := ⟨rfl, rfl, rfl, rfl, rfl⟩

theorem Same.trans {a b c : Buf} (h1 : Same a b) (h2 : Same b c) : Same a c :=
  ⟨h2.idx.trans h1.idx, h2.len.trans h1.len, h2.outLen.trans h1.outLen, h2.maxLen.trans h1.maxLen,
   h2.haveOutput.trans h1.haveOutput⟩

/-- inside the budget -/
structure Bnd (b : Buf) : Prop where
  len_le : b.len ≤ b.maxLen
  out_le : b.outLen ≤ b.maxLen
  idx_le : b.idx ≤ b.len

theorem ensure_same (b : Buf) (n : Nat) :
    Same b (b.ensure n).1 ∧ (b.ensure n).1.sepOut = b.sepOut ∧ ((b.ensure n).2 = true → n < b.len ∨ n ≤ b.maxLen) := by
  unfold ensure
  split
  · rename_i h1; exact ⟨Same.rfl' b, rfl, fun _ => Or.inl h1⟩
  · split
    · exact ⟨⟨rfl, rfl, rfl, rfl, rfl⟩, rfl, fun h => by cases h⟩
    · rename_i h1 h2
      split <;> exact ⟨⟨rfl, rfl, rfl, rfl, rfl⟩, rfl, fun _ => Or.inr (by omega)⟩

theorem makeRoomFor_same {b b' : Buf} {i o : Nat} {ok : Bool} (h : b.makeRoomFor i o = .ok (b', ok)) :
    Same b b' ∧ (b.sepOut = true → b'.sepOut = true) ∧
      (ok = true → b.outLen + o < b.len ∨ b.outLen + o ≤ b.maxLen) := by
  unfold makeRoomFor at h
  obtain ⟨hs, hsep, hb⟩ := ensure_same b (b.outLen + o)
  rcases hx : b.ensure (b.outLen + o) with ⟨b1, ok1⟩
  rw [hx] at h hs hsep hb
  simp only at h hs hsep hb
  cases ok1 with
  | false =>
    simp [pure, Except.pure] at h
    obtain ⟨h1, h2⟩ := h
    subst h1 h2
    exact ⟨hs, fun hh => by rw [hsep]; exact hh, fun hh => by cases hh⟩
  | true =>
    simp only [Bool.not_true, Bool.false_eq_true, if_false] at h
    have hb' := hb rfl
    by_cases hc : (!b1.sepOut && decide (b1.outLen + o > b1.idx + i)) = true
    · simp only [hc, if_true] at h
      by_cases hho : b1.haveOutput = true
      · simp only [hho, Bool.not_true, Bool.false_eq_true, if_false] at h
        obtain ⟨out, _, h⟩ := bind_ok h
        simp [pure, Except.pure] at h
        obtain ⟨h1, h2⟩ := h
        subst h1 h2
        refine ⟨⟨hs.idx, hs.len, hs.outLen, hs.maxLen, ?_⟩, fun _ => rfl, fun _ => hb'⟩
        show true = b.haveOutput
        rw [← hs.haveOutput, hho]
      · simp [hho, throw, throwThe, MonadExceptOf.throw, bind, Except.bind] at h
    · simp only [hc] at h
      simp [pure, Except.pure] at h
      obtain ⟨h1, h2⟩ := h
      subst h1 h2
      exact ⟨hs, fun hh => by rw [hsep]; exact hh, fun _ => hb'⟩

theorem setOut_same {b b' : Buf} {i : Nat} {x : Info} (h : b.setOut i x = .ok b') :
    Same b b' ∧ b'.sepOut = b.sepOut := by
  unfold setOut at h
  obtain ⟨l, _, h⟩ := bind_ok h
  simp [pure, Except.pure] at h
  subst h
  unfold setOutArr
  split <;> exact ⟨⟨rfl, rfl, rfl, rfl, rfl⟩, rfl⟩

theorem copyToOut_same {b b' : Buf} {n : Nat} (h : copyToOut b n = .ok b') : Same b b' ∧ b'.sepOut = b.sepOut := by
  unfold copyToOut at h
  split at h
  · obtain ⟨l, _, h⟩ := bind_ok h
    simp [pure, Except.pure] at h; subst h
    exact ⟨⟨rfl, rfl, rfl, rfl, rfl⟩, rfl⟩
  · obtain ⟨l, _, h⟩ := bind_ok h
    simp [pure, Except.pure] at h; subst h
    exact ⟨⟨rfl, rfl, rfl, rfl, rfl⟩, rfl⟩

theorem copyFromOut_same {b b' : Buf} {n : Nat} (h : copyFromOut b n = .ok b') : Same b b' ∧ b'.sepOut = b.sepOut := by
  unfold copyFromOut at h
  split at h
  · obtain ⟨l, _, h⟩ := bind_ok h
    simp [pure, Except.pure] at h; subst h
    exact ⟨⟨rfl, rfl, rfl, rfl, rfl⟩, rfl⟩
  · obtain ⟨l, _, h⟩ := bind_ok h
    simp [pure, Except.pure] at h; subst h
    exact ⟨⟨rfl, rfl, rfl, rfl, rfl⟩, rfl⟩

/-- `shift_forward(count)`: either refused (nothing moves) or `len` and `idx` advance by `count` inside the budget -/
theorem shiftForward_scal {b b' : Buf} {c : Nat} {ok : Bool} (h : b.shiftForward c = .ok (b', ok)) :
    (ok = false ∧ Same b b') ∨
    (ok = true ∧ b'.len = b.len + c ∧ b'.idx = b.idx + c ∧ b'.outLen = b.outLen ∧ b'.maxLen = b.maxLen ∧
      b'.haveOutput = b.haveOutput ∧ b.len + c ≤ b.maxLen) := by
  unfold shiftForward at h
  by_cases hho : b.haveOutput = true
  · simp only [hho, Bool.not_true, Bool.false_eq_true, if_false] at h
    obtain ⟨hs, _, hb⟩ := ensure_same b (b.len + c)
    rcases hx : b.ensure (b.len + c) with ⟨b1, ok1⟩
    rw [hx] at h hs hb
    simp only at h hs hb
    cases ok1 with
    | false =>
      simp [pure, Except.pure] at h
      obtain ⟨h1, h2⟩ := h
      subst h1 h2
      exact Or.inl ⟨rfl, hs⟩
    | true =>
      simp only [Bool.not_true, Bool.false_eq_true, if_false] at h
      obtain ⟨l1, _, h⟩ := bind_ok h
      have hfin : ∀ l2 : List Info,
          (pure ({ b1 with info := l2, len := b1.len + c, idx := b1.idx + c }, true) : M (Buf × Bool)) = .ok (b', ok) →
          (ok = false ∧ Same b b') ∨
          (ok = true ∧ b'.len = b.len + c ∧ b'.idx = b.idx + c ∧ b'.outLen = b.outLen ∧ b'.maxLen = b.maxLen ∧
            b'.haveOutput = b.haveOutput ∧ b.len + c ≤ b.maxLen) := by
        intro l2 h
        simp [pure, Except.pure] at h
        obtain ⟨h1, h2⟩ := h
        subst h1 h2
        have := hb rfl
        refine Or.inr ⟨rfl, ?_, ?_, hs.outLen, hs.maxLen, hs.haveOutput, by omega⟩
        · simp [hs.len]
        · simp [hs.idx]
      split at h
      · split at h
        · simp [throw, throwThe, MonadExceptOf.throw, bind, Except.bind] at h
        · obtain ⟨l2, _, h⟩ := bind_ok h
          exact hfin l2 h
      · obtain ⟨l2, _, h⟩ := bind_ok h
        exact hfin l2 h
  · simp [hho, throw, throwThe, MonadExceptOf.throw, bind, Except.bind] at h

theorem Bnd.of_same {b b' : Buf} (hs : Same b b') (hb : Bnd b) : Bnd b' ∧ b'.maxLen = b.maxLen :=
  ⟨⟨by rw [hs.len, hs.maxLen]; exact hb.len_le, by rw [hs.outLen, hs.maxLen]; exact hb.out_le,
    by rw [hs.idx, hs.len]; exact hb.idx_le⟩, hs.maxLen⟩

/-- the `(sepOut || outLen != idx)` test failed: the out-buffer is `info` itself and the cursor positions coincide -/
theorem fast_path {b : Buf} (h : ¬ (b.sepOut || b.outLen != b.idx) = true) : b.outLen = b.idx := by
  simp only [Bool.or_eq_true, bne_iff_ne, ne_eq, not_or, Bool.not_eq_true, Decidable.not_not] at h
  exact h.2

theorem nextGlyph_bnd {b b' : Buf} (h : b.nextGlyph = .ok b') (hcur : b.idx < b.len) (hb : Bnd b) :
    Bnd b' ∧ b'.maxLen = b.maxLen := by
  unfold nextGlyph at h
  have h1 := hb.len_le; have h2 := hb.out_le; have h3 := hb.idx_le
  split at h
  · split at h
    · obtain ⟨⟨b1, ok⟩, hm, h⟩ := bind_ok h
      obtain ⟨hs, _, hk⟩ := makeRoomFor_same hm
      cases ok with
      | false =>
        simp [pure, Except.pure] at h; subst h
        exact Bnd.of_same hs hb
      | true =>
        simp only [Bool.not_true, Bool.false_eq_true, if_false] at h
        obtain ⟨x, _, h⟩ := bind_ok h
        obtain ⟨b2, hso, h⟩ := bind_ok h
        simp [pure, Except.pure] at h; subst h
        obtain ⟨hs2, _⟩ := setOut_same hso
        have hs3 := hs.trans hs2
        have := hk rfl
        refine ⟨⟨?_, ?_, ?_⟩, ?_⟩
        · show b2.len ≤ b2.maxLen; rw [hs3.len, hs3.maxLen]; exact h1
        · show b2.outLen + 1 ≤ b2.maxLen; rw [hs3.outLen, hs3.maxLen]; omega
        · show b2.idx + 1 ≤ b2.len; rw [hs3.idx, hs3.len]; omega
        · exact hs3.maxLen
    · rename_i hf
      have := fast_path hf
      simp [pure, Except.pure] at h; subst h
      exact ⟨⟨h1, by show b.outLen + 1 ≤ b.maxLen; omega, by show b.idx + 1 ≤ b.len; omega⟩, rfl⟩
  · simp [pure, Except.pure] at h; subst h
    exact ⟨⟨h1, h2, by show b.idx + 1 ≤ b.len; omega⟩, rfl⟩

theorem nextGlyphs_bnd {b b' : Buf} {n : Nat} (h : b.nextGlyphs n = .ok b') (hn : b.idx + n ≤ b.len) (hb : Bnd b) :
    Bnd b' ∧ b'.maxLen = b.maxLen := by
  unfold nextGlyphs at h
  have h1 := hb.len_le; have h2 := hb.out_le; have h3 := hb.idx_le
  split at h
  · split at h
    · obtain ⟨⟨b1, ok⟩, hm, h⟩ := bind_ok h
      obtain ⟨hs, _, hk⟩ := makeRoomFor_same hm
      cases ok with
      | false =>
        simp [pure, Except.pure] at h; subst h
        exact Bnd.of_same hs hb
      | true =>
        simp only [Bool.not_true, Bool.false_eq_true, if_false] at h
        obtain ⟨b2, hso, h⟩ := bind_ok h
        simp [pure, Except.pure] at h; subst h
        obtain ⟨hs2, _⟩ := copyToOut_same hso
        have hs3 := hs.trans hs2
        have := hk rfl
        refine ⟨⟨?_, ?_, ?_⟩, ?_⟩
        · show b2.len ≤ b2.maxLen; rw [hs3.len, hs3.maxLen]; exact h1
        · show b2.outLen + n ≤ b2.maxLen; rw [hs3.outLen, hs3.maxLen]; omega
        · show b2.idx + n ≤ b2.len; rw [hs3.idx, hs3.len]; omega
        · exact hs3.maxLen
    · rename_i hf
      have := fast_path hf
      simp [pure, Except.pure] at h; subst h
      exact ⟨⟨h1, by show b.outLen + n ≤ b.maxLen; omega, by show b.idx + n ≤ b.len; omega⟩, rfl⟩
  · simp [pure, Except.pure] at h; subst h
    exact ⟨⟨h1, h2, by show b.idx + n ≤ b.len; omega⟩, rfl⟩

theorem skipGlyph_bnd {b : Buf} (hcur : b.idx < b.len) (hb : Bnd b) :
    Bnd b.skipGlyph ∧ b.skipGlyph.maxLen = b.maxLen :=
  ⟨⟨hb.len_le, hb.out_le, by show b.idx + 1 ≤ b.len; omega⟩, rfl⟩

/-- `make_room_for(0, 1); set_out_info(out_len, x); out_len += 1` — shared by copy_glyph / output_glyph / output_info -/
theorem emit_bnd {b b1 b2 : Buf} {x : Info} (hm : b.makeRoomFor 0 1 = .ok (b1, true)) (hso : b1.setOut b1.outLen x = .ok b2)
    (hb : Bnd b) : Bnd { b2 with outLen := b2.outLen + 1 } ∧ b2.maxLen = b.maxLen := by
  have h1 := hb.len_le; have h2 := hb.out_le; have h3 := hb.idx_le
  obtain ⟨hs, _, hk⟩ := makeRoomFor_same hm
  obtain ⟨hs2, _⟩ := setOut_same hso
  have hs3 := hs.trans hs2
  have := hk rfl
  refine ⟨⟨?_, ?_, ?_⟩, hs3.maxLen⟩
  · show b2.len ≤ b2.maxLen; rw [hs3.len, hs3.maxLen]; exact h1
  · show b2.outLen + 1 ≤ b2.maxLen; rw [hs3.outLen, hs3.maxLen]; omega
  · show b2.idx ≤ b2.len; rw [hs3.idx, hs3.len]; exact h3

theorem copyGlyph_bnd {b b' : Buf} (h : b.copyGlyph = .ok b') (hb : Bnd b) : Bnd b' ∧ b'.maxLen = b.maxLen := by
  unfold copyGlyph at h
  obtain ⟨⟨b1, ok⟩, hm, h⟩ := bind_ok h
  cases ok with
  | false =>
    simp [pure, Except.pure] at h; subst h
    exact Bnd.of_same (makeRoomFor_same hm).1 hb
  | true =>
    simp only [Bool.not_true, Bool.false_eq_true, if_false] at h
    obtain ⟨x, _, h⟩ := bind_ok h
    obtain ⟨b2, hso, h⟩ := bind_ok h
    simp [pure, Except.pure] at h; subst h
    exact emit_bnd hm hso hb

theorem outputInfo_bnd {b b' : Buf} {x : Info} (h : b.outputInfo x = .ok b') (hb : Bnd b) :
    Bnd b' ∧ b'.maxLen = b.maxLen := by
  unfold outputInfo at h
  obtain ⟨⟨b1, ok⟩, hm, h⟩ := bind_ok h
  cases ok with
  | false =>
    simp [pure, Except.pure] at h; subst h
    exact Bnd.of_same (makeRoomFor_same hm).1 hb
  | true =>
    simp only [Bool.not_true, Bool.false_eq_true, if_false] at h
    obtain ⟨b2, hso, h⟩ := bind_ok h
    simp [pure, Except.pure] at h; subst h
    exact emit_bnd hm hso hb

theorem outputGlyph_bnd {b b' : Buf} {g : Nat} (h : b.outputGlyph g = .ok b') (hb : Bnd b) :
    Bnd b' ∧ b'.maxLen = b.maxLen := by
  unfold outputGlyph at h
  obtain ⟨⟨b1, ok⟩, hm, h⟩ := bind_ok h
  cases ok with
  | false =>
    simp [pure, Except.pure] at h; subst h
    exact Bnd.of_same (makeRoomFor_same hm).1 hb
  | true =>
    simp only [Bool.not_true, Bool.false_eq_true, if_false] at h
    split at h
    · simp [pure, Except.pure] at h; subst h
      exact Bnd.of_same (makeRoomFor_same hm).1 hb
    · split at h
      · obtain ⟨x, _, h⟩ := bind_ok h
        obtain ⟨b2, hso, h⟩ := bind_ok h
        simp [pure, Except.pure] at h; subst h
        exact emit_bnd hm hso hb
      · obtain ⟨x, _, h⟩ := bind_ok h
        obtain ⟨b2, hso, h⟩ := bind_ok h
        simp [pure, Except.pure] at h; subst h
        exact emit_bnd hm hso hb

theorem replaceGlyph_bnd {b b' : Buf} {g : Nat} (h : b.replaceGlyph g = .ok b') (hcur : b.idx < b.len) (hb : Bnd b) :
    Bnd b' ∧ b'.maxLen = b.maxLen := by
  unfold replaceGlyph at h
  have h1 := hb.len_le; have h2 := hb.out_le; have h3 := hb.idx_le
  have hfin : ∀ b1 : Buf, Same b b1 → b1.outLen + 1 ≤ b1.maxLen →
      (do let x ← get b1.outArr b1.outLen
          let b ← b1.setOut b1.outLen { x with gid := g }
          pure { b with idx := b.idx + 1, outLen := b.outLen + 1 } : M Buf) = .ok b' →
      Bnd b' ∧ b'.maxLen = b.maxLen := by
    intro b1 hs hle h
    obtain ⟨x, _, h⟩ := bind_ok h
    obtain ⟨b2, hso, h⟩ := bind_ok h
    simp [pure, Except.pure] at h; subst h
    obtain ⟨hs2, _⟩ := setOut_same hso
    have hs3 := hs.trans hs2
    refine ⟨⟨?_, ?_, ?_⟩, hs3.maxLen⟩
    · show b2.len ≤ b2.maxLen; rw [hs3.len, hs3.maxLen]; exact h1
    · show b2.outLen + 1 ≤ b2.maxLen; rw [hs2.outLen, hs2.maxLen]; exact hle
    · show b2.idx + 1 ≤ b2.len; rw [hs3.idx, hs3.len]; omega
  split at h
  · obtain ⟨⟨b0, ok⟩, hm, h⟩ := bind_ok h
    obtain ⟨hs, _, hk⟩ := makeRoomFor_same hm
    cases ok with
    | false =>
      simp [pure, Except.pure] at h; subst h
      exact Bnd.of_same hs hb
    | true =>
      simp only [Bool.not_true, Bool.false_eq_true, if_false] at h
      obtain ⟨x, _, h⟩ := bind_ok h
      obtain ⟨b2, hso, h⟩ := bind_ok h
      obtain ⟨hs2, _⟩ := setOut_same hso
      have := hk rfl
      exact hfin b2 (hs.trans hs2) (by rw [hs2.outLen, hs2.maxLen, hs.outLen, hs.maxLen]; omega) h
  · rename_i hf
    have := fast_path hf
    exact hfin b (Same.rfl' b) (by omega) h

theorem moveTo_bnd {b b' : Buf} {i : Nat} {r : Bool} (h : b.moveTo i = .ok (b', r)) (hb : Bnd b) :
    Bnd b' ∧ b'.maxLen = b.maxLen := by
  unfold moveTo at h
  have h1 := hb.len_le; have h2 := hb.out_le; have h3 := hb.idx_le
  by_cases hho : b.haveOutput = true
  case neg =>
    -- no output pass: plain cursor move
    have hn : (!b.haveOutput) = true := by simpa using hho
    simp only [hn, if_true] at h
    by_cases hi : i > b.len
    · simp [hi, throw, throwThe, MonadExceptOf.throw, bind, Except.bind] at h
    · simp only [hi, if_false] at h
      simp [pure, Except.pure, bind, Except.bind] at h
      obtain ⟨hh, _⟩ := h; subst hh
      exact ⟨⟨h1, h2, by show i ≤ b.len; omega⟩, rfl⟩
  have hn : (!b.haveOutput) = false := by simp [hho]
  simp only [hn, Bool.false_eq_true, if_false] at h
  by_cases hsucc : b.successful = true
  case neg =>
    have : (!b.successful) = true := by simpa using hsucc
    simp only [this, if_true] at h
    simp [pure, Except.pure, bind, Except.bind] at h
    obtain ⟨hh, _⟩ := h; subst hh
    exact ⟨hb, rfl⟩
  have hns : (!b.successful) = false := by simp [hsucc]
  simp only [hns, Bool.false_eq_true, if_false] at h
  by_cases hassert : i > b.outLen + (b.len - b.idx)
  · simp [hassert, throw, throwThe, MonadExceptOf.throw, bind, Except.bind] at h
  simp only [hassert, if_false] at h
  by_cases hfw : b.outLen < i
  · -- forward
    simp only [hfw, if_true] at h
    obtain ⟨⟨b1, ok⟩, hm, h⟩ := bind_ok h
    obtain ⟨hs, _, hk⟩ := makeRoomFor_same hm
    cases ok with
    | false =>
      simp [pure, Except.pure] at h
      obtain ⟨hh, _⟩ := h; subst hh
      exact Bnd.of_same hs hb
    | true =>
      simp only [Bool.not_true, Bool.false_eq_true, if_false] at h
      obtain ⟨b2, hc, h⟩ := bind_ok h
      simp [pure, Except.pure] at h
      obtain ⟨hh, _⟩ := h; subst hh
      obtain ⟨hs2, _⟩ := copyToOut_same hc
      have hs3 := hs.trans hs2
      have := hk rfl
      refine ⟨⟨?_, ?_, ?_⟩, hs3.maxLen⟩
      · show b2.len ≤ b2.maxLen; rw [hs3.len, hs3.maxLen]; exact h1
      · show b2.outLen + (i - b.outLen) ≤ b2.maxLen; rw [hs3.outLen, hs3.maxLen]; omega
      · show b2.idx + (i - b.outLen) ≤ b2.len; rw [hs3.idx, hs3.len]; omega
  simp only [hfw, if_false] at h
  by_cases hbw : b.outLen > i
  · -- rewind
    simp only [hbw, if_true] at h
    by_cases hsh : b.idx < b.outLen - i
    · simp only [hsh, if_true] at h
      obtain ⟨⟨b1, ok⟩, hsf, h⟩ := bind_ok h
      have hb1 : (ok = false ∧ Same b b1) ∨
          (ok = true ∧ b1.outLen = b.outLen ∧ b1.maxLen = b.maxLen ∧ b1.len ≤ b1.maxLen ∧ b1.idx ≤ b1.len) := by
        rcases shiftForward_scal hsf with ⟨ho, hs⟩ | ⟨ho, hl, hi, hol, hml, _, hle2⟩
        · exact Or.inl ⟨ho, hs⟩
        · exact Or.inr ⟨ho, hol, hml, by rw [hl, hml]; exact hle2, by rw [hl, hi]; omega⟩
      rcases hb1 with ⟨ho, hs⟩ | ⟨ho, hol, hml, hl1, hi1⟩
      · subst ho
        simp [pure, Except.pure] at h
        obtain ⟨hh, _⟩ := h; subst hh
        exact Bnd.of_same hs hb
      · subst ho
        simp only [Bool.not_true, Bool.false_eq_true, if_false] at h
        by_cases hlt : b1.idx < b.outLen - i
        · simp [hlt, throw, throwThe, MonadExceptOf.throw, bind, Except.bind] at h
        · simp only [hlt, if_false] at h
          obtain ⟨b2, hc, h⟩ := bind_ok h
          simp [pure, Except.pure] at h
          obtain ⟨hh, _⟩ := h; subst hh
          obtain ⟨hs2, _⟩ := copyFromOut_same hc
          refine ⟨⟨?_, ?_, ?_⟩, ?_⟩
          · rw [hs2.len, hs2.maxLen]; exact hl1
          · rw [hs2.outLen, hs2.maxLen]; show b1.outLen - (b.outLen - i) ≤ b1.maxLen; omega
          · rw [hs2.idx, hs2.len]; show b1.idx - (b.outLen - i) ≤ b1.len; omega
          · rw [hs2.maxLen]; exact hml
    · simp only [hsh, if_false] at h
      obtain ⟨⟨b1, ok⟩, hsf, h⟩ := bind_ok h
      have hb1 : (ok = false ∧ Same b b1) ∨
          (ok = true ∧ b1.outLen = b.outLen ∧ b1.maxLen = b.maxLen ∧ b1.len ≤ b1.maxLen ∧ b1.idx ≤ b1.len) := by
        simp [pure, Except.pure] at hsf
        obtain ⟨hh, ho⟩ := hsf; subst hh
        exact Or.inr ⟨ho, rfl, rfl, h1, h3⟩
      rcases hb1 with ⟨ho, hs⟩ | ⟨ho, hol, hml, hl1, hi1⟩
      · subst ho
        simp [pure, Except.pure] at h
        obtain ⟨hh, _⟩ := h; subst hh
        exact Bnd.of_same hs hb
      · subst ho
        simp only [Bool.not_true, Bool.false_eq_true, if_false] at h
        by_cases hlt : b1.idx < b.outLen - i
        · simp [hlt, throw, throwThe, MonadExceptOf.throw, bind, Except.bind] at h
        · simp only [hlt, if_false] at h
          obtain ⟨b2, hc, h⟩ := bind_ok h
          simp [pure, Except.pure] at h
          obtain ⟨hh, _⟩ := h; subst hh
          obtain ⟨hs2, _⟩ := copyFromOut_same hc
          refine ⟨⟨?_, ?_, ?_⟩, ?_⟩
          · rw [hs2.len, hs2.maxLen]; exact hl1
          · rw [hs2.outLen, hs2.maxLen]; show b1.outLen - (b.outLen - i) ≤ b1.maxLen; omega
          · rw [hs2.idx, hs2.len]; show b1.idx - (b.outLen - i) ≤ b1.len; omega
          · rw [hs2.maxLen]; exact hml
  · simp only [hbw, if_false] at h
    simp [pure, Except.pure] at h
    obtain ⟨hh, _⟩ := h; subst hh
    exact ⟨hb, rfl⟩

theorem sync_bnd {b b' : Buf} {r : Bool} (h : b.sync = .ok (b', r)) (hb : Bnd b) :
    Bnd b' ∧ b'.maxLen = b.maxLen := by
  unfold sync at h
  have h1 := hb.len_le; have h2 := hb.out_le; have h3 := hb.idx_le
  by_cases hho : b.haveOutput = true
  case neg =>
    have hn : (!b.haveOutput) = true := by simpa using hho
    simp [hn, throw, throwThe, MonadExceptOf.throw, bind, Except.bind] at h
  have hn : (!b.haveOutput) = false := by simp [hho]
  simp only [hn, Bool.false_eq_true, if_false] at h
  have hi : ¬ b.idx > b.len := by omega
  simp only [hi, if_false] at h
  by_cases hsucc : b.successful = true
  case neg =>
    have : (!b.successful) = true := by simpa using hsucc
    simp only [this, if_true] at h
    simp [pure, Except.pure, bind, Except.bind] at h
    obtain ⟨hh, _⟩ := h; subst hh
    exact ⟨⟨h1, Nat.zero_le _, Nat.zero_le _⟩, rfl⟩
  have hns : (!b.successful) = false := by simp [hsucc]
  simp only [hns, Bool.false_eq_true, if_false] at h
  obtain ⟨b1, hnx, h⟩ := bind_ok h
  obtain ⟨hb1, hm1⟩ := nextGlyphs_bnd hnx (by omega) hb
  simp [pure, Except.pure] at h
  obtain ⟨hh, _⟩ := h; subst hh
  have := hb1.out_le
  split <;> exact ⟨⟨this, Nat.zero_le _, Nat.zero_le _⟩, hm1⟩

theorem clearOutput_bnd {b : Buf} (hb : Bnd b) : Bnd b.clearOutput ∧ b.clearOutput.maxLen = b.maxLen :=
  ⟨⟨hb.len_le, Nat.zero_le _, Nat.zero_le _⟩, rfl⟩

/-! ### content-only primitives leave the scalar fields alone -/

macro "same_fin" : tactic => `(tactic| (first
  | exact ⟨rfl, rfl, rfl, rfl, rfl⟩
  | (simp only [addScratch, setOutArr, outArr]; (repeat' split) <;> exact ⟨rfl, rfl, rfl, rfl, rfl⟩)))

macro "same_peel" h:ident : tactic => `(tactic| (
  simp only [bind, Except.bind, pure, Except.pure, throw, throwThe, MonadExceptOf.throw] at $h:ident
  repeat' (split at $h:ident)
  all_goals first
    | (cases $h:ident; done)
    | contradiction
    | (injection $h:ident with $h:ident; subst $h:ident; same_fin)))

theorem setGlyphFlags_same {b b' : Buf} {mask start : Nat} {stop : Option Nat} {interior fromOut : Bool}
    (h : b.setGlyphFlags mask start stop interior fromOut = .ok b') : Same b b' := by
  unfold setGlyphFlags at h
  same_peel h

theorem unsafeToBreak_same {b b' : Buf} {start : Nat} {stop : Option Nat} (h : b.unsafeToBreak start stop = .ok b') :
    Same b b' := setGlyphFlags_same h
theorem unsafeToBreakFromOut_same {b b' : Buf} {start : Nat} {stop : Option Nat}
    (h : b.unsafeToBreakFromOut start stop = .ok b') : Same b b' := setGlyphFlags_same h
theorem unsafeToConcat_same {b b' : Buf} {start : Nat} {stop : Option Nat} (h : b.unsafeToConcat start stop = .ok b') :
    Same b b' := by
  unfold unsafeToConcat at h
  split at h
  · cases h; exact Same.rfl' _
  · exact setGlyphFlags_same h
theorem unsafeToConcatFromOut_same {b b' : Buf} {start : Nat} {stop : Option Nat}
    (h : b.unsafeToConcatFromOut start stop = .ok b') : Same b b' := by
  unfold unsafeToConcatFromOut at h
  split at h
  · cases h; exact Same.rfl' _
  · exact setGlyphFlags_same h
theorem safeToInsertTatweel_same {b b' : Buf} {start : Nat} {stop : Option Nat}
    (h : b.safeToInsertTatweel start stop = .ok b') : Same b b' := by
  unfold safeToInsertTatweel at h
  split at h
  · exact unsafeToBreak_same h
  · exact setGlyphFlags_same h

theorem mergeClustersImpl_same {b b' : Buf} {s e : Nat} (h : b.mergeClustersImpl s e = .ok b') : Same b b' := by
  unfold mergeClustersImpl at h
  by_cases hl : (b.level == 2) = true
  · simp only [hl, if_true] at h
    exact unsafeToBreak_same h
  · simp only [hl] at h
    same_peel h

theorem mergeClusters_same {b b' : Buf} {s e : Nat} (h : b.mergeClusters s e = .ok b') : Same b b' := by
  unfold mergeClusters at h
  split at h
  · cases h; exact Same.rfl' _
  · exact mergeClustersImpl_same h

theorem mergeOutClusters_same {b b' : Buf} {s e : Nat} (h : b.mergeOutClusters s e = .ok b') : Same b b' := by
  unfold mergeOutClusters at h
  same_peel h

theorem setMasks_same {b b' : Buf} {v m s e : Nat} (h : b.setMasks v m s e = .ok b') : Same b b' := by
  unfold setMasks at h
  same_peel h

theorem resetMasks_same {b b' : Buf} {m : Nat} (h : b.resetMasks m = .ok b') : Same b b' := by
  unfold resetMasks at h
  same_peel h

theorem reverseRange_same {b b' : Buf} {s e : Nat} (h : b.reverseRange s e = .ok b') : Same b b' := by
  unfold reverseRange at h
  same_peel h

theorem reverse_same {b b' : Buf} (h : b.reverse = .ok b') : Same b b' := by
  unfold reverse at h
  split at h
  · cases h; exact Same.rfl' _
  · exact reverseRange_same h


/-! ### substitution with cluster merging -/

theorem replaceLoop_same (orig : Info) : ∀ (gl : List Nat) (b b' : Buf) (i : Nat),
    replaceGlyphs.loop orig b i gl = .ok b' → Same b b' := by
  intro gl
  induction gl with
  | nil => intro b b' i h; simp [replaceGlyphs.loop, pure, Except.pure] at h; subst h; exact Same.rfl' _
  | cons g rest ih =>
    intro b b' i h
    simp only [replaceGlyphs.loop] at h
    obtain ⟨b1, hso, h⟩ := bind_ok h
    exact (setOut_same hso).1.trans (ih b1 b' _ h)

theorem replaceGlyphs_bnd {b b' : Buf} {numIn : Nat} {gs : List Nat} (h : b.replaceGlyphs numIn gs = .ok b')
    (hb : Bnd b) : Bnd b' ∧ b'.maxLen = b.maxLen := by
  unfold replaceGlyphs at h
  have h1 := hb.len_le; have h2 := hb.out_le; have h3 := hb.idx_le
  obtain ⟨⟨b1, ok⟩, hm, h⟩ := bind_ok h
  obtain ⟨hs, _, hk⟩ := makeRoomFor_same hm
  cases ok with
  | false =>
    simp [pure, Except.pure] at h; subst h
    exact Bnd.of_same hs hb
  | true =>
    simp only [Bool.not_true, Bool.false_eq_true, if_false] at h
    by_cases ha : b1.idx + numIn > b1.len
    · simp [ha, throw, throwThe, MonadExceptOf.throw, bind, Except.bind] at h
    · simp only [ha, if_false] at h
      obtain ⟨b2, hmc, h⟩ := bind_ok h
      obtain ⟨orig, _, h⟩ := bind_ok h
      obtain ⟨b3, hl, h⟩ := bind_ok h
      simp [pure, Except.pure] at h; subst h
      have hs2 := mergeClusters_same hmc
      have hs3 := replaceLoop_same orig gs b2 b3 0 hl
      have hs4 := (hs.trans hs2).trans hs3
      have := hk rfl
      rw [hs.idx, hs.len] at ha
      refine ⟨⟨?_, ?_, ?_⟩, hs4.maxLen⟩
      · show b3.len ≤ b3.maxLen; rw [hs4.len, hs4.maxLen]; exact h1
      · show b3.outLen + gs.length ≤ b3.maxLen; rw [hs4.outLen, hs4.maxLen]; omega
      · show b3.idx + numIn ≤ b3.len; rw [hs4.idx, hs4.len]; omega

theorem relabel_setOutArr_same (b : Buf) (l : List Info) : Same b (b.setOutArr l) := by
  unfold setOutArr; split <;> exact ⟨rfl, rfl, rfl, rfl, rfl⟩

theorem deleteGlyph_bnd {b b' : Buf} (h : b.deleteGlyph = .ok b') (hcur : b.idx < b.len) (hb : Bnd b) :
    Bnd b' ∧ b'.maxLen = b.maxLen := by
  have h1 := hb.len_le; have h2 := hb.out_le; have h3 := hb.idx_le
  have key : ∀ x : Buf, Same b x → Bnd x.skipGlyph ∧ x.skipGlyph.maxLen = b.maxLen := by
    intro x hs
    refine ⟨⟨?_, ?_, ?_⟩, hs.maxLen⟩
    · show x.len ≤ x.maxLen; rw [hs.len, hs.maxLen]; exact h1
    · show x.outLen ≤ x.maxLen; rw [hs.outLen, hs.maxLen]; exact h2
    · show x.idx + 1 ≤ x.len; rw [hs.idx, hs.len]; omega
  unfold deleteGlyph at h
  simp only [bind, Except.bind, pure, Except.pure, throw, throwThe, MonadExceptOf.throw] at h
  repeat' (split at h)
  all_goals first
    | (cases h; done)
    | contradiction
    | (injection h with h; subst h; first
        | exact key _ (Same.rfl' b)
        | exact key _ (relabel_setOutArr_same b _)
        | exact key _ (mergeClusters_same (by assumption)))


/-- one primitive, called within its contract, keeps the buffer inside the budget and leaves the budget alone -/
theorem prim_bnd {b b' : Buf} {p : Prim} (hpre : Prim.pre b p) (h : Prim.run b p = .ok b') (hb : Bnd b) :
    Bnd b' ∧ b'.maxLen = b.maxLen := by
  cases p with
  | clearOutput => simp [Prim.run, pure, Except.pure] at h; subst h; exact clearOutput_bnd hb
  | next => exact nextGlyph_bnd h hpre hb
  | nexts n => exact nextGlyphs_bnd h hpre hb
  | skip => simp [Prim.run, pure, Except.pure] at h; subst h; exact skipGlyph_bnd hpre hb
  | copy => exact copyGlyph_bnd h hb
  | replace g => exact replaceGlyph_bnd h hpre.1 hb
  | outputGlyph g => exact outputGlyph_bnd h hb
  | outputInfo x => exact outputInfo_bnd h hb
  | moveTo i =>
    simp only [Prim.run] at h
    obtain ⟨⟨b1, r⟩, hm, h⟩ := bind_ok h
    simp [pure, Except.pure] at h; subst h
    exact moveTo_bnd hm hb
  | sync =>
    simp only [Prim.run] at h
    obtain ⟨⟨b1, r⟩, hm, h⟩ := bind_ok h
    simp [pure, Except.pure] at h; subst h
    exact sync_bnd hm hb
  | replaceGlyphs numIn gs => exact replaceGlyphs_bnd h hb
  | deleteGlyph => exact deleteGlyph_bnd h hpre hb
  | mergeClusters s e => exact Bnd.of_same (mergeClusters_same h) hb
  | mergeOutClusters s e => exact Bnd.of_same (mergeOutClusters_same h) hb
  | unsafeToBreak s e => exact Bnd.of_same (unsafeToBreak_same h) hb
  | unsafeToBreakFromOut s e => exact Bnd.of_same (unsafeToBreakFromOut_same h) hb
  | unsafeToConcat s e => exact Bnd.of_same (unsafeToConcat_same h) hb
  | unsafeToConcatFromOut s e => exact Bnd.of_same (unsafeToConcatFromOut_same h) hb
  | safeToInsertTatweel s e => exact Bnd.of_same (safeToInsertTatweel_same h) hb
  | setMasks v m s e => exact Bnd.of_same (setMasks_same h) hb
  | resetMasks m => exact Bnd.of_same (resetMasks_same h) hb
  | reverseRange s e => exact Bnd.of_same (reverseRange_same h) hb
  | reverse => exact Bnd.of_same (reverse_same h) hb

theorem steps_bnd {b b' : Buf} {ps : List Prim} (h : Steps b ps b') (hb : Bnd b) :
    Bnd b' ∧ b'.maxLen = b.maxLen := by
  induction h with
  | nil b => exact ⟨hb, rfl⟩
  | cons hpre hrun _ ih =>
    obtain ⟨hb1, hm1⟩ := prim_bnd hpre hrun hb
    obtain ⟨hb2, hm2⟩ := ih hb1
    exact ⟨hb2, hm2.trans hm1⟩

end RbModel.Buf
