/-
  Helper lemmas for C05 (life cycle, schedules).
-/
import RbModel.Lifecycle
import RbModel.Sched

namespace RbModel
namespace Life

/-! ### guess_segment_properties is idempotent -/

theorem bind_ok {α β : Type} {x : M α} {f : α → M β} {r : β} (h : (x >>= f) = .ok r) :
    ∃ a, x = .ok a ∧ f a = .ok r := by
  cases x with
  | error e => simp [bind, Except.bind] at h
  | ok a => exact ⟨a, rfl, h⟩

theorem guessScript_guess (ud : UData) (u : UBuf) : guessScript ud (guess ud u) = guessScript ud u := by
  simp only [guess, guessScript]
  cases hs : u.script with
  | some s => rfl
  | none =>
    cases hf : firstScript ud u.b.info with
    | some s => rfl
    | none => simp [hf]

theorem guessDir_ne (ud : UData) (s : Option Nat) (d : Nat) : guessDir ud s d ≠ DIR_INVALID := by
  unfold guessDir
  by_cases hd : d = DIR_INVALID
  · cases s with
    | none => simp [hd, DIR_LTR, DIR_INVALID]
    | some s =>
      by_cases h2 : ud.dirOf s = 0
      · simp [hd, h2, DIR_LTR, DIR_INVALID]
      · simp [hd, h2, DIR_LTR, DIR_INVALID]
  · simp [hd]

theorem guessDir_idem (ud : UData) (s : Option Nat) (d : Nat) : guessDir ud s (guessDir ud s d) = guessDir ud s d := by
  have h := guessDir_ne ud s d
  generalize guessDir ud s d = x at h
  unfold guessDir
  simp [h]

theorem guess_idem (ud : UData) (u : UBuf) : guess ud (guess ud u) = guess ud u := by
  have h1 := guessScript_guess ud u
  show ({ guess ud u with script := guessScript ud (guess ud u),
                          dir := guessDir ud (guessScript ud (guess ud u)) (guess ud u).dir } : UBuf) = guess ud u
  rw [h1]
  show _ = ({ u with script := guessScript ud u, dir := guessDir ud (guessScript ud u) u.dir } : UBuf)
  simp only [guess, guessDir_idem]

/-! ### the limits are at their defaults between public calls -/

def LimitsDefault (u : UBuf) : Prop :=
  u.b.maxLen = Buf.MAX_LEN_DEFAULT ∧ u.b.maxOps = Buf.MAX_OPS_DEFAULT

theorem ensure_limits (b : Buf) (n : Nat) :
    (b.ensure n).1.maxLen = b.maxLen ∧ (b.ensure n).1.maxOps = b.maxOps := by
  unfold Buf.ensure
  split
  · exact ⟨rfl, rfl⟩
  · split
    · exact ⟨rfl, rfl⟩
    · split <;> exact ⟨rfl, rfl⟩

theorem bufAdd_limits {b b' : Buf} {c cl : Nat} (h : b.add c cl = .ok b') :
    b'.maxLen = b.maxLen ∧ b'.maxOps = b.maxOps := by
  unfold Buf.add at h
  have he := ensure_limits b (b.len + 1)
  rcases hx : b.ensure (b.len + 1) with ⟨b1, ok⟩
  rw [hx] at h he
  simp only at he
  cases ok with
  | false =>
    simp [pure, Except.pure] at h
    subst h; exact he
  | true =>
    simp only [Bool.not_true, Bool.false_eq_true, if_false] at h
    obtain ⟨l, _, h⟩ := bind_ok h
    simp [pure, Except.pure] at h
    subst h; exact he

theorem pushLoop_limits : ∀ (cps : List Nat) (b b' : Buf) (off : Nat), pushLoop b cps off = .ok b' →
    b'.maxLen = b.maxLen ∧ b'.maxOps = b.maxOps := by
  intro cps
  induction cps with
  | nil => intro b b' off h; simp [pushLoop, pure, Except.pure] at h; subst h; exact ⟨rfl, rfl⟩
  | cons c rest ih =>
    intro b b' off h
    simp only [pushLoop, bind, Except.bind] at h
    cases ha : b.add c off with
    | error e => simp [ha] at h
    | ok b1 =>
      simp only [ha] at h
      have h1 := bufAdd_limits ha
      have h2 := ih b1 b' _ h
      exact ⟨h2.1.trans h1.1, h2.2.trans h1.2⟩

theorem add_limits {u u' : UBuf} {c cl : Nat} (h : add u c cl = .ok u') (hl : LimitsDefault u) :
    LimitsDefault u' := by
  unfold add at h
  simp only [bind, Except.bind] at h
  cases ha : u.b.add c cl with
  | error e => simp [ha] at h
  | ok b1 =>
    simp [ha, pure, Except.pure] at h
    subst h
    have := bufAdd_limits ha
    exact ⟨this.1.trans hl.1, this.2.trans hl.2⟩

theorem pushStr_limits {u u' : UBuf} {cps : List Nat} (h : pushStr u cps = .ok u') (hl : LimitsDefault u) :
    LimitsDefault u' := by
  unfold pushStr at h
  have he := ensure_limits u.b (u.b.len + cps.length)
  rcases hx : u.b.ensure (u.b.len + cps.length) with ⟨b1, ok⟩
  rw [hx] at h he
  simp only at he
  cases ok with
  | false =>
    simp [pure, Except.pure] at h
    subst h
    exact ⟨he.1.trans hl.1, he.2.trans hl.2⟩
  | true =>
    simp only [Bool.not_true, Bool.false_eq_true, if_false, bind, Except.bind] at h
    cases hp : pushLoop b1 cps 0 with
    | error e => simp [hp] at h
    | ok b2 =>
      simp [hp, pure, Except.pure] at h
      subst h
      have := pushLoop_limits cps b1 b2 0 hp
      exact ⟨(this.1.trans he.1).trans hl.1, (this.2.trans he.2).trans hl.2⟩

theorem leave_limits (u : UBuf) : LimitsDefault (leave u) := ⟨rfl, rfl⟩

/-- the point of D9: with `leave()` at the end of `shape_with_plan`, every exit path restores the limits -/
theorem shapeWithPlan_limits (hg : Gen.Lifecycle.leaveAtEnd = true) (ud : UData) (body : UBuf → UBuf)
    (u : UBuf) : LimitsDefault (shapeWithPlan ud body u) := by
  unfold shapeWithPlan
  simp only [hg, if_true]
  exact leave_limits _

theorem reach_limits (hg : Gen.Lifecycle.leaveAtEnd = true) (ud : UData) (u : UBuf) (h : Reach ud u) :
    LimitsDefault u := by
  induction h with
  | new => exact ⟨rfl, rfl⟩
  | add c cl _ ha ih => exact add_limits ha ih
  | push cps _ hp ih => exact pushStr_limits hp ih
  | setDirection d _ ih => exact ih
  | setScript s _ ih => exact ih
  | setLanguage l _ ih => exact ih
  | setFlags f _ ih => exact ih
  | setClusterLevel l _ ih => exact ih
  | setNfvs g _ ih => exact ih
  | setPre cps _ ih => exact ih
  | setPost cps _ ih => exact ih
  | guess _ ih => exact ih
  | resetClusters _ ih => exact ih
  | clear _ ih => exact ih
  | shape body _ _ => exact shapeWithPlan_limits hg ud body _

/-- `clear()` resets every field of the model except `flags`, `maxLen`, `maxOps`, `shapingFailed` -/
theorem observe_clear (u : UBuf) (hl : LimitsDefault u) : observe (clear u) = observe new := by
  obtain ⟨h1, h2⟩ := hl
  unfold observe clear new Buf.clear
  simp only [h1, h2]
  rfl

/-! ### requests do not look at `shapingFailed`, and overwrite `flags` -/

/-- two buffers that agree on everything but `flags` and `shapingFailed` -/
def Same (u v : UBuf) : Prop := observe u = observe v

theorem ensure_flags (b : Buf) (f n : Nat) :
    ({ b with flags := f } : Buf).ensure n = ({ (b.ensure n).1 with flags := f }, (b.ensure n).2) := by
  unfold Buf.ensure
  simp only
  split
  · rfl
  · split
    · rfl
    · split <;> rfl

theorem bufAdd_flags (b : Buf) (f c cl : Nat) :
    ({ b with flags := f } : Buf).add c cl = (b.add c cl).map (fun r => { r with flags := f }) := by
  unfold Buf.add
  rw [ensure_flags]
  rcases hx : b.ensure (b.len + 1) with ⟨b1, ok⟩
  cases ok with
  | false => simp [pure, Except.pure, Except.map]
  | true =>
    simp only [Bool.not_true, Bool.false_eq_true, if_false, bind, Except.bind]
    cases hp : Buf.put b1.info b1.len { gid := c, mask := 0, cluster := cl } with
    | error e => simp [Except.map]
    | ok l => simp [pure, Except.pure, Except.map]

/-- `add` commutes with overwriting flags / shapingFailed -/
theorem add_frame (u : UBuf) (f : Nat) (sf : Bool) (c cl : Nat) :
    add { u with b := { u.b with flags := f }, shapingFailed := sf } c cl =
      (add u c cl).map (fun r => { r with b := { r.b with flags := f }, shapingFailed := sf }) := by
  unfold add
  simp only [bind, Except.bind]
  rw [bufAdd_flags]
  cases ha : u.b.add c cl with
  | error e => simp [Except.map]
  | ok b1 => simp [Except.map, pure, Except.pure]

theorem addAll_frame : ∀ (t : List (Nat × Nat)) (u : UBuf) (f : Nat) (sf : Bool),
    addAll { u with b := { u.b with flags := f }, shapingFailed := sf } t =
      (addAll u t).map (fun r => { r with b := { r.b with flags := f }, shapingFailed := sf }) := by
  intro t
  induction t with
  | nil => intro u f sf; simp [addAll, pure, Except.pure, Except.map]
  | cons p rest ih =>
    intro u f sf
    obtain ⟨c, cl⟩ := p
    simp only [addAll, bind, Except.bind]
    rw [add_frame]
    cases ha : add u c cl with
    | error e => simp [Except.map]
    | ok u1 =>
      simp only [Except.map]
      exact ih u1 f sf

/-- `enter()` overwrites `shaping_failed`; `flags` pass through the whole call as an input -/
theorem shapeWithPlan_sf (ud : UData) (body : UBuf → UBuf) (u : UBuf) (sf : Bool) :
    shapeWithPlan ud body { u with shapingFailed := sf } = shapeWithPlan ud body u := by
  unfold shapeWithPlan guess enter
  rfl

theorem eq_of_observe_eq {u v : UBuf} (h : observe u = observe v) :
    u = { v with b := { v.b with flags := u.b.flags }, shapingFailed := u.shapingFailed } := by
  obtain ⟨⟨i1, o1, x1, l1, ol1, ho1, so1, hp1, su1, le1, f1, sc1, ml1, mo1, se1⟩, d1, s1, la1, p1, q1, sf1, n1⟩ := u
  obtain ⟨⟨i2, o2, x2, l2, ol2, ho2, so2, hp2, su2, le2, f2, sc2, ml2, mo2, se2⟩, d2, s2, la2, p2, q2, sf2, n2⟩ := v
  simp only [observe, UBuf.mk.injEq, Buf.mk.injEq] at h
  simp only [UBuf.mk.injEq, Buf.mk.injEq]
  simp_all

theorem applyReq_frame (r : Req) (v : UBuf) (f : Nat) (sf : Bool) :
    applyReq r { v with b := { v.b with flags := f }, shapingFailed := sf } =
      (applyReq r v).map (fun x => { x with shapingFailed := sf }) := by
  unfold applyReq
  simp only [bind, Except.bind]
  rw [addAll_frame]
  cases ha : addAll v r.text with
  | error e => simp [Except.map]
  | ok u1 =>
    simp only [Except.map, pure, Except.pure]
    congr 1
    cases r.dir <;> cases r.script <;> cases r.lang <;> cases r.nfvs <;>
      cases r.pre.isEmpty <;> cases r.post.isEmpty <;> rfl

theorem shapeWithPlan_guess (ud : UData) (body : UBuf → UBuf) (u : UBuf) :
    shapeWithPlan ud body (guess ud u) = shapeWithPlan ud body u := by
  unfold shapeWithPlan
  rw [guess_idem]

end Life

/-! ### schedules -/
namespace Sched

variable {Sh G B Rq Rs : Type}

/-- `k` own steps of a thread when the shared state stays `g` -/
def advance (exec : Exec Sh G B Rq Rs) (sh : Sh) (g : G) : Nat → Thread B Rq Rs → Thread B Rq Rs
  | 0, t => t
  | k + 1, t => advance exec sh g k (stepThread exec sh g t).2

theorem stepThread_g (exec : Exec Sh G B Rq Rs) (hf : Frame exec) (sh : Sh) (g : G) (t : Thread B Rq Rs) :
    (stepThread exec sh g t).1 = g := by
  unfold stepThread
  cases t.todo with
  | nil => rfl
  | cons r rest => exact hf sh g r t.buf

theorem step_g (exec : Exec Sh G B Rq Rs) (hf : Frame exec) (sh : Sh) (s : State G B Rq Rs) (i : Nat) :
    (step exec sh s i).g = s.g := by
  unfold step
  cases h : s.threads[i]? with
  | none => rfl
  | some t => exact stepThread_g exec hf sh s.g t

theorem step_len (exec : Exec Sh G B Rq Rs) (sh : Sh) (s : State G B Rq Rs) (i : Nat) :
    (step exec sh s i).threads.length = s.threads.length := by
  unfold step
  cases h : s.threads[i]? with
  | none => rfl
  | some t => simp

theorem step_self (exec : Exec Sh G B Rq Rs) (sh : Sh) (s : State G B Rq Rs) (i : Nat) (t : Thread B Rq Rs)
    (h : s.threads[i]? = some t) :
    (step exec sh s i).threads[i]? = some (stepThread exec sh s.g t).2 := by
  unfold step
  simp only [h]
  have hi : i < s.threads.length := by
    rcases Nat.lt_or_ge i s.threads.length with hlt | hge
    · exact hlt
    · rw [List.getElem?_eq_none hge] at h; cases h
  rw [List.getElem?_set_self hi]

theorem step_other (exec : Exec Sh G B Rq Rs) (sh : Sh) (s : State G B Rq Rs) (i j : Nat) (hne : j ≠ i) :
    (step exec sh s j).threads[i]? = s.threads[i]? := by
  unfold step
  cases h : s.threads[j]? with
  | none => rfl
  | some t => simp only; rw [List.getElem?_set_ne hne]

/-- the frame argument: under `Frame`, what thread `i` has after any schedule is what it gets from its own
    steps alone, and the shared state never moves -/
theorem run_thread (exec : Exec Sh G B Rq Rs) (hf : Frame exec) (sh : Sh) :
    ∀ (sched : List Nat) (s : State G B Rq Rs) (i : Nat) (t : Thread B Rq Rs), s.threads[i]? = some t →
      (run exec sh s sched).g = s.g ∧
      (run exec sh s sched).threads[i]? = some (advance exec sh s.g (sched.count i) t) := by
  intro sched
  induction sched with
  | nil => intro s i t h; exact ⟨rfl, by simpa [run, advance] using h⟩
  | cons j rest ih =>
    intro s i t h
    have hg := step_g exec hf sh s j
    simp only [run, List.foldl_cons]
    by_cases hji : j = i
    · subst hji
      have h1 := step_self exec sh s j t h
      obtain ⟨g2, t2⟩ := ih (step exec sh s j) j _ h1
      refine ⟨by simpa [run, hg] using g2, ?_⟩
      simp only [run] at t2
      rw [t2, hg]
      simp [List.count_cons_self, advance]
    · have h1 : (step exec sh s j).threads[i]? = some t := by rw [step_other exec sh s i j hji]; exact h
      obtain ⟨g2, t2⟩ := ih (step exec sh s j) i t h1
      refine ⟨by simpa [run, hg] using g2, ?_⟩
      simp only [run] at t2
      rw [t2, hg]
      have : (j :: rest).count i = rest.count i := by
        rw [List.count_cons]; simp [hji]
      rw [this]

/-- enough own steps finish the request list with the results of running alone -/
theorem advance_done (exec : Exec Sh G B Rq Rs) (sh : Sh) (g : G) :
    ∀ (k : Nat) (t : Thread B Rq Rs), t.todo.length ≤ k →
      (advance exec sh g k t).todo = [] ∧
      (advance exec sh g k t).done = t.done ++ runAlone exec sh g t.buf t.todo := by
  intro k
  induction k with
  | zero =>
    intro t h
    have : t.todo = [] := List.eq_nil_of_length_eq_zero (Nat.le_zero.mp h)
    simp [advance, this, runAlone]
  | succ k ih =>
    intro t h
    simp only [advance]
    cases ht : t.todo with
    | nil =>
      have hs : (stepThread exec sh g t).2 = t := by simp [stepThread, ht]
      rw [hs]
      have := ih t (by simp [ht])
      simpa [ht] using this
    | cons r rest =>
      have hs : (stepThread exec sh g t).2 =
          { buf := (exec sh g r t.buf).2.1, todo := rest, done := t.done ++ [(exec sh g r t.buf).2.2] } := by
        simp [stepThread, ht]
      rw [hs]
      have hl : rest.length ≤ k := by rw [ht] at h; simp at h; omega
      have := ih { buf := (exec sh g r t.buf).2.1, todo := rest, done := t.done ++ [(exec sh g r t.buf).2.2] } hl
      simp only at this
      refine ⟨this.1, ?_⟩
      rw [this.2]
      simp [runAlone]

end Sched
end RbModel
