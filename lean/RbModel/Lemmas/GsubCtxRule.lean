/-
  Contextual GSUB lookups, step 1 assembled: the three matchers against `Spec.Subst.matchSeq` across `RelF`, on any state of
  the forward scan whose glyphs are `CtxG` (and whose unconsumed input is `Plain`).
-/
import RbModel.Lemmas.GsubCtxApply

namespace RbModel.Gsub
open RbModel RbModel.Buf RbModel.Mem RbModel.Spec.Subst

theorem relF_dropR {c : Ctx} {gs : List G} {x : Info} {R : List Info} (hinv : Inv c.buf) (hin : inP c.buf = x :: R)
    (hrel : RelF (outP c.buf ++ inP c.buf) gs) (k : Nat) : RelF (R.drop k) (gs.drop (c.buf.outLen + k + 1)) := by
  have hol := outP_length c.buf hinv
  have := hrel.drop (c.buf.outLen + k + 1)
  rw [hin, drop_more_append _ _ _ _ k hol] at this
  exact this

/-- `match_input` = `matchSeq` on the visible positions behind the current glyph, with the lookup's feature required -/
theorem matchInput_relF (c : Ctx) (n : Nat) (fn : Nat → Nat → Bool) (gs : List G) (x : Info) (R : List Info)
    (hinv : Inv c.buf) (hin : inP c.buf = x :: R) (hrel : RelF (outP c.buf ++ inP c.buf) gs)
    (hpl : ∀ y ∈ x :: R, Plain y) (hgid : ∀ y ∈ R, y.gid < 65536)
    (hp : NoSkipFlags c.lookupProps) (hps : c.perSyllable = false) (hshort : n + 1 ≤ MAX_CONTEXT_LENGTH)
    (hlmf : c.lookupMask &&& (U32MAX - Flag.DEFINED) = c.lookupMask) :
    ∃ r, matchInput c n fn [0, 0, 0, 0] = .ok r ∧
      match matchSeq gs (visibleFrom c.font c.lookupProps gs (c.buf.outLen + 1)) (fnPreds fn 0 n) (some c.lookupMask) with
      | none => r.ok = false
      | some ins => r.ok = true ∧ ins = List.range' (c.buf.outLen + 1) n ∧ n ≤ R.length ∧ r.endPos = c.buf.idx + n + 1 ∧
          n + 1 ≤ r.positions.length ∧ ∀ j, j ≤ n → r.positions[j]? = some (c.buf.idx + j) := by
  obtain ⟨r, hrun, hok, hrest⟩ := matchInput_fn c n fn x R hinv.len_le hin hpl hp hps hshort
  refine ⟨r, hrun, ?_⟩
  have hR := relF_dropR hinv hin hrel 0
  simp only [List.drop_zero, Nat.add_zero] at hR
  rw [matchSeq_after c.font c.lookupProps hp gs _ _ _, ← fnMatch_relF c.lookupMask hlmf fn n 0 R _ hR hgid, ← hok, fnPreds_length]
  cases hr : r.ok with
  | false => simp
  | true =>
    obtain ⟨hend, hlen, hpos⟩ := hrest hr
    simp only [if_true]
    have hnl : n ≤ R.length := fnMatch_length _ fn n 0 R (by rw [← hok]; exact hr)
    exact ⟨trivial, trivial, hnl, hend, hlen, hpos⟩

/-- `match_lookahead` behind a matched input of `k` glyphs -/
theorem matchLookahead_relF (c : Ctx) (n k : Nat) (fn : Nat → Nat → Bool) (gs : List G) (x : Info) (R : List Info)
    (hinv : Inv c.buf) (hin : inP c.buf = x :: R) (hrel : RelF (outP c.buf ++ inP c.buf) gs)
    (hgl : ∀ y ∈ R, CtxG y) (hp : NoSkipFlags c.lookupProps) (hps : c.perSyllable = false) :
    ∃ r, matchLookahead c n fn (c.buf.idx + k + 1) = .ok r ∧
      r.1 = (matchSeq gs (visibleFrom c.font c.lookupProps gs (c.buf.outLen + k + 1)) (fnPreds fn 0 n)).isSome := by
  obtain ⟨hcur, hx, hRw⟩ := window_cons c.buf.info c.buf.idx c.buf.len x R hin
  have hRk : (c.buf.info.drop (c.buf.idx + k + 1)).take (c.buf.len - (c.buf.idx + k + 1)) = R.drop k := by
    rw [← hRw, List.drop_take, List.drop_drop]
    congr 1
    · omega
    · congr 1; omega
  obtain ⟨r, hrun, hok, _⟩ := matchLookahead_fn c n fn (c.buf.idx + k + 1) (R.drop k) hinv.len_le (by omega) hRk
    (fun y hy => (hgl y (List.mem_of_mem_drop hy)).notDI) hp hps
  refine ⟨r, hrun, ?_⟩
  rw [hok, matchSeq_after c.font c.lookupProps hp gs _ _ _,
    fnMatch_relF_ctx fn n 0 (R.drop k) _ (relF_dropR hinv hin hrel k)
      (fun y hy => ⟨(hgl y (List.mem_of_mem_drop hy)).2.1, (hgl y (List.mem_of_mem_drop hy)).maskOn⟩)]
  cases predMatchG none (fnPreds fn 0 n) (gs.drop (c.buf.outLen + k + 1)) <;> simp

/-- the same with the end index on success (`k ≤ |R|`: the matched input lies inside the buffer) -/
theorem matchLookahead_relF' (c : Ctx) (n k : Nat) (fn : Nat → Nat → Bool) (gs : List G) (x : Info) (R : List Info)
    (hinv : Inv c.buf) (hin : inP c.buf = x :: R) (hrel : RelF (outP c.buf ++ inP c.buf) gs)
    (hgl : ∀ y ∈ R, CtxG y) (hp : NoSkipFlags c.lookupProps) (hps : c.perSyllable = false) (hk : k ≤ R.length) :
    ∃ r, matchLookahead c n fn (c.buf.idx + k + 1) = .ok r ∧
      r.1 = (matchSeq gs (visibleFrom c.font c.lookupProps gs (c.buf.outLen + k + 1)) (fnPreds fn 0 n)).isSome ∧
      (r.1 = true → r.2 = c.buf.idx + k + 1 + n ∧ k + n ≤ R.length) ∧ c.buf.idx + k + 1 ≤ r.2 := by
  obtain ⟨hcur, hx, hRw⟩ := window_cons c.buf.info c.buf.idx c.buf.len x R hin
  have hRk : (c.buf.info.drop (c.buf.idx + k + 1)).take (c.buf.len - (c.buf.idx + k + 1)) = R.drop k := by
    rw [← hRw, List.drop_take, List.drop_drop]
    congr 1
    · omega
    · congr 1; omega
  obtain ⟨r, hrun, hok, hend, hlo, _⟩ := matchLookahead_fn c n fn (c.buf.idx + k + 1) (R.drop k) hinv.len_le (by omega) hRk
    (fun y hy => (hgl y (List.mem_of_mem_drop hy)).notDI) hp hps
  refine ⟨r, hrun, ?_, ?_, hlo⟩
  · rw [hok, matchSeq_after c.font c.lookupProps hp gs _ _ _,
      fnMatch_relF_ctx fn n 0 (R.drop k) _ (relF_dropR hinv hin hrel k)
        (fun y hy => ⟨(hgl y (List.mem_of_mem_drop hy)).2.1, (hgl y (List.mem_of_mem_drop hy)).maskOn⟩)]
    cases predMatchG none (fnPreds fn 0 n) (gs.drop (c.buf.outLen + k + 1)) <;> simp
  · intro h
    refine ⟨hend h, ?_⟩
    have := fnMatch_length U32MAX fn n 0 (R.drop k) (by rw [← hok]; exact h)
    simp at this
    omega

/-- `match_backtrack` reads the OUT buffer: `matchSeq` on the visible positions before `out_len`, nearest first -/
theorem matchBacktrack_relF (c : Ctx) (n : Nat) (fn : Nat → Nat → Bool) (gs : List G)
    (hinv : Inv c.buf) (hrel : RelF (outP c.buf ++ inP c.buf) gs)
    (hgl : ∀ y ∈ outP c.buf, CtxG y) (hp : NoSkipFlags c.lookupProps) (hps : c.perSyllable = false) :
    ∃ r, matchBacktrack c n fn = .ok r ∧
      r.1 = (matchSeq gs (visibleBefore c.font c.lookupProps gs c.buf.outLen) (fnPreds fn 0 n)).isSome ∧ r.2 ≤ c.buf.outLen := by
  have hol := outP_length c.buf hinv
  have hcap : c.buf.outLen ≤ c.buf.outArr.length := by
    have : (outP c.buf).length ≤ c.buf.outArr.length := by unfold outP; simp; omega
    omega
  obtain ⟨r, hrun, hok, _, hle⟩ := matchBacktrack_fn c n fn hinv.have_out hcap (fun y hy => (hgl y hy).notDI) hp hps
  refine ⟨r, hrun, ?_, hle⟩
  have hle2 : c.buf.outLen ≤ gs.length := by rw [← hrel.length]; simp [hol]
  have hO : RelF (outP c.buf) (gs.take c.buf.outLen) := by
    have := hrel.take c.buf.outLen
    rw [List.take_left' hol] at this
    exact this
  have hOr : RelF (outP c.buf).reverse (gs.take c.buf.outLen).reverse := by
    unfold RelF at *
    rw [List.map_reverse, List.map_reverse, hO]
  rw [hok, matchSeq_before c.font c.lookupProps hp gs _ _ hle2]
  exact fnMatch_relF_ctx fn n 0 _ _ hOr (fun y hy => ⟨(hgl y (List.mem_reverse.1 hy)).2.1, (hgl y (List.mem_reverse.1 hy)).maskOn⟩)

end RbModel.Gsub
