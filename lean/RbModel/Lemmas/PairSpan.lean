/-
  "The flagged span covers what was inspected" for pair positioning — helper lemmas for the `C03_pairpos_*` / `C04_pairpos_*`
  theorems of Props/C03.lean and Props/C04.lean, and the shared "masks only grow" relation used by the kern lemmas
  (Lemmas/PairSpanKern.lean).

  `pairFindI` runs the code of `pairFind` (PairFlag.lean: coverage test of the current glyph, skipping iterator, record lookup)
  and returns, next to the result, the buffer indices whose glyph was READ (the current glyph, every glyph the iterator stepped
  over, the glyph it stopped at) and which path was taken.  `pairFindI_erase`: forgetting both gives `pairFind`.
-/
import RbModel.PairFlag
import RbModel.Lemmas.MatchSpanFlags
import RbModel.Lemmas.GposFlag

namespace RbModel.Flags
open RbModel

/-! ### masks only grow -/

/-- `l'` is `l` with bits ORed into some masks: same length, every other field untouched, no bit lost -/
def Grown (l l' : List Info) : Prop :=
  l'.length = l.length ∧ ∀ (j : Nat) (x : Info), l[j]? = some x → ∃ m, l'[j]? = some (orMask m x)

theorem orMask_zero (x : Info) : orMask 0 x = x := by
  simp [orMask]

theorem orMask_orMask (a b : Nat) (x : Info) : orMask b (orMask a x) = orMask (a ||| b) x := by
  simp [orMask, Nat.or_assoc]

theorem Grown.refl (l : List Info) : Grown l l :=
  ⟨rfl, fun j x h => ⟨0, by rw [orMask_zero]; exact h⟩⟩

theorem Grown.trans {a b c : List Info} (h1 : Grown a b) (h2 : Grown b c) : Grown a c := by
  refine ⟨h2.1.trans h1.1, ?_⟩
  intro j x hx
  obtain ⟨m1, hm1⟩ := h1.2 j x hx
  obtain ⟨m2, hm2⟩ := h2.2 j _ hm1
  exact ⟨m1 ||| m2, by rw [hm2, orMask_orMask]⟩

theorem Grown.of_upd {l l' : List Info} {p q m : Nat} {test : Info → Bool} (h : Upd l l' p q test (orMask m)) :
    Grown l l' := by
  refine ⟨h.1, ?_⟩
  intro j x hx
  by_cases c : p ≤ j ∧ j < q ∧ test x = true
  · exact ⟨m, by rw [Upd.at h hx, if_pos c]⟩
  · exact ⟨0, by rw [Upd.at h hx, if_neg c, orMask_zero]⟩

/-- the other direction: an entry of `l'` comes from an entry of `l` -/
theorem Grown.back {l l' : List Info} (h : Grown l l') {j : Nat} {y : Info} (hy : l'[j]? = some y) :
    ∃ x m, l[j]? = some x ∧ y = orMask m x := by
  have hj : j < l.length := by
    rw [← h.1]; exact (List.getElem?_eq_some_iff.mp hy).1
  obtain ⟨m, hm⟩ := h.2 j l[j] (List.getElem?_eq_getElem hj)
  rw [hy] at hm
  exact ⟨l[j], m, List.getElem?_eq_getElem hj, Option.some.inj hm⟩

theorem Grown.sameButMasks {l l' : List Info} (h : Grown l l') : SameButMasks l l' := by
  refine ⟨h.1, ?_⟩
  intro j y hy
  obtain ⟨x, m, hx, e⟩ := h.back hy
  exact ⟨x, hx, by rw [e]; rfl⟩

/-- a flag bit, once set, stays; the cluster does not change -/
theorem Grown.bit {l l' : List Info} (h : Grown l l') {j : Nat} {x : Info} (hx : l[j]? = some x) (bit : Nat)
    (hb : x.mask &&& bit ≠ 0) : ∃ y, l'[j]? = some y ∧ y.cluster = x.cluster ∧ y.mask &&& bit ≠ 0 := by
  obtain ⟨m, hm⟩ := h.2 j x hx
  exact ⟨_, hm, rfl, (or_and_ne_zero _ _ _).mpr (Or.inl hb)⟩

theorem Grown.cluster {l l' : List Info} (h : Grown l l') {j : Nat} {x : Info} (hx : l[j]? = some x) :
    ∃ y, l'[j]? = some y ∧ y.cluster = x.cluster := by
  obtain ⟨m, hm⟩ := h.2 j x hx
  exact ⟨_, hm, rfl⟩

theorem Grown.monoRange {l l' : List Info} (h : Grown l l') {s e : Nat} (hm : MonoRange l s e) : MonoRange l' s e :=
  MonoRange.of_sameButMasks h.sameButMasks hm

theorem Grown.u32 {l l' : List Info} (h : Grown l l') {s e : Nat}
    (hu : ∀ j x, s ≤ j → j < e → l[j]? = some x → x.cluster ≤ U32MAX) :
    ∀ j y, s ≤ j → j < e → l'[j]? = some y → y.cluster ≤ U32MAX := by
  intro j y h1 h2 hy
  obtain ⟨x, m, hx, e⟩ := h.back hy
  rw [e]; exact hu j x h1 h2 hx

theorem Grown.isRangeMin {l l' : List Info} (h : Grown l l') {s e m : Nat} (hm : IsRangeMin l' s e m) : IsRangeMin l s e m := by
  obtain ⟨hlb, j, y, h1, h2, hy, hc⟩ := hm
  refine ⟨?_, ?_⟩
  · intro k x a b hx
    obtain ⟨y', hy', hcl⟩ := h.cluster hx
    rw [← hcl]; exact hlb k y' a b hy'
  · obtain ⟨x, mm, hx, e⟩ := h.back hy
    exact ⟨j, x, h1, h2, hx, by rw [← hc, e]; rfl⟩

/-! ### the flag setters never lose a bit -/

theorem setGlyphFlags_clamp (b : Buf) (mask s e : Nat) (i o : Bool) :
    b.setGlyphFlags mask s (some e) i o = b.setGlyphFlags mask s (some (min e b.len)) i o := by
  simp [Buf.setGlyphFlags, Nat.min_assoc]

theorem setGlyphFlags_none (b : Buf) (mask s : Nat) (i o : Bool) :
    b.setGlyphFlags mask s none i o = b.setGlyphFlags mask s (some b.len) i o := by
  simp [Buf.setGlyphFlags]

/-- `unsafe_to_break(s, e)` with `s` inside the buffer and `s < e` (any `e`, clamped to `len`; any clusters): no panic, masks
    only grow, nothing else but the scratch flag changes -/
theorem unsafeToBreak_grown (b : Buf) (s e : Nat) (hs : s < b.len) (hse : s < e) (hlen : b.len ≤ b.info.length)
    (hu32 : ∀ j x, s ≤ j → j < b.len → b.info[j]? = some x → x.cluster ≤ U32MAX) :
    ∃ b', b.unsafeToBreak s (some e) = .ok b' ∧ Grown b.info b'.info ∧
      b' = { b with info := b'.info, scratch := b'.scratch } := by
  unfold Buf.unsafeToBreak
  rw [setGlyphFlags_clamp]
  have hs' : s < min e b.len := by omega
  have he' : min e b.len ≤ b.len := by omega
  by_cases h2 : s + 2 ≤ min e b.len
  · obtain ⟨info, r, p, q, hr, _, _, _, hu, _⟩ :=
      setGlyphFlags_interior_in b (Flag.UNSAFE_TO_BREAK ||| Flag.UNSAFE_TO_CONCAT) s (min e b.len) h2 he' hlen
        (fun j x a c d => hu32 j x a (by omega) d)
    exact ⟨_, hr, Grown.of_upd hu, rfl⟩
  · refine ⟨b, ?_, Grown.refl _, rfl⟩
    have hmin : min (min e b.len) b.len = min e b.len := by omega
    have h1 : s ≤ min e b.len := by omega
    have h3 : min e b.len - s < 2 := by omega
    simp [Buf.setGlyphFlags, hmin, h1, h3]
    rfl

/-- `unsafe_to_concat(s, e)` with `s ≤ e ≤ len`: no panic, masks only grow -/
theorem unsafeToConcat_grown (b : Buf) (s e : Nat) (hse : s ≤ e) (he : e ≤ b.len) (hlen : b.len ≤ b.info.length) :
    ∃ b', b.unsafeToConcat s (some e) = .ok b' ∧ Grown b.info b'.info ∧
      b' = { b with info := b'.info, scratch := b'.scratch } := by
  by_cases hreq : b.flags &&& Gen.Buf.produceUnsafeToConcat = 0
  · refine ⟨b, ?_, Grown.refl _, rfl⟩
    unfold Buf.unsafeToConcat
    simp [hreq]
    rfl
  · obtain ⟨b', hb, hu, hb'⟩ := unsafeToConcat_span b s e hreq hse he hlen
    exact ⟨b', hb, Grown.of_upd hu, hb'⟩

theorem unsafeToConcat_none (b : Buf) (s : Nat) : b.unsafeToConcat s none = b.unsafeToConcat s (some b.len) := by
  unfold Buf.unsafeToConcat
  rw [setGlyphFlags_none]

/-- `unsafe_to_break(s, e)` on a monotone range (the statement of `C03_interior`, Props/C03.lean, restated here because the
    property files import this one) -/
theorem unsafeToBreak_mono (b : Buf) (s e : Nat) (hse : s < e) (he : e ≤ b.len) (hlen : b.len ≤ b.info.length)
    (hu32 : ∀ j x, s ≤ j → j < e → b.info[j]? = some x → x.cluster ≤ U32MAX) (hmono : MonoRange b.info s e) :
    ∃ b' m, b.unsafeToBreak s (some e) = .ok b' ∧ IsRangeMin b.info s e m ∧
      Upd b.info b'.info s e (neCl m) (orMask (Flag.UNSAFE_TO_BREAK ||| Flag.UNSAFE_TO_CONCAT)) ∧
      b' = { b with info := b'.info, scratch := b'.scratch } := by
  by_cases h2 : s + 2 ≤ e
  · obtain ⟨info, r, p, q, hr, _, _, _, _, hatt, hlb, hex⟩ :=
      setGlyphFlags_interior_in b (Flag.UNSAFE_TO_BREAK ||| Flag.UNSAFE_TO_CONCAT) s e h2 he hlen hu32
    exact ⟨_, r, hr, ⟨hlb (Or.inr hmono), hatt⟩, hex hmono, rfl⟩
  · have hes : e = s + 1 := by omega
    subst hes
    have hs : s < b.info.length := by omega
    have hx : b.info[s]? = some b.info[s] := List.getElem?_eq_getElem hs
    refine ⟨b, b.info[s].cluster, ?_, ⟨?_, s, b.info[s], Nat.le_refl _, by omega, hx, rfl⟩, ?_, rfl⟩
    · have hmin : min (s + 1) b.len = s + 1 := by omega
      simp [Buf.unsafeToBreak, Buf.setGlyphFlags, hmin]
      rfl
    · intro j x h1 h2 hjx
      have : j = s := by omega
      subst this
      rw [hx] at hjx; cases hjx; exact Nat.le_refl _
    · apply Upd.widen (Upd.empty b.info s _ _) (Nat.le_refl _) (by omega)
      intro j x h1 h2 _ hjx
      have : j = s := by omega
      subst this
      rw [hx] at hjx; cases hjx
      simp [neCl]

end RbModel.Flags

namespace RbModel.PairFlag
open RbModel RbModel.Gsub RbModel.GposFlag RbModel.Flags
open RbModel.Gpos (Pos Dir ValueRecordD pairApplyD)

/-! ### PairPos: the instrumented find -/

/-- which path of `PairAdjustment::apply` was taken -/
inductive PairWhy where
  /-- `self.coverage().get(first_glyph)?` failed -/
  | uncovered
  /-- `iter.next(..)` found no second glyph -/
  | noSecond
  /-- `sets.get(first_glyph_coverage_index)?` failed (null / unreadable PairSet offset) — after the iterator ran -/
  | noSet
  /-- no record for the pair (format 1: not in the PairSet; format 2: class pair outside the matrix) -/
  | noRecord
  /-- the pair has records (possibly empty ones) -/
  | records
  deriving DecidableEq, Repr

/-- `pairFind` with the buffer indices read and the path taken -/
def pairFindI (c : Ctx) (pd : PairData) : RbModel.M (PairFound × List Nat × PairWhy) :=
  match Mem.get c.buf.info c.buf.idx with
  | .error e => .error e
  | .ok cur =>
    let first := cur.gid % 65536
    if !pd.covered first then .ok (.notCovered, [c.buf.idx], .uncovered)
    else
      match It.new c c.buf.idx false with
      | .error e => .error e
      | .ok it =>
        match It.nextI it c.font c.buf.info c.buf.len with
        | .error e => .error e
        | .ok ((false, _, unsafeTo), rs) => .ok (.noSecond unsafeTo, c.buf.idx :: rs, .noSecond)
        | .ok ((true, it, _), rs) =>
          match Mem.get c.buf.info it.idx with
          | .error e => .error e
          | .ok sec =>
            if !pd.hasSet first then .ok (.notCovered, c.buf.idx :: rs, .noSet)
            else
              match pd.records first (sec.gid % 65536) with
              | none => .ok (.noRecord it.idx, c.buf.idx :: rs, .noRecord)
              | some (v1, v2) => .ok (.records it.idx v1 v2, c.buf.idx :: rs, .records)

theorem pairFindI_erase (c : Ctx) (pd : PairData) : (pairFindI c pd).map (·.1) = pairFind c pd := by
  unfold pairFindI pairFind
  cases Mem.get c.buf.info c.buf.idx with
  | error e => rfl
  | ok cur =>
    simp only
    split
    · rfl
    · cases It.new c c.buf.idx false with
      | error e => rfl
      | ok it =>
        simp only
        rw [← It.nextI_erase]
        cases It.nextI it c.font c.buf.info c.buf.len with
        | error e => rfl
        | ok r =>
          obtain ⟨⟨fd, it2, u⟩, rs⟩ := r
          cases fd with
          | false => rfl
          | true =>
            simp only [Except.map]
            cases Mem.get c.buf.info it2.idx with
            | error e => rfl
            | ok sec =>
              simp only
              by_cases hh : (!pd.hasSet (cur.gid % 65536)) = true
              · simp only [hh, if_true]
              · simp only [hh]
                cases pd.records (cur.gid % 65536) (sec.gid % 65536) with
                | none => rfl
                | some v => rfl

/-- the reads of `[idx, e)`: the current glyph is among them, all lie in the span, the span is inside the buffer -/
structure PairSpan (c : Ctx) (e : Nat) (rs : List Nat) : Prop where
  lo : c.buf.idx < e
  hi : e ≤ c.buf.len
  cur : c.buf.idx ∈ rs
  all : ∀ i ∈ rs, c.buf.idx ≤ i ∧ i < e

/-- where `pairFindI` reads, per path -/
theorem pairFindI_span (c : Ctx) (pd : PairData) (found : PairFound) (rs : List Nat) (why : PairWhy)
    (h : pairFindI c pd = .ok (found, rs, why)) (hidx : c.buf.idx < c.buf.len) :
    (why = .uncovered → found = .notCovered ∧ rs = [c.buf.idx]) ∧
    (why = .noSecond → ∃ u, found = .noSecond u ∧ PairSpan c u rs) ∧
    (why = .noSet → found = .notCovered ∧ ∃ j, c.buf.idx < j ∧ j ∈ rs ∧ PairSpan c (j + 1) rs) ∧
    (why = .noRecord → ∃ j, found = .noRecord j ∧ c.buf.idx < j ∧ j ∈ rs ∧ PairSpan c (j + 1) rs) ∧
    (why = .records → ∃ j v1 v2, found = .records j v1 v2 ∧ c.buf.idx < j ∧ j ∈ rs ∧ PairSpan c (j + 1) rs) ∧
    (∀ u, found = .noSecond u → why = .noSecond) ∧ (∀ j, found = .noRecord j → why = .noRecord) ∧
    (∀ j v1 v2, found = .records j v1 v2 → why = .records) := by
  unfold pairFindI at h
  cases hg : Mem.get c.buf.info c.buf.idx with
  | error e => simp [hg] at h
  | ok cur =>
    simp only [hg] at h
    split at h
    · simp only [Except.ok.injEq, Prod.mk.injEq] at h
      obtain ⟨rfl, rfl, rfl⟩ := h
      simp
    · cases hn : It.new c c.buf.idx false with
      | error e => simp [hn] at h
      | ok it =>
        obtain ⟨n1, n2⟩ := It.new_ok hn
        simp only [hn] at h
        cases hx : It.nextI it c.font c.buf.info c.buf.len with
        | error e => simp [hx] at h
        | ok r =>
          obtain ⟨⟨fd, it2, u⟩, rs2⟩ := r
          obtain ⟨a1, a2, a3, a4, a5, a6⟩ := It.nextI_span _ _ _ _ _ _ _ _ hx
          rw [n1] at a2 a3 a4
          rw [n2] at a1 a3
          have hlt := a3 hidx
          simp only [hx] at h
          have span : ∀ e, it2.idx < e → e ≤ c.buf.len → PairSpan c e (c.buf.idx :: rs2) := by
            intro e h1 h2
            refine ⟨by omega, h2, List.mem_cons_self .., ?_⟩
            intro i hi
            rcases List.mem_cons.mp hi with hi | hi
            · subst hi; exact ⟨Nat.le_refl _, by omega⟩
            · have := a4 i hi; omega
          cases fd with
          | false =>
            simp only [Except.ok.injEq, Prod.mk.injEq] at h
            obtain ⟨rfl, rfl, rfl⟩ := h
            have hu := a6 rfl
            refine ⟨by simp, fun _ => ⟨u, rfl, span u (by omega) (by omega)⟩, by simp, by simp, by simp, by simp, by simp, by simp⟩
          | true =>
            have hj := a5 rfl
            have hij : c.buf.idx < it2.idx := (a4 _ hj).1
            simp only at h
            cases hs : Mem.get c.buf.info it2.idx with
            | error e => simp [hs] at h
            | ok sec =>
              simp only [hs] at h
              have sp := span (it2.idx + 1) (by omega) (by omega)
              have hjm : it2.idx ∈ c.buf.idx :: rs2 := List.mem_cons_of_mem _ hj
              split at h
              · simp only [Except.ok.injEq, Prod.mk.injEq] at h
                obtain ⟨rfl, rfl, rfl⟩ := h
                refine ⟨by simp, by simp, fun _ => ⟨rfl, it2.idx, hij, hjm, sp⟩, by simp, by simp, by simp, by simp, by simp⟩
              · split at h
                · simp only [Except.ok.injEq, Prod.mk.injEq] at h
                  obtain ⟨rfl, rfl, rfl⟩ := h
                  refine ⟨by simp, by simp, by simp, fun _ => ⟨it2.idx, rfl, hij, hjm, sp⟩, by simp, by simp, by simp, by simp⟩
                · simp only [Except.ok.injEq, Prod.mk.injEq] at h
                  obtain ⟨rfl, rfl, rfl⟩ := h
                  refine ⟨by simp, by simp, by simp, by simp, fun _ => ⟨it2.idx, _, _, rfl, hij, hjm, sp⟩, by simp, by simp, by simp⟩


/-- **the decision of PairPos is local**: a context with the same settings and geometry whose buffer holds the same glyphs at
    every index read finds the same thing, on the same path, reading the same indices -/
theorem pairFindI_local {c1 c2 : Ctx} (hs : Similar c1 c2) (pd : PairData) (found : PairFound) (rs : List Nat) (why : PairWhy)
    (h : pairFindI c1 pd = .ok (found, rs, why)) (hag : ∀ i ∈ rs, c1.buf.info[i]? = c2.buf.info[i]?) :
    pairFindI c2 pd = .ok (found, rs, why) := by
  have hcur : c1.buf.idx ∈ rs := by
    unfold pairFindI at h
    cases hg : Mem.get c1.buf.info c1.buf.idx with
    | error e => simp [hg] at h
    | ok cur =>
      simp only [hg] at h
      split at h
      · simp only [Except.ok.injEq, Prod.mk.injEq] at h; rw [← h.2.1]; exact List.mem_cons_self ..
      · cases hn : It.new c1 c1.buf.idx false with
        | error e => simp [hn] at h
        | ok it =>
          simp only [hn] at h
          cases hx : It.nextI it c1.font c1.buf.info c1.buf.len with
          | error e => simp [hx] at h
          | ok r =>
            obtain ⟨⟨fd, it2, u⟩, rs2⟩ := r
            simp only [hx] at h
            cases fd with
            | false => simp only [Except.ok.injEq, Prod.mk.injEq] at h; rw [← h.2.1]; exact List.mem_cons_self ..
            | true =>
              simp only at h
              cases hg2 : Mem.get c1.buf.info it2.idx with
              | error e => simp [hg2] at h
              | ok sec =>
                simp only [hg2] at h
                split at h
                · simp only [Except.ok.injEq, Prod.mk.injEq] at h; rw [← h.2.1]; exact List.mem_cons_self ..
                · split at h <;>
                    (simp only [Except.ok.injEq, Prod.mk.injEq] at h; rw [← h.2.1]; exact List.mem_cons_self ..)
  have hc := hag _ hcur
  unfold pairFindI at h ⊢
  rw [hs.idx, hs.len, hs.font, get_congr hc, It.new_local hs hc]
  cases hg : Mem.get c1.buf.info c1.buf.idx with
  | error e => simp [hg] at h
  | ok cur =>
    simp only [hg] at h ⊢
    split at h
    · rename_i hcv; rw [if_pos hcv]; exact h
    · rename_i hcv
      rw [if_neg hcv]
      cases hn : It.new c1 c1.buf.idx false with
      | error e => simp [hn] at h
      | ok it =>
        simp only [hn] at h ⊢
        cases hx : It.nextI it c1.font c1.buf.info c1.buf.len with
        | error e => simp [hx] at h
        | ok r =>
          obtain ⟨⟨fd, it2, u⟩, rs2⟩ := r
          simp only [hx] at h
          have hrs : ∀ i ∈ rs2, c1.buf.info[i]? = c2.buf.info[i]? := by
            intro i hi
            apply hag
            cases fd with
            | false =>
              simp only [Except.ok.injEq, Prod.mk.injEq] at h; rw [← h.2.1]; exact List.mem_cons_of_mem _ hi
            | true =>
              simp only at h
              cases hg2 : Mem.get c1.buf.info it2.idx with
              | error e => simp [hg2] at h
              | ok sec =>
                simp only [hg2] at h
                split at h
                · simp only [Except.ok.injEq, Prod.mk.injEq] at h; rw [← h.2.1]; exact List.mem_cons_of_mem _ hi
                · split at h <;>
                    (simp only [Except.ok.injEq, Prod.mk.injEq] at h; rw [← h.2.1]; exact List.mem_cons_of_mem _ hi)
          rw [It.nextI_local c1.font c1.buf.info c2.buf.info _ _ _ _ hx hrs]
          cases fd with
          | false => exact h
          | true =>
            simp only at h ⊢
            obtain ⟨_, _, _, _, a5, _⟩ := It.nextI_span _ _ _ _ _ _ _ _ hx
            rw [get_congr (hrs _ (a5 rfl))]
            exact h

/-- `finish`: masks only grow, the cursor moves to the second glyph (or past it) -/
theorem pairFinish_grown (b b' : Buf) (j : Nat) (has2 : Bool) (h : pairFinish b j has2 = .ok b') (hij : b.idx ≤ j)
    (hj : j < b.len) (hlen : b.len ≤ b.info.length)
    (hu32 : ∀ k x, b.idx ≤ k → k < b.len → b.info[k]? = some x → x.cluster ≤ U32MAX) :
    Grown b.info b'.info ∧ b'.idx = (if has2 then j + 1 else j) := by
  unfold pairFinish at h
  cases has2 with
  | false =>
    simp only [Bool.false_eq_true, if_false, pure, Except.pure, Except.ok.injEq] at h
    subst h
    exact ⟨Grown.refl _, rfl⟩
  | true =>
    simp only [if_true, bind, Except.bind] at h
    obtain ⟨b1, hb1, hg, hb1'⟩ := unsafeToBreak_grown b b.idx (j + 2) (by omega) (by omega) hlen hu32
    rw [hb1] at h
    simp only [pure, Except.pure, Except.ok.injEq] at h
    subst h
    exact ⟨hg, rfl⟩


/-- the common first step: the instrumented find, and the action on what it found -/
theorem pairPosApplyIt_split (c : Ctx) (p p' : Array Pos) (pd : PairData) (useX useY : Bool) (d : Dir) (b' : Buf)
    (ap : Bool) (h : pairPosApplyIt c p pd useX useY d = .ok (b', p', ap)) :
    ∃ found rs why, pairFindI c pd = .ok (found, rs, why) ∧ pairFind c pd = .ok found ∧
      pairPosApply c.buf p found useX useY d = .ok (b', p', ap) := by
  unfold pairPosApplyIt at h
  have he := pairFindI_erase c pd
  cases hF : pairFindI c pd with
  | error e =>
    rw [hF] at he
    simp only [Except.map] at he
    rw [← he] at h
    cases h
  | ok r =>
    obtain ⟨found, rs, why⟩ := r
    rw [hF] at he
    simp only [Except.map] at he
    rw [← he] at h
    exact ⟨found, rs, why, rfl, he.symm, h⟩


/-- the action of PairPos on a pair with records: `bail` / `success` / `boring` / `finish` -/
theorem pairPosApply_records (b b' : Buf) (p p' : Array Pos) (j : Nat) (v1 v2 : ValueRecordD) (useX useY : Bool) (d : Dir)
    (ap : Bool) (h : pairPosApply b p (.records j v1 v2) useX useY d = .ok (b', p', ap)) :
    ap = true ∧ ∃ f1 f2, liftG (pairApplyD v1 v2 useX useY d p b.idx j) = .ok (p', f1, f2) ∧
      ((f1 || f2) = true → ∃ b1, b.unsafeToBreak b.idx (some (j + 1)) = .ok b1 ∧ pairFinish b1 j (!v2.isEmpty) = .ok b') ∧
      ((f1 || f2) = false → ∃ b1, b.unsafeToConcat b.idx (some (j + 1)) = .ok b1 ∧ pairFinish b1 j (!v2.isEmpty) = .ok b') := by
  unfold pairPosApply at h
  simp only [bind, Except.bind] at h
  cases hl : liftG (pairApplyD v1 v2 useX useY d p b.idx j) with
  | error e => simp [hl] at h
  | ok r =>
    obtain ⟨p1, f1, f2⟩ := r
    simp only [hl] at h
    cases hs : pairSuccess b j f1 f2 (!v2.isEmpty) with
    | error e => simp [hs] at h
    | ok b2 =>
      simp only [hs, pure, Except.pure, Except.ok.injEq, Prod.mk.injEq] at h
      obtain ⟨rfl, rfl, rfl⟩ := h
      refine ⟨rfl, f1, f2, rfl, ?_, ?_⟩
      · intro hf
        unfold pairSuccess at hs
        simp only [hf, if_true, bind, Except.bind] at hs
        cases hu : b.unsafeToBreak b.idx (some (j + 1)) with
        | error e => simp [hu] at hs
        | ok b1 => simp only [hu] at hs; exact ⟨b1, rfl, hs⟩
      · intro hf
        unfold pairSuccess at hs
        simp only [hf, Bool.false_eq_true, if_false, bind, Except.bind] at hs
        cases hu : b.unsafeToConcat b.idx (some (j + 1)) with
        | error e => simp [hu] at hs
        | ok b1 => simp only [hu] at hs; exact ⟨b1, rfl, hs⟩

theorem pairPosApply_notCovered (b b' : Buf) (p p' : Array Pos) (useX useY : Bool) (d : Dir) (ap : Bool)
    (h : pairPosApply b p .notCovered useX useY d = .ok (b', p', ap)) : b' = b ∧ p' = p ∧ ap = false := by
  simp only [pairPosApply, pure, Except.pure, Except.ok.injEq, Prod.mk.injEq] at h
  obtain ⟨rfl, rfl, rfl⟩ := h
  exact ⟨rfl, rfl, rfl⟩

theorem pairPosApply_noSecond (b b' : Buf) (p p' : Array Pos) (u : Nat) (useX useY : Bool) (d : Dir) (ap : Bool)
    (h : pairPosApply b p (.noSecond u) useX useY d = .ok (b', p', ap)) :
    b.unsafeToConcat b.idx (some u) = .ok b' ∧ p' = p ∧ ap = false := by
  simp only [pairPosApply, bind, Except.bind] at h
  cases hu : b.unsafeToConcat b.idx (some u) with
  | error e => simp [hu] at h
  | ok b1 =>
    simp only [hu, pure, Except.pure, Except.ok.injEq, Prod.mk.injEq] at h
    obtain ⟨rfl, rfl, rfl⟩ := h
    exact ⟨rfl, rfl, rfl⟩

theorem pairPosApply_noRecord (b b' : Buf) (p p' : Array Pos) (j : Nat) (useX useY : Bool) (d : Dir) (ap : Bool)
    (h : pairPosApply b p (.noRecord j) useX useY d = .ok (b', p', ap)) :
    b.unsafeToConcat b.idx (some (j + 1)) = .ok b' ∧ p' = p ∧ ap = false := by
  simp only [pairPosApply, bind, Except.bind] at h
  cases hu : b.unsafeToConcat b.idx (some (j + 1)) with
  | error e => simp [hu] at h
  | ok b1 =>
    simp only [hu, pure, Except.pure, Except.ok.injEq, Prod.mk.injEq] at h
    obtain ⟨rfl, rfl, rfl⟩ := h
    exact ⟨rfl, rfl, rfl⟩

/-- after `unsafe_to_concat(idx, e)` (requested) every read of a `PairSpan` is flagged -/
theorem PairSpan.concatFlagged {c : Ctx} {e : Nat} {rs : List Nat} (sp : PairSpan c e rs) {b1 : Buf}
    (hb : c.buf.unsafeToConcat c.buf.idx (some e) = .ok b1) (hlen : c.buf.len ≤ c.buf.info.length)
    (hreq : c.buf.flags &&& Gen.Buf.produceUnsafeToConcat ≠ 0) :
    b1 = { c.buf with info := b1.info, scratch := b1.scratch } ∧ Grown c.buf.info b1.info ∧
    ∀ i ∈ rs, ∃ x, c.buf.info[i]? = some x ∧ ConcatFlagged b1.info i x := by
  obtain ⟨b2, hb2, hu, hb2'⟩ := unsafeToConcat_span c.buf c.buf.idx e hreq (Nat.le_of_lt sp.lo) sp.hi hlen
  rw [hb] at hb2; cases hb2
  refine ⟨hb2', Grown.of_upd hu, ?_⟩
  intro i hi
  obtain ⟨h1, h2⟩ := sp.all i hi
  have hil : i < c.buf.info.length := by have := sp.hi; omega
  exact ⟨_, List.getElem?_eq_getElem hil, ConcatFlagged.of_upd hu (List.getElem?_eq_getElem hil) h1 h2⟩

/-- after `unsafe_to_break(idx, e)` on a monotone span every read of a `PairSpan` is flagged unless it is in the minimum cluster -/
theorem PairSpan.breakFlagged {c : Ctx} {e : Nat} {rs : List Nat} (sp : PairSpan c e rs) {b1 : Buf}
    (hb : c.buf.unsafeToBreak c.buf.idx (some e) = .ok b1) (hlen : c.buf.len ≤ c.buf.info.length)
    (hu32 : ∀ k x, c.buf.idx ≤ k → k < c.buf.len → c.buf.info[k]? = some x → x.cluster ≤ U32MAX)
    (hmono : MonoRange c.buf.info c.buf.idx c.buf.len) :
    b1 = { c.buf with info := b1.info, scratch := b1.scratch } ∧ Grown c.buf.info b1.info ∧
    ∃ m, IsRangeMin c.buf.info c.buf.idx e m ∧ ∀ i ∈ rs, ∃ x, c.buf.info[i]? = some x ∧ BreakFlagged b1.info i x m := by
  obtain ⟨b2, m, hb2, hmin, hupd, hb2'⟩ := unsafeToBreak_mono c.buf c.buf.idx e sp.lo sp.hi hlen
    (fun k x a1 a2 a3 => hu32 k x a1 (by have := sp.hi; omega) a3) (MonoRange.shrink hmono sp.hi)
  rw [hb] at hb2; cases hb2
  refine ⟨hb2', Grown.of_upd hupd, m, hmin, ?_⟩
  intro i hi
  obtain ⟨h1, h2⟩ := sp.all i hi
  have hil : i < c.buf.info.length := by have := sp.hi; omega
  exact ⟨_, List.getElem?_eq_getElem hil, BreakFlagged.of_upd hupd (List.getElem?_eq_getElem hil) h1 h2⟩

end RbModel.PairFlag
