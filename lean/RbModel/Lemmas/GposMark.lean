/-
  Helper lemmas for the attachment-target part of Props/C07.lean (model: GposMark.lean).  Core Lean only.
-/
import RbModel.GposMark
import RbModel.Lemmas.Gpos

namespace RbModel.GposMark
open RbModel.Gpos

/-! ### the specification of the target search -/

/-- the nearest position before `n` that satisfies `p` (`-1`: there is none) -/
def lastOk (p : Nat → Bool) : Nat → Int
  | 0 => -1
  | n + 1 => if p n then (n : Int) else lastOk p n

theorem lastOk_ge (p : Nat → Bool) (n : Nat) : -1 ≤ lastOk p n ∧ lastOk p n < n := by
  induction n with
  | zero => simp [lastOk]
  | succ n ih =>
    unfold lastOk
    split
    · omega
    · omega

theorem lastOk_none {p : Nat → Bool} {n : Nat} (h : lastOk p n = -1) : ∀ j, j < n → p j = false := by
  induction n with
  | zero => intro j hj; omega
  | succ n ih =>
    unfold lastOk at h
    split at h
    · omega
    · rename_i hp
      intro j hj
      by_cases hjn : j = n
      · subst hjn; simpa using hp
      · exact ih h j (by omega)

theorem lastOk_some {p : Nat → Bool} {n k : Nat} (h : lastOk p n = (k : Int)) :
    k < n ∧ p k = true ∧ ∀ j, k < j → j < n → p j = false := by
  induction n with
  | zero => simp [lastOk] at h
  | succ n ih =>
    unfold lastOk at h
    split at h
    · rename_i hp
      have : k = n := by omega
      subst this
      exact ⟨by omega, hp, fun j h1 h2 => by omega⟩
    · rename_i hp
      obtain ⟨h1, h2, h3⟩ := ih h
      refine ⟨by omega, h2, fun j hj1 hj2 => ?_⟩
      by_cases hjn : j = n
      · subst hjn; simpa using hp
      · exact h3 j hj1 (by omega)

/-- conversely: the nearest admissible position is what `lastOk` returns -/
theorem lastOk_unique {p : Nat → Bool} {n k : Nat} (hk : k < n) (hp : p k = true)
    (hbetween : ∀ j, k < j → j < n → p j = false) : lastOk p n = (k : Int) := by
  induction n with
  | zero => omega
  | succ n ih =>
    unfold lastOk
    by_cases hkn : k = n
    · subst hkn; simp [hp]
    · have : p n = false := hbetween n (by omega) (by omega)
      simp only [this, Bool.false_eq_true, if_false]
      exact ih (by omega) (fun j h1 h2 => hbetween j h1 (by omega))

/-! ### the cached search -/

theorem baseScan_eq {ok : Nat → GM Bool} {p : Nat → Bool} (untl n : Nat)
    (hok : ∀ j, j < n → ok j = .ok (p j)) (hu : untl ≤ n) :
    baseScan ok untl (lastOk p untl) n = .ok (lastOk p n) := by
  induction n with
  | zero =>
    have : untl = 0 := by omega
    subst this; rfl
  | succ n ih =>
    unfold baseScan
    by_cases h : n + 1 > untl
    · simp only [h, if_true]
      rw [hok n (by omega)]
      cases hp : p n
      · simp only [lastOk, hp, Bool.false_eq_true, if_false]
        exact ih (fun j hj => hok j (by omega)) (by omega)
      · simp [lastOk, hp]
    · have : untl = n + 1 := by omega
      subst this
      simp

/-- The `last_base` cache is an optimisation only: provided it is consistent — `last_base` is the nearest
    admissible glyph before `last_base_until`; true of the fresh cache `(-1, 0)` — the cached search returns the
    nearest admissible glyph before `idx`, for every `idx` (smaller, equal or larger than `last_base_until`), and
    leaves a consistent cache `(that glyph, idx)` behind. -/
theorem lastBaseSearch_eq {ok : Nat → GM Bool} {p : Nat → Bool} (idx untl : Nat)
    (hok : ∀ j, j < idx → ok j = .ok (p j)) :
    lastBaseSearch ok idx (lastOk p untl) untl = .ok (lastOk p idx, idx) := by
  unfold lastBaseSearch
  by_cases h : untl > idx
  · simp only [h, if_true]
    have := baseScan_eq (ok := ok) (p := p) 0 idx hok (by omega)
    simp only [lastOk] at this
    rw [this]
  · simp only [h, if_false]
    rw [baseScan_eq untl idx hok (by omega)]

/-! ### which glyphs the backward search of MarkToBase / MarkToLigature stops at -/

/-- the iterator both searches use (`new(ctx, 0, false)` + `set_lookup_props(IGNORE_MARKS)`) when the lookup is not
    applied per syllable -/
def baseIt (c : Ctx) : Gsub.It :=
  { lookupProps := IGNORE_MARKS, ignoreZwnj := true, ignoreZwj := c.autoZwj, ignoreHidden := true,
    mask := c.lookupMask, syllable := 0, bufLen := c.len, idx := 0 }

theorem iterAt_base (c : Ctx) (h : c.perSyllable = false) : iterAt c 0 IGNORE_MARKS = .ok (baseIt c) := by
  unfold iterAt baseIt
  simp [h, bind, Except.bind, pure, Except.pure]

theorem check_ignore_marks (f : Gsub.Font) (x : Info) :
    Gsub.checkGlyphProperty f x IGNORE_MARKS = !Gsub.isMark x := by
  unfold Gsub.checkGlyphProperty Gsub.isMark IGNORE_MARKS
  have h8 : (8 : Nat) % 65536 = 8 := by decide
  simp only [h8]
  have hand : Gsub.glyphProps x &&& 8 &&& Gsub.LF.IGNORE_FLAGS = Gsub.glyphProps x &&& 8 := by
    rw [Nat.and_assoc]; rfl
  rw [hand]
  unfold Gsub.GP.MARK
  by_cases hm : Gsub.glyphProps x &&& 8 = 0
  · simp [hm]
  · simp [hm]

/-- A glyph stops the backward search exactly when it is not a mark by its GDEF class (`glyph_props`), lies inside
    the lookup's feature range, and is not a default ignorable the iterator passes over (all of them, except ZWJ
    when the feature asks for manual ZWJ handling). -/
theorem base_match_iff (c : Ctx) (x : Info) :
    (baseIt c).match_ c.font x = .matched ↔
      (Gsub.isMark x = false ∧ x.mask &&& c.lookupMask ≠ 0 ∧
        ¬ (Gsub.isDefaultIgnorable x = true ∧ (c.autoZwj = true ∨ Gsub.isZwj x = false))) := by
  unfold Gsub.It.match_ Gsub.It.maySkip
  simp only [baseIt, check_ignore_marks]
  by_cases hm : Gsub.isMark x = true <;> by_cases hd : Gsub.isDefaultIgnorable x = true <;>
    by_cases hz : c.autoZwj = true <;> by_cases hj : Gsub.isZwj x = true <;>
    by_cases hk : x.mask &&& c.lookupMask = 0 <;> simp_all

theorem getInfo_of_lt {l : List Info} {i : Nat} (h : i < l.length) : getInfo l i = .ok l[i] := by
  unfold getInfo; simp [h]

theorem getInfo_ok {l : List Info} {i : Nat} {x : Info} (h : getInfo l i = .ok x) : l[i]? = some x := by
  unfold getInfo at h; split at h
  · rename_i y hy; cases h; exact hy
  · cases h

/-- `okLig` as a pure predicate: the glyph exists and the iterator says MATCH -/
def ligAdm (c : Ctx) (j : Nat) : Bool :=
  match c.info[j]? with
  | some x => decide ((baseIt c).match_ c.font x = .matched)
  | none => false

theorem okLig_eq (c : Ctx) (j : Nat) (hj : j < c.info.length) :
    okLig c.font (baseIt c) c.info j = .ok (ligAdm c j) := by
  unfold okLig ligAdm
  rw [getInfo_of_lt hj]
  have : c.info[j]? = some c.info[j] := by simp [hj]
  simp only [this, bind, Except.bind]
  cases h : (baseIt c).match_ c.font c.info[j] <;> simp [pure, Except.pure]

theorem accept_total (info : List Info) (j : Nat) (hj : j < info.length) : ∃ b, accept info j = .ok b := by
  unfold accept
  rw [getInfo_of_lt hj]
  simp only [bind, Except.bind]
  split
  · exact ⟨_, rfl⟩
  · split
    · exact ⟨_, rfl⟩
    · rw [getInfo_of_lt (by omega : j - 1 < info.length)]
      exact ⟨_, rfl⟩

/-- `okBase` as a pure predicate -/
def baseAdm (c : Ctx) (baseCov : Gsub.Cov) (j : Nat) : Bool :=
  match okBase c.font (baseIt c) c.info baseCov j with
  | .ok b => b
  | .error _ => false

theorem okBase_eq (c : Ctx) (baseCov : Gsub.Cov) (j : Nat) (hj : j < c.info.length) :
    okBase c.font (baseIt c) c.info baseCov j = .ok (baseAdm c baseCov j) := by
  have htot : ∃ b, okBase c.font (baseIt c) c.info baseCov j = .ok b := by
    unfold okBase
    rw [getInfo_of_lt hj]
    simp only [bind, Except.bind]
    split
    · obtain ⟨b, hb⟩ := accept_total c.info j hj
      rw [hb]
      simp only
      split <;> exact ⟨_, rfl⟩
    · exact ⟨_, rfl⟩
  obtain ⟨b, hb⟩ := htot
  unfold baseAdm
  rw [hb]

/-- a base is in particular a glyph the iterator stops at (so: not a mark by GDEF, … — `base_match_iff`) -/
theorem baseAdm_lig {c : Ctx} {baseCov : Gsub.Cov} {j : Nat} (h : baseAdm c baseCov j = true) : ligAdm c j = true := by
  unfold baseAdm at h
  split at h
  · rename_i b hb
    subst h
    unfold okBase at hb
    unfold ligAdm
    cases hi : getInfo c.info j with
    | error e => rw [hi] at hb; simp [bind, Except.bind] at hb
    | ok x =>
      rw [hi] at hb
      rw [getInfo_ok hi]
      simp only [bind, Except.bind] at hb
      split at hb
      · rename_i hm; simp [hm]
      · simp [pure, Except.pure] at hb
  · cases h

/-- the cache is consistent with the admissibility predicate `p` -/
def CacheOk (p : Nat → Bool) (c : Ctx) : Prop := c.lastBase = lastOk p c.lastBaseUntil

/-- everything but positions, cursor, cache and the attachment flag -/
def Frame (c c' : Ctx) : Prop :=
  c'.font = c.font ∧ c'.info = c.info ∧ c'.len = c.len ∧ c'.dir = c.dir ∧ c'.lookupMask = c.lookupMask ∧
  c'.lookupProps = c.lookupProps ∧ c'.autoZwj = c.autoZwj ∧ c'.perSyllable = c.perSyllable

theorem Frame.refl (c : Ctx) : Frame c c := ⟨rfl, rfl, rfl, rfl, rfl, rfl, rfl, rfl⟩

theorem Frame.trans {a b c : Ctx} (h1 : Frame a b) (h2 : Frame b c) : Frame a c := by
  obtain ⟨a1, a2, a3, a4, a5, a6, a7, a8⟩ := h1
  obtain ⟨b1, b2, b3, b4, b5, b6, b7, b8⟩ := h2
  exact ⟨b1.trans a1, b2.trans a2, b3.trans a3, b4.trans a4, b5.trans a5, b6.trans a6, b7.trans a7, b8.trans a8⟩

theorem ligAdm_frame {c c' : Ctx} (h : Frame c c') : ligAdm c' = ligAdm c := by
  obtain ⟨h1, h2, h3, _, h5, _, h7, _⟩ := h
  funext j
  unfold ligAdm baseIt
  rw [h1, h2, h3, h5, h7]

theorem baseAdm_frame {c c' : Ctx} (h : Frame c c') (cov : Gsub.Cov) : baseAdm c' cov = baseAdm c cov := by
  obtain ⟨h1, h2, h3, _, h5, _, h7, _⟩ := h
  funext j
  unfold baseAdm baseIt
  rw [h1, h2, h3, h5, h7]

/-- what one successful `MarkArray::apply` leaves: the glyph at `idx` is linked to `t` with offset
    `target anchor − own anchor`, nothing else moves -/
def AttachedTo (c c' : Ctx) (t : Nat) (mx my bx byy : Int) : Prop :=
  ∃ a, c.pos[c.idx]? = some a ∧ c.idx - t ≤ CHAIN_MAX ∧
    c'.pos = put c.pos c.idx { a with xo := bx - mx, yo := byy - my, atype := ATTACH_MARK, chain := (t : Int) - (c.idx : Int) }

theorem marksApply_spec {c c' : Ctx} {marks : MarkArray} {anchorOf : Nat → Anchor} {mi t : Nat} {applied : Bool}
    (h : marksApply c marks anchorOf mi t = .ok (c', applied)) (ht : t < c.idx) :
    Frame c c' ∧ c'.lastBase = c.lastBase ∧ c'.lastBaseUntil = c.lastBaseUntil ∧
    (applied = false → c' = c) ∧
    (applied = true → c'.idx = c.idx + 1 ∧ c'.hasAttach = true ∧
      ∃ cls mx my bx byy, marks[mi]? = some (cls, mx, my) ∧ anchorOf cls = some (bx, byy) ∧ AttachedTo c c' t mx my bx byy) := by
  unfold marksApply at h
  split at h
  · cases h; exact ⟨Frame.refl _, rfl, rfl, fun _ => rfl, fun h => by cases h⟩
  · rename_i cls mx my hm
    split at h
    · cases h; exact ⟨Frame.refl _, rfl, rfl, fun _ => rfl, fun h => by cases h⟩
    · rename_i bx byy hb
      split at h
      · cases h
      · cases h; exact ⟨Frame.refl _, rfl, rfl, fun _ => rfl, fun h => by cases h⟩
      · rename_i q hq
        cases h
        refine ⟨⟨rfl, rfl, rfl, rfl, rfl, rfl, rfl, rfl⟩, rfl, rfl, (fun h => by cases h), fun _ => ⟨rfl, rfl, ?_⟩⟩
        refine ⟨cls, mx, my, bx, byy, hm, hb, ?_⟩
        have hget : ∃ a, c.pos[c.idx]? = some a := by
          unfold markArrayApply at hq
          split at hq
          · cases hq
          · split at hq
            · cases hq
            · rename_i a ha; exact ⟨a, get_ok_iff.mp ha⟩
        obtain ⟨a, ha⟩ := hget
        obtain ⟨h1, h2, _⟩ := markArrayApply_spec hq ha ht
        exact ⟨a, ha, h1, h2⟩

/-- One MarkToLigature call.  Whatever the (consistent) cache holds: the call leaves a consistent cache, changes
    nothing when it does not apply, and when it applies the glyph at `idx` hangs on the NEAREST admissible glyph
    before it (`lastOk (ligAdm c) idx`), on the component `ligComponent` picks, with the font's anchors. -/
theorem markLigApply_spec {c c' : Ctx} {mc lc : Gsub.Cov} {marks : MarkArray} {ligs : List Matrix} {applied : Bool}
    (h : markLigApply c mc lc marks ligs = .ok (c', applied))
    (hps : c.perSyllable = false) (hlen : c.idx < c.info.length) (hinv : CacheOk (ligAdm c) c) :
    Frame c c' ∧ CacheOk (ligAdm c) c' ∧
    (applied = false → c'.pos = c.pos ∧ c'.idx = c.idx ∧ c'.hasAttach = c.hasAttach) ∧
    (applied = true → c'.idx = c.idx + 1 ∧ c'.hasAttach = true ∧
       ∃ (t : Nat) (cur lig : Info) (mi : Nat) (M : Matrix) (cls : Nat) (mx my bx byy : Int),
         lastOk (ligAdm c) c.idx = (t : Int) ∧ c.info[c.idx]? = some cur ∧ c.info[t]? = some lig ∧
         Gsub.Cov.index mc (cur.gid % 65536) = some mi ∧ marks[mi]? = some (cls, mx, my) ∧
         (Gsub.Cov.index lc (lig.gid % 65536)).bind (fun k => ligs[k]?) = some M ∧
         M.get (ligComponent lig cur M.rows) cls = some (bx, byy) ∧
         AttachedTo c c' t mx my bx byy) := by
  unfold markLigApply at h
  have hcur : c.info[c.idx]? = some c.info[c.idx] := by simp [hlen]
  rw [getInfo_of_lt hlen] at h
  simp only at h
  split at h
  · cases h
    exact ⟨Frame.refl _, hinv, fun _ => ⟨rfl, rfl, rfl⟩, fun h => by cases h⟩
  · rename_i mi hmi
    rw [iterAt_base c hps] at h
    simp only at h
    have hs := lastBaseSearch_eq (ok := okLig c.font (baseIt c) c.info) (p := ligAdm c) c.idx c.lastBaseUntil
      (fun j hj => okLig_eq c j (by omega))
    unfold CacheOk at hinv
    rw [hinv, hs] at h
    simp only at h
    have hge := lastOk_ge (ligAdm c) c.idx
    unfold withTarget at h
    simp only at h
    split at h
    · cases h
      refine ⟨⟨rfl, rfl, rfl, rfl, rfl, rfl, rfl, rfl⟩, rfl, fun _ => ⟨rfl, rfl, rfl⟩, fun h => by cases h⟩
    · split at h
      · cases h
      · rename_i hne hnn
        have hnn' : 0 ≤ lastOk (ligAdm c) c.idx := by omega
        obtain ⟨t, ht⟩ : ∃ t : Nat, lastOk (ligAdm c) c.idx = (t : Int) := ⟨_, (Int.toNat_of_nonneg hnn').symm⟩
        rw [ht] at h
        simp only [Int.toNat_natCast] at h
        have htlt : t < c.idx := by omega
        split at h
        · cases h
        · rename_i lig hlig
          have hlig' := getInfo_ok hlig
          split at h
          · cases h
            refine ⟨⟨rfl, rfl, rfl, rfl, rfl, rfl, rfl, rfl⟩, ?_, fun _ => ⟨rfl, rfl, rfl⟩, fun h => by cases h⟩
            unfold CacheOk; exact ht.symm ▸ rfl
          · rename_i M hM
            split at h
            · cases h
              refine ⟨⟨rfl, rfl, rfl, rfl, rfl, rfl, rfl, rfl⟩, ?_, fun _ => ⟨rfl, rfl, rfl⟩, fun h => by cases h⟩
              unfold CacheOk; exact ht.symm ▸ rfl
            · obtain ⟨hf, hlb, hlu, hno, hyes⟩ := marksApply_spec h htlt
              refine ⟨hf, ?_, ?_, ?_⟩
              · unfold CacheOk; rw [hlb, hlu]; exact ht.symm ▸ rfl
              · intro ha
                have := hno ha
                subst this
                exact ⟨rfl, rfl, rfl⟩
              · intro ha
                obtain ⟨h1, h2, cls, mx, my, bx, byy, hm, hb, hatt⟩ := hyes ha
                exact ⟨h1, h2, t, _, lig, mi, M, cls, mx, my, bx, byy, ht, hcur, hlig', hmi, hm, hM, hb, hatt⟩

/-- One MarkToBase call: the same with `baseAdm` (which also looks at the subtable's base coverage for the later
    glyphs of a MultipleSubst sequence) and the base anchor of the mark's class. -/
theorem markBaseApply_spec {c c' : Ctx} {mc bc : Gsub.Cov} {marks : MarkArray} {anchors : Matrix} {applied : Bool}
    (h : markBaseApply c mc bc marks anchors = .ok (c', applied))
    (hps : c.perSyllable = false) (hlen : c.idx < c.info.length) (hinv : CacheOk (baseAdm c bc) c) :
    Frame c c' ∧ CacheOk (baseAdm c bc) c' ∧
    (applied = false → c'.pos = c.pos ∧ c'.idx = c.idx ∧ c'.hasAttach = c.hasAttach) ∧
    (applied = true → c'.idx = c.idx + 1 ∧ c'.hasAttach = true ∧
       ∃ (t : Nat) (cur base : Info) (mi bi : Nat) (cls : Nat) (mx my bx byy : Int),
         lastOk (baseAdm c bc) c.idx = (t : Int) ∧ c.info[c.idx]? = some cur ∧ c.info[t]? = some base ∧
         Gsub.Cov.index mc (cur.gid % 65536) = some mi ∧ marks[mi]? = some (cls, mx, my) ∧
         Gsub.Cov.index bc (base.gid % 65536) = some bi ∧ anchors.get bi cls = some (bx, byy) ∧
         AttachedTo c c' t mx my bx byy) := by
  unfold markBaseApply at h
  have hcur : c.info[c.idx]? = some c.info[c.idx] := by simp [hlen]
  rw [getInfo_of_lt hlen] at h
  simp only at h
  split at h
  · cases h
    exact ⟨Frame.refl _, hinv, fun _ => ⟨rfl, rfl, rfl⟩, fun h => by cases h⟩
  · rename_i mi hmi
    rw [iterAt_base c hps] at h
    simp only at h
    have hs := lastBaseSearch_eq (ok := okBase c.font (baseIt c) c.info bc) (p := baseAdm c bc) c.idx c.lastBaseUntil
      (fun j hj => okBase_eq c bc j (by omega))
    unfold CacheOk at hinv
    rw [hinv, hs] at h
    simp only at h
    have hge := lastOk_ge (baseAdm c bc) c.idx
    unfold withTarget at h
    simp only at h
    split at h
    · cases h
      refine ⟨⟨rfl, rfl, rfl, rfl, rfl, rfl, rfl, rfl⟩, rfl, fun _ => ⟨rfl, rfl, rfl⟩, fun h => by cases h⟩
    · split at h
      · cases h
      · rename_i hne hnn
        have hnn' : 0 ≤ lastOk (baseAdm c bc) c.idx := by omega
        obtain ⟨t, ht⟩ : ∃ t : Nat, lastOk (baseAdm c bc) c.idx = (t : Int) := ⟨_, (Int.toNat_of_nonneg hnn').symm⟩
        rw [ht] at h
        simp only [Int.toNat_natCast] at h
        have htlt : t < c.idx := by omega
        split at h
        · cases h
        · rename_i base hbase
          have hbase' := getInfo_ok hbase
          split at h
          · cases h
            refine ⟨⟨rfl, rfl, rfl, rfl, rfl, rfl, rfl, rfl⟩, ?_, fun _ => ⟨rfl, rfl, rfl⟩, fun h => by cases h⟩
            unfold CacheOk; exact ht.symm ▸ rfl
          · rename_i bi hbi
            obtain ⟨hf, hlb, hlu, hno, hyes⟩ := marksApply_spec h htlt
            refine ⟨hf, ?_, ?_, ?_⟩
            · unfold CacheOk; rw [hlb, hlu]; exact ht.symm ▸ rfl
            · intro ha
              have := hno ha
              subst this
              exact ⟨rfl, rfl, rfl⟩
            · intro ha
              obtain ⟨h1, h2, cls, mx, my, bx, byy, hm, hb, hatt⟩ := hyes ha
              exact ⟨h1, h2, t, _, base, mi, bi, cls, mx, my, bx, byy, ht, hcur, hbase', hmi, hm, hbi, hb, hatt⟩

/-! ### a whole forward pass of a lookup whose subtables search with one admissibility predicate -/

/-- every subtable is MarkToLigature (predicate `ligAdm`) or MarkToBase with `baseAdm … = p`
    (one subtable; or several whose base coverages agree on the later glyphs of MultipleSubst sequences) -/
def SubsAdm (c : Ctx) (p : Nat → Bool) (subs : List Sub) : Prop :=
  ∀ s, s ∈ subs →
    (∃ mc lc marks ligs, s = .markLig mc lc marks ligs ∧ p = ligAdm c) ∨
    (∃ mc bc marks a, s = .markBase mc bc marks a ∧ p = baseAdm c bc)

theorem SubsAdm_frame {c c' : Ctx} {p : Nat → Bool} {subs : List Sub} (hf : Frame c c') (h : SubsAdm c p subs) :
    SubsAdm c' p subs := by
  intro s hs
  rcases h s hs with ⟨mc, lc, marks, ligs, h1, h2⟩ | ⟨mc, bc, marks, a, h1, h2⟩
  · exact Or.inl ⟨mc, lc, marks, ligs, h1, by rw [ligAdm_frame hf]; exact h2⟩
  · exact Or.inr ⟨mc, bc, marks, a, h1, by rw [baseAdm_frame hf]; exact h2⟩

/-- the glyph at the cursor got linked to the nearest admissible glyph before it -/
def Linked (p : Nat → Bool) (c c' : Ctx) : Prop :=
  ∃ (t : Nat) (mx my bx byy : Int), lastOk p c.idx = (t : Int) ∧ AttachedTo c c' t mx my bx byy

theorem subApply_adm {c c' : Ctx} {p : Nat → Bool} {s : Sub} {applied : Bool}
    (h : subApply c s = .ok (c', applied)) (hs : SubsAdm c p [s])
    (hps : c.perSyllable = false) (hlen : c.idx < c.info.length) (hinv : CacheOk p c) :
    Frame c c' ∧ CacheOk p c' ∧ (applied = false → c'.pos = c.pos ∧ c'.idx = c.idx) ∧
    (applied = true → c'.idx = c.idx + 1 ∧ Linked p c c') := by
  rcases hs s (List.mem_singleton.mpr rfl) with ⟨mc, lc, marks, ligs, h1, h2⟩ | ⟨mc, bc, marks, a, h1, h2⟩
  · subst h1; subst h2
    obtain ⟨hf, hc, hno, hyes⟩ := markLigApply_spec h hps hlen hinv
    refine ⟨hf, hc, fun ha => ⟨(hno ha).1, (hno ha).2.1⟩, fun ha => ?_⟩
    obtain ⟨h1, _, t, _, _, _, _, _, mx, my, bx, byy, ht, _, _, _, _, _, _, hatt⟩ := hyes ha
    exact ⟨h1, t, mx, my, bx, byy, ht, hatt⟩
  · subst h1; subst h2
    obtain ⟨hf, hc, hno, hyes⟩ := markBaseApply_spec h hps hlen hinv
    refine ⟨hf, hc, fun ha => ⟨(hno ha).1, (hno ha).2.1⟩, fun ha => ?_⟩
    obtain ⟨h1, _, t, _, _, _, _, _, mx, my, bx, byy, ht, _, _, _, _, _, _, hatt⟩ := hyes ha
    exact ⟨h1, t, mx, my, bx, byy, ht, hatt⟩

theorem lookupApply_adm {p : Nat → Bool} (subs : List Sub) {c c' : Ctx} {applied : Bool}
    (h : lookupApply c subs = .ok (c', applied)) (hs : SubsAdm c p subs)
    (hps : c.perSyllable = false) (hlen : c.idx < c.info.length) (hinv : CacheOk p c) :
    Frame c c' ∧ CacheOk p c' ∧ (applied = false → c'.pos = c.pos ∧ c'.idx = c.idx) ∧
    (applied = true → c'.idx = c.idx + 1 ∧ Linked p c c') := by
  induction subs generalizing c with
  | nil =>
    simp only [lookupApply, Except.ok.injEq, Prod.mk.injEq] at h
    obtain ⟨rfl, rfl⟩ := h
    exact ⟨Frame.refl _, hinv, fun _ => ⟨rfl, rfl⟩, fun h => by cases h⟩
  | cons s rest ih =>
    unfold lookupApply at h
    split at h
    · cases h
    · rename_i c1 h1
      cases h
      have hs1 : SubsAdm c p [s] := fun s' hs' => hs s' (by simp at hs'; simp [hs'])
      obtain ⟨hf, hc, _, hyes⟩ := subApply_adm h1 hs1 hps hlen hinv
      exact ⟨hf, hc, (fun h => by cases h), fun _ => hyes rfl⟩
    · rename_i c1 h1
      have hs1 : SubsAdm c p [s] := fun s' hs' => hs s' (by simp at hs'; simp [hs'])
      obtain ⟨hf, hc, hno, _⟩ := subApply_adm h1 hs1 hps hlen hinv
      obtain ⟨hp1, hi1⟩ := hno rfl
      have hsr : SubsAdm c1 p rest := SubsAdm_frame hf (fun s' hs' => hs s' (List.mem_cons_of_mem _ hs'))
      obtain ⟨hf2, hc2, hno2, hyes2⟩ := ih h hsr (by rw [hf.2.2.2.2.2.2.2]; exact hps) (by rw [hi1, hf.2.1]; exact hlen) hc
      refine ⟨Frame.trans hf hf2, hc2, fun ha => ?_, fun ha => ?_⟩
      · obtain ⟨a1, a2⟩ := hno2 ha
        exact ⟨a1.trans hp1, a2.trans hi1⟩
      · obtain ⟨a1, t, mx, my, bx, byy, ht, a, ha1, ha2, ha3⟩ := hyes2 ha
        rw [hi1] at a1 ht ha1 ha2 ha3
        rw [hp1] at ha1 ha3
        exact ⟨a1, t, mx, my, bx, byy, ht, a, ha1, ha2, ha3⟩

/-- what a forward pass may have done to glyph `i`: nothing, or a mark link to the nearest admissible glyph
    before it (advances untouched) -/
def Outcome (p : Nat → Bool) (c r : Ctx) (i : Nat) : Prop :=
  r.pos[i]? = c.pos[i]? ∨
  (c.idx ≤ i ∧ i < c.len ∧ ∃ (t : Nat) (a b : Pos), lastOk p i = (t : Int) ∧ c.pos[i]? = some a ∧ r.pos[i]? = some b ∧
     b.atype = ATTACH_MARK ∧ b.chain = (t : Int) - (i : Int) ∧ i - t ≤ CHAIN_MAX ∧ b.xa = a.xa ∧ b.ya = a.ya)

theorem applyForward_targets {p : Nat → Bool} {subs : List Sub} (fuel : Nat) {c r : Ctx}
    (h : applyForward subs fuel c = .ok r) (hs : SubsAdm c p subs)
    (hps : c.perSyllable = false) (hlen : c.len ≤ c.info.length) (hinv : CacheOk p c) :
    Frame c r ∧ CacheOk p r ∧ r.pos.size = c.pos.size ∧ ∀ i, Outcome p c r i := by
  induction fuel generalizing c with
  | zero =>
    simp only [applyForward, Except.ok.injEq] at h
    subst h
    exact ⟨Frame.refl _, hinv, rfl, fun i => Or.inl rfl⟩
  | succ fuel ih =>
    unfold applyForward at h
    split at h
    · rename_i hlt
      have hil : c.idx < c.info.length := by omega
      rw [getInfo_of_lt hil] at h
      simp only at h
      split at h
      · -- the lookup looks at this glyph
        split at h
        · cases h
        · rename_i c1 h1
          obtain ⟨hf, hc, _, hyes⟩ := lookupApply_adm subs h1 hs hps hil hinv
          obtain ⟨hi1, t, mx, my, bx, byy, ht, a, ha1, ha2, ha3⟩ := hyes rfl
          obtain ⟨hf2, hc2, hsz, hall⟩ := ih h (SubsAdm_frame hf hs) (by rw [hf.2.2.2.2.2.2.2]; exact hps)
            (by rw [hf.2.2.1, hf.2.1]; exact hlen) hc
          have hai := lt_of_get? ha1
          refine ⟨Frame.trans hf hf2, hc2, by rw [hsz, ha3]; simp, fun i => ?_⟩
          by_cases hi : i = c.idx
          · subst hi
            rcases hall c.idx with h0 | ⟨hle, _⟩
            · right
              rw [ha3, put_get?_self _ _ hai] at h0
              exact ⟨Nat.le_refl _, hlt, t, a, _, ht, ha1, h0, rfl, rfl, ha2, rfl, rfl⟩
            · omega
          · rcases hall i with h0 | ⟨hle, hil2, t', a', b', h1', h2', h3', h4'⟩
            · left; rw [h0, ha3, put_get?_ne _ _ (Ne.symm hi)]
            · right
              rw [ha3, put_get?_ne _ _ (Ne.symm hi)] at h2'
              rw [hf.2.2.1] at hil2
              exact ⟨by omega, hil2, t', a', b', h1', h2', h3', h4'⟩
        · rename_i c1 h1
          obtain ⟨hf, hc, hno, _⟩ := lookupApply_adm subs h1 hs hps hil hinv
          obtain ⟨hp1, hi1⟩ := hno rfl
          have hfn : Frame c1 { c1 with idx := c1.idx + 1 } := ⟨rfl, rfl, rfl, rfl, rfl, rfl, rfl, rfl⟩
          obtain ⟨hf2, hc2, hsz, hall⟩ := ih h (SubsAdm_frame (Frame.trans hf hfn) hs)
            (by show c1.perSyllable = false; rw [hf.2.2.2.2.2.2.2]; exact hps)
            (by show c1.len ≤ c1.info.length; rw [hf.2.2.1, hf.2.1]; exact hlen) hc
          refine ⟨Frame.trans (Frame.trans hf hfn) hf2, hc2, by rw [hsz]; show c1.pos.size = _; rw [hp1], fun i => ?_⟩
          rcases hall i with h0 | ⟨hle, hil2, t', a', b', h1', h2', h3', h4'⟩
          · left; rw [h0]; show c1.pos[i]? = _; rw [hp1]
          · right
            have hle' : c1.idx + 1 ≤ i := hle
            have h2'' : c1.pos[i]? = some a' := h2'
            rw [hp1] at h2''
            have hil3 : i < c1.len := hil2
            rw [hf.2.2.1] at hil3
            exact ⟨by omega, hil3, t', a', b', h1', h2'', h3', h4'⟩
      · -- the lookup's flags / feature range exclude this glyph
        have hfn : Frame c { c with idx := c.idx + 1 } := ⟨rfl, rfl, rfl, rfl, rfl, rfl, rfl, rfl⟩
        obtain ⟨hf2, hc2, hsz, hall⟩ := ih h (SubsAdm_frame hfn hs) hps hlen hinv
        refine ⟨Frame.trans hfn hf2, hc2, hsz, fun i => ?_⟩
        rcases hall i with h0 | ⟨hle, hil2, rest⟩
        · left; exact h0
        · right
          have hle' : c.idx + 1 ≤ i := hle
          exact ⟨by omega, hil2, rest⟩
    · cases h
      exact ⟨Frame.refl _, hinv, rfl, fun i => Or.inl rfl⟩

theorem target_back {i t len : Nat} (ht : t < i) (hi : i < len) : target i ((t : Int) - (i : Int)) len = some t := by
  unfold target
  have h1 : ¬ ((i : Int) + ((t : Int) - (i : Int)) < 0) := by omega
  have h2 : ((i : Int) + ((t : Int) - (i : Int))).toNat = t := by omega
  simp only [h1, if_false, h2]
  have : ¬ t ≥ len := by omega
  simp [this]

/-- From `position_start` (no links) through one forward pass of such a lookup to `position_finish_offsets`:
    every glyph the pass linked ends, in final pen coordinates and in every direction, exactly its stored offset
    (= target anchor − own anchor: `markLigApply_spec` / `markBaseApply_spec`) away from the NEAREST admissible
    glyph before it. -/
theorem pass_coincide (d : Dir) {p : Nat → Bool} {subs : List Sub} {c r : Ctx}
    (h : applyForward subs c.len c = .ok r) (hidx : c.idx = 0) (hs : SubsAdm c p subs)
    (hps : c.perSyllable = false) (hlen : c.len ≤ c.info.length) (hpl : c.len ≤ c.pos.size)
    (hfresh : c.lastBase = -1 ∧ c.lastBaseUntil = 0)
    (hstart : ∀ (k : Nat) (a : Pos), c.pos[k]? = some a → a.chain = 0) :
    ∃ q dm, positionFinishOffsets r.pos c.len d true = .ok (q, dm) ∧
      ∀ (i : Nat) (b : Pos), i < c.len → r.pos[i]? = some b → b.chain ≠ 0 →
        ∃ t : Nat, lastOk p i = (t : Int) ∧ t < i ∧ p t = true ∧ (∀ j, t < j → j < i → p j = false) ∧
          penOrigin (visible q c.len d) (outIdx d c.len i) =
            ((penOrigin (visible q c.len d) (outIdx d c.len t)).1 + b.xo,
             (penOrigin (visible q c.len d) (outIdx d c.len t)).2 + b.yo) := by
  have hinv : CacheOk p c := by unfold CacheOk; rw [hfresh.1, hfresh.2]; rfl
  obtain ⟨_, _, hsz, hall⟩ := applyForward_targets c.len h hs hps hlen hinv
  -- every link the pass left is a backward mark link to `lastOk p k`
  have hlink : ∀ (k : Nat) (a : Pos), r.pos[k]? = some a → a.chain ≠ 0 →
      k < c.len ∧ ∃ t : Nat, lastOk p k = (t : Int) ∧ t < k ∧ a.atype = ATTACH_MARK ∧ a.chain = (t : Int) - (k : Int) := by
    intro k a hk hc
    rcases hall k with h0 | ⟨_, hkl, t, a0, b, ht, _, hb, hty, hch, _⟩
    · rw [h0] at hk; exact absurd (hstart k a hk) hc
    · rw [hk] at hb; cases hb
      have := lastOk_ge p k
      exact ⟨hkl, t, ht, by omega, hty, hch⟩
  have hforest : ∀ (k : Nat) (a : Pos) (j : Nat), r.pos[k]? = some a → a.chain ≠ 0 → target k a.chain c.len = some j →
      a.atype = ATTACH_MARK ∧ j < k := by
    intro k a j hk hc htg
    obtain ⟨hkl, t, _, htk, hty, hch⟩ := hlink k a hk hc
    rw [hch, target_back htk hkl] at htg
    cases htg
    exact ⟨hty, htk⟩
  obtain ⟨q, dm, h1, _, h3⟩ := mark_coincide d r.pos c.len id _ (by rw [hsz]; exact hpl)
    (fun k a j hk hc ht => (hforest k a j hk hc ht).2) (fun k a j hk hc _ ht => (hforest k a j hk hc ht).2)
    (needOK_of_backward r.pos c.len (fun k a j hk hc ht => (hforest k a j hk hc ht).2))
  refine ⟨q, dm, h1, fun i b hi hb hc => ?_⟩
  obtain ⟨_, t, ht, hti, hty, hch⟩ := hlink i b hb hc
  obtain ⟨_, hpt, hbetween⟩ := lastOk_some ht
  refine ⟨t, ht, hti, hpt, hbetween, ?_⟩
  exact h3 i b t hi hb hc hty (by rw [hch]; exact target_back hti hi)

end RbModel.GposMark
