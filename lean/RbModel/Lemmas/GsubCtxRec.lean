/-
  Contextual GSUB lookups, step 2b: the record loop of `apply_lookup` (move_to, recurse, delta bookkeeping of
  `match_positions`: shift, fill, fixup) against `Spec.Subst.applyRecords`, for non-shrinking single-position nested lookups.
-/
import RbModel.Lemmas.GsubCtxNested
import RbModel.Lemmas.GsubFill
import RbModel.Lemmas.MorxLig

namespace RbModel.Gsub
open RbModel RbModel.Buf RbModel.Mem RbModel.Spec.Subst

/-! ### one iteration of the loop, unfolded -/

theorem loop_skip (recurse : Ctx → Nat → M (Ctx × Bool)) (c : Ctx) (positions : List Nat) (count : Nat) (endv : Int)
    (s idx : Nat) (rest : List Rec) (hsu : c.buf.successful = true) (hs : s ≥ count) :
    applyLookup.loop recurse c positions count endv ((s, idx) :: rest) = applyLookup.loop recurse c positions count endv rest := by
  rw [applyLookup.loop]
  simp only [hsu, Bool.not_true, Bool.false_eq_true, if_false, hs, if_true]

theorem loop_noapply (recurse : Ctx → Nat → M (Ctx × Bool)) (c : Ctx) (positions : List Nat) (count : Nat) (endv : Int)
    (s idx : Nat) (rest : List Rec) (b1 : Buf) (c2 : Ctx) (pi : Nat)
    (hsu : c.buf.successful = true) (hs : s < count) (hpi : positions[s]? = some pi)
    (hho : c.buf.haveOutput = true) (hlt : pi < c.buf.outLen + (c.buf.len - c.buf.idx))
    (hmv : c.buf.moveTo pi = .ok (b1, true)) (hops : 0 < b1.maxOps)
    (hrec : recurse { c with buf := b1 } idx = .ok (c2, false)) :
    applyLookup.loop recurse c positions count endv ((s, idx) :: rest) = applyLookup.loop recurse c2 positions count endv rest := by
  have hns : ¬ s ≥ count := by omega
  have hgp : getPos positions s = .ok pi := by unfold getPos; rw [hpi]; rfl
  have hnl : ¬ pi ≥ c.buf.outLen + (c.buf.len - c.buf.idx) := by omega
  have hnops : ¬ b1.maxOps ≤ 0 := by omega
  rw [applyLookup.loop]
  simp only [hsu, Bool.not_true, Bool.false_eq_true, if_false, hns, hho, if_true, bind, Except.bind, hgp, hnl, hmv, hnops, hrec,
    Bool.not_false]

theorem loop_zero (recurse : Ctx → Nat → M (Ctx × Bool)) (c : Ctx) (positions : List Nat) (count : Nat) (endv : Int)
    (s idx : Nat) (rest : List Rec) (b1 : Buf) (c2 : Ctx) (pi : Nat)
    (hsu : c.buf.successful = true) (hs : s < count) (hpi : positions[s]? = some pi)
    (hho : c.buf.haveOutput = true) (hlt : pi < c.buf.outLen + (c.buf.len - c.buf.idx))
    (hmv : c.buf.moveTo pi = .ok (b1, true)) (hops : 0 < b1.maxOps)
    (hrec : recurse { c with buf := b1 } idx = .ok (c2, true)) (hho2 : c2.buf.haveOutput = true)
    (hnew : c2.buf.outLen + (c2.buf.len - c2.buf.idx) = c.buf.outLen + (c.buf.len - c.buf.idx)) :
    applyLookup.loop recurse c positions count endv ((s, idx) :: rest) = applyLookup.loop recurse c2 positions count endv rest := by
  have hns : ¬ s ≥ count := by omega
  have hgp : getPos positions s = .ok pi := by unfold getPos; rw [hpi]; rfl
  have hnl : ¬ pi ≥ c.buf.outLen + (c.buf.len - c.buf.idx) := by omega
  have hnops : ¬ b1.maxOps ≤ 0 := by omega
  rw [applyLookup.loop]
  simp only [hsu, Bool.not_true, Bool.false_eq_true, if_false, hns, hho, if_true, bind, Except.bind, hgp, hnl, hmv, hnops, hrec,
    hho2, hnew, Int.sub_self, beq_self_eq_true]

theorem loop_grow (recurse : Ctx → Nat → M (Ctx × Bool)) (c : Ctx) (positions : List Nat) (count endv s idx : Nat)
    (rest : List Rec) (b1 : Buf) (c2 : Ctx) (pi d : Nat)
    (hsu : c.buf.successful = true) (hs : s < count) (hpi : positions[s]? = some pi)
    (hho : c.buf.haveOutput = true) (hlt : pi < c.buf.outLen + (c.buf.len - c.buf.idx))
    (hmv : c.buf.moveTo pi = .ok (b1, true)) (hops : 0 < b1.maxOps)
    (hrec : recurse { c with buf := b1 } idx = .ok (c2, true))
    (hho2 : c2.buf.haveOutput = true)
    (hnew : c2.buf.outLen + (c2.buf.len - c2.buf.idx) = c.buf.outLen + (c.buf.len - c.buf.idx) + d) (hd : 0 < d)
    (hend : pi ≤ endv + d) (hctx : d + count ≤ MAX_CONTEXT_LENGTH) :
    applyLookup.loop recurse c positions count (endv : Int) ((s, idx) :: rest) =
      (do let P := if d + count > positions.length then resizeNat positions (max (d + count) (max 4 positions.length * 3 / 2)) else positions
          let Q1 ← copyWithinNat P (s+1) count (s+1+d)
          let Q2 ← applyLookup.loop.fill ((s+1+d : Nat) : Int) Q1 (s+1) (s+1+d+1)
          applyLookup.loop recurse c2 (Q2.mapIdx fun j p => if (decide (s+1+d ≤ j) && decide (j < count + d)) = true then p + d else p) (count + d) ((endv + d : Nat) : Int) rest) := by
  have hns : ¬ s ≥ count := by omega
  have hgp : getPos positions s = .ok pi := by unfold getPos; rw [hpi]; rfl
  have hnl : ¬ pi ≥ c.buf.outLen + (c.buf.len - c.buf.idx) := by omega
  have hnops : ¬ b1.maxOps ≤ 0 := by omega
  have hdelta : ((c2.buf.outLen + (c2.buf.len - c2.buf.idx) : Nat) : Int) - ((c.buf.outLen + (c.buf.len - c.buf.idx) : Nat) : Int) = (d : Int) := by
    rw [hnew]; omega
  rw [applyLookup.loop]
  simp only [hsu, Bool.not_true, Bool.false_eq_true, if_false, hns, hho, if_true, bind, Except.bind, hgp, hnl, hmv, hnops, hrec, hho2, hdelta]
  have e1 : ((d : Int) == 0) = false := by simp; omega
  have e2' : ¬ (((endv + d : Nat) : Int) < (pi : Int)) := by omega
  have e3 : (d : Int) > 0 := by omega
  have e4 : (d : Int).toNat = d := by omega
  have e5 : ¬ d + count > MAX_CONTEXT_LENGTH := by omega
  have e6 : ((s : Int) + 1).toNat = s + 1 := by omega
  have e7 : ((s : Int) + 1 + (d : Int)).toNat = s + 1 + d := by omega
  have e8 : ((s : Int) + 1 + (d : Int)) = ((s + 1 + d : Nat) : Int) := by omega
  have e9 : ((count : Int) + (d : Int)).toNat = count + d := by omega
  have e10 : ∀ p : Nat, (Int.ofNat p + (d : Int)).toNat = p + d := by intro p; simp only [Int.ofNat_eq_natCast]; omega
  have e11 : ((endv : Int) + (d : Int)) = ((endv + d : Nat) : Int) := by omega
  simp only [e1, Bool.false_eq_true, if_false, e2', e3, if_true, e4, e5, e6, e7, e9, e10, e11]
  rw [e8]
  by_cases hr : d + count > positions.length
  · simp only [hr, if_true]
  · simp only [hr, if_false]

/-! ### the position bookkeeping in closed form -/

/-- the Spec's rule for the sequence positions after a nested lookup at sequence index `s` (position `p`) grew the string by `d` -/
def posAfter (ps : List Nat) (s p d : Nat) : List Nat :=
  ps.take (s + 1) ++ (List.range d).map (fun j => p + 1 + j) ++ (ps.drop (s + 1)).map (· + d)

theorem posAfter_zero (ps : List Nat) (s p : Nat) : posAfter ps s p 0 = ps := by
  unfold posAfter
  simp

theorem posAfter_length (ps : List Nat) (s p d : Nat) (hs : s < ps.length) : (posAfter ps s p d).length = ps.length + d := by
  unfold posAfter
  simp; omega

theorem resizeNat_take (l : List Nat) (n k : Nat) (hk : k ≤ l.length) (hn : l.length ≤ n) : (resizeNat l n).take k = l.take k := by
  unfold resizeNat
  by_cases h : n ≤ l.length
  · have : n = l.length := by omega
    subst this; simp
  · simp only [h, if_false]
    rw [List.take_append_of_le_length hk]

/-- **shift, fill, fixup** of `apply_lookup` compute the Spec's position rule -/
theorem posUpdate (positions : List Nat) (count s pi d : Nat) (hs : s < count) (hc : count ≤ positions.length)
    (hpi : positions[s]? = some pi) (hd : 0 < d) :
    ∃ Q1 Q2, copyWithinNat (if d + count > positions.length then resizeNat positions (max (d + count) (max 4 positions.length * 3 / 2)) else positions)
        (s + 1) count (s + 1 + d) = .ok Q1 ∧
      applyLookup.loop.fill ((s + 1 + d : Nat) : Int) Q1 (s + 1) (s + 1 + d + 1) = .ok Q2 ∧
      count + d ≤ Q2.length ∧
      (Q2.mapIdx fun j p => if (decide (s + 1 + d ≤ j) && decide (j < count + d)) = true then p + d else p).take (count + d)
        = posAfter (positions.take count) s pi d := by
  generalize hP : (if d + count > positions.length then resizeNat positions (max (d + count) (max 4 positions.length * 3 / 2)) else positions) = P
  have hPl : count + d ≤ P.length := by
    rw [← hP]
    by_cases h : d + count > positions.length
    · rw [if_pos h, resizeNat_length]; omega
    · rw [if_neg h]; omega
  have hPt : P.take count = positions.take count := by
    rw [← hP]
    by_cases h : d + count > positions.length
    · rw [if_pos h]; exact resizeNat_take _ _ _ hc (by omega)
    · rw [if_neg h]
  have hPq : ∀ q, q < count → P[q]? = positions[q]? := by
    intro q hq
    have := congrArg (fun l => l[q]?) hPt
    simp only [List.getElem?_take, hq, if_true] at this
    exact this
  have hcw : copyWithinNat P (s + 1) count (s + 1 + d)
      = .ok (P.take (s + 1 + d) ++ (P.drop (s + 1)).take (count - (s + 1)) ++ P.drop (s + 1 + d + ((P.drop (s + 1)).take (count - (s + 1))).length)) := by
    unfold copyWithinNat
    have : ¬ (s + 1 > count || count > P.length || s + 1 + d + (count - (s + 1)) > P.length) = true := by
      simp; omega
    simp only [this, if_false]
    rfl
  generalize hQ1 : (P.take (s + 1 + d) ++ (P.drop (s + 1)).take (count - (s + 1)) ++ P.drop (s + 1 + d + ((P.drop (s + 1)).take (count - (s + 1))).length)) = Q1 at hcw
  have hsegl : ((P.drop (s + 1)).take (count - (s + 1))).length = count - (s + 1) := by simp; omega
  have hQ1l : Q1.length = P.length := by
    rw [← hQ1]; simp; omega
  have hQ1q : ∀ q, Q1[q]? = if q < s + 1 + d then P[q]? else if q < count + d then P[q - d]? else P[q]? := by
    intro q
    rw [← hQ1, hsegl]
    by_cases h1 : q < s + 1 + d
    · simp only [h1, if_true]
      rw [List.append_assoc, List.getElem?_append_left (by simp; omega), List.getElem?_take]
      simp [h1]
    · simp only [h1, if_false]
      rw [List.append_assoc, List.getElem?_append_right (by simp; omega)]
      have htl : (P.take (s + 1 + d)).length = s + 1 + d := by simp; omega
      rw [htl]
      by_cases h2 : q < count + d
      · simp only [h2, if_true]
        rw [List.getElem?_append_left (by simp; omega), List.getElem?_take, List.getElem?_drop]
        have : q - (s + 1 + d) < count - (s + 1) := by omega
        simp only [this, if_true]
        congr 1; omega
      · simp only [h2, if_false]
        rw [List.getElem?_append_right (by simp; omega), hsegl, List.getElem?_drop]
        congr 1; omega
  have hQ1s : Q1[s]? = some pi := by
    rw [hQ1q s]
    have : s < s + 1 + d := by omega
    simp only [this, if_true]
    rw [hPq s hs]; exact hpi
  have hfill := fill_closed_form Q1 s d pi hQ1s (by omega)
  refine ⟨Q1, _, hcw, hfill, by simp; omega, ?_⟩
  apply List.ext_getElem?
  intro q
  unfold posAfter
  rw [List.getElem?_take]
  by_cases hq : q < count + d
  · simp only [hq, if_true, List.getElem?_mapIdx]
    by_cases h1 : q < s + 1
    · have e1 : (Q1.take (s + 1) ++ (List.range d).map (fun i => pi + 1 + i) ++ Q1.drop (s + 1 + d))[q]? = Q1[q]? := by
        rw [List.append_assoc, List.getElem?_append_left (by simp; omega), List.getElem?_take]; simp [h1]
      rw [e1, hQ1q q]
      have : q < s + 1 + d := by omega
      simp only [this, if_true]
      have hnot : ¬ (s + 1 + d ≤ q) := by omega
      rw [List.append_assoc, List.getElem?_append_left (by simp; omega), List.getElem?_take, List.getElem?_take]
      have hqc : q < count := by omega
      simp only [h1, hqc, if_true, hPq q hqc]
      cases positions[q]? <;> simp [hnot]
    · by_cases h2 : q < s + 1 + d
      · have e1 : (Q1.take (s + 1) ++ (List.range d).map (fun i => pi + 1 + i) ++ Q1.drop (s + 1 + d))[q]? = some (pi + 1 + (q - (s + 1))) := by
          rw [List.append_assoc, List.getElem?_append_right (by simp; omega)]
          have htl : (Q1.take (s + 1)).length = s + 1 := by simp; omega
          rw [htl, List.getElem?_append_left (by simp; omega), List.getElem?_map, List.getElem?_range (by omega)]
          rfl
        have e2 : ((List.take (s + 1) (List.take count positions) ++ List.map (fun j => pi + 1 + j) (List.range d)) ++
            List.map (fun x => x + d) (List.drop (s + 1) (List.take count positions)))[q]? = some (pi + 1 + (q - (s + 1))) := by
          rw [List.append_assoc, List.getElem?_append_right (by simp; omega)]
          have htl : ((positions.take count).take (s + 1)).length = s + 1 := by simp; omega
          rw [htl, List.getElem?_append_left (by simp; omega), List.getElem?_map, List.getElem?_range (by omega)]
          rfl
        rw [e1, e2]
        have hnot : ¬ (s + 1 + d ≤ q) := by omega
        simp [hnot]
      · have e1 : (Q1.take (s + 1) ++ (List.range d).map (fun i => pi + 1 + i) ++ Q1.drop (s + 1 + d))[q]? = Q1[q]? := by
          rw [List.getElem?_append_right (by simp; omega)]
          have htl : (Q1.take (s + 1) ++ (List.range d).map (fun i => pi + 1 + i)).length = s + 1 + d := by simp; omega
          rw [htl, List.getElem?_drop]
          congr 1; omega
        rw [e1, hQ1q q]
        simp only [h2, if_false, hq, if_true]
        have e2 : ((List.take (s + 1) (List.take count positions) ++ List.map (fun j => pi + 1 + j) (List.range d)) ++
            List.map (fun x => x + d) (List.drop (s + 1) (List.take count positions)))[q]? = (positions[q - d]?).map (· + d) := by
          rw [List.getElem?_append_right (by simp; omega)]
          have htl : ((positions.take count).take (s + 1) ++ (List.range d).map (fun j => pi + 1 + j)).length = s + 1 + d := by
            simp; omega
          rw [htl, List.getElem?_map, List.getElem?_drop, List.getElem?_take]
          have : s + 1 + (q - (s + 1 + d)) < count := by omega
          simp only [this, if_true]
          congr 2; omega
        rw [e2, hPq (q - d) (by omega)]
        have hyes : s + 1 + d ≤ q := by omega
        cases positions[q - d]? <;> simp [hyes, hq]
  · simp only [hq, if_false]
    symm
    apply List.getElem?_eq_none
    simp
    omega

/-! ### the loop against `Spec.Subst.applyRecords` -/

/-- a glyph the contextual matchers treat as the specification does: not flagged default-ignorable, a 16-bit glyph id, and a
    mask with at least one feature bit (`context_match` iterators test `mask & 0xFFFFFFFF ≠ 0`; in a shaping run the global
    bit is always set; stated on the feature bits because the glyph-flag bits come and go) -/
def CtxG (y : Info) : Prop := unicodeProps y &&& 0x20 = 0 ∧ y.gid < 65536 ∧ y.mask &&& (U32MAX - Flag.DEFINED) ≠ 0

instance (y : Info) : Decidable (CtxG y) := by unfold CtxG; exact inferInstance

theorem CtxG.notDI {y : Info} (h : CtxG y) : isDefaultIgnorable y = false := by
  unfold isDefaultIgnorable; simp [h.1]

theorem CtxG.maskOn {y : Info} (h : CtxG y) : y.mask &&& U32MAX ≠ 0 := by
  intro h0
  apply h.2.2
  have e : U32MAX - Flag.DEFINED = U32MAX &&& (U32MAX - Flag.DEFINED) := by decide
  rw [e, ← Nat.and_assoc, h0, Nat.zero_and]

theorem moveTo_parts (b : Buf) (i : Nat) (hinv : Inv b) (hi : i ≤ total b)
    (hg : Gen.Buf.ensureGrowOnly = true) (hr : Gen.Buf.moveToRewindReversed = true)
    (hsu : b.successful = true) (hmax : total b ≤ b.maxLen) :
    ∃ b', b.moveTo i = .ok (b', true) ∧ Inv b' ∧ b'.outLen = i ∧ outP b' ++ inP b' = outP b ++ inP b ∧
      b'.successful = b.successful ∧ b'.maxLen = b.maxLen ∧ b'.maxOps = b.maxOps ∧ b'.flags = b.flags := by
  obtain ⟨b', hrun, hinv', hol, _, hseq, hsu', _, _, hml, _⟩ := moveTo_ok b i hinv hi hg hr hsu hmax
  have hfr := moveTo_fr hrun
  refine ⟨b', hrun, hinv', hol, ?_, hsu', hml, hfr.maxOps, hfr.flags⟩
  apply List.ext_getElem?
  intro q
  rw [parts_getElem? b' hinv', parts_getElem? b hinv, hseq q]

theorem total_parts (b : Buf) (hinv : Inv b) : total b = (outP b ++ inP b).length := by
  unfold total
  rw [List.length_append, outP_length b hinv, inP_length b hinv]

/-- cutting the logical sequence at the cursor -/
theorem parts_split (b : Buf) (hinv : Inv b) (L : List Info) (h : outP b ++ inP b = L) :
    outP b = L.take b.outLen ∧ inP b = L.drop b.outLen := by
  have hl := outP_length b hinv
  rw [← h]
  exact ⟨by rw [← hl]; simp, by rw [← hl]; simp⟩

theorem relF_replace (L : List Info) (gs : List G) (pi : Nat) (x : Info) (g : G) (outs : List Info) (ss : List Nat)
    (hrel : RelF L gs) (hgx : piGF g = projF x)
    (hm : outs.map projG = ss.map (fun s => { projG x with gid := s })) :
    RelF (L.take pi ++ outs ++ L.drop (pi + 1)) (replaceAt gs pi (ss.map fun s => { g with gid := s }) 1) := by
  unfold replaceAt
  refine RelF.append (RelF.append (hrel.take pi) ?_) (hrel.drop (pi + 1))
  unfold RelF
  have e : outs.map projF = (outs.map projG).map piGF := by rw [List.map_map]; rfl
  rw [e, hm, List.map_map, List.map_map]
  apply List.map_congr_left
  intro s _
  have hgc : g.cluster = x.cluster := congrArg (fun p : Nat × Nat × Nat => p.2.1) hgx
  have hgm : featBits g.mask = featBits x.mask := congrArg (fun p : Nat × Nat × Nat => p.2.2) hgx
  show (s, x.cluster, featBits x.mask) = (s, g.cluster, featBits g.mask)
  rw [hgc, hgm]

theorem posAfter_last (ps : List Nat) (s pi d e : Nat) (hs : ps[s]? = some pi) (hl : ps.getLast? = some e) :
    (posAfter ps s pi d).getLast? = some (e + d) := by
  have hslt : s < ps.length := (List.getElem?_eq_some_iff.1 hs).1
  unfold posAfter
  cases hdrop : ps.drop (s + 1) with
  | nil =>
    have hlen : ps.length = s + 1 := by
      have := congrArg List.length hdrop
      simp at this; omega
    have he : e = pi := by
      rw [List.getLast?_eq_getElem?, hlen] at hl
      simp only [Nat.add_sub_cancel] at hl
      rw [hs] at hl; cases hl; rfl
    subst he
    simp only [List.map_nil, List.append_nil]
    cases d with
    | zero =>
      simp only [List.range_zero, List.map_nil, List.append_nil, Nat.add_zero]
      rw [List.getLast?_eq_getElem?]
      have : (ps.take (s + 1)).length = s + 1 := by simp; omega
      rw [this, List.getElem?_take]
      simp [hs]
    | succ d =>
      rw [List.getLast?_append, List.range_succ, List.map_append]
      simp
      omega
  | cons a t =>
    have hne : ps.drop (s + 1) ≠ [] := by rw [hdrop]; simp
    rw [← hdrop, List.getLast?_append, List.getLast?_map]
    have : (ps.drop (s + 1)).getLast? = some e := by
      rw [List.getLast?_drop]
      have : ¬ ps.length ≤ s + 1 := by
        intro hle
        exact hne (List.drop_eq_nil_of_le hle)
      simp only [this, if_false]; exact hl
    rw [this]
    simp

/-- the state of the record loop against the Spec's: `gs` the string, `ps` the sequence positions, `endv` the match end,
    `T` the untouched glyphs behind the match -/
structure RecSt (c : Ctx) (gs : List G) (ps positions : List Nat) (count endv : Nat) (T : List Info) : Prop where
  inv : Inv c.buf
  succ : c.buf.successful = true
  rel : RelF (outP c.buf ++ inP c.buf) gs
  cnt : ps.length = count
  cle : count ≤ positions.length
  pos : positions.take count = ps
  last : ps.getLast? = some (endv - 1)
  epos : 0 < endv
  range : ∀ p ∈ ps, p < endv
  endle : endv ≤ gs.length
  tail : (outP c.buf ++ inP c.buf).drop endv = T
  glyph : ∀ y ∈ outP c.buf ++ inP c.buf, CtxG y

theorem applyRecords_cons_none (f : Font) (lm s idx : Nat) (rest : List Rec) (gs : List G) (ps : List Nat) (h : ps[s]? = none) :
    applyRecords f lm ((s, idx) :: rest) gs ps = applyRecords f lm rest gs ps := by
  simp only [applyRecords, h]

theorem applyRecords_cons_some (f : Font) (lm s idx : Nat) (rest : List Rec) (gs : List G) (ps : List Nat) (p : Nat)
    (h : ps[s]? = some p) :
    applyRecords f lm ((s, idx) :: rest) gs ps =
      applyRecords f lm rest (applyNested f idx gs p lm).1 (posAfter ps s p (applyNested f idx gs p lm).2) := by
  simp only [applyRecords, h]
  rfl

/-- **the record loop of `apply_lookup` computes `Spec.Subst.applyRecords`** for nested lookups that are single-position and
    non-shrinking (`NestedSts G`), inside the three budgets the code consults: `max_len` (every nested lookup may add `G`
    glyphs), `MAX_CONTEXT_LENGTH` for the grown sequence, `max_ops` (one unit per record). -/
theorem recLoop_sim (hg : Gen.Buf.ensureGrowOnly = true) (hr : Gen.Buf.moveToRewindReversed = true) (m : Nat) (f : Font)
    (lm Gr : Nat) (hlm : lm < 2 ^ 32) (hlmf : lm &&& (U32MAX - Flag.DEFINED) = lm) (T : List Info) :
    ∀ (recs : List Rec) (c : Ctx) (gs : List G) (ps positions : List Nat) (count endv : Nat),
      RecSt c gs ps positions count endv T → c.font = f → c.lookupMask = lm → c.random = false →
      (∀ r ∈ recs, ∀ l, f.lookups[r.2]? = some l → NestedSts Gr l.subtables) →
      c.buf.outLen + (inP c.buf).length + recs.length * Gr ≤ c.buf.maxLen →
      count + recs.length * Gr ≤ MAX_CONTEXT_LENGTH → (recs.length : Int) ≤ c.buf.maxOps →
      ∃ b' positions' count' endv', applyLookup.loop (recurseAt (m + 1)) c positions count (endv : Int) recs
            = .ok ({ c with buf := b' }, ((endv' : Nat) : Int)) ∧
        RecSt { c with buf := b' } (applyRecords f lm recs gs ps).1 (applyRecords f lm recs gs ps).2 positions' count' endv' T ∧
        b'.maxLen = c.buf.maxLen ∧ b'.flags = c.buf.flags ∧ endv' + gs.length = endv + (applyRecords f lm recs gs ps).1.length ∧
        b'.outLen + (inP b').length ≤ c.buf.outLen + (inP c.buf).length + recs.length * Gr ∧
        c.buf.maxOps - (recs.length : Int) ≤ b'.maxOps ∧ endv ≤ endv' := by
  intro recs
  induction recs with
  | nil =>
    intro c gs ps positions count endv h _ _ _ _ _ _ _
    exact ⟨c.buf, positions, count, endv, rfl, h, rfl, rfl, rfl, by simp, by simp, Nat.le_refl _⟩
  | cons rec rest ih =>
    obtain ⟨s, idx⟩ := rec
    intro c gs ps positions count endv h hf hm hrnd hnest hbud hctx hops
    simp only [List.length_cons] at hbud hctx hops
    have hnest' : ∀ r ∈ rest, ∀ l, f.lookups[r.2]? = some l → NestedSts Gr l.subtables :=
      fun r hr' => hnest r (List.mem_cons_of_mem _ hr')
    have hmul : (rest.length + 1) * Gr = rest.length * Gr + Gr := by rw [Nat.add_mul, Nat.one_mul]
    rw [hmul] at hbud hctx
    by_cases hs : s ≥ count
    · -- sequence index out of range: skipped on both sides
      have hnone : ps[s]? = none := List.getElem?_eq_none (by rw [h.cnt]; exact hs)
      rw [loop_skip _ c positions count _ s idx rest h.succ hs, applyRecords_cons_none f lm s idx rest gs ps hnone]
      obtain ⟨b', positions', count', endv', hrun, hst', hml', hfl', hacc, htl, hmo', hee⟩ :=
        ih c gs ps positions count endv h hf hm hrnd hnest' (by omega) (by omega) (by omega)
      exact ⟨b', positions', count', endv', hrun, hst', hml', hfl', hacc, by simp only [List.length_cons]; rw [hmul]; omega,
        by simp only [List.length_cons]; omega, hee⟩
    · have hslt : s < count := by omega
      have hsps : s < ps.length := by rw [h.cnt]; exact hslt
      obtain ⟨pi, hpi⟩ : ∃ pi, ps[s]? = some pi := ⟨ps[s], List.getElem?_eq_getElem hsps⟩
      have hpos : positions[s]? = some pi := by
        have := congrArg (fun l => l[s]?) h.pos
        simp only [List.getElem?_take, hslt, if_true] at this
        rw [this]; exact hpi
      have hpie : pi < endv := h.range pi (List.mem_of_getElem? hpi)
      obtain ⟨L, hL⟩ : ∃ L, outP c.buf ++ inP c.buf = L := ⟨_, rfl⟩
      have hrelL : RelF L gs := hL ▸ h.rel
      have hglyphL : ∀ y ∈ L, CtxG y := hL ▸ h.glyph
      have htailL : L.drop endv = T := hL ▸ h.tail
      have htot : total c.buf = L.length := by rw [total_parts c.buf h.inv, hL]
      have hLg : L.length = gs.length := hrelL.length
      have hpiL : pi < L.length := by have := h.endle; omega
      have hinl := inP_length c.buf h.inv
      have htot' : c.buf.outLen + (c.buf.len - c.buf.idx) = L.length := htot
      obtain ⟨b1, hmv, hinv1, hol1, hseq1, hsu1, hml1, hops1, hfl1⟩ :=
        moveTo_parts c.buf pi h.inv (by omega) hg hr h.succ (by rw [htot]; omega)
      rw [hL] at hseq1
      obtain ⟨ho1, hi1⟩ := parts_split b1 hinv1 L hseq1
      rw [hol1] at ho1 hi1
      obtain ⟨x, hx⟩ : ∃ x, L[pi]? = some x := ⟨L[pi], List.getElem?_eq_getElem hpiL⟩
      have hin1 : inP b1 = x :: L.drop (pi + 1) := by
        rw [hi1, List.drop_eq_getElem_cons hpiL]
        have : L[pi] = x := by
          have := List.getElem?_eq_getElem hpiL
          rw [hx] at this; exact (Option.some.inj this).symm
        rw [this]
      obtain ⟨g, hgs, hgx⟩ := hrelL.get pi x hx
      have hxG : CtxG x := hglyphL x (List.mem_of_getElem? hx)
      have hggid : g.gid = x.gid := congrArg (fun p : Nat × Nat × Nat => p.1) hgx
      have hgfb : featBits g.mask = featBits x.mask := congrArg (fun p : Nat × Nat × Nat => p.2.2) hgx
      have hnest0 : ∀ l, f.lookups[idx]? = some l → NestedSts Gr l.subtables := hnest (s, idx) List.mem_cons_self
      have hsel : ∀ l : Lookup, simpleSeqG? lm l.subtables g = simpleSeq? lm l.subtables x := by
        intro l
        unfold simpleSeqG? simpleSeq?
        rw [hggid]
        apply simpleSeqGM_congr
        rw [Nat.and_comm lm, Nat.and_comm lm]
        exact mask_and_of_featBits g.mask x.mask lm hlmf hgfb
      have hspec := applyNested_simple f lm hlm idx gs pi g hgs (by rw [hggid]; exact hxG.2.1) Gr hnest0
      have hsel' : (f.lookups[idx]?).bind (fun l => simpleSeqG? lm l.subtables g)
          = (f.lookups[idx]?).bind (fun l => simpleSeq? lm l.subtables x) := by
        cases f.lookups[idx]? with
        | none => rfl
        | some l => exact hsel l
      rw [hsel'] at hspec
      have hmodel := recurse_simple hg m { c with buf := b1 } idx x (L.drop (pi + 1)) Gr hinv1 hin1 hrnd
        (by show 1 ≤ b1.maxOps; rw [hops1]; omega)
        (by show b1.outLen + Gr + 1 ≤ b1.maxLen; rw [hol1, hml1]; omega)
        (by intro l hl; exact hnest0 l (by rw [← hf]; exact hl))
      have hscr : (f.lookups[idx]?).bind (fun l => simpleSeq? lm l.subtables x)
          = (c.font.lookups[idx]?).bind (fun l => simpleSeq? c.lookupMask l.subtables x) := by rw [hf, hm]
      rw [hscr] at hspec
      rw [applyRecords_cons_some f lm s idx rest gs ps pi hpi]
      cases hss : (c.font.lookups[idx]?).bind (fun l => simpleSeq? c.lookupMask l.subtables x) with
      | none =>
        rw [hss] at hmodel hspec
        simp only [] at hmodel
        rw [hspec, posAfter_zero]
        rw [loop_noapply _ c positions count _ s idx rest b1 { c with buf := { b1 with maxOps := b1.maxOps - 1 } } pi h.succ hslt hpos h.inv.have_out (by omega) hmv
          (by rw [hops1]; omega) hmodel]
        have hst : RecSt { c with buf := { b1 with maxOps := b1.maxOps - 1 } } gs ps positions count endv T := by
          refine ⟨⟨hinv1.1, hinv1.2, hinv1.3, hinv1.4, hinv1.5, hinv1.6⟩, by show b1.successful = true; rw [hsu1]; exact h.succ, ?_,
            h.cnt, h.cle, h.pos, h.last, h.epos, h.range, h.endle, ?_, ?_⟩
          · show RelF (outP b1 ++ inP b1) gs
            rw [hseq1]; exact hrelL
          · show (outP b1 ++ inP b1).drop endv = T
            rw [hseq1]; exact htailL
          · show ∀ y ∈ outP b1 ++ inP b1, CtxG y
            rw [hseq1]; exact hglyphL
        have hi1l : (inP b1).length = L.length - pi := by rw [hi1]; simp
        obtain ⟨b', positions', count', endv', hrun, hst', hml', hfl', hacc, htl, hmo', hee⟩ :=
          ih { c with buf := { b1 with maxOps := b1.maxOps - 1 } } gs ps positions count endv hst hf hm hrnd hnest'
            (by
              show b1.outLen + (inP b1).length + rest.length * Gr ≤ b1.maxLen
              have : (inP b1).length = L.length - pi := by rw [hi1]; simp
              rw [hol1, hml1, this]; omega)
            (by omega)
            (by show (rest.length : Int) ≤ b1.maxOps - 1; rw [hops1]; omega)
        refine ⟨b', positions', count', endv', hrun, hst', by rw [hml']; exact hml1, by rw [hfl']; exact hfl1, hacc, ?_, ?_, hee⟩
        rotate_left
        · have : b1.maxOps - 1 - (rest.length : Int) ≤ b'.maxOps := hmo'
          simp only [List.length_cons]; rw [hops1] at this; omega
        have htl' : b'.outLen + (inP b').length ≤ b1.outLen + (inP b1).length + rest.length * Gr := htl
        rw [hol1, hi1l] at htl'
        simp only [List.length_cons]; rw [hmul, hinl]; omega
      | some ss =>
        rw [hss] at hmodel hspec
        simp only [] at hmodel
        obtain ⟨b2, outs, hrec, hinv2, ho2, hi2, hmo, hov, hsu2, hml2, hops2, hfl2, hsok⟩ := hmodel
        obtain ⟨hne, hlen, hgids⟩ := hsok
        obtain ⟨d, hd⟩ : ∃ d, ss.length = d + 1 := ⟨ss.length - 1, by
          have : ss.length ≠ 0 := by intro h0; exact hne (List.eq_nil_of_length_eq_zero h0)
          omega⟩
        have hdG : d ≤ Gr := by omega
        have houtl : outs.length = d + 1 := by
          have := congrArg List.length hmo
          simp at this; omega
        rw [hspec]
        simp only [hd, Nat.add_sub_cancel]
        -- the new logical sequence
        have hL2 : outP b2 ++ inP b2 = L.take pi ++ outs ++ L.drop (pi + 1) := by
          rw [ho2, hi2]
          show outP b1 ++ outs ++ _ = _
          rw [ho1]
        have htk : (L.take pi).length = pi := by simp; omega
        have hho2 : b2.haveOutput = true := hinv2.have_out
        have hnew : b2.outLen + (b2.len - b2.idx) = c.buf.outLen + (c.buf.len - c.buf.idx) + d := by
          have h1 : total b2 = (outP b2 ++ inP b2).length := total_parts b2 hinv2
          rw [hL2] at h1
          simp only [List.length_append, htk, houtl, List.length_drop] at h1
          unfold total at h1
          omega
        -- the Spec's new string and positions
        generalize hgs2 : replaceAt gs pi (ss.map fun s => { g with gid := s }) 1 = gs2
        have hrel2 : RelF (L.take pi ++ outs ++ L.drop (pi + 1)) gs2 := by
          rw [← hgs2]; exact relF_replace L gs pi x g outs ss hrelL hgx hmo
        have hgs2l : gs2.length = gs.length + d := by
          rw [← hgs2]; unfold replaceAt
          simp; omega
        have hglyph2 : ∀ y ∈ L.take pi ++ outs ++ L.drop (pi + 1), CtxG y := by
          intro y hy
          simp only [List.mem_append] at hy
          rcases hy with (hy | hy) | hy
          · exact hglyphL y (List.mem_of_mem_take hy)
          · have hv := hov y hy
            obtain ⟨k, hk⟩ := List.getElem?_of_mem hy
            have hpk := congrArg (fun l => l[k]?) hmo
            simp only [List.getElem?_map, hk, Option.map_some] at hpk
            cases hsk : ss[k]? with
            | none => rw [hsk] at hpk; cases hpk
            | some sv =>
              rw [hsk] at hpk
              simp only [Option.map_some, Option.some.injEq] at hpk
              have h1 : y.gid = sv := congrArg G.gid hpk
              have h2 : y.mask = x.mask := congrArg G.mask hpk
              refine ⟨?_, ?_, ?_⟩
              · unfold unicodeProps; rw [hv]; exact hxG.1
              · rw [h1]; exact hgids sv (List.mem_of_getElem? hsk)
              · rw [h2]; exact hxG.2.2
          · exact hglyphL y (List.mem_of_mem_drop hy)
        have htail2 : (L.take pi ++ outs ++ L.drop (pi + 1)).drop (endv + d) = T := by
          rw [List.append_assoc, List.drop_append, htk, List.drop_eq_nil_of_le (by rw [htk]; omega), List.nil_append,
            List.drop_append, houtl, List.drop_eq_nil_of_le (by rw [houtl]; omega), List.nil_append, List.drop_drop]
          rw [← htailL]
          congr 1; omega
        have hst2 : ∀ positions2, count + d ≤ positions2.length → positions2.take (count + d) = posAfter ps s pi d →
            RecSt { c with buf := b2 } gs2 (posAfter ps s pi d) positions2 (count + d) (endv + d) T := by
          intro positions2 hle2 hpos2
          refine ⟨hinv2, by show b2.successful = true; rw [hsu2]; show b1.successful = true; rw [hsu1]; exact h.succ,
            by show RelF (outP b2 ++ inP b2) gs2; rw [hL2]; exact hrel2,
            by rw [posAfter_length ps s pi d hsps, h.cnt], hle2, hpos2, ?_, by omega, ?_, by rw [hgs2l]; have := h.endle; omega,
            by show (outP b2 ++ inP b2).drop (endv + d) = T; rw [hL2]; exact htail2,
            by show ∀ y ∈ outP b2 ++ inP b2, CtxG y; rw [hL2]; exact hglyph2⟩
          · rw [posAfter_last ps s pi d (endv - 1) hpi h.last]
            congr 1; have := h.epos; omega
          · intro p hp
            unfold posAfter at hp
            simp only [List.mem_append, List.mem_map, List.mem_range] at hp
            rcases hp with (hp | ⟨j, hj, rfl⟩) | ⟨q, hq, rfl⟩
            · have := h.range p (List.mem_of_mem_take hp); omega
            · omega
            · have := h.range q (List.mem_of_mem_drop hq); omega
        have hbud2 : b2.outLen + (inP b2).length + rest.length * Gr ≤ b2.maxLen := by
          have h1 : total b2 = b2.outLen + (inP b2).length := by unfold total; rw [inP_length b2 hinv2]
          have h2 : total b2 = L.length + d := by unfold total; rw [hnew, htot']
          have h3 : b2.maxLen = c.buf.maxLen := by rw [hml2]; exact hml1
          rw [← h1, h2, h3]; omega
        have hops2' : (rest.length : Int) ≤ b2.maxOps := by
          rw [hops2]; show (rest.length : Int) ≤ b1.maxOps - 1; rw [hops1]; omega
        have hacc2 : ∀ e' (gsF : List G), e' + gs2.length = endv + d + gsF.length → e' + gs.length = endv + gsF.length := by
          intro e' gsF he; omega
        have htot2 : ∀ t : Nat, t ≤ b2.outLen + (inP b2).length + rest.length * Gr →
            t ≤ c.buf.outLen + (inP c.buf).length + (rest.length + 1) * Gr := by
          intro t ht
          have h1 : total b2 = b2.outLen + (inP b2).length := by unfold total; rw [inP_length b2 hinv2]
          have h2 : total b2 = L.length + d := by unfold total; rw [hnew, htot']
          rw [hmul, hinl]; omega
        have hmops2 : ∀ t : Int, b2.maxOps - (rest.length : Int) ≤ t → c.buf.maxOps - ((rest.length + 1 : Nat) : Int) ≤ t := by
          intro t ht
          rw [hops2] at ht
          have : b1.maxOps = c.buf.maxOps := hops1
          omega
        by_cases hd0 : d = 0
        · subst hd0
          rw [loop_zero _ c positions count _ s idx rest b1 { c with buf := b2 } pi h.succ hslt hpos h.inv.have_out (by omega) hmv
            (by rw [hops1]; omega) hrec hho2 (by simpa using hnew)]
          have hst := hst2 positions (by simpa using h.cle) (by rw [posAfter_zero]; simpa using h.pos)
          simp only [Nat.add_zero] at hst
          obtain ⟨b', positions', count', endv', hrun, hst', hml', hfl', hacc, htl, hmo', hee⟩ :=
            ih { c with buf := b2 } gs2 (posAfter ps s pi 0) positions count endv hst hf hm hrnd hnest' hbud2 (by omega) hops2'
          refine ⟨b', positions', count', endv', hrun, hst', ?_, ?_, ?_, htot2 _ htl, hmops2 _ hmo', by omega⟩
          · rw [hml']; show b2.maxLen = _; rw [hml2]; exact hml1
          · rw [hfl']; show b2.flags = _; rw [hfl2]; exact hfl1
          · exact hacc2 endv' _ (by simpa using hacc)
        · have hdpos : 0 < d := by omega
          obtain ⟨Q1, Q2, hcw, hfill, hQl, hQt⟩ := posUpdate positions count s pi d hslt h.cle hpos hdpos
          rw [h.pos] at hQt
          rw [loop_grow _ c positions count endv s idx rest b1 { c with buf := b2 } pi d h.succ hslt hpos h.inv.have_out (by omega) hmv
            (by rw [hops1]; omega) hrec hho2 hnew hdpos (by omega) (by omega)]
          simp only [bind, Except.bind, hcw, hfill]
          have hst := hst2 _ (by simpa using hQl) hQt
          obtain ⟨b', positions', count', endv', hrun, hst', hml', hfl', hacc, htl, hmo', hee⟩ :=
            ih { c with buf := b2 } gs2 (posAfter ps s pi d) _ (count + d) (endv + d) hst hf hm hrnd hnest' hbud2 (by omega) hops2'
          refine ⟨b', positions', count', endv', hrun, hst', ?_, ?_, ?_, htot2 _ htl, hmops2 _ hmo', by omega⟩
          · rw [hml']; show b2.maxLen = _; rw [hml2]; exact hml1
          · rw [hfl']; show b2.flags = _; rw [hfl2]; exact hfl1
          · exact hacc2 endv' _ hacc

end RbModel.Gsub
