/-
  Contextual GSUB lookups, step 2b: the record loop of `apply_lookup` (move_to, recurse, delta bookkeeping of
  `match_positions`: shift, fill, fixup) against `Spec.Subst.applyRecords`, for non-shrinking single-position nested lookups.
-/
import RbModel.Lemmas.GsubCtxNested
import RbModel.Lemmas.GsubFill
import RbModel.Lemmas.MorxLig

namespace RbModel.Gsub
open RbModel RbModel.Buf RbModel.Mem RbModel.Spec.Subst

/-! ### one iteration of the loop, unfolded -/

theorem loop_skip (recurse : Ctx → Nat → M (Ctx × Bool)) (c : Ctx) (positions : List Nat) (count : Nat) (endv : Int)
    (s idx : Nat) (rest : List Rec) (hsu : c.buf.successful = true) (hs : s ≥ count) :
    applyLookup.loop recurse c positions count endv ((s, idx) :: rest) = applyLookup.loop recurse c positions count endv rest := by
  rw [applyLookup.loop]
  simp only [hsu, Bool.not_true, Bool.false_eq_true, if_false, hs, if_true]

theorem loop_noapply (recurse : Ctx → Nat → M (Ctx × Bool)) (c : Ctx) (positions : List Nat) (count : Nat) (endv : Int)
    (s idx : Nat) (rest : List Rec) (b1 : Buf) (c2 : Ctx) (pi : Nat)
    (hsu : c.buf.successful = true) (hs : s < count) (hpi : positions[s]? = some pi)
    (hho : c.buf.haveOutput = true) (hlt : pi < c.buf.outLen + (c.buf.len - c.buf.idx))
    (hmv : c.buf.moveTo pi = .ok (b1, true)) (hops : 0 < b1.maxOps)
    (hrec : recurse { c with buf := b1 } idx = .ok (c2, false)) :
    applyLookup.loop recurse c positions count endv ((s, idx) :: rest) = applyLookup.loop recurse c2 positions count endv rest := by
  have hns : ¬ s ≥ count := by omega
  have hgp : getPos positions s = .ok pi := by unfold getPos; rw [hpi]; rfl
  have hnl : ¬ pi ≥ c.buf.outLen + (c.buf.len - c.buf.idx) := by omega
  have hnops : ¬ b1.maxOps ≤ 0 := by omega
  rw [applyLookup.loop]
  simp only [hsu, Bool.not_true, Bool.false_eq_true, if_false, hns, hho, if_true, bind, Except.bind, hgp, hnl, hmv, hnops, hrec,
    Bool.not_false]

theorem loop_zero (recurse : Ctx → Nat → M (Ctx × Bool)) (c : Ctx) (positions : List Nat) (count : Nat) (endv : Int)
    (s idx : Nat) (rest : List Rec) (b1 : Buf) (c2 : Ctx) (pi : Nat)
    (hsu : c.buf.successful = true) (hs : s < count) (hpi : positions[s]? = some pi)
    (hho : c.buf.haveOutput = true) (hlt : pi < c.buf.outLen + (c.buf.len - c.buf.idx))
    (hmv : c.buf.moveTo pi = .ok (b1, true)) (hops : 0 < b1.maxOps)
    (hrec : recurse { c with buf := b1 } idx = .ok (c2, true)) (hho2 : c2.buf.haveOutput = true)
    (hnew : c2.buf.outLen + (c2.buf.len - c2.buf.idx) = c.buf.outLen + (c.buf.len - c.buf.idx)) :
    applyLookup.loop recurse c positions count endv ((s, idx) :: rest) = applyLookup.loop recurse c2 positions count endv rest := by
  have hns : ¬ s ≥ count := by omega
  have hgp : getPos positions s = .ok pi := by unfold getPos; rw [hpi]; rfl
  have hnl : ¬ pi ≥ c.buf.outLen + (c.buf.len - c.buf.idx) := by omega
  have hnops : ¬ b1.maxOps ≤ 0 := by omega
  rw [applyLookup.loop]
  simp only [hsu, Bool.not_true, Bool.false_eq_true, if_false, hns, hho, if_true, bind, Except.bind, hgp, hnl, hmv, hnops, hrec,
    hho2, hnew, Int.sub_self, beq_self_eq_true]

theorem loop_grow (recurse : Ctx → Nat → M (Ctx × Bool)) (c : Ctx) (positions : List Nat) (count endv s idx : Nat)
    (rest : List Rec) (b1 : Buf) (c2 : Ctx) (pi d : Nat)
    (hsu : c.buf.successful = true) (hs : s < count) (hpi : positions[s]? = some pi)
    (hho : c.buf.haveOutput = true) (hlt : pi < c.buf.outLen + (c.buf.len - c.buf.idx))
    (hmv : c.buf.moveTo pi = .ok (b1, true)) (hops : 0 < b1.maxOps)
    (hrec : recurse { c with buf := b1 } idx = .ok (c2, true))
    (hho2 : c2.buf.haveOutput = true)
    (hnew : c2.buf.outLen + (c2.buf.len - c2.buf.idx) = c.buf.outLen + (c.buf.len - c.buf.idx) + d) (hd : 0 < d)
    (hend : pi ≤ endv + d) (hctx : d + count ≤ MAX_CONTEXT_LENGTH) :
    applyLookup.loop recurse c positions count (endv : Int) ((s, idx) :: rest) =
      (do let P := if d + count > positions.length then resizeNat positions (max (d + count) (max 4 positions.length * 3 / 2)) else positions
          let Q1 ← copyWithinNat P (s+1) count (s+1+d)
          let Q2 ← applyLookup.loop.fill ((s+1+d : Nat) : Int) Q1 (s+1) (s+1+d+1)
          applyLookup.loop recurse c2 (Q2.mapIdx fun j p => if (decide (s+1+d ≤ j) && decide (j < count + d)) = true then p + d else p) (count + d) ((endv + d : Nat) : Int) rest) := by
  have hns : ¬ s ≥ count := by omega
  have hgp : getPos positions s = .ok pi := by unfold getPos; rw [hpi]; rfl
  have hnl : ¬ pi ≥ c.buf.outLen + (c.buf.len - c.buf.idx) := by omega
  have hnops : ¬ b1.maxOps ≤ 0 := by omega
  have hdelta : ((c2.buf.outLen + (c2.buf.len - c2.buf.idx) : Nat) : Int) - ((c.buf.outLen + (c.buf.len - c.buf.idx) : Nat) : Int) = (d : Int) := by
    rw [hnew]; omega
  rw [applyLookup.loop]
  simp only [hsu, Bool.not_true, Bool.false_eq_true, if_false, hns, hho, if_true, bind, Except.bind, hgp, hnl, hmv, hnops, hrec, hho2, hdelta]
  have e1 : ((d : Int) == 0) = false := by simp; omega
  have e2' : ¬ (((endv + d : Nat) : Int) < (pi : Int)) := by omega
  have e3 : (d : Int) > 0 := by omega
  have e4 : (d : Int).toNat = d := by omega
  have e5 : ¬ d + count > MAX_CONTEXT_LENGTH := by omega
  have e6 : ((s : Int) + 1).toNat = s + 1 := by omega
  have e7 : ((s : Int) + 1 + (d : Int)).toNat = s + 1 + d := by omega
  have e8 : ((s : Int) + 1 + (d : Int)) = ((s + 1 + d : Nat) : Int) := by omega
  have e9 : ((count : Int) + (d : Int)).toNat = count + d := by omega
  have e10 : ∀ p : Nat, (Int.ofNat p + (d : Int)).toNat = p + d := by intro p; simp only [Int.ofNat_eq_natCast]; omega
  have e11 : ((endv : Int) + (d : Int)) = ((endv + d : Nat) : Int) := by omega
  simp only [e1, Bool.false_eq_true, if_false, e2', e3, if_true, e4, e5, e6, e7, e9, e10, e11]
  rw [e8]
  by_cases hr : d + count > positions.length
  · simp only [hr, if_true]
  · simp only [hr, if_false]

/-! ### the position bookkeeping in closed form -/

/-- the Spec's rule for the sequence positions after a nested lookup at sequence index `s` (position `p`) grew the string by `d` -/
def posAfter (ps : List Nat) (s p d : Nat) : List Nat :=
  ps.take (s + 1) ++ (List.range d).map (fun j => p + 1 + j) ++ (ps.drop (s + 1)).map (· + d)

theorem posAfter_zero (ps : List Nat) (s p : Nat) : posAfter ps s p 0 = ps := by
  unfold posAfter
  simp

theorem posAfter_length (ps : List Nat) (s p d : Nat) (hs : s < ps.length) : (posAfter ps s p d).length = ps.length + d := by
  unfold posAfter
  simp; omega

theorem resizeNat_take (l : List Nat) (n k : Nat) (hk : k ≤ l.length) (hn : l.length ≤ n) : (resizeNat l n).take k = l.take k := by
  unfold resizeNat
  by_cases h : n ≤ l.length
  · have : n = l.length := by omega
    subst this; simp
  · simp only [h, if_false]
    rw [List.take_append_of_le_length hk]

/-- **shift, fill, fixup** of `apply_lookup` compute the Spec's position rule -/
theorem posUpdate (positions : List Nat) (count s pi d : Nat) (hs : s < count) (hc : count ≤ positions.length)
    (hpi : positions[s]? = some pi) (hd : 0 < d) :
    ∃ Q1 Q2, copyWithinNat (if d + count > positions.length then resizeNat positions (max (d + count) (max 4 positions.length * 3 / 2)) else positions)
        (s + 1) count (s + 1 + d) = .ok Q1 ∧
      applyLookup.loop.fill ((s + 1 + d : Nat) : Int) Q1 (s + 1) (s + 1 + d + 1) = .ok Q2 ∧
      count + d ≤ Q2.length ∧
      (Q2.mapIdx fun j p => if (decide (s + 1 + d ≤ j) && decide (j < count + d)) = true then p + d else p).take (count + d)
        = posAfter (positions.take count) s pi d := by
  generalize hP : (if d + count > positions.length then resizeNat positions (max (d + count) (max 4 positions.length * 3 / 2)) else positions) = P
  have hPl : count + d ≤ P.length := by
    rw [← hP]
    by_cases h : d + count > positions.length
    · rw [if_pos h, resizeNat_length]; omega
    · rw [if_neg h]; omega
  have hPt : P.take count = positions.take count := by
    rw [← hP]
    by_cases h : d + count > positions.length
    · rw [if_pos h]; exact resizeNat_take _ _ _ hc (by omega)
    · rw [if_neg h]
  have hPq : ∀ q, q < count → P[q]? = positions[q]? := by
    intro q hq
    have := congrArg (fun l => l[q]?) hPt
    simp only [List.getElem?_take, hq, if_true] at this
    exact this
  have hcw : copyWithinNat P (s + 1) count (s + 1 + d)
      = .ok (P.take (s + 1 + d) ++ (P.drop (s + 1)).take (count - (s + 1)) ++ P.drop (s + 1 + d + ((P.drop (s + 1)).take (count - (s + 1))).length)) := by
    unfold copyWithinNat
    have : ¬ (s + 1 > count || count > P.length || s + 1 + d + (count - (s + 1)) > P.length) = true := by
      simp; omega
    simp only [this, if_false]
    rfl
  generalize hQ1 : (P.take (s + 1 + d) ++ (P.drop (s + 1)).take (count - (s + 1)) ++ P.drop (s + 1 + d + ((P.drop (s + 1)).take (count - (s + 1))).length)) = Q1 at hcw
  have hsegl : ((P.drop (s + 1)).take (count - (s + 1))).length = count - (s + 1) := by simp; omega
  have hQ1l : Q1.length = P.length := by
    rw [← hQ1]; simp; omega
  have hQ1q : ∀ q, Q1[q]? = if q < s + 1 + d then P[q]? else if q < count + d then P[q - d]? else P[q]? := by
    intro q
    rw [← hQ1, hsegl]
    by_cases h1 : q < s + 1 + d
    · simp only [h1, if_true]
      rw [List.append_assoc, List.getElem?_append_left (by simp; omega), List.getElem?_take]
      simp [h1]
    · simp only [h1, if_false]
      rw [List.append_assoc, List.getElem?_append_right (by simp; omega)]
      have htl : (P.take (s + 1 + d)).length = s + 1 + d := by simp; omega
      rw [htl]
      by_cases h2 : q < count + d
      · simp only [h2, if_true]
        rw [List.getElem?_append_left (by simp; omega), List.getElem?_take, List.getElem?_drop]
        have : q - (s + 1 + d) < count - (s + 1) := by omega
        simp only [this, if_true]
        congr 1; omega
      · simp only [h2, if_false]
        rw [List.getElem?_append_right (by simp; omega), hsegl, List.getElem?_drop]
        congr 1; omega
  have hQ1s : Q1[s]? = some pi := by
    rw [hQ1q s]
    have : s < s + 1 + d := by omega
    simp only [this, if_true]
    rw [hPq s hs]; exact hpi
  have hfill := fill_closed_form Q1 s d pi hQ1s (by omega)
  refine ⟨Q1, _, hcw, hfill, by simp; omega, ?_⟩
  apply List.ext_getElem?
  intro q
  unfold posAfter
  rw [List.getElem?_take]
  by_cases hq : q < count + d
  · simp only [hq, if_true, List.getElem?_mapIdx]
    by_cases h1 : q < s + 1
    · have e1 : (Q1.take (s + 1) ++ (List.range d).map (fun i => pi + 1 + i) ++ Q1.drop (s + 1 + d))[q]? = Q1[q]? := by
        rw [List.append_assoc, List.getElem?_append_left (by simp; omega), List.getElem?_take]; simp [h1]
      rw [e1, hQ1q q]
      have : q < s + 1 + d := by omega
      simp only [this, if_true]
      have hnot : ¬ (s + 1 + d ≤ q) := by omega
      rw [List.append_assoc, List.getElem?_append_left (by simp; omega), List.getElem?_take, List.getElem?_take]
      have hqc : q < count := by omega
      simp only [h1, hqc, if_true, hPq q hqc]
      cases positions[q]? <;> simp [hnot]
    · by_cases h2 : q < s + 1 + d
      · have e1 : (Q1.take (s + 1) ++ (List.range d).map (fun i => pi + 1 + i) ++ Q1.drop (s + 1 + d))[q]? = some (pi + 1 + (q - (s + 1))) := by
          rw [List.append_assoc, List.getElem?_append_right (by simp; omega)]
          have htl : (Q1.take (s + 1)).length = s + 1 := by simp; omega
          rw [htl, List.getElem?_append_left (by simp; omega), List.getElem?_map, List.getElem?_range (by omega)]
          rfl
        have e2 : ((List.take (s + 1) (List.take count positions) ++ List.map (fun j => pi + 1 + j) (List.range d)) ++
            List.map (fun x => x + d) (List.drop (s + 1) (List.take count positions)))[q]? = some (pi + 1 + (q - (s + 1))) := by
          rw [List.append_assoc, List.getElem?_append_right (by simp; omega)]
          have htl : ((positions.take count).take (s + 1)).length = s + 1 := by simp; omega
          rw [htl, List.getElem?_append_left (by simp; omega), List.getElem?_map, List.getElem?_range (by omega)]
          rfl
        rw [e1, e2]
        have hnot : ¬ (s + 1 + d ≤ q) := by omega
        simp [hnot]
      · have e1 : (Q1.take (s + 1) ++ (List.range d).map (fun i => pi + 1 + i) ++ Q1.drop (s + 1 + d))[q]? = Q1[q]? := by
          rw [List.getElem?_append_right (by simp; omega)]
          have htl : (Q1.take (s + 1) ++ (List.range d).map (fun i => pi + 1 + i)).length = s + 1 + d := by simp; omega
          rw [htl, List.getElem?_drop]
          congr 1; omega
        rw [e1, hQ1q q]
        simp only [h2, if_false, hq, if_true]
        have e2 : ((List.take (s + 1) (List.take count positions) ++ List.map (fun j => pi + 1 + j) (List.range d)) ++
            List.map (fun x => x + d) (List.drop (s + 1) (List.take count positions)))[q]? = (positions[q - d]?).map (· + d) := by
          rw [List.getElem?_append_right (by simp; omega)]
          have htl : ((positions.take count).take (s + 1) ++ (List.range d).map (fun j => pi + 1 + j)).length = s + 1 + d := by
            simp; omega
          rw [htl, List.getElem?_map, List.getElem?_drop, List.getElem?_take]
          have : s + 1 + (q - (s + 1 + d)) < count := by omega
          simp only [this, if_true]
          congr 2; omega
        rw [e2, hPq (q - d) (by omega)]
        have hyes : s + 1 + d ≤ q := by omega
        cases positions[q - d]? <;> simp [hyes, hq]
  · simp only [hq, if_false]
    symm
    apply List.getElem?_eq_none
    simp
    omega

end RbModel.Gsub
