/-
  Lemmas about the `worked` value of `apply_to_pos` (`Gpos.lean: valueApplyToPosD`) and about the flag decision of
  PairPos (`GposFlag.lean: pairPosApply`).
-/
import RbModel.GposFlag
import RbModel.Lemmas.GposDevice

namespace RbModel.Gpos

/-- an enabled component of the record is present: a non-zero static value on an axis the direction uses, or a
    Device / VariationIndex table the face state enables (the Rust code reports a device "even when 0") -/
def ValueRecordD.Reports (v : ValueRecordD) (useX useY : Bool) (d : Dir) : Prop :=
  v.xPlacement ≠ 0 ∨ v.yPlacement ≠ 0 ∨ (d.isHorizontal = true ∧ v.xAdvance ≠ 0) ∨
  (d.isHorizontal = false ∧ v.yAdvance ≠ 0) ∨
  (useX = true ∧ v.xPlaDevice.isSome = true) ∨ (useY = true ∧ v.yPlaDevice.isSome = true) ∨
  (d.isHorizontal = true ∧ useX = true ∧ v.xAdvDevice.isSome = true) ∨
  (d.isHorizontal = false ∧ useY = true ∧ v.yAdvDevice.isSome = true)

theorem valueApplyToPos_worked (v : ValueRecord) (d : Dir) (q : Pos) :
    (valueApplyToPos v d q).2 = true ↔
      (v.xPlacement ≠ 0 ∨ v.yPlacement ≠ 0 ∨ (d.isHorizontal = true ∧ v.xAdvance ≠ 0) ∨
       (d.isHorizontal = false ∧ v.yAdvance ≠ 0)) := by
  unfold valueApplyToPos
  cases d.isHorizontal <;>
    by_cases h1 : v.xPlacement = 0 <;> by_cases h2 : v.yPlacement = 0 <;>
    by_cases h3 : v.xAdvance = 0 <;> by_cases h4 : v.yAdvance = 0 <;> simp [h1, h2, h3, h4]

/-- **the `worked` value of `apply_to_pos`**: true exactly when an enabled component is present -/
theorem valueApplyToPosD_worked (v : ValueRecordD) (useX useY : Bool) (d : Dir) (q : Pos) :
    (valueApplyToPosD v useX useY d q).2 = true ↔ v.Reports useX useY d := by
  obtain ⟨v0, a, b, c, e⟩ := v
  have h0 := valueApplyToPos_worked v0 d q
  unfold valueApplyToPosD ValueRecordD.Reports
  generalize valueApplyToPos v0 d q = r0 at h0 ⊢
  obtain ⟨q0, w0⟩ := r0
  simp only at h0
  cases useX <;> cases useY <;> cases hd : d.isHorizontal <;> cases a <;> cases b <;> cases c <;> cases e <;>
    cases w0 <;> simp_all

/-- a record none of whose enabled components is present leaves the position alone -/
theorem valueApplyToPosD_not_reports (v : ValueRecordD) (useX useY : Bool) (d : Dir) (q : Pos)
    (h : ¬ v.Reports useX useY d) : (valueApplyToPosD v useX useY d q).1 = q := by
  rw [valueApplyToPosD_exact]
  unfold ValueRecordD.Reports at h
  obtain ⟨v0, a, b, c, e⟩ := v
  obtain ⟨xp, yp, xa, ya⟩ := v0
  cases useX <;> cases useY <;> cases hd : d.isHorizontal <;> cases a <;> cases b <;> cases c <;> cases e <;>
    simp_all [devDelta]

/-- **a record that moved the glyph says so** -/
theorem valueApplyToPosD_moved (v : ValueRecordD) (useX useY : Bool) (d : Dir) (q : Pos)
    (h : (valueApplyToPosD v useX useY d q).1 ≠ q) : (valueApplyToPosD v useX useY d q).2 = true := by
  rw [valueApplyToPosD_worked]
  exact Classical.byContradiction fun hn => h (valueApplyToPosD_not_reports v useX useY d q hn)

theorem put_get_self (p : Array Pos) (i : Nat) (q : Pos) (h : get p i = .ok q) : put p i q = p := by
  unfold get at h
  unfold put
  split at h
  · rename_i x hx
    cases h
    apply Array.ext
    · simp
    · intro j h1 h2
      rw [Array.getElem_setIfInBounds]
      split
      · rename_i hij
        subst hij
        rw [Array.getElem?_eq_getElem h2] at hx
        exact (Option.some.inj hx).symm
      · rfl
  · cases h

/-- `ValueRecord::apply` at `idx`: positions changed ⇒ the call returned `true` -/
theorem valueApplyD_moved (v : ValueRecordD) (useX useY : Bool) (d : Dir) (p p' : Array Pos) (idx : Nat) (w : Bool)
    (h : valueApplyD v useX useY d p idx = .ok (p', w)) (hne : p' ≠ p) : w = true := by
  unfold valueApplyD at h
  cases hg : get p idx with
  | error e => simp [hg, bind, Except.bind] at h
  | ok q =>
    simp only [hg, bind, Except.bind] at h
    cases h
    apply valueApplyToPosD_moved v useX useY d q
    intro heq
    apply hne
    rw [heq]
    exact put_get_self p idx q hg

/-- `bail` of PairPos: positions changed ⇒ `flag1 || flag2` -/
theorem pairApplyD_moved (v1 v2 : ValueRecordD) (useX useY : Bool) (d : Dir) (p p' : Array Pos) (i j : Nat)
    (f1 f2 : Bool) (h : pairApplyD v1 v2 useX useY d p i j = .ok (p', f1, f2)) (hne : p' ≠ p) :
    (f1 || f2) = true := by
  unfold pairApplyD at h
  cases he1 : v1.isEmpty <;> cases he2 : v2.isEmpty <;> simp only [he1, he2, Bool.not_true, Bool.not_false] at h
  · -- both records present
    cases h1 : valueApplyD v1 useX useY d p i with
    | error e => simp [h1, bind, Except.bind] at h
    | ok r1 =>
      obtain ⟨p1, w1⟩ := r1
      simp only [h1, bind, Except.bind] at h
      cases h2 : valueApplyD v2 useX useY d p1 j with
      | error e => simp [h2] at h
      | ok r2 =>
        obtain ⟨p2, w2⟩ := r2
        simp only [h2] at h
        cases h
        by_cases hp1 : p1 = p
        · subst hp1
          have := valueApplyD_moved v2 useX useY d p1 p' j f2 h2 hne
          simp [this]
        · have := valueApplyD_moved v1 useX useY d p p1 i f1 h1 hp1
          simp [this]
  · cases h1 : valueApplyD v1 useX useY d p i with
    | error e => simp [h1, bind, Except.bind] at h
    | ok r1 =>
      obtain ⟨p1, w1⟩ := r1
      simp only [h1, bind, Except.bind] at h
      cases h
      have := valueApplyD_moved v1 useX useY d p p' i f1 h1 hne
      simp [this]
  · simp only [bind, Except.bind] at h
    cases h2 : valueApplyD v2 useX useY d p j with
    | error e => simp [h2] at h
    | ok r2 =>
      obtain ⟨p2, w2⟩ := r2
      simp only [h2] at h
      cases h
      have := valueApplyD_moved v2 useX useY d p p' j f2 h2 hne
      simp [this]
  · simp only [bind, Except.bind] at h
    cases h
    exact absurd rfl hne

/-- the unit records of the generated probe table (Gen/GposWorked.lean): exactly one component present -/
def unitRecord : Nat → ValueRecordD
  | 0 => { xPlacement := 7 } | 1 => { yPlacement := 7 } | 2 => { xAdvance := 7 } | 3 => { yAdvance := 7 }
  | 4 => { xPlaDevice := some 250 } | 5 => { yPlaDevice := some 250 }
  | 6 => { xAdvDevice := some 250 } | 7 => { yAdvDevice := some 250 }
  | 8 => { xPlaDevice := some 0 } | 9 => { yPlaDevice := some 0 }
  | 10 => { xAdvDevice := some 0 } | _ => { yAdvDevice := some 0 }

/-- the model's `worked` on a probe row (component, horizontal, ppem_x set, ppem_y set, _) -/
def probeWorked (r : Nat × Bool × Bool × Bool × Bool) : Bool :=
  (valueApplyToPosD (unitRecord r.1) r.2.2.1 r.2.2.2.1 (if r.2.1 then Dir.ltr else Dir.ttb) {}).2

end RbModel.Gpos

namespace RbModel.GposFlag
open RbModel RbModel.Gpos

theorem liftG_ok {α} (x : Gpos.M α) (a : α) (h : liftG x = .ok a) : x = .ok a := by
  cases x with
  | ok b => simpa [liftG] using h
  | error e => cases e <;> simp [liftG] at h

/-- **PairPos: a pair that moved a glyph is flagged unsafe_to_break over `[idx, second + 1)`**, then `finish` runs -/
theorem pairPosApply_moved (b b' : Buf) (p p' : Array Pos) (j : Nat) (v1 v2 : ValueRecordD) (useX useY : Bool) (d : Dir)
    (ap : Bool) (h : pairPosApply b p (.records j v1 v2) useX useY d = .ok (b', p', ap)) (hne : p' ≠ p) :
    ∃ b1, b.unsafeToBreak b.idx (some (j + 1)) = .ok b1 ∧ pairFinish b1 j (!v2.isEmpty) = .ok b' := by
  unfold pairPosApply at h
  simp only [bind, Except.bind] at h
  cases hl : liftG (pairApplyD v1 v2 useX useY d p b.idx j) with
  | error e => simp [hl] at h
  | ok r =>
    obtain ⟨p1, f1, f2⟩ := r
    simp only [hl] at h
    have hp := liftG_ok _ _ hl
    cases hs : pairSuccess b j f1 f2 (!v2.isEmpty) with
    | error e => simp [hs] at h
    | ok b2 =>
      simp only [hs, pure, Except.pure] at h
      cases h
      have hf := pairApplyD_moved v1 v2 useX useY d p p' b.idx j f1 f2 hp hne
      unfold pairSuccess at hs
      simp only [hf, if_true, bind, Except.bind] at hs
      cases hu : b.unsafeToBreak b.idx (some (j + 1)) with
      | error e => simp [hu] at hs
      | ok b1 =>
        simp only [hu] at hs
        exact ⟨b1, rfl, hs⟩

end RbModel.GposFlag
