/-
  The cluster / glyph-flag bookkeeping of the buffer writes cluster values and GLYPH FLAGS only.
  A glyph's mask holds the three glyph flags (`glyph_flag::DEFINED` = the low three bits) and, above them, the feature
  bits `set_masks` gave the glyph; the feature bits select the lookups that act on it.  `featKey x` is what no merge,
  flag routine or deletion may change in a record: glyph id, feature bits, var1, var2.  `SameFeat l l'` says that two
  Vecs agree on it position by position; `KeepFeat b b'` that two buffers differ in cluster values, glyph flags and
  `scratch_flags` at most.
-/
import RbModel.Lemmas.Cluster
import RbModel.Lemmas.ClusterRelabel

namespace RbModel.Buf
open RbModel.Mem

/-- the feature bits of a (32-bit) mask: everything outside `glyph_flag::DEFINED` -/
def featBits (m : Nat) : Nat := m &&& (U32MAX - Flag.DEFINED)

/-- what the cluster / flag bookkeeping must leave alone in a glyph record -/
def featKey (x : Info) : Nat × Nat × Nat × Nat := (x.gid, featBits x.mask, x.var1, x.var2)

theorem defined_and_featmask : Flag.DEFINED &&& (U32MAX - Flag.DEFINED) = 0 := by decide

/-- the mask `set_cluster` writes: old feature bits, new glyph flags -/
theorem featBits_setCluster (m k : Nat) :
    featBits ((m &&& (U32MAX - Flag.DEFINED)) ||| (k &&& Flag.DEFINED)) = featBits m := by
  unfold featBits
  rw [Nat.and_or_distrib_right, Nat.and_assoc, Nat.and_self, Nat.and_assoc, defined_and_featmask, Nat.and_zero, Nat.or_zero]

/-- or-ing glyph flags into a mask -/
theorem featBits_or (m k : Nat) (hk : k &&& (U32MAX - Flag.DEFINED) = 0) : featBits (m ||| k) = featBits m := by
  unfold featBits
  rw [Nat.and_or_distrib_right, hk, Nat.or_zero]

theorem featKey_setCluster (x : Info) (c m : Nat) : featKey (setCluster x c m) = featKey x := by
  unfold setCluster featKey
  by_cases h : (x.cluster != c) = true
  · simp only [h, if_true]; rw [featBits_setCluster]
  · simp only [h, Bool.false_eq_true, if_false]

theorem featKey_orMask (x : Info) (k : Nat) (hk : k &&& (U32MAX - Flag.DEFINED) = 0) :
    featKey { x with mask := x.mask ||| k } = featKey x := by
  unfold featKey; simp only; rw [featBits_or _ _ hk]

/-- `l'` agrees with `l` on glyph ids, feature bits, var1, var2, position by position -/
def SameFeat (l l' : List Info) : Prop := l'.map featKey = l.map featKey

theorem SameFeat.refl (l : List Info) : SameFeat l l := rfl
theorem SameFeat.trans {a b c : List Info} (h1 : SameFeat a b) (h2 : SameFeat b c) : SameFeat a c := by
  unfold SameFeat at *; rw [h2, h1]

theorem SameFeat.length {l l' : List Info} (h : SameFeat l l') : l'.length = l.length := by
  have := congrArg List.length h
  simpa using this

theorem SameFeat.set (l : List Info) (i : Nat) (x y : Info) (h : l[i]? = some x) (hk : featKey y = featKey x) :
    SameFeat l (l.set i y) := by
  unfold SameFeat
  rw [List.map_set]
  apply List.ext_getElem?
  intro q
  by_cases hq : i = q
  · subst hq
    have hi : i < l.length := (List.getElem?_eq_some_iff.1 h).1
    rw [List.getElem?_set_self (by simpa using hi), List.getElem?_map, h, hk]; rfl
  · rw [List.getElem?_set_ne hq]

theorem SameFeat.take_drop {l l' : List Info} (h : SameFeat l l') (n : Nat) :
    SameFeat (l.take n) (l'.take n) ∧ SameFeat (l.drop n) (l'.drop n) := by
  unfold SameFeat at *
  constructor
  · rw [List.map_take, List.map_take, h]
  · rw [List.map_drop, List.map_drop, h]

theorem SameFeat.append {a a' c c' : List Info} (h1 : SameFeat a a') (h2 : SameFeat c c') : SameFeat (a ++ c) (a' ++ c') := by
  unfold SameFeat at *; rw [List.map_append, List.map_append, h1, h2]

theorem SameFeat.getElem? {l l' : List Info} (h : SameFeat l l') (q : Nat) :
    (l'[q]?).map featKey = (l[q]?).map featKey := by
  have h1 : (l'.map featKey)[q]? = (l.map featKey)[q]? := by rw [h]
  rwa [List.getElem?_map, List.getElem?_map] at h1

/-! ### the loops that call `set_cluster` -/

theorem relabelOutBack_sameFeat (c cluster mask : Nat) : ∀ (i : Nat) (o r : List Info),
    relabelOutBack o c cluster mask i = .ok r → SameFeat o r := by
  intro i
  induction i with
  | zero => intro o r h; cases h; exact SameFeat.refl _
  | succ i ih =>
    intro o r h
    simp only [relabelOutBack] at h
    cases hg : get o i with
    | error e => rw [hg] at h; cases h
    | ok x =>
      rw [hg] at h
      simp only [ok_bind] at h
      split at h
      · exact (SameFeat.set o i x _ (get_eq_ok hg) (featKey_setCluster _ _ _)).trans (ih _ _ h)
      · cases h; exact SameFeat.refl _

theorem setClusterRange_sameFeat (cluster : Nat) : ∀ (k i : Nat) (l r : List Info),
    setClusterRange l cluster i k = .ok r → SameFeat l r := by
  intro k
  induction k with
  | zero => intro i l r h; cases h; exact SameFeat.refl _
  | succ k ih =>
    intro i l r h
    simp only [setClusterRange] at h
    cases hg : get l i with
    | error e => rw [hg] at h; cases h
    | ok x =>
      rw [hg] at h
      exact (SameFeat.set l i x _ (get_eq_ok hg) (featKey_setCluster _ _ _)).trans (ih _ _ _ h)

theorem relabelInFwd_sameFeat (len c cluster : Nat) : ∀ (fuel i : Nat) (l r : List Info),
    relabelInFwd l len c cluster i fuel = .ok r → SameFeat l r := by
  intro fuel
  induction fuel with
  | zero => intro i l r h; cases h; exact SameFeat.refl _
  | succ fuel ih =>
    intro i l r h
    simp only [relabelInFwd] at h
    split at h
    · cases hg : get l i with
      | error e => rw [hg] at h; cases h
      | ok x =>
        rw [hg] at h
        simp only [ok_bind] at h
        split at h
        · exact (SameFeat.set l i x _ (get_eq_ok hg) (featKey_setCluster _ _ _)).trans (ih _ _ _ h)
        · cases h; exact SameFeat.refl _
    · cases h; exact SameFeat.refl _

/-! ### the loops that or glyph flags into masks -/

theorem orMaskRange_sameFeat (mask : Nat) (hk : mask &&& (U32MAX - Flag.DEFINED) = 0) :
    ∀ (k i : Nat) (l r : List Info), orMaskRange l mask i k = .ok r → SameFeat l r := by
  intro k
  induction k with
  | zero => intro i l r h; cases h; exact SameFeat.refl _
  | succ k ih =>
    intro i l r h
    simp only [orMaskRange] at h
    cases hg : get l i with
    | error e => rw [hg] at h; cases h
    | ok x =>
      rw [hg] at h
      exact (SameFeat.set l i x _ (get_eq_ok hg) (featKey_orMask x mask hk)).trans (ih _ _ _ h)

theorem flagAllNe_sameFeat (cluster mask : Nat) (hk : mask &&& (U32MAX - Flag.DEFINED) = 0) :
    ∀ (k i : Nat) (l : List Info) (ch : Bool) (r : List Info × Bool),
    flagAllNe l cluster mask i k ch = .ok r → SameFeat l r.1 := by
  intro k
  induction k with
  | zero => intro i l ch r h; cases h; exact SameFeat.refl _
  | succ k ih =>
    intro i l ch r h
    simp only [flagAllNe] at h
    cases hg : get l i with
    | error e => rw [hg] at h; cases h
    | ok x =>
      rw [hg] at h
      simp only [ok_bind] at h
      split at h
      · exact (SameFeat.set l i x _ (get_eq_ok hg) (featKey_orMask x mask hk)).trans (ih _ _ _ _ h)
      · exact ih _ _ _ _ h

theorem flagFromEnd_sameFeat (cluster cf mask start : Nat) (hk : mask &&& (U32MAX - Flag.DEFINED) = 0) :
    ∀ (i : Nat) (l : List Info) (ch : Bool) (r : List Info × Bool),
    flagFromEnd l cluster cf mask start i ch = .ok r → SameFeat l r.1 := by
  intro i
  induction i with
  | zero => intro l ch r h; cases h; exact SameFeat.refl _
  | succ i ih =>
    intro l ch r h
    simp only [flagFromEnd] at h
    split at h
    · cases hg : get l i with
      | error e => rw [hg] at h; cases h
      | ok x =>
        rw [hg] at h
        simp only [ok_bind] at h
        split at h
        · split at h
          · exact (SameFeat.set l i x _ (get_eq_ok hg) (featKey_orMask x mask hk)).trans (ih _ _ _ h)
          · exact ih _ _ _ h
        · cases h; exact SameFeat.refl _
    · cases h; exact SameFeat.refl _

theorem flagFromStart_sameFeat (cluster cl mask : Nat) (hk : mask &&& (U32MAX - Flag.DEFINED) = 0) :
    ∀ (k i : Nat) (l : List Info) (ch : Bool) (r : List Info × Bool),
    flagFromStart l cluster cl mask i k ch = .ok r → SameFeat l r.1 := by
  intro k
  induction k with
  | zero => intro i l ch r h; cases h; exact SameFeat.refl _
  | succ k ih =>
    intro i l ch r h
    simp only [flagFromStart] at h
    cases hg : get l i with
    | error e => rw [hg] at h; cases h
    | ok x =>
      rw [hg] at h
      simp only [ok_bind] at h
      split at h
      · split at h
        · exact (SameFeat.set l i x _ (get_eq_ok hg) (featKey_orMask x mask hk)).trans (ih _ _ _ _ h)
        · exact ih _ _ _ _ h
      · cases h; exact SameFeat.refl _

theorem infosSetGlyphFlags_sameFeat (level : Nat) (l : List Info) (start stop cluster mask : Nat)
    (hk : mask &&& (U32MAX - Flag.DEFINED) = 0) (r : List Info × Bool)
    (h : infosSetGlyphFlags level l start stop cluster mask = .ok r) : SameFeat l r.1 := by
  unfold infosSetGlyphFlags at h
  split at h
  · cases h; exact SameFeat.refl _
  · cases hg : get l start with
    | error e => simp [hg, bind, Except.bind] at h
    | ok a =>
      simp only [hg, ok_bind] at h
      split at h
      · cases h
      · cases hz : get l (stop - 1) with
        | error e => simp [hz, bind, Except.bind] at h
        | ok z =>
          simp only [hz, ok_bind] at h
          split at h
          · exact flagAllNe_sameFeat _ _ hk _ _ _ _ _ h
          · split at h
            · exact flagFromEnd_sameFeat _ _ _ _ hk _ _ _ _ h
            · exact flagFromStart_sameFeat _ _ _ hk _ _ _ _ _ h

/-! ### buffers -/

/-- `b'` differs from `b` at most in cluster values and glyph flags of the two Vecs and in `scratch_flags`:
    every scalar field is the same, and so are glyph id, feature bits, var1, var2 of every record -/
def KeepFeat (b b' : Buf) : Prop :=
  b' = { b with info := b'.info, out := b'.out, scratch := b'.scratch } ∧ SameFeat b.info b'.info ∧ SameFeat b.out b'.out

theorem KeepFeat.refl (b : Buf) : KeepFeat b b := ⟨rfl, SameFeat.refl _, SameFeat.refl _⟩

theorem KeepFeat.trans {a b c : Buf} (h1 : KeepFeat a b) (h2 : KeepFeat b c) : KeepFeat a c := by
  obtain ⟨e1, i1, o1⟩ := h1
  obtain ⟨e2, i2, o2⟩ := h2
  refine ⟨?_, i1.trans i2, o1.trans o2⟩
  rw [e2, e1]

theorem KeepFeat.scratch (b : Buf) (s : Nat) : KeepFeat b { b with scratch := s } := ⟨rfl, SameFeat.refl _, SameFeat.refl _⟩

theorem KeepFeat.addScratch (b : Buf) (ch : Bool) : KeepFeat b (b.addScratch ch) := by
  unfold Buf.addScratch; split
  · exact KeepFeat.scratch b _
  · exact KeepFeat.refl b

theorem KeepFeat.info (b : Buf) (l : List Info) (h : SameFeat b.info l) : KeepFeat b { b with info := l } :=
  ⟨rfl, h, SameFeat.refl _⟩

theorem KeepFeat.scratch_info (b : Buf) (s : Nat) (l : List Info) (h : SameFeat b.info l) :
    KeepFeat b { b with scratch := s, info := l } := ⟨rfl, h, SameFeat.refl _⟩

theorem KeepFeat.setOutArr (b : Buf) (o : List Info) (h : SameFeat b.outArr o) : KeepFeat b (b.setOutArr o) := by
  unfold Buf.setOutArr outArr at *
  cases hs : b.sepOut
  · simp only [hs, Bool.false_eq_true, if_false] at h ⊢
    exact ⟨by simp [hs], h, SameFeat.refl _⟩
  · simp only [hs, if_true] at h ⊢
    exact ⟨by simp [hs], SameFeat.refl _, h⟩

theorem KeepFeat.outArr {b b' : Buf} (h : KeepFeat b b') : SameFeat b.outArr b'.outArr := by
  obtain ⟨h1, h2, h3⟩ := h
  have hs : b'.sepOut = b.sepOut := by rw [h1]
  unfold Buf.outArr
  rw [hs]
  cases b.sepOut
  · exact h2
  · exact h3

/-- the logical glyph sequence `out[0..out_len) ++ info[idx..len)` keeps ids and feature bits -/
theorem KeepFeat.lview {b b' : Buf} (h : KeepFeat b b') : SameFeat (lview b) (lview b') := by
  have ho := h.outArr
  obtain ⟨h1, h2, h3⟩ := h
  have e1 : b'.outLen = b.outLen := by rw [h1]
  have e2 : b'.idx = b.idx := by rw [h1]
  have e3 : b'.len = b.len := by rw [h1]
  unfold Buf.lview
  rw [e1, e2, e3]
  exact (ho.take_drop _).1.append ((h2.take_drop _).2.take_drop _).1

theorem KeepFeat.skipGlyph {b b' : Buf} (h : KeepFeat b b') : KeepFeat b.skipGlyph b'.skipGlyph := by
  obtain ⟨h1, h2, h3⟩ := h
  refine ⟨?_, h2, h3⟩
  unfold Buf.skipGlyph
  rw [h1]

theorem setGlyphFlags_keepFeat (b : Buf) (mask start : Nat) (stop : Option Nat) (interior fromOut : Bool) (b' : Buf)
    (hk : mask &&& (U32MAX - Flag.DEFINED) = 0)
    (h : b.setGlyphFlags mask start stop interior fromOut = .ok b') : KeepFeat b b' := by
  unfold setGlyphFlags at h
  simp only at h
  split at h
  · cases h; exact KeepFeat.refl b
  · split at h
    · split at h
      · cases ho : orMaskRange b.info mask start (min (stop.getD b.len) b.len - start) with
        | error e => simp [ho, bind, Except.bind] at h
        | ok info =>
          simp only [ho, ok_bind] at h
          cases h
          exact KeepFeat.scratch_info b _ info (orMaskRange_sameFeat _ hk _ _ _ _ ho)
      · cases hc : findMinCluster b.level b.info start (min (stop.getD b.len) b.len) U32MAX with
        | error e => simp [hc, bind, Except.bind] at h
        | ok cluster =>
          simp only [hc, ok_bind] at h
          cases hi : infosSetGlyphFlags b.level b.info start (min (stop.getD b.len) b.len) cluster mask with
          | error e => simp [hi, bind, Except.bind] at h
          | ok r =>
            obtain ⟨info, ch⟩ := r
            simp only [hi, ok_bind] at h
            cases h
            exact (KeepFeat.scratch_info b _ info (infosSetGlyphFlags_sameFeat _ _ _ _ _ _ hk _ hi)).trans
              (KeepFeat.addScratch _ _)
    · split at h
      · cases h
      · split at h
        · cases h
        · split at h
          · generalize hb1 : ({ b with scratch := b.scratch ||| SCRATCH_HAS_GLYPH_FLAGS } : Buf) = b1 at h
            have hf1 : KeepFeat b b1 := by rw [← hb1]; exact KeepFeat.scratch b _
            obtain ⟨o, ho, h⟩ := bind_eq_ok h
            have hf2 : KeepFeat b1 (b1.setOutArr o) := KeepFeat.setOutArr b1 o (orMaskRange_sameFeat _ hk _ _ _ _ ho)
            obtain ⟨info, hi, h⟩ := bind_eq_ok h
            cases h
            exact (hf1.trans hf2).trans (KeepFeat.info _ info (orMaskRange_sameFeat _ hk _ _ _ _ hi))
          · generalize hb1 : ({ b with scratch := b.scratch ||| SCRATCH_HAS_GLYPH_FLAGS } : Buf) = b1 at h
            have hf1 : KeepFeat b b1 := by rw [← hb1]; exact KeepFeat.scratch b _
            obtain ⟨c1, _, h⟩ := bind_eq_ok h
            obtain ⟨c2, _, h⟩ := bind_eq_ok h
            obtain ⟨r, ho, h⟩ := bind_eq_ok h
            have hf2 : KeepFeat b1 ((b1.setOutArr r.1).addScratch r.2) :=
              (KeepFeat.setOutArr b1 r.1 (infosSetGlyphFlags_sameFeat _ _ _ _ _ _ hk _ ho)).trans (KeepFeat.addScratch _ _)
            obtain ⟨r2, hi, h⟩ := bind_eq_ok h
            cases h
            exact ((hf1.trans hf2).trans (KeepFeat.info _ r2.1 (infosSetGlyphFlags_sameFeat _ _ _ _ _ _ hk _ hi))).trans
              (KeepFeat.addScratch _ _)

theorem flagmask_break : (Flag.UNSAFE_TO_BREAK ||| Flag.UNSAFE_TO_CONCAT) &&& (U32MAX - Flag.DEFINED) = 0 := by decide
theorem flagmask_concat : Flag.UNSAFE_TO_CONCAT &&& (U32MAX - Flag.DEFINED) = 0 := by decide
theorem flagmask_tatweel : Flag.SAFE_TO_INSERT_TATWEEL &&& (U32MAX - Flag.DEFINED) = 0 := by decide

theorem unsafeToBreak_keepFeat {b b' : Buf} {s : Nat} {e : Option Nat} (h : b.unsafeToBreak s e = .ok b') : KeepFeat b b' :=
  setGlyphFlags_keepFeat _ _ _ _ _ _ _ flagmask_break h

theorem unsafeToBreakFromOut_keepFeat {b b' : Buf} {s : Nat} {e : Option Nat} (h : b.unsafeToBreakFromOut s e = .ok b') :
    KeepFeat b b' := setGlyphFlags_keepFeat _ _ _ _ _ _ _ flagmask_break h

theorem unsafeToConcat_keepFeat {b b' : Buf} {s : Nat} {e : Option Nat} (h : b.unsafeToConcat s e = .ok b') : KeepFeat b b' := by
  unfold unsafeToConcat at h
  split at h
  · cases h; exact KeepFeat.refl b
  · exact setGlyphFlags_keepFeat _ _ _ _ _ _ _ flagmask_concat h

theorem unsafeToConcatFromOut_keepFeat {b b' : Buf} {s : Nat} {e : Option Nat} (h : b.unsafeToConcatFromOut s e = .ok b') :
    KeepFeat b b' := by
  unfold unsafeToConcatFromOut at h
  split at h
  · cases h; exact KeepFeat.refl b
  · exact setGlyphFlags_keepFeat _ _ _ _ _ _ _ flagmask_concat h

theorem safeToInsertTatweel_keepFeat {b b' : Buf} {s : Nat} {e : Option Nat} (h : b.safeToInsertTatweel s e = .ok b') :
    KeepFeat b b' := by
  unfold safeToInsertTatweel at h
  split at h
  · exact unsafeToBreak_keepFeat h
  · exact setGlyphFlags_keepFeat _ _ _ _ _ _ _ flagmask_tatweel h

/-! ### merges -/

theorem mergeClustersImpl_keepFeat {b b' : Buf} {s e : Nat} (h : b.mergeClustersImpl s e = .ok b') : KeepFeat b b' := by
  rw [mergeClustersImpl_nf] at h
  split at h
  · exact unsafeToBreak_keepFeat h
  · obtain ⟨a, _, h⟩ := bind_eq_ok h
    obtain ⟨cluster, _, h⟩ := bind_eq_ok h
    obtain ⟨z, _, h⟩ := bind_eq_ok h
    obtain ⟨stop', _, h⟩ := bind_eq_ok h
    obtain ⟨a2, _, h⟩ := bind_eq_ok h
    obtain ⟨start', _, h⟩ := bind_eq_ok h
    obtain ⟨s0, _, h⟩ := bind_eq_ok h
    obtain ⟨b2, h1, h⟩ := bind_eq_ok h
    obtain ⟨info, hi, h⟩ := bind_eq_ok h
    cases h
    have hb2 : KeepFeat b b2 := by
      split at h1
      · obtain ⟨o, ho, h1⟩ := bind_eq_ok h1
        cases h1
        exact KeepFeat.setOutArr b o (relabelOutBack_sameFeat _ _ _ _ _ _ ho)
      · cases h1; exact KeepFeat.refl b
    exact hb2.trans (KeepFeat.info b2 info (setClusterRange_sameFeat _ _ _ _ _ hi))

theorem mergeClusters_keepFeat {b b' : Buf} {s e : Nat} (h : b.mergeClusters s e = .ok b') : KeepFeat b b' := by
  unfold mergeClusters at h
  split at h
  · cases h; exact KeepFeat.refl b
  · exact mergeClustersImpl_keepFeat h

theorem mergeOutClusters_keepFeat {b b' : Buf} {s e : Nat} (h : b.mergeOutClusters s e = .ok b') : KeepFeat b b' := by
  rw [mergeOutClusters_nf] at h
  split at h
  · cases h; exact KeepFeat.refl b
  · split at h
    · cases h; exact KeepFeat.refl b
    · obtain ⟨a, _, h⟩ := bind_eq_ok h
      obtain ⟨cluster, _, h⟩ := bind_eq_ok h
      obtain ⟨start', _, h⟩ := bind_eq_ok h
      obtain ⟨stop', _, h⟩ := bind_eq_ok h
      obtain ⟨b2, h1, h⟩ := bind_eq_ok h
      obtain ⟨o, ho, h⟩ := bind_eq_ok h
      cases h
      have hb2 : KeepFeat b b2 := by
        split at h1
        · obtain ⟨z, _, h1⟩ := bind_eq_ok h1
          obtain ⟨info, hi, h1⟩ := bind_eq_ok h1
          cases h1
          exact KeepFeat.info b info (relabelInFwd_sameFeat _ _ _ _ _ _ _ hi)
        · cases h1; exact KeepFeat.refl b
      exact hb2.trans (KeepFeat.setOutArr b2 o (setClusterRange_sameFeat _ _ _ _ _ ho))

/-! ### deletion -/

/-- `delete_glyph`: the buffer before `skip_glyph` differs in clusters and glyph flags only -/
theorem deleteGlyph_keepFeat {b b' : Buf} (h : b.deleteGlyph = .ok b') : ∃ b1, KeepFeat b b1 ∧ b' = b1.skipGlyph := by
  rw [deleteGlyph_nf] at h
  obtain ⟨cur, _, h⟩ := bind_eq_ok h
  obtain ⟨nextSame, _, h⟩ := bind_eq_ok h
  obtain ⟨prevSame, _, h⟩ := bind_eq_ok h
  split at h
  · cases h; exact ⟨b, KeepFeat.refl b, rfl⟩
  · split at h
    · obtain ⟨p, _, h⟩ := bind_eq_ok h
      obtain ⟨b2, h1, h⟩ := bind_eq_ok h
      cases h
      refine ⟨b2, ?_, rfl⟩
      split at h1
      · obtain ⟨o, ho, h1⟩ := bind_eq_ok h1
        cases h1
        exact KeepFeat.setOutArr b o (relabelOutBack_sameFeat _ _ _ _ _ _ ho)
      · cases h1; exact KeepFeat.refl b
    · obtain ⟨b2, h1, h⟩ := bind_eq_ok h
      cases h
      refine ⟨b2, ?_, rfl⟩
      split at h1
      · exact mergeClusters_keepFeat h1
      · cases h1; exact KeepFeat.refl b

/-! ### form_clusters -/

theorem formLoop_keepFeat (merge : Bool) (count : Nat) : ∀ (fuel : Nat) (b b' : Buf) (s e : Nat),
    formLoop merge count b s e fuel = .ok b' → KeepFeat b b' := by
  intro fuel
  induction fuel with
  | zero => intro b b' s e h; cases h; exact KeepFeat.refl b
  | succ fuel ih =>
    intro b b' s e h
    simp only [formLoop] at h
    split at h
    · split at h
      · obtain ⟨b1, h1, h⟩ := bind_eq_ok h
        obtain ⟨e', _, h⟩ := bind_eq_ok h
        exact (mergeClusters_keepFeat h1).trans (ih _ _ _ _ h)
      · obtain ⟨b1, h1, h⟩ := bind_eq_ok h
        obtain ⟨e', _, h⟩ := bind_eq_ok h
        exact (unsafeToBreak_keepFeat h1).trans (ih _ _ _ _ h)
    · cases h; exact KeepFeat.refl b

theorem formClusters_keepFeat {b b' : Buf} (h : b.formClusters = .ok b') : KeepFeat b b' := by
  unfold formClusters at h
  split at h
  · cases h; exact KeepFeat.refl b
  · simp only at h
    split at h
    · obtain ⟨e, _, h⟩ := bind_eq_ok h
      exact formLoop_keepFeat _ _ _ _ _ _ _ h
    · exact formLoop_keepFeat _ _ _ _ _ _ _ h

/-! ### delete_glyphs_inplace -/

/-- survives `delete_glyphs_inplace` (the filter of the model marks a glyph by `var2 = 1`), read off the key -/
def keepK (k : Nat × Nat × Nat × Nat) : Bool := !(k.2.2.2 == 1)

theorem take_succ_of_get {α : Type} {l : List α} {i : Nat} {a : α} (h : l[i]? = some a) : l.take (i + 1) = l.take i ++ [a] := by
  rw [List.take_add_one, h]; rfl

theorem drop_succ_of_drop {α : Type} {l l' : List α} {i : Nat} (h : l.drop i = l'.drop i) : l.drop (i + 1) = l'.drop (i + 1) := by
  have := congrArg (List.drop 1) h
  simpa [List.drop_drop, Nat.add_comm] using this

theorem get_of_drop {α : Type} {l l' : List α} {i : Nat} (h : l.drop i = l'.drop i) : l[i]? = l'[i]? := by
  have := congrArg (fun t => t[0]?) h
  simpa using this

theorem delin_loop_feat (K0 : List (Nat × Nat × Nat × Nat)) (n : Nat) : ∀ (fuel : Nat) (b : Buf) (i j : Nat) (r : Buf × Nat),
    b.len = n → i + fuel = n → j ≤ i →
    (b.info.map featKey).take j = (K0.take i).filter keepK →
    (b.info.map featKey).drop i = K0.drop i →
    deleteGlyphsInplace.loop b i j fuel = .ok r →
    r.1.len = n ∧ (r.1.info.map featKey).take r.2 = (K0.take n).filter keepK := by
  intro fuel
  induction fuel with
  | zero =>
    intro b i j r hn hi _ ht _ h
    simp only [deleteGlyphsInplace.loop] at h
    cases h
    have : i = n := by omega
    subst this
    exact ⟨hn, ht⟩
  | succ fuel ih =>
    intro b i j r hn hi hji ht hd h
    rw [delin_loop_nf] at h
    have hlt : i < b.len := by omega
    simp only [hlt, if_true] at h
    obtain ⟨x, hx, h⟩ := bind_eq_ok h
    have hxi : b.info[i]? = some x := get_eq_ok hx
    have hA : (b.info.map featKey)[i]? = some (featKey x) := by rw [List.getElem?_map, hxi]; rfl
    have hK : K0[i]? = some (featKey x) := by rw [← get_of_drop hd]; exact hA
    split at h
    · -- the glyph is deleted: whatever merge happens keeps ids and feature bits of every record
      rename_i hdel
      have hkeep : keepK (featKey x) = false := by
        unfold keepK featKey; simp only; rw [hdel]; rfl
      have hstep : ∀ b2 : Buf, KeepFeat b b2 → deleteGlyphsInplace.loop b2 (i + 1) j fuel = .ok r →
          r.1.len = n ∧ (r.1.info.map featKey).take r.2 = (K0.take n).filter keepK := by
        intro b2 hk h2
        have hsf : b2.info.map featKey = b.info.map featKey := hk.2.1
        have hl : b2.len = b.len := by rw [hk.1]
        refine ih b2 (i + 1) j r (by rw [hl, hn]) (by omega) (by omega) ?_ ?_ h2
        · rw [hsf, ht, take_succ_of_get hK, List.filter_append]
          simp [List.filter, hkeep]
        · rw [hsf]; exact drop_succ_of_drop hd
      obtain ⟨nextSame, _, h⟩ := bind_eq_ok h
      split at h
      · exact hstep b (KeepFeat.refl b) h
      · split at h
        · obtain ⟨p, _, h⟩ := bind_eq_ok h
          obtain ⟨b2, h1, h⟩ := bind_eq_ok h
          refine hstep b2 ?_ h
          split at h1
          · obtain ⟨info, hi1, h1⟩ := bind_eq_ok h1
            cases h1
            exact KeepFeat.info b info (relabelOutBack_sameFeat _ _ _ _ _ _ hi1)
          · cases h1; exact KeepFeat.refl b
        · obtain ⟨b2, h1, h⟩ := bind_eq_ok h
          refine hstep b2 ?_ h
          split at h1
          · exact mergeClusters_keepFeat h1
          · cases h1; exact KeepFeat.refl b
    · -- the glyph is kept: it moves down to position j
      rename_i hdel
      have hkeep : keepK (featKey x) = true := by
        unfold keepK featKey; simp only
        cases hv : (x.var2 == 1)
        · rfl
        · exact absurd hv hdel
      obtain ⟨b2, h1, h⟩ := bind_eq_ok h
      have hfil : (K0.take (i + 1)).filter keepK = (K0.take i).filter keepK ++ [featKey x] := by
        rw [take_succ_of_get hK, List.filter_append]
        simp [List.filter, hkeep]
      split at h1
      · rename_i hne
        have hji' : j < i := by
          have : j ≠ i := by simpa using hne
          omega
        obtain ⟨info, hp, h1⟩ := bind_eq_ok h1
        obtain ⟨p, _, h1⟩ := bind_eq_ok h1
        obtain ⟨out, _, h1⟩ := bind_eq_ok h1
        cases h1
        obtain ⟨hjl, hinfo⟩ := put_eq_ok hp
        subst hinfo
        have hjl' : j < (b.info.map featKey).length := by simpa using hjl
        refine ih (withIO b (b.info.set j x) out) (i + 1) (j + 1) r hn (by omega) (by omega) ?_ ?_ h
        · show ((b.info.set j x).map featKey).take (j + 1) = _
          rw [List.map_set, hfil, ← ht]
          rw [take_succ_of_get (List.getElem?_set_self hjl')]
          congr 1
          exact List.take_set_of_le (Nat.le_refl j)
        · show ((b.info.set j x).map featKey).drop (i + 1) = _
          rw [List.map_set, List.drop_set_of_lt (by omega)]
          exact drop_succ_of_drop hd
      · rename_i hne
        have hji' : j = i := by simpa using hne
        subst hji'
        cases h1
        refine ih b (j + 1) (j + 1) r hn (by omega) (by omega) ?_ (drop_succ_of_drop hd) h
        rw [take_succ_of_get hA, hfil, ← ht]

/-- **delete_glyphs_inplace**: the glyphs that are not marked survive in order, each with its glyph id, feature bits,
    var1 and var2 (clusters and glyph flags may have been merged into them) -/
theorem deleteGlyphsInplace_feat {b b' : Buf} (h : b.deleteGlyphsInplace = .ok b') :
    (b'.info.take b'.len).map featKey = ((b.info.take b.len).filter (fun x => !(x.var2 == 1))).map featKey := by
  unfold deleteGlyphsInplace at h
  obtain ⟨r, hr, h⟩ := bind_eq_ok h
  cases h
  obtain ⟨_, h2⟩ := delin_loop_feat (b.info.map featKey) b.len b.len b 0 0 r rfl (by omega) (Nat.le_refl 0)
    (by simp) (by simp) hr
  show (r.1.info.take r.2).map featKey = _
  rw [List.map_take, h2, ← List.map_take, List.filter_map]
  rfl

end RbModel.Buf
