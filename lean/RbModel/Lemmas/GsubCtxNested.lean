/-
  Contextual GSUB lookups, step 2a: one nested lookup of a contextual rule.  The nested lookups of the Spec's domain are
  single-position and non-shrinking: all their subtables are single / alternate / multiple substitutions ("simple") and no
  sequence is empty.  `recurse` (budget `max_ops`, swap of the lookup props, `SubstLookup::apply` with the nesting budget) then
  acts on the current glyph exactly as `Spec.Subst.applyNested` does on the projected string.
  The first part re-proves the per-sequence lemma of GsubMultiStep.lean with one more conclusion: the glyphs put out carry the
  `var2` (unicode props) of the glyph they replace — needed because `match_backtrack` later reads them.
-/
import RbModel.Lemmas.GsubCtxFrame
import RbModel.Lemmas.GsubCtxSpec
import RbModel.Lemmas.GsubMultiMixed

namespace RbModel.Gsub
open RbModel RbModel.Buf RbModel.Mem RbModel.Spec.Subst

theorem multiLoopV_spec (cls lid : Nat) (hg : Gen.Buf.ensureGrowOnly = true) :
    ∀ (ss : List Nat) (c : Ctx) (i : Nat) (x : Info) (R : List Info),
      Inv c.buf → inP c.buf = x :: R → c.buf.outLen + ss.length ≤ c.buf.maxLen →
      ∃ b' x' outs, applySubtable.loop cls lid c i ss = .ok { c with buf := b' } ∧ Inv b' ∧
        outP b' = outP c.buf ++ outs ∧ inP b' = x' :: R ∧ projG x' = projG x ∧ x'.var2 = x.var2 ∧
        outs.map projG = ss.map (fun s => { projG x with gid := s }) ∧ (∀ o ∈ outs, o.var2 = x.var2) ∧
        b'.successful = c.buf.successful ∧ b'.maxLen = c.buf.maxLen := by
  intro ss
  induction ss with
  | nil =>
    intro c i x R hinv hin _
    exact ⟨c.buf, x, [], rfl, hinv, by simp, hin, rfl, rfl, rfl, by simp, rfl, rfl⟩
  | cons s rest ih =>
    intro c i x R hinv hin hb
    simp only [List.length_cons] at hb
    obtain ⟨hcur, hx⟩ := inP_head c.buf hinv x R hin
    have hlt : c.buf.idx < c.buf.info.length := by have := hinv.len_le; omega
    have hget : Mem.get c.buf.info c.buf.idx = .ok x := by unfold Mem.get; rw [hx]; rfl
    have tail : ∀ (c1 : Ctx) (x1 : Info), Inv c1.buf → inP c1.buf = x1 :: R → outP c1.buf = outP c.buf →
        projG x1 = projG x → x1.var2 = x.var2 → c1.buf.outLen = c.buf.outLen → c1.buf.maxLen = c.buf.maxLen →
        c1.buf.successful = c.buf.successful →
        ∃ b' x' outs, (do
            let v ← setGlyphClass c1 s cls false true
            let b ← v.buf.outputGlyph s
            applySubtable.loop cls lid { v with buf := b } (i + 1) rest) = .ok { c1 with buf := b' } ∧ Inv b' ∧
          outP b' = outP c.buf ++ outs ∧ inP b' = x' :: R ∧ projG x' = projG x ∧ x'.var2 = x.var2 ∧
          outs.map projG = (s :: rest).map (fun s => { projG x with gid := s }) ∧ (∀ o ∈ outs, o.var2 = x.var2) ∧
          b'.successful = c.buf.successful ∧ b'.maxLen = c.buf.maxLen := by
      intro c1 x1 hinv1 hi1 ho1 hx1 hv1 hol1 hml1 hsu1
      obtain ⟨b3, np, hrun, hinv3, ho3, hi3, hsu3, hml3, hol3⟩ :=
        outputForComponent_spec hg c1 s cls x1 R hinv1 hi1 (by rw [hol1, hml1]; omega)
      obtain ⟨b', x', outs, hrun4, hinv4, ho4, hi4, hx4, hv4, hm4, hov4, hsu4, hml4⟩ :=
        ih { c1 with buf := b3 } (i + 1) (setGlyphProps x1 np) R hinv3 hi3 (by
          show b3.outLen + rest.length ≤ b3.maxLen
          rw [hol3, hml3, hol1, hml1]; omega)
      refine ⟨b', x', { setGlyphProps x1 np with gid := s } :: outs, ?_, hinv4, ?_, hi4, ?_, ?_, ?_, ?_, ?_, ?_⟩
      · rw [hrun (fun c => applySubtable.loop cls lid c (i + 1) rest)]
        exact hrun4
      · rw [ho4]
        show outP b3 ++ outs = _
        rw [ho3, ho1]; simp
      · rw [hx4]; exact hx1
      · rw [hv4]; exact hv1
      · simp only [List.map_cons]
        rw [hm4]
        congr 1
        · exact projG_gid x (setGlyphProps x1 np) s hx1
        · apply List.map_congr_left
          intro a _
          have : projG (setGlyphProps x1 np) = projG x := hx1
          rw [this]
      · intro o ho
        rcases List.mem_cons.1 ho with h | h
        · rw [h]; exact hv1
        · rw [hov4 o h]; exact hv1
      · rw [hsu4]; show b3.successful = _; rw [hsu3, hsu1]
      · rw [hml4]; show b3.maxLen = _; rw [hml3, hml1]
    by_cases hl : (lid == 0) = true
    · obtain ⟨hinv1, ho1, hi1, hx1, hsu1, hml1, hol1⟩ :=
        putCur_ctx c.buf hinv x (setLigPropsForMark x 0 (i % 256)) R hin rfl
      obtain ⟨b', x', outs, hrun, rest'⟩ :=
        tail { c with buf := { c.buf with info := c.buf.info.set c.buf.idx (setLigPropsForMark x 0 (i % 256)) } } _
          hinv1 hi1 ho1 hx1 rfl hol1 hml1 hsu1
      refine ⟨b', x', outs, ?_, rest'⟩
      simp only [applySubtable.loop, bind, Except.bind, hl, if_true, hget, put_ok _ hlt, pure, Except.pure]
      exact hrun
    · obtain ⟨b', x', outs, hrun, rest'⟩ := tail c x hinv hin rfl rfl rfl rfl rfl rfl
      refine ⟨b', x', outs, ?_, rest'⟩
      simp only [applySubtable.loop, bind, Except.bind, hl, Bool.false_eq_true, if_false, pure, Except.pure]
      exact hrun

/-- `applySeq_spec` with the unicode props of the glyphs put out -/
theorem applySeqV_spec (hg : Gen.Buf.ensureGrowOnly = true) (c : Ctx) (ss : List Nat) (hne : ss ≠ []) (x : Info)
    (R : List Info) (hinv : Inv c.buf) (hin : inP c.buf = x :: R) (hb : c.buf.outLen + ss.length ≤ c.buf.maxLen) :
    ∃ b' outs, applySeq c x ss = .ok { c with buf := b' } ∧ Inv b' ∧ outP b' = outP c.buf ++ outs ∧ inP b' = R ∧
      outs.map projG = ss.map (fun s => { projG x with gid := s }) ∧ (∀ o ∈ outs, o.var2 = x.var2) ∧
      b'.successful = c.buf.successful ∧ b'.maxLen = c.buf.maxLen := by
  match ss, hne with
  | [s], _ =>
    obtain ⟨hcur, hx⟩ := inP_head c.buf hinv x R hin
    obtain ⟨np, hrun2⟩ := setGlyphClass_put c s 0 false false x hx
    obtain ⟨hinv2, ho2, hi2, _, _, _, _⟩ := putCur_ctx c.buf hinv x (setGlyphProps x np) R hin rfl
    obtain ⟨b3, hrun3, hinv3, ho3, hi3, hsu3, hml3⟩ :=
      replaceGlyph_parts _ s hinv2 hg (setGlyphProps x np) R hi2 (by simpa using hb)
    refine ⟨b3, [{ setGlyphProps x np with gid := s }], ?_, hinv3, by rw [ho3, ho2], hi3, ?_, ?_, hsu3, hml3⟩
    · simp only [applySeq, ctxReplaceGlyph, bind, Except.bind, hrun2, hrun3, pure, Except.pure]
    · simp only [List.map_cons, List.map_nil]
      rw [projG_gid x (setGlyphProps x np) s rfl]
    · intro o ho
      simp only [List.mem_singleton] at ho
      rw [ho]; rfl
  | s1 :: s2 :: rest, _ =>
    obtain ⟨b1, x', outs, hrun, hinv1, ho1, hi1, hx1, _, hm1, hov1, hsu1, hml1⟩ :=
      multiLoopV_spec (if isLigature x then GP.BASE_GLYPH else 0) (ligId x) hg (s1 :: s2 :: rest) c 0 x R hinv hin hb
    obtain ⟨hinv2, ho2, hi2⟩ := skipGlyph_parts b1 hinv1 x' R hi1
    refine ⟨b1.skipGlyph, outs, ?_, hinv2, by rw [ho2, ho1], hi2, hm1, hov1, hsu1, hml1⟩
    simp only [applySeq, bind, Except.bind, hrun, pure, Except.pure]

/-! ### what a nested lookup may be -/

/-- the substitute sequences a simple subtable can produce from its tables (format-1 single substitution computes its glyph) -/
def Subtable.seqsOf : Subtable → List (List Nat)
  | .single2 _ s => s.map fun x => [x]
  | .multiple _ seqs => seqs
  | .alternate _ alts => alts.flatMap fun set => set.map fun x => [x]
  | _ => []

/-- a substitute sequence of the Spec's domain: not empty (non-shrinking), at most `G` glyphs more than it replaces, glyph
    ids fit `u16` (what `GlyphId` is in the crate) -/
def SeqOk (G : Nat) (ss : List Nat) : Prop := ss ≠ [] ∧ ss.length ≤ G + 1 ∧ ∀ s ∈ ss, s < 65536

instance (G : Nat) (ss : List Nat) : Decidable (SeqOk G ss) := by unfold SeqOk; exact inferInstance

/-- subtables fit for a lookup nested in a contextual rule: single / alternate / multiple substitutions only, alternate sets
    indexable by a 16-bit feature value, every sequence `SeqOk` -/
def NestedSts (G : Nat) (sts : List Subtable) : Prop :=
  sts.all Subtable.isSimple = true ∧ (∀ st ∈ sts, ∀ cov alts, st = .alternate cov alts → ∀ set ∈ alts, set.length ≤ 65535) ∧
    ∀ st ∈ sts, ∀ ss ∈ st.seqsOf, SeqOk G ss

theorem NestedSts.tail {G : Nat} {st : Subtable} {rest : List Subtable} (h : NestedSts G (st :: rest)) : NestedSts G rest := by
  obtain ⟨h1, h2, h3⟩ := h
  simp only [List.all_cons, Bool.and_eq_true] at h1
  exact ⟨h1.2, fun st' hm => h2 st' (List.mem_cons_of_mem _ hm), fun st' hm => h3 st' (List.mem_cons_of_mem _ hm)⟩

theorem seqOk_single (G s : Nat) (hs : s < 65536) : SeqOk G [s] :=
  ⟨by simp, by simp, by intro x hx; simp only [List.mem_singleton] at hx; rw [hx]; exact hs⟩

theorem simpleSeqGM_ok (lm G : Nat) (sts : List Subtable) (h : NestedSts G sts) (gid mask : Nat) (ss : List Nat)
    (hs : simpleSeqGM lm sts gid mask = some ss) : SeqOk G ss := by
  induction sts with
  | nil => simp [simpleSeqGM] at hs
  | cons st rest ih =>
    have hrest := h.tail
    have hst := h.2.2 st List.mem_cons_self
    cases st with
    | multiple cov seqs =>
      simp only [simpleSeqGM] at hs
      cases hc : cov.index (gid % 65536) with
      | none => rw [hc] at hs; exact ih hrest hs
      | some k =>
        rw [hc] at hs
        simp only at hs
        cases hk : seqs[k]? with
        | none => rw [hk] at hs; exact ih hrest hs
        | some ss' =>
          rw [hk] at hs
          simp only [Option.some.injEq] at hs
          subst hs
          exact hst ss' (List.mem_of_getElem? hk)
    | single1 cov d =>
      simp only [simpleSeqGM] at hs
      cases hc : cov.index (gid % 65536) with
      | none => rw [hc] at hs; exact ih hrest hs
      | some k =>
        rw [hc] at hs; simp only [Option.some.injEq] at hs; subst hs
        exact seqOk_single G _ (by omega)
    | single2 cov s =>
      simp only [simpleSeqGM] at hs
      cases hc : cov.index (gid % 65536) with
      | none => rw [hc] at hs; exact ih hrest hs
      | some k =>
        rw [hc] at hs
        simp only at hs
        cases hk : s[k]? with
        | none => rw [hk] at hs; exact ih hrest hs
        | some x =>
          rw [hk] at hs; simp only [Option.some.injEq] at hs; subst hs
          exact hst [x] (by simp only [Subtable.seqsOf, List.mem_map]; exact ⟨x, List.mem_of_getElem? hk, rfl⟩)
    | alternate cov alts =>
      simp only [simpleSeqGM] at hs
      cases hc : cov.index (gid % 65536) with
      | none => rw [hc] at hs; exact ih hrest hs
      | some k =>
        rw [hc] at hs
        simp only at hs
        cases hk : alts[k]? with
        | none => rw [hk] at hs; exact ih hrest hs
        | some set =>
          rw [hk] at hs
          simp only at hs
          split at hs
          · exact ih hrest hs
          · split at hs
            · exact ih hrest hs
            · split at hs
              · exact ih hrest hs
              · rename_i x hx
                simp only [Option.some.injEq] at hs; subst hs
                exact hst [x] (by
                  simp only [Subtable.seqsOf, List.mem_flatMap, List.mem_map]
                  exact ⟨set, List.mem_of_getElem? hk, x, List.mem_of_getElem? hx, rfl⟩)
    | _ => simp only [simpleSeqGM] at hs; exact ih hrest hs

/-- the choice of a simple lookup depends on the mask only through the bits of the lookup mask -/
theorem simpleSeqGM_congr (lm : Nat) (sts : List Subtable) (gid m m' : Nat) (h : lm &&& m = lm &&& m') :
    simpleSeqGM lm sts gid m = simpleSeqGM lm sts gid m' := by
  have ha : altOfM lm m = altOfM lm m' := by unfold altOfM; rw [h]
  induction sts with
  | nil => rfl
  | cons st rest ih =>
    cases st <;> simp only [simpleSeqGM, ih, ha]

/-! ### `recurse` on a nested simple lookup -/

/-- **one nested lookup at the current glyph** (`hb_ot_apply_context_t::recurse`, nesting budget `m + 1 > 0`): one unit of
    `max_ops` is spent; the lookup declines (nothing else changes) or the current glyph is replaced by copies of itself
    carrying the substitute glyph ids, which land on the out side. -/
theorem recurse_simple (hg : Gen.Buf.ensureGrowOnly = true) (m : Nat) (c : Ctx) (idx : Nat) (x : Info) (R : List Info) (G : Nat)
    (hinv : Inv c.buf) (hin : inP c.buf = x :: R) (hrnd : c.random = false)
    (hops : 1 ≤ c.buf.maxOps) (hb : c.buf.outLen + G + 1 ≤ c.buf.maxLen)
    (hok : ∀ l, c.font.lookups[idx]? = some l → NestedSts G l.subtables) :
    match (c.font.lookups[idx]?).bind (fun l => simpleSeq? c.lookupMask l.subtables x) with
    | none => recurseAt (m + 1) c idx = .ok ({ c with buf := { c.buf with maxOps := c.buf.maxOps - 1 } }, false)
    | some ss => ∃ b' outs, recurseAt (m + 1) c idx = .ok ({ c with buf := b' }, true) ∧ Inv b' ∧
        outP b' = outP c.buf ++ outs ∧ inP b' = R ∧ outs.map projG = ss.map (fun s => { projG x with gid := s }) ∧
        (∀ o ∈ outs, o.var2 = x.var2) ∧ b'.successful = c.buf.successful ∧ b'.maxLen = c.buf.maxLen ∧
        b'.maxOps = c.buf.maxOps - 1 ∧ b'.flags = c.buf.flags ∧ SeqOk G ss := by
  obtain ⟨hcur, hx⟩ := inP_head c.buf hinv x R hin
  have hnlt : ¬ (c.buf.maxOps - 1 < 0) := by omega
  cases hl : c.font.lookups[idx]? with
  | none =>
    simp only [Option.bind]
    simp only [recurseAt, hnlt, if_false, hl]
    rfl
  | some l =>
    obtain ⟨hall, halt, hseq⟩ := hok l hl
    simp only [Option.bind]
    generalize hc2 : ({ c with buf := { c.buf with maxOps := c.buf.maxOps - 1 }, lookupProps := l.props } : Ctx) = c2
    have hc2b : c2.buf = { c.buf with maxOps := c.buf.maxOps - 1 } := by rw [← hc2]
    have hc2m : c2.lookupMask = c.lookupMask := by rw [← hc2]
    have hinv2 : Inv c2.buf := by rw [hc2b]; exact ⟨hinv.1, hinv.2, hinv.3, hinv.4, hinv.5, hinv.6⟩
    have hin2 : inP c2.buf = x :: R := by rw [hc2b]; exact hin
    have hout2 : outP c2.buf = outP c.buf := by rw [hc2b]; rfl
    have hx2 : c2.buf.info[c2.buf.idx]? = some x := by rw [hc2b]; exact hx
    have hmodel := applySubtables_simple (recurseAt m) false c2 l.subtables hall x (by rw [← hc2]; exact hrnd) hx2
    rw [hc2m] at hmodel
    have hunf : recurseAt (m + 1) c idx = (do
        let (c', ok) ← applySubtables (recurseAt m) false c2 l.subtables
        pure ({ c' with lookupProps := c.lookupProps }, ok)) := by
      simp only [recurseAt, hnlt, if_false, hl]
      rw [← hc2]
    cases hss : simpleSeq? c.lookupMask l.subtables x with
    | none =>
      rw [hss] at hmodel
      simp only []
      rw [hunf, hmodel, ← hc2]
      rfl
    | some ss =>
      rw [hss] at hmodel
      simp only [] at hmodel ⊢
      have hsok := simpleSeqGM_ok c.lookupMask G l.subtables ⟨hall, halt, hseq⟩ x.gid x.mask ss hss
      obtain ⟨b', outs, hrun, hinv', ho, hi, hm, hov, hsu, hml⟩ :=
        applySeqV_spec hg c2 ss hsok.1 x R hinv2 hin2 (by
          rw [hc2b]; show c.buf.outLen + ss.length ≤ c.buf.maxLen; have := hsok.2.1; omega)
      have hfr := applySeq_fr hsok.1 hrun
      refine ⟨b', outs, ?_, hinv', by rw [ho, hout2], hi, hm, hov, by rw [hsu, hc2b], by rw [hml, hc2b], ?_, ?_, hsok⟩
      · rw [hunf, hmodel, hrun, ← hc2]
        rfl
      · have := hfr.maxOps
        simp only [] at this
        rw [this, hc2b]
      · have := hfr.flags
        simp only [] at this
        rw [this, hc2b]

end RbModel.Gsub

namespace RbModel.Spec.Subst
open RbModel RbModel.Gsub

theorem nestedGo_eq (f : Font) (lm : Nat) (gs : List G) (p : Nat) (g : G) (hg : gs[p]? = some g) :
    ∀ sts : List Subtable, sts.all Subtable.isSimple = true →
      applyNested.go gs p lm g sts =
        match firstSubtable f 0 0 lm gs p sts with
        | some (gs', nxt) => (gs', nxt - p - 1)
        | none => (gs, 0) := by
  intro sts
  induction sts with
  | nil => intro _; rfl
  | cons st rest ih =>
    intro hall
    simp only [List.all_cons, Bool.and_eq_true] at hall
    have ihr := ih hall.2
    cases st <;> simp [Subtable.isSimple] at hall <;>
    · simp only [applyNested.go, firstSubtable, applySubtableAt, hg]
      split <;> simp_all

/-- **`Spec.Subst.applyNested` for a nested simple lookup in closed form** -/
theorem applyNested_simple (f : Font) (lm : Nat) (hlm : lm < 2 ^ 32) (idx : Nat) (gs : List G) (p : Nat) (g : G)
    (hg : gs[p]? = some g) (hgid : g.gid < 65536) (G0 : Nat)
    (hok : ∀ l, f.lookups[idx]? = some l → NestedSts G0 l.subtables) :
    applyNested f idx gs p lm =
      match (f.lookups[idx]?).bind (fun l => simpleSeqG? lm l.subtables g) with
      | none => (gs, 0)
      | some ss => (replaceAt gs p (ss.map fun s => { g with gid := s }) 1, ss.length - 1) := by
  unfold applyNested
  cases hl : f.lookups[idx]? with
  | none => rfl
  | some l =>
    obtain ⟨hall, halt, _⟩ := hok l hl
    simp only [hg, Option.bind]
    rw [nestedGo_eq f lm gs p g hg l.subtables hall,
      firstSubtable_simple f 0 0 lm hlm gs p g hg hgid l.subtables hall (by
        intro st hst cov alts he set hset; exact halt st hst cov alts he set hset)]
    cases simpleSeqG? lm l.subtables g with
    | none => rfl
    | some ss =>
      simp only [Option.map_some]
      congr 1
      omega

end RbModel.Spec.Subst
