/-
  C15 — relabelling the cluster values of a buffer by a strictly increasing map commutes with the buffer
  primitives: the primitives only compare clusters (==, <, min) and copy them.
  `Buf.mapCluster f` relabels both Vecs (slack included); statements have the form
  `p (b.mapCluster f) = Buf.mapCluster f <$> p b` (same panics, same results up to the relabelling).
-/
import RbModel.Cluster
import RbModel.Lemmas.Mem
import RbModel.Lemmas.Cluster

namespace RbModel.Buf
open RbModel.Mem

/-- strictly increasing -/
def SMono (f : Nat → Nat) : Prop := ∀ a b, a < b → f a < f b

theorem SMono.lt_iff {f : Nat → Nat} (hf : SMono f) (a b : Nat) : f a < f b ↔ a < b := by
  constructor
  · intro h
    by_cases h1 : a < b
    · exact h1
    · have : b ≤ a := Nat.le_of_not_lt h1
      rcases Nat.lt_or_eq_of_le this with h2 | h2
      · have := hf _ _ h2; omega
      · subst h2; omega
  · exact hf a b

theorem SMono.eq_iff {f : Nat → Nat} (hf : SMono f) (a b : Nat) : f a = f b ↔ a = b := by
  constructor
  · intro h
    rcases Nat.lt_trichotomy a b with h1 | h1 | h1
    · have := hf _ _ h1; omega
    · exact h1
    · have := hf _ _ h1; omega
  · intro h; rw [h]

theorem SMono.le_iff {f : Nat → Nat} (hf : SMono f) (a b : Nat) : f a ≤ f b ↔ a ≤ b := by
  have h1 := hf.lt_iff b a
  constructor
  · intro h; by_cases h2 : a ≤ b
    · exact h2
    · have : b < a := by omega
      have := h1.2 this; omega
  · intro h; by_cases h2 : f a ≤ f b
    · exact h2
    · have : f b < f a := by omega
      have := h1.1 this; omega

theorem SMono.beq {f : Nat → Nat} (hf : SMono f) (a b : Nat) : (f a == f b) = (a == b) := by
  rw [Bool.eq_iff_iff]; simp only [beq_iff_eq]; exact hf.eq_iff a b

theorem SMono.bne {f : Nat → Nat} (hf : SMono f) (a b : Nat) : (f a != f b) = (a != b) := by
  show (!(f a == f b)) = !(a == b)
  rw [hf.beq]

theorem SMono.decide_lt {f : Nat → Nat} (hf : SMono f) (a b : Nat) : decide (f a < f b) = decide (a < b) := by
  rw [Bool.eq_iff_iff]; simp only [decide_eq_true_eq]; exact hf.lt_iff a b

theorem SMono.min {f : Nat → Nat} (hf : SMono f) (a b : Nat) : min (f a) (f b) = f (min a b) := by
  have := hf.le_iff a b
  by_cases h : a ≤ b
  · rw [Nat.min_eq_left h, Nat.min_eq_left (this.2 h)]
  · have h' : b ≤ a := by omega
    rw [Nat.min_eq_right h', Nat.min_eq_right ((hf.le_iff b a).2 h')]

/-! ### the monad `M` -/

theorem map_ok {α β : Type} (g : α → β) (x : α) : g <$> (Except.ok x : M α) = Except.ok (g x) := rfl
theorem map_error {α β : Type} (g : α → β) (e : Panic) : g <$> (Except.error e : M α) = Except.error e := rfl
theorem map_pure' {α β : Type} (g : α → β) (x : α) : g <$> (pure x : M α) = pure (g x) := rfl
theorem map_throw {α β : Type} (g : α → β) (e : Panic) : g <$> (throw e : M α) = throw e := rfl
theorem okBind {α β : Type} (x : α) (k : α → M β) : (Except.ok x >>= k) = k x := rfl
theorem pureBind {α β : Type} (x : α) (k : α → M β) : ((pure x : M α) >>= k) = k x := rfl
theorem errorBind {α β : Type} (e : Panic) (k : α → M β) : ((Except.error e : M α) >>= k) = Except.error e := rfl
theorem throwBind {α β : Type} (e : Panic) (k : α → M β) : ((throw e : M α) >>= k) = throw e := rfl

theorem map_ite {α β : Type} (g : α → β) (c : Prop) [Decidable c] (x y : M α) :
    g <$> (if c then x else y) = if c then g <$> x else g <$> y := by
  split <;> rfl

/-- the workhorse: a relabelled first step followed by corresponding continuations -/
theorem bind_map_congr {α α' β β' : Type} (x : M α) (g : α → α') (h : β → β') (k : α → M β) (k' : α' → M β')
    (H : ∀ a, k' (g a) = h <$> k a) : ((g <$> x) >>= k') = h <$> (x >>= k) := by
  cases x with
  | error e => rfl
  | ok a => exact H a

theorem bind_congr' {α β β' : Type} (x : M α) (h : β → β') (k : α → M β) (k' : α → M β')
    (H : ∀ a, k' a = h <$> k a) : (x >>= k') = h <$> (x >>= k) := by
  cases x with
  | error e => rfl
  | ok a => exact H a

/-! ### glyph records and Vecs -/

@[simp] theorem mc_cluster (f : Nat → Nat) (x : Info) : (mc f x).cluster = f x.cluster := rfl
@[simp] theorem mc_gid (f : Nat → Nat) (x : Info) : (mc f x).gid = x.gid := rfl
@[simp] theorem mc_mask (f : Nat → Nat) (x : Info) : (mc f x).mask = x.mask := rfl
@[simp] theorem mc_var1 (f : Nat → Nat) (x : Info) : (mc f x).var1 = x.var1 := rfl
@[simp] theorem mc_var2 (f : Nat → Nat) (x : Info) : (mc f x).var2 = x.var2 := rfl

theorem mc_with_gid (f : Nat → Nat) (x : Info) (g : Nat) : ({ mc f x with gid := g } : Info) = mc f { x with gid := g } := rfl
theorem mc_with_mask (f : Nat → Nat) (x : Info) (m : Nat) : ({ mc f x with mask := m } : Info) = mc f { x with mask := m } := rfl

theorem get_map (f : Nat → Nat) (l : List Info) (i : Nat) : get (l.map (mc f)) i = mc f <$> get l i := by
  unfold get
  rw [List.getElem?_map]
  cases l[i]? <;> rfl

theorem put_map (f : Nat → Nat) (l : List Info) (i : Nat) (x : Info) :
    put (l.map (mc f)) i (mc f x) = List.map (mc f) <$> put l i x := by
  unfold put
  simp only [List.length_map]
  split
  · simp [List.map_set, Functor.map, Except.map, pure, Except.pure]
  · rfl

theorem setCluster_mc {f : Nat → Nat} (hf : SMono f) (x : Info) (c m : Nat) :
    setCluster (mc f x) (f c) m = mc f (setCluster x c m) := by
  unfold setCluster
  simp only [mc_cluster, hf.bne, mc_mask]
  rfl

theorem set_map (f : Nat → Nat) (l : List Info) (i : Nat) (x : Info) :
    (l.map (mc f)).set i (mc f x) = (l.set i x).map (mc f) := by
  rw [List.map_set]

/-! ### Mem loops -/

theorem copyAcross_map (f : Nat → Nat) (s d : Nat) : ∀ (k j : Nat) (src dst : List Info),
    copyAcross (src.map (mc f)) (dst.map (mc f)) s d k j = List.map (mc f) <$> copyAcross src dst s d k j := by
  intro k
  induction k with
  | zero => intro j src dst; rfl
  | succ k ih =>
    intro j src dst
    simp only [copyAcross, get_map]
    refine bind_map_congr _ _ _ _ _ (fun x => ?_)
    rw [put_map]
    refine bind_map_congr _ _ _ _ _ (fun dst' => ?_)
    exact ih (j + 1) src dst'

theorem copyWithinFwd_map (f : Nat → Nat) (s d : Nat) : ∀ (k j : Nat) (l : List Info),
    copyWithinFwd (l.map (mc f)) s d k j = List.map (mc f) <$> copyWithinFwd l s d k j := by
  intro k
  induction k with
  | zero => intro j l; rfl
  | succ k ih =>
    intro j l
    simp only [copyWithinFwd, get_map]
    refine bind_map_congr _ _ _ _ _ (fun x => ?_)
    rw [put_map]
    refine bind_map_congr _ _ _ _ _ (fun l' => ?_)
    exact ih (j + 1) l'

theorem copyWithinBwd_map (f : Nat → Nat) (s d : Nat) : ∀ (n : Nat) (l : List Info),
    copyWithinBwd (l.map (mc f)) s d n = List.map (mc f) <$> copyWithinBwd l s d n := by
  intro n
  induction n with
  | zero => intro l; rfl
  | succ j ih =>
    intro l
    simp only [copyWithinBwd, get_map]
    refine bind_map_congr _ _ _ _ _ (fun x => ?_)
    rw [put_map]
    refine bind_map_congr _ _ _ _ _ (fun l' => ?_)
    exact ih l'

/-! ### cluster loops -/

theorem minClusterLoop_map {f : Nat → Nat} (hf : SMono f) (l : List Info) : ∀ (k i c : Nat),
    minClusterLoop (l.map (mc f)) (f c) i k = f <$> minClusterLoop l c i k := by
  intro k
  induction k with
  | zero => intro i c; rfl
  | succ k ih =>
    intro i c
    simp only [minClusterLoop, get_map]
    refine bind_map_congr _ _ _ _ _ (fun x => ?_)
    rw [mc_cluster, hf.min]
    exact ih (i + 1) _

theorem extendEnd_map {f : Nat → Nat} (hf : SMono f) (l : List Info) (len : Nat) : ∀ (fuel e : Nat),
    extendEnd (l.map (mc f)) len e fuel = extendEnd l len e fuel := by
  intro fuel
  induction fuel with
  | zero => intro e; rfl
  | succ fuel ih =>
    intro e
    simp only [extendEnd]
    split
    · by_cases h0 : e = 0
      · simp only [h0, if_true]; rfl
      · simp only [h0, if_false, get_map]
        cases get l (e - 1) with
        | error err => rfl
        | ok a =>
          simp only [map_ok, okBind]
          cases get l e with
          | error err => rfl
          | ok c =>
            simp only [map_ok, okBind, mc_cluster, hf.beq]
            split
            · exact ih (e + 1)
            · rfl
    · rfl

theorem extendStart_map {f : Nat → Nat} (hf : SMono f) (l : List Info) (lo : Nat) : ∀ (s : Nat),
    extendStart (l.map (mc f)) lo s = extendStart l lo s := by
  intro s
  induction s with
  | zero => rfl
  | succ s ih =>
    simp only [extendStart]
    split
    · simp only [get_map]
      cases get l s with
      | error err => rfl
      | ok a =>
        simp only [map_ok, okBind]
        cases get l (s + 1) with
        | error err => rfl
        | ok c =>
          simp only [map_ok, okBind, mc_cluster, hf.beq]
          split
          · exact ih
          · rfl
    · rfl

theorem extendStartOut_map {f : Nat → Nat} (hf : SMono f) (l : List Info) : ∀ (s : Nat),
    extendStartOut (l.map (mc f)) s = extendStartOut l s := by
  intro s
  induction s with
  | zero => rfl
  | succ s ih =>
    simp only [extendStartOut, get_map]
    cases get l s with
    | error err => rfl
    | ok a =>
      simp only [map_ok, okBind]
      cases get l (s + 1) with
      | error err => rfl
      | ok c =>
        simp only [map_ok, okBind, mc_cluster, hf.beq]
        split
        · exact ih
        · rfl

theorem relabelOutBack_map {f : Nat → Nat} (hf : SMono f) (c cluster mask : Nat) : ∀ (i : Nat) (o : List Info),
    relabelOutBack (o.map (mc f)) (f c) (f cluster) mask i = List.map (mc f) <$> relabelOutBack o c cluster mask i := by
  intro i
  induction i with
  | zero => intro o; rfl
  | succ i ih =>
    intro o
    simp only [relabelOutBack, get_map]
    refine bind_map_congr _ _ _ _ _ (fun x => ?_)
    simp only [mc_cluster, hf.beq]
    split
    · rw [setCluster_mc hf, set_map]; exact ih _
    · rfl

theorem setClusterRange_map {f : Nat → Nat} (hf : SMono f) (cluster : Nat) : ∀ (k i : Nat) (l : List Info),
    setClusterRange (l.map (mc f)) (f cluster) i k = List.map (mc f) <$> setClusterRange l cluster i k := by
  intro k
  induction k with
  | zero => intro i l; rfl
  | succ k ih =>
    intro i l
    simp only [setClusterRange, get_map]
    refine bind_map_congr _ _ _ _ _ (fun x => ?_)
    rw [setCluster_mc hf, set_map]; exact ih _ _

theorem relabelInFwd_map {f : Nat → Nat} (hf : SMono f) (len c cluster : Nat) : ∀ (fuel i : Nat) (l : List Info),
    relabelInFwd (l.map (mc f)) len (f c) (f cluster) i fuel = List.map (mc f) <$> relabelInFwd l len c cluster i fuel := by
  intro fuel
  induction fuel with
  | zero => intro i l; rfl
  | succ fuel ih =>
    intro i l
    simp only [relabelInFwd]
    split
    · simp only [get_map]
      refine bind_map_congr _ _ _ _ _ (fun x => ?_)
      simp only [mc_cluster, hf.beq]
      split
      · rw [setCluster_mc hf, set_map]; exact ih _ _
      · rfl
    · rfl

/-! ### glyph flags -/

theorem set_map' (f : Nat → Nat) (l : List Info) (i : Nat) (y y' : Info) (h : y' = mc f y) :
    (l.map (mc f)).set i y' = (l.set i y).map (mc f) := by
  subst h; rw [List.map_set]


theorem flagAllNe_map {f : Nat → Nat} (hf : SMono f) (cluster mask : Nat) : ∀ (k i : Nat) (l : List Info) (ch : Bool),
    flagAllNe (l.map (mc f)) (f cluster) mask i k ch =
      (fun r : List Info × Bool => (r.1.map (mc f), r.2)) <$> flagAllNe l cluster mask i k ch := by
  intro k
  induction k with
  | zero => intro i l ch; rfl
  | succ k ih =>
    intro i l ch
    simp only [flagAllNe, get_map]
    refine bind_map_congr _ _ _ _ _ (fun x => ?_)
    simp only [mc_cluster, hf.bne, mc_mask]
    split
    · rw [show (List.map (mc f) l).set i _ = (l.set i { x with mask := x.mask ||| mask }).map (mc f) from (by rw [List.map_set]; rfl)]; exact ih _ _ _
    · exact ih _ _ _

theorem flagFromEnd_map {f : Nat → Nat} (hf : SMono f) (cluster cf mask start : Nat) : ∀ (i : Nat) (l : List Info) (ch : Bool),
    flagFromEnd (l.map (mc f)) (f cluster) (f cf) mask start i ch =
      (fun r : List Info × Bool => (r.1.map (mc f), r.2)) <$> flagFromEnd l cluster cf mask start i ch := by
  intro i
  induction i with
  | zero => intro l ch; rfl
  | succ i ih =>
    intro l ch
    simp only [flagFromEnd]
    split
    · simp only [get_map]
      refine bind_map_congr _ _ _ _ _ (fun x => ?_)
      simp only [mc_cluster, hf.bne, mc_mask]
      split
      · split
        · rw [show (List.map (mc f) l).set i _ = (l.set i { x with mask := x.mask ||| mask }).map (mc f) from (by rw [List.map_set]; rfl)]; exact ih _ _
        · exact ih _ _
      · rfl
    · rfl

theorem flagFromStart_map {f : Nat → Nat} (hf : SMono f) (cluster cl mask : Nat) : ∀ (k i : Nat) (l : List Info) (ch : Bool),
    flagFromStart (l.map (mc f)) (f cluster) (f cl) mask i k ch =
      (fun r : List Info × Bool => (r.1.map (mc f), r.2)) <$> flagFromStart l cluster cl mask i k ch := by
  intro k
  induction k with
  | zero => intro i l ch; rfl
  | succ k ih =>
    intro i l ch
    simp only [flagFromStart, get_map]
    refine bind_map_congr _ _ _ _ _ (fun x => ?_)
    simp only [mc_cluster, hf.bne, mc_mask]
    split
    · split
      · rw [show (List.map (mc f) l).set i _ = (l.set i { x with mask := x.mask ||| mask }).map (mc f) from (by rw [List.map_set]; rfl)]; exact ih _ _ _
      · exact ih _ _ _
    · rfl

theorem findMinCluster_nf (level : Nat) (l : List Info) (start stop c : Nat) :
    findMinCluster level l start stop c =
      if (start == stop) = true then pure c else
        ((if (level == 1) = true then
            (if (decide (stop < start) || decide (stop > l.length)) = true then throw Panic.oob
             else minClusterLoop l c start (stop - start)) else pure c) >>= fun c1 =>
         if stop = 0 then throw Panic.oob else
           get l start >>= fun a => get l (stop - 1) >>= fun z => pure (min c1 (min a.cluster z.cluster))) := by
  unfold findMinCluster
  repeat' (first | rfl | split)

theorem infosSetGlyphFlags_nf (level : Nat) (l : List Info) (start stop cluster mask : Nat) :
    infosSetGlyphFlags level l start stop cluster mask =
      if (start == stop) = true then pure (l, false) else
        get l start >>= fun a =>
        (if stop = 0 then throw Panic.oob else get l (stop - 1)) >>= fun z =>
        if (level == 2 || (cluster != a.cluster && cluster != z.cluster)) = true then
          flagAllNe l cluster mask start (stop - start) false
        else if (cluster == a.cluster) = true then flagFromEnd l cluster a.cluster mask start stop false
        else flagFromStart l cluster z.cluster mask start (stop - start) false := by
  unfold infosSetGlyphFlags
  repeat' (first | rfl | split)

theorem infosSetGlyphFlags_map {f : Nat → Nat} (hf : SMono f) (level : Nat) (l : List Info) (start stop cluster mask : Nat) :
    infosSetGlyphFlags level (l.map (mc f)) start stop (f cluster) mask =
      (fun r : List Info × Bool => (r.1.map (mc f), r.2)) <$> infosSetGlyphFlags level l start stop cluster mask := by
  rw [infosSetGlyphFlags_nf, infosSetGlyphFlags_nf]
  split
  · rfl
  · rw [get_map]
    refine bind_map_congr _ _ _ _ _ (fun a => ?_)
    have hz : (if stop = 0 then throw Panic.oob else get (l.map (mc f)) (stop - 1)) =
        mc f <$> (if stop = 0 then throw Panic.oob else get l (stop - 1)) := by
      split
      · rfl
      · exact get_map f l _
    rw [hz]
    refine bind_map_congr _ _ _ _ _ (fun z => ?_)
    simp only [mc_cluster, hf.bne, hf.beq]
    split
    · exact flagAllNe_map hf _ _ _ _ _ _
    · split
      · exact flagFromEnd_map hf _ _ _ _ _ _ _
      · exact flagFromStart_map hf _ _ _ _ _ _ _

theorem orMaskRange_map (f : Nat → Nat) (mask : Nat) : ∀ (k i : Nat) (l : List Info),
    orMaskRange (l.map (mc f)) mask i k = List.map (mc f) <$> orMaskRange l mask i k := by
  intro k
  induction k with
  | zero => intro i l; rfl
  | succ k ih =>
    intro i l
    simp only [orMaskRange, get_map]
    refine bind_map_congr _ _ _ _ _ (fun x => ?_)
    rw [show (List.map (mc f) l).set i _ = (l.set i { x with mask := x.mask ||| mask }).map (mc f) from (by rw [List.map_set]; rfl)]; exact ih _ _

/-- plain form: the running minimum is relabelled too -/
theorem findMinCluster_map {f : Nat → Nat} (hf : SMono f) (level : Nat) (l : List Info) (start stop c : Nat) :
    findMinCluster level (l.map (mc f)) start stop (f c) = f <$> findMinCluster level l start stop c := by
  rw [findMinCluster_nf, findMinCluster_nf]
  split
  · rfl
  · have hinner : (if (level == 1) = true then
          (if (decide (stop < start) || decide (stop > (l.map (mc f)).length)) = true then throw Panic.oob
           else minClusterLoop (l.map (mc f)) (f c) start (stop - start)) else pure (f c)) =
        f <$> (if (level == 1) = true then
          (if (decide (stop < start) || decide (stop > l.length)) = true then throw Panic.oob
           else minClusterLoop l c start (stop - start)) else pure c) := by
      split
      · simp only [List.length_map]
        split
        · rfl
        · exact minClusterLoop_map hf l _ _ _
      · rfl
    rw [hinner]
    refine bind_map_congr _ _ _ _ _ (fun c1 => ?_)
    split
    · rfl
    · rw [get_map]
      refine bind_map_congr _ _ _ _ _ (fun a => ?_)
      rw [get_map]
      refine bind_map_congr _ _ _ _ _ (fun z => ?_)
      simp only [mc_cluster, hf.min]
      rfl

/-- all cluster values of the Vec and their images are 32-bit -/
def BoundedL (f : Nat → Nat) (l : List Info) : Prop := ∀ x ∈ l, x.cluster ≤ U32MAX ∧ f x.cluster ≤ U32MAX

theorem get_mem {l : List Info} {i : Nat} {x : Info} (h : get l i = .ok x) : x ∈ l :=
  List.mem_of_getElem? (get_eq_ok h)

theorem minClusterLoop_map_top {f : Nat → Nat} (hf : SMono f) (l : List Info) (hb : BoundedL f l) (k i : Nat) (hk : 0 < k) :
    minClusterLoop (l.map (mc f)) U32MAX i k = f <$> minClusterLoop l U32MAX i k := by
  cases k with
  | zero => omega
  | succ k =>
    simp only [minClusterLoop, get_map]
    cases hg : get l i with
    | error e => rfl
    | ok x =>
      simp only [map_ok, okBind, mc_cluster]
      obtain ⟨h1, h2⟩ := hb x (get_mem hg)
      rw [Nat.min_eq_right h2, Nat.min_eq_right h1]
      exact minClusterLoop_map hf l _ _ _

/-- started from the sentinel `u32::MAX` on a non-empty range -/
theorem findMinCluster_map_top {f : Nat → Nat} (hf : SMono f) (level : Nat) (l : List Info) (hb : BoundedL f l)
    (start stop : Nat) (hne : start ≠ stop) :
    findMinCluster level (l.map (mc f)) start stop U32MAX = f <$> findMinCluster level l start stop U32MAX := by
  rw [findMinCluster_nf, findMinCluster_nf]
  have hbe : (start == stop) = false := by simpa using hne
  simp only [hbe, Bool.false_eq_true, if_false]
  by_cases hl : (level == 1) = true
  · simp only [hl, if_true, List.length_map]
    by_cases hbad : (decide (stop < start) || decide (stop > l.length)) = true
    · simp only [hbad, if_true]; rfl
    · simp only [hbad, Bool.false_eq_true, if_false]
      have hk : 0 < stop - start := by
        simp only [Bool.or_eq_true, decide_eq_true_eq, not_or] at hbad
        omega
      rw [minClusterLoop_map_top hf l hb _ _ hk]
      refine bind_map_congr _ _ _ _ _ (fun c1 => ?_)
      split
      · rfl
      · rw [get_map]
        refine bind_map_congr _ _ _ _ _ (fun a => ?_)
        rw [get_map]
        refine bind_map_congr _ _ _ _ _ (fun z => ?_)
        simp only [mc_cluster, hf.min]
        rfl
  · simp only [hl, Bool.false_eq_true, if_false, pureBind]
    split
    · rfl
    · simp only [get_map]
      cases hga : get l start with
      | error e => rfl
      | ok a =>
        simp only [map_ok, okBind]
        cases hgz : get l (stop - 1) with
        | error e => rfl
        | ok z =>
          simp only [map_ok, okBind, mc_cluster, map_pure']
          obtain ⟨a1, a2⟩ := hb a (get_mem hga)
          obtain ⟨z1, z2⟩ := hb z (get_mem hgz)
          congr 1
          rw [hf.min]
          have e1 : min U32MAX (f (min a.cluster z.cluster)) = f (min a.cluster z.cluster) := by
            apply Nat.min_eq_right
            rw [← hf.min]; exact Nat.le_trans (Nat.min_le_left _ _) a2
          have e2 : min U32MAX (min a.cluster z.cluster) = min a.cluster z.cluster :=
            Nat.min_eq_right (Nat.le_trans (Nat.min_le_left _ _) a1)
          rw [e1, e2]


/-! ### buffers -/

theorem mapCluster_outArr (f : Nat → Nat) (b : Buf) : (mapCluster f b).outArr = b.outArr.map (mc f) := by
  unfold mapCluster outArr; cases b.sepOut <;> rfl

theorem mapCluster_setOutArr (f : Nat → Nat) (b : Buf) (o : List Info) :
    (mapCluster f b).setOutArr (o.map (mc f)) = mapCluster f (b.setOutArr o) := by
  unfold mapCluster setOutArr; cases b.sepOut <;> rfl

theorem mapCluster_addScratch (f : Nat → Nat) (b : Buf) (ch : Bool) :
    (mapCluster f b).addScratch ch = mapCluster f (b.addScratch ch) := by
  unfold addScratch; cases ch <;> rfl

theorem mapCluster_with_info (f : Nat → Nat) (b : Buf) (l : List Info) :
    ({ mapCluster f b with info := l.map (mc f) } : Buf) = mapCluster f { b with info := l } := rfl

/-- all cluster values stored in the buffer, and their images, are 32-bit -/
def Bounded (f : Nat → Nat) (b : Buf) : Prop := BoundedL f b.info ∧ BoundedL f b.out

theorem Bounded.outArr {f : Nat → Nat} {b : Buf} (h : Bounded f b) : BoundedL f b.outArr := by
  unfold Buf.outArr; cases b.sepOut
  · exact h.1
  · exact h.2

/-- the "minimum over in-part and out-part, then flag both parts" block of `_set_glyph_flags` -/
theorem flagTwo_map {f : Nat → Nat} (hf : SMono f) {α : Type} (G : α → α) (level : Nat) (info out : List Info)
    (hbi : BoundedL f info) (hbo : BoundedL f out) (idx stop start outLen : Nat)
    (K : Nat → M α) (K' : Nat → M α) (hK : ∀ c, K' (f c) = G <$> K c)
    (hK0 : idx = stop → start = outLen → K' U32MAX = G <$> K U32MAX) :
    (findMinCluster level (info.map (mc f)) idx stop U32MAX >>= fun c1 =>
      findMinCluster level (out.map (mc f)) start outLen c1 >>= K') =
    G <$> (findMinCluster level info idx stop U32MAX >>= fun c1 => findMinCluster level out start outLen c1 >>= K) := by
  by_cases h1 : idx = stop
  · have e1 : ∀ l : List Info, findMinCluster level l idx stop U32MAX = pure U32MAX := by
      intro l; rw [findMinCluster_nf]; simp [h1]
    rw [e1, e1]
    simp only [pureBind]
    by_cases h2 : start = outLen
    · have e2 : ∀ l : List Info, findMinCluster level l start outLen U32MAX = pure U32MAX := by
        intro l; rw [findMinCluster_nf]; simp [h2]
      rw [e2, e2]
      simp only [pureBind]
      exact hK0 h1 h2
    · rw [findMinCluster_map_top hf level out hbo start outLen h2]
      exact bind_map_congr _ _ _ _ _ hK
  · rw [findMinCluster_map_top hf level info hbi idx stop h1]
    refine bind_map_congr _ _ _ _ _ (fun c1 => ?_)
    rw [findMinCluster_map hf]
    exact bind_map_congr _ _ _ _ _ hK

theorem flagOne_map {f : Nat → Nat} (hf : SMono f) (level : Nat) (l : List Info) (hb : BoundedL f l) (start stop mask : Nat) :
    (findMinCluster level (l.map (mc f)) start stop U32MAX >>= fun c => infosSetGlyphFlags level (l.map (mc f)) start stop c mask) =
    (fun r : List Info × Bool => (r.1.map (mc f), r.2)) <$>
      (findMinCluster level l start stop U32MAX >>= fun c => infosSetGlyphFlags level l start stop c mask) := by
  by_cases h1 : start = stop
  · have e1 : ∀ l : List Info, findMinCluster level l start stop U32MAX = pure U32MAX := by
      intro l; rw [findMinCluster_nf]; simp [h1]
    have e2 : ∀ (l : List Info) (c : Nat), infosSetGlyphFlags level l start stop c mask = pure (l, false) := by
      intro l c; rw [infosSetGlyphFlags_nf]; simp [h1]
    rw [e1, e1]; simp only [pureBind]; rw [e2, e2]; rfl
  · rw [findMinCluster_map_top hf level l hb start stop h1]
    exact bind_map_congr _ _ _ _ _ (fun c => infosSetGlyphFlags_map hf _ _ _ _ _ _)

/-- `_set_glyph_flags` after the early return and the scratch-flag update (`e` = the clamped end) -/
def setGlyphFlagsBody (b1 : Buf) (mask start e : Nat) (interior fromOut : Bool) : M Buf :=
  if (!fromOut || !b1.haveOutput) = true then
    if (!interior) = true then
      orMaskRange b1.info mask start (e - start) >>= fun info => pure { b1 with info := info }
    else
      (findMinCluster b1.level b1.info start e U32MAX >>= fun c => infosSetGlyphFlags b1.level b1.info start e c mask)
        >>= fun r => pure (addScratch { b1 with info := r.1 } r.2)
  else if start > b1.outLen then throw Panic.assert
  else if b1.idx > e then throw Panic.assert
  else if (!interior) = true then
    orMaskRange b1.outArr mask start (b1.outLen - start) >>= fun o =>
    orMaskRange (b1.setOutArr o).info mask (b1.setOutArr o).idx (e - (b1.setOutArr o).idx) >>= fun info =>
    pure { b1.setOutArr o with info := info }
  else
    findMinCluster b1.level b1.info b1.idx e U32MAX >>= fun c1 =>
    findMinCluster b1.level b1.outArr start b1.outLen c1 >>= fun c =>
    infosSetGlyphFlags b1.level b1.outArr start b1.outLen c mask >>= fun r1 =>
    infosSetGlyphFlags (addScratch (b1.setOutArr r1.1) r1.2).level (addScratch (b1.setOutArr r1.1) r1.2).info
      (addScratch (b1.setOutArr r1.1) r1.2).idx e c mask >>= fun r2 =>
    pure (addScratch { addScratch (b1.setOutArr r1.1) r1.2 with info := r2.1 } r2.2)

theorem setGlyphFlags_nf (b : Buf) (mask start : Nat) (stop : Option Nat) (interior fromOut : Bool) :
    b.setGlyphFlags mask start stop interior fromOut =
      if (interior && !fromOut && decide (start ≤ min (stop.getD b.len) b.len) && decide (min (stop.getD b.len) b.len - start < 2)) = true
      then pure b
      else setGlyphFlagsBody { b with scratch := b.scratch ||| SCRATCH_HAS_GLYPH_FLAGS } mask start (min (stop.getD b.len) b.len)
        interior fromOut := by
  unfold setGlyphFlags setGlyphFlagsBody
  simp only
  repeat' (first | rfl | split)
  all_goals (simp only [bind_assoc])

theorem setGlyphFlagsBody_map {f : Nat → Nat} (hf : SMono f) (b1 : Buf) (hbd1 : Bounded f b1) (mask start e : Nat)
    (interior fromOut : Bool) :
    setGlyphFlagsBody (mapCluster f b1) mask start e interior fromOut =
      mapCluster f <$> setGlyphFlagsBody b1 mask start e interior fromOut := by
  unfold setGlyphFlagsBody
  have e1 : (mapCluster f b1).haveOutput = b1.haveOutput := rfl
  have e2 : (mapCluster f b1).info = b1.info.map (mc f) := rfl
  have e3 : (mapCluster f b1).level = b1.level := rfl
  have e4 : (mapCluster f b1).outLen = b1.outLen := rfl
  have e5 : (mapCluster f b1).idx = b1.idx := rfl
  rw [e1, e2, e3, e4, e5, mapCluster_outArr]
  split
  · split
    · rw [orMaskRange_map]
      exact bind_map_congr _ _ _ _ _ (fun info => rfl)
    · rw [flagOne_map hf _ _ hbd1.1]
      exact bind_map_congr _ _ _ _ _ (fun r => by
        rw [map_pure']; congr 1
        cases r with | mk l ch => cases ch <;> rfl)
  · split
    · rfl
    · split
      · rfl
      · split
        · rw [orMaskRange_map]
          refine bind_map_congr _ _ _ _ _ (fun o => ?_)
          rw [mapCluster_setOutArr]
          have : (mapCluster f (b1.setOutArr o)).info = (b1.setOutArr o).info.map (mc f) := rfl
          rw [this, orMaskRange_map]
          exact bind_map_congr _ _ _ _ _ (fun info => rfl)
        · -- the continuation after the two minima
          have hK : ∀ c c' : Nat, (c' = f c ∨ (b1.idx = e ∧ start = b1.outLen)) →
              (infosSetGlyphFlags b1.level (b1.outArr.map (mc f)) start b1.outLen c' mask >>= fun r1 =>
                infosSetGlyphFlags (addScratch ((mapCluster f b1).setOutArr r1.1) r1.2).level
                  (addScratch ((mapCluster f b1).setOutArr r1.1) r1.2).info
                  (addScratch ((mapCluster f b1).setOutArr r1.1) r1.2).idx e c' mask >>= fun r2 =>
                pure (addScratch { addScratch ((mapCluster f b1).setOutArr r1.1) r1.2 with info := r2.1 } r2.2)) =
              mapCluster f <$>
              (infosSetGlyphFlags b1.level b1.outArr start b1.outLen c mask >>= fun r1 =>
                infosSetGlyphFlags (addScratch (b1.setOutArr r1.1) r1.2).level (addScratch (b1.setOutArr r1.1) r1.2).info
                  (addScratch (b1.setOutArr r1.1) r1.2).idx e c mask >>= fun r2 =>
                pure (addScratch { addScratch (b1.setOutArr r1.1) r1.2 with info := r2.1 } r2.2)) := by
            intro c c' hc
            rcases hc with hc | ⟨h1, h2⟩
            · subst hc
              rw [infosSetGlyphFlags_map hf]
              refine bind_map_congr _ _ _ _ _ (fun r1 => ?_)
              simp only
              rw [mapCluster_setOutArr, mapCluster_addScratch]
              have : (mapCluster f ((b1.setOutArr r1.1).addScratch r1.2)).info =
                  ((b1.setOutArr r1.1).addScratch r1.2).info.map (mc f) := rfl
              rw [this]
              have e6 : (mapCluster f ((b1.setOutArr r1.1).addScratch r1.2)).level = ((b1.setOutArr r1.1).addScratch r1.2).level := rfl
              have e7 : (mapCluster f ((b1.setOutArr r1.1).addScratch r1.2)).idx = ((b1.setOutArr r1.1).addScratch r1.2).idx := rfl
              rw [e6, e7, infosSetGlyphFlags_map hf]
              refine bind_map_congr _ _ _ _ _ (fun r2 => ?_)
              rw [map_pure']; congr 1
              cases r2 with | mk l ch => cases ch <;> rfl
            · -- both ranges are empty: the cluster value is not looked at
              have z1 : ∀ (l : List Info) (c : Nat), infosSetGlyphFlags b1.level l start b1.outLen c mask = pure (l, false) := by
                intro l c; rw [infosSetGlyphFlags_nf]; simp [h2]
              rw [z1, z1]
              simp only [pureBind]
              have hidx : ∀ o : List Info, ((b1.setOutArr o).addScratch false).idx = e := by
                intro o; rw [← h1]; unfold addScratch setOutArr; cases b1.sepOut <;> rfl
              have hidx' : ∀ o : List Info, (((mapCluster f b1).setOutArr o).addScratch false).idx = e := by
                intro o; rw [← h1]; unfold addScratch setOutArr mapCluster; cases b1.sepOut <;> rfl
              have z2 : ∀ (lv : Nat) (l : List Info) (i c : Nat), i = e → infosSetGlyphFlags lv l i e c mask = pure (l, false) := by
                intro lv l i c hi; rw [infosSetGlyphFlags_nf]; simp [hi]
              rw [z2 _ _ _ _ (hidx' _), z2 _ _ _ _ (hidx _)]
              simp only [pureBind, map_pure']
              rw [mapCluster_setOutArr, mapCluster_addScratch]
              rfl
          by_cases h1 : b1.idx = e
          · have t1 : ∀ l : List Info, findMinCluster b1.level l b1.idx e U32MAX = pure U32MAX := by
              intro l; rw [findMinCluster_nf]; simp [h1]
            rw [t1, t1]
            simp only [pureBind]
            by_cases h2 : start = b1.outLen
            · have t2 : ∀ l : List Info, findMinCluster b1.level l start b1.outLen U32MAX = pure U32MAX := by
                intro l; rw [findMinCluster_nf]; simp [h2]
              rw [t2, t2]
              simp only [pureBind]
              exact hK U32MAX U32MAX (Or.inr ⟨h1, h2⟩)
            · rw [findMinCluster_map_top hf _ _ hbd1.outArr _ _ h2]
              exact bind_map_congr _ _ _ _ _ (fun c => hK c (f c) (Or.inl rfl))
          · rw [findMinCluster_map_top hf _ _ hbd1.1 _ _ h1]
            refine bind_map_congr _ _ _ _ _ (fun c1 => ?_)
            rw [findMinCluster_map hf]
            exact bind_map_congr _ _ _ _ _ (fun c => hK c (f c) (Or.inl rfl))

theorem setGlyphFlags_map {f : Nat → Nat} (hf : SMono f) (b : Buf) (hb : Bounded f b) (mask start : Nat) (stop : Option Nat)
    (interior fromOut : Bool) :
    (mapCluster f b).setGlyphFlags mask start stop interior fromOut =
      mapCluster f <$> b.setGlyphFlags mask start stop interior fromOut := by
  rw [setGlyphFlags_nf, setGlyphFlags_nf]
  have hlen : (mapCluster f b).len = b.len := rfl
  rw [hlen]
  split
  · rfl
  · exact setGlyphFlagsBody_map hf { b with scratch := b.scratch ||| SCRATCH_HAS_GLYPH_FLAGS } hb _ _ _ _ _


/-! ### flag wrappers -/

theorem unsafeToBreak_map {f : Nat → Nat} (hf : SMono f) (b : Buf) (hb : Bounded f b) (s : Nat) (e : Option Nat) :
    (mapCluster f b).unsafeToBreak s e = mapCluster f <$> b.unsafeToBreak s e := setGlyphFlags_map hf b hb _ _ _ _ _

theorem unsafeToBreakFromOut_map {f : Nat → Nat} (hf : SMono f) (b : Buf) (hb : Bounded f b) (s : Nat) (e : Option Nat) :
    (mapCluster f b).unsafeToBreakFromOut s e = mapCluster f <$> b.unsafeToBreakFromOut s e := setGlyphFlags_map hf b hb _ _ _ _ _

theorem unsafeToConcat_map {f : Nat → Nat} (hf : SMono f) (b : Buf) (hb : Bounded f b) (s : Nat) (e : Option Nat) :
    (mapCluster f b).unsafeToConcat s e = mapCluster f <$> b.unsafeToConcat s e := by
  unfold unsafeToConcat
  have : (mapCluster f b).flags = b.flags := rfl
  rw [this]
  split
  · rfl
  · exact setGlyphFlags_map hf b hb _ _ _ _ _

theorem unsafeToConcatFromOut_map {f : Nat → Nat} (hf : SMono f) (b : Buf) (hb : Bounded f b) (s : Nat) (e : Option Nat) :
    (mapCluster f b).unsafeToConcatFromOut s e = mapCluster f <$> b.unsafeToConcatFromOut s e := by
  unfold unsafeToConcatFromOut
  have : (mapCluster f b).flags = b.flags := rfl
  rw [this]
  split
  · rfl
  · exact setGlyphFlags_map hf b hb _ _ _ _ _

theorem safeToInsertTatweel_map {f : Nat → Nat} (hf : SMono f) (b : Buf) (hb : Bounded f b) (s : Nat) (e : Option Nat) :
    (mapCluster f b).safeToInsertTatweel s e = mapCluster f <$> b.safeToInsertTatweel s e := by
  unfold safeToInsertTatweel
  have : (mapCluster f b).flags = b.flags := rfl
  rw [this]
  split
  · exact unsafeToBreak_map hf b hb s e
  · exact setGlyphFlags_map hf b hb _ _ _ _ _

/-! ### merges -/

theorem bind_ite {α β : Type} (c : Prop) [Decidable c] (x y : M α) (k : α → M β) :
    ((if c then x else y) >>= k) = if c then x >>= k else y >>= k := by
  split <;> rfl


theorem mergeClustersImpl_nf (b : Buf) (start stop : Nat) :
    b.mergeClustersImpl start stop =
      if (b.level == 2) = true then b.unsafeToBreak start (some stop) else
      get b.info start >>= fun a =>
      minClusterLoop b.info a.cluster (start + 1) (stop - (start + 1)) >>= fun cluster =>
      (if stop = 0 then throw Panic.oob else get b.info (stop - 1)) >>= fun z =>
      (if (cluster != z.cluster) = true then extendEnd b.info b.len stop (b.len - stop) else pure stop) >>= fun stop' =>
      get b.info start >>= fun a2 =>
      (if (cluster != a2.cluster) = true then
          (if (Gen.Buf.extendStartGuard == 1) = true then extendStart b.info b.idx start else pure start)
        else pure start) >>= fun start' =>
      get b.info start' >>= fun s =>
      (if (b.idx == start' && s.cluster != cluster) = true then
          (relabelOutBack b.outArr s.cluster cluster 0 b.outLen >>= fun o => pure (b.setOutArr o))
        else pure b) >>= fun b2 =>
      setClusterRange b2.info cluster start' (stop' - start') >>= fun info => pure { b2 with info := info } := by
  unfold mergeClustersImpl
  simp only [bind_ite, pure_bind, bind_assoc]
  repeat' (first | rfl | split)


theorem ite_get_map (f : Nat → Nat) (l : List Info) (c : Prop) [Decidable c] (e : Panic) (i : Nat) :
    (if c then throw e else get (l.map (mc f)) i) = mc f <$> (if c then throw e else get l i) := by
  split
  · rfl
  · exact get_map f l i

theorem ite_throw_map {α β : Type} (g : α → β) (c : Prop) [Decidable c] (e : Panic) (x : M α) :
    (if c then throw e else g <$> x) = g <$> (if c then throw e else x) := by
  split <;> rfl

theorem mergeClustersImpl_map {f : Nat → Nat} (hf : SMono f) (b : Buf) (hb : b.level = 2 → Bounded f b) (s e : Nat) :
    (mapCluster f b).mergeClustersImpl s e = mapCluster f <$> b.mergeClustersImpl s e := by
  rw [mergeClustersImpl_nf, mergeClustersImpl_nf]
  have e1 : (mapCluster f b).level = b.level := rfl
  have e2 : (mapCluster f b).info = b.info.map (mc f) := rfl
  have e3 : (mapCluster f b).len = b.len := rfl
  have e4 : (mapCluster f b).idx = b.idx := rfl
  have e5 : (mapCluster f b).outLen = b.outLen := rfl
  rw [e1, e2, e3, e4, e5, mapCluster_outArr]
  split
  · rename_i hl2
    exact unsafeToBreak_map hf b (hb (by simpa using hl2)) s (some e)
  · simp only [get_map]
    refine bind_map_congr _ _ _ _ _ (fun a => ?_)
    rw [mc_cluster, minClusterLoop_map hf]
    refine bind_map_congr _ _ _ _ _ (fun cluster => ?_)
    rw [ite_throw_map]
    refine bind_map_congr _ _ _ _ _ (fun z => ?_)
    rw [mc_cluster, hf.bne, extendEnd_map hf]
    refine bind_congr' _ _ _ _ (fun stop' => ?_)
    refine bind_map_congr _ _ _ _ _ (fun a2 => ?_)
    rw [mc_cluster, hf.bne, extendStart_map hf]
    refine bind_congr' _ _ _ _ (fun start' => ?_)
    refine bind_map_congr _ _ _ _ _ (fun s0 => ?_)
    rw [mc_cluster, hf.bne]
    have hmid : (if (b.idx == start' && s0.cluster != cluster) = true then
          (relabelOutBack (b.outArr.map (mc f)) (f s0.cluster) (f cluster) 0 b.outLen >>= fun o => pure ((mapCluster f b).setOutArr o))
        else pure (mapCluster f b)) =
        mapCluster f <$> (if (b.idx == start' && s0.cluster != cluster) = true then
          (relabelOutBack b.outArr s0.cluster cluster 0 b.outLen >>= fun o => pure (b.setOutArr o)) else pure b) := by
      split
      · rw [relabelOutBack_map hf]
        exact bind_map_congr _ _ _ _ _ (fun o => by rw [mapCluster_setOutArr]; rfl)
      · rfl
    rw [hmid]
    refine bind_map_congr _ _ _ _ _ (fun b2 => ?_)
    have : (mapCluster f b2).info = b2.info.map (mc f) := rfl
    rw [this, setClusterRange_map hf]
    exact bind_map_congr _ _ _ _ _ (fun info => rfl)

theorem mergeClusters_map {f : Nat → Nat} (hf : SMono f) (b : Buf) (hb : b.level = 2 → Bounded f b) (s e : Nat) :
    (mapCluster f b).mergeClusters s e = mapCluster f <$> b.mergeClusters s e := by
  unfold mergeClusters
  split
  · rfl
  · exact mergeClustersImpl_map hf b hb s e

/-- `{ b with info := l }` as a function, so that rewriting scalar fields does not take the record apart -/
def withInfo (b : Buf) (l : List Info) : Buf := { b with info := l }

theorem mapCluster_withInfo (f : Nat → Nat) (b : Buf) (l : List Info) :
    withInfo (mapCluster f b) (l.map (mc f)) = mapCluster f (withInfo b l) := rfl

theorem mergeOutClusters_nf (b : Buf) (start stop : Nat) :
    b.mergeOutClusters start stop =
      if (b.level == 2) = true then pure b else
      if stop - start < 2 then pure b else
      get b.outArr start >>= fun a =>
      minClusterLoop b.outArr a.cluster (start + 1) (stop - (start + 1)) >>= fun cluster =>
      extendStartOut b.outArr start >>= fun start' =>
      extendEnd b.outArr b.outLen stop (b.outLen - stop) >>= fun stop' =>
      (if (stop' == b.outLen) = true then
          ((if stop' = 0 then throw Panic.oob else get b.outArr (stop' - 1)) >>= fun z =>
            relabelInFwd b.info b.len z.cluster cluster b.idx (b.len - b.idx) >>= fun info => pure (withInfo b info))
        else pure b) >>= fun b2 =>
      setClusterRange b2.outArr cluster start' (stop' - start') >>= fun o => pure (b2.setOutArr o) := by
  unfold mergeOutClusters withInfo
  simp only [bind_ite, pure_bind, bind_assoc]
  repeat' (first | rfl | split)

theorem mergeOutClusters_map {f : Nat → Nat} (hf : SMono f) (b : Buf) (s e : Nat) :
    (mapCluster f b).mergeOutClusters s e = mapCluster f <$> b.mergeOutClusters s e := by
  rw [mergeOutClusters_nf, mergeOutClusters_nf]
  have e1 : (mapCluster f b).level = b.level := rfl
  have e2 : (mapCluster f b).info = b.info.map (mc f) := rfl
  have e3 : (mapCluster f b).len = b.len := rfl
  have e4 : (mapCluster f b).idx = b.idx := rfl
  have e5 : (mapCluster f b).outLen = b.outLen := rfl
  rw [e1, e2, e3, e4, e5, mapCluster_outArr]
  split
  · rfl
  · split
    · rfl
    · rw [get_map]
      refine bind_map_congr _ _ _ _ _ (fun a => ?_)
      rw [mc_cluster, minClusterLoop_map hf]
      refine bind_map_congr _ _ _ _ _ (fun cluster => ?_)
      rw [extendStartOut_map hf]
      refine bind_congr' _ _ _ _ (fun start' => ?_)
      rw [extendEnd_map hf]
      refine bind_congr' _ _ _ _ (fun stop' => ?_)
      have hmid : (if (stop' == b.outLen) = true then
            ((if stop' = 0 then throw Panic.oob else get (b.outArr.map (mc f)) (stop' - 1)) >>= fun z =>
              relabelInFwd (b.info.map (mc f)) b.len z.cluster (f cluster) b.idx (b.len - b.idx) >>= fun info =>
                pure (withInfo (mapCluster f b) info))
          else pure (mapCluster f b)) =
          mapCluster f <$> (if (stop' == b.outLen) = true then
            ((if stop' = 0 then throw Panic.oob else get b.outArr (stop' - 1)) >>= fun z =>
              relabelInFwd b.info b.len z.cluster cluster b.idx (b.len - b.idx) >>= fun info => pure (withInfo b info))
          else pure b) := by
        split
        · rw [ite_get_map]
          refine bind_map_congr _ _ _ _ _ (fun z => ?_)
          rw [mc_cluster, relabelInFwd_map hf]
          exact bind_map_congr _ _ _ _ _ (fun info => rfl)
        · rfl
      rw [hmid]
      refine bind_map_congr _ _ _ _ _ (fun b2 => ?_)
      rw [mapCluster_outArr, setClusterRange_map hf]
      exact bind_map_congr _ _ _ _ _ (fun o => by rw [mapCluster_setOutArr]; rfl)


/-! ### deletion, simple cursor moves -/

theorem skipGlyph_map (f : Nat → Nat) (b : Buf) : (mapCluster f b).skipGlyph = mapCluster f b.skipGlyph := rfl
theorem clearOutput_map (f : Nat → Nat) (b : Buf) : (mapCluster f b).clearOutput = mapCluster f b.clearOutput := rfl
theorem enter_map (f : Nat → Nat) (b : Buf) : (mapCluster f b).enter = mapCluster f b.enter := by
  by_cases h : b.len < 2097152
  · simp only [enter, mapCluster, h, if_true]
  · simp only [enter, mapCluster, h, if_false]
theorem leave_map (f : Nat → Nat) (b : Buf) : (mapCluster f b).leave = mapCluster f b.leave := rfl
theorem clear_map (f : Nat → Nat) (b : Buf) : (mapCluster f b).clear = mapCluster f b.clear := rfl

theorem deleteGlyph_nf (b : Buf) :
    b.deleteGlyph =
      get b.info b.idx >>= fun cur =>
      (if b.idx + 1 < b.len then get b.info (b.idx + 1) >>= fun n => pure (cur.cluster == n.cluster) else pure false) >>= fun nextSame =>
      (if (!nextSame && b.outLen != 0) = true then get b.outArr (b.outLen - 1) >>= fun p => pure (cur.cluster == p.cluster)
        else pure false) >>= fun prevSame =>
      if (nextSame || prevSame) = true then pure b.skipGlyph else
      if (b.outLen != 0) = true then
        get b.outArr (b.outLen - 1) >>= fun p =>
        (if cur.cluster < p.cluster then
            relabelOutBack b.outArr p.cluster cur.cluster cur.mask b.outLen >>= fun o => pure (b.setOutArr o)
          else pure b) >>= fun b2 => pure b2.skipGlyph
      else
        (if b.idx + 1 < b.len then b.mergeClusters b.idx (b.idx + 2) else pure b) >>= fun b2 => pure b2.skipGlyph := by
  unfold deleteGlyph
  simp only [bind_ite, pure_bind, bind_assoc]
  repeat' (first | rfl | split)

theorem deleteGlyph_map {f : Nat → Nat} (hf : SMono f) (b : Buf) (hb : b.level = 2 → Bounded f b) :
    (mapCluster f b).deleteGlyph = mapCluster f <$> b.deleteGlyph := by
  rw [deleteGlyph_nf, deleteGlyph_nf]
  have e2 : (mapCluster f b).info = b.info.map (mc f) := rfl
  have e3 : (mapCluster f b).len = b.len := rfl
  have e4 : (mapCluster f b).idx = b.idx := rfl
  have e5 : (mapCluster f b).outLen = b.outLen := rfl
  rw [e2, e3, e4, e5, mapCluster_outArr]
  simp only [get_map]
  refine bind_map_congr _ _ _ _ _ (fun cur => ?_)
  have hn : (if b.idx + 1 < b.len then (mc f <$> get b.info (b.idx + 1)) >>= fun n => pure ((mc f cur).cluster == n.cluster)
        else (pure false : M Bool)) =
      (if b.idx + 1 < b.len then get b.info (b.idx + 1) >>= fun n => pure (cur.cluster == n.cluster) else pure false) := by
    split
    · cases get b.info (b.idx + 1) with
      | error e => rfl
      | ok n => simp only [map_ok, okBind, mc_cluster, hf.beq]
    · rfl
  rw [hn]
  refine bind_congr' _ _ _ _ (fun nextSame => ?_)
  have hp : (if (!nextSame && b.outLen != 0) = true then
        (mc f <$> get b.outArr (b.outLen - 1)) >>= fun p => pure ((mc f cur).cluster == p.cluster) else (pure false : M Bool)) =
      (if (!nextSame && b.outLen != 0) = true then get b.outArr (b.outLen - 1) >>= fun p => pure (cur.cluster == p.cluster)
        else pure false) := by
    split
    · cases get b.outArr (b.outLen - 1) with
      | error e => rfl
      | ok n => simp only [map_ok, okBind, mc_cluster, hf.beq]
    · rfl
  rw [hp]
  refine bind_congr' _ _ _ _ (fun prevSame => ?_)
  split
  · rfl
  · split
    · refine bind_map_congr _ _ _ _ _ (fun p => ?_)
      simp only [mc_cluster, hf.lt_iff, mc_mask]
      have hmid : (if cur.cluster < p.cluster then
            relabelOutBack (b.outArr.map (mc f)) (f p.cluster) (f cur.cluster) cur.mask b.outLen >>= fun o =>
              pure ((mapCluster f b).setOutArr o) else pure (mapCluster f b)) =
          mapCluster f <$> (if cur.cluster < p.cluster then
            relabelOutBack b.outArr p.cluster cur.cluster cur.mask b.outLen >>= fun o => pure (b.setOutArr o) else pure b) := by
        split
        · rw [relabelOutBack_map hf]
          exact bind_map_congr _ _ _ _ _ (fun o => by rw [mapCluster_setOutArr]; rfl)
        · rfl
      rw [hmid]
      exact bind_map_congr _ _ _ _ _ (fun b2 => rfl)
    · have hmid : (if b.idx + 1 < b.len then (mapCluster f b).mergeClusters b.idx (b.idx + 2) else pure (mapCluster f b)) =
          mapCluster f <$> (if b.idx + 1 < b.len then b.mergeClusters b.idx (b.idx + 2) else pure b) := by
        split
        · exact mergeClusters_map hf b hb _ _
        · rfl
      rw [hmid]
      exact bind_map_congr _ _ _ _ _ (fun b2 => rfl)

/-! ### in-place rearrangements -/

theorem revSlice_map (f : Nat → Nat) (l : List Info) (s e : Nat) :
    revSlice (l.map (mc f)) s e = List.map (mc f) <$> revSlice l s e := by
  unfold revSlice
  simp only [List.length_map]
  split
  · rfl
  · simp only [map_pure', List.map_append, List.map_reverse, List.map_take, List.map_drop]

theorem reverseRange_map (f : Nat → Nat) (b : Buf) (s e : Nat) :
    (mapCluster f b).reverseRange s e = mapCluster f <$> b.reverseRange s e := by
  unfold reverseRange
  split
  · rfl
  · have : (mapCluster f b).info = b.info.map (mc f) := rfl
    rw [this, revSlice_map]
    exact bind_map_congr _ _ _ _ _ (fun info => rfl)

theorem reverse_map (f : Nat → Nat) (b : Buf) : (mapCluster f b).reverse = mapCluster f <$> b.reverse := by
  unfold Buf.reverse
  have : (mapCluster f b).len = b.len := rfl
  rw [this]
  split
  · rfl
  · exact reverseRange_map f b 0 b.len

theorem resetMasks_map (f : Nat → Nat) (b : Buf) (m : Nat) : (mapCluster f b).resetMasks m = mapCluster f <$> b.resetMasks m := by
  unfold resetMasks
  have e1 : (mapCluster f b).info = b.info.map (mc f) := rfl
  have e2 : (mapCluster f b).len = b.len := rfl
  rw [e1, e2]
  simp only [List.length_map]
  split
  · rfl
  · rw [map_pure']
    congr 1
    unfold mapCluster
    simp only [List.map_append, List.map_take, List.map_drop, List.map_map]
    congr 2

/-- which glyphs `set_masks(…, cluster_start, cluster_end)` touches -/
def maskSel (cs ce c : Nat) : Bool := (cs == 0 && ce == U32MAX) || (cs ≤ c && c < ce)

theorem setMasks_nf (b : Buf) (v m cs ce : Nat) :
    b.setMasks v m cs ce =
      if (m == 0) = true then pure b else
      if b.len > b.info.length then throw Panic.oob else
      pure { b with info := (b.info.take b.len).map (fun x => if maskSel cs ce x.cluster = true then
                { x with mask := (x.mask &&& (U32MAX - m)) ||| (v &&& m) } else x) ++ b.info.drop b.len } := by
  unfold setMasks maskSel
  repeat' (first | rfl | split)

/-- `set_masks(value, mask, cluster_start, cluster_end)` with bounds `cs' ce'` that select the same glyphs after
    relabelling (for a ranged feature: `cs' = f cs`, `ce' = f ce`, or `u32::MAX` kept) -/
theorem setMasks_map (f : Nat → Nat) (b : Buf) (v m cs ce cs' ce' : Nat)
    (hsel : ∀ x ∈ b.info, maskSel cs' ce' (f x.cluster) = maskSel cs ce x.cluster) :
    (mapCluster f b).setMasks v m cs' ce' = mapCluster f <$> b.setMasks v m cs ce := by
  rw [setMasks_nf, setMasks_nf]
  split
  · rfl
  · have e1 : (mapCluster f b).info = b.info.map (mc f) := rfl
    have e2 : (mapCluster f b).len = b.len := rfl
    rw [e1, e2]
    simp only [List.length_map]
    split
    · rfl
    · rw [map_pure']
      congr 1
      unfold mapCluster
      simp only [List.map_append, List.map_take, List.map_drop, List.map_map]
      congr 3
      apply List.map_congr_left
      intro x hx
      simp only [Function.comp, mc_cluster, hsel x hx]
      split <;> rfl

/-- the usual case: a ranged feature whose bounds are relabelled by the same map -/
theorem maskSel_map {f : Nat → Nat} (hf : SMono f) (cs ce c : Nat) (hg : ¬ (cs = 0 ∧ ce = U32MAX))
    (hg' : ¬ (f cs = 0 ∧ f ce = U32MAX)) : maskSel (f cs) (f ce) (f c) = maskSel cs ce c := by
  unfold maskSel
  have h1 : (cs == 0 && ce == U32MAX) = false := by
    cases h : (cs == 0 && ce == U32MAX)
    · rfl
    · simp only [Bool.and_eq_true, beq_iff_eq] at h; exact absurd h hg
  have h2 : (f cs == 0 && f ce == U32MAX) = false := by
    cases h : (f cs == 0 && f ce == U32MAX)
    · rfl
    · simp only [Bool.and_eq_true, beq_iff_eq] at h; exact absurd h hg'
  rw [h1, h2]
  simp only [Bool.false_or]
  rw [Bool.eq_iff_iff]
  simp only [Bool.and_eq_true, decide_eq_true_eq, hf.le_iff, hf.lt_iff]


/-! ### level and boundedness are kept by the merges -/

theorem setOutArr_level (b : Buf) (o : List Info) : (b.setOutArr o).level = b.level := by
  unfold setOutArr; cases b.sepOut <;> rfl

theorem mergeClusters_level {b b2 : Buf} {s e : Nat} (h : b.mergeClusters s e = .ok b2) : b2.level = b.level := by
  unfold mergeClusters at h
  split at h
  · cases h; rfl
  · rw [mergeClustersImpl_nf] at h
    split at h
    · exact (unsafeToBreak_flagsOnly h).1 ▸ rfl
    · obtain ⟨_, _, h⟩ := bind_eq_ok h
      obtain ⟨_, _, h⟩ := bind_eq_ok h
      obtain ⟨_, _, h⟩ := bind_eq_ok h
      obtain ⟨_, _, h⟩ := bind_eq_ok h
      obtain ⟨_, _, h⟩ := bind_eq_ok h
      obtain ⟨_, _, h⟩ := bind_eq_ok h
      obtain ⟨_, _, h⟩ := bind_eq_ok h
      obtain ⟨b3, hb3, h⟩ := bind_eq_ok h
      obtain ⟨_, _, h⟩ := bind_eq_ok h
      cases h
      simp only
      split at hb3
      · obtain ⟨o, _, hb3⟩ := bind_eq_ok hb3
        cases hb3; exact setOutArr_level b o
      · cases hb3; rfl

theorem OnlyMask.boundedL {f : Nat → Nat} {l l' : List Info} (h : OnlyMask l l') (hb : BoundedL f l) : BoundedL f l' := by
  intro x hx
  obtain ⟨q, hq⟩ := List.mem_iff_getElem?.1 hx
  have hc := h.cl? q
  unfold Buf.cl? at hc
  rw [hq] at hc
  cases hy : l[q]? with
  | none => rw [hy] at hc; cases hc
  | some y =>
    rw [hy] at hc
    have : x.cluster = y.cluster := Option.some.inj hc
    rw [this]
    exact hb y (List.mem_of_getElem? hy)

theorem FlagsOnly.bounded {f : Nat → Nat} {b b' : Buf} (h : FlagsOnly b b') (hb : Bounded f b) : Bounded f b' :=
  ⟨h.2.1.boundedL hb.1, h.2.2.boundedL hb.2⟩

theorem mergeClusters_bounded2 {f : Nat → Nat} {b b2 : Buf} {s e : Nat} (hl : b.level = 2) (hb : Bounded f b)
    (h : b.mergeClusters s e = .ok b2) : Bounded f b2 := by
  unfold mergeClusters at h
  split at h
  · cases h; exact hb
  · rw [mergeClustersImpl_nf] at h
    simp only [hl, beq_self_eq_true, if_true] at h
    exact (unsafeToBreak_flagsOnly h).bounded hb

/-- what the compound routines need: boundedness only matters at level 2 (where merging means flagging) -/
def BoundedIf2 (f : Nat → Nat) (b : Buf) : Prop := b.level = 2 → Bounded f b


/-! ### sort -/

theorem sort_findJ_map (f : Nat → Nat) (l : List Info) (xi : Info) (start : Nat) : ∀ (i : Nat),
    sort.findJ (l.map (mc f)) (mc f xi) start i = sort.findJ l xi start i := by
  intro i
  induction i with
  | zero => rfl
  | succ i ih =>
    simp only [sort.findJ]
    split
    · simp only [get_map]
      cases get l i with
      | error e => rfl
      | ok p =>
        simp only [map_ok, okBind]
        by_cases h : p.var1 > xi.var1
        · have h' : (mc f p).var1 > (mc f xi).var1 := h
          rw [if_pos h', if_pos h]; exact ih
        · have h' : ¬ (mc f p).var1 > (mc f xi).var1 := h
          rw [if_neg h', if_neg h]
    · rfl

theorem sort_shift_map (f : Nat → Nat) (j : Nat) : ∀ (k : Nat) (l : List Info),
    sort.shift (l.map (mc f)) j k = List.map (mc f) <$> sort.shift l j k := by
  intro k
  induction k with
  | zero => intro l; rfl
  | succ k ih =>
    intro l
    simp only [sort.shift, get_map]
    refine bind_map_congr _ _ _ _ _ (fun x => ?_)
    rw [put_map]
    exact bind_map_congr _ _ _ _ _ (fun l' => ih l')

theorem put_mem {l r : List Info} {i : Nat} {t x : Info} (h : put l i t = .ok r) (hx : x ∈ r) : x ∈ l ∨ x = t := by
  obtain ⟨_, hr⟩ := put_eq_ok h
  subst hr
  rcases List.mem_or_eq_of_mem_set hx with h1 | h1
  · exact Or.inl h1
  · exact Or.inr h1

theorem sort_shift_mem (j : Nat) : ∀ (k : Nat) (l r : List Info), sort.shift l j k = .ok r → ∀ x ∈ r, x ∈ l := by
  intro k
  induction k with
  | zero => intro l r h x hx; cases h; exact hx
  | succ k ih =>
    intro l r h x hx
    simp only [sort.shift] at h
    obtain ⟨y, hy, h⟩ := bind_eq_ok h
    obtain ⟨l', hl', h⟩ := bind_eq_ok h
    have := ih l' r h x hx
    rcases put_mem hl' this with h1 | h1
    · exact h1
    · rw [h1]; exact get_mem hy

theorem sort_outer_nf (start stop : Nat) (b : Buf) (i fuel : Nat) :
    sort.outer start stop b i (fuel + 1) =
      if i < stop then
        get b.info i >>= fun xi =>
        sort.findJ b.info xi start i >>= fun j =>
        if (i == j) = true then sort.outer start stop b (i + 1) fuel else
          b.mergeClusters j (i + 1) >>= fun b2 =>
          get b2.info i >>= fun t =>
          sort.shift b2.info j (i - j) >>= fun info =>
          put info j t >>= fun info2 =>
          sort.outer start stop (withInfo b2 info2) (i + 1) fuel
      else pure b := by
  simp only [sort.outer, withInfo]

theorem sort_outer_map {f : Nat → Nat} (hf : SMono f) (start stop : Nat) : ∀ (fuel : Nat) (b : Buf) (i : Nat),
    BoundedIf2 f b → sort.outer start stop (mapCluster f b) i fuel = mapCluster f <$> sort.outer start stop b i fuel := by
  intro fuel
  induction fuel with
  | zero => intro b i _; rfl
  | succ fuel ih =>
    intro b i hb
    rw [sort_outer_nf, sort_outer_nf]
    split
    · have e2 : (mapCluster f b).info = b.info.map (mc f) := rfl
      rw [e2, get_map]
      refine bind_map_congr _ _ _ _ _ (fun xi => ?_)
      rw [sort_findJ_map]
      refine bind_congr' _ _ _ _ (fun j => ?_)
      split
      · exact ih b (i + 1) hb
      · rw [mergeClusters_map hf b hb]
        cases hm : b.mergeClusters j (i + 1) with
        | error err => rfl
        | ok b2 =>
          simp only [map_ok, okBind]
          have e3 : (mapCluster f b2).info = b2.info.map (mc f) := rfl
          rw [e3, get_map]
          cases ht : get b2.info i with
          | error err => rfl
          | ok t =>
            simp only [map_ok, okBind]
            rw [sort_shift_map]
            cases hs : sort.shift b2.info j (i - j) with
            | error err => rfl
            | ok info =>
              simp only [map_ok, okBind]
              rw [put_map]
              cases hp : put info j t with
              | error err => rfl
              | ok info2 =>
                simp only [map_ok, okBind]
                rw [mapCluster_withInfo]
                apply ih
                intro hl
                have hl0 : b.level = 2 := by rw [← mergeClusters_level hm]; exact hl
                have hb2 := mergeClusters_bounded2 hl0 (hb hl0) hm
                refine ⟨?_, hb2.2⟩
                intro x hx
                rcases put_mem hp hx with h1 | h1
                · exact hb2.1 x (sort_shift_mem j _ _ _ hs x h1)
                · rw [h1]; exact hb2.1 t (get_mem ht)
    · rfl

theorem sort_map {f : Nat → Nat} (hf : SMono f) (b : Buf) (hb : BoundedIf2 f b) (s e : Nat) :
    (mapCluster f b).sort s e = mapCluster f <$> b.sort s e := by
  unfold sort
  have : (mapCluster f b).havePos = b.havePos := rfl
  simp only [this]
  split
  · rfl
  · exact sort_outer_map hf s e _ b _ hb


/-! ### reverse_groups (cluster groups and grapheme groups), form_clusters -/

theorem reverseRange_level {b b2 : Buf} {s e : Nat} (h : b.reverseRange s e = .ok b2) : b2.level = b.level := by
  unfold reverseRange at h
  split at h
  · cases h; rfl
  · obtain ⟨_, _, h⟩ := bind_eq_ok h
    cases h; rfl

theorem reverseRange_bounded {f : Nat → Nat} {b b2 : Buf} {s e : Nat} (hb : Bounded f b) (h : b.reverseRange s e = .ok b2) :
    Bounded f b2 := by
  unfold reverseRange at h
  split at h
  · cases h; exact hb
  · obtain ⟨info, hi, h⟩ := bind_eq_ok h
    cases h
    refine ⟨?_, hb.2⟩
    unfold revSlice at hi
    split at hi
    · cases hi
    · cases hi
      intro x hx
      simp only [List.mem_append, List.mem_reverse] at hx
      rcases hx with (h1 | h1) | h1
      · exact hb.1 x (List.mem_of_mem_take h1)
      · exact hb.1 x (List.mem_of_mem_drop (List.mem_of_mem_take h1))
      · exact hb.1 x (List.mem_of_mem_drop h1)

/-- merge (if asked) then reverse one group: the step both `reverse_groups` loops share -/
theorem groupStep_map {f : Nat → Nat} (hf : SMono f) (b : Buf) (hb : BoundedIf2 f b) (merge : Bool) (s e : Nat) :
    ((if merge = true then (mapCluster f b).mergeClusters s e else pure (mapCluster f b)) >>= fun b1 => b1.reverseRange s e) =
      mapCluster f <$> ((if merge = true then b.mergeClusters s e else pure b) >>= fun b1 => b1.reverseRange s e) := by
  have h1 : (if merge = true then (mapCluster f b).mergeClusters s e else pure (mapCluster f b)) =
      mapCluster f <$> (if merge = true then b.mergeClusters s e else pure b) := by
    split
    · exact mergeClusters_map hf b hb s e
    · rfl
  rw [h1]
  exact bind_map_congr _ _ _ _ _ (fun b1 => reverseRange_map f b1 s e)

theorem groupStep_inv {f : Nat → Nat} {b b2 : Buf} (hb : BoundedIf2 f b) (merge : Bool) (s e : Nat)
    (h : ((if merge = true then b.mergeClusters s e else pure b) >>= fun b1 => b1.reverseRange s e) = .ok b2) :
    BoundedIf2 f b2 := by
  obtain ⟨b1, h1, h2⟩ := bind_eq_ok h
  have hl1 : b1.level = b.level := by
    split at h1
    · exact mergeClusters_level h1
    · cases h1; rfl
  intro hl
  have hl0 : b.level = 2 := by rw [← hl1, ← reverseRange_level h2]; exact hl
  have hb1 : Bounded f b1 := by
    split at h1
    · exact mergeClusters_bounded2 hl0 (hb hl0) h1
    · cases h1; exact hb hl0
  exact reverseRange_bounded hb1 h2

theorem reverseGroups_loop_nf (merge : Bool) (b : Buf) (start i fuel : Nat) :
    reverseGroups.loop merge b start i (fuel + 1) =
      if i < b.len then
        get b.info (i - 1) >>= fun p => get b.info i >>= fun c =>
        if (p.cluster != c.cluster) = true then
          ((if merge = true then b.mergeClusters start i else pure b) >>= fun b1 => b1.reverseRange start i) >>= fun b2 =>
            reverseGroups.loop merge b2 i (i + 1) fuel
        else reverseGroups.loop merge b start (i + 1) fuel
      else pure (b, start, i) := by
  simp only [reverseGroups.loop, bind_assoc, bind_ite, pure_bind]

theorem reverseGroups_loop_map {f : Nat → Nat} (hf : SMono f) (merge : Bool) : ∀ (fuel : Nat) (b : Buf) (start i : Nat),
    BoundedIf2 f b →
    reverseGroups.loop merge (mapCluster f b) start i fuel =
      (fun r : Buf × Nat × Nat => (mapCluster f r.1, r.2)) <$> reverseGroups.loop merge b start i fuel := by
  intro fuel
  induction fuel with
  | zero => intro b start i _; rfl
  | succ fuel ih =>
    intro b start i hb
    rw [reverseGroups_loop_nf, reverseGroups_loop_nf]
    have e1 : (mapCluster f b).len = b.len := rfl
    have e2 : (mapCluster f b).info = b.info.map (mc f) := rfl
    rw [e1, e2]
    split
    · simp only [get_map]
      refine bind_map_congr _ _ _ _ _ (fun p => ?_)
      refine bind_map_congr _ _ _ _ _ (fun c => ?_)
      simp only [mc_cluster, hf.bne]
      split
      · rw [groupStep_map hf b hb]
        cases hs : ((if merge = true then b.mergeClusters start i else pure b) >>= fun b1 => b1.reverseRange start i) with
        | error err => rfl
        | ok b2 =>
          simp only [map_ok, okBind]
          exact ih b2 i (i + 1) (groupStep_inv hb merge start i hs)
      · exact ih b start (i + 1) hb
    · rfl

theorem reverseGroups_loop_inv {f : Nat → Nat} (merge : Bool) : ∀ (fuel : Nat) (b : Buf) (start i : Nat) (r : Buf × Nat × Nat),
    BoundedIf2 f b → reverseGroups.loop merge b start i fuel = .ok r → BoundedIf2 f r.1 := by
  intro fuel
  induction fuel with
  | zero => intro b start i r hb h; cases h; exact hb
  | succ fuel ih =>
    intro b start i r hb h
    rw [reverseGroups_loop_nf] at h
    split at h
    · obtain ⟨p, _, h⟩ := bind_eq_ok h
      obtain ⟨c, _, h⟩ := bind_eq_ok h
      split at h
      · obtain ⟨b2, hb2, h⟩ := bind_eq_ok h
        exact ih b2 i (i + 1) r (groupStep_inv hb merge start i hb2) h
      · exact ih b start (i + 1) r hb h
    · cases h; exact hb

theorem reverseGroups_nf (b : Buf) (merge : Bool) :
    b.reverseGroups merge =
      if (b.len == 0) = true then pure b else
      reverseGroups.loop merge b 0 1 b.len >>= fun r =>
      ((if merge = true then r.1.mergeClusters r.2.1 r.2.2 else pure r.1) >>= fun b1 => b1.reverseRange r.2.1 r.2.2) >>= fun b2 =>
      b2.reverse := by
  unfold reverseGroups
  simp only [bind_assoc, bind_ite, pure_bind]
  repeat' (first | rfl | split)

theorem reverseGroups_map {f : Nat → Nat} (hf : SMono f) (b : Buf) (hb : BoundedIf2 f b) (merge : Bool) :
    (mapCluster f b).reverseGroups merge = mapCluster f <$> b.reverseGroups merge := by
  rw [reverseGroups_nf, reverseGroups_nf]
  have e1 : (mapCluster f b).len = b.len := rfl
  rw [e1]
  split
  · rfl
  · rw [reverseGroups_loop_map hf merge _ b 0 1 hb]
    cases hloop : reverseGroups.loop merge b 0 1 b.len with
    | error err => rfl
    | ok r =>
      simp only [map_ok, okBind]
      have hb1 := reverseGroups_loop_inv merge _ b 0 1 r hb hloop
      rw [groupStep_map hf r.1 hb1]
      exact bind_map_congr _ _ _ _ _ (fun b2 => reverse_map f b2)

/-! ### the grapheme variants (Cluster.lean) -/

theorem isContinuation_mc (f : Nat → Nat) (x : Info) : isContinuation (mc f x) = isContinuation x := rfl

theorem revGroupsLoop_nf (merge : Bool) (b : Buf) (start i fuel : Nat) :
    revGroupsLoop merge b start i (fuel + 1) =
      if i < b.len then
        (if i = 0 then throw Panic.oob else get b.info (i - 1)) >>= fun _ => get b.info i >>= fun c =>
        if (!isContinuation c) = true then
          ((if merge = true then b.mergeClusters start i else pure b) >>= fun b1 => b1.reverseRange start i) >>= fun b2 =>
            revGroupsLoop merge b2 i (i + 1) fuel
        else revGroupsLoop merge b start (i + 1) fuel
      else pure (b, start, i) := by
  simp only [revGroupsLoop, bind_assoc, bind_ite, pure_bind]

theorem revGroupsLoop_map {f : Nat → Nat} (hf : SMono f) (merge : Bool) : ∀ (fuel : Nat) (b : Buf) (start i : Nat),
    BoundedIf2 f b →
    revGroupsLoop merge (mapCluster f b) start i fuel =
      (fun r : Buf × Nat × Nat => (mapCluster f r.1, r.2)) <$> revGroupsLoop merge b start i fuel := by
  intro fuel
  induction fuel with
  | zero => intro b start i _; rfl
  | succ fuel ih =>
    intro b start i hb
    rw [revGroupsLoop_nf, revGroupsLoop_nf]
    have e1 : (mapCluster f b).len = b.len := rfl
    have e2 : (mapCluster f b).info = b.info.map (mc f) := rfl
    rw [e1, e2]
    split
    · simp only [get_map]
      rw [ite_throw_map]
      refine bind_map_congr _ _ _ _ _ (fun _ => ?_)
      refine bind_map_congr _ _ _ _ _ (fun c => ?_)
      rw [isContinuation_mc]
      split
      · rw [groupStep_map hf b hb]
        cases hs : ((if merge = true then b.mergeClusters start i else pure b) >>= fun b1 => b1.reverseRange start i) with
        | error err => rfl
        | ok b2 =>
          simp only [map_ok, okBind]
          exact ih b2 i (i + 1) (groupStep_inv hb merge start i hs)
      · exact ih b start (i + 1) hb
    · rfl

theorem revGroupsLoop_inv {f : Nat → Nat} (merge : Bool) : ∀ (fuel : Nat) (b : Buf) (start i : Nat) (r : Buf × Nat × Nat),
    BoundedIf2 f b → revGroupsLoop merge b start i fuel = .ok r → BoundedIf2 f r.1 := by
  intro fuel
  induction fuel with
  | zero => intro b start i r hb h; cases h; exact hb
  | succ fuel ih =>
    intro b start i r hb h
    rw [revGroupsLoop_nf] at h
    split at h
    · obtain ⟨p, _, h⟩ := bind_eq_ok h
      obtain ⟨c, _, h⟩ := bind_eq_ok h
      split at h
      · obtain ⟨b2, hb2, h⟩ := bind_eq_ok h
        exact ih b2 i (i + 1) r (groupStep_inv hb merge start i hb2) h
      · exact ih b start (i + 1) r hb h
    · cases h; exact hb

theorem reverseGroupsG_nf (b : Buf) (merge : Bool) :
    b.reverseGroupsG merge =
      if (b.len == 0) = true then pure b else
      revGroupsLoop merge b 0 1 b.len >>= fun r =>
      ((if merge = true then r.1.mergeClusters r.2.1 r.2.2 else pure r.1) >>= fun b1 => b1.reverseRange r.2.1 r.2.2) >>= fun b2 =>
      b2.reverse := by
  unfold reverseGroupsG
  simp only [bind_assoc, bind_ite, pure_bind]
  repeat' (first | rfl | split)

theorem reverseGroupsG_map {f : Nat → Nat} (hf : SMono f) (b : Buf) (hb : BoundedIf2 f b) (merge : Bool) :
    (mapCluster f b).reverseGroupsG merge = mapCluster f <$> b.reverseGroupsG merge := by
  rw [reverseGroupsG_nf, reverseGroupsG_nf]
  have e1 : (mapCluster f b).len = b.len := rfl
  rw [e1]
  split
  · rfl
  · rw [revGroupsLoop_map hf merge _ b 0 1 hb]
    cases hloop : revGroupsLoop merge b 0 1 b.len with
    | error err => rfl
    | ok r =>
      simp only [map_ok, okBind]
      have hb1 := revGroupsLoop_inv merge _ b 0 1 r hb hloop
      rw [groupStep_map hf r.1 hb1]
      exact bind_map_congr _ _ _ _ _ (fun b2 => reverse_map f b2)

theorem reverseGraphemes_map {f : Nat → Nat} (hf : SMono f) (b : Buf) (hb : BoundedIf2 f b) :
    (mapCluster f b).reverseGraphemes = mapCluster f <$> b.reverseGraphemes := by
  unfold reverseGraphemes
  exact reverseGroupsG_map hf b hb _

theorem scanNumbers_map (f : Nat → Nat) : ∀ (l : List Info) (n r : Bool), scanNumbers (l.map (mc f)) n r = scanNumbers l n r := by
  intro l
  induction l with
  | nil => intro n r; rfl
  | cons x rest ih =>
    intro n r
    simp only [List.map_cons, scanNumbers, ih]
    rfl

theorem ensureNativeDirection_nf (b : Buf) (dir hor0 : Nat) :
    b.ensureNativeDirection dir hor0 =
      ((if (hor0 == Dir.RTL && dir == Dir.LTR) = true then
          scanNumbers b.info false false >>= fun r =>
            pure (match r with
                  | some (n, r) => if (n || r) = true then Dir.LTR else hor0
                  | none => hor0)
        else pure hor0) >>= fun hor =>
      if (Dir.isHorizontal dir && dir != hor && hor != Dir.INVALID || Dir.isVertical dir && dir != Dir.TTB) = true then
        b.reverseGraphemes >>= fun b1 => pure (b1, Dir.reverse dir)
      else pure (b, dir)) := by
  unfold ensureNativeDirection
  simp only [bind_assoc, bind_ite, pure_bind]
  split
  · congr 1
    funext r
    cases r with
    | none => rfl
    | some p => cases p; rfl
  · rfl

theorem ensureNativeDirection_map {f : Nat → Nat} (hf : SMono f) (b : Buf) (hb : BoundedIf2 f b) (dir hor0 : Nat) :
    (mapCluster f b).ensureNativeDirection dir hor0 =
      (fun r : Buf × Nat => (mapCluster f r.1, r.2)) <$> b.ensureNativeDirection dir hor0 := by
  rw [ensureNativeDirection_nf, ensureNativeDirection_nf]
  have e2 : (mapCluster f b).info = b.info.map (mc f) := rfl
  rw [e2, scanNumbers_map]
  refine bind_congr' _ _ _ _ (fun hor => ?_)
  split
  · rw [reverseGraphemes_map hf b hb]
    exact bind_map_congr _ _ _ _ _ (fun b1 => rfl)
  · rfl

theorem finalReverse_map (f : Nat → Nat) (b : Buf) (dir : Nat) :
    (mapCluster f b).finalReverse dir = mapCluster f <$> b.finalReverse dir := by
  unfold finalReverse
  split
  · exact reverse_map f b
  · rfl


/-! ### form_clusters -/

theorem graphemeEndLoop_map (f : Nat → Nat) (l : List Info) (len : Nat) : ∀ (fuel i : Nat),
    graphemeEndLoop (l.map (mc f)) len i fuel = graphemeEndLoop l len i fuel := by
  intro fuel
  induction fuel with
  | zero => intro i; rfl
  | succ fuel ih =>
    intro i
    simp only [graphemeEndLoop]
    split
    · simp only [get_map]
      rw [ite_throw_map]
      cases (if i = 0 then throw Panic.oob else get l (i - 1) : M Info) with
      | error e => rfl
      | ok a =>
        simp only [map_ok, okBind]
        cases get l i with
        | error e => rfl
        | ok c =>
          simp only [map_ok, okBind]
          by_cases hc : isContinuation c = true
          · have hc' : isContinuation (mc f c) = true := hc
            rw [if_pos hc', if_pos hc]; exact ih _
          · have hc' : ¬ isContinuation (mc f c) = true := hc
            rw [if_neg hc', if_neg hc]
    · rfl

theorem graphemeEnd_map (f : Nat → Nat) (b : Buf) (s : Nat) : (mapCluster f b).graphemeEnd s = b.graphemeEnd s := by
  unfold graphemeEnd
  exact graphemeEndLoop_map f b.info b.len _ _

/-- what `form_clusters` needs: boundedness whenever it flags instead of merging -/
def BoundedUnless0 (f : Nat → Nat) (b : Buf) : Prop := b.level ≠ 0 → Bounded f b

theorem formBody_map {f : Nat → Nat} (hf : SMono f) (b : Buf) (hb : BoundedUnless0 f b) (s e : Nat) :
    (if (b.level == 0) = true then (mapCluster f b).mergeClusters s e else (mapCluster f b).unsafeToBreak s (some e)) =
      mapCluster f <$> (if (b.level == 0) = true then b.mergeClusters s e else b.unsafeToBreak s (some e)) := by
  split
  · rename_i h0
    have h0' : b.level = 0 := by simpa using h0
    exact mergeClusters_map hf b (fun h2 => by omega) s e
  · rename_i h0
    have h0' : b.level ≠ 0 := by simpa using h0
    exact unsafeToBreak_map hf b (hb h0') s (some e)

theorem formBody_inv {f : Nat → Nat} {b b2 : Buf} (hb : BoundedUnless0 f b) (s e : Nat)
    (h : (if (b.level == 0) = true then b.mergeClusters s e else b.unsafeToBreak s (some e)) = .ok b2) :
    b2.level = b.level ∧ BoundedUnless0 f b2 := by
  split at h
  · rename_i h0
    have h0' : b.level = 0 := by simpa using h0
    have hl := mergeClusters_level h
    exact ⟨hl, fun hne => absurd (hl.trans h0') hne⟩
  · rename_i h0
    have h0' : b.level ≠ 0 := by simpa using h0
    have hf' := unsafeToBreak_flagsOnly h
    have hl : b2.level = b.level := hf'.1 ▸ rfl
    exact ⟨hl, fun _ => hf'.bounded (hb h0')⟩

theorem formLoop_nf (merge : Bool) (count : Nat) (b : Buf) (s e fuel : Nat) :
    formLoop merge count b s e (fuel + 1) =
      if s < count then
        (if merge = true then b.mergeClusters s e else b.unsafeToBreak s (some e)) >>= fun b1 =>
        b1.graphemeEnd e >>= fun e1 => formLoop merge count b1 e e1 fuel
      else pure b := by
  simp only [formLoop, bind_ite]

theorem formLoop_map {f : Nat → Nat} (hf : SMono f) (count : Nat) : ∀ (fuel : Nat) (b : Buf) (s e : Nat),
    BoundedUnless0 f b →
    formLoop (b.level == 0) count (mapCluster f b) s e fuel = mapCluster f <$> formLoop (b.level == 0) count b s e fuel := by
  intro fuel
  induction fuel with
  | zero => intro b s e _; rfl
  | succ fuel ih =>
    intro b s e hb
    rw [formLoop_nf, formLoop_nf]
    split
    · rw [formBody_map hf b hb]
      cases hbody : (if (b.level == 0) = true then b.mergeClusters s e else b.unsafeToBreak s (some e)) with
      | error err => rfl
      | ok b2 =>
        simp only [map_ok, okBind, graphemeEnd_map]
        obtain ⟨hl, hb2⟩ := formBody_inv hb s e hbody
        refine bind_congr' _ _ _ _ (fun e2 => ?_)
        rw [← hl]
        exact ih b2 e e2 hb2
    · rfl

theorem formClusters_map {f : Nat → Nat} (hf : SMono f) (b : Buf) (hb : BoundedUnless0 f b) :
    (mapCluster f b).formClusters = mapCluster f <$> b.formClusters := by
  unfold formClusters
  have e1 : (mapCluster f b).scratch = b.scratch := rfl
  have e2 : (mapCluster f b).len = b.len := rfl
  have e3 : (mapCluster f b).level = b.level := rfl
  rw [e1, e2, e3]
  split
  · rfl
  · simp only [graphemeEnd_map]
    split
    · refine bind_congr' _ _ _ _ (fun e => ?_)
      exact formLoop_map hf b.len _ b 0 e hb
    · simp only [pureBind]
      exact formLoop_map hf b.len _ b 0 0 hb


/-! ### primitives that may grow the Vecs

`Vec::resize` pads with zero records, which a relabelling does not touch: exact commutation holds when `f 0 = 0`
or when the Vecs are already long enough (no padding happens). -/

theorem mc_zero {f : Nat → Nat} (h0 : f 0 = 0) : mc f ({} : Info) = {} := by
  unfold mc; simp [h0]

theorem resize_map {f : Nat → Nat} (l : List Info) (size : Nat) (hz : f 0 = 0 ∨ size ≤ l.length) :
    resize (l.map (mc f)) size = (resize l size).map (mc f) := by
  unfold resize
  simp only [List.length_map]
  split
  · rw [List.map_take]
  · rcases hz with h0 | hc
    · rw [List.map_append, List.map_replicate, mc_zero h0]
    · omega

/-- no padding will be needed for `size` records -/
def Cap (b : Buf) (size : Nat) : Prop := size ≤ b.info.length ∧ size ≤ b.out.length

theorem ensure_map {f : Nat → Nat} (b : Buf) (size : Nat) (hz : f 0 = 0 ∨ Cap b size) :
    (mapCluster f b).ensure size = (mapCluster f (b.ensure size).1, (b.ensure size).2) := by
  have hi : f 0 = 0 ∨ size ≤ b.info.length := hz.imp id (·.1)
  have ho : f 0 = 0 ∨ size ≤ b.out.length := hz.imp id (·.2)
  unfold ensure
  have e1 : (mapCluster f b).len = b.len := rfl
  have e2 : (mapCluster f b).maxLen = b.maxLen := rfl
  have e3 : (mapCluster f b).info = b.info.map (mc f) := rfl
  have e4 : (mapCluster f b).out = b.out.map (mc f) := rfl
  rw [e1, e2]
  split
  · rfl
  · split
    · rfl
    · split
      · simp only [e3, e4, List.length_map]
        congr 1
        unfold mapCluster
        simp only
        congr 1
        · split
          · exact resize_map b.info size hi
          · rfl
        · split
          · exact resize_map b.out size ho
          · rfl
      · simp only [e3, e4]
        congr 1
        unfold mapCluster
        simp only
        rw [resize_map b.info size hi, resize_map b.out size ho]

theorem ensure_cap (b : Buf) (size n : Nat) (h : Cap b n) (hg : Gen.Buf.ensureGrowOnly = true) : Cap (b.ensure size).1 n := by
  have h1 := h.1
  have h2 := h.2
  unfold ensure
  split
  · exact h
  · split
    · exact h
    · simp only [hg, if_true]
      constructor
      · simp only; split
        · unfold resize; split <;> simp <;> omega
        · exact h.1
      · simp only; split
        · unfold resize; split <;> simp <;> omega
        · exact h.2

theorem makeRoomFor_map {f : Nat → Nat} (b : Buf) (numIn numOut : Nat) (hz : f 0 = 0 ∨ Cap b (b.outLen + numOut)) :
    (mapCluster f b).makeRoomFor numIn numOut =
      (fun r : Buf × Bool => (mapCluster f r.1, r.2)) <$> b.makeRoomFor numIn numOut := by
  unfold makeRoomFor
  have e5 : (mapCluster f b).outLen = b.outLen := rfl
  rw [e5, ensure_map b _ hz]
  generalize b.ensure (b.outLen + numOut) = r
  obtain ⟨b1, ok⟩ := r
  simp only
  cases ok with
  | false => rfl
  | true =>
    simp only [Bool.not_true, Bool.false_eq_true, if_false]
    have e1 : (mapCluster f b1).sepOut = b1.sepOut := rfl
    have e2 : (mapCluster f b1).outLen = b1.outLen := rfl
    have e3 : (mapCluster f b1).idx = b1.idx := rfl
    have e4 : (mapCluster f b1).haveOutput = b1.haveOutput := rfl
    have e6 : (mapCluster f b1).info = b1.info.map (mc f) := rfl
    have e7 : (mapCluster f b1).out = b1.out.map (mc f) := rfl
    rw [e1, e2, e3]
    split
    · rw [e4]
      split
      · rfl
      · rw [e6, e7, copyAcross_map]
        exact bind_map_congr _ _ _ _ _ (fun out => rfl)
    · rfl

theorem setOut_map (f : Nat → Nat) (b : Buf) (i : Nat) (x : Info) :
    (mapCluster f b).setOut i (mc f x) = mapCluster f <$> b.setOut i x := by
  unfold setOut
  rw [mapCluster_outArr, put_map]
  exact bind_map_congr _ _ _ _ _ (fun l => by rw [mapCluster_setOutArr]; rfl)

theorem copyToOut_map (f : Nat → Nat) (b : Buf) (n : Nat) : (mapCluster f b).copyToOut n = mapCluster f <$> b.copyToOut n := by
  unfold copyToOut
  have e1 : (mapCluster f b).sepOut = b.sepOut := rfl
  have e2 : (mapCluster f b).info = b.info.map (mc f) := rfl
  have e3 : (mapCluster f b).out = b.out.map (mc f) := rfl
  rw [e1, e2, e3]
  split
  · rw [copyAcross_map]; exact bind_map_congr _ _ _ _ _ (fun o => rfl)
  · rw [copyWithinFwd_map]; exact bind_map_congr _ _ _ _ _ (fun o => rfl)

theorem copyFromOut_map (f : Nat → Nat) (b : Buf) (n : Nat) : (mapCluster f b).copyFromOut n = mapCluster f <$> b.copyFromOut n := by
  unfold copyFromOut
  have e1 : (mapCluster f b).sepOut = b.sepOut := rfl
  have e2 : (mapCluster f b).info = b.info.map (mc f) := rfl
  have e3 : (mapCluster f b).out = b.out.map (mc f) := rfl
  rw [e1, e2, e3]
  split
  · rw [copyAcross_map]; exact bind_map_congr _ _ _ _ _ (fun o => rfl)
  · simp only
    split
    · rw [copyWithinBwd_map]; exact bind_map_congr _ _ _ _ _ (fun o => rfl)
    · rw [copyWithinFwd_map]; exact bind_map_congr _ _ _ _ _ (fun o => rfl)

theorem zeroRange_map {f : Nat → Nat} : ∀ (k i : Nat) (l : List Info), (f 0 = 0 ∨ k = 0) →
    zeroRange (l.map (mc f)) i k = List.map (mc f) <$> zeroRange l i k := by
  intro k
  induction k with
  | zero => intro i l _; rfl
  | succ k ih =>
    intro i l hz
    have h0 : f 0 = 0 := by rcases hz with h | h; exact h; omega
    simp only [zeroRange]
    have : put (l.map (mc f)) i ({} : Info) = List.map (mc f) <$> put l i {} := by
      have := put_map f l i ({} : Info)
      rwa [mc_zero h0] at this
    rw [this]
    exact bind_map_congr _ _ _ _ _ (fun l' => ih (i + 1) l' (Or.inl h0))

/-- `shift_forward` after the successful `ensure` -/
def shiftBody (b1 : Buf) (count : Nat) : M (Buf × Bool) :=
  copyWithinBwd b1.info b1.idx (b1.idx + count) (b1.len - b1.idx) >>= fun info =>
  (if b1.idx + count > b1.len then
      (if b1.idx + count > info.length then throw Panic.oob else zeroRange info b1.len (b1.idx + count - b1.len))
    else pure info) >>= fun info2 =>
  pure ({ b1 with info := info2, len := b1.len + count, idx := b1.idx + count }, true)

theorem shiftForward_nf (b : Buf) (count : Nat) :
    b.shiftForward count =
      if (!b.haveOutput) = true then throw Panic.assert else
      if (!(b.ensure (b.len + count)).2) = true then pure ((b.ensure (b.len + count)).1, false) else
      shiftBody (b.ensure (b.len + count)).1 count := by
  unfold shiftForward shiftBody
  simp only [bind_assoc, bind_ite, pure_bind]
  repeat' (first | rfl | split)

theorem ensure_scalars (b : Buf) (size : Nat) :
    (b.ensure size).1.idx = b.idx ∧ (b.ensure size).1.len = b.len ∧ (b.ensure size).1.outLen = b.outLen ∧
    (b.ensure size).1.haveOutput = b.haveOutput ∧ (b.ensure size).1.sepOut = b.sepOut := by
  unfold ensure
  repeat' (first | exact ⟨rfl, rfl, rfl, rfl, rfl⟩ | split)

theorem shiftForward_map {f : Nat → Nat} (b : Buf) (count : Nat)
    (hz : f 0 = 0 ∨ (Cap b (b.len + count) ∧ b.idx + count ≤ b.len)) :
    (mapCluster f b).shiftForward count =
      (fun r : Buf × Bool => (mapCluster f r.1, r.2)) <$> b.shiftForward count := by
  rw [shiftForward_nf, shiftForward_nf]
  have e1 : (mapCluster f b).haveOutput = b.haveOutput := rfl
  have e2 : (mapCluster f b).len = b.len := rfl
  rw [e1, e2, ensure_map b _ (hz.imp id (·.1))]
  obtain ⟨s1, s2, _, _, _⟩ := ensure_scalars b (b.len + count)
  generalize b.ensure (b.len + count) = r at s1 s2
  obtain ⟨b1, ok⟩ := r
  simp only at s1 s2 ⊢
  split
  · rfl
  · split
    · rfl
    · unfold shiftBody
      have e3 : (mapCluster f b1).info = b1.info.map (mc f) := rfl
      have e4 : (mapCluster f b1).idx = b1.idx := rfl
      have e5 : (mapCluster f b1).len = b1.len := rfl
      rw [e3, e4, e5, copyWithinBwd_map]
      refine bind_map_congr _ _ _ _ _ (fun info => ?_)
      have hmid : (if b1.idx + count > b1.len then
            (if b1.idx + count > (info.map (mc f)).length then throw Panic.oob
             else zeroRange (info.map (mc f)) b1.len (b1.idx + count - b1.len)) else pure (info.map (mc f))) =
          List.map (mc f) <$> (if b1.idx + count > b1.len then
            (if b1.idx + count > info.length then throw Panic.oob else zeroRange info b1.len (b1.idx + count - b1.len))
            else pure info) := by
        split
        · rename_i hgt
          simp only [List.length_map]
          split
          · rfl
          · apply zeroRange_map
            rcases hz with h | h
            · exact Or.inl h
            · rw [s1, s2] at hgt; omega
        · rfl
      rw [hmid]
      exact bind_map_congr _ _ _ _ _ (fun info2 => rfl)

theorem moveTo_nf (b : Buf) (i : Nat) :
    b.moveTo i =
      if (!b.haveOutput) = true then (if i > b.len then throw Panic.assert else pure ({ b with idx := i }, true)) else
      if (!b.successful) = true then pure (b, false) else
      if i > b.outLen + (b.len - b.idx) then throw Panic.assert else
      if b.outLen < i then
        b.makeRoomFor (i - b.outLen) (i - b.outLen) >>= fun r =>
          if (!r.2) = true then pure (r.1, false) else
          r.1.copyToOut (i - b.outLen) >>= fun b2 =>
          pure ({ b2 with idx := b2.idx + (i - b.outLen), outLen := b2.outLen + (i - b.outLen) }, true)
      else if b.outLen > i then
        (if b.idx < b.outLen - i then b.shiftForward (b.outLen - i - b.idx) else pure (b, true)) >>= fun r =>
          if (!r.2) = true then pure (r.1, false) else
          if r.1.idx < b.outLen - i then throw Panic.assert else
          copyFromOut { r.1 with idx := r.1.idx - (b.outLen - i), outLen := r.1.outLen - (b.outLen - i) } (b.outLen - i) >>= fun b2 =>
          pure (b2, true)
      else pure (b, true) := by
  unfold moveTo
  simp only [bind_assoc, bind_ite, pure_bind]
  repeat' (first | rfl | split)

theorem moveTo_map {f : Nat → Nat} (b : Buf) (i : Nat)
    (hz : f 0 = 0 ∨ (Cap b i ∧ Cap b b.len ∧ b.outLen - i ≤ b.idx)) :
    (mapCluster f b).moveTo i = (fun r : Buf × Bool => (mapCluster f r.1, r.2)) <$> b.moveTo i := by
  rw [moveTo_nf, moveTo_nf]
  have e1 : (mapCluster f b).haveOutput = b.haveOutput := rfl
  have e2 : (mapCluster f b).len = b.len := rfl
  have e3 : (mapCluster f b).successful = b.successful := rfl
  have e4 : (mapCluster f b).outLen = b.outLen := rfl
  have e5 : (mapCluster f b).idx = b.idx := rfl
  rw [e1, e2, e3, e4, e5]
  split
  · split <;> rfl
  · split
    · rfl
    · split
      · rfl
      · split
        · rename_i hlt
          rw [makeRoomFor_map b _ _ (hz.imp id (fun h => by
            have : b.outLen + (i - b.outLen) = i := by omega
            rw [this]; exact h.1))]
          refine bind_map_congr _ _ _ _ _ (fun r => ?_)
          simp only
          split
          · rfl
          · rw [copyToOut_map]
            exact bind_map_congr _ _ _ _ _ (fun b2 => rfl)
        · split
          · rename_i hgt
            have hmid : (if b.idx < b.outLen - i then (mapCluster f b).shiftForward (b.outLen - i - b.idx) else pure (mapCluster f b, true)) =
                (fun r : Buf × Bool => (mapCluster f r.1, r.2)) <$>
                  (if b.idx < b.outLen - i then b.shiftForward (b.outLen - i - b.idx) else pure (b, true)) := by
              split
              · rename_i hsh
                apply shiftForward_map
                rcases hz with h | h
                · exact Or.inl h
                · omega
              · rfl
            rw [hmid]
            refine bind_map_congr _ _ _ _ _ (fun r => ?_)
            simp only
            split
            · rfl
            · have e6 : (mapCluster f r.1).idx = r.1.idx := rfl
              rw [e6]
              split
              · rfl
              · have : ({ mapCluster f r.1 with idx := r.1.idx - (b.outLen - i), outLen := (mapCluster f r.1).outLen - (b.outLen - i) } : Buf) =
                    mapCluster f { r.1 with idx := r.1.idx - (b.outLen - i), outLen := r.1.outLen - (b.outLen - i) } := rfl
                rw [this, copyFromOut_map]
                exact bind_map_congr _ _ _ _ _ (fun b2 => rfl)
          · rfl

theorem nextGlyph_map {f : Nat → Nat} (b : Buf) (hz : f 0 = 0 ∨ Cap b (b.outLen + 1)) :
    (mapCluster f b).nextGlyph = mapCluster f <$> b.nextGlyph := by
  unfold nextGlyph
  have e1 : (mapCluster f b).haveOutput = b.haveOutput := rfl
  have e2 : (mapCluster f b).sepOut = b.sepOut := rfl
  have e4 : (mapCluster f b).outLen = b.outLen := rfl
  have e5 : (mapCluster f b).idx = b.idx := rfl
  rw [e1, e2, e4, e5]
  split
  · split
    · rw [makeRoomFor_map b 1 1 hz]
      refine bind_map_congr _ _ _ _ _ (fun r => ?_)
      obtain ⟨b1, ok⟩ := r
      simp only
      split
      · rfl
      · have e6 : (mapCluster f b1).info = b1.info.map (mc f) := rfl
        have e7 : (mapCluster f b1).idx = b1.idx := rfl
        have e8 : (mapCluster f b1).outLen = b1.outLen := rfl
        rw [e6, e7, e8, get_map]
        refine bind_map_congr _ _ _ _ _ (fun x => ?_)
        rw [setOut_map]
        exact bind_map_congr _ _ _ _ _ (fun b2 => rfl)
    · rfl
  · rfl

theorem nextGlyphs_map {f : Nat → Nat} (b : Buf) (n : Nat) (hz : f 0 = 0 ∨ Cap b (b.outLen + n)) :
    (mapCluster f b).nextGlyphs n = mapCluster f <$> b.nextGlyphs n := by
  unfold nextGlyphs
  have e1 : (mapCluster f b).haveOutput = b.haveOutput := rfl
  have e2 : (mapCluster f b).sepOut = b.sepOut := rfl
  have e4 : (mapCluster f b).outLen = b.outLen := rfl
  have e5 : (mapCluster f b).idx = b.idx := rfl
  rw [e1, e2, e4, e5]
  split
  · split
    · rw [makeRoomFor_map b n n hz]
      refine bind_map_congr _ _ _ _ _ (fun r => ?_)
      obtain ⟨b1, ok⟩ := r
      simp only
      split
      · rfl
      · rw [copyToOut_map]
        exact bind_map_congr _ _ _ _ _ (fun b2 => rfl)
    · rfl
  · rfl

theorem copyGlyph_map {f : Nat → Nat} (b : Buf) (hz : f 0 = 0 ∨ Cap b (b.outLen + 1)) :
    (mapCluster f b).copyGlyph = mapCluster f <$> b.copyGlyph := by
  unfold copyGlyph
  rw [makeRoomFor_map b 0 1 hz]
  refine bind_map_congr _ _ _ _ _ (fun r => ?_)
  obtain ⟨b1, ok⟩ := r
  simp only
  split
  · rfl
  · have e6 : (mapCluster f b1).info = b1.info.map (mc f) := rfl
    have e7 : (mapCluster f b1).idx = b1.idx := rfl
    have e8 : (mapCluster f b1).outLen = b1.outLen := rfl
    rw [e6, e7, e8, get_map]
    refine bind_map_congr _ _ _ _ _ (fun x => ?_)
    rw [setOut_map]
    exact bind_map_congr _ _ _ _ _ (fun b2 => rfl)

theorem outputInfo_map {f : Nat → Nat} (b : Buf) (x : Info) (hz : f 0 = 0 ∨ Cap b (b.outLen + 1)) :
    (mapCluster f b).outputInfo (mc f x) = mapCluster f <$> b.outputInfo x := by
  unfold outputInfo
  rw [makeRoomFor_map b 0 1 hz]
  refine bind_map_congr _ _ _ _ _ (fun r => ?_)
  obtain ⟨b1, ok⟩ := r
  simp only
  split
  · rfl
  · have e8 : (mapCluster f b1).outLen = b1.outLen := rfl
    rw [e8, setOut_map]
    exact bind_map_congr _ _ _ _ _ (fun b2 => rfl)

theorem replaceGlyph_nf (b : Buf) (g : Nat) :
    b.replaceGlyph g =
      (if (b.sepOut || b.outLen != b.idx) = true then
          b.makeRoomFor 1 1 >>= fun r =>
            if (!r.2) = true then pure (r.1, false) else
            get r.1.info r.1.idx >>= fun x => r.1.setOut r.1.outLen x >>= fun b2 => pure (b2, true)
        else pure (b, true)) >>= fun r =>
      if (!r.2) = true then pure r.1 else
      get r.1.outArr r.1.outLen >>= fun x =>
      r.1.setOut r.1.outLen { x with gid := g } >>= fun b2 =>
      pure { b2 with idx := b2.idx + 1, outLen := b2.outLen + 1 } := by
  unfold replaceGlyph
  simp only [bind_assoc, bind_ite, pure_bind]
  repeat' (first | rfl | split)

theorem replaceGlyph_map {f : Nat → Nat} (b : Buf) (g : Nat) (hz : f 0 = 0 ∨ Cap b (b.outLen + 1)) :
    (mapCluster f b).replaceGlyph g = mapCluster f <$> b.replaceGlyph g := by
  rw [replaceGlyph_nf, replaceGlyph_nf]
  have e2 : (mapCluster f b).sepOut = b.sepOut := rfl
  have e4 : (mapCluster f b).outLen = b.outLen := rfl
  have e5 : (mapCluster f b).idx = b.idx := rfl
  rw [e2, e4, e5]
  have hfirst : (if (b.sepOut || b.outLen != b.idx) = true then
        (mapCluster f b).makeRoomFor 1 1 >>= fun r =>
          if (!r.2) = true then pure (r.1, false) else
          get r.1.info r.1.idx >>= fun x => r.1.setOut r.1.outLen x >>= fun b2 => pure (b2, true)
      else pure (mapCluster f b, true)) =
      (fun r : Buf × Bool => (mapCluster f r.1, r.2)) <$> (if (b.sepOut || b.outLen != b.idx) = true then
        b.makeRoomFor 1 1 >>= fun r =>
          if (!r.2) = true then pure (r.1, false) else
          get r.1.info r.1.idx >>= fun x => r.1.setOut r.1.outLen x >>= fun b2 => pure (b2, true)
      else pure (b, true)) := by
    split
    · rw [makeRoomFor_map b 1 1 hz]
      refine bind_map_congr _ _ _ _ _ (fun r => ?_)
      obtain ⟨b1, ok⟩ := r
      simp only
      split
      · rfl
      · have e6 : (mapCluster f b1).info = b1.info.map (mc f) := rfl
        have e7 : (mapCluster f b1).idx = b1.idx := rfl
        have e8 : (mapCluster f b1).outLen = b1.outLen := rfl
        rw [e6, e7, e8, get_map]
        refine bind_map_congr _ _ _ _ _ (fun x => ?_)
        rw [setOut_map]
        exact bind_map_congr _ _ _ _ _ (fun b2 => rfl)
    · rfl
  rw [hfirst]
  refine bind_map_congr _ _ _ _ _ (fun r => ?_)
  obtain ⟨b1, ok⟩ := r
  simp only
  split
  · rfl
  · have e8 : (mapCluster f b1).outLen = b1.outLen := rfl
    rw [mapCluster_outArr, e8, get_map]
    refine bind_map_congr _ _ _ _ _ (fun x => ?_)
    rw [mc_with_gid, setOut_map]
    exact bind_map_congr _ _ _ _ _ (fun b2 => rfl)

theorem outputGlyph_nf (b : Buf) (g : Nat) :
    b.outputGlyph g =
      b.makeRoomFor 0 1 >>= fun r =>
      if (!r.2) = true then pure r.1 else
      if (r.1.idx == r.1.len && r.1.outLen == 0) = true then pure r.1 else
      (if r.1.idx < r.1.len then get r.1.info r.1.idx
        else (if r.1.outLen = 0 then throw Panic.oob else get r.1.outArr (r.1.outLen - 1))) >>= fun x =>
      r.1.setOut r.1.outLen { x with gid := g } >>= fun b2 => pure { b2 with outLen := b2.outLen + 1 } := by
  unfold outputGlyph
  simp only [bind_assoc, bind_ite, pure_bind]
  repeat' (first | rfl | split)

theorem outputGlyph_map {f : Nat → Nat} (b : Buf) (g : Nat) (hz : f 0 = 0 ∨ Cap b (b.outLen + 1)) :
    (mapCluster f b).outputGlyph g = mapCluster f <$> b.outputGlyph g := by
  rw [outputGlyph_nf, outputGlyph_nf, makeRoomFor_map b 0 1 hz]
  refine bind_map_congr _ _ _ _ _ (fun r => ?_)
  obtain ⟨b1, ok⟩ := r
  simp only
  have e6 : (mapCluster f b1).info = b1.info.map (mc f) := rfl
  have e7 : (mapCluster f b1).idx = b1.idx := rfl
  have e8 : (mapCluster f b1).outLen = b1.outLen := rfl
  have e9 : (mapCluster f b1).len = b1.len := rfl
  rw [e6, e7, e8, e9, mapCluster_outArr]
  split
  · rfl
  · split
    · rfl
    · have hx : (if b1.idx < b1.len then get (b1.info.map (mc f)) b1.idx
            else (if b1.outLen = 0 then throw Panic.oob else get (b1.outArr.map (mc f)) (b1.outLen - 1))) =
          mc f <$> (if b1.idx < b1.len then get b1.info b1.idx
            else (if b1.outLen = 0 then throw Panic.oob else get b1.outArr (b1.outLen - 1))) := by
        split
        · exact get_map f _ _
        · exact ite_get_map f _ _ _ _
      rw [hx]
      refine bind_map_congr _ _ _ _ _ (fun x => ?_)
      rw [mc_with_gid, setOut_map]
      exact bind_map_congr _ _ _ _ _ (fun b2 => rfl)

theorem replaceLoop_map (f : Nat → Nat) (orig : Info) : ∀ (gs : List Nat) (b : Buf) (i : Nat),
    replaceGlyphs.loop (mc f orig) (mapCluster f b) i gs = mapCluster f <$> replaceGlyphs.loop orig b i gs := by
  intro gs
  induction gs with
  | nil => intro b i; rfl
  | cons g rest ih =>
    intro b i
    simp only [replaceGlyphs.loop]
    have e8 : (mapCluster f b).outLen = b.outLen := rfl
    rw [e8, mc_with_gid, setOut_map]
    exact bind_map_congr _ _ _ _ _ (fun b2 => ih b2 (i + 1))

theorem replaceGlyphs_nf (b : Buf) (numIn : Nat) (gs : List Nat) :
    b.replaceGlyphs numIn gs =
      b.makeRoomFor numIn gs.length >>= fun r =>
      if (!r.2) = true then pure r.1 else
      if r.1.idx + numIn > r.1.len then throw Panic.assert else
      r.1.mergeClusters r.1.idx (r.1.idx + numIn) >>= fun b2 =>
      get b2.info b2.idx >>= fun orig =>
      replaceGlyphs.loop orig b2 0 gs >>= fun b3 =>
      pure { b3 with idx := b3.idx + numIn, outLen := b3.outLen + gs.length } := by
  unfold replaceGlyphs
  simp only [bind_assoc, bind_ite, pure_bind]
  repeat' (first | rfl | split)

theorem makeRoomFor_level {b : Buf} {numIn numOut : Nat} {r : Buf × Bool} (h : b.makeRoomFor numIn numOut = .ok r) :
    r.1.level = b.level := by
  unfold makeRoomFor at h
  have hl : (b.ensure (b.outLen + numOut)).1.level = b.level := by
    unfold ensure
    repeat' (first | rfl | split)
  generalize b.ensure (b.outLen + numOut) = e at h hl
  obtain ⟨b1, ok⟩ := e
  simp only at h hl
  split at h
  · cases h; exact hl
  · split at h
    · split at h
      · cases h
      · obtain ⟨o, _, h⟩ := bind_eq_ok h
        cases h; exact hl
    · cases h; exact hl

theorem replaceGlyphs_map {f : Nat → Nat} (hf : SMono f) (b : Buf) (numIn : Nat) (gs : List Nat) (hl : b.level ≠ 2)
    (hz : f 0 = 0 ∨ Cap b (b.outLen + gs.length)) :
    (mapCluster f b).replaceGlyphs numIn gs = mapCluster f <$> b.replaceGlyphs numIn gs := by
  rw [replaceGlyphs_nf, replaceGlyphs_nf, makeRoomFor_map b _ _ hz]
  cases hr : b.makeRoomFor numIn gs.length with
  | error err => rfl
  | ok r =>
    have hlv := makeRoomFor_level hr
    obtain ⟨b1, ok⟩ := r
    simp only [map_ok, okBind] at hlv ⊢
    have e7 : (mapCluster f b1).idx = b1.idx := rfl
    have e9 : (mapCluster f b1).len = b1.len := rfl
    rw [e7, e9]
    split
    · rfl
    · split
      · rfl
      · rw [mergeClusters_map hf b1 (fun h2 => absurd (hlv ▸ h2) hl)]
        refine bind_map_congr _ _ _ _ _ (fun b2 => ?_)
        have e6 : (mapCluster f b2).info = b2.info.map (mc f) := rfl
        have e8 : (mapCluster f b2).idx = b2.idx := rfl
        rw [e6, e8, get_map]
        refine bind_map_congr _ _ _ _ _ (fun orig => ?_)
        rw [replaceLoop_map]
        exact bind_map_congr _ _ _ _ _ (fun b3 => rfl)

theorem sync_nf (b : Buf) :
    b.sync =
      if (!b.haveOutput) = true then throw Panic.assert else
      if b.idx > b.len then throw Panic.assert else
      if (!b.successful) = true then pure ({ b with haveOutput := false, outLen := 0, idx := 0 }, false) else
      b.nextGlyphs (b.len - b.idx) >>= fun b1 =>
      pure ({ (if b1.sepOut = true then { b1 with info := b1.out, out := b1.info, sepOut := false } else b1) with
              len := (if b1.sepOut = true then { b1 with info := b1.out, out := b1.info, sepOut := false } else b1).outLen,
              haveOutput := false, outLen := 0, idx := 0 }, true) := by
  unfold sync
  simp only [bind_assoc, bind_ite, pure_bind]
  repeat' (first | rfl | split)

theorem sync_map {f : Nat → Nat} (b : Buf) (hz : f 0 = 0 ∨ Cap b (b.outLen + (b.len - b.idx))) :
    (mapCluster f b).sync = (fun r : Buf × Bool => (mapCluster f r.1, r.2)) <$> b.sync := by
  rw [sync_nf, sync_nf]
  have e1 : (mapCluster f b).haveOutput = b.haveOutput := rfl
  have e2 : (mapCluster f b).len = b.len := rfl
  have e3 : (mapCluster f b).successful = b.successful := rfl
  have e5 : (mapCluster f b).idx = b.idx := rfl
  rw [e1, e2, e3, e5]
  split
  · rfl
  · split
    · rfl
    · split
      · rfl
      · rw [nextGlyphs_map b _ hz]
        refine bind_map_congr _ _ _ _ _ (fun b1 => ?_)
        have e6 : (mapCluster f b1).sepOut = b1.sepOut := rfl
        rw [e6]
        cases b1.sepOut <;> rfl

theorem add_map {f : Nat → Nat} (b : Buf) (cp cluster : Nat) (hz : f 0 = 0 ∨ Cap b (b.len + 1)) :
    (mapCluster f b).add cp (f cluster) = mapCluster f <$> b.add cp cluster := by
  unfold add
  have e2 : (mapCluster f b).len = b.len := rfl
  rw [e2, ensure_map b _ hz]
  generalize b.ensure (b.len + 1) = r
  obtain ⟨b1, ok⟩ := r
  simp only
  split
  · rfl
  · have e6 : (mapCluster f b1).info = b1.info.map (mc f) := rfl
    have e9 : (mapCluster f b1).len = b1.len := rfl
    rw [e6, e9]
    have : ({ gid := cp, mask := 0, cluster := f cluster } : Info) = mc f { gid := cp, mask := 0, cluster := cluster } := rfl
    rw [this, put_map]
    exact bind_map_congr _ _ _ _ _ (fun info => rfl)


/-! ### delete_glyphs_inplace -/

/-- `{ b with info := i, out := o }` as a function -/
def withIO (b : Buf) (i o : List Info) : Buf := { b with info := i, out := o }

theorem delin_loop_nf (b : Buf) (i j fuel : Nat) :
    deleteGlyphsInplace.loop b i j (fuel + 1) =
      if i < b.len then
        get b.info i >>= fun x =>
        if (x.var2 == 1) = true then
          (if i + 1 < b.len then get b.info (i + 1) >>= fun n => pure (x.cluster == n.cluster) else pure false) >>= fun nextSame =>
          if nextSame = true then deleteGlyphsInplace.loop b (i + 1) j fuel
          else if (j != 0) = true then
            get b.info (j - 1) >>= fun p =>
            (if x.cluster < p.cluster then
                relabelOutBack b.info p.cluster x.cluster x.mask j >>= fun info => pure (withInfo b info)
              else pure b) >>= fun b2 => deleteGlyphsInplace.loop b2 (i + 1) j fuel
          else
            (if i + 1 < b.len then b.mergeClusters i (i + 2) else pure b) >>= fun b2 =>
              deleteGlyphsInplace.loop b2 (i + 1) j fuel
        else
          (if (j != i) = true then
              put b.info j x >>= fun info => get b.out i >>= fun p => put b.out j p >>= fun out =>
                pure (withIO b info out)
            else pure b) >>= fun b2 => deleteGlyphsInplace.loop b2 (i + 1) (j + 1) fuel
      else pure (b, j) := by
  simp only [deleteGlyphsInplace.loop, withInfo, withIO, bind_assoc, bind_ite, pure_bind]

theorem delin_loop_map {f : Nat → Nat} (hf : SMono f) : ∀ (fuel : Nat) (b : Buf) (i j : Nat), b.level ≠ 2 →
    deleteGlyphsInplace.loop (mapCluster f b) i j fuel =
      (fun r : Buf × Nat => (mapCluster f r.1, r.2)) <$> deleteGlyphsInplace.loop b i j fuel := by
  intro fuel
  induction fuel with
  | zero => intro b i j _; rfl
  | succ fuel ih =>
    intro b i j hl
    rw [delin_loop_nf, delin_loop_nf]
    have e1 : (mapCluster f b).len = b.len := rfl
    have e2 : (mapCluster f b).info = b.info.map (mc f) := rfl
    have e3 : (mapCluster f b).out = b.out.map (mc f) := rfl
    rw [e1, e2, e3]
    split
    · simp only [get_map]
      refine bind_map_congr _ _ _ _ _ (fun x => ?_)
      rw [mc_var2]
      split
      · have hn : (if i + 1 < b.len then (mc f <$> get b.info (i + 1)) >>= fun n => pure ((mc f x).cluster == n.cluster)
              else (pure false : M Bool)) =
            (if i + 1 < b.len then get b.info (i + 1) >>= fun n => pure (x.cluster == n.cluster) else pure false) := by
          split
          · cases get b.info (i + 1) with
            | error e => rfl
            | ok n => simp only [map_ok, okBind, mc_cluster, hf.beq]
          · rfl
        rw [hn]
        refine bind_congr' _ _ _ _ (fun nextSame => ?_)
        split
        · exact ih b (i + 1) j hl
        · split
          · refine bind_map_congr _ _ _ _ _ (fun p => ?_)
            simp only [mc_cluster, hf.lt_iff, mc_mask]
            have hmid : (if x.cluster < p.cluster then
                  relabelOutBack (b.info.map (mc f)) (f p.cluster) (f x.cluster) x.mask j >>= fun info =>
                    pure (withInfo (mapCluster f b) info) else pure (mapCluster f b)) =
                mapCluster f <$> (if x.cluster < p.cluster then
                  relabelOutBack b.info p.cluster x.cluster x.mask j >>= fun info => pure (withInfo b info) else pure b) := by
              split
              · rw [relabelOutBack_map hf]
                exact bind_map_congr _ _ _ _ _ (fun info => rfl)
              · rfl
            rw [hmid]
            cases hb2 : (if x.cluster < p.cluster then
                  relabelOutBack b.info p.cluster x.cluster x.mask j >>= fun info => pure (withInfo b info) else pure b) with
            | error err => rfl
            | ok b2 =>
              simp only [map_ok, okBind]
              apply ih
              split at hb2
              · obtain ⟨info, _, hb2⟩ := bind_eq_ok hb2
                cases hb2; exact hl
              · cases hb2; exact hl
          · have hmid : (if i + 1 < b.len then (mapCluster f b).mergeClusters i (i + 2) else pure (mapCluster f b)) =
                mapCluster f <$> (if i + 1 < b.len then b.mergeClusters i (i + 2) else pure b) := by
              split
              · exact mergeClusters_map hf b (fun h2 => absurd h2 hl) _ _
              · rfl
            rw [hmid]
            cases hb2 : (if i + 1 < b.len then b.mergeClusters i (i + 2) else pure b) with
            | error err => rfl
            | ok b2 =>
              simp only [map_ok, okBind]
              apply ih
              split at hb2
              · rw [mergeClusters_level hb2]; exact hl
              · cases hb2; exact hl
      · have hmid : (if (j != i) = true then
              put (b.info.map (mc f)) j (mc f x) >>= fun info => (mc f <$> get b.out i) >>= fun p =>
                put (b.out.map (mc f)) j p >>= fun out => pure (withIO (mapCluster f b) info out)
            else pure (mapCluster f b)) =
            mapCluster f <$> (if (j != i) = true then
              put b.info j x >>= fun info => get b.out i >>= fun p => put b.out j p >>= fun out =>
                pure (withIO b info out)
            else pure b) := by
          split
          · rw [put_map]
            refine bind_map_congr _ _ _ _ _ (fun info => ?_)
            refine bind_map_congr _ _ _ _ _ (fun p => ?_)
            rw [put_map]
            exact bind_map_congr _ _ _ _ _ (fun out => rfl)
          · rfl
        rw [hmid]
        cases hb2 : (if (j != i) = true then
              put b.info j x >>= fun info => get b.out i >>= fun p => put b.out j p >>= fun out =>
                pure (withIO b info out)
            else pure b) with
        | error err => rfl
        | ok b2 =>
          simp only [map_ok, okBind]
          apply ih
          split at hb2
          · obtain ⟨_, _, hb2⟩ := bind_eq_ok hb2
            obtain ⟨_, _, hb2⟩ := bind_eq_ok hb2
            obtain ⟨_, _, hb2⟩ := bind_eq_ok hb2
            cases hb2; exact hl
          · cases hb2; exact hl
    · rfl

theorem deleteGlyphsInplace_map {f : Nat → Nat} (hf : SMono f) (b : Buf) (hl : b.level ≠ 2) :
    (mapCluster f b).deleteGlyphsInplace = mapCluster f <$> b.deleteGlyphsInplace := by
  unfold deleteGlyphsInplace
  have e1 : (mapCluster f b).len = b.len := rfl
  rw [e1, delin_loop_map hf _ b 0 0 hl]
  exact bind_map_congr _ _ _ _ _ (fun r => rfl)


end RbModel.Buf
