/-
  Alternate substitution: the specification side, the equality of the two `trailing_zeros` loops, and the projection lemma.
-/
import RbModel.Lemmas.GsubPosSpec

namespace RbModel.Spec.Subst
open RbModel RbModel.Gsub

/-- the two trailing-zero loops (interpreter: counts down from 32; specification: counts up) agree on non-zero 32-bit masks -/
theorem tz_rel : ∀ (k m : Nat), k ≤ 32 → m ≠ 0 → m < 2 ^ k →
    applySubtable.tz m k = 32 - k + altValue.tz m k ∧ altValue.tz m k < k := by
  intro k
  induction k with
  | zero => intro m _ hm hlt; simp at hlt; omega
  | succ k ih =>
    intro m hk hm hlt
    by_cases hodd : (m % 2 == 1) = true
    · simp only [applySubtable.tz, altValue.tz, hodd, if_true]; omega
    · have hpow : 2 ^ (k + 1) = 2 * 2 ^ k := by rw [Nat.pow_succ]; omega
      have heven : m % 2 = 0 := by
        have : m % 2 ≠ 1 := by simpa using hodd
        omega
      have h2 : m / 2 ≠ 0 := by omega
      have h3 : m / 2 < 2 ^ k := by omega
      obtain ⟨e1, e2⟩ := ih (m / 2) (by omega) h2 h3
      simp only [applySubtable.tz, altValue.tz, hodd, Bool.false_eq_true, if_false]
      omega

theorem altValue_eq_altOfM (lm mask : Nat) (hlm : lm < 2 ^ 32) : altValue lm mask = altOfM lm mask := by
  unfold altValue altOfM
  by_cases h0 : lm = 0
  · subst h0; simp
  · obtain ⟨e1, e2⟩ := tz_rel 32 lm (Nat.le_refl _) h0 hlm
    have : applySubtable.tz lm 32 % 32 = altValue.tz lm 32 := by omega
    rw [this]

/-- the alternate the specification picks, as a function of the spec glyph -/
def altSubstG? (lm : Nat) (sts : List Subtable) (g : G) : Option Nat := altSubstGM lm sts g.gid g.mask

/-- every alternate set is as short as a font can make it (the count is a 16-bit field) -/
def AltSetsShort (sts : List Subtable) : Prop :=
  ∀ st ∈ sts, ∀ cov alts, st = .alternate cov alts → ∀ set ∈ alts, set.length ≤ 65535

theorem firstSubtable_alternate (f : Font) (level props lm : Nat) (hlm : lm < 2 ^ 32) (gs : List G) (i : Nat) (g : G)
    (hg : gs[i]? = some g) (hgid : g.gid < 65536) :
    ∀ sts : List Subtable, sts.all Subtable.isAlternate = true → AltSetsShort sts →
      firstSubtable f level props lm gs i sts = (altSubstG? lm sts g).map fun s => (gs.set i { g with gid := s }, i + 1) := by
  have hi : i < gs.length := by
    by_cases h : i < gs.length
    · exact h
    · rw [List.getElem?_eq_none (by omega)] at hg; cases hg
  have hval : altValue lm g.mask = altOfM lm g.mask := altValue_eq_altOfM lm g.mask hlm
  intro sts
  induction sts with
  | nil => intro _ _; rfl
  | cons st rest ih =>
    intro hall hshort
    simp only [List.all_cons, Bool.and_eq_true] at hall
    have hshort' : AltSetsShort rest := fun st' hm => hshort st' (List.mem_cons_of_mem _ hm)
    have ihr : firstSubtable f level props lm gs i rest
        = (altSubstGM lm rest g.gid g.mask).map fun s => (gs.set i { g with gid := s }, i + 1) := ih hall.2 hshort'
    cases st with
    | alternate cov alts =>
      unfold firstSubtable applySubtableAt altSubstG?
      simp only [hg, applySimple, altSubstGM, Nat.mod_eq_of_lt hgid, hval]
      cases hc : cov.index g.gid with
      | none => simp only [bind, Option.bind]; exact ihr
      | some k =>
        cases hs : alts[k]? with
        | none => simp only [bind, Option.bind, hs]; exact ihr
        | some set =>
          have hlen : set.length ≤ 65535 :=
            hshort _ (List.mem_cons_self) cov alts rfl set (List.mem_of_getElem? hs)
          simp only [bind, Option.bind, hs]
          generalize altOfM lm g.mask = a
          by_cases hz : a = 0
          · subst hz
            simp only [beq_self_eq_true, if_true, Bool.or_true]
            by_cases he : set.isEmpty = true
            · simp only [he, if_true]; exact ihr
            · simp only [he, Bool.false_eq_true, if_false]; exact ihr
          · have hz' : (a == 0) = false := by simpa using hz
            simp only [hz', Bool.false_eq_true, if_false, Bool.or_false]
            by_cases he : set.isEmpty = true
            · have hnil : set = [] := by simpa using he
              subst hnil
              simp only [List.getElem?_nil, List.isEmpty_nil, if_true]
              exact ihr
            · simp only [he, Bool.false_eq_true, if_false]
              by_cases hbig : a ≥ 65536
              · have h2 : set[a - 1]? = none := List.getElem?_eq_none (by omega)
                simp only [hbig, decide_true, if_true, h2]; exact ihr
              · simp only [hbig, decide_false, Bool.false_eq_true, if_false]
                cases hx : set[a - 1]? with
                | none => simp only; exact ihr
                | some s => simp only [pure, Option.map_some, replaceAt_one _ _ _ hi]
    | _ => simp [Subtable.isAlternate] at hall

end RbModel.Spec.Subst
