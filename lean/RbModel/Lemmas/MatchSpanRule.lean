/-
  "The flagged span covers what was inspected" — part 2: the rules.

  `chainMatchI` / `revMatchI` are the matching phases of `apply_chain_context` and of ReverseChainSingleSubst::apply with the
  reads; `applyContextRule_eq`, `applyChainRule_eq`, `ligatureRule_eq`, `reverseRule_eq` rewrite the model's rules
  (Gsub.lean) as "instrumented matching phase, then the flag call on the span the matching phase reports, then the action" —
  equations, so again nothing new is trusted.  The `*_span` theorems say where the reads lie relative to that span.
-/
import RbModel.Lemmas.MatchSpan

namespace RbModel.Gsub
open RbModel RbModel.Buf RbModel.Mem

/-- how the matching phase of a chain rule ended -/
inductive Verdict where
  | inputFail | aheadFail | backFail | matched
  deriving DecidableEq, Repr

/-- the matching phase of a chain rule: verdict, the span handed to the flag call (`startIndex` is used by the two
    `_from_outbuffer` calls only), everything read -/
structure ChainM where
  R : MatchInI
  verdict : Verdict
  startIndex : Nat
  endIndex : Nat
  reads : List Rd

/-- src: apply_chain_context up to the flag call, with the reads -/
def chainMatchI (c : Ctx) (nBack nIn nAhead : Nat) (fBack fIn fAhead : Nat → Nat → Bool) : M ChainM := do
  let R ← matchInputI c nIn fIn [0, 0, 0, 0]
  if !R.r.ok then return ⟨R, .inputFail, 0, max R.r.endPos c.buf.idx, R.reads⟩
  let ((okA, e), rsA) ← matchLookaheadI c nAhead fAhead R.r.endPos
  if !okA then return ⟨R, .aheadFail, 0, e, R.reads ++ rsA.map .inp⟩
  let ((okB, st), rsB) ← matchBacktrackI c nBack fBack
  if !okB then return ⟨R, .backFail, st, e, R.reads ++ rsA.map .inp ++ rsB.map .out⟩
  return ⟨R, .matched, st, e, R.reads ++ rsA.map .inp ++ rsB.map .out⟩

/-- the flag call and the action of a chain rule after its matching phase -/
def chainFinish (recurse : Ctx → Nat → M (Ctx × Bool)) (c : Ctx) (nIn : Nat) (lookups : List Rec) (m : ChainM) :
    M (Ctx × Bool) :=
  match m.verdict with
  | .inputFail | .aheadFail => do
      let b ← c.buf.unsafeToConcat c.buf.idx (some m.endIndex)
      pure ({ c with buf := b }, false)
  | .backFail => do
      let b ← c.buf.unsafeToConcatFromOut m.startIndex (some m.endIndex)
      pure ({ c with buf := b }, false)
  | .matched => do
      let b ← c.buf.unsafeToBreakFromOut m.startIndex (some m.endIndex)
      let c ← applyLookup recurse { c with buf := b } nIn m.R.r.positions m.R.r.endPos lookups
      pure (c, true)

theorem erase_ok {α β} {f : α → β} {x : M α} {y : M β} (h : x.map f = y) :
    (∀ e, x = .error e → y = .error e) ∧ (∀ a, x = .ok a → y = .ok (f a)) := by
  subst h
  constructor
  · intro e he; rw [he]; rfl
  · intro a ha; rw [ha]; rfl

/-- **apply_chain_context = matching phase with reads, then flag call and action** -/
theorem applyChainRule_eq (recurse : Ctx → Nat → M (Ctx × Bool)) (c : Ctx) (nBack nIn nAhead : Nat)
    (fBack fIn fAhead : Nat → Nat → Bool) (lookups : List Rec) :
    applyChainRule recurse c nBack nIn nAhead fBack fIn fAhead lookups =
      chainMatchI c nBack nIn nAhead fBack fIn fAhead >>= chainFinish recurse c nIn lookups := by
  unfold applyChainRule chainMatchI
  obtain ⟨e1, e2⟩ := erase_ok (matchInputI_erase c nIn fIn [0, 0, 0, 0])
  cases hR : matchInputI c nIn fIn [0, 0, 0, 0] with
  | error e => rw [e1 e hR]; rfl
  | ok R =>
    rw [e2 R hR]
    simp only [bind, Except.bind]
    cases hok : R.r.ok with
    | false => rfl
    | true =>
      simp only [if_true, Bool.not_true, Bool.false_eq_true, if_false]
      obtain ⟨a1, a2⟩ := erase_ok (matchLookaheadI_erase c nAhead fAhead R.r.endPos)
      cases hA : matchLookaheadI c nAhead fAhead R.r.endPos with
      | error e => rw [a1 e hA]
      | ok v =>
        obtain ⟨⟨okA, e⟩, rsA⟩ := v
        rw [a2 _ hA]
        cases okA with
        | false => rfl
        | true =>
          simp only [Bool.and_self, Bool.not_true, Bool.false_eq_true, if_false]
          obtain ⟨b1, b2⟩ := erase_ok (matchBacktrackI_erase c nBack fBack)
          cases hB : matchBacktrackI c nBack fBack with
          | error e => rw [b1 e hB]
          | ok w =>
            obtain ⟨⟨okB, st⟩, rsB⟩ := w
            rw [b2 _ hB]
            cases okB <;> rfl

/-- the flag call and the action of a context rule after match_input -/
def contextFinish (recurse : Ctx → Nat → M (Ctx × Bool)) (c : Ctx) (nIn : Nat) (lookups : List Rec) (R : MatchInI) :
    M (Ctx × Bool) :=
  if R.r.ok then do
    let b ← c.buf.unsafeToBreak c.buf.idx (some R.r.endPos)
    let c ← applyLookup recurse { c with buf := b } nIn R.r.positions R.r.endPos lookups
    pure (c, true)
  else do
    let b ← c.buf.unsafeToConcat c.buf.idx (some R.r.endPos)
    pure ({ c with buf := b }, false)

/-- **apply_context = match_input with reads, then flag call and action** -/
theorem applyContextRule_eq (recurse : Ctx → Nat → M (Ctx × Bool)) (c : Ctx) (input : List Nat)
    (matchFn : Nat → Nat → Bool) (lookups : List Rec) :
    applyContextRule recurse c input matchFn lookups =
      matchInputI c input.length (fun g i => matchFn g (input.getD i 0)) [0, 0, 0, 0] >>=
        contextFinish recurse c input.length lookups := by
  unfold applyContextRule
  obtain ⟨e1, e2⟩ := erase_ok (matchInputI_erase c input.length (fun g i => matchFn g (input.getD i 0)) [0, 0, 0, 0])
  cases hR : matchInputI c input.length (fun g i => matchFn g (input.getD i 0)) [0, 0, 0, 0] with
  | error e => rw [e1 e hR]; rfl
  | ok R =>
    rw [e2 R hR]
    simp only [bind, Except.bind, contextFinish]

/-- **Context format 3 (inline in `applySubtable`) = coverage test, match_input with reads, then the same flag call and action** -/
theorem context3_eq (recurse : Ctx → Nat → M (Ctx × Bool)) (nf : Bool) (c : Ctx) (cov : Cov) (restCovs : List Cov)
    (lookups : List Rec) :
    applySubtable recurse nf c (.context3 (cov :: restCovs) lookups) = (do
      let cur ← get c.buf.info c.buf.idx
      match cov.index (cur.gid % 65536) with
      | none => pure (c, false)
      | some _ =>
        matchInputI c restCovs.length (fun g i => nthCov restCovs i g) [0, 0, 0, 0] >>=
          contextFinish recurse c restCovs.length lookups) := by
  unfold applySubtable
  cases get c.buf.info c.buf.idx with
  | error e => rfl
  | ok cur =>
    simp only [bind, Except.bind]
    cases cov.index (cur.gid % 65536) with
    | none => rfl
    | some i =>
      simp only []
      obtain ⟨e1, e2⟩ := erase_ok (matchInputI_erase c restCovs.length (fun g i => nthCov restCovs i g) [0, 0, 0, 0])
      cases hR : matchInputI c restCovs.length (fun g i => nthCov restCovs i g) [0, 0, 0, 0] with
      | error e => rw [e1 e hR]
      | ok R =>
        rw [e2 R hR]
        simp only [contextFinish]
        cases hok : R.r.ok <;> rfl

/-- one ligature of a LigatureSet (the closure `firstRule` runs in `applySubtable (.ligature ..)`) -/
def ligatureRule (c : Ctx) (cl : List Nat × Nat) : M (Ctx × Bool) := do
  if cl.1.isEmpty then
    let c ← ctxReplaceGlyph c cl.2
    pure (c, true)
  else
    let r ← matchInput c cl.1.length (fun g i => g == cl.1.getD i 0) [0, 0, 0, 0]
    if !r.ok then
      let b ← c.buf.unsafeToConcat c.buf.idx (some r.endPos)
      pure ({ c with buf := b }, false)
    else
      let c ← ligateInput c (cl.1.length + 1) r.positions r.endPos r.totalComps cl.2
      pure (c, true)

/-- the ligature subtable is `firstRule` over `ligatureRule` -/
theorem applySubtable_ligature (recurse : Ctx → Nat → M (Ctx × Bool)) (nf : Bool) (c : Ctx) (cov : Cov)
    (sets : List (List (List Nat × Nat))) :
    applySubtable recurse nf c (.ligature cov sets) = (do
      let cur ← get c.buf.info c.buf.idx
      match cov.index (cur.gid % 65536) with
      | none => pure (c, false)
      | some i => match sets[i]? with
        | none => pure (c, false)
        | some ligs => firstRule ligs c ligatureRule) := by
  rfl

/-- the flag call / the action of one ligature after match_input -/
def ligatureFinish (c : Ctx) (cl : List Nat × Nat) (R : MatchInI) : M (Ctx × Bool) :=
  if !R.r.ok then do
    let b ← c.buf.unsafeToConcat c.buf.idx (some R.r.endPos)
    pure ({ c with buf := b }, false)
  else do
    let c ← ligateInput c (cl.1.length + 1) R.r.positions R.r.endPos R.r.totalComps cl.2
    pure (c, true)

/-- **Ligature::apply (with components) = match_input with reads, then `unsafe_to_concat` or `ligate_input`** -/
theorem ligatureRule_eq (c : Ctx) (cl : List Nat × Nat) (hne : cl.1.isEmpty = false) :
    ligatureRule c cl =
      matchInputI c cl.1.length (fun g i => g == cl.1.getD i 0) [0, 0, 0, 0] >>= ligatureFinish c cl := by
  unfold ligatureRule
  simp only [hne, Bool.false_eq_true, if_false]
  obtain ⟨e1, e2⟩ := erase_ok (matchInputI_erase c cl.1.length (fun g i => g == cl.1.getD i 0) [0, 0, 0, 0])
  cases hR : matchInputI c cl.1.length (fun g i => g == cl.1.getD i 0) [0, 0, 0, 0] with
  | error e => rw [e1 e hR]; rfl
  | ok R =>
    rw [e2 R hR]
    simp only [bind, Except.bind, ligatureFinish]

/-- the matching phase of ReverseChainSingleSubst::apply (after the coverage test): (ok, start, end, reads);
    the current glyph was read by the coverage test -/
def revMatchI (c : Ctx) (back ahead : List Cov) : M (Bool × Nat × Nat × List Rd) := do
  let ((okB, st), rsB) ← matchBacktrackI c back.length (fun g i => nthCov back i g)
  if !okB then return (false, st, c.buf.idx + 1, .inp c.buf.idx :: rsB.map .out)
  let ((okA, e), rsA) ← matchLookaheadI c ahead.length (fun g i => nthCov ahead i g) (c.buf.idx + 1)
  return (okA, st, e, .inp c.buf.idx :: rsB.map .out ++ rsA.map .inp)

/-- the flag call / the action of the reverse-chaining subtable after its matching phase -/
def revFinish (c : Ctx) (s : Nat) (m : Bool × Nat × Nat × List Rd) : M (Ctx × Bool) :=
  if m.1 then do
    let b ← c.buf.unsafeToBreakFromOut m.2.1 (some m.2.2.1)
    let c ← setGlyphClass { c with buf := b } s 0 false false
    let cur ← get c.buf.info c.buf.idx
    let info ← put c.buf.info c.buf.idx { cur with gid := s }
    pure ({ c with buf := { c.buf with info := info } }, true)
  else do
    let b ← c.buf.unsafeToConcatFromOut m.2.1 (some m.2.2.1)
    pure ({ c with buf := b }, false)

/-- **ReverseChainSingleSubst::apply = coverage test, matching phase with reads, flag call and action** -/
theorem reverseRule_eq (recurse : Ctx → Nat → M (Ctx × Bool)) (c : Ctx) (cov : Cov) (back ahead : List Cov)
    (subst : List Nat) :
    applySubtable recurse true c (.reverse cov back ahead subst) = (do
      let cur ← get c.buf.info c.buf.idx
      match cov.index (cur.gid % 65536) with
      | none => pure (c, false)
      | some i =>
        if i ≥ subst.length then pure (c, false)
        else revMatchI c back ahead >>= revFinish c (subst.getD i 0)) := by
  unfold applySubtable
  cases get c.buf.info c.buf.idx with
  | error e => rfl
  | ok cur =>
    simp only [bind, Except.bind]
    cases cov.index (cur.gid % 65536) with
    | none => rfl
    | some i =>
      simp only []
      by_cases hi : i ≥ subst.length
      · simp only [hi, if_true]
      · simp only [hi, if_false, Bool.not_true, Bool.false_eq_true, revMatchI, bind, Except.bind]
        obtain ⟨b1, b2⟩ := erase_ok (matchBacktrackI_erase c back.length (fun g i => nthCov back i g))
        cases hB : matchBacktrackI c back.length (fun g i => nthCov back i g) with
        | error e => rw [b1 e hB]
        | ok w =>
          obtain ⟨⟨okB, st⟩, rsB⟩ := w
          rw [b2 _ hB]
          cases okB with
          | false => rfl
          | true =>
            simp only [if_true, Bool.not_true, Bool.false_eq_true, if_false]
            obtain ⟨a1, a2⟩ := erase_ok (matchLookaheadI_erase c ahead.length (fun g i => nthCov ahead i g) (c.buf.idx + 1))
            cases hA : matchLookaheadI c ahead.length (fun g i => nthCov ahead i g) (c.buf.idx + 1) with
            | error e => rw [a1 e hA]
            | ok v =>
              obtain ⟨⟨okA, e⟩, rsA⟩ := v
              rw [a2 _ hA]
              cases okA <;> rfl

/-! ### where the reads of the rules lie -/

/-- src: buffer.rs::backtrack_len -/
def backtrackLen (b : Buf) : Nat := if b.haveOutput then b.outLen else b.idx

/-- what a read of a chain rule's matching phase may be -/
def ChainCovered (c : Ctx) (m : ChainM) (x : Rd) : Prop :=
  (∃ i, x = .inp i ∧ c.buf.idx ≤ i ∧ i < c.buf.len ∧ i < m.endIndex) ∨
  (∃ j, x = .out j ∧ (m.verdict = .backFail ∨ m.verdict = .matched) ∧ m.startIndex ≤ j ∧ j < backtrackLen c.buf) ∨
  (∃ j, x = .lig j ∧ j < c.buf.outLen)

theorem chainMatchI_span (c : Ctx) (nBack nIn nAhead : Nat) (fBack fIn fAhead : Nat → Nat → Bool) (m : ChainM)
    (h : chainMatchI c nBack nIn nAhead fBack fIn fAhead = .ok m) (hidx : c.buf.idx < c.buf.len) :
    matchInputI c nIn fIn [0, 0, 0, 0] = .ok m.R ∧
    (m.verdict = .inputFail ↔ m.R.r.ok = false) ∧
    c.buf.idx ≤ m.endIndex ∧ m.endIndex ≤ c.buf.len ∧
    (m.verdict ≠ .inputFail → c.buf.idx < m.endIndex) ∧
    (m.verdict = .backFail ∨ m.verdict = .matched → m.startIndex ≤ backtrackLen c.buf) ∧
    (∀ x ∈ m.reads, ChainCovered c m x) := by
  unfold chainMatchI at h
  cases hR : matchInputI c nIn fIn [0, 0, 0, 0] with
  | error e => simp [hR, bind, Except.bind] at h
  | ok R =>
    obtain ⟨r1, r2, r4, r5⟩ := matchInputI_span c nIn fIn _ R hR hidx
    simp only [hR, bind, Except.bind] at h
    cases hok : R.r.ok with
    | false =>
      simp only [hok, Bool.not_false, if_true, pure, Except.pure, Except.ok.injEq] at h
      subst h
      have hnm : R.why ≠ .matched := fun hw => by rw [r1.mpr hw] at hok; cases hok
      refine ⟨rfl, by simp [hok], Nat.le_max_right _ _, ?_, by simp, by simp, ?_⟩
      · simp only
        cases hw : R.why with
        | matched => exact absurd hw hnm
        | tooLong => rw [(r2 hw).2]; simp; omega
        | ligComp => have := (r4 (by simp [hw])).2; exact Nat.max_le.mpr ⟨this, by omega⟩
        | iter => have := (r4 (by simp [hw])).2; exact Nat.max_le.mpr ⟨this, by omega⟩
      · intro x hx
        rcases r5 x hx with ⟨i, a1, a2, a3, a4⟩ | hj
        · exact Or.inl ⟨i, a1, a2, a3, Nat.lt_of_lt_of_le a4 (Nat.le_max_left _ _)⟩
        · exact Or.inr (Or.inr hj)
    | true =>
      have hwm : R.why = .matched := r1.mp hok
      obtain ⟨q1, q2⟩ := r4 (by simp [hwm])
      simp only [hok, Bool.not_true, Bool.false_eq_true, if_false] at h
      cases hA : matchLookaheadI c nAhead fAhead R.r.endPos with
      | error e => simp [hA] at h
      | ok v =>
        obtain ⟨⟨okA, e⟩, rsA⟩ := v
        obtain ⟨l1, l2, l3⟩ := matchLookaheadI_span c nAhead fAhead _ okA e rsA hA q2
        have hin : ∀ x ∈ R.reads ++ rsA.map Rd.inp,
            (∃ i, x = .inp i ∧ c.buf.idx ≤ i ∧ i < c.buf.len ∧ i < e) ∨ (∃ j, x = .lig j ∧ j < c.buf.outLen) := by
          intro x hx
          rcases List.mem_append.mp hx with hx | hx
          · rcases r5 x hx with ⟨i, a1, a2, a3, a4⟩ | hj
            · exact Or.inl ⟨i, a1, a2, a3, by omega⟩
            · exact Or.inr hj
          · obtain ⟨i, hi, rfl⟩ := List.mem_map.mp hx
            have := l3 i hi
            exact Or.inl ⟨i, rfl, by omega, by omega, this.2⟩
        simp only [hA] at h
        cases okA with
        | false =>
          simp only [Bool.not_false, if_true, pure, Except.pure, Except.ok.injEq] at h
          subst h
          refine ⟨rfl, by simp [hok], by simp only; omega, l2, fun _ => by simp only; omega, by simp, ?_⟩
          intro x hx
          rcases hin x hx with ⟨i, a1, a2, a3, a4⟩ | hj
          · exact Or.inl ⟨i, a1, a2, a3, a4⟩
          · exact Or.inr (Or.inr hj)
        | true =>
          simp only [Bool.not_true, Bool.false_eq_true, if_false] at h
          cases hB : matchBacktrackI c nBack fBack with
          | error e => simp [hB] at h
          | ok w =>
            obtain ⟨⟨okB, st⟩, rsB⟩ := w
            obtain ⟨k1, k2⟩ := matchBacktrackI_span c nBack fBack okB st rsB hB
            simp only [hB] at h
            have fin : ∀ m' : ChainM, m'.R = R → (m'.verdict = .backFail ∨ m'.verdict = .matched) →
                m'.startIndex = st → m'.endIndex = e → m'.reads = R.reads ++ rsA.map .inp ++ rsB.map .out →
                (Except.ok R : M MatchInI) = .ok m'.R ∧
                (m'.verdict = .inputFail ↔ m'.R.r.ok = false) ∧
                c.buf.idx ≤ m'.endIndex ∧ m'.endIndex ≤ c.buf.len ∧
                (m'.verdict ≠ .inputFail → c.buf.idx < m'.endIndex) ∧
                (m'.verdict = .backFail ∨ m'.verdict = .matched → m'.startIndex ≤ backtrackLen c.buf) ∧
                (∀ x ∈ m'.reads, ChainCovered c m' x) := by
              intro m' e1 e2 e3 e4 e5
              have hv : m'.verdict ≠ .inputFail := by rcases e2 with e2 | e2 <;> simp [e2]
              refine ⟨by rw [e1], by rw [e1, hok]; simp [hv], by rw [e4]; omega, by rw [e4]; exact l2,
                fun _ => by rw [e4]; omega, fun _ => by rw [e3]; exact k1, ?_⟩
              intro x hx
              rw [e5] at hx
              unfold ChainCovered
              rw [e3, e4]
              rcases List.mem_append.mp hx with hx | hx
              · rcases hin x hx with ⟨i, a1, a2, a3, a4⟩ | hj
                · exact Or.inl ⟨i, a1, a2, a3, a4⟩
                · exact Or.inr (Or.inr hj)
              · obtain ⟨j, hj, rfl⟩ := List.mem_map.mp hx
                exact Or.inr (Or.inl ⟨j, rfl, e2, k2 j hj⟩)
            cases okB with
            | false =>
              simp only [Bool.not_false, if_true, pure, Except.pure, Except.ok.injEq] at h
              subst h
              exact fin ⟨R, .backFail, st, e, _⟩ rfl (Or.inl rfl) rfl rfl rfl
            | true =>
              simp only [Bool.not_true, Bool.false_eq_true, if_false, pure, Except.pure, Except.ok.injEq] at h
              subst h
              exact fin ⟨R, .matched, st, e, _⟩ rfl (Or.inr rfl) rfl rfl rfl

/-- **the reads of the reverse-chaining subtable's matching phase lie in `out[start, backtrack_len) ++ info[idx, end)`** -/
theorem revMatchI_span (c : Ctx) (back ahead : List Cov) (ok : Bool) (st e : Nat) (rs : List Rd)
    (h : revMatchI c back ahead = .ok (ok, st, e, rs)) (hidx : c.buf.idx < c.buf.len) :
    st ≤ backtrackLen c.buf ∧ c.buf.idx < e ∧ e ≤ c.buf.len ∧
    ∀ x ∈ rs, (∃ i, x = .inp i ∧ c.buf.idx ≤ i ∧ i < e) ∨ (∃ j, x = .out j ∧ st ≤ j ∧ j < backtrackLen c.buf) := by
  unfold revMatchI at h
  cases hB : matchBacktrackI c back.length (fun g i => nthCov back i g) with
  | error e => simp [hB, bind, Except.bind] at h
  | ok w =>
    obtain ⟨⟨okB, st'⟩, rsB⟩ := w
    obtain ⟨k1, k2⟩ := matchBacktrackI_span c _ _ okB st' rsB hB
    simp only [hB, bind, Except.bind] at h
    have hout : ∀ x ∈ rsB.map Rd.out, ∃ j, x = .out j ∧ st' ≤ j ∧ j < backtrackLen c.buf := by
      intro x hx
      obtain ⟨j, hj, rfl⟩ := List.mem_map.mp hx
      exact ⟨j, rfl, k2 j hj⟩
    cases okB with
    | false =>
      simp only [Bool.not_false, if_true, pure, Except.pure, Except.ok.injEq, Prod.mk.injEq] at h
      obtain ⟨_, h2, h3, h4⟩ := h
      subst h2 h3 h4
      refine ⟨k1, by omega, by omega, ?_⟩
      intro x hx
      rcases List.mem_cons.mp hx with hx | hx
      · exact Or.inl ⟨_, hx, Nat.le_refl _, by omega⟩
      · exact Or.inr (hout x hx)
    | true =>
      simp only [Bool.not_true, Bool.false_eq_true, if_false] at h
      cases hA : matchLookaheadI c ahead.length (fun g i => nthCov ahead i g) (c.buf.idx + 1) with
      | error e => simp [hA] at h
      | ok v =>
        obtain ⟨⟨okA, e'⟩, rsA⟩ := v
        obtain ⟨l1, l2, l3⟩ := matchLookaheadI_span c _ _ _ okA e' rsA hA (by omega)
        simp only [hA, pure, Except.pure, Except.ok.injEq, Prod.mk.injEq] at h
        obtain ⟨_, h2, h3, h4⟩ := h
        subst h2 h3 h4
        refine ⟨k1, by omega, l2, ?_⟩
        intro x hx
        rcases List.mem_append.mp hx with hx | hx
        · rcases List.mem_cons.mp hx with hx | hx
          · exact Or.inl ⟨_, hx, Nat.le_refl _, by omega⟩
          · exact Or.inr (hout x hx)
        · obtain ⟨i, hi, rfl⟩ := List.mem_map.mp hx
          have := l3 i hi
          exact Or.inl ⟨i, rfl, by omega, this.2⟩
end RbModel.Gsub
