/-
  Generic form of GsubSingle: a lookup whose subtables all act as "replace the current glyph by `sub cur`" (one for one,
  in place).  Instances: single substitution (sub depends on the glyph id), alternate substitution (on the glyph id and
  the feature value carried by the glyph's mask).
-/
import RbModel.Lemmas.GsubSingle

namespace RbModel.Gsub
open RbModel RbModel.Buf RbModel.Mem

/-- what a one-for-one lookup does to one glyph -/
def posInfo (f : Font) (lookupMask props : Nat) (sub : Info → Option Nat) (x : Info) : Info :=
  if x.mask &&& lookupMask != 0 && checkGlyphProperty f x props then
    match sub x with
    | some s => { setGlyphProps x (substProps f x s) with gid := s }
    | none => x
  else x

/-- the hypothesis: on every context with the given lookup mask and `random = false`, applying the subtables at the
    current glyph is "replace by `sub cur` or decline" -/
def ActsAs (l : Lookup) (lm : Nat) (sub : Info → Option Nat) : Prop :=
  ∀ (c : Ctx) (cur : Info), c.lookupMask = lm → c.random = false → c.buf.info[c.buf.idx]? = some cur →
    applySubtables (recurseAt MAX_NESTING_LEVEL) true c l.subtables =
      match sub cur with
      | some s => (ctxReplaceGlyph c s).map (fun c' => (c', true))
      | none => .ok (c, false)

/-- The forward scan of a one-for-one lookup, from position `k` on: every remaining glyph is replaced by
    `substInfo` of itself, nothing else changes, and the buffer stays in the in-place (non-separate) mode. -/
theorem applyForward_pos (l : Lookup) (lm : Nat) (sub : Info → Option Nat) (hact : ActsAs l lm sub) :
    ∀ (fuel : Nat) (c : Ctx) (k : Nat), c.lookupMask = lm → c.random = false →
      c.buf.haveOutput = true → c.buf.sepOut = false → c.buf.successful = true →
      c.buf.outLen = k → c.buf.idx = k → k ≤ c.buf.len → c.buf.len ≤ c.buf.info.length →
      c.lookupProps = l.props → c.buf.len - k ≤ fuel →
      ∃ I, applyForward l fuel c = .ok { c with buf := { c.buf with info := I, idx := c.buf.len, outLen := c.buf.len } } ∧
        I.length = c.buf.info.length ∧
        ∀ q, I[q]? = if k ≤ q ∧ q < c.buf.len
                     then (c.buf.info[q]?).map (posInfo c.font c.lookupMask l.props sub)
                     else c.buf.info[q]? := by
  intro fuel
  induction fuel with
  | zero =>
    intro c k hlm hrnd hh hs hsu ho hi hk hlen hp hf
    have hkl : k = c.buf.len := by omega
    refine ⟨c.buf.info, ?_, rfl, ?_⟩
    · simp only [applyForward, pure, Except.pure]
      have : c.buf = { c.buf with info := c.buf.info, idx := c.buf.len, outLen := c.buf.len } := by
        rw [← hkl]; cases hb : c.buf; simp_all
      rw [← this]
    · intro q
      have : ¬ (k ≤ q ∧ q < c.buf.len) := by omega
      simp only [this, if_false]
  | succ fuel ih =>
    intro c k hlm hrnd hh hs hsu ho hi hk hlen hp hf
    by_cases hend : k = c.buf.len
    · refine ⟨c.buf.info, ?_, rfl, ?_⟩
      · have hc : ¬ (c.buf.idx < c.buf.len) := by omega
        have hb : c.buf = { c.buf with info := c.buf.info, idx := c.buf.len, outLen := c.buf.len } := by
          rw [← hend]; cases hb : c.buf; simp_all
        rw [← hb]
        simp [applyForward, hc]
        rfl
      · intro q
        have : ¬ (k ≤ q ∧ q < c.buf.len) := by omega
        simp only [this, if_false]
    · have hklt : k < c.buf.len := by omega
      have hkinfo : k < c.buf.info.length := by omega
      have hcur : c.buf.info[c.buf.idx]? = some c.buf.info[k] := by rw [hi]; exact List.getElem?_eq_getElem hkinfo
      have hget : Mem.get c.buf.info c.buf.idx = .ok c.buf.info[k] := by unfold Mem.get; rw [hcur]; rfl
      have hcond : (c.buf.idx < c.buf.len ∧ c.buf.successful = true) := ⟨by omega, hsu⟩
      -- one step: the buffer after it
      have hstep : ∃ I1, (∀ (rest : Ctx → M Ctx),
            (do
              let cur ← Mem.get c.buf.info c.buf.idx
              if cur.mask &&& c.lookupMask != 0 && checkGlyphProperty c.font cur c.lookupProps then
                let (c1, ok) ← applyTop c l
                if ok then rest c1
                else do let b ← c1.buf.nextGlyph; rest { c1 with buf := b }
              else do let b ← c.buf.nextGlyph; rest { c with buf := b }) =
            rest { c with buf := { c.buf with info := I1, idx := k + 1, outLen := k + 1 } }) ∧
          I1.length = c.buf.info.length ∧
          ∀ q, I1[q]? = if q = k then some (posInfo c.font c.lookupMask l.props sub c.buf.info[k])
                        else c.buf.info[q]? := by
        by_cases hen : (c.buf.info[k].mask &&& c.lookupMask != 0 && checkGlyphProperty c.font c.buf.info[k] c.lookupProps) = true
        · -- enabled
          have happ := hact c _ hlm hrnd hcur
          cases hss : sub c.buf.info[k] with
          | some s =>
            rw [hss] at happ
            have hrep := ctxReplaceGlyph_inplace c s _ hs (by omega) hcur
            refine ⟨c.buf.info.set c.buf.idx { setGlyphProps c.buf.info[k] (substProps c.font c.buf.info[k] s) with gid := s },
              ?_, by simp, ?_⟩
            · intro rest
              simp only [bind, Except.bind, hget, hen, if_true, applyTop, happ, hrep, Except.map]
              simp only [ho, hi]
            · intro q
              rw [hi]
              by_cases hq : q = k
              · subst hq
                simp only [if_true]
                rw [List.getElem?_set_self hkinfo]
                congr 1
                unfold posInfo
                rw [hp] at hen
                simp only [hen, if_true, hss]
              · simp only [hq, if_false]
                rw [List.getElem?_set_ne (by omega)]
          | none =>
            rw [hss] at happ
            have hnext := nextGlyph_inplace c.buf hh hs (by omega)
            refine ⟨c.buf.info, ?_, rfl, ?_⟩
            · intro rest
              simp only [bind, Except.bind, hget, hen, if_true, applyTop, happ, Bool.false_eq_true, if_false, hnext]
              simp only [ho, hi]
            · intro q
              by_cases hq : q = k
              · subst hq
                simp only [if_true]
                rw [List.getElem?_eq_getElem hkinfo]
                congr 1
                unfold posInfo
                rw [hp] at hen
                simp only [hen, if_true, hss]
              · simp only [hq, if_false]
        · -- not enabled
          have hen' : (c.buf.info[k].mask &&& c.lookupMask != 0 && checkGlyphProperty c.font c.buf.info[k] c.lookupProps) = false := by
            simpa using hen
          have hnext := nextGlyph_inplace c.buf hh hs (by omega)
          refine ⟨c.buf.info, ?_, rfl, ?_⟩
          · intro rest
            simp only [bind, Except.bind, hget, hen', Bool.false_eq_true, if_false, hnext]
            simp only [ho, hi]
          · intro q
            by_cases hq : q = k
            · subst hq
              simp only [if_true]
              rw [List.getElem?_eq_getElem hkinfo]
              congr 1
              unfold posInfo
              rw [hp] at hen'
              simp only [hen', Bool.false_eq_true, if_false]
            · simp only [hq, if_false]
      obtain ⟨I1, hrun, hI1len, hI1q⟩ := hstep
      obtain ⟨I, hres, hIlen, hIq⟩ := ih { c with buf := { c.buf with info := I1, idx := k + 1, outLen := k + 1 } } (k + 1)
        hlm hrnd hh hs hsu rfl rfl (by simp; omega) (by simp; omega) hp (by simp; omega)
      refine ⟨I, ?_, by rw [hIlen]; exact hI1len, ?_⟩
      · have hrun' := hrun (applyForward l fuel)
        have hc2 : (decide (c.buf.idx < c.buf.len) && c.buf.successful) = true := by simp [hcond.1, hcond.2]
        simp only [applyForward, hc2, if_true]
        rw [hrun', hres]
      · intro q
        have := hIq q
        simp only at this
        rw [this]
        by_cases h1 : k + 1 ≤ q ∧ q < c.buf.len
        · have h2 : k ≤ q ∧ q < c.buf.len := by omega
          have h3 : q ≠ k := by omega
          simp only [h1, h2, and_self, if_true, hI1q q, h3, if_false]
        · simp only [h1, if_false]
          by_cases h2 : q = k
          · subst h2
            have h3 : q ≤ q ∧ q < c.buf.len := by omega
            simp only [hI1q q, if_true, h3, and_self]
            rw [List.getElem?_eq_getElem hkinfo]; rfl
          · have h3 : ¬ (k ≤ q ∧ q < c.buf.len) := by omega
            simp only [hI1q q, h2, if_false, h3]


/-- `apply_string` of a one-for-one lookup: the glyph string is mapped glyph by glyph. -/
theorem applyString_pos (l : Lookup) (sub : Info → Option Nat) (hrev : l.reverse = false) (c : Ctx) (hact : ActsAs l c.lookupMask sub)
    (hrnd : c.random = false) (fuel : Nat)
    (hsu : c.buf.successful = true) (hlen : c.buf.len ≤ c.buf.info.length) (hf : c.buf.len ≤ fuel) :
    ∃ c', applyString c l fuel = .ok c' ∧ c'.buf.len = c.buf.len ∧ c'.buf.info.length = c.buf.info.length ∧
      c'.buf.successful = true ∧ c'.buf.haveOutput = (if c.buf.len = 0 ∨ c.lookupMask = 0 then c.buf.haveOutput else false) ∧
      ∀ q, c'.buf.info[q]? = if q < c.buf.len
                             then (c.buf.info[q]?).map (posInfo c.font c.lookupMask l.props sub)
                             else c.buf.info[q]? := by
  unfold applyString
  by_cases h0 : (c.buf.len == 0 || c.lookupMask == 0) = true
  · simp only [h0, if_true, pure, Except.pure]
    have h0' : c.buf.len = 0 ∨ c.lookupMask = 0 := by simpa using h0
    refine ⟨c, rfl, rfl, rfl, hsu, by simp [h0'], ?_⟩
    intro q
    by_cases hq : q < c.buf.len
    · simp only [hq, if_true]
      rcases h0' with h | h
      · omega
      · -- lookup mask 0: nothing is enabled
        cases hx : c.buf.info[q]? with
        | none => rfl
        | some x =>
          simp only [Option.map_some]
          congr 1
          unfold posInfo
          simp [h]
    · simp only [hq, if_false]
  · have h0' : ¬ (c.buf.len = 0 ∨ c.lookupMask = 0) := by simpa using h0
    simp only [h0, Bool.false_eq_true, if_false, hrev, Bool.not_false, if_true]
    obtain ⟨I, hres, hIlen, hIq⟩ := applyForward_pos l c.lookupMask sub hact fuel
      { c with lookupProps := l.props, buf := { c.buf.clearOutput with idx := 0 } } 0
      rfl hrnd rfl rfl hsu rfl rfl (Nat.zero_le _) hlen rfl (by simpa [clearOutput] using hf)
    simp only [bind, Except.bind, hres]
    -- sync on the finished in-place pass
    unfold sync
    simp only [clearOutput, Bool.not_true, Bool.false_eq_true, if_false, Nat.lt_irrefl, gt_iff_lt, hsu,
      bind, Except.bind, pure, Except.pure]
    unfold nextGlyphs
    simp only [if_true, Bool.false_or, bne_self_eq_false, Bool.false_eq_true, if_false, Nat.sub_self,
      Nat.add_zero, pure, Except.pure]
    refine ⟨_, rfl, rfl, by simpa [clearOutput] using hIlen, by simpa using hsu, by simp [h0'], ?_⟩
    intro q
    have := hIq q
    simp only [clearOutput, Nat.zero_le, true_and] at this
    simpa using this


end RbModel.Gsub
