/-
  Mixed "simple" lookups: subtables that are single (1), multiple (2) or alternate (3) substitutions in any combination, as one
  instance of the replace-by-list scheme (a single or alternate substitution replaces the glyph by a one-element list).
-/
import RbModel.Lemmas.GsubMultiSpec

namespace RbModel.Gsub
open RbModel RbModel.Buf RbModel.Mem RbModel.Spec.Subst

def Subtable.isSimple : Subtable → Bool
  | .single1 .. => true
  | .single2 .. => true
  | .multiple .. => true
  | .alternate .. => true
  | _ => false

/-- the glyph list the first applicable simple subtable gives for glyph id `gid` carrying `mask` (lookup mask `lm`) -/
def simpleSeqGM (lm : Nat) : List Subtable → Nat → Nat → Option (List Nat)
  | [], _, _ => none
  | .single1 cov d :: rest, gid, mask =>
      match cov.index (gid % 65536) with
      | some _ => some [((((gid % 65536 : Nat) : Int) + d) % 65536).toNat]
      | none => simpleSeqGM lm rest gid mask
  | .single2 cov s :: rest, gid, mask =>
      match cov.index (gid % 65536) with
      | some i => match s[i]? with
        | some x => some [x]
        | none => simpleSeqGM lm rest gid mask
      | none => simpleSeqGM lm rest gid mask
  | .multiple cov seqs :: rest, gid, mask =>
      match cov.index (gid % 65536) with
      | some i => match seqs[i]? with
        | some ss => some ss
        | none => simpleSeqGM lm rest gid mask
      | none => simpleSeqGM lm rest gid mask
  | .alternate cov alts :: rest, gid, mask =>
      match cov.index (gid % 65536) with
      | none => simpleSeqGM lm rest gid mask
      | some i => match alts[i]? with
        | none => simpleSeqGM lm rest gid mask
        | some set =>
          if set.isEmpty then simpleSeqGM lm rest gid mask
          else if altOfM lm mask ≥ 65536 || altOfM lm mask == 0 then simpleSeqGM lm rest gid mask
          else match set[altOfM lm mask - 1]? with
            | none => simpleSeqGM lm rest gid mask
            | some s => some [s]
  | _ :: rest, gid, mask => simpleSeqGM lm rest gid mask

def simpleSeq? (lm : Nat) (sts : List Subtable) (x : Info) : Option (List Nat) := simpleSeqGM lm sts x.gid x.mask
def simpleSeqG? (lm : Nat) (sts : List Subtable) (g : G) : Option (List Nat) := simpleSeqGM lm sts g.gid g.mask

/-- `SubstLookup::apply` of a lookup made of single / multiple / alternate subtables, outside the `rand` feature -/
theorem applySubtables_simple (recurse : Ctx → Nat → M (Ctx × Bool)) (full : Bool) (c : Ctx)
    (sts : List Subtable) (hall : sts.all Subtable.isSimple = true) (cur : Info) (hrnd : c.random = false)
    (hcur : c.buf.info[c.buf.idx]? = some cur) :
    applySubtables recurse full c sts =
      match simpleSeq? c.lookupMask sts cur with
      | some ss => (applySeq c cur ss).map (fun c' => (c', true))
      | none => .ok (c, false) := by
  have hget : Mem.get c.buf.info c.buf.idx = .ok cur := by unfold Mem.get; rw [hcur]; rfl
  induction sts with
  | nil => rfl
  | cons st rest ih =>
    simp only [List.all_cons, Bool.and_eq_true] at hall
    have ih' : applySubtables recurse full c rest = match simpleSeqGM c.lookupMask rest cur.gid cur.mask with
        | some ss => (applySeq c cur ss).map (fun c' => (c', true))
        | none => .ok (c, false) := ih hall.2
    cases st with
    | single1 cov d =>
      simp only [applySubtables, applySubtable, bind, Except.bind, hget, simpleSeq?, simpleSeqGM]
      cases hi : cov.index (cur.gid % 65536) with
      | none => simp only [pure, Except.pure]; exact ih'
      | some i =>
        simp only [applySeq]
        generalize ctxReplaceGlyph c _ = res
        cases res with
        | error e => rfl
        | ok c' => rfl
    | single2 cov s =>
      simp only [applySubtables, applySubtable, bind, Except.bind, hget, simpleSeq?, simpleSeqGM]
      cases hi : cov.index (cur.gid % 65536) with
      | none => simp only [pure, Except.pure]; exact ih'
      | some i =>
        simp only
        cases hs : s[i]? with
        | none => simp only [pure, Except.pure]; exact ih'
        | some x =>
          simp only [applySeq]
          generalize ctxReplaceGlyph c x = res
          cases res with
          | error e => rfl
          | ok c' => rfl
    | multiple cov seqs =>
      simp only [applySubtables, applySubtable, bind, Except.bind, hget, simpleSeq?, simpleSeqGM]
      cases hi : cov.index (cur.gid % 65536) with
      | none => simp only [pure, Except.pure]; exact ih'
      | some i =>
        simp only
        cases hs : seqs[i]? with
        | none => simp only [pure, Except.pure]; exact ih'
        | some ss =>
          match ss with
          | [] =>
            simp only [applySeq, bind, Except.bind]
            generalize c.buf.deleteGlyph = res
            cases res with
            | error e => rfl
            | ok b => rfl
          | [s] =>
            simp only [applySeq]
            generalize ctxReplaceGlyph c s = res
            cases res with
            | error e => rfl
            | ok c' => rfl
          | s1 :: s2 :: r =>
            simp only [applySeq, bind, Except.bind]
            generalize applySubtable.loop _ _ c 0 (s1 :: s2 :: r) = res
            cases res with
            | error e => rfl
            | ok c' => rfl
    | alternate cov alts =>
      simp only [applySubtables, applySubtable, bind, Except.bind, hget, simpleSeq?, simpleSeqGM]
      cases hi : cov.index (cur.gid % 65536) with
      | none => simp only [pure, Except.pure]; exact ih'
      | some i =>
        simp only
        cases hs : alts[i]? with
        | none => simp only [pure, Except.pure]; exact ih'
        | some set =>
          simp only
          by_cases he : set.isEmpty = true
          · simp only [he, if_true, pure, Except.pure]; exact ih'
          · simp only [he, Bool.false_eq_true, if_false, hrnd, Bool.and_false, pure, Except.pure]
            have halt : (c.lookupMask &&& cur.mask) >>> (applySubtable.tz c.lookupMask 32 % 32) = altOfM c.lookupMask cur.mask := rfl
            simp only [halt]
            by_cases hz : (altOfM c.lookupMask cur.mask ≥ 65536 || altOfM c.lookupMask cur.mask == 0) = true
            · simp only [hz, if_true]; exact ih'
            · simp only [hz, Bool.false_eq_true, if_false]
              cases hx : set[altOfM c.lookupMask cur.mask - 1]? with
              | none => simp only; exact ih'
              | some s =>
                simp only [applySeq]
                generalize ctxReplaceGlyph c s = res
                cases res with
                | error e => rfl
                | ok c' => rfl
    | ligature _ _ => simp [Subtable.isSimple] at hall
    | context1 _ _ => simp [Subtable.isSimple] at hall
    | context2 _ _ _ => simp [Subtable.isSimple] at hall
    | context3 _ _ => simp [Subtable.isSimple] at hall
    | chain1 _ _ => simp [Subtable.isSimple] at hall
    | chain2 _ _ _ _ _ => simp [Subtable.isSimple] at hall
    | chain3 _ _ _ _ => simp [Subtable.isSimple] at hall
    | reverse _ _ _ _ => simp [Subtable.isSimple] at hall

theorem actsAsL_simple (l : Lookup) (hall : l.subtables.all Subtable.isSimple = true) (lm : Nat) :
    ActsAsL l lm true (simpleSeq? lm l.subtables) := by
  intro c cur hlm hrnd hcur
  rw [← hlm]
  exact applySubtables_simple _ _ c l.subtables hall cur (hrnd rfl) hcur

theorem simple_not_reverse (l : Lookup) (hall : l.subtables.all Subtable.isSimple = true) : l.reverse = false := by
  unfold Lookup.reverse
  cases hs : l.subtables with
  | nil => simp
  | cons st rest =>
    rw [hs] at hall
    simp only [List.all_cons, Bool.and_eq_true] at hall
    have : st.isReverse = false := by
      cases st <;> simp [Subtable.isSimple] at hall <;> rfl
    simp [this]

theorem simpleSeqGM_ne_nil (lm : Nat) (sts : List Subtable) (h : SeqsNonempty sts) (gid mask : Nat) (ss : List Nat)
    (hs : simpleSeqGM lm sts gid mask = some ss) : ss ≠ [] := by
  induction sts with
  | nil => simp [simpleSeqGM] at hs
  | cons st rest ih =>
    have hrest : SeqsNonempty rest := fun st' hm => h st' (List.mem_cons_of_mem _ hm)
    cases st with
    | multiple cov seqs =>
      simp only [simpleSeqGM] at hs
      cases hc : cov.index (gid % 65536) with
      | none => rw [hc] at hs; exact ih hrest hs
      | some k =>
        rw [hc] at hs
        simp only at hs
        cases hk : seqs[k]? with
        | none => rw [hk] at hs; exact ih hrest hs
        | some ss' =>
          rw [hk] at hs
          simp only [Option.some.injEq] at hs
          subst hs
          exact h _ (List.mem_cons_self) cov seqs rfl ss' (List.mem_of_getElem? hk)
    | single1 cov d =>
      simp only [simpleSeqGM] at hs
      cases hc : cov.index (gid % 65536) with
      | none => rw [hc] at hs; exact ih hrest hs
      | some k => rw [hc] at hs; simp only [Option.some.injEq] at hs; subst hs; simp
    | single2 cov s =>
      simp only [simpleSeqGM] at hs
      cases hc : cov.index (gid % 65536) with
      | none => rw [hc] at hs; exact ih hrest hs
      | some k =>
        rw [hc] at hs
        simp only at hs
        cases hk : s[k]? with
        | none => rw [hk] at hs; exact ih hrest hs
        | some x => rw [hk] at hs; simp only [Option.some.injEq] at hs; subst hs; simp
    | alternate cov alts =>
      simp only [simpleSeqGM] at hs
      cases hc : cov.index (gid % 65536) with
      | none => rw [hc] at hs; exact ih hrest hs
      | some k =>
        rw [hc] at hs
        simp only at hs
        cases hk : alts[k]? with
        | none => rw [hk] at hs; exact ih hrest hs
        | some set =>
          rw [hk] at hs
          simp only at hs
          split at hs
          · exact ih hrest hs
          · split at hs
            · exact ih hrest hs
            · split at hs
              · exact ih hrest hs
              · simp only [Option.some.injEq] at hs; subst hs; simp
    | _ => simp only [simpleSeqGM] at hs; exact ih hrest hs

end RbModel.Gsub

namespace RbModel.Spec.Subst
open RbModel RbModel.Gsub

theorem firstSubtable_simple (f : Font) (level props lm : Nat) (hlm : lm < 2 ^ 32) (gs : List G) (i : Nat) (g : G)
    (hg : gs[i]? = some g) (hgid : g.gid < 65536) :
    ∀ sts : List Subtable, sts.all Subtable.isSimple = true → AltSetsShort sts →
      firstSubtable f level props lm gs i sts =
        (simpleSeqG? lm sts g).map fun ss => (replaceAt gs i (ss.map fun s => { g with gid := s }) 1, i + ss.length) := by
  have hval : altValue lm g.mask = altOfM lm g.mask := altValue_eq_altOfM lm g.mask hlm
  intro sts
  induction sts with
  | nil => intro _ _; rfl
  | cons st rest ih =>
    intro hall hshort
    simp only [List.all_cons, Bool.and_eq_true] at hall
    have hshort' : AltSetsShort rest := fun st' hm => hshort st' (List.mem_cons_of_mem _ hm)
    have ihr : firstSubtable f level props lm gs i rest
        = (simpleSeqGM lm rest g.gid g.mask).map fun ss =>
            (replaceAt gs i (ss.map fun s => { g with gid := s }) 1, i + ss.length) := ih hall.2 hshort'
    cases st with
    | single1 cov d =>
      unfold firstSubtable applySubtableAt simpleSeqG?
      simp only [hg, applySimple, simpleSeqGM, Nat.mod_eq_of_lt hgid]
      cases hc : cov.index g.gid with
      | none => simp only [Option.map_none]; exact ihr
      | some k => simp only [Option.map_some, List.map_cons, List.map_nil, List.length_cons, List.length_nil]
    | single2 cov sub =>
      unfold firstSubtable applySubtableAt simpleSeqG?
      simp only [hg, applySimple, simpleSeqGM, Nat.mod_eq_of_lt hgid]
      cases hc : cov.index g.gid with
      | none => simp only [bind, Option.bind]; exact ihr
      | some k =>
        cases hs : sub[k]? with
        | none => simp only [hs, bind, Option.bind]; exact ihr
        | some s => simp only [hs, bind, Option.bind, pure, Option.map_some, List.map_cons, List.map_nil,
            List.length_cons, List.length_nil]
    | multiple cov seqs =>
      unfold firstSubtable applySubtableAt simpleSeqG?
      simp only [hg, applySimple, simpleSeqGM, Nat.mod_eq_of_lt hgid]
      cases hc : cov.index g.gid with
      | none => simp only [bind, Option.bind]; exact ihr
      | some k =>
        cases hs : seqs[k]? with
        | none => simp only [hs, bind, Option.bind]; exact ihr
        | some ss => simp only [hs, bind, Option.bind, pure, Option.map_some]
    | alternate cov alts =>
      unfold firstSubtable applySubtableAt simpleSeqG?
      simp only [hg, applySimple, simpleSeqGM, Nat.mod_eq_of_lt hgid, hval]
      cases hc : cov.index g.gid with
      | none => simp only [bind, Option.bind]; exact ihr
      | some k =>
        cases hs : alts[k]? with
        | none => simp only [bind, Option.bind, hs]; exact ihr
        | some set =>
          have hlen : set.length ≤ 65535 :=
            hshort _ (List.mem_cons_self) cov alts rfl set (List.mem_of_getElem? hs)
          simp only [bind, Option.bind, hs]
          generalize altOfM lm g.mask = a
          by_cases hz : a = 0
          · subst hz
            simp only [beq_self_eq_true, if_true, Bool.or_true]
            by_cases he : set.isEmpty = true
            · simp only [he, if_true]; exact ihr
            · simp only [he, Bool.false_eq_true, if_false]; exact ihr
          · have hz' : (a == 0) = false := by simpa using hz
            simp only [hz', Bool.false_eq_true, if_false, Bool.or_false]
            by_cases he : set.isEmpty = true
            · have hnil : set = [] := by simpa using he
              subst hnil
              simp only [List.getElem?_nil, List.isEmpty_nil, if_true]
              exact ihr
            · simp only [he, Bool.false_eq_true, if_false]
              by_cases hbig : a ≥ 65536
              · have h2 : set[a - 1]? = none := List.getElem?_eq_none (by omega)
                simp only [hbig, decide_true, if_true, h2]; exact ihr
              · simp only [hbig, decide_false, Bool.false_eq_true, if_false]
                cases hx : set[a - 1]? with
                | none => simp only; exact ihr
                | some s => simp only [pure, Option.map_some, List.map_cons, List.map_nil, List.length_cons, List.length_nil]
    | _ => simp [Subtable.isSimple] at hall

end RbModel.Spec.Subst
