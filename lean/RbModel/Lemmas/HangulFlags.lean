/-
  Helper lemmas for the Hangul part of C03 (Props/C03.lean, `C03_hangul_*`): how the branches of
  `HangulBuf.stepS` / `stepLV` / `stepTone` (preprocess_text_hangul on the buffer model) start with their flag call.
-/
import RbModel.HangulBuf
import RbModel.Lemmas.Flags

namespace RbModel.Flags
open RbModel RbModel.HangulBuf
open RbModel.Hangul (Cfg isT isCombiningT)

/-- two neighbouring entries are always a monotone range -/
theorem monoRange_pair (l : List Info) (i : Nat) (x0 x1 : Info) (h0 : l[i]? = some x0) (h1 : l[i + 1]? = some x1) :
    MonoRange l i (i + 2) := by
  by_cases hc : x0.cluster ≤ x1.cluster
  · left
    intro p q x y hp hpq hq hx hy
    have : (p = i ∧ q = i) ∨ (p = i ∧ q = i + 1) ∨ (p = i + 1 ∧ q = i + 1) := by omega
    rcases this with ⟨rfl, rfl⟩ | ⟨rfl, rfl⟩ | ⟨rfl, rfl⟩
    · rw [h0] at hx hy; cases hx; cases hy; exact Nat.le_refl _
    · rw [h0] at hx; rw [h1] at hy; cases hx; cases hy; exact hc
    · rw [h1] at hx hy; cases hx; cases hy; exact Nat.le_refl _
  · right
    intro p q x y hp hpq hq hx hy
    have : (p = i ∧ q = i) ∨ (p = i ∧ q = i + 1) ∨ (p = i + 1 ∧ q = i + 1) := by omega
    rcases this with ⟨rfl, rfl⟩ | ⟨rfl, rfl⟩ | ⟨rfl, rfl⟩
    · rw [h0] at hx hy; cases hx; cases hy; exact Nat.le_refl _
    · rw [h0] at hx; rw [h1] at hy; cases hx; cases hy; omega
    · rw [h1] at hx hy; cases hx; cases hy; exact Nat.le_refl _

theorem hb_ok_bind {α β : Type} (x : α) (k : α → M β) : (Except.ok x >>= k) = k x := rfl

/-- what `stepS` does when an LV syllable the font maps is followed by a trailing jamo, the font has the jamo and not the
    LVT glyph: flag, then decompose -/
theorem stepS_LV_T (c : Cfg) (b : Buf) (x0 x1 : Info) (h2 : b.idx + 2 ≤ b.len)
    (hx1 : b.info[b.idx + 1]? = some x1)
    (hlv : (sIndices x0.gid).2.2 = 0) (ht : isT x1.gid = true)
    (hS : c.has x0.gid = true) (hj : hasJamo c x0.gid = true)
    (hno : (isCombiningT x1.gid && c.has (x0.gid + (x1.gid - Gen.Hangul.TBase))) = false) :
    stepS c b x0.gid = (flagLVandT b >>= fun b' => decomposeS c b' x0.gid) := by
  have hn : b.idx + 1 < b.len := by omega
  have hcur : cur b 1 = .ok x1 := by simp [cur, Mem.get, hx1]; rfl
  unfold stepS
  simp only [hn, decide_true, if_true, hcur, hlv]
  rw [hb_ok_bind]
  by_cases hct : isCombiningT x1.gid = true
  · have hno' : c.has (x0.gid + (x1.gid - Gen.Hangul.TBase)) = false := by simpa [hct] using hno
    simp [hct, hno', ht, hS, hj]
  · have hct' : isCombiningT x1.gid = false := by simpa using hct
    simp [hct', ht, hS, hj]

/-- a font with one LV syllable, its jamo, one combining and one old-Hangul trailing jamo — and no LVT syllable -/
def lvFont : Cfg := { has := fun u => [0xAC00, 0x1100, 0x1161, 0x11A8, 0x11C3].contains u, zeroW := fun _ => false, noDotted := false, level := 1 }


end RbModel.Flags
