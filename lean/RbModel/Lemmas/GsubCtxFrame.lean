/-
  Frame lemmas for the record loop of `apply_lookup`: the buffer primitives a single-position nested lookup and `move_to` go
  through never touch the operation budget `max_ops` nor the buffer flags (they are pure functions of the other fields).
-/
import RbModel.Lemmas.GsubMultiStep
import RbModel.Lemmas.LifecycleBound

namespace RbModel.Buf
open RbModel.Life (bind_ok)

/-- `max_ops` and the buffer flags are unchanged -/
structure Fr (b b' : Buf) : Prop where
  maxOps : b'.maxOps = b.maxOps
  flags : b'.flags = b.flags

theorem Fr.rfl' (b : Buf) : Fr b b := ⟨rfl, rfl⟩
theorem Fr.trans {a b c : Buf} (h1 : Fr a b) (h2 : Fr b c) : Fr a c :=
  ⟨h2.maxOps.trans h1.maxOps, h2.flags.trans h1.flags⟩

theorem ensure_fr (b : Buf) (n : Nat) : Fr b (b.ensure n).1 := by
  unfold ensure
  split
  · exact Fr.rfl' b
  · split
    · exact ⟨rfl, rfl⟩
    · split <;> exact ⟨rfl, rfl⟩

theorem makeRoomFor_fr {b b' : Buf} {i o : Nat} {ok : Bool} (h : b.makeRoomFor i o = .ok (b', ok)) : Fr b b' := by
  unfold makeRoomFor at h
  have hs := ensure_fr b (b.outLen + o)
  rcases hx : b.ensure (b.outLen + o) with ⟨b1, ok1⟩
  rw [hx] at h hs
  simp only at h hs
  cases ok1 with
  | false =>
    simp [pure, Except.pure] at h
    obtain ⟨h1, h2⟩ := h
    subst h1 h2
    exact hs
  | true =>
    simp only [Bool.not_true, Bool.false_eq_true, if_false] at h
    by_cases hc : (!b1.sepOut && decide (b1.outLen + o > b1.idx + i)) = true
    · simp only [hc, if_true] at h
      by_cases hho : b1.haveOutput = true
      · simp only [hho, Bool.not_true, Bool.false_eq_true, if_false] at h
        obtain ⟨out, _, h⟩ := bind_ok h
        simp [pure, Except.pure] at h
        obtain ⟨h1, h2⟩ := h
        subst h1 h2
        exact ⟨hs.maxOps, hs.flags⟩
      · simp [hho, throw, throwThe, MonadExceptOf.throw, bind, Except.bind] at h
    · simp only [hc] at h
      simp [pure, Except.pure] at h
      obtain ⟨h1, h2⟩ := h
      subst h1 h2
      exact hs

theorem setOut_fr {b b' : Buf} {i : Nat} {x : Info} (h : b.setOut i x = .ok b') : Fr b b' := by
  unfold setOut at h
  obtain ⟨l, _, h⟩ := bind_ok h
  simp [pure, Except.pure] at h
  subst h
  unfold setOutArr
  split <;> exact ⟨rfl, rfl⟩

theorem copyToOut_fr {b b' : Buf} {n : Nat} (h : copyToOut b n = .ok b') : Fr b b' := by
  unfold copyToOut at h
  split at h
  · obtain ⟨l, _, h⟩ := bind_ok h
    simp [pure, Except.pure] at h; subst h
    exact ⟨rfl, rfl⟩
  · obtain ⟨l, _, h⟩ := bind_ok h
    simp [pure, Except.pure] at h; subst h
    exact ⟨rfl, rfl⟩

theorem copyFromOut_fr {b b' : Buf} {n : Nat} (h : copyFromOut b n = .ok b') : Fr b b' := by
  unfold copyFromOut at h
  split at h
  · obtain ⟨l, _, h⟩ := bind_ok h
    simp [pure, Except.pure] at h; subst h
    exact ⟨rfl, rfl⟩
  · obtain ⟨l, _, h⟩ := bind_ok h
    simp [pure, Except.pure] at h; subst h
    exact ⟨rfl, rfl⟩

theorem shiftForward_fr {b b' : Buf} {c : Nat} {ok : Bool} (h : b.shiftForward c = .ok (b', ok)) : Fr b b' := by
  unfold shiftForward at h
  by_cases hho : b.haveOutput = true
  · simp only [hho, Bool.not_true, Bool.false_eq_true, if_false] at h
    have hs := ensure_fr b (b.len + c)
    rcases hx : b.ensure (b.len + c) with ⟨b1, ok1⟩
    rw [hx] at h hs
    simp only at h hs
    cases ok1 with
    | false =>
      simp [pure, Except.pure] at h
      obtain ⟨h1, h2⟩ := h
      subst h1 h2
      exact hs
    | true =>
      simp only [Bool.not_true, Bool.false_eq_true, if_false] at h
      obtain ⟨l1, _, h⟩ := bind_ok h
      have hfin : ∀ l2 : List Info,
          (pure ({ b1 with info := l2, len := b1.len + c, idx := b1.idx + c }, true) : M (Buf × Bool)) = .ok (b', ok) →
          Fr b b' := by
        intro l2 h
        simp [pure, Except.pure] at h
        obtain ⟨h1, h2⟩ := h
        subst h1 h2
        exact ⟨hs.maxOps, hs.flags⟩
      split at h
      · split at h
        · simp [throw, throwThe, MonadExceptOf.throw, bind, Except.bind] at h
        · obtain ⟨l2, _, h⟩ := bind_ok h
          exact hfin l2 h
      · obtain ⟨l2, _, h⟩ := bind_ok h
        exact hfin l2 h
  · simp [hho, throw, throwThe, MonadExceptOf.throw, bind, Except.bind] at h

theorem makeRoomFor_fr2 {b : Buf} {v : Buf × Bool} {i o : Nat} (h : b.makeRoomFor i o = .ok v) :
    v.1.maxOps = b.maxOps ∧ v.1.flags = b.flags := by
  obtain ⟨b', ok⟩ := v
  exact ⟨(makeRoomFor_fr h).maxOps, (makeRoomFor_fr h).flags⟩
theorem shiftForward_fr2 {b : Buf} {v : Buf × Bool} {c : Nat} (h : b.shiftForward c = .ok v) :
    v.1.maxOps = b.maxOps ∧ v.1.flags = b.flags := by
  obtain ⟨b', ok⟩ := v
  exact ⟨(shiftForward_fr h).maxOps, (shiftForward_fr h).flags⟩
theorem copyToOut_fr2 {b b' : Buf} {n : Nat} (h : copyToOut b n = .ok b') : b'.maxOps = b.maxOps ∧ b'.flags = b.flags :=
  ⟨(copyToOut_fr h).maxOps, (copyToOut_fr h).flags⟩
theorem copyFromOut_fr2 {b b' : Buf} {n : Nat} (h : copyFromOut b n = .ok b') : b'.maxOps = b.maxOps ∧ b'.flags = b.flags :=
  ⟨(copyFromOut_fr h).maxOps, (copyFromOut_fr h).flags⟩
theorem setOut_fr2 {b b' : Buf} {i : Nat} {x : Info} (h : b.setOut i x = .ok b') : b'.maxOps = b.maxOps ∧ b'.flags = b.flags :=
  ⟨(setOut_fr h).maxOps, (setOut_fr h).flags⟩

theorem moveTo_fr {b b' : Buf} {i : Nat} {r : Bool} (h : b.moveTo i = .ok (b', r)) : Fr b b' := by
  suffices hh : b'.maxOps = b.maxOps ∧ b'.flags = b.flags from ⟨hh.1, hh.2⟩
  unfold moveTo at h
  simp only [bind, Except.bind, pure, Except.pure, throw, throwThe, MonadExceptOf.throw] at h
  repeat' (split at h)
  all_goals first
    | (cases h; done)
    | contradiction
    | (injection h with h; injection h with h1 h2; subst h1
       first
        | exact ⟨rfl, rfl⟩
        | (have hD := copyFromOut_fr2 (by assumption); have hC := shiftForward_fr2 (by assumption)
           exact ⟨hD.1.trans hC.1, hD.2.trans hC.2⟩)
        | (have hD := copyToOut_fr2 (by assumption); have hC := makeRoomFor_fr2 (by assumption)
           exact ⟨hD.1.trans hC.1, hD.2.trans hC.2⟩)
        | (have hZ := copyFromOut_fr2 (by assumption); exact hZ)
        | (have hZ := makeRoomFor_fr2 (by assumption); exact hZ)
        | (have hZ := shiftForward_fr2 (by assumption); exact hZ))

theorem replaceGlyph_fr {b b' : Buf} {g : Nat} (h : b.replaceGlyph g = .ok b') : Fr b b' := by
  suffices hh : b'.maxOps = b.maxOps ∧ b'.flags = b.flags from ⟨hh.1, hh.2⟩
  unfold replaceGlyph at h
  simp only [bind, Except.bind, pure, Except.pure] at h
  repeat' (split at h)
  all_goals first
    | (cases h; done)
    | contradiction
    | (injection h with h; subst h
       first
        | (have hZ := makeRoomFor_fr2 (by assumption); exact hZ)
        | (have hC := setOut_fr2 (by assumption); have hB := setOut_fr2 (b := Prod.fst _) (by assumption)
           have hA := makeRoomFor_fr2 (by assumption)
           exact ⟨hC.1.trans (hB.1.trans hA.1), hC.2.trans (hB.2.trans hA.2)⟩)
        | (have hZ := setOut_fr2 (by assumption); exact hZ))

theorem outputGlyph_fr {b b' : Buf} {g : Nat} (h : b.outputGlyph g = .ok b') : Fr b b' := by
  suffices hh : b'.maxOps = b.maxOps ∧ b'.flags = b.flags from ⟨hh.1, hh.2⟩
  unfold outputGlyph at h
  simp only [bind, Except.bind, pure, Except.pure] at h
  repeat' (split at h)
  all_goals first
    | (cases h; done)
    | contradiction
    | (injection h with h; subst h
       first
        | (have hZ := makeRoomFor_fr2 (by assumption); exact hZ)
        | (have hC := setOut_fr2 (by assumption); have hA := makeRoomFor_fr2 (by assumption)
           exact ⟨hC.1.trans hA.1, hC.2.trans hA.2⟩))

theorem nextGlyph_fr {b b' : Buf} (h : b.nextGlyph = .ok b') : Fr b b' := by
  suffices hh : b'.maxOps = b.maxOps ∧ b'.flags = b.flags from ⟨hh.1, hh.2⟩
  unfold nextGlyph at h
  simp only [bind, Except.bind, pure, Except.pure] at h
  repeat' (split at h)
  all_goals first
    | (cases h; done)
    | contradiction
    | (injection h with h; subst h
       first
        | exact ⟨rfl, rfl⟩
        | (have hZ := makeRoomFor_fr2 (by assumption); exact hZ)
        | (have hC := setOut_fr2 (by assumption); have hA := makeRoomFor_fr2 (by assumption)
           exact ⟨hC.1.trans hA.1, hC.2.trans hA.2⟩))

end RbModel.Buf

namespace RbModel.Gsub
open RbModel RbModel.Buf RbModel.Mem
open RbModel.Life (bind_ok)

theorem setGlyphClass_fr {c c' : Ctx} {gid cg : Nat} {lig comp : Bool} (h : setGlyphClass c gid cg lig comp = .ok c') :
    Fr c.buf c'.buf := by
  unfold setGlyphClass at h
  obtain ⟨cur, _, h⟩ := bind_ok h
  cases lig <;> cases comp <;>
  · simp only [Bool.false_eq_true, if_false, if_true] at h
    obtain ⟨info, _, h⟩ := bind_ok h
    simp [pure, Except.pure] at h
    subst h
    exact ⟨rfl, rfl⟩

theorem ctxReplaceGlyph_fr {c c' : Ctx} {g : Nat} (h : ctxReplaceGlyph c g = .ok c') : Fr c.buf c'.buf := by
  unfold ctxReplaceGlyph at h
  obtain ⟨c1, h1, h⟩ := bind_ok h
  obtain ⟨b2, h2, h⟩ := bind_ok h
  simp [pure, Except.pure] at h
  subst h
  exact (setGlyphClass_fr h1).trans (replaceGlyph_fr h2)

theorem setGlyphClass_fr2 {c c' : Ctx} {gid cg : Nat} {lig comp : Bool} (h : setGlyphClass c gid cg lig comp = .ok c') :
    c'.buf.maxOps = c.buf.maxOps ∧ c'.buf.flags = c.buf.flags := ⟨(setGlyphClass_fr h).maxOps, (setGlyphClass_fr h).flags⟩
theorem outputGlyph_fr2 {b b' : Buf} {g : Nat} (h : b.outputGlyph g = .ok b') : b'.maxOps = b.maxOps ∧ b'.flags = b.flags :=
  ⟨(outputGlyph_fr h).maxOps, (outputGlyph_fr h).flags⟩

theorem multiLoop_fr (cls lid : Nat) : ∀ (ss : List Nat) (c c' : Ctx) (i : Nat),
    applySubtable.loop cls lid c i ss = .ok c' → Fr c.buf c'.buf := by
  intro ss
  induction ss with
  | nil => intro c c' i h; simp [applySubtable.loop, pure, Except.pure] at h; subst h; exact Fr.rfl' _
  | cons s rest ih =>
    intro c c' i h
    simp only [applySubtable.loop, bind, Except.bind, pure, Except.pure] at h
    repeat' (split at h)
    all_goals first
      | (cases h; done)
      | contradiction
      | (have hr := ih _ _ _ h
         have h1 := setGlyphClass_fr2 (by assumption)
         have h2 := outputGlyph_fr2 (by assumption)
         simp only [] at hr h1 h2
         exact ⟨by rw [hr.maxOps, h2.1, h1.1], by rw [hr.flags, h2.2, h1.2]⟩)

theorem applySeq_fr {c c' : Ctx} {x : Info} {ss : List Nat} (hne : ss ≠ []) (h : applySeq c x ss = .ok c') :
    Fr c.buf c'.buf := by
  match ss, hne with
  | [s], _ => exact ctxReplaceGlyph_fr h
  | s1 :: s2 :: rest, _ =>
    simp only [applySeq] at h
    obtain ⟨c1, h1, h⟩ := bind_ok h
    simp [pure, Except.pure] at h
    subst h
    have := multiLoop_fr _ _ _ _ _ _ h1
    exact ⟨this.maxOps, this.flags⟩

end RbModel.Gsub
