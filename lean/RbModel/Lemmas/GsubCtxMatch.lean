/-
  Contextual GSUB lookups (types 5 / 6), step 1: the three matchers of `ot_layout_gsubgpos.rs` without skippable glyphs.
  Under a lookup whose flags exclude nothing (`NoSkipFlags`), with no default-ignorable glyph in reach and not in
  per-syllable mode, the skipping iterator visits consecutive positions, so
    * `match_input`   is a prefix test of the unconsumed input behind the current glyph (feature bit required),
    * `match_lookahead` is a prefix test of the input behind the matched span (any non-zero mask),
    * `match_backtrack` is a prefix test of the REVERSED out-buffer (any non-zero mask),
  for an arbitrary match function `fn glyph index` (glyph / class / coverage matching differ only in `fn`).
  `fnMatch` is that prefix test; the index handed to `fn` is the iterator's `glyph_data` counter.
-/
import RbModel.Lemmas.GsubLigMatch

namespace RbModel.Gsub
open RbModel RbModel.Buf RbModel.Mem

/-- the prefix test the matchers compute: the next `n` glyphs of `R` have a mask meeting `lm` and satisfy `fn · g`, `fn · (g+1)`, … -/
def fnMatch (lm : Nat) (fn : Nat → Nat → Bool) : Nat → Nat → List Info → Bool
  | _, 0, _ => true
  | _, _ + 1, [] => false
  | g, n + 1, y :: R => (y.mask &&& lm != 0 && fn (y.gid % 65536) g) && fnMatch lm fn (g + 1) n R

theorem fnMatch_length (lm : Nat) (fn : Nat → Nat → Bool) : ∀ (n g : Nat) (R : List Info),
    fnMatch lm fn g n R = true → n ≤ R.length := by
  intro n
  induction n with
  | zero => intro g R _; omega
  | succ n ih =>
    intro g R h
    cases R with
    | nil => simp [fnMatch] at h
    | cons y R =>
      simp only [fnMatch, Bool.and_eq_true] at h
      have := ih (g + 1) R h.2
      simp; omega

/-- **the matching loop of `match_input` over plain glyphs, any match function** -/
theorem matchLoop_fn (c : Ctx) (fn : Nat → Nat → Bool) (flc : Nat) (hp : NoSkipFlags c.lookupProps)
    (hlen : c.buf.len ≤ c.buf.info.length) :
    ∀ (n : Nat) (it : It) (positions : List Nat) (total ligbase k : Nat) (R : List Info),
      it.lookupProps = c.lookupProps → it.syllable = 0 → it.matching = some fn →
      it.mask = c.lookupMask → it.bufLen = c.buf.len →
      (c.buf.info.drop (it.idx + 1)).take (c.buf.len - (it.idx + 1)) = R → (∀ y ∈ R, Plain y) →
      k + n ≤ positions.length →
      ∃ r, matchInput.loop c 0 flc it positions total ligbase k n = .ok r ∧
        r.ok = fnMatch c.lookupMask fn it.glyphData n R ∧
        (r.ok = true → r.endPos = it.idx + n + 1 ∧ r.positions.length = positions.length ∧
          (∀ j, j < n → r.positions[k + j]? = some (it.idx + 1 + j)) ∧
          ∀ q, q < k → r.positions[q]? = positions[q]?) := by
  intro n
  induction n with
  | zero =>
    intro it positions total ligbase k R _ _ _ _ _ _ _ _
    refine ⟨_, rfl, rfl, ?_⟩
    intro _
    exact ⟨rfl, rfl, by intro j hj; omega, fun _ _ => rfl⟩
  | succ n ih =>
    intro it positions total ligbase k R hlp hsy hma hmk hbl hR hpl hpos
    have hpit : NoSkipFlags it.lookupProps := by rw [hlp]; exact hp
    cases R with
    | nil =>
      have hnlt : ¬ it.idx + 1 < it.bufLen := by
        rw [hbl]
        by_cases hle : it.idx + 1 ≤ c.buf.info.length
        · exact window_nil c.buf.info (it.idx + 1) c.buf.len hlen hR
        · omega
      refine ⟨{ ok := false, endPos := it.idx + 1, positions := positions, totalComps := total }, ?_, ?_, ?_⟩
      · simp only [matchInput.loop, bind, Except.bind, bne_self_eq_false, Bool.false_and, Bool.false_eq_true, if_false]
        rw [← hbl, next_end it c.font c.buf.info it.bufLen hnlt]
        rfl
      · rfl
      · intro h; cases h
    | cons y R =>
      obtain ⟨hlt, hy, hR'⟩ := window_cons c.buf.info (it.idx + 1) c.buf.len y R hR
      have hply := hpl y (List.mem_cons_self)
      have hlen1 : c.buf.len = (c.buf.len - 1) + 1 := by omega
      have hnext := next_plain it c.font c.buf.info fn (c.buf.len - 1) y hpit hsy hma
        (by rw [hbl]; exact hlt) hy hply.1
      rw [← hlen1] at hnext
      by_cases hc : (y.mask &&& it.mask != 0 && fn (y.gid % 65536) it.glyphData) = true
      · simp only [hc, if_true] at hnext
        rw [hmk] at hc
        have hget : Mem.get c.buf.info (it.idx + 1) = .ok y := by unfold Mem.get; rw [hy]; rfl
        obtain ⟨r, hrun, hok, hrest⟩ := ih { it with idx := it.idx + 1, glyphData := it.glyphData + 1 }
          (positions.set k (it.idx + 1)) (total + ligNumComps y) ligbase (k + 1) R hlp hsy hma hmk hbl hR'
          (fun z hz => hpl z (List.mem_cons_of_mem _ hz)) (by simp; omega)
        refine ⟨r, ?_, ?_, ?_⟩
        · simp only [matchInput.loop, bind, Except.bind, bne_self_eq_false, Bool.false_and, Bool.false_eq_true, if_false,
            hnext, Bool.not_true, hget, hply.ligId]
          exact hrun
        · rw [hok]; simp only [fnMatch, hc, Bool.true_and]
        · intro hr
          obtain ⟨h1, h2, h3, h4⟩ := hrest hr
          refine ⟨by simp only [] at h1; omega, by simpa using h2, ?_, ?_⟩
          · intro j hj
            cases j with
            | zero =>
              have := h4 k (by omega)
              rw [Nat.add_zero, this, List.getElem?_set_self (by omega)]
            | succ j =>
              have := h3 j (by omega)
              simp only [] at this
              rw [show k + (j + 1) = k + 1 + j by omega, this]
              congr 1; omega
          · intro q hq
            rw [h4 q (by omega), List.getElem?_set_ne (by omega)]
      · simp only [hc, Bool.false_eq_true, if_false] at hnext
        rw [hmk] at hc
        refine ⟨{ ok := false, endPos := it.idx + 1 + 1, positions := positions, totalComps := total }, ?_, ?_, ?_⟩
        · simp only [matchInput.loop, bind, Except.bind, bne_self_eq_false, Bool.false_and, Bool.false_eq_true, if_false,
            hnext, Bool.not_false, if_true]
          rfl
        · simp only [fnMatch]
          have : (y.mask &&& c.lookupMask != 0 && fn (y.gid % 65536) it.glyphData) = false := by simpa using hc
          rw [this]; rfl
        · intro h; cases h

/-- **`match_input` without skippable glyphs, any match function**: no panic; the answer is `fnMatch` on the glyphs behind
    the current one with the lookup's mask; on success `match_end = idx + n + 1` and the positions are `idx, …, idx + n`. -/
theorem matchInput_fn (c : Ctx) (n : Nat) (fn : Nat → Nat → Bool) (x : Info) (R : List Info)
    (hlen : c.buf.len ≤ c.buf.info.length) (hin : inP c.buf = x :: R) (hpl : ∀ y ∈ x :: R, Plain y)
    (hp : NoSkipFlags c.lookupProps) (hps : c.perSyllable = false) (hshort : n + 1 ≤ MAX_CONTEXT_LENGTH) :
    ∃ r, matchInput c n fn [0, 0, 0, 0] = .ok r ∧
      r.ok = fnMatch c.lookupMask fn 0 n R ∧
      (r.ok = true → r.endPos = c.buf.idx + n + 1 ∧ n + 1 ≤ r.positions.length ∧
        ∀ j, j ≤ n → r.positions[j]? = some (c.buf.idx + j)) := by
  obtain ⟨hcur, hx, hR⟩ := window_cons c.buf.info c.buf.idx c.buf.len x R hin
  have hget : Mem.get c.buf.info c.buf.idx = .ok x := by unfold Mem.get; rw [hx]; rfl
  have hplx := hpl x (List.mem_cons_self)
  have hnc : ¬ n + 1 > MAX_CONTEXT_LENGTH := by omega
  generalize hP0 : (if n + 1 > [0, 0, 0, 0].length then resizeNat [0, 0, 0, 0] (n + 1) else [0, 0, 0, 0]) = P0
  have hP0l : n + 1 ≤ P0.length := by
    rw [← hP0]
    by_cases h : n + 1 > [0, 0, 0, 0].length
    · rw [if_pos h, resizeNat_length]; exact Nat.le_refl _
    · rw [if_neg h]; omega
  obtain ⟨r, hrun, hok, hrest⟩ := matchLoop_fn c fn (ligComp x) hp hlen n
    { lookupProps := c.lookupProps, ignoreZwnj := c.isGpos || (false && c.autoZwnj), ignoreZwj := false || c.autoZwj,
      ignoreHidden := c.isGpos, mask := c.lookupMask, syllable := 0, bufLen := c.buf.len, glyphData := 0, idx := c.buf.idx,
      matching := some fn }
    P0 0 0 1 R rfl rfl rfl rfl rfl hR (fun y hy => hpl y (List.mem_cons_of_mem _ hy)) (by omega)
  by_cases hrok : r.ok = true
  · obtain ⟨h1, h2, h3, _⟩ := hrest hrok
    refine ⟨{ r with positions := r.positions.set 0 c.buf.idx, totalComps := (r.totalComps + ligNumComps x) % 256 }, ?_, hok, ?_⟩
    · simp only [matchInput, hnc, if_false, It.new, hps, Bool.and_false, Bool.false_eq_true, bind, Except.bind, pure,
        Except.pure, hget, hP0, hplx.ligId, Nat.add_sub_cancel, hrun, hrok, if_true]
    · intro _
      refine ⟨h1, by simp only [List.length_set]; omega, ?_⟩
      intro j hj
      cases j with
      | zero => simp only [Nat.add_zero]; rw [List.getElem?_set_self (by omega)]
      | succ j =>
        rw [List.getElem?_set_ne (by omega)]
        have := h3 j (by omega)
        simp only [] at this
        rw [show j + 1 = 1 + j by omega, this]
        congr 1; omega
  · refine ⟨r, ?_, hok, fun h => absurd h hrok⟩
    simp only [matchInput, hnc, if_false, It.new, hps, Bool.and_false, Bool.false_eq_true, bind, Except.bind, pure,
      Except.pure, hget, hP0, hplx.ligId, Nat.add_sub_cancel, hrun, hrok]

/-! ### lookahead -/

/-- the loop of `match_lookahead` over glyphs that are not default-ignorable -/
theorem lookaheadLoop_fn (c : Ctx) (fn : Nat → Nat → Bool) (hp : NoSkipFlags c.lookupProps)
    (hlen : c.buf.len ≤ c.buf.info.length) :
    ∀ (n : Nat) (it : It) (R : List Info),
      it.lookupProps = c.lookupProps → it.syllable = 0 → it.matching = some fn → it.bufLen = c.buf.len →
      (c.buf.info.drop (it.idx + 1)).take (c.buf.len - (it.idx + 1)) = R → (∀ y ∈ R, isDefaultIgnorable y = false) →
      ∃ r, matchLookahead.loop c it n = .ok r ∧ r.1 = fnMatch it.mask fn it.glyphData n R ∧
        (r.1 = true → r.2 = it.idx + n + 1) ∧ it.idx + 1 ≤ r.2 ∧ r.2 ≤ max c.buf.len (it.idx + 1) := by
  intro n
  induction n with
  | zero =>
    intro it R _ _ _ _ _ _
    exact ⟨(true, it.idx + 1), rfl, rfl, fun _ => rfl, Nat.le_refl _, Nat.le_max_right _ _⟩
  | succ n ih =>
    intro it R hlp hsy hma hbl hR hpl
    have hpit : NoSkipFlags it.lookupProps := by rw [hlp]; exact hp
    cases R with
    | nil =>
      have hnlt : ¬ it.idx + 1 < it.bufLen := by
        rw [hbl]
        by_cases hle : it.idx + 1 ≤ c.buf.info.length
        · exact window_nil c.buf.info (it.idx + 1) c.buf.len hlen hR
        · omega
      refine ⟨(false, it.idx + 1), ?_, rfl, (fun h => by cases h), Nat.le_refl _, Nat.le_max_right _ _⟩
      simp only [matchLookahead.loop, bind, Except.bind]
      rw [← hbl, next_end it c.font c.buf.info it.bufLen hnlt]
      rfl
    | cons y R =>
      obtain ⟨hlt, hy, hR'⟩ := window_cons c.buf.info (it.idx + 1) c.buf.len y R hR
      have hply := hpl y (List.mem_cons_self)
      have hlen1 : c.buf.len = (c.buf.len - 1) + 1 := by omega
      have hnext := next_plain it c.font c.buf.info fn (c.buf.len - 1) y hpit hsy hma
        (by rw [hbl]; exact hlt) hy hply
      rw [← hlen1] at hnext
      by_cases hc : (y.mask &&& it.mask != 0 && fn (y.gid % 65536) it.glyphData) = true
      · simp only [hc, if_true] at hnext
        obtain ⟨r, hrun, hok, hend, hlo, hhi⟩ := ih { it with idx := it.idx + 1, glyphData := it.glyphData + 1 } R
          hlp hsy hma hbl hR' (fun z hz => hpl z (List.mem_cons_of_mem _ hz))
        refine ⟨r, ?_, ?_, ?_, ?_, ?_⟩
        · simp only [matchLookahead.loop, bind, Except.bind, hnext, Bool.not_true, Bool.false_eq_true, if_false]
          exact hrun
        · rw [hok]; simp only [fnMatch, hc, Bool.true_and]
        · intro h; have := hend h; simp only [] at this; omega
        · simp only [] at hlo; omega
        · simp only [] at hhi; omega
      · simp only [hc, Bool.false_eq_true, if_false] at hnext
        refine ⟨(false, it.idx + 1 + 1), ?_, ?_, (fun h => by cases h), by simp, by simp only []; omega⟩
        · simp only [matchLookahead.loop, bind, Except.bind, hnext, Bool.not_false, if_true]
          rfl
        · simp only [fnMatch]
          have : (y.mask &&& it.mask != 0 && fn (y.gid % 65536) it.glyphData) = false := by simpa using hc
          rw [this]; rfl

/-- **`match_lookahead` without skippable glyphs**: a prefix test of the input behind `start` with the all-ones mask
    (`context_match`); on success the end index is `start + n`. -/
theorem matchLookahead_fn (c : Ctx) (n : Nat) (fn : Nat → Nat → Bool) (start : Nat) (R : List Info)
    (hlen : c.buf.len ≤ c.buf.info.length) (hst : 0 < start)
    (hR : (c.buf.info.drop start).take (c.buf.len - start) = R) (hpl : ∀ y ∈ R, isDefaultIgnorable y = false)
    (hp : NoSkipFlags c.lookupProps) (hps : c.perSyllable = false) :
    ∃ r, matchLookahead c n fn start = .ok r ∧ r.1 = fnMatch U32MAX fn 0 n R ∧
      (r.1 = true → r.2 = start + n) ∧ start ≤ r.2 ∧ r.2 ≤ max c.buf.len start := by
  have hs0 : ¬ start = 0 := by omega
  have hs1 : start - 1 + 1 = start := by omega
  obtain ⟨r, hrun, hok, hend, hlo, hhi⟩ := lookaheadLoop_fn c fn hp hlen n
    { lookupProps := c.lookupProps, ignoreZwnj := c.isGpos || (true && c.autoZwnj), ignoreZwj := true || c.autoZwj,
      ignoreHidden := c.isGpos, mask := U32MAX, syllable := 0, bufLen := c.buf.len, glyphData := 0, idx := start - 1,
      matching := some fn }
    R rfl rfl rfl rfl (by simp only [hs1]; exact hR) hpl
  refine ⟨r, ?_, hok, ?_, ?_, ?_⟩
  · simp only [matchLookahead, hs0, if_false, It.new, hps, Bool.and_false, Bool.false_eq_true, bind, Except.bind, pure,
      Except.pure, if_true]
    exact hrun
  · intro h; have := hend h; simp only [] at this; omega
  · simp only [] at hlo; omega
  · simp only [] at hhi; omega

/-! ### backtrack -/

theorem prev_plain (it : It) (f : Font) (out : List Info) (fn : Nat → Nat → Bool) (fuel : Nat) (y : Info)
    (hp : NoSkipFlags it.lookupProps) (hs : it.syllable = 0) (hm : it.matching = some fn)
    (hpos : 0 < it.idx) (hy : out[it.idx - 1]? = some y) (hpl : isDefaultIgnorable y = false) :
    It.prev it f out (fuel + 1) =
      if (y.mask &&& it.mask != 0 && fn (y.gid % 65536) it.glyphData) = true then
        .ok (true, { it with idx := it.idx - 1, glyphData := it.glyphData + 1 }, 0)
      else .ok (false, { it with idx := it.idx - 1 }, max (it.idx - 1) 1 - 1) := by
  have hget : Mem.get out (it.idx - 1) = .ok y := by unfold Mem.get; rw [hy]; rfl
  have hmatch := match_plain { it with idx := it.idx - 1 } f fn y hp hs hm hpl
  have hgt : it.idx > 0 := hpos
  simp only [It.prev, hgt, if_true, bind, Except.bind, hget, hmatch]
  by_cases hc : (y.mask &&& it.mask != 0 && fn (y.gid % 65536) it.glyphData) = true
  · simp only [hc, if_true]; rfl
  · simp only [hc]; rfl

theorem prev_end (it : It) (f : Font) (out : List Info) (fuel : Nat) (h0 : it.idx = 0) :
    It.prev it f out fuel = .ok (false, it, 0) := by
  cases fuel with
  | zero => rfl
  | succ k =>
    have : ¬ it.idx > 0 := by omega
    simp only [It.prev, this, if_false]; rfl

/-- the loop of `match_backtrack`: `O` is the out-buffer prefix `out[0 .. it.idx)`, read from its end -/
theorem backtrackLoop_fn (c : Ctx) (fn : Nat → Nat → Bool) (hp : NoSkipFlags c.lookupProps) :
    ∀ (n : Nat) (it : It) (O : List Info),
      it.lookupProps = c.lookupProps → it.syllable = 0 → it.matching = some fn →
      c.buf.outArr.take it.idx = O → it.idx ≤ c.buf.outArr.length → (∀ y ∈ O, isDefaultIgnorable y = false) →
      ∃ r, matchBacktrack.loop c it n = .ok r ∧ r.1 = fnMatch it.mask fn it.glyphData n O.reverse ∧
        (r.1 = true → r.2 = it.idx - n) ∧ r.2 ≤ it.idx := by
  intro n
  induction n with
  | zero =>
    intro it O _ _ _ _ _ _
    exact ⟨(true, it.idx), rfl, rfl, fun _ => rfl, Nat.le_refl _⟩
  | succ n ih =>
    intro it O hlp hsy hma hO hle hpl
    have hpit : NoSkipFlags it.lookupProps := by rw [hlp]; exact hp
    by_cases h0 : it.idx = 0
    · have hOn : O = [] := by rw [← hO, h0]; rfl
      refine ⟨(false, 0), ?_, ?_, (fun h => by cases h), Nat.zero_le _⟩
      · simp only [matchBacktrack.loop, bind, Except.bind, prev_end it c.font c.buf.outArr (it.idx + 1) h0]
        rfl
      · rw [hOn]; rfl
    · have hpos : 0 < it.idx := by omega
      have hlt : it.idx - 1 < c.buf.outArr.length := by omega
      have hy : c.buf.outArr[it.idx - 1]? = some c.buf.outArr[it.idx - 1] := List.getElem?_eq_getElem hlt
      generalize hyd : c.buf.outArr[it.idx - 1] = y at hy
      have hOs : O = c.buf.outArr.take (it.idx - 1) ++ [y] := by
        rw [← hO]
        have : it.idx = (it.idx - 1) + 1 := by omega
        conv => lhs; rw [this]
        rw [List.take_add_one, hy]; rfl
      have hrev : O.reverse = y :: (c.buf.outArr.take (it.idx - 1)).reverse := by rw [hOs]; simp
      have hply : isDefaultIgnorable y = false := hpl y (by rw [hOs]; simp)
      have hprev := prev_plain it c.font c.buf.outArr fn it.idx y hpit hsy hma hpos hy hply
      by_cases hc : (y.mask &&& it.mask != 0 && fn (y.gid % 65536) it.glyphData) = true
      · simp only [hc, if_true] at hprev
        obtain ⟨r, hrun, hok, hend, hhi⟩ := ih { it with idx := it.idx - 1, glyphData := it.glyphData + 1 }
          (c.buf.outArr.take (it.idx - 1)) hlp hsy hma rfl (by simp only []; omega)
          (fun z hz => hpl z (by rw [hOs]; exact List.mem_append_left _ hz))
        refine ⟨r, ?_, ?_, ?_, ?_⟩
        · simp only [matchBacktrack.loop, bind, Except.bind, hprev, Bool.not_true, Bool.false_eq_true, if_false]
          exact hrun
        · rw [hok, hrev]; simp only [fnMatch, hc, Bool.true_and]
        · intro h; have := hend h; simp only [] at this; omega
        · simp only [] at hhi; omega
      · simp only [hc, Bool.false_eq_true, if_false] at hprev
        refine ⟨(false, max (it.idx - 1) 1 - 1), ?_, ?_, (fun h => by cases h), by simp only []; omega⟩
        · simp only [matchBacktrack.loop, bind, Except.bind, hprev, Bool.not_false, if_true]
          rfl
        · rw [hrev]
          simp only [fnMatch]
          have : (y.mask &&& it.mask != 0 && fn (y.gid % 65536) it.glyphData) = false := by simpa using hc
          rw [this]; rfl

/-- **`match_backtrack` without skippable glyphs**: a prefix test of the reversed out-buffer with the all-ones mask; on
    success the start index is `out_len - n`. -/
theorem matchBacktrack_fn (c : Ctx) (n : Nat) (fn : Nat → Nat → Bool)
    (hho : c.buf.haveOutput = true) (hol : c.buf.outLen ≤ c.buf.outArr.length)
    (hpl : ∀ y ∈ c.buf.outArr.take c.buf.outLen, isDefaultIgnorable y = false)
    (hp : NoSkipFlags c.lookupProps) (hps : c.perSyllable = false) :
    ∃ r, matchBacktrack c n fn = .ok r ∧ r.1 = fnMatch U32MAX fn 0 n (c.buf.outArr.take c.buf.outLen).reverse ∧
      (r.1 = true → r.2 = c.buf.outLen - n) ∧ r.2 ≤ c.buf.outLen := by
  obtain ⟨r, hrun, hok, hend, hhi⟩ := backtrackLoop_fn c fn hp n
    { lookupProps := c.lookupProps, ignoreZwnj := c.isGpos || (true && c.autoZwnj), ignoreZwj := true || c.autoZwj,
      ignoreHidden := c.isGpos, mask := U32MAX, syllable := 0, bufLen := c.buf.len, glyphData := 0, idx := c.buf.outLen,
      matching := some fn }
    (c.buf.outArr.take c.buf.outLen) rfl rfl rfl rfl hol hpl
  refine ⟨r, ?_, hok, hend, hhi⟩
  simp only [matchBacktrack, hho, if_true, It.new, hps, Bool.and_false, Bool.false_eq_true, bind, Except.bind, pure,
    Except.pure, if_false]
  exact hrun

end RbModel.Gsub
