/-
  apply_lookup's position bookkeeping after a nested lookup made the buffer longer ("Fill in new entries"):
  the glyphs the nested lookup added get CONSECUTIVE positions right after the position it was applied at.
  This is the rule `Spec.Subst.applyRecords` states (`(List.range growth).map (fun j => p + 1 + j)`); here it is proved
  for the operational loop of the interpreter model (`applyLookup.loop.fill`, src: ot_layout_gsubgpos.rs::apply_lookup,
  `for j in idx + 1..next { match_positions[j] = match_positions[j - 1] + 1; }`), for every position list, every start
  and every number of added glyphs.
-/
import RbModel.Gsub

namespace RbModel.Gsub

/-- The loop from `j` (with `1 ≤ j`) up to `next = n` succeeds and writes `l[j-1] + 1, l[j-1] + 2, …` into the places
    `j … n-1`; every other place keeps its value. -/
theorem fill_spec (n : Nat) : ∀ (d : Nat) (l : List Nat) (j fuel : Nat), n - j = d → 1 ≤ j → n ≤ l.length → d ≤ fuel →
    ∃ l', applyLookup.loop.fill (n : Int) l j fuel = .ok l' ∧ l'.length = l.length ∧
      (∀ k, j ≤ k → k < n → l'[k]? = (l[j - 1]?).map (· + (k - j + 1))) ∧
      (∀ k, (k < j ∨ n ≤ k) → l'[k]? = l[k]?) := by
  intro d
  induction d with
  | zero =>
    intro l j fuel hd _ _ _
    have hjn : ¬ ((j : Int) < (n : Int)) := by omega
    refine ⟨l, ?_, rfl, ?_, ?_⟩
    · cases fuel with
      | zero => simp [applyLookup.loop.fill, pure, Except.pure]
      | succ k => simp [applyLookup.loop.fill, hjn, pure, Except.pure]
    · intro k h1 h2; omega
    · intro k _; rfl
  | succ d ih =>
    intro l j fuel hd hj hn hf
    obtain ⟨k, rfl⟩ : ∃ k, fuel = k + 1 := ⟨fuel - 1, by omega⟩
    have hjn : (j : Int) < (n : Int) := by omega
    have hjl : j < l.length := by omega
    have hp : j - 1 < l.length := by omega
    obtain ⟨l', hrun, hlen, hin, hout⟩ := ih (l.set j (l[j - 1] + 1)) (j + 1) k (by omega) (by omega)
      (by simpa using hn) (by omega)
    refine ⟨l', ?_, ?_, ?_, ?_⟩
    · rw [applyLookup.loop.fill]
      simp only [hjn, if_true, getPos, List.getElem?_eq_getElem hp, hjl]
      simpa [bind, Except.bind, pure, Except.pure] using hrun
    · simpa using hlen
    · intro q hq1 hq2
      by_cases hq : q = j
      · subst hq
        have := hout q (Or.inl (by omega))
        rw [this]
        simp [hjl, List.getElem?_eq_getElem hp]
      · have := hin q (by omega) hq2
        rw [this]
        have e1 : j + 1 - 1 = j := by omega
        simp only [e1, List.getElem?_set, hjl, if_true, List.getElem?_eq_getElem hp, Option.map_some]
        simp
        omega
    · intro q hq
      have := hout q (by omega)
      rw [this, List.getElem?_set]
      have : j ≠ q := by omega
      simp [this]

/-- **"Fill in new entries" writes consecutive positions.**  The call `apply_lookup` makes after a nested lookup at
    sequence index `s` made the buffer longer (`fill positions (s + 1) (next + 1)`, `next = s + 1 + delta`): every added
    glyph `s + 1 + i` (`i < delta`) gets the buffer position `positions[s] + 1 + i` — the first added glyph the position
    right after the one the nested lookup was applied at, the LAST added glyph `positions[s] + delta` — and no other
    entry changes. -/
theorem fill_consecutive (positions : List Nat) (s delta p : Nat) (hp : positions[s]? = some p)
    (hlen : s + 1 + delta ≤ positions.length) :
    ∃ l', applyLookup.loop.fill ((s + 1 + delta : Nat) : Int) positions (s + 1) (s + 1 + delta + 1) = .ok l' ∧
      l'.length = positions.length ∧
      (∀ i, i < delta → l'[s + 1 + i]? = some (p + 1 + i)) ∧
      (∀ k, (k ≤ s ∨ s + 1 + delta ≤ k) → l'[k]? = positions[k]?) := by
  obtain ⟨l', h1, h2, h3, h4⟩ := fill_spec (s + 1 + delta) delta positions (s + 1) (s + 1 + delta + 1) (by omega) (by omega)
    hlen (by omega)
  refine ⟨l', h1, h2, ?_, ?_⟩
  · intro i hi
    have := h3 (s + 1 + i) (by omega) (by omega)
    rw [this]
    have e : s + 1 - 1 = s := by omega
    rw [e, hp]
    simp
    omega
  · intro k hk
    exact h4 k (by omega)

/-- In closed form: the result is the `Spec.Subst.applyRecords` rule — the prefix up to `s`, then
    `p + 1, …, p + delta`, then the old entries from `s + 1 + delta` on. -/
theorem fill_closed_form (positions : List Nat) (s delta p : Nat) (hp : positions[s]? = some p)
    (hlen : s + 1 + delta ≤ positions.length) :
    applyLookup.loop.fill ((s + 1 + delta : Nat) : Int) positions (s + 1) (s + 1 + delta + 1) =
      .ok (positions.take (s + 1) ++ (List.range delta).map (fun i => p + 1 + i) ++ positions.drop (s + 1 + delta)) := by
  obtain ⟨l', h1, h2, h3, h4⟩ := fill_consecutive positions s delta p hp hlen
  rw [h1]
  congr 1
  have hl : (positions.take (s + 1)).length = s + 1 := by
    rw [List.length_take]; omega
  have hm : ((List.range delta).map (fun i => p + 1 + i)).length = delta := by simp
  apply List.ext_getElem?
  intro k
  by_cases hk : k ≤ s
  · rw [h4 k (Or.inl hk), List.append_assoc, List.getElem?_append_left (by omega), List.getElem?_take]
    have : k < s + 1 := by omega
    simp [this]
  · by_cases hk2 : k < s + 1 + delta
    · obtain ⟨i, rfl⟩ : ∃ i, k = s + 1 + i := ⟨k - (s + 1), by omega⟩
      have hi : i < delta := by omega
      rw [h3 i hi, List.append_assoc, List.getElem?_append_right (by omega), hl]
      have : s + 1 + i - (s + 1) = i := by omega
      rw [this, List.getElem?_append_left (by omega)]
      simp [hi]
    · rw [h4 k (Or.inr (by omega)), List.getElem?_append_right (by rw [List.length_append]; omega),
        List.length_append, hl, hm, List.getElem?_drop]
      congr 1
      omega

end RbModel.Gsub
