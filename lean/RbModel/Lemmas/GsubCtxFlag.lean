/-
  Contextual GSUB lookups, step 3a: the glyph-flag calls between a successful match and `apply_lookup`
  (`unsafe_to_break` for Context, `unsafe_to_break_from_outbuffer` for ChainContext) never panic on a state of the forward scan
  and change nothing but glyph-flag bits of masks (and `scratch_flags`): the buffer stays well-formed, and glyph ids, clusters,
  feature bits, `var1`, `var2` of every glyph of `out ++ in` are kept.
-/
import RbModel.Lemmas.GsubCtxRule
import RbModel.Lemmas.FeatureGsub
import RbModel.Lemmas.Flags

namespace RbModel.Gsub
open RbModel RbModel.Buf RbModel.Mem RbModel.Spec.Subst RbModel.Flags

/-- the feature bits of a mask -/
abbrev FM : Nat := U32MAX - Flag.DEFINED

/-! ### no panic -/

theorem setGlyphFlags_in_total (b : Buf) (mask s e : Nat) (hse : s ≤ e) (he : e ≤ b.len) (hlen : b.len ≤ b.info.length) :
    ∃ b', b.setGlyphFlags mask s (some e) true false = .ok b' := by
  have hmin : min e b.len = e := by omega
  by_cases hsm : e - s < 2
  · exact ⟨b, by simp [Buf.setGlyphFlags, hmin, hse, hsm]; rfl⟩
  · obtain ⟨r, hr, _⟩ := findMinCluster_any b.level b.info s e U32MAX hse (by omega)
    obtain ⟨l', ch, p, q, hi, _⟩ := infosSetGlyphFlags_any b.level b.info s e r mask hse (by omega)
    cases h : b.setGlyphFlags mask s (some e) true false with
    | ok b' => exact ⟨b', rfl⟩
    | error err =>
      exfalso
      cases ch <;> simp [Buf.setGlyphFlags, hmin, hse, hsm, hr, hi, bind, Except.bind, pure, Except.pure] at h

theorem setGlyphFlags_out_total (b : Buf) (mask s e : Nat) (hho : b.haveOutput = true) (hs : s ≤ b.outLen)
    (hol : b.outLen ≤ b.outArr.length) (hie : b.idx ≤ e) (he : e ≤ b.len) (hlen : b.len ≤ b.info.length)
    (hout : b.out.length = b.info.length) :
    ∃ b', b.setGlyphFlags mask s (some e) true true = .ok b' := by
  have hel : e ≤ b.info.length := by omega
  have hmin : min e b.len = e := by omega
  obtain ⟨r1, hr1, _⟩ := findMinCluster_any b.level b.info b.idx e U32MAX hie hel
  obtain ⟨r, hr, _⟩ := findMinCluster_any b.level b.outArr s b.outLen r1 hs hol
  obtain ⟨o1, ch1, p1, q1, hi1, _, _, _, d4, _⟩ := infosSetGlyphFlags_any b.level b.outArr s b.outLen r mask hs hol
  have hI1len : e ≤ (if b.sepOut then b.info else o1).length := by
    cases hso : b.sepOut with
    | true => simp; exact hel
    | false =>
      simp
      have : b.outArr = b.info := by simp [Buf.outArr, hso]
      rw [d4.1, this]; exact hel
  obtain ⟨info, ch2, p2, q2, hi2, _⟩ :=
    infosSetGlyphFlags_any b.level (if b.sepOut then b.info else o1) b.idx e r mask hie hI1len
  have g1 : ¬ s > b.outLen := by omega
  have g2 : ¬ b.idx > e := by omega
  cases hso : b.sepOut with
  | true =>
    simp only [hso, if_true] at hi2
    have ho : b.outArr = b.out := by simp [Buf.outArr, hso]
    rw [ho] at hr hi1
    cases h : b.setGlyphFlags mask s (some e) true true with
    | ok b' => exact ⟨b', rfl⟩
    | error err =>
      exfalso
      cases ch1 <;> cases ch2 <;>
        simp [Buf.setGlyphFlags, hmin, hho, g1, g2, hr1, hr, hi1, hi2, bind, Except.bind, pure, Except.pure, Buf.addScratch,
          Buf.setOutArr, Buf.outArr, hso] at h
  | false =>
    simp only [hso, Bool.false_eq_true, if_false] at hi2
    have ho : b.outArr = b.info := by simp [Buf.outArr, hso]
    rw [ho] at hr hi1
    cases h : b.setGlyphFlags mask s (some e) true true with
    | ok b' => exact ⟨b', rfl⟩
    | error err =>
      exfalso
      cases ch1 <;> cases ch2 <;>
        simp [Buf.setGlyphFlags, hmin, hho, g1, g2, hr1, hr, hi1, hi2, bind, Except.bind, pure, Except.pure, Buf.addScratch,
          Buf.setOutArr, Buf.outArr, hso] at h

/-! ### what is kept -/

theorem flag_break_FM : (Flag.UNSAFE_TO_BREAK ||| Flag.UNSAFE_TO_CONCAT) &&& FM = 0 := by decide

theorem FlagsOnlyOn.outArr' {M : Nat} {b b' : Buf} (h : FlagsOnlyOn M b b') : SameOn M b.outArr b'.outArr := by
  obtain ⟨h1, h2, h3⟩ := h
  have hs : b'.sepOut = b.sepOut := by rw [h1]
  unfold Buf.outArr
  rw [hs]
  cases b.sepOut
  · exact h2
  · exact h3

theorem SameOn.take' {M : Nat} {l l' : List Info} (h : SameOn M l l') (n : Nat) : SameOn M (l.take n) (l'.take n) := by
  unfold SameOn at *; rw [List.map_take, List.map_take, h]
theorem SameOn.drop' {M : Nat} {l l' : List Info} (h : SameOn M l l') (n : Nat) : SameOn M (l.drop n) (l'.drop n) := by
  unfold SameOn at *; rw [List.map_drop, List.map_drop, h]
theorem SameOn.append' {M : Nat} {a a' c c' : List Info} (h1 : SameOn M a a') (h2 : SameOn M c c') :
    SameOn M (a ++ c) (a' ++ c') := by
  unfold SameOn at *; rw [List.map_append, List.map_append, h1, h2]

theorem SameOn.mem {M : Nat} {l l' : List Info} (h : SameOn M l l') {y' : Info} (hy : y' ∈ l') :
    ∃ y ∈ l, keepOn M y' = keepOn M y := by
  have : keepOn M y' ∈ l'.map (keepOn M) := List.mem_map.2 ⟨y', hy, rfl⟩
  rw [h] at this
  obtain ⟨y, hy1, hy2⟩ := List.mem_map.1 this
  exact ⟨y, hy1, hy2.symm⟩

theorem keepOn_fields {M : Nat} {y y' : Info} (h : keepOn M y' = keepOn M y) :
    y'.gid = y.gid ∧ y'.cluster = y.cluster ∧ y'.var1 = y.var1 ∧ y'.var2 = y.var2 ∧ y'.mask &&& M = y.mask &&& M := by
  unfold keepOn at h
  injection h with h1 h2 h3 h4 h5
  exact ⟨h1, h3, h4, h5, h2⟩

theorem ctxG_keepOn {y y' : Info} (h : keepOn FM y' = keepOn FM y) (hy : CtxG y) : CtxG y' := by
  obtain ⟨h1, _, _, h4, h5⟩ := keepOn_fields h
  refine ⟨?_, by rw [h1]; exact hy.2.1, ?_⟩
  · unfold unicodeProps; rw [h4]; exact hy.1
  · show y'.mask &&& FM ≠ 0
    rw [h5]; exact hy.2.2

theorem plain_keepOn {y y' : Info} (h : keepOn FM y' = keepOn FM y) (hy : Plain y) : Plain y' := by
  obtain ⟨_, _, h3, h4, _⟩ := keepOn_fields h
  unfold Plain isDefaultIgnorable unicodeProps substituted glyphProps ligProps at *
  rw [h3, h4]; exact hy

theorem relF_sameOn {L L' : List Info} {gs : List G} (h : SameOn FM L L') (hrel : RelF L gs) : RelF L' gs := by
  unfold RelF at *
  rw [← hrel]
  have e : ∀ l : List Info, l.map projF = (l.map (keepOn FM)).map projF := by
    intro l
    rw [List.map_map]
    apply List.map_congr_left
    intro y _
    show (y.gid, y.cluster, featBits y.mask) = (y.gid, y.cluster, featBits (y.mask &&& FM))
    unfold featBits
    rw [Nat.and_assoc, Nat.and_self]
  rw [e L', e L, h]

/-- the scan state after a glyph-flag call -/
theorem flagged_state {b bf : Buf} (h : FlagsOnlyOn FM b bf) (hinv : Inv b) :
    Inv bf ∧ bf.outLen = b.outLen ∧ bf.idx = b.idx ∧ bf.len = b.len ∧ bf.maxLen = b.maxLen ∧ bf.maxOps = b.maxOps ∧
      bf.flags = b.flags ∧ bf.successful = b.successful ∧ bf.level = b.level ∧
      SameOn FM (outP b) (outP bf) ∧ SameOn FM (inP b) (inP bf) := by
  have ho := FlagsOnlyOn.outArr' h
  obtain ⟨h1, h2, h3⟩ := h
  have e1 : bf.outLen = b.outLen := by rw [h1]
  have e2 : bf.idx = b.idx := by rw [h1]
  have e3 : bf.len = b.len := by rw [h1]
  have e4 : bf.sepOut = b.sepOut := by rw [h1]
  have e5 : bf.haveOutput = b.haveOutput := by rw [h1]
  have l1 := h2.length
  have l2 := h3.length
  refine ⟨⟨by rw [e2, e3]; exact hinv.idx_le, by rw [e3, l1]; exact hinv.len_le, by rw [l1, l2]; exact hinv.out_len,
      by rw [e4, e1, l2]; exact hinv.sep_ok, by rw [e4, e1, e2]; exact hinv.nosep_ok, by rw [e5]; exact hinv.have_out⟩,
    e1, e2, e3, by rw [h1], by rw [h1], by rw [h1], by rw [h1], by rw [h1], ?_, ?_⟩
  · unfold outP; rw [e1]; exact SameOn.take' ho _
  · unfold inP; rw [e2, e3]; exact SameOn.take' (SameOn.drop' h2 _) _

end RbModel.Gsub
