/-
  "The flagged span covers what was inspected" — part 1: instrumented matchers.

  `It.nextI`, `It.prevI`, `matchInputI`, `matchLookaheadI`, `matchBacktrackI` run the code of `It.next`, `It.prev`,
  `matchInput`, `matchLookahead`, `matchBacktrack` (Gsub.lean, the line-by-line models of ot_layout_gsubgpos.rs) and return, next
  to the result, the list of buffer indices whose glyph was READ (`Rd.inp i` = `buffer.info[i]`, `Rd.out j` = `out_info()[j]`),
  including the ignored glyphs that were stepped over and the glyph that made the matcher stop.  The `*_erase` theorems show that
  forgetting the list gives exactly the plain function — so nothing new is trusted: every statement about the reads of the
  instrumented matcher is a statement about the one run of the plain matcher.

  Then the span lemmas: where the reads lie relative to the position the matcher reports (`endPos`, `endIndex`, `startIndex`).
-/
import RbModel.Gsub
import RbModel.Lemmas.Mem

namespace RbModel.Gsub
open RbModel RbModel.Buf RbModel.Mem

/-- one read of a glyph: of the in-buffer (`buffer.info[i]`) or of the out-buffer (`buffer.out_info()[j]`) -/
inductive Rd where
  | inp (i : Nat)
  | out (j : Nat)
  deriving DecidableEq, Repr

/-- why `match_input` returned: it matched; `count > MAX_CONTEXT_LENGTH`; the skipping iterator found no (matching) glyph;
    one of the three `return false` of the ligature-component rules (which do NOT write `*end_position`) -/
inductive Why where
  | matched | tooLong | iter | ligComp
  deriving DecidableEq, Repr

/-- instrumented result of `match_input` -/
structure MatchInI where
  r : MatchIn
  reads : List Rd
  why : Why

/-- src: skipping_iterator_t::next, with the indices read -/
def It.nextI (it : It) (f : Font) (info : List Info) : Nat → M ((Bool × It × Nat) × List Nat)
  | 0 => pure ((false, it, it.idx + 1), [])
  | fuel + 1 =>
      if it.idx + 1 < it.bufLen then do
        let it := { it with idx := it.idx + 1 }
        let x ← get info it.idx
        match it.match_ f x with
        | .matched => pure ((true, { it with glyphData := it.glyphData + 1 }, 0), [it.idx])
        | .notMatch => pure ((false, it, it.idx + 1), [it.idx])
        | .skip => do
            let (r, rs) ← It.nextI it f info fuel
            pure (r, it.idx :: rs)
      else pure ((false, it, it.idx + 1), [])

/-- src: skipping_iterator_t::prev, with the indices read -/
def It.prevI (it : It) (f : Font) (out : List Info) : Nat → M ((Bool × It × Nat) × List Nat)
  | 0 => pure ((false, it, 0), [])
  | fuel + 1 =>
      if it.idx > 0 then do
        let it := { it with idx := it.idx - 1 }
        let x ← get out it.idx
        match it.match_ f x with
        | .matched => pure ((true, { it with glyphData := it.glyphData + 1 }, 0), [it.idx])
        | .notMatch => pure ((false, it, max it.idx 1 - 1), [it.idx])
        | .skip => do
            let (r, rs) ← It.prevI it f out fuel
            pure (r, it.idx :: rs)
      else pure ((false, it, 0), [])

/-- the lig-base scan of match_input, with the out-buffer indices read -/
def findLigBaseI (out : List Info) (firstLigId : Nat) : Nat → M ((Bool × Nat) × List Rd)
  | 0 => pure ((false, 0), [])
  | j + 1 => do
      let x ← get out j
      if ligId x == firstLigId then
        if ligComp x == 0 then pure ((true, j), [.out j])
        else do
          let (r, rs) ← findLigBaseI out firstLigId j
          pure (r, .out j :: rs)
      else pure ((false, j + 1), [.out j])

/-- the ligature-component rules of match_input for one matched component `this`:
    `none` = `return false`, `some lb` = go on with `ligbase = lb`; with the out-buffer reads of the lig-base scan -/
def ligStepI (c : Ctx) (it : It) (firstLigId firstLigComp : Nat) (this : Info) (ligbase : Nat) : M (Option Nat × List Rd) :=
  if firstLigId != 0 && firstLigComp != 0 then
    if firstLigId != ligId this || firstLigComp != ligComp this then do
      let (lb, rs) ← if ligbase == 0 then do
          let ((found, j), rs) ← findLigBaseI c.buf.outArr firstLigId c.buf.outLen
          let skippable ← if found then do
              let o ← get c.buf.outArr j
              pure (it.maySkip c.font o == .yes) else pure false
          pure (if skippable then 2 else 1, rs)
        else pure (ligbase, [])
      if lb == 1 then pure (none, rs) else pure (some lb, rs)
    else pure (some ligbase, [])
  else
    if ligId this != 0 && ligComp this != 0 && ligId this != firstLigId then pure (none, [])
    else pure (some ligbase, [])

/-- the component loop of match_input, with the reads -/
def matchInputI.loop (c : Ctx) (firstLigId firstLigComp : Nat) (it : It) (positions : List Nat) (total ligbase k : Nat) :
    Nat → M MatchInI
  | 0 => pure ⟨{ ok := true, endPos := it.idx + 1, positions := positions, totalComps := total }, [], .matched⟩
  | rest + 1 => do
      let ((found, it, unsafeTo), rs) ← It.nextI it c.font c.buf.info c.buf.len
      if !found then
        return ⟨{ ok := false, endPos := unsafeTo, positions := positions, totalComps := total }, rs.map .inp, .iter⟩
      let positions := positions.set k it.idx
      let this ← get c.buf.info it.idx
      let (lb, rs2) ← ligStepI c it firstLigId firstLigComp this ligbase
      match lb with
      | none => pure ⟨{ ok := false, endPos := 0, positions := positions, totalComps := total }, rs.map .inp ++ rs2, .ligComp⟩
      | some lb => do
          let r ← matchInputI.loop c firstLigId firstLigComp it positions (total + ligNumComps this) lb (k + 1) rest
          pure { r with reads := rs.map .inp ++ rs2 ++ r.reads }

/-- src: ot_layout_gsubgpos.rs::match_input, with the reads (the current glyph `info[idx]` first) -/
def matchInputI (c : Ctx) (inputLen : Nat) (matchFn : Nat → Nat → Bool) (positions : List Nat) : M MatchInI := do
  let count := inputLen + 1
  if count > MAX_CONTEXT_LENGTH then
    return ⟨{ ok := false, endPos := 0, positions := positions, totalComps := 0 }, [], .tooLong⟩
  let positions := if count > positions.length then resizeNat positions count else positions
  let it ← It.new c c.buf.idx false
  let it := { it with glyphData := 0, matching := some matchFn }
  let first ← get c.buf.info c.buf.idx
  let r ← matchInputI.loop c (ligId first) (ligComp first) it positions 0 0 1 (count - 1)
  let r := { r with reads := .inp c.buf.idx :: r.reads }
  if r.r.ok then
    pure { r with r := { r.r with positions := r.r.positions.set 0 c.buf.idx,
                                  totalComps := (r.r.totalComps + ligNumComps first) % 256 } }
  else pure r

def matchBacktrackI.loop (c : Ctx) (it : It) : Nat → M ((Bool × Nat) × List Nat)
  | 0 => pure ((true, it.idx), [])
  | k + 1 => do
      let ((found, it, unsafeFrom), rs) ← It.prevI it c.font c.buf.outArr (it.idx + 1)
      if !found then return ((false, unsafeFrom), rs)
      let (r, rs2) ← matchBacktrackI.loop c it k
      pure (r, rs ++ rs2)

/-- src: match_backtrack, with the out-buffer indices read -/
def matchBacktrackI (c : Ctx) (n : Nat) (matchFn : Nat → Nat → Bool) : M ((Bool × Nat) × List Nat) := do
  let bl := if c.buf.haveOutput then c.buf.outLen else c.buf.idx
  let it ← It.new c bl true
  let it := { it with glyphData := 0, matching := some matchFn }
  matchBacktrackI.loop c it n

def matchLookaheadI.loop (c : Ctx) (it : It) : Nat → M ((Bool × Nat) × List Nat)
  | 0 => pure ((true, it.idx + 1), [])
  | k + 1 => do
      let ((found, it, unsafeTo), rs) ← It.nextI it c.font c.buf.info c.buf.len
      if !found then return ((false, unsafeTo), rs)
      let (r, rs2) ← matchLookaheadI.loop c it k
      pure (r, rs ++ rs2)

/-- src: match_lookahead, with the in-buffer indices read -/
def matchLookaheadI (c : Ctx) (n : Nat) (matchFn : Nat → Nat → Bool) (startIndex : Nat) : M ((Bool × Nat) × List Nat) := do
  if startIndex = 0 then throw .oob
  let it ← It.new c (startIndex - 1) true
  let it := { it with glyphData := 0, matching := some matchFn }
  matchLookaheadI.loop c it n

/-! ### erasure: forgetting the reads gives the plain matchers -/

theorem map_ok {α β} (f : α → β) (x : α) : Except.map f (.ok x : M α) = .ok (f x) := rfl
theorem map_error {α β} (f : α → β) (e : Panic) : Except.map f (.error e : M α) = .error e := rfl

theorem It.nextI_erase (f : Font) (info : List Info) : ∀ (fuel : Nat) (it : It),
    (It.nextI it f info fuel).map (·.1) = It.next it f info fuel := by
  intro fuel
  induction fuel with
  | zero => intro it; rfl
  | succ n ih =>
    intro it
    simp only [It.nextI, It.next]
    split
    · cases hg : get info (it.idx + 1) with
      | error e => rfl
      | ok x =>
        simp only [bind, Except.bind]
        split <;> rename_i hm <;> simp only [hm]
        · rfl
        · rfl
        · rw [← ih]
          cases It.nextI { it with idx := it.idx + 1 } f info n <;> rfl
    · rfl

theorem It.prevI_erase (f : Font) (out : List Info) : ∀ (fuel : Nat) (it : It),
    (It.prevI it f out fuel).map (·.1) = It.prev it f out fuel := by
  intro fuel
  induction fuel with
  | zero => intro it; rfl
  | succ n ih =>
    intro it
    simp only [It.prevI, It.prev]
    split
    · cases hg : get out (it.idx - 1) with
      | error e => rfl
      | ok x =>
        simp only [bind, Except.bind]
        split <;> rename_i hm <;> simp only [hm]
        · rfl
        · rfl
        · rw [← ih]
          cases It.prevI { it with idx := it.idx - 1 } f out n <;> rfl
    · rfl

theorem findLigBaseI_erase (out : List Info) (fl : Nat) : ∀ j,
    (findLigBaseI out fl j).map (·.1) = findLigBase out fl j := by
  intro j
  induction j with
  | zero => rfl
  | succ j ih =>
    simp only [findLigBaseI, findLigBase]
    cases hg : get out j with
    | error e => rfl
    | ok x =>
      simp only [bind, Except.bind]
      split
      · split
        · rfl
        · rw [← ih]
          cases findLigBaseI out fl j <;> rfl
      · rfl

theorem matchInputI.loop_erase (c : Ctx) (fl fc : Nat) : ∀ (rest : Nat) (it : It) (p : List Nat) (t lb k : Nat),
    (matchInputI.loop c fl fc it p t lb k rest).map (·.r) = matchInput.loop c fl fc it p t lb k rest := by
  intro rest
  induction rest with
  | zero => intro it p t lb k; rfl
  | succ n ih =>
    intro it p t lb k
    rw [matchInput.loop, matchInputI.loop, ← It.nextI_erase]
    cases It.nextI it c.font c.buf.info c.buf.len with
    | error e => rfl
    | ok v =>
      obtain ⟨⟨found, it', u⟩, rs⟩ := v
      cases found with
      | false => rfl
      | true =>
        simp only [bind, Except.bind, Except.map, Bool.not_true, Bool.false_eq_true, if_false]
        cases hg : get c.buf.info it'.idx with
        | error e => rfl
        | ok this =>
          simp only [ligStepI]
          by_cases h1 : (fl != 0 && fc != 0) = true
          · simp only [h1, if_true]
            by_cases h2 : (fl != ligId this || fc != ligComp this) = true
            · simp only [h2, if_true]
              by_cases h3 : (lb == 0) = true
              · simp only [h3, if_true]
                rw [← findLigBaseI_erase]
                cases findLigBaseI c.buf.outArr fl c.buf.outLen with
                | error e => rfl
                | ok w =>
                  obtain ⟨⟨fnd, j⟩, rs2⟩ := w
                  simp only [bind, Except.bind, Except.map]
                  cases fnd with
                  | true =>
                    simp only [if_true]
                    cases get c.buf.outArr j with
                    | error e => rfl
                    | ok o =>
                      simp only [pure, Except.pure]
                      by_cases h4 : (it'.maySkip c.font o == Skip.yes) = true
                      · simp only [h4, if_true, show ((2 : Nat) == 1) = false from rfl, Bool.false_eq_true, if_false]
                        (rw [← ih]; generalize matchInputI.loop c fl fc it' (p.set k it'.idx) (t + ligNumComps this) _ (k + 1) n = z; cases z <;> rfl)
                      · simp only [h4, Bool.false_eq_true, if_false]
                        rfl
                  | false =>
                    simp only [pure, Except.pure, Bool.false_eq_true, if_false]
                    rfl
              · simp only [h3, Bool.false_eq_true, if_false, pure, Except.pure, bind, Except.bind]
                by_cases h5 : (lb == 1) = true
                · simp only [h5, if_true]
                · simp only [h5, if_false, Bool.false_eq_true]
                  (rw [← ih]; generalize matchInputI.loop c fl fc it' (p.set k it'.idx) (t + ligNumComps this) _ (k + 1) n = z; cases z <;> rfl)
            · simp only [h2, Bool.false_eq_true, if_false, pure, Except.pure, bind, Except.bind]
              (rw [← ih]; generalize matchInputI.loop c fl fc it' (p.set k it'.idx) (t + ligNumComps this) _ (k + 1) n = z; cases z <;> rfl)
          · simp only [h1, Bool.false_eq_true, if_false]
            by_cases h6 : (ligId this != 0 && ligComp this != 0 && ligId this != fl) = true
            · simp only [h6, if_true]
              rfl
            · simp only [h6, Bool.false_eq_true, if_false, pure, Except.pure]
              (rw [← ih]; generalize matchInputI.loop c fl fc it' (p.set k it'.idx) (t + ligNumComps this) _ (k + 1) n = z; cases z <;> rfl)

theorem matchInputI_erase (c : Ctx) (n : Nat) (fn : Nat → Nat → Bool) (p : List Nat) :
    (matchInputI c n fn p).map (·.r) = matchInput c n fn p := by
  unfold matchInputI matchInput
  by_cases h : n + 1 > MAX_CONTEXT_LENGTH
  · simp only [h, if_true]; rfl
  · simp only [h, if_false, bind, Except.bind]
    cases It.new c c.buf.idx false with
    | error e => rfl
    | ok it =>
      simp only []
      cases get c.buf.info c.buf.idx with
      | error e => rfl
      | ok first =>
        simp only []
        rw [← matchInputI.loop_erase]
        cases matchInputI.loop c (ligId first) (ligComp first) { it with glyphData := 0, matching := some fn }
            (if n + 1 > p.length then resizeNat p (n + 1) else p) 0 0 1 (n + 1 - 1) with
        | error e => rfl
        | ok r =>
          simp only [Except.map]
          cases hr : r.r.ok <;> rfl

theorem matchBacktrackI.loop_erase (c : Ctx) : ∀ (n : Nat) (it : It),
    (matchBacktrackI.loop c it n).map (·.1) = matchBacktrack.loop c it n := by
  intro n
  induction n with
  | zero => intro it; rfl
  | succ n ih =>
    intro it
    rw [matchBacktrackI.loop, matchBacktrack.loop, ← It.prevI_erase]
    cases It.prevI it c.font c.buf.outArr (it.idx + 1) with
    | error e => rfl
    | ok v =>
      obtain ⟨⟨found, it', u⟩, rs⟩ := v
      cases found with
      | false => rfl
      | true =>
        simp only [bind, Except.bind, Except.map, Bool.not_true, Bool.false_eq_true, if_false]
        rw [← ih]
        cases matchBacktrackI.loop c it' n <;> rfl

theorem matchBacktrackI_erase (c : Ctx) (n : Nat) (fn : Nat → Nat → Bool) :
    (matchBacktrackI c n fn).map (·.1) = matchBacktrack c n fn := by
  unfold matchBacktrackI matchBacktrack
  simp only [bind, Except.bind]
  cases It.new c (if c.buf.haveOutput then c.buf.outLen else c.buf.idx) true with
  | error e => rfl
  | ok it => exact matchBacktrackI.loop_erase c n _

theorem matchLookaheadI.loop_erase (c : Ctx) : ∀ (n : Nat) (it : It),
    (matchLookaheadI.loop c it n).map (·.1) = matchLookahead.loop c it n := by
  intro n
  induction n with
  | zero => intro it; rfl
  | succ n ih =>
    intro it
    rw [matchLookaheadI.loop, matchLookahead.loop, ← It.nextI_erase]
    cases It.nextI it c.font c.buf.info c.buf.len with
    | error e => rfl
    | ok v =>
      obtain ⟨⟨found, it', u⟩, rs⟩ := v
      cases found with
      | false => rfl
      | true =>
        simp only [bind, Except.bind, Except.map, Bool.not_true, Bool.false_eq_true, if_false]
        rw [← ih]
        cases matchLookaheadI.loop c it' n <;> rfl

theorem matchLookaheadI_erase (c : Ctx) (n : Nat) (fn : Nat → Nat → Bool) (s : Nat) :
    (matchLookaheadI c n fn s).map (·.1) = matchLookahead c n fn s := by
  unfold matchLookaheadI matchLookahead
  by_cases h : s = 0
  · simp only [h, if_true]; rfl
  · simp only [h, if_false, bind, Except.bind]
    cases It.new c (s - 1) true with
    | error e => rfl
    | ok it => exact matchLookaheadI.loop_erase c n _

end RbModel.Gsub
