/-
  "The flagged span covers what was inspected" — part 1: instrumented matchers.

  `It.nextI`, `It.prevI`, `matchInputI`, `matchLookaheadI`, `matchBacktrackI` run the code of `It.next`, `It.prev`,
  `matchInput`, `matchLookahead`, `matchBacktrack` (Gsub.lean, the line-by-line models of ot_layout_gsubgpos.rs) and return, next
  to the result, the list of buffer indices whose glyph was READ (`Rd.inp i` = `buffer.info[i]`, `Rd.out j` / `Rd.lig j` = `out_info()[j]`),
  including the ignored glyphs that were stepped over and the glyph that made the matcher stop.  The `*_erase` theorems show that
  forgetting the list gives exactly the plain function — so nothing new is trusted: every statement about the reads of the
  instrumented matcher is a statement about the one run of the plain matcher.

  Then the span lemmas: where the reads lie relative to the position the matcher reports (`endPos`, `endIndex`, `startIndex`).
-/
import RbModel.Gsub
import RbModel.Lemmas.Mem

namespace RbModel.Gsub
open RbModel RbModel.Buf RbModel.Mem

/-- one read of a glyph: of the in-buffer (`buffer.info[i]`) or of the out-buffer (`buffer.out_info()[j]`) -/
inductive Rd where
  | inp (i : Nat)   -- `buffer.info[i]`, read by the skipping iterator going forward (input, lookahead) or as `cur()`
  | out (j : Nat)   -- `buffer.out_info()[j]`, read by the skipping iterator going backward (backtrack)
  | lig (j : Nat)   -- `buffer.out_info()[j]`, read by the lig-base scan of match_input (`while j > 0 && lig_id(out[j-1]) == …`)
  deriving DecidableEq, Repr

/-- why `match_input` returned: it matched; `count > MAX_CONTEXT_LENGTH`; the skipping iterator found no (matching) glyph;
    one of the two `return false` of the ligature-component rules (`*end_position` = the declining glyph + 1 since the
    repair "fix: match_input left end_position unset …"; it stayed 0 before) -/
inductive Why where
  | matched | tooLong | iter | ligComp
  deriving DecidableEq, Repr

/-- instrumented result of `match_input` -/
structure MatchInI where
  r : MatchIn
  reads : List Rd
  why : Why

/-- src: skipping_iterator_t::next, with the indices read -/
def It.nextI (it : It) (f : Font) (info : List Info) : Nat → M ((Bool × It × Nat) × List Nat)
  | 0 => pure ((false, it, it.idx + 1), [])
  | fuel + 1 =>
      if it.idx + 1 < it.bufLen then do
        let it := { it with idx := it.idx + 1 }
        let x ← get info it.idx
        match it.match_ f x with
        | .matched => pure ((true, { it with glyphData := it.glyphData + 1 }, 0), [it.idx])
        | .notMatch => pure ((false, it, it.idx + 1), [it.idx])
        | .skip => do
            let (r, rs) ← It.nextI it f info fuel
            pure (r, it.idx :: rs)
      else pure ((false, it, it.idx + 1), [])

/-- src: skipping_iterator_t::prev, with the indices read -/
def It.prevI (it : It) (f : Font) (out : List Info) : Nat → M ((Bool × It × Nat) × List Nat)
  | 0 => pure ((false, it, 0), [])
  | fuel + 1 =>
      if it.idx > 0 then do
        let it := { it with idx := it.idx - 1 }
        let x ← get out it.idx
        match it.match_ f x with
        | .matched => pure ((true, { it with glyphData := it.glyphData + 1 }, 0), [it.idx])
        | .notMatch => pure ((false, it, max it.idx 1 - 1), [it.idx])
        | .skip => do
            let (r, rs) ← It.prevI it f out fuel
            pure (r, it.idx :: rs)
      else pure ((false, it, 0), [])

/-- the lig-base scan of match_input, with the out-buffer indices read -/
def findLigBaseI (out : List Info) (firstLigId : Nat) : Nat → M ((Bool × Nat) × List Rd)
  | 0 => pure ((false, 0), [])
  | j + 1 => do
      let x ← get out j
      if ligId x == firstLigId then
        if ligComp x == 0 then pure ((true, j), [.lig j])
        else do
          let (r, rs) ← findLigBaseI out firstLigId j
          pure (r, .lig j :: rs)
      else pure ((false, j + 1), [.lig j])

/-- the ligature-component rules of match_input for one matched component `this`:
    `none` = `return false`, `some lb` = go on with `ligbase = lb`; with the out-buffer reads of the lig-base scan -/
def ligStepI (c : Ctx) (it : It) (firstLigId firstLigComp : Nat) (this : Info) (ligbase : Nat) : M (Option Nat × List Rd) :=
  if firstLigId != 0 && firstLigComp != 0 then
    if firstLigId != ligId this || firstLigComp != ligComp this then do
      let (lb, rs) ← if ligbase == 0 then do
          let ((found, j), rs) ← findLigBaseI c.buf.outArr firstLigId c.buf.outLen
          let skippable ← if found then do
              let o ← get c.buf.outArr j
              pure (it.maySkip c.font o == .yes) else pure false
          pure (if skippable then 2 else 1, rs)
        else pure (ligbase, [])
      if lb == 1 then pure (none, rs) else pure (some lb, rs)
    else pure (some ligbase, [])
  else
    if ligId this != 0 && ligComp this != 0 && ligId this != firstLigId then pure (none, [])
    else pure (some ligbase, [])

/-- the component loop of match_input, with the reads -/
def matchInputI.loop (c : Ctx) (firstLigId firstLigComp : Nat) (it : It) (positions : List Nat) (total ligbase k : Nat) :
    Nat → M MatchInI
  | 0 => pure ⟨{ ok := true, endPos := it.idx + 1, positions := positions, totalComps := total }, [], .matched⟩
  | rest + 1 => do
      let ((found, it, unsafeTo), rs) ← It.nextI it c.font c.buf.info c.buf.len
      if !found then
        return ⟨{ ok := false, endPos := unsafeTo, positions := positions, totalComps := total }, rs.map .inp, .iter⟩
      let positions := positions.set k it.idx
      let this ← get c.buf.info it.idx
      let (lb, rs2) ← ligStepI c it firstLigId firstLigComp this ligbase
      match lb with
      | none => pure ⟨{ ok := false, endPos := it.idx + 1, positions := positions, totalComps := total }, rs.map .inp ++ rs2, .ligComp⟩
      | some lb => do
          let r ← matchInputI.loop c firstLigId firstLigComp it positions (total + ligNumComps this) lb (k + 1) rest
          pure { r with reads := rs.map .inp ++ rs2 ++ r.reads }

/-- src: ot_layout_gsubgpos.rs::match_input, with the reads (the current glyph `info[idx]` first) -/
def matchInputI (c : Ctx) (inputLen : Nat) (matchFn : Nat → Nat → Bool) (positions : List Nat) : M MatchInI := do
  let count := inputLen + 1
  if count > MAX_CONTEXT_LENGTH then
    return ⟨{ ok := false, endPos := 0, positions := positions, totalComps := 0 }, [], .tooLong⟩
  let positions := if count > positions.length then resizeNat positions count else positions
  let it ← It.new c c.buf.idx false
  let it := { it with glyphData := 0, matching := some matchFn }
  let first ← get c.buf.info c.buf.idx
  let r ← matchInputI.loop c (ligId first) (ligComp first) it positions 0 0 1 (count - 1)
  let r := { r with reads := .inp c.buf.idx :: r.reads }
  if r.r.ok then
    pure { r with r := { r.r with positions := r.r.positions.set 0 c.buf.idx,
                                  totalComps := (r.r.totalComps + ligNumComps first) % 256 } }
  else pure r

def matchBacktrackI.loop (c : Ctx) (it : It) : Nat → M ((Bool × Nat) × List Nat)
  | 0 => pure ((true, it.idx), [])
  | k + 1 => do
      let ((found, it, unsafeFrom), rs) ← It.prevI it c.font c.buf.outArr (it.idx + 1)
      if !found then return ((false, unsafeFrom), rs)
      let (r, rs2) ← matchBacktrackI.loop c it k
      pure (r, rs ++ rs2)

/-- src: match_backtrack, with the out-buffer indices read -/
def matchBacktrackI (c : Ctx) (n : Nat) (matchFn : Nat → Nat → Bool) : M ((Bool × Nat) × List Nat) := do
  let bl := if c.buf.haveOutput then c.buf.outLen else c.buf.idx
  let it ← It.new c bl true
  let it := { it with glyphData := 0, matching := some matchFn }
  matchBacktrackI.loop c it n

def matchLookaheadI.loop (c : Ctx) (it : It) : Nat → M ((Bool × Nat) × List Nat)
  | 0 => pure ((true, it.idx + 1), [])
  | k + 1 => do
      let ((found, it, unsafeTo), rs) ← It.nextI it c.font c.buf.info c.buf.len
      if !found then return ((false, unsafeTo), rs)
      let (r, rs2) ← matchLookaheadI.loop c it k
      pure (r, rs ++ rs2)

/-- src: match_lookahead, with the in-buffer indices read -/
def matchLookaheadI (c : Ctx) (n : Nat) (matchFn : Nat → Nat → Bool) (startIndex : Nat) : M ((Bool × Nat) × List Nat) := do
  if startIndex = 0 then throw .oob
  let it ← It.new c (startIndex - 1) true
  let it := { it with glyphData := 0, matching := some matchFn }
  matchLookaheadI.loop c it n

/-! ### erasure: forgetting the reads gives the plain matchers -/

theorem It.nextI_erase (f : Font) (info : List Info) : ∀ (fuel : Nat) (it : It),
    (It.nextI it f info fuel).map (·.1) = It.next it f info fuel := by
  intro fuel
  induction fuel with
  | zero => intro it; rfl
  | succ n ih =>
    intro it
    simp only [It.nextI, It.next]
    split
    · cases hg : get info (it.idx + 1) with
      | error e => rfl
      | ok x =>
        simp only [bind, Except.bind]
        split <;> rename_i hm <;> simp only [hm]
        · rfl
        · rfl
        · rw [← ih]
          cases It.nextI { it with idx := it.idx + 1 } f info n <;> rfl
    · rfl

theorem It.prevI_erase (f : Font) (out : List Info) : ∀ (fuel : Nat) (it : It),
    (It.prevI it f out fuel).map (·.1) = It.prev it f out fuel := by
  intro fuel
  induction fuel with
  | zero => intro it; rfl
  | succ n ih =>
    intro it
    simp only [It.prevI, It.prev]
    split
    · cases hg : get out (it.idx - 1) with
      | error e => rfl
      | ok x =>
        simp only [bind, Except.bind]
        split <;> rename_i hm <;> simp only [hm]
        · rfl
        · rfl
        · rw [← ih]
          cases It.prevI { it with idx := it.idx - 1 } f out n <;> rfl
    · rfl

theorem findLigBaseI_erase (out : List Info) (fl : Nat) : ∀ j,
    (findLigBaseI out fl j).map (·.1) = findLigBase out fl j := by
  intro j
  induction j with
  | zero => rfl
  | succ j ih =>
    simp only [findLigBaseI, findLigBase]
    cases hg : get out j with
    | error e => rfl
    | ok x =>
      simp only [bind, Except.bind]
      split
      · split
        · rfl
        · rw [← ih]
          cases findLigBaseI out fl j <;> rfl
      · rfl

theorem matchInputI.loop_erase (c : Ctx) (fl fc : Nat) : ∀ (rest : Nat) (it : It) (p : List Nat) (t lb k : Nat),
    (matchInputI.loop c fl fc it p t lb k rest).map (·.r) = matchInput.loop c fl fc it p t lb k rest := by
  intro rest
  induction rest with
  | zero => intro it p t lb k; rfl
  | succ n ih =>
    intro it p t lb k
    rw [matchInput.loop, matchInputI.loop, ← It.nextI_erase]
    cases It.nextI it c.font c.buf.info c.buf.len with
    | error e => rfl
    | ok v =>
      obtain ⟨⟨found, it', u⟩, rs⟩ := v
      cases found with
      | false => rfl
      | true =>
        simp only [bind, Except.bind, Except.map, Bool.not_true, Bool.false_eq_true, if_false]
        cases hg : get c.buf.info it'.idx with
        | error e => rfl
        | ok this =>
          simp only [ligStepI]
          by_cases h1 : (fl != 0 && fc != 0) = true
          · simp only [h1, if_true]
            by_cases h2 : (fl != ligId this || fc != ligComp this) = true
            · simp only [h2, if_true]
              by_cases h3 : (lb == 0) = true
              · simp only [h3, if_true]
                rw [← findLigBaseI_erase]
                cases findLigBaseI c.buf.outArr fl c.buf.outLen with
                | error e => rfl
                | ok w =>
                  obtain ⟨⟨fnd, j⟩, rs2⟩ := w
                  simp only [bind, Except.bind, Except.map]
                  cases fnd with
                  | true =>
                    simp only [if_true]
                    cases get c.buf.outArr j with
                    | error e => rfl
                    | ok o =>
                      simp only [pure, Except.pure]
                      by_cases h4 : (it'.maySkip c.font o == Skip.yes) = true
                      · simp only [h4, if_true, show ((2 : Nat) == 1) = false from rfl, Bool.false_eq_true, if_false]
                        (rw [← ih]; generalize matchInputI.loop c fl fc it' (p.set k it'.idx) (t + ligNumComps this) _ (k + 1) n = z; cases z <;> rfl)
                      · simp only [h4, Bool.false_eq_true, if_false]
                        rfl
                  | false =>
                    simp only [pure, Except.pure, Bool.false_eq_true, if_false]
                    rfl
              · simp only [h3, Bool.false_eq_true, if_false, pure, Except.pure, bind, Except.bind]
                by_cases h5 : (lb == 1) = true
                · simp only [h5, if_true]
                · simp only [h5, if_false, Bool.false_eq_true]
                  (rw [← ih]; generalize matchInputI.loop c fl fc it' (p.set k it'.idx) (t + ligNumComps this) _ (k + 1) n = z; cases z <;> rfl)
            · simp only [h2, Bool.false_eq_true, if_false, pure, Except.pure, bind, Except.bind]
              (rw [← ih]; generalize matchInputI.loop c fl fc it' (p.set k it'.idx) (t + ligNumComps this) _ (k + 1) n = z; cases z <;> rfl)
          · simp only [h1, Bool.false_eq_true, if_false]
            by_cases h6 : (ligId this != 0 && ligComp this != 0 && ligId this != fl) = true
            · simp only [h6, if_true]
              rfl
            · simp only [h6, Bool.false_eq_true, if_false, pure, Except.pure]
              (rw [← ih]; generalize matchInputI.loop c fl fc it' (p.set k it'.idx) (t + ligNumComps this) _ (k + 1) n = z; cases z <;> rfl)

theorem matchInputI_erase (c : Ctx) (n : Nat) (fn : Nat → Nat → Bool) (p : List Nat) :
    (matchInputI c n fn p).map (·.r) = matchInput c n fn p := by
  unfold matchInputI matchInput
  by_cases h : n + 1 > MAX_CONTEXT_LENGTH
  · simp only [h, if_true]; rfl
  · simp only [h, if_false, bind, Except.bind]
    cases It.new c c.buf.idx false with
    | error e => rfl
    | ok it =>
      simp only []
      cases get c.buf.info c.buf.idx with
      | error e => rfl
      | ok first =>
        simp only []
        rw [← matchInputI.loop_erase]
        cases matchInputI.loop c (ligId first) (ligComp first) { it with glyphData := 0, matching := some fn }
            (if n + 1 > p.length then resizeNat p (n + 1) else p) 0 0 1 (n + 1 - 1) with
        | error e => rfl
        | ok r =>
          simp only [Except.map]
          cases hr : r.r.ok <;> rfl

theorem matchBacktrackI.loop_erase (c : Ctx) : ∀ (n : Nat) (it : It),
    (matchBacktrackI.loop c it n).map (·.1) = matchBacktrack.loop c it n := by
  intro n
  induction n with
  | zero => intro it; rfl
  | succ n ih =>
    intro it
    rw [matchBacktrackI.loop, matchBacktrack.loop, ← It.prevI_erase]
    cases It.prevI it c.font c.buf.outArr (it.idx + 1) with
    | error e => rfl
    | ok v =>
      obtain ⟨⟨found, it', u⟩, rs⟩ := v
      cases found with
      | false => rfl
      | true =>
        simp only [bind, Except.bind, Except.map, Bool.not_true, Bool.false_eq_true, if_false]
        rw [← ih]
        cases matchBacktrackI.loop c it' n <;> rfl

theorem matchBacktrackI_erase (c : Ctx) (n : Nat) (fn : Nat → Nat → Bool) :
    (matchBacktrackI c n fn).map (·.1) = matchBacktrack c n fn := by
  unfold matchBacktrackI matchBacktrack
  simp only [bind, Except.bind]
  cases It.new c (if c.buf.haveOutput then c.buf.outLen else c.buf.idx) true with
  | error e => rfl
  | ok it => exact matchBacktrackI.loop_erase c n _

theorem matchLookaheadI.loop_erase (c : Ctx) : ∀ (n : Nat) (it : It),
    (matchLookaheadI.loop c it n).map (·.1) = matchLookahead.loop c it n := by
  intro n
  induction n with
  | zero => intro it; rfl
  | succ n ih =>
    intro it
    rw [matchLookaheadI.loop, matchLookahead.loop, ← It.nextI_erase]
    cases It.nextI it c.font c.buf.info c.buf.len with
    | error e => rfl
    | ok v =>
      obtain ⟨⟨found, it', u⟩, rs⟩ := v
      cases found with
      | false => rfl
      | true =>
        simp only [bind, Except.bind, Except.map, Bool.not_true, Bool.false_eq_true, if_false]
        rw [← ih]
        cases matchLookaheadI.loop c it' n <;> rfl

theorem matchLookaheadI_erase (c : Ctx) (n : Nat) (fn : Nat → Nat → Bool) (s : Nat) :
    (matchLookaheadI c n fn s).map (·.1) = matchLookahead c n fn s := by
  unfold matchLookaheadI matchLookahead
  by_cases h : s = 0
  · simp only [h, if_true]; rfl
  · simp only [h, if_false, bind, Except.bind]
    cases It.new c (s - 1) true with
    | error e => rfl
    | ok it => exact matchLookaheadI.loop_erase c n _

/-! ### span lemmas: where the reads lie -/

theorem It.new_ok {c : Ctx} {s : Nat} {cm : Bool} {it : It} (h : It.new c s cm = .ok it) :
    it.idx = s ∧ it.bufLen = c.buf.len := by
  unfold It.new at h
  simp only [bind, Except.bind] at h
  split at h
  · cases hg : get c.buf.info c.buf.idx with
    | error e => simp [hg] at h
    | ok x =>
      simp only [hg, pure, Except.pure, Except.ok.injEq] at h
      subst h; exact ⟨rfl, rfl⟩
  · simp only [pure, Except.pure, Except.ok.injEq] at h
    subst h; exact ⟨rfl, rfl⟩

/-- where `It.nextI` reads: the indices after the old position up to the new one -/
theorem It.nextI_span (f : Font) (info : List Info) : ∀ (fuel : Nat) (it : It) (found : Bool) (it' : It) (u : Nat)
    (rs : List Nat), It.nextI it f info fuel = .ok ((found, it', u), rs) →
    it'.bufLen = it.bufLen ∧ it.idx ≤ it'.idx ∧ (it.idx < it.bufLen → it'.idx < it.bufLen) ∧
    (∀ i ∈ rs, it.idx < i ∧ i ≤ it'.idx) ∧
    (found = true → it'.idx ∈ rs) ∧ (found = false → u = it'.idx + 1) := by
  intro fuel
  induction fuel with
  | zero =>
    intro it found it' u rs h
    simp only [It.nextI, pure, Except.pure, Except.ok.injEq, Prod.mk.injEq] at h
    obtain ⟨⟨h1, h2, h3⟩, h4⟩ := h
    subst h1 h2 h3 h4
    exact ⟨rfl, Nat.le_refl _, id, by simp, by simp, fun _ => rfl⟩
  | succ n ih =>
    intro it found it' u rs h
    rw [It.nextI] at h
    split at h
    · rename_i hlt
      cases hg : get info (it.idx + 1) with
      | error e => simp [hg, bind, Except.bind] at h
      | ok x =>
        simp only [hg, bind, Except.bind] at h
        split at h
        · simp only [pure, Except.pure, Except.ok.injEq, Prod.mk.injEq] at h
          obtain ⟨⟨h1, h2, h3⟩, h4⟩ := h
          subst h1 h2 h3 h4
          exact ⟨rfl, by simp, fun _ => hlt, by simp, by simp, by simp⟩
        · simp only [pure, Except.pure, Except.ok.injEq, Prod.mk.injEq] at h
          obtain ⟨⟨h1, h2, h3⟩, h4⟩ := h
          subst h1 h2 h3 h4
          exact ⟨rfl, by simp, fun _ => hlt, by simp, by simp, fun _ => rfl⟩
        · cases hr : It.nextI { it with idx := it.idx + 1 } f info n with
          | error e => simp [hr] at h
          | ok v =>
            obtain ⟨⟨fd, it2, u2⟩, rs2⟩ := v
            simp only [hr, pure, Except.pure, Except.ok.injEq, Prod.mk.injEq] at h
            obtain ⟨⟨h1, h2, h3⟩, h4⟩ := h
            subst h1 h2 h3 h4
            obtain ⟨a1, a2, a3, a4, a5, a6⟩ := ih _ _ _ _ _ hr
            simp only at a1 a2 a3 a4
            refine ⟨a1, by omega, fun _ => a3 hlt, ?_, ?_, a6⟩
            · intro i hi
              rcases List.mem_cons.mp hi with hi | hi
              · subst hi; omega
              · have := a4 i hi; omega
            · intro hf; exact List.mem_cons_of_mem _ (a5 hf)
    · simp only [pure, Except.pure, Except.ok.injEq, Prod.mk.injEq] at h
      obtain ⟨⟨h1, h2, h3⟩, h4⟩ := h
      subst h1 h2 h3 h4
      exact ⟨rfl, Nat.le_refl _, id, by simp, by simp, fun _ => rfl⟩

/-- where `It.prevI` reads: the indices below the old position down to the new one; on failure `unsafe_from` is at or below
    every index read -/
theorem It.prevI_span (f : Font) (out : List Info) : ∀ (fuel : Nat) (it : It) (found : Bool) (it' : It) (u : Nat)
    (rs : List Nat), It.prevI it f out fuel = .ok ((found, it', u), rs) →
    it'.bufLen = it.bufLen ∧ it'.idx ≤ it.idx ∧
    (∀ i ∈ rs, it'.idx ≤ i ∧ i < it.idx) ∧
    (found = true → it'.idx ∈ rs) ∧ (found = false → u ≤ it'.idx) := by
  intro fuel
  induction fuel with
  | zero =>
    intro it found it' u rs h
    simp only [It.prevI, pure, Except.pure, Except.ok.injEq, Prod.mk.injEq] at h
    obtain ⟨⟨h1, h2, h3⟩, h4⟩ := h
    subst h1 h2 h3 h4
    exact ⟨rfl, Nat.le_refl _, by simp, by simp, fun _ => Nat.zero_le _⟩
  | succ n ih =>
    intro it found it' u rs h
    rw [It.prevI] at h
    split at h
    · rename_i hlt
      cases hg : get out (it.idx - 1) with
      | error e => simp [hg, bind, Except.bind] at h
      | ok x =>
        simp only [hg, bind, Except.bind] at h
        split at h
        · simp only [pure, Except.pure, Except.ok.injEq, Prod.mk.injEq] at h
          obtain ⟨⟨h1, h2, h3⟩, h4⟩ := h
          subst h1 h2 h3 h4
          refine ⟨rfl, by simp, ?_, by simp, by simp⟩
          intro i hi; simp at hi; subst hi; simp; omega
        · simp only [pure, Except.pure, Except.ok.injEq, Prod.mk.injEq] at h
          obtain ⟨⟨h1, h2, h3⟩, h4⟩ := h
          subst h1 h2 h3 h4
          refine ⟨rfl, by simp, ?_, by simp, ?_⟩
          · intro i hi; simp at hi; subst hi; simp; omega
          · intro _; simp only; omega
        · cases hr : It.prevI { it with idx := it.idx - 1 } f out n with
          | error e => simp [hr] at h
          | ok v =>
            obtain ⟨⟨fd, it2, u2⟩, rs2⟩ := v
            simp only [hr, pure, Except.pure, Except.ok.injEq, Prod.mk.injEq] at h
            obtain ⟨⟨h1, h2, h3⟩, h4⟩ := h
            subst h1 h2 h3 h4
            obtain ⟨a1, a2, a4, a5, a6⟩ := ih _ _ _ _ _ hr
            simp only at a1 a2 a4
            refine ⟨a1, by omega, ?_, ?_, a6⟩
            · intro i hi
              rcases List.mem_cons.mp hi with hi | hi
              · subst hi; omega
              · have := a4 i hi; omega
            · intro hf; exact List.mem_cons_of_mem _ (a5 hf)
    · simp only [pure, Except.pure, Except.ok.injEq, Prod.mk.injEq] at h
      obtain ⟨⟨h1, h2, h3⟩, h4⟩ := h
      subst h1 h2 h3 h4
      exact ⟨rfl, Nat.le_refl _, by simp, by simp, fun _ => Nat.zero_le _⟩

/-- the lig-base scan reads out-buffer glyphs below `n` only -/
theorem findLigBaseI_span (out : List Info) (fl : Nat) : ∀ (n : Nat) (r : Bool × Nat) (rs : List Rd),
    findLigBaseI out fl n = .ok (r, rs) → ∀ x ∈ rs, ∃ j, x = .lig j ∧ j < n := by
  intro n
  induction n with
  | zero =>
    intro r rs h
    simp only [findLigBaseI, pure, Except.pure, Except.ok.injEq, Prod.mk.injEq] at h
    obtain ⟨_, h2⟩ := h; subst h2; simp
  | succ n ih =>
    intro r rs h
    rw [findLigBaseI] at h
    cases hg : get out n with
    | error e => simp [hg, bind, Except.bind] at h
    | ok x =>
      simp only [hg, bind, Except.bind] at h
      split at h
      · split at h
        · simp only [pure, Except.pure, Except.ok.injEq, Prod.mk.injEq] at h
          obtain ⟨_, h2⟩ := h; subst h2
          intro y hy; simp at hy; exact ⟨n, hy, by omega⟩
        · cases hr : findLigBaseI out fl n with
          | error e => simp [hr] at h
          | ok v =>
            obtain ⟨r2, rs2⟩ := v
            simp only [hr, pure, Except.pure, Except.ok.injEq, Prod.mk.injEq] at h
            obtain ⟨_, h2⟩ := h; subst h2
            intro y hy
            rcases List.mem_cons.mp hy with hy | hy
            · exact ⟨n, hy, by omega⟩
            · obtain ⟨j, e1, e2⟩ := ih _ _ hr y hy
              exact ⟨j, e1, by omega⟩
      · simp only [pure, Except.pure, Except.ok.injEq, Prod.mk.injEq] at h
        obtain ⟨_, h2⟩ := h; subst h2
        intro y hy; simp at hy; exact ⟨n, hy, by omega⟩

/-- the ligature-component rules read out-buffer glyphs only -/
theorem ligStepI_span (c : Ctx) (it : It) (fl fc : Nat) (this : Info) (lb : Nat) (o : Option Nat) (rs : List Rd)
    (h : ligStepI c it fl fc this lb = .ok (o, rs)) : ∀ x ∈ rs, ∃ j, x = .lig j ∧ j < c.buf.outLen := by
  unfold ligStepI at h
  split at h
  · split at h
    · split at h
      · cases hr : findLigBaseI c.buf.outArr fl c.buf.outLen with
        | error e => simp [hr, bind, Except.bind] at h
        | ok v =>
          obtain ⟨⟨fnd, j⟩, rs2⟩ := v
          have hs := findLigBaseI_span _ _ _ _ _ hr
          simp only [hr, bind, Except.bind] at h
          cases fnd with
          | true =>
            simp only [if_true] at h
            cases hg : get c.buf.outArr j with
            | error e => simp [hg] at h
            | ok ob =>
              simp only [hg, pure, Except.pure] at h
              cases hm : (it.maySkip c.font ob == Skip.yes) <;> simp [hm] at h <;>
                (obtain ⟨_, h2⟩ := h; subst h2; exact hs)
          | false =>
            simp only [Bool.false_eq_true, if_false, pure, Except.pure] at h
            split at h <;> (simp only [Except.ok.injEq, Prod.mk.injEq] at h; obtain ⟨_, h2⟩ := h; subst h2; exact hs)
      · simp only [bind, Except.bind, pure, Except.pure] at h
        split at h <;> (simp only [Except.ok.injEq, Prod.mk.injEq] at h; obtain ⟨_, h2⟩ := h; subst h2; simp)
    · simp only [pure, Except.pure, Except.ok.injEq, Prod.mk.injEq] at h
      obtain ⟨_, h2⟩ := h; subst h2; simp
  · split at h <;>
      (simp only [pure, Except.pure, Except.ok.injEq, Prod.mk.injEq] at h; obtain ⟨_, h2⟩ := h; subst h2; simp)

/-- what a read of `match_input` (started with the iterator at `lo`) may be: an in-buffer glyph after `lo`, below `len` and
    below the reported `end_position`; or an out-buffer glyph of the lig-base scan -/
def RdOk (c : Ctx) (lo : Nat) (R : MatchInI) (x : Rd) : Prop :=
  (∃ i, x = .inp i ∧ lo < i ∧ i < c.buf.len ∧ i < R.r.endPos) ∨
  (∃ j, x = .lig j ∧ j < c.buf.outLen)

theorem matchInputI.loop_span (c : Ctx) (fl fc : Nat) : ∀ (rest : Nat) (it : It) (p : List Nat) (t lb k : Nat)
    (R : MatchInI), matchInputI.loop c fl fc it p t lb k rest = .ok R → it.bufLen = c.buf.len → it.idx < c.buf.len →
    (R.r.ok = true ↔ R.why = .matched) ∧ R.why ≠ .tooLong ∧
    it.idx < R.r.endPos ∧ R.r.endPos ≤ c.buf.len ∧
    (∀ x ∈ R.reads, RdOk c it.idx R x) := by
  intro rest
  induction rest with
  | zero =>
    intro it p t lb k R h hbl hidx
    simp only [matchInputI.loop, pure, Except.pure, Except.ok.injEq] at h
    subst h
    refine ⟨by simp, by simp, by simp, by simp; omega, by simp⟩
  | succ n ih =>
    intro it p t lb k R h hbl hidx
    rw [matchInputI.loop] at h
    cases hn : It.nextI it c.font c.buf.info c.buf.len with
    | error e => simp [hn, bind, Except.bind] at h
    | ok v =>
      obtain ⟨⟨found, it', u⟩, rs⟩ := v
      obtain ⟨b1, b2, b3, b4, b5, b6⟩ := It.nextI_span _ _ _ _ _ _ _ _ hn
      have hi' : it'.idx < c.buf.len := by rw [← hbl]; exact b3 (by omega)
      simp only [hn, bind, Except.bind] at h
      cases found with
      | false =>
        simp only [Bool.not_false, if_true, pure, Except.pure, Except.ok.injEq] at h
        subst h
        have hu := b6 rfl
        refine ⟨by simp, by simp, by simp; omega, by simp; omega, ?_⟩
        intro x hx
        obtain ⟨i, hi, rfl⟩ := List.mem_map.mp hx
        have := b4 i hi
        exact Or.inl ⟨i, rfl, by omega, by omega, by simp; omega⟩
      | true =>
        have hlt : it.idx < it'.idx := (b4 _ (b5 rfl)).1
        simp only [Bool.not_true, Bool.false_eq_true, if_false] at h
        cases hg : get c.buf.info it'.idx with
        | error e => simp [hg] at h
        | ok this =>
          simp only [hg] at h
          cases hl : ligStepI c it' fl fc this lb with
          | error e => simp [hl] at h
          | ok w =>
            obtain ⟨o, rs2⟩ := w
            have hs2 := ligStepI_span _ _ _ _ _ _ _ _ hl
            simp only [hl] at h
            cases o with
            | none =>
              simp only [pure, Except.pure, Except.ok.injEq] at h
              subst h
              refine ⟨by simp, by simp, by simp; omega, by simp; omega, ?_⟩
              intro x hx
              rcases List.mem_append.mp hx with hx | hx
              · obtain ⟨i, hi, rfl⟩ := List.mem_map.mp hx
                have := b4 i hi
                exact Or.inl ⟨i, rfl, by omega, by omega, by simp; omega⟩
              · exact Or.inr (hs2 x hx)
            | some lb' =>
              simp only [] at h
              cases hr : matchInputI.loop c fl fc it' (p.set k it'.idx) (t + ligNumComps this) lb' (k + 1) n with
              | error e => simp [hr] at h
              | ok r =>
                simp only [hr, pure, Except.pure, Except.ok.injEq] at h
                subst h
                obtain ⟨c1, c2, c3, c4, c5⟩ := ih _ _ _ _ _ _ hr (by rw [b1, hbl]) hi'
                refine ⟨c1, c2, by simp only; omega, c4, ?_⟩
                intro x hx
                simp only at hx
                rcases List.mem_append.mp hx with hx | hx
                · rcases List.mem_append.mp hx with hx | hx
                  · obtain ⟨i, hi, rfl⟩ := List.mem_map.mp hx
                    have := b4 i hi
                    exact Or.inl ⟨i, rfl, by omega, by omega, by simp only; omega⟩
                  · exact Or.inr (hs2 x hx)
                · rcases c5 x hx with ⟨i, e1, e2, e3, e4⟩ | hj
                  · exact Or.inl ⟨i, e1, by omega, e3, e4⟩
                  · exact Or.inr hj

/-- what a read of `match_input` may be: an in-buffer glyph of `[idx, len)` below the reported `end_position`; or an
    out-buffer glyph of the lig-base scan -/
def Covered (c : Ctx) (R : MatchInI) (x : Rd) : Prop :=
  (∃ i, x = .inp i ∧ c.buf.idx ≤ i ∧ i < c.buf.len ∧ i < R.r.endPos) ∨
  (∃ j, x = .lig j ∧ j < c.buf.outLen)

/-- **the reads of match_input lie in `[idx, end_position)`** (and in the out-buffer for the lig-base scan), on every path that
    read anything: success, iterator failure, ligature-component failure -/
theorem matchInputI_span (c : Ctx) (n : Nat) (fn : Nat → Nat → Bool) (p : List Nat) (R : MatchInI)
    (h : matchInputI c n fn p = .ok R) (hidx : c.buf.idx < c.buf.len) :
    (R.r.ok = true ↔ R.why = .matched) ∧ (R.why = .tooLong → R.reads = [] ∧ R.r.endPos = 0) ∧
    (R.why ≠ .tooLong → c.buf.idx < R.r.endPos ∧ R.r.endPos ≤ c.buf.len) ∧
    (∀ x ∈ R.reads, Covered c R x) := by
  unfold matchInputI at h
  by_cases hc : n + 1 > MAX_CONTEXT_LENGTH
  · simp only [hc, if_true, pure, Except.pure, Except.ok.injEq] at h
    subst h
    simp
  · simp only [hc, if_false, bind, Except.bind] at h
    cases hit : It.new c c.buf.idx false with
    | error e => simp [hit] at h
    | ok it =>
      obtain ⟨i1, i2⟩ := It.new_ok hit
      simp only [hit] at h
      cases hg : get c.buf.info c.buf.idx with
      | error e => simp [hg] at h
      | ok first =>
        simp only [hg] at h
        generalize hr : matchInputI.loop c (ligId first) (ligComp first) _ _ 0 0 1 _ = lr at h
        cases lr with
        | error e => simp at h
        | ok r =>
          simp only [] at h
          obtain ⟨c1, c2, c3, c4, c5⟩ := matchInputI.loop_span _ _ _ _ _ _ _ _ _ _ hr i2 (by simp only [i1]; exact hidx)
          simp only [i1] at c3 c5
          have key : ∀ R' : MatchInI, R'.why = r.why → R'.r.endPos = r.r.endPos → R'.r.ok = r.r.ok →
              R'.reads = .inp c.buf.idx :: r.reads →
              (R'.r.ok = true ↔ R'.why = .matched) ∧ (R'.why = .tooLong → R'.reads = [] ∧ R'.r.endPos = 0) ∧
              (R'.why ≠ .tooLong → c.buf.idx < R'.r.endPos ∧ R'.r.endPos ≤ c.buf.len) ∧
              (∀ x ∈ R'.reads, Covered c R' x) := by
            intro R' e1 e2 e3 e4
            rw [e1, e2, e3, e4]
            refine ⟨c1, fun hw => absurd hw c2, fun _ => ⟨c3, c4⟩, ?_⟩
            intro x hx
            unfold Covered
            rw [e2]
            rcases List.mem_cons.mp hx with hx | hx
            · subst hx
              exact Or.inl ⟨_, rfl, Nat.le_refl _, hidx, c3⟩
            · rcases c5 x hx with ⟨i, a1, a2, a3, a4⟩ | hj
              · exact Or.inl ⟨i, a1, by omega, a3, a4⟩
              · exact Or.inr hj
          split at h
          · simp only [pure, Except.pure, Except.ok.injEq] at h
            subst h
            exact key _ rfl rfl rfl rfl
          · simp only [pure, Except.pure, Except.ok.injEq] at h
            subst h
            exact key _ rfl rfl rfl rfl

theorem matchLookaheadI.loop_span (c : Ctx) : ∀ (n : Nat) (it : It) (ok : Bool) (e : Nat) (rs : List Nat),
    matchLookaheadI.loop c it n = .ok ((ok, e), rs) → it.bufLen = c.buf.len → it.idx < c.buf.len →
    it.idx < e ∧ e ≤ c.buf.len ∧ ∀ i ∈ rs, it.idx < i ∧ i < e := by
  intro n
  induction n with
  | zero =>
    intro it ok e rs h hbl hidx
    simp only [matchLookaheadI.loop, pure, Except.pure, Except.ok.injEq, Prod.mk.injEq] at h
    obtain ⟨⟨_, h2⟩, h3⟩ := h
    subst h2 h3
    exact ⟨by omega, by omega, by simp⟩
  | succ n ih =>
    intro it ok e rs h hbl hidx
    rw [matchLookaheadI.loop] at h
    cases hn : It.nextI it c.font c.buf.info c.buf.len with
    | error e => simp [hn, bind, Except.bind] at h
    | ok v =>
      obtain ⟨⟨found, it', u⟩, rs1⟩ := v
      obtain ⟨b1, b2, b3, b4, b5, b6⟩ := It.nextI_span _ _ _ _ _ _ _ _ hn
      have hi' : it'.idx < c.buf.len := by rw [← hbl]; exact b3 (by omega)
      simp only [hn, bind, Except.bind] at h
      cases found with
      | false =>
        simp only [Bool.not_false, if_true, pure, Except.pure, Except.ok.injEq, Prod.mk.injEq] at h
        obtain ⟨⟨_, h2⟩, h3⟩ := h
        subst h2 h3
        have hu := b6 rfl
        refine ⟨by omega, by omega, ?_⟩
        intro i hi
        have := b4 i hi
        omega
      | true =>
        have hlt : it.idx < it'.idx := (b4 _ (b5 rfl)).1
        simp only [Bool.not_true, Bool.false_eq_true, if_false] at h
        cases hr : matchLookaheadI.loop c it' n with
        | error e => simp [hr] at h
        | ok w =>
          obtain ⟨⟨ok2, e2⟩, rs2⟩ := w
          simp only [hr, pure, Except.pure, Except.ok.injEq, Prod.mk.injEq] at h
          obtain ⟨⟨_, h2⟩, h3⟩ := h
          subst h2 h3
          obtain ⟨c1, c2, c3⟩ := ih _ _ _ _ hr (by rw [b1, hbl]) hi'
          refine ⟨by omega, c2, ?_⟩
          intro i hi
          rcases List.mem_append.mp hi with hi | hi
          · have := b4 i hi; omega
          · have := c3 i hi; omega

/-- **the reads of match_lookahead lie in `[start_index, end_index)`**, on success and on failure -/
theorem matchLookaheadI_span (c : Ctx) (n : Nat) (fn : Nat → Nat → Bool) (s : Nat) (ok : Bool) (e : Nat) (rs : List Nat)
    (h : matchLookaheadI c n fn s = .ok ((ok, e), rs)) (hs : s ≤ c.buf.len) :
    s ≤ e ∧ e ≤ c.buf.len ∧ ∀ i ∈ rs, s ≤ i ∧ i < e := by
  unfold matchLookaheadI at h
  by_cases h0 : s = 0
  · simp [h0, throw, throwThe, MonadExceptOf.throw, bind, Except.bind] at h
  · simp only [h0, if_false, bind, Except.bind] at h
    cases hit : It.new c (s - 1) true with
    | error e => simp [hit] at h
    | ok it =>
      obtain ⟨i1, i2⟩ := It.new_ok hit
      simp only [hit] at h
      obtain ⟨c1, c2, c3⟩ := matchLookaheadI.loop_span c n _ ok e rs h i2 (by simp only [i1]; omega)
      simp only [i1] at c1 c3
      refine ⟨by omega, c2, ?_⟩
      intro i hi
      have := c3 i hi
      omega

theorem matchBacktrackI.loop_span (c : Ctx) : ∀ (n : Nat) (it : It) (ok : Bool) (st : Nat) (rs : List Nat),
    matchBacktrackI.loop c it n = .ok ((ok, st), rs) → st ≤ it.idx ∧ ∀ i ∈ rs, st ≤ i ∧ i < it.idx := by
  intro n
  induction n with
  | zero =>
    intro it ok st rs h
    simp only [matchBacktrackI.loop, pure, Except.pure, Except.ok.injEq, Prod.mk.injEq] at h
    obtain ⟨⟨_, h2⟩, h3⟩ := h
    subst h2 h3
    exact ⟨Nat.le_refl _, by simp⟩
  | succ n ih =>
    intro it ok st rs h
    rw [matchBacktrackI.loop] at h
    cases hn : It.prevI it c.font c.buf.outArr (it.idx + 1) with
    | error e => simp [hn, bind, Except.bind] at h
    | ok v =>
      obtain ⟨⟨found, it', u⟩, rs1⟩ := v
      obtain ⟨b1, b2, b4, b5, b6⟩ := It.prevI_span _ _ _ _ _ _ _ _ hn
      simp only [hn, bind, Except.bind] at h
      cases found with
      | false =>
        simp only [Bool.not_false, if_true, pure, Except.pure, Except.ok.injEq, Prod.mk.injEq] at h
        obtain ⟨⟨_, h2⟩, h3⟩ := h
        subst h2 h3
        have hu := b6 rfl
        refine ⟨by omega, ?_⟩
        intro i hi
        have := b4 i hi
        omega
      | true =>
        simp only [Bool.not_true, Bool.false_eq_true, if_false] at h
        cases hr : matchBacktrackI.loop c it' n with
        | error e => simp [hr] at h
        | ok w =>
          obtain ⟨⟨ok2, e2⟩, rs2⟩ := w
          simp only [hr, pure, Except.pure, Except.ok.injEq, Prod.mk.injEq] at h
          obtain ⟨⟨_, h2⟩, h3⟩ := h
          subst h2 h3
          obtain ⟨c1, c3⟩ := ih _ _ _ _ hr
          refine ⟨by omega, ?_⟩
          intro i hi
          rcases List.mem_append.mp hi with hi | hi
          · have := b4 i hi; omega
          · have := c3 i hi; omega

/-- **the reads of match_backtrack lie in `[match_start, backtrack_len)`** of the out-buffer, on success and on failure -/
theorem matchBacktrackI_span (c : Ctx) (n : Nat) (fn : Nat → Nat → Bool) (ok : Bool) (st : Nat) (rs : List Nat)
    (h : matchBacktrackI c n fn = .ok ((ok, st), rs)) :
    st ≤ (if c.buf.haveOutput then c.buf.outLen else c.buf.idx) ∧
    ∀ i ∈ rs, st ≤ i ∧ i < (if c.buf.haveOutput then c.buf.outLen else c.buf.idx) := by
  unfold matchBacktrackI at h
  simp only [bind, Except.bind] at h
  cases hit : It.new c (if c.buf.haveOutput then c.buf.outLen else c.buf.idx) true with
  | error e => simp [hit] at h
  | ok it =>
    obtain ⟨i1, i2⟩ := It.new_ok hit
    simp only [hit] at h
    have := matchBacktrackI.loop_span c n _ ok st rs h
    simp only [i1] at this
    exact this
end RbModel.Gsub
