import RbModel.MorxPurge

/-! Lemmas about the purge of AAT deleted glyphs (`RbModel/MorxPurge.lean`): it keeps exactly the records that are
    not deleted glyphs, in order, touching only cluster values, and every cluster value that comes out went in. -/
namespace RbModel.Morx
open RbModel.Gen.Morx

/-- equality of results is decidable (used to evaluate closed examples with `decide +kernel`) -/
instance instDecEqExcept {ε α : Type} [DecidableEq ε] [DecidableEq α] : DecidableEq (Except ε α)
  | .ok a, .ok b => if h : a = b then isTrue (by rw [h]) else isFalse (by intro e; cases e; exact h rfl)
  | .error a, .error b => if h : a = b then isTrue (by rw [h]) else isFalse (by intro e; cases e; exact h rfl)
  | .ok _, .error _ => isFalse (by intro e; cases e)
  | .error _, .ok _ => isFalse (by intro e; cases e)

/-- a record with its cluster erased -/
def eCl (g : G) : G := { g with cl := 0 }

/-- records that are not the deleted glyph -/
def notDel (g : G) : Bool := !isDeleted g

@[simp] theorem eCl_setClG (c : Nat) (g : G) : eCl (setClG c g) = eCl g := rfl
@[simp] theorem isDeleted_eCl (g : G) : isDeleted (eCl g) = isDeleted g := rfl
@[simp] theorem notDel_eCl (g : G) : notDel (eCl g) = notDel g := rfl
@[simp] theorem gid_eCl (g : G) : (eCl g).gid = g.gid := rfl

theorem map_eCl_map_setClG (c : Nat) (l : List G) : (l.map (setClG c)).map eCl = l.map eCl := by
  simp [List.map_map, Function.comp_def]

theorem length_eq_of_map_eCl {a b : List G} (h : a.map eCl = b.map eCl) : a.length = b.length := by
  have := congrArg List.length h
  simpa using this

theorem filter_eCl_congr (p : G → Bool) (hp : ∀ g, p (eCl g) = p g) {a b : List G}
    (h : a.map eCl = b.map eCl) : (a.filter p).map eCl = (b.filter p).map eCl := by
  have key : ∀ l : List G, (l.filter p).map eCl = (l.map eCl).filter p := by
    intro l
    induction l with
    | nil => rfl
    | cons x xs ih =>
      simp only [List.filter_cons, List.map_cons, hp]
      split <;> simp [ih]
  rw [key, key, h]

theorem purgeBack_eCl (c old : Nat) (k : List G) : (purgeBack c old k).map eCl = k.map eCl := by
  unfold purgeBack
  rw [List.map_append, map_eCl_map_setClG, ← List.map_append, List.takeWhile_append_dropWhile]

theorem purgeFwd_eCl (level : Nat) (g : G) (tl : List G) : (purgeFwd level g tl).map eCl = tl.map eCl := by
  cases tl with
  | nil => rfl
  | cons n tl' =>
    simp only [purgeFwd]
    split
    · rfl
    · rw [List.map_append, map_eCl_map_setClG, ← List.map_append, List.cons_append,
        List.takeWhile_append_dropWhile]

theorem purgeGo_eCl (level n : Nat) (k l : List G) (hn : l.length ≤ n) :
    (purgeGo level n k l).map eCl = (k.reverse ++ l.filter notDel).map eCl := by
  induction n generalizing k l with
  | zero =>
    cases l with
    | nil => simp [purgeGo]
    | cons g tl => simp at hn
  | succ n ih =>
    cases l with
    | nil => simp [purgeGo]
    | cons g tl =>
      have hn' : tl.length ≤ n := by simp at hn; omega
      simp only [purgeGo]
      by_cases hd : isDeleted g = true
      · have hf : (g :: tl).filter notDel = tl.filter notDel := by simp [notDel, hd]
        rw [if_pos hd, hf]
        by_cases hs : sameNext g tl = true
        · rw [if_pos hs]; exact ih k tl hn'
        · rw [if_neg hs]
          cases k with
          | cons last k' =>
            simp only
            rw [ih _ tl hn', List.map_append, List.map_append]
            split
            · rw [List.map_reverse, purgeBack_eCl, ← List.map_reverse]
            · rfl
          | nil =>
            simp only
            have hfw := purgeFwd_eCl level g tl
            rw [ih _ _ (by rw [length_eq_of_map_eCl hfw]; exact hn'), List.map_append, List.map_append,
              filter_eCl_congr notDel notDel_eCl hfw]
      · have hf : (g :: tl).filter notDel = g :: tl.filter notDel := by simp [notDel, hd]
        rw [if_neg hd, hf, ih _ tl hn']
        simp

theorem purge_eCl (level : Nat) (l : List G) : (purge level l).map eCl = (l.filter notDel).map eCl := by
  have h := purgeGo_eCl level l.length [] l (Nat.le_refl _)
  simpa [purge] using h

theorem map_gid_of_map_eCl {a b : List G} (h : a.map eCl = b.map eCl) : a.map (·.gid) = b.map (·.gid) := by
  have := congrArg (List.map (·.gid)) h
  simpa [List.map_map, Function.comp_def] using this

/-- the purge keeps the glyph ids of exactly the records that are not deleted glyphs, in order -/
theorem purge_gids (level : Nat) (l : List G) :
    (purge level l).map (·.gid) = (l.filter notDel).map (·.gid) :=
  map_gid_of_map_eCl (purge_eCl level l)

theorem purge_notDel (level : Nat) (l : List G) : ∀ g ∈ purge level l, isDeleted g = false := by
  intro g hg
  have h := purge_eCl level l
  have : eCl g ∈ (l.filter notDel).map eCl := by rw [← h]; exact List.mem_map_of_mem hg
  obtain ⟨g', hg', he⟩ := List.mem_map.mp this
  have h2 := (List.mem_filter.mp hg').2
  have : isDeleted (eCl g) = isDeleted (eCl g') := by rw [he]
  simp only [isDeleted_eCl] at this
  rw [this]
  simpa [notDel] using h2

theorem purge_length (level : Nat) (l : List G) : (purge level l).length = (l.filter notDel).length :=
  length_eq_of_map_eCl (purge_eCl level l)

/-! ### cluster values -/

theorem purgeBack_cl (S : Nat → Prop) (c old : Nat) (k : List G) (hc : S c) (hk : ∀ g ∈ k, S g.cl) :
    ∀ g ∈ purgeBack c old k, S g.cl := by
  intro g hg
  unfold purgeBack at hg
  simp only [List.mem_append, List.mem_map] at hg
  rcases hg with ⟨x, _, rfl⟩ | h
  · exact hc
  · exact hk g (List.mem_of_mem_dropWhile h)
where
  List.mem_of_mem_dropWhile {p : G → Bool} {l : List G} {g : G} (h : g ∈ l.dropWhile p) : g ∈ l :=
    (List.dropWhile_sublist p).mem h

theorem purgeFwd_cl (S : Nat → Prop) (level : Nat) (g : G) (tl : List G) (hg : S g.cl) (ht : ∀ x ∈ tl, S x.cl) :
    ∀ x ∈ purgeFwd level g tl, S x.cl := by
  cases tl with
  | nil => intro x hx; simp [purgeFwd] at hx
  | cons n tl' =>
    have hn := ht n List.mem_cons_self
    simp only [purgeFwd]
    split
    · exact ht
    · intro x hx
      simp only [List.mem_append, List.mem_map] at hx
      rcases hx with ⟨y, _, rfl⟩ | h
      · show S (min g.cl n.cl)
        rcases Nat.le_total g.cl n.cl with h | h
        · rw [Nat.min_eq_left h]; exact hg
        · rw [Nat.min_eq_right h]; exact hn
      · exact ht x (List.mem_cons_of_mem _ ((List.dropWhile_sublist _).mem h))

theorem purgeGo_cl (S : Nat → Prop) (level n : Nat) (k l : List G)
    (hk : ∀ g ∈ k, S g.cl) (hl : ∀ g ∈ l, S g.cl) : ∀ g ∈ purgeGo level n k l, S g.cl := by
  induction n generalizing k l with
  | zero =>
    intro g hg
    simp only [purgeGo, List.mem_append, List.mem_reverse] at hg
    rcases hg with h | h
    · exact hk g h
    · exact hl g h
  | succ n ih =>
    cases l with
    | nil => intro g hg; simp only [purgeGo, List.mem_reverse] at hg; exact hk g hg
    | cons a tl =>
      have ha := hl a List.mem_cons_self
      have htl : ∀ g ∈ tl, S g.cl := fun g hg => hl g (List.mem_cons_of_mem _ hg)
      simp only [purgeGo]
      split
      · split
        · exact ih k tl hk htl
        · cases k with
          | cons last k' =>
            simp only
            apply ih _ tl _ htl
            split
            · exact purgeBack_cl S _ _ _ ha hk
            · exact hk
          | nil =>
            simp only
            exact ih _ _ hk (purgeFwd_cl S level a tl ha htl)
      · apply ih _ tl _ htl
        intro g hg
        rcases List.mem_cons.mp hg with h | h
        · rw [h]; exact ha
        · exact hk g h

/-- every cluster value that comes out of the purge went in -/
theorem purge_cl (S : Nat → Prop) (level : Nat) (l : List G) (hl : ∀ g ∈ l, S g.cl) :
    ∀ g ∈ purge level l, S g.cl :=
  purgeGo_cl S level l.length [] l (by simp) hl

/-! ### the end of the pipeline -/

theorem finish_gids (ap : Appliers) (level : Nat) (bw : Bool) (l : List G) (hm : ap.morx = true) :
    (finish ap level bw l).map (·.gid) = ((if bw then l.reverse else l).filter notDel).map (·.gid) := by
  unfold finish
  cases hg : ap.gpos <;> cases bw <;> simp [hm, purge_gids, List.filter_reverse]

theorem finish_notDel (ap : Appliers) (level : Nat) (bw : Bool) (l : List G) (hm : ap.morx = true) :
    ∀ g ∈ finish ap level bw l, isDeleted g = false := by
  unfold finish
  cases hg : ap.gpos <;> cases bw <;> simp only [hm, Bool.and_true, Bool.true_and, Bool.not_true, Bool.not_false,
    if_true, Bool.false_eq_true, if_false, List.mem_reverse] <;> exact purge_notDel _ _

theorem finish_cl (S : Nat → Prop) (ap : Appliers) (level : Nat) (bw : Bool) (l : List G) (hl : ∀ g ∈ l, S g.cl) :
    ∀ g ∈ finish ap level bw l, S g.cl := by
  unfold finish
  have h1 : ∀ g ∈ (if (ap.morx && ap.gpos) = true then purge level l else l), S g.cl := by
    split
    · exact purge_cl S level l hl
    · exact hl
  have h2 : ∀ g ∈ (if bw = true then (if (ap.morx && ap.gpos) = true then purge level l else l).reverse
      else (if (ap.morx && ap.gpos) = true then purge level l else l)), S g.cl := by
    split
    · intro g hg; exact h1 g (List.mem_reverse.mp hg)
    · exact h1
  simp only
  split
  · exact purge_cl S level _ h2
  · exact h2

end RbModel.Morx
