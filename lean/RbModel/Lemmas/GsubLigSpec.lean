/-
  The specification side of ligature substitution (`Spec.Subst.applySubtableAt … (.ligature …)`) in closed form on the
  Spec's documented domain: the lookup flags exclude nothing, so the visible glyphs behind position `i` are the positions
  `i+1, i+2, …`, `matchSeq` is a prefix test (`ligMatchG`), the first matching ligature of the set wins, the span's
  clusters are merged, the first component becomes the ligature glyph and the other components are removed.
-/
import RbModel.Lemmas.GsubLigStep
import RbModel.Lemmas.GsubMultiSpec

namespace RbModel.Spec.Subst
open RbModel RbModel.Gsub

theorem ignored_noSkip (f : Font) (props : Nat) (g : G) (h : NoSkipFlags props) : ignored f props g = false := by
  unfold ignored
  rw [checkGlyphProperty_noSkip f _ props h]; rfl

theorem filter_ge_range (start : Nat) : ∀ N, (List.range N).filter (fun j => decide (start ≤ j)) = List.range' start (N - start)
  | 0 => by simp
  | N + 1 => by
    rw [List.range_succ, List.filter_append, filter_ge_range start N]
    by_cases h : start ≤ N
    · have e : N + 1 - start = (N - start) + 1 := by omega
      rw [e, List.range'_concat]
      simp [h]
    · have e1 : N + 1 - start = 0 := by omega
      have e2 : N - start = 0 := by omega
      rw [e1, e2]
      simp [h]

/-- under a flag-free lookup every glyph behind `start` is visible -/
theorem visibleFrom_noSkip (f : Font) (props : Nat) (gs : List G) (start : Nat) (h : NoSkipFlags props) :
    visibleFrom f props gs start = List.range' start (gs.length - start) := by
  unfold visibleFrom
  rw [← filter_ge_range start gs.length]
  apply List.filter_congr
  intro j hj
  have hjl : j < gs.length := List.mem_range.1 hj
  rw [List.getElem?_eq_getElem hjl]
  simp [ignored_noSkip f props _ h]

theorem take_range' (s : Nat) : ∀ (n N : Nat), n ≤ N → (List.range' s N).take n = List.range' s n := by
  intro n
  induction n generalizing s with
  | zero => intro N _; simp
  | succ n ih =>
    intro N hN
    cases N with
    | zero => omega
    | succ N =>
      rw [List.range'_succ, List.range'_succ, List.take_succ_cons, ih (s + 1) N (by omega)]

/-- the specification's component test on the glyphs behind the current one -/
def ligMatchG (lm : Nat) : List Nat → List G → Bool
  | [], _ => true
  | _ :: _, [] => false
  | cmp :: cs, g :: R => (g.gid == cmp && g.mask &&& lm != 0) && ligMatchG lm cs R

theorem ligMatchG_length (lm : Nat) : ∀ (cs : List Nat) (R : List G), ligMatchG lm cs R = true → cs.length ≤ R.length := by
  intro cs
  induction cs with
  | nil => intro R _; simp
  | cons a cs ih =>
    intro R h
    cases R with
    | nil => simp [ligMatchG] at h
    | cons y R =>
      simp only [ligMatchG, Bool.and_eq_true] at h
      have := ih R h.2
      simp; omega

theorem zipAll_consecutive (gs : List G) (lm : Nat) : ∀ (comps : List Nat) (s : Nat),
    ((List.range' s comps.length).zip (comps.map fun c => fun x => x == c)).all
      (fun (p, pr) => match gs[p]? with | some g => pr g.gid && (g.mask &&& lm != 0) | none => false)
      = ligMatchG lm comps (gs.drop s) := by
  intro comps
  induction comps with
  | nil => intro s; simp [ligMatchG]
  | cons cmp cs ih =>
    intro s
    simp only [List.length_cons, List.range'_succ, List.map_cons, List.zip_cons_cons, List.all_cons]
    rw [ih (s + 1)]
    by_cases hs : s < gs.length
    · rw [List.drop_eq_getElem_cons hs, List.getElem?_eq_getElem hs]
      simp only [ligMatchG]
    · have h1 : gs[s]? = none := List.getElem?_eq_none (by omega)
      have h2 : gs.drop s = [] := List.drop_eq_nil_of_le (by omega)
      rw [h1, h2]
      simp [ligMatchG]

/-- **`matchSeq` on consecutive positions** (the Spec half of per-step lemma 1) -/
theorem matchSeq_consecutive (gs : List G) (lm : Nat) (comps : List Nat) (s : Nat) :
    matchSeq gs (List.range' s (gs.length - s)) (comps.map fun c => fun x => x == c) (some lm)
      = if ligMatchG lm comps (gs.drop s) = true then some (List.range' s comps.length) else none := by
  unfold matchSeq
  simp only [List.length_range', List.length_map]
  by_cases hlt : gs.length - s < comps.length
  · simp only [hlt, if_true]
    have : ligMatchG lm comps (gs.drop s) = false := by
      cases hm : ligMatchG lm comps (gs.drop s) with
      | false => rfl
      | true =>
        have := ligMatchG_length lm comps _ hm
        simp at this; omega
    simp [this]
  · simp only [hlt, if_false]
    rw [take_range' s comps.length (gs.length - s) (by omega)]
    refine congrArg (fun b => if b = true then some (List.range' s comps.length) else none) ?_
    exact zipAll_consecutive gs lm comps s

/-! ### removing the components -/

/-- the Spec's per-position decision: replace at `i`, drop `i+1 … i+n`, keep the rest -/
def ligKeep (i n : Nat) (y : G) (p : G × Nat) : Option G :=
  if p.2 == i then some y else if (List.range' (i + 1) n).contains p.2 then none else some p.1

theorem ligKeep_keep (i n : Nat) (y : G) : ∀ (l : List G) (k : Nat),
    (∀ j, k ≤ j → j < k + l.length → j ≠ i ∧ ¬ (i + 1 ≤ j ∧ j < i + 1 + n)) →
    (l.zipIdx k).filterMap (ligKeep i n y) = l := by
  intro l
  induction l with
  | nil => intro k _; rfl
  | cons a l ih =>
    intro k h
    obtain ⟨h1, h2⟩ := h k (Nat.le_refl _) (by simp)
    have hc : (List.range' (i + 1) n).contains k = false := by
      rw [Bool.eq_false_iff]; intro hc
      rw [List.contains_iff_mem, List.mem_range'_1] at hc
      exact h2 hc
    have hk : (k == i) = false := by simpa using h1
    rw [List.zipIdx_cons, List.filterMap_cons]
    simp only [ligKeep, hk, Bool.false_eq_true, if_false, hc]
    rw [ih (k + 1) (fun j a b => h j (by omega) (by simp; omega))]

theorem ligKeep_drop (i n : Nat) (y : G) : ∀ (l : List G) (k : Nat),
    (∀ j, k ≤ j → j < k + l.length → i + 1 ≤ j ∧ j < i + 1 + n) →
    (l.zipIdx k).filterMap (ligKeep i n y) = [] := by
  intro l
  induction l with
  | nil => intro k _; rfl
  | cons a l ih =>
    intro k h
    have h2 := h k (Nat.le_refl _) (by simp)
    have hc : (List.range' (i + 1) n).contains k = true := by
      rw [List.contains_iff_mem, List.mem_range'_1]; exact h2
    have hk : (k == i) = false := by
      have : k ≠ i := by omega
      simpa using this
    rw [List.zipIdx_cons, List.filterMap_cons]
    simp only [ligKeep, hk, Bool.false_eq_true, if_false, hc, if_true]
    exact ih (k + 1) (fun j a b => h j (by omega) (by simp; omega))

/-- the specification's removal step in closed form -/
theorem ligRemove (gs1 : List G) (i n : Nat) (y : G) (hi : i < gs1.length) :
    ((gs1.mapIdx fun j x => (j, x)).filterMap fun (j, x) =>
        if j == i then some y else if (List.range' (i + 1) n).contains j then none else some x)
      = gs1.take i ++ y :: gs1.drop (i + n + 1) := by
  rw [List.mapIdx_eq_zipIdx_map, List.filterMap_map]
  have hf : ((fun (p : Nat × G) => if p.1 == i then some y else if (List.range' (i + 1) n).contains p.1 then none else some p.2)
      ∘ fun (x : G × Nat) => (x.2, x.1)) = ligKeep i n y := by
    funext p; rfl
  show List.filterMap ((fun (p : Nat × G) => if p.1 == i then some y else if (List.range' (i + 1) n).contains p.1 then none else some p.2)
      ∘ fun (x : G × Nat) => (x.2, x.1)) gs1.zipIdx = _
  rw [hf]
  have hsplit : gs1 = gs1.take i ++ (gs1[i] :: ((gs1.drop (i + 1)).take n ++ gs1.drop (i + n + 1))) := by
    have h1 : gs1.drop (i + 1) = (gs1.drop (i + 1)).take n ++ gs1.drop (i + n + 1) := by
      have := (List.take_append_drop n (gs1.drop (i + 1))).symm
      rw [List.drop_drop] at this
      rw [show i + n + 1 = i + 1 + n by omega]
      exact this
    rw [← h1, ← List.drop_eq_getElem_cons hi, List.take_append_drop]
  have hlA : (gs1.take i).length = i := by simp; omega
  generalize hA : gs1.take i = A at hsplit hlA
  generalize hB : (gs1.drop (i + 1)).take n = B at hsplit
  generalize hC : gs1.drop (i + n + 1) = C at hsplit
  have hlB : B.length ≤ n := by rw [← hB]; simp; omega
  have hlB2 : B.length < n → C = [] := by
    intro h
    rw [← hC]
    apply List.drop_eq_nil_of_le
    have : ((gs1.drop (i + 1)).take n).length = B.length := by rw [hB]
    simp at this
    omega
  conv => lhs; rw [hsplit]
  rw [List.zipIdx_append, List.filterMap_append, List.zipIdx_cons, List.filterMap_cons, List.zipIdx_append,
    List.filterMap_append]
  rw [ligKeep_keep i n y A 0 (by intro j a b; constructor <;> omega)]
  rw [ligKeep_drop i n y B (0 + A.length + 1) (by intro j a b; omega)]
  have hCk : (C.zipIdx (0 + A.length + 1 + B.length)).filterMap (ligKeep i n y) = C := by
    by_cases hbn : B.length < n
    · rw [hlB2 hbn]; rfl
    · exact ligKeep_keep i n y C _ (by intro j a b; constructor <;> omega)
  rw [hCk]
  have hself : ligKeep i n y (gs1[i], 0 + A.length) = some y := by
    simp only [ligKeep, Nat.zero_add, hlA, beq_self_eq_true, if_true]
  simp only [hself, List.nil_append]

/-! ### one ligature subtable, and a lookup made of them -/

theorem mergeClusters_length (level : Nat) (gs : List G) (i j : Nat) : (mergeClusters level gs i j).length = gs.length := by
  unfold mergeClusters
  split
  · rfl
  · simp only []
    split
    · rfl
    · simp

/-- the first ligature of a set whose components are the next glyphs -/
def firstLigG (lm : Nat) (R : List G) : List (List Nat × Nat) → Option (List Nat × Nat)
  | [] => none
  | (comps, lig) :: rest => if ligMatchG lm comps R then some (comps, lig) else firstLigG lm R rest

/-- what applying the ligature `comps → lig` at position `i` gives: merged clusters over `[i, i+n]`, the ligature glyph at
    `i` (cluster and mask of the merged first component), the `n` components behind it removed; resume at `i + 1` -/
def ligResult (level : Nat) (gs : List G) (i : Nat) (g : G) (comps : List Nat) (lig : Nat) : List G × Nat :=
  let gs1 := mergeClusters level gs i (i + comps.length)
  (gs1.take i ++ { (gs1[i]?).getD g with gid := lig } :: gs1.drop (i + comps.length + 1), i + 1)

theorem first_closed (level lm : Nat) (gs : List G) (i : Nat) (g : G) (hi : i < gs.length) :
    ∀ ligs : List (List Nat × Nat),
      applySubtableAt.first level lm gs i g (List.range' (i + 1) (gs.length - (i + 1))) ligs
        = (firstLigG lm (gs.drop (i + 1)) ligs).map (fun p => ligResult level gs i g p.1 p.2) := by
  intro ligs
  induction ligs with
  | nil => rfl
  | cons p rest ih =>
    obtain ⟨comps, lig⟩ := p
    simp only [applySubtableAt.first, firstLigG]
    rw [matchSeq_consecutive]
    by_cases hm : ligMatchG lm comps (gs.drop (i + 1)) = true
    · simp only [hm, if_true, Option.map_some]
      have hlast : ((List.range' (i + 1) comps.length).getLast?).getD i = i + comps.length := by
        rw [List.getLast?_range']
        by_cases h0 : comps.length = 0
        · simp [h0]
        · simp only [h0, if_false, Option.getD_some]; omega
      rw [hlast]
      have hl1 : i < (mergeClusters level gs i (i + comps.length)).length := by rw [mergeClusters_length]; exact hi
      rw [ligRemove _ i comps.length _ hl1]
      simp only [ligResult, List.length_range']
      congr 2
      omega
    · simp only [hm, Bool.false_eq_true, if_false]
      exact ih

/-- the ligature the lookup applies for first component `g` followed by `R`: first subtable, first ligature of the set -/
def ligForG? (lm : Nat) : List Subtable → G → List G → Option (List Nat × Nat)
  | [], _, _ => none
  | .ligature cov sets :: rest, g, R =>
      match (cov.index g.gid).bind (fun k => (sets[k]?).bind (firstLigG lm R)) with
      | some p => some p
      | none => ligForG? lm rest g R
  | _ :: rest, g, R => ligForG? lm rest g R

def _root_.RbModel.Gsub.Subtable.isLigatureSt : Subtable → Bool
  | .ligature .. => true
  | _ => false

/-- **the Spec's `firstSubtable` of a lookup made of ligature subtables**, flag-free lookup -/
theorem firstSubtable_ligature (f : Font) (level props lm : Nat) (hp : NoSkipFlags props) (gs : List G) (i : Nat) (g : G)
    (hg : gs[i]? = some g) :
    ∀ sts : List Subtable, sts.all Subtable.isLigatureSt = true →
      firstSubtable f level props lm gs i sts =
        (ligForG? lm sts g (gs.drop (i + 1))).map (fun p => ligResult level gs i g p.1 p.2) := by
  have hi := getElem?_lt gs i g hg
  intro sts
  induction sts with
  | nil => intro _; rfl
  | cons st rest ih =>
    intro hall
    simp only [List.all_cons, Bool.and_eq_true] at hall
    have ihr := ih hall.2
    cases st with
    | ligature cov sets =>
      unfold firstSubtable applySubtableAt
      simp only [hg, visibleFrom_noSkip f props gs (i + 1) hp, ligForG?]
      cases hc : cov.index g.gid with
      | none => simp only [bind, Option.bind]; exact ihr
      | some k =>
        cases hs : sets[k]? with
        | none => simp only [bind, Option.bind, hs]; exact ihr
        | some ligs =>
          simp only [bind, Option.bind, hs]
          rw [first_closed level lm gs i g hi ligs]
          cases hf : firstLigG lm (gs.drop (i + 1)) ligs with
          | none => simp only [Option.map_none]; exact ihr
          | some p => simp only [Option.map_some]
    | _ => simp [Subtable.isLigatureSt] at hall

end RbModel.Spec.Subst
