/-
  Marked insertion of the morx insertion subtable (`InsS.insMarked`) as a list insertion on the shared buffer model:
  helper lemmas for Props/C17.lean (`C17_insertion_marked_is_list_insertion`).
-/
import RbModel.Lemmas.Morx

namespace RbModel.Buf
open RbModel.Mem

theorem eta_unsucc (b : Buf) (h : b.successful = false) : { b with successful := false } = b := by
  cases b; simp_all

/-- `moveTo_spec` with the refused case spelled out: the buffer is only marked unsuccessful. -/
theorem moveTo_spec2 (b : Buf) (i : Nat) (hinv : Inv b) (hi : i ≤ total b)
    (hg : Gen.Buf.ensureGrowOnly = true) (hr : Gen.Buf.moveToRewindReversed = true) :
    ∃ b' r, b.moveTo i = .ok (b', r) ∧
      (r = false → b' = { b with successful := false }) ∧
      (r = true → Inv b' ∧ b'.outLen = i ∧ total b' = total b ∧ (∀ q, seq b' q = seq b q) ∧
        b'.successful = b.successful ∧ b'.level = b.level ∧ b'.flags = b.flags ∧
        b'.maxLen = b.maxLen ∧ b'.scratch = b.scratch ∧ b'.maxOps = b.maxOps) := by
  have hidx := hinv.idx_le
  have hlen := hinv.len_le
  have hol := hinv.out_len
  have hho := hinv.have_out
  unfold total at hi
  unfold moveTo
  have hnho : (!b.haveOutput) = false := by simp [hho]
  simp only [hnho, Bool.false_eq_true, if_false]
  by_cases hsucc : b.successful = true
  case neg =>
    -- already unsuccessful: returns false
    have : (!b.successful) = true := by simpa using hsucc
    simp only [this, if_true]
    refine ⟨b, false, rfl, ?_, ?_⟩
    · intro _; exact (eta_unsucc b (by simpa using hsucc)).symm
    · intro h; cases h
  have hns : (!b.successful) = false := by simp [hsucc]
  simp only [hns, Bool.false_eq_true, if_false]
  have hassert : ¬ i > b.outLen + (b.len - b.idx) := by omega
  simp only [hassert, if_false]
  by_cases hfw : b.outLen < i
  · -- forward
    simp only [hfw, if_true]
    rcases makeRoomFor_spec b (i - b.outLen) (i - b.outLen) hinv hg with hfail | ⟨I, O, s, hok, hinv1, hcap, hs1, hs2, hout1, hinf1, hle1⟩
    · simp only [bind, Except.bind, hfail, Bool.not_false, if_true, pure, Except.pure]
      refine ⟨_, false, rfl, ?_, ?_⟩
      · intro _; rfl
      · intro h; cases h
    · obtain ⟨I', O', hcp, hinv2, hI'len, hseq2⟩ :=
        copyToOut_advance { b with info := I, out := O, sepOut := s } (i - b.outLen) hinv1
          (by simp; omega) (by simpa using hcap)
      simp only [bind, Except.bind, hok, Bool.not_true, Bool.false_eq_true, if_false, hcp, pure, Except.pure]
      refine ⟨_, true, rfl, ?_, ?_⟩
      · intro h; cases h
      · intro _
        refine ⟨hinv2, by simp; omega, by simp [total]; omega, ?_, rfl, rfl, rfl, rfl, rfl, rfl⟩
        intro q
        rw [hseq2 q]
        exact seq_congr b { b with info := I, out := O, sepOut := s } rfl rfl rfl hlen hout1 hinf1 q
  · simp only [hfw, if_false]
    by_cases hbw : b.outLen > i
    · -- rewind
      simp only [hbw, if_true]
      by_cases hsh : b.idx < b.outLen - i
      · -- the input has to be shifted up first; only possible in separate-output mode
        have hs : b.sepOut = true := by
          cases hsb : b.sepOut with
          | true => rfl
          | false => have := hinv.nosep_ok hsb; omega
        simp only [hsh, if_true]
        rcases shiftForward_spec b (b.outLen - i - b.idx) hinv hs hg with hfail | ⟨I, O, hok, hinv1, hseq1⟩
        · simp only [bind, Except.bind, hfail, Bool.not_false, if_true, pure, Except.pure]
          refine ⟨_, false, rfl, ?_, ?_⟩
          · intro _; rfl
          · intro h; cases h
        · have hrew := copyFromOut_rewind _ (b.outLen - i) hinv1 (by simp; omega) (by simp) hr
          obtain ⟨I', hcp, hinv2, hseq2⟩ := hrew
          have hna : ¬ b.idx + (b.outLen - i - b.idx) < b.outLen - i := by omega
          simp only [bind, Except.bind, hok, Bool.not_true, Bool.false_eq_true, if_false, hna, pure, Except.pure]
          simp only [] at hcp
          rw [hcp]
          refine ⟨_, true, rfl, ?_, ?_⟩
          · intro h; cases h
          · intro _
            refine ⟨hinv2, by simp; omega, by simp [total]; omega, ?_, rfl, rfl, rfl, rfl, rfl, rfl⟩
            intro q
            rw [hseq2 q, hseq1 q]
      · simp only [hsh, if_false]
        obtain ⟨I', hcp, hinv2, hseq2⟩ := copyFromOut_rewind b (b.outLen - i) hinv (by omega) (by omega) hr
        simp only [bind, Except.bind, pure, Except.pure, Bool.not_true, Bool.false_eq_true, if_false, hsh]
        rw [hcp]
        refine ⟨_, true, rfl, ?_, ?_⟩
        · intro h; cases h
        · intro _
          exact ⟨hinv2, by simp; omega, by simp [total]; omega, hseq2, rfl, rfl, rfl, rfl, rfl, rfl⟩
    · simp only [hbw, if_false]
      refine ⟨b, true, rfl, ?_, ?_⟩
      · intro h; cases h
      · intro _
        exact ⟨hinv, by omega, rfl, fun _ => rfl, rfl, rfl, rfl, rfl, rfl, rfl⟩

open RbModel.Morx in
/-- the shared middle of both insertion blocks (`[copy_glyph]; output_glyph × c; [skip_glyph]`) is a list insertion at
    the output cursor: before the current glyph (`before`, or at the end of the text) or after it. -/
theorem insBlock_zipper (glyphs : Nat → Option Nat) (start c : Nat) (before : Bool) (b : Buf)
    (hinv : Inv b) (hne : 0 < total b)
    (hgl : ∀ k, k < c → (glyphs (start + k)).isSome = true)
    (hg : Gen.Buf.ensureGrowOnly = true) :
    ∃ b' x, srcOf b = some x ∧ InsS.insBlock glyphs start c before b = .ok (b', true) ∧ Inv b' ∧
      b.outLen ≤ b'.outLen ∧
      (b'.successful = false ∨
       (b'.successful = b.successful ∧ total b' = total b + c ∧
        b'.outLen = (if b.idx < b.len ∧ before = false then b.outLen + 1 + c else b.outLen + c) ∧
        ∀ q, seq b' q =
          insertedAt b (if b.idx < b.len ∧ before = false then b.outLen + 1 else b.outLen) glyphs start c x q)) := by
  obtain ⟨x, hx⟩ := srcOf_some b hinv hne
  have hidx := hinv.idx_le
  unfold InsS.insBlock
  by_cases hafter : (decide (b.idx < b.len) && !before) = true
  · have hcur : b.idx < b.len := by simp at hafter; exact hafter.1
    have hbef : before = false := by simp at hafter; exact hafter.2
    have hxi : b.info[b.idx]? = some x := by simpa [srcOf, hcur] using hx
    obtain ⟨b1, e1, hres1⟩ := copyGlyph_spec b hinv hcur hg
    have h1 : Inv b1 ∧ b1.idx = b.idx ∧ b1.len = b.len ∧ b.outLen ≤ b1.outLen ∧ srcOf b1 = some x := by
      rcases hres1 with h | ⟨hi, ho, hix, hl, _, hq⟩
      · subst h; exact ⟨inv_unsucc hinv, rfl, rfl, Nat.le_refl _, hx⟩
      · refine ⟨hi, hix, hl, by omega, ?_⟩
        have hc1 : b1.idx < b1.len := by rw [hix, hl]; exact hcur
        have := seq_at_outLen b1 hc1
        rw [hq, ho] at this
        simp only [show ¬ b.outLen + 1 < b.outLen by omega, show ¬ b.outLen + 1 = b.outLen by omega, if_false,
          Nat.add_sub_cancel] at this
        rw [seq_at_outLen b hcur, hxi] at this
        simp only [srcOf, hc1, if_true]; exact this.symm
    obtain ⟨hinv1, hi1, hl1, hmono1, hsrc1⟩ := h1
    have hne1 : 0 < total b1 := by unfold total at *; rw [hi1, hl1]; omega
    obtain ⟨b2, e2, hinv2, hi2, hl2, hmono2, hres2⟩ := insertGlyphs_spec glyphs start hg c b1 x hinv1 hne1 hsrc1 hgl
    have hc2 : b2.idx < b2.len := by rw [hi2, hl2, hi1, hl1]; exact hcur
    have hskip := skipGlyph_spec b2 hinv2 hc2 hinv2.nosep_ok
    have hc2' : (decide (b2.idx < b2.len) && !before) = true := by simp [hc2, hbef]
    simp only [hafter, if_true, e1, bind, Except.bind, e2, Bool.not_true, Bool.false_eq_true, if_false, hc2',
      pure, Except.pure]
    have ho3 : b2.skipGlyph.outLen = b2.outLen := rfl
    refine ⟨_, x, hx, rfl, hskip.1, by rw [ho3]; omega, ?_⟩
    rcases hres1 with h | ⟨_, ho1, _, _, hsu1, hq1⟩
    · left
      show b2.successful = false
      rcases hres2 with h2 | ⟨_, h2, _⟩
      · exact h2
      · rw [h2, h]
    rcases hres2 with h2 | ⟨ho2, hsu2, hq2⟩
    · left; exact h2
    right
    have hpos : (if b.idx < b.len ∧ before = false then b.outLen + 1 else b.outLen) = b.outLen + 1 := by
      simp [hcur, hbef]
    have hpos' : (if b.idx < b.len ∧ before = false then b.outLen + 1 + c else b.outLen + c) = b.outLen + 1 + c := by
      simp [hcur, hbef]
    refine ⟨?_, ?_, by rw [ho3, ho2, ho1, hpos'], ?_⟩
    · show b2.successful = b.successful; rw [hsu2, hsu1]
    · unfold total skipGlyph; simp only; rw [ho2, ho1, hi2, hl2, hi1, hl1]; omega
    · intro q
      rw [hskip.2 q, hpos]
      unfold insertedAt
      by_cases c1 : q < b2.outLen
      · rw [if_pos c1, hq2]; unfold insertedSeq
        rw [ho1]
        by_cases c2 : q < b.outLen + 1
        · rw [if_pos c2, if_pos c2, hq1]
          by_cases c3 : q < b.outLen
          · rw [if_pos c3]
          · have : q = b.outLen := by omega
            subst this
            rw [if_neg c3, if_pos rfl, seq_at_outLen b hcur]
        · rw [if_neg c2, if_neg c2, if_pos (by omega), if_pos (by omega)]
      · rw [if_neg c1, hq2]; unfold insertedSeq
        rw [ho1]
        rw [if_neg (by omega), if_neg (by omega), if_neg (by omega), if_neg (by omega), hq1,
          if_neg (by omega), if_neg (by omega)]
        congr 1; omega
  · have hafter' : (decide (b.idx < b.len) && !before) = false := by simpa using hafter
    obtain ⟨b2, e2, hinv2, hi2, hl2, hmono2, hres2⟩ := insertGlyphs_spec glyphs start hg c b x hinv hne hx hgl
    have hc2' : (decide (b2.idx < b2.len) && !before) = false := by rw [hi2, hl2]; exact hafter'
    simp only [hafter', Bool.false_eq_true, if_false, pure, Except.pure, bind, Except.bind, e2, Bool.not_true, hc2']
    refine ⟨_, x, hx, rfl, hinv2, hmono2, ?_⟩
    rcases hres2 with h2 | ⟨ho2, hsu2, hq2⟩
    · exact Or.inl h2
    right
    have hnot : ¬ (b.idx < b.len ∧ before = false) := by
      intro h; simp [h.1, h.2] at hafter'
    refine ⟨hsu2, by unfold total; rw [ho2, hi2, hl2]; omega, by simp [hnot, ho2], ?_⟩
    intro q
    rw [hq2]; simp only [hnot, if_false]; rfl

open RbModel.Morx in
theorem clampCount_eq (glyphs : Nat → Option Nat) (start c : Nat)
    (hgl : ∀ k, k < c → (glyphs (start + k)).isSome = true) : InsS.clampCount glyphs start c = c := by
  unfold InsS.clampCount
  by_cases hc : c = 0
  · simp [hc]
  · have := hgl (c - 1) (by omega)
    have e : start + (c - 1) = start + c - 1 := by omega
    rw [e] at this
    have hn : (glyphs (start + c - 1)).isNone = false := by
      cases h : glyphs (start + c - 1) with
      | none => rw [h] at this; simp at this
      | some v => rfl
    simp [hn]

open RbModel.Morx in
/-- the glyph-flag bookkeeping at the end of the marked insertion does not panic on an in/out buffer whose output
    cursor is not before the mark -/
theorem insFlagsFromOut_ok (b : Buf) (hinv : Inv b) (start : Nat) (hs : start ≤ b.outLen) :
    InsS.flagsFromOut b start (min (b.idx + 1) b.len) = .ok () := by
  have hidx := hinv.idx_le
  have hcap : b.outLen ≤ b.outArr.length := by
    cases hsb : b.sepOut with
    | true => have := hinv.sep_ok hsb; simp [outArr, hsb]; omega
    | false => have := hinv.nosep_ok hsb; have := hinv.len_le; simp [outArr, hsb]; omega
  unfold InsS.flagsFromOut
  have h1 : ¬ start > b.outLen := by omega
  have h2 : ¬ b.idx > min (min (b.idx + 1) b.len) b.len := by omega
  have h3 : ¬ b.outArr.length < b.outLen := by omega
  have h4 : b.idx ≤ min (b.idx + 1) b.len := by omega
  simp [hinv.have_out, h1, h3, h4, pure, Except.pure, bind, Except.bind]

/-- the record the marked insertion copies: the marked glyph, or - the mark at the end of the text - the last glyph -/
def markedSrc (b : Buf) (mark : Nat) : Option Info := if mark < total b then seq b mark else seq b (mark - 1)

open RbModel.Morx in
/-- **the marked-insertion block is a list insertion at the mark.** On an in/out buffer (`Inv`) whose mark is not behind
    the output cursor, with the operation budget not exhausted and every glyph of the list present: no panic, the
    transition goes on (`true`), and either an allocation was refused (buffer marked unsuccessful) or the logical glyph
    sequence is the old one with the `c` glyphs inserted before the marked glyph (`MARKED_INSERT_BEFORE`, or the mark at
    the end of the text) or after it, each inheriting the marked glyph's record, in the order of the insertion list; the
    output cursor has moved on by `c` (it is behind the same glyph as before); nothing is lost or duplicated. -/
theorem insMarked_zipper (glyphs : Nat → Option Nat) (mark : Nat) (e : RbModel.Morx.Entry) (b : Buf)
    (hinv : Inv b) (hne : 0 < total b) (hmark : mark ≤ b.outLen) (hx2 : e.x2 ≠ 0xFFFF)
    (hops : 0 < b.maxOps - ((e.flags &&& Gen.Morx.INS_MARKED_INSERT_COUNT : Nat) : Int))
    (hgl : ∀ k, k < (e.flags &&& Gen.Morx.INS_MARKED_INSERT_COUNT) → (glyphs (e.x2 + k)).isSome = true)
    (hg : Gen.Buf.ensureGrowOnly = true) (hr : Gen.Buf.moveToRewindReversed = true) :
    ∃ b' x, markedSrc b mark = some x ∧ InsS.insMarked glyphs mark e b = .ok (b', true) ∧
      (b'.successful = false ∨
       (Inv b' ∧ b'.successful = b.successful ∧
        total b' = total b + (e.flags &&& Gen.Morx.INS_MARKED_INSERT_COUNT) ∧
        b'.outLen = b.outLen + (e.flags &&& Gen.Morx.INS_MARKED_INSERT_COUNT) ∧
        ∀ q, seq b' q =
          insertedAt b (if mark < total b ∧ bit e.flags Gen.Morx.INS_MARKED_INSERT_BEFORE = false then mark + 1 else mark)
            glyphs e.x2 (e.flags &&& Gen.Morx.INS_MARKED_INSERT_COUNT) x q)) := by
  generalize hc : (e.flags &&& Gen.Morx.INS_MARKED_INSERT_COUNT) = c at *
  generalize hbf : bit e.flags Gen.Morx.INS_MARKED_INSERT_BEFORE = before
  -- the buffer after the budget accounting
  let b0 : Buf := { b with maxOps := b.maxOps - (c : Int) }
  have hinv0 : Inv b0 := ⟨hinv.idx_le, hinv.len_le, hinv.out_len, hinv.sep_ok, hinv.nosep_ok, hinv.have_out⟩
  have hseq0 : ∀ q, seq b0 q = seq b q := fun _ => rfl
  have htot0 : total b0 = total b := rfl
  have hops0 : ¬ b0.maxOps ≤ 0 := by show ¬ b.maxOps - (c : Int) ≤ 0; omega
  have hclamp := clampCount_eq glyphs e.x2 c hgl
  obtain ⟨b1, r1, e1, hf1, ht1⟩ := moveTo_spec2 b0 mark hinv0 (by rw [htot0]; unfold total; omega) hg hr
  -- facts about the buffer at the mark that hold in both outcomes
  have hb1 : Inv b1 ∧ 0 < total b1 ∧ mark ≤ b1.outLen := by
    cases r1 with
    | false => rw [hf1 rfl]; exact ⟨inv_unsucc hinv0, hne, hmark⟩
    | true => obtain ⟨h, ho, htot, _⟩ := ht1 rfl; exact ⟨h, by rw [htot, htot0]; exact hne, by omega⟩
  obtain ⟨hinv1, hne1, hm1⟩ := hb1
  obtain ⟨b2, x, hx, e2, hinv2, hmono2, hres2⟩ := insBlock_zipper glyphs e.x2 c before b1 hinv1 hne1 hgl hg
  have hm2 : mark ≤ b2.outLen := by omega
  -- the record that is copied, in terms of the buffer we started from
  have hxsrc : r1 = true → markedSrc b mark = some x := by
    intro hr1
    obtain ⟨_, ho1, htot1, hq1, _⟩ := ht1 hr1
    unfold markedSrc
    have ht : total b1 = total b := by rw [htot1, htot0]
    by_cases hcur : b1.idx < b1.len
    · have : mark < total b := by rw [← ht]; unfold total; omega
      rw [if_pos this, ← hseq0, ← hq1, ← ho1, seq_at_outLen b1 hcur]
      simpa [srcOf, hcur] using hx
    · have hge : ¬ mark < total b := by rw [← ht]; unfold total; omega
      have hpos : 0 < b1.outLen := by unfold total at hne1; omega
      rw [if_neg hge, ← hseq0, ← hq1, ← ho1]
      simp only [seq, show b1.outLen - 1 < b1.outLen by omega, if_true]
      simpa [srcOf, hcur] using hx
  have hxs : ∃ x', markedSrc b mark = some x' := by
    unfold markedSrc
    have hidx := hinv.idx_le
    have hlen := hinv.len_le
    have hcap : b.outLen ≤ b.outArr.length := by
      cases hsb : b.sepOut with
      | true => have := hinv.sep_ok hsb; simp [outArr, hsb]; omega
      | false => have := hinv.nosep_ok hsb; simp [outArr, hsb]; omega
    have hsome : ∀ q, q < total b → ∃ y, seq b q = some y := by
      intro q hq
      unfold total at hq
      unfold seq
      by_cases h1 : q < b.outLen
      · rw [if_pos h1]; exact ⟨_, List.getElem?_eq_getElem (by omega)⟩
      · rw [if_neg h1, if_pos (by omega)]; exact ⟨_, List.getElem?_eq_getElem (by omega)⟩
    by_cases h : mark < total b
    · rw [if_pos h]; exact hsome _ h
    · rw [if_neg h]
      have h0 : 0 < b.outLen + (b.len - b.idx) := hne
      have h' : ¬ mark < b.outLen + (b.len - b.idx) := h
      exact hsome _ (by show mark - 1 < b.outLen + (b.len - b.idx); omega)
  unfold InsS.insMarked
  have hx2' : (e.x2 != 0xFFFF) = true := by simpa using hx2
  simp only [hx2', if_true, hc, hbf]
  show ∃ b' x, markedSrc b mark = some x ∧
    (do
      let b := b0
      if b.maxOps ≤ 0 then return (b, false)
      let count := InsS.clampCount glyphs e.x2 c
      let end_ := b.outLen
      let (b, _) ← b.moveTo mark
      let (b, ok) ← InsS.insBlock glyphs e.x2 count before b
      if !ok then return (b, false)
      let (b, _) ← b.moveTo (end_ + count)
      InsS.flagsFromOut b mark (min (b.idx + 1) b.len)
      return (b, true)) = .ok (b', true) ∧ _
  simp only [hops0, if_false, hclamp, e1, bind, Except.bind, e2, Bool.not_true, Bool.false_eq_true, pure, Except.pure]
  have hend : b0.outLen = b.outLen := rfl
  rw [hend]
  -- the final move back behind the glyph the cursor was at
  by_cases hs2 : b2.successful = false
  · rw [moveTo_unsucc _ _ hinv2 hs2]
    simp only [insFlagsFromOut_ok b2 hinv2 mark hm2]
    obtain ⟨x', hx'⟩ := hxs
    exact ⟨_, x', hx', rfl, Or.inl hs2⟩
  · rcases hres2 with h | ⟨hsu2, htot2, ho2, hq2⟩
    · exact absurd h hs2
    cases r1 with
    | false =>
      exfalso
      have := hf1 rfl
      rw [this] at hsu2
      exact hs2 hsu2
    | true =>
      obtain ⟨_, ho1, htot1, hq1, hsu1, _⟩ := ht1 rfl
      have ht : total b1 = total b := by rw [htot1, htot0]
      obtain ⟨b3, r3, e3, hf3, ht3⟩ := moveTo_spec2 b2 (b.outLen + c) hinv2
        (by rw [htot2, ht]; unfold total; omega) hg hr
      rw [e3]
      cases r3 with
      | false =>
        have hb3 := hf3 rfl
        have hinv3 : Inv b3 := by rw [hb3]; exact inv_unsucc hinv2
        have hm3 : mark ≤ b3.outLen := by rw [hb3]; exact hm2
        simp only [insFlagsFromOut_ok b3 hinv3 mark hm3]
        exact ⟨_, x, hxsrc rfl, rfl, Or.inl (by rw [hb3])⟩
      | true =>
        obtain ⟨hinv3, ho3, htot3, hq3, hsu3, _⟩ := ht3 rfl
        simp only [insFlagsFromOut_ok b3 hinv3 mark (by omega)]
        refine ⟨_, x, hxsrc rfl, rfl, Or.inr ⟨hinv3, ?_, by rw [htot3, htot2, ht], ho3, ?_⟩⟩
        · rw [hsu3, hsu2, hsu1]
        · intro q
          rw [hq3, hq2]
          have hiff : (b1.idx < b1.len) ↔ (mark < total b) := by
            rw [← ht]; unfold total; omega
          have hpos : (if b1.idx < b1.len ∧ before = false then b1.outLen + 1 else b1.outLen)
              = (if mark < total b ∧ before = false then mark + 1 else mark) := by
            rw [ho1]; simp only [hiff]
          rw [hpos]
          unfold insertedAt
          simp only [hq1, hseq0]

end RbModel.Buf
