/-
  Lookups that mix ligature subtables with the one-for-one simple subtables (single substitution formats 1 / 2, alternate
  substitution): the forward-scan simulation of GsubLigFwd.lean made generic in the per-subtable step (`SubSim`: one
  subtable at the current glyph against `Spec.Subst.applySubtableAt`), so that the first applicable subtable decides
  whatever its kind.  (OpenType lookups are homogeneous in type; the model's `Lookup` is not, and neither is the
  specification's `firstSubtable`.)
-/
import RbModel.Lemmas.GsubLigFwd
import RbModel.Lemmas.GsubMultiMixed

namespace RbModel.Gsub
open RbModel RbModel.Buf RbModel.Mem RbModel.Spec.Subst

/-- what a successful application at the current glyph establishes: the invariant again, the specification's new string
    and resume index, no growth -/
def StepGood (l : Lookup) (lm : Nat) (c : Ctx) (b' : Buf) (gs' : List G) (nxt : Nat) : Prop :=
  LigInv l lm { c with buf := b' } ∧ (outP b' ++ inP b').map projG = gs' ∧ b'.outLen = nxt ∧ nxt = c.buf.outLen + 1 ∧
    b'.maxLen = c.buf.maxLen ∧ b'.outLen + (inP b').length ≤ c.buf.outLen + (inP c.buf).length

/-- a ligature application (with `n ≥ 0` extra components) re-establishes the invariant and yields the specification's
    `ligResult` -/
theorem ligApplied_good (l : Lookup) (lm level : Nat) (hlv : level ≠ 2) (c : Ctx) (h : LigInv l lm c) (x : Info)
    (R : List Info) (hin : inP c.buf = x :: R) (comps : List Nat) (lig : Nat) (res : M (Ctx × Bool))
    (happ : LigApplied c comps lig res) :
    ∃ b', res = .ok ({ c with buf := b' }, true) ∧
      StepGood l lm c b' (ligResult level ((outP c.buf ++ inP c.buf).map projG) c.buf.outLen (projG x) comps lig).1
        (c.buf.outLen + 1) := by
  have hol := outP_length c.buf h.inv
  obtain ⟨b1, O1, x1, T1, y, hres, hinv1, hrel, hO1, hy, ho1, hi1, hcfg⟩ := happ
  have hrelL := mergeRel_length hrel
  have hgs1 := mergeRel_spec _ _ c.buf.outLen comps.length level hrel h.mono h.feat hlv
  have hres2 := ligResult_eq level ((outP c.buf ++ inP c.buf).map projG) c.buf.outLen (projG x) comps lig O1 T1 x1 y
    hgs1 hO1 hy
  have hol1 : b1.outLen = c.buf.outLen + 1 := by
    have := outP_length b1 hinv1
    rw [ho1] at this
    simp [hO1] at this
    omega
  have hseq1 : outP b1 ++ inP b1 = O1 ++ [{ y with gid := lig }] ++ T1.drop comps.length := by rw [ho1, hi1]
  have hT1l : T1.length = R.length := by
    rw [hin] at hrelL
    simp [hO1, hol] at hrelL
    omega
  have hOl : O1.length = (outP c.buf).length := by rw [hO1, hol]
  have hplain1 : ∀ z ∈ x1 :: T1, Plain z ∧ z.gid < 65536 :=
    mergeRel_right hrel hOl (fun z => Plain z ∧ z.gid < 65536) (fun z m hz => plain_setCluster z m hz) h.plain
  have hfeatO : ∀ z ∈ O1, FeatMask z :=
    mergeRel_left hrel hOl FeatMask (fun z m hz => featMask_setCluster z m hz)
      (fun z hz => h.feat z (List.mem_append_left _ hz))
  have hfeatI : ∀ z ∈ x1 :: T1, FeatMask z :=
    mergeRel_right hrel hOl FeatMask (fun z m hz => featMask_setCluster z m hz)
      (fun z hz => h.feat z (List.mem_append_right _ hz))
  have hym : y.mask = x1.mask := congrArg G.mask hy
  have hyc : y.cluster = x1.cluster := congrArg G.cluster hy
  have hbud1 : b1.outLen + (inP b1).length ≤ c.buf.outLen + (inP c.buf).length := by
    rw [hol1, hi1, hin, List.length_drop]; simp only [List.length_cons]; omega
  have hI1 : LigInv l lm { c with buf := b1 } := by
    refine ⟨hinv1, by rw [hcfg.1]; exact h.succ, h.props, h.mask, h.nosyl, by rw [hcfg.2.2.1]; exact h.level,
      by rw [hcfg.2.2.2]; exact h.noconcat, ?_, ?_, ?_, ?_⟩
    · show b1.outLen + (inP b1).length ≤ b1.maxLen
      rw [hcfg.2.1]
      exact Nat.le_trans hbud1 h.budget
    · intro z hz
      have hz' : z ∈ T1.drop comps.length := by rw [← hi1]; exact hz
      exact hplain1 z (List.mem_cons_of_mem _ (List.mem_of_mem_drop hz'))
    · intro z hz
      have hz' : z ∈ O1 ++ [{ y with gid := lig }] ++ T1.drop comps.length := by rw [← hseq1]; exact hz
      simp only [List.mem_append, List.mem_singleton] at hz'
      rcases hz' with (hz' | hz') | hz'
      · exact hfeatO z hz'
      · rw [hz']
        show y.mask &&& (U32MAX - Flag.DEFINED) = y.mask
        rw [hym]; exact hfeatI x1 (List.mem_cons_self)
      · exact hfeatI z (List.mem_cons_of_mem _ (List.mem_of_mem_drop hz'))
    · show NonDecr (outP b1 ++ inP b1) ∨ NonIncr (outP b1 ++ inP b1)
      rw [hseq1, List.append_assoc, List.singleton_append]
      exact mono_removed O1 T1 x1 { y with gid := lig } comps.length hyc (mergeRel_mono hrel h.mono)
  refine ⟨b1, hres, hI1, ?_, hol1, rfl, hcfg.2.1, hbud1⟩
  rw [hres2, hseq1]

/-- **one subtable at the current glyph simulates the specification's `applySubtableAt`** on every state of the scan -/
def SubSim (recurse : Ctx → Nat → M (Ctx × Bool)) (full : Bool) (l : Lookup) (lm level : Nat) (st : Subtable) : Prop :=
  ∀ (c : Ctx) (x : Info) (R : List Info), LigInv l lm c → c.random = false → inP c.buf = x :: R →
    match applySubtableAt c.font level l.props lm st ((outP c.buf ++ inP c.buf).map projG) c.buf.outLen with
    | none => applySubtable recurse full c st = .ok (c, false)
    | some (gs', nxt) => ∃ b', applySubtable recurse full c st = .ok ({ c with buf := b' }, true) ∧ StepGood l lm c b' gs' nxt

/-- the first applicable subtable decides, on both sides -/
theorem listSim (recurse : Ctx → Nat → M (Ctx × Bool)) (full : Bool) (l : Lookup) (lm level : Nat) :
    ∀ sts : List Subtable, (∀ st ∈ sts, SubSim recurse full l lm level st) →
    ∀ (c : Ctx) (x : Info) (R : List Info), LigInv l lm c → c.random = false → inP c.buf = x :: R →
      match firstSubtable c.font level l.props lm ((outP c.buf ++ inP c.buf).map projG) c.buf.outLen sts with
      | none => applySubtables recurse full c sts = .ok (c, false)
      | some (gs', nxt) => ∃ b', applySubtables recurse full c sts = .ok ({ c with buf := b' }, true) ∧ StepGood l lm c b' gs' nxt := by
  intro sts
  induction sts with
  | nil => intro _ c x R _ _ _; rfl
  | cons st rest ih =>
    intro hsts c x R h hrnd hin
    have hst := hsts st List.mem_cons_self c x R h hrnd hin
    have ihr := ih (fun st' hm => hsts st' (List.mem_cons_of_mem _ hm)) c x R h hrnd hin
    simp only [firstSubtable]
    cases hs : applySubtableAt c.font level l.props lm st ((outP c.buf ++ inP c.buf).map projG) c.buf.outLen with
    | none =>
      rw [hs] at hst
      simp only [] at hst ⊢
      have : applySubtables recurse full c (st :: rest) = applySubtables recurse full c rest := by
        simp only [applySubtables, bind, Except.bind, hst, Bool.false_eq_true, if_false]
      rw [this]; exact ihr
    | some r =>
      obtain ⟨gs', nxt⟩ := r
      rw [hs] at hst
      simp only [] at hst ⊢
      obtain ⟨b', hres, hgood⟩ := hst
      refine ⟨b', ?_, hgood⟩
      simp only [applySubtables, bind, Except.bind, hres, if_true, pure, Except.pure]

/-- **the forward scan of any lookup whose subtables all simulate the specification** -/
theorem applyForward_sim (l : Lookup) (hp : NoSkipFlags l.props) (hg : Gen.Buf.ensureGrowOnly = true) (level lm : Nat)
    (hsim : ∀ st ∈ l.subtables, SubSim (recurseAt MAX_NESTING_LEVEL) true l lm level st) :
    ∀ (fuel : Nat) (c : Ctx), LigInv l lm c → c.random = false →
      ∃ b', applyForward l fuel c = .ok { c with buf := b' } ∧ Inv b' ∧ b'.successful = true ∧ b'.maxLen = c.buf.maxLen ∧
        b'.outLen + (inP b').length ≤ c.buf.outLen + (inP c.buf).length ∧
        (outP b' ++ inP b').map projG
          = applyLookupFwd c.font level l lm fuel ((outP c.buf ++ inP c.buf).map projG) c.buf.outLen := by
  intro fuel
  induction fuel with
  | zero =>
    intro c h _
    exact ⟨c.buf, rfl, h.inv, h.succ, rfl, Nat.le_refl _, rfl⟩
  | succ fuel ih =>
    intro c h hrnd
    have hol := outP_length c.buf h.inv
    have hcases : inP c.buf = [] ∨ ∃ x R, inP c.buf = x :: R := by
      cases inP c.buf with
      | nil => exact Or.inl rfl
      | cons x R => exact Or.inr ⟨x, R, rfl⟩
    rcases hcases with hin | ⟨x, R, hin⟩
    · have hl := inP_length c.buf h.inv
      rw [hin] at hl
      simp at hl
      have hc : ¬ (c.buf.idx < c.buf.len) := by omega
      refine ⟨c.buf, ?_, h.inv, h.succ, rfl, Nat.le_refl _, ?_⟩
      · simp [applyForward, hc]; rfl
      · have hnone : ((outP c.buf ++ inP c.buf).map projG)[c.buf.outLen]? = none := by
          apply List.getElem?_eq_none; rw [hin]; simp [hol]
        simp only [applyLookupFwd, hnone]
    · obtain ⟨hcur, hx⟩ := inP_head c.buf h.inv x R hin
      have hget : Mem.get c.buf.info c.buf.idx = .ok x := by unfold Mem.get; rw [hx]; rfl
      have hc2 : (decide (c.buf.idx < c.buf.len) && c.buf.successful) = true := by simp [hcur, h.succ]
      have hgs : ((outP c.buf ++ inP c.buf).map projG)[c.buf.outLen]? = some (projG x) := by
        rw [hin, List.getElem?_map, List.getElem?_append_right (by omega), hol]; simp
      have hchk : checkGlyphProperty c.font x c.lookupProps = true := by
        rw [h.props]; exact checkGlyphProperty_noSkip c.font x l.props hp
      have hign : ignored c.font l.props (projG x) = false := ignored_noSkip c.font l.props _ hp
      have hxm : (projG x).mask = x.mask := rfl
      have hskip : (∀ b1, c.buf.nextGlyph = .ok b1 → applyForward l (fuel + 1) c = applyForward l fuel { c with buf := b1 }) →
          applyLookupFwd c.font level l lm (fuel + 1) ((outP c.buf ++ inP c.buf).map projG) c.buf.outLen
            = applyLookupFwd c.font level l lm fuel ((outP c.buf ++ inP c.buf).map projG) (c.buf.outLen + 1) →
          ∃ b', applyForward l (fuel + 1) c = .ok { c with buf := b' } ∧ Inv b' ∧ b'.successful = true ∧
            b'.maxLen = c.buf.maxLen ∧ b'.outLen + (inP b').length ≤ c.buf.outLen + (inP c.buf).length ∧
            (outP b' ++ inP b').map projG
              = applyLookupFwd c.font level l lm (fuel + 1) ((outP c.buf ++ inP c.buf).map projG) c.buf.outLen := by
        intro hm hs
        obtain ⟨b1, hrun, hI1, hseq, hol1, hml1, hbud1⟩ := ligInv_next hg l lm c h x R hin
        obtain ⟨b', hres, hinv', hsu', hml', hbud', hout'⟩ := ih { c with buf := b1 } hI1 hrnd
        refine ⟨b', by rw [hm b1 hrun]; exact hres, hinv', hsu', by rw [hml']; exact hml1, ?_, ?_⟩
        · have : b1.outLen + (inP b1).length = c.buf.outLen + (inP c.buf).length := hbud1
          exact Nat.le_trans hbud' (Nat.le_of_eq this)
        · rw [hout', hs]
          show applyLookupFwd c.font level l lm fuel ((outP b1 ++ inP b1).map projG) b1.outLen = _
          rw [hseq, hol1]
      by_cases hen : (x.mask &&& lm != 0) = true
      · have henc : (x.mask &&& c.lookupMask != 0) = true := by rw [h.mask]; exact hen
        have hstep := listSim (recurseAt MAX_NESTING_LEVEL) true l lm level l.subtables hsim c x R h hrnd hin
        cases hfs : firstSubtable c.font level l.props lm ((outP c.buf ++ inP c.buf).map projG) c.buf.outLen l.subtables with
        | none =>
          rw [hfs] at hstep
          simp only [] at hstep
          apply hskip
          · intro b1 hb1
            simp only [applyForward, hc2, if_true, bind, Except.bind, hget, henc, hchk, Bool.and_self, applyTop,
              hstep, Bool.false_eq_true, if_false, hb1]
          · simp only [applyLookupFwd, hgs, hxm, hen, hign, Bool.not_false, Bool.and_self, if_true, hfs]
        | some r =>
          obtain ⟨gs', nxt⟩ := r
          rw [hfs] at hstep
          simp only [] at hstep
          obtain ⟨b1, hres, hI1, hgs', hol1, hnxt, hml1, hbud1⟩ := hstep
          obtain ⟨b', hres', hinv', hsu', hml', hbud', hout'⟩ := ih { c with buf := b1 } hI1 hrnd
          refine ⟨b', ?_, hinv', hsu', by rw [hml']; exact hml1, Nat.le_trans hbud' hbud1, ?_⟩
          · simp only [applyForward, hc2, if_true, bind, Except.bind, hget, henc, hchk, Bool.and_self, applyTop, hres]
            exact hres'
          · rw [hout']
            simp only [applyLookupFwd, hgs, hxm, hen, hign, Bool.not_false, Bool.and_self, if_true, hfs]
            rw [Nat.max_eq_left (by omega)]
            show applyLookupFwd c.font level l lm fuel ((outP b1 ++ inP b1).map projG) b1.outLen = _
            rw [hgs', hol1]
      · have hen' : (x.mask &&& lm != 0) = false := by simpa using hen
        have henc : (x.mask &&& c.lookupMask != 0) = false := by rw [h.mask]; exact hen'
        apply hskip
        · intro b1 hb1
          simp only [applyForward, hc2, if_true, bind, Except.bind, hget, henc, Bool.false_and, Bool.false_eq_true,
            if_false, hb1]
        · simp only [applyLookupFwd, hgs, hxm, hen', Bool.false_and, Bool.false_eq_true, if_false]

/-! ### the two kinds of subtables -/

theorem ligResult_pair (level : Nat) (gs : List G) (i : Nat) (g : G) (comps : List Nat) (lig : Nat) :
    ligResult level gs i g comps lig = ((ligResult level gs i g comps lig).1, i + 1) := rfl

theorem ligature_subSim (hg : Gen.Buf.ensureGrowOnly = true) (hguard : Gen.Buf.extendStartGuard = 1)
    (recurse : Ctx → Nat → M (Ctx × Bool)) (full : Bool) (l : Lookup) (lm level : Nat) (hlv : level ≠ 2)
    (hp : NoSkipFlags l.props) (cov : Cov) (sets : List (List (List Nat × Nat)))
    (hshort : ∀ ligs ∈ sets, ∀ p ∈ ligs, p.1.length + 1 ≤ MAX_CONTEXT_LENGTH) :
    SubSim recurse full l lm level (.ligature cov sets) := by
  intro c x R h hrnd hin
  have hol := outP_length c.buf h.inv
  have hctx : LigCtx c x R :=
    ⟨h.inv, hin, fun y hy => (h.plain y (by rw [hin]; exact hy)).1, by rw [h.props]; exact hp, h.nosyl, h.level,
      h.noconcat, by have := h.budget; rw [hin] at this; simp at this; omega⟩
  have hsh : LigsShort [.ligature cov sets] := by
    intro st hst cov' sets' he ligs hl p hp'
    simp only [List.mem_singleton] at hst
    subst hst
    cases he
    exact hshort ligs hl p hp'
  have happ := applySubtables_ligature hg hguard recurse full c x R hctx [.ligature cov sets] (by rfl) hsh
  have hxg : x.gid < 65536 := (h.plain x (by rw [hin]; exact List.mem_cons_self)).2
  have hRg : ∀ y ∈ R, y.gid < 65536 := fun y hy => (h.plain y (by rw [hin]; exact List.mem_cons_of_mem _ hy)).2
  rw [h.mask, ligFor?_proj lm x R hxg hRg, applySubtables_singleton] at happ
  have hgs : ((outP c.buf ++ inP c.buf).map projG)[c.buf.outLen]? = some (projG x) := by
    rw [hin, List.getElem?_map, List.getElem?_append_right (by omega), hol]; simp
  have hdrop : ((outP c.buf ++ inP c.buf).map projG).drop (c.buf.outLen + 1) = R.map projG := by
    rw [hin, List.map_append, List.map_cons]
    exact drop_succ_append _ _ _ _ (by simp [hol])
  have hspecF := firstSubtable_ligature c.font level l.props lm hp _ c.buf.outLen (projG x) hgs [.ligature cov sets] (by rfl)
  rw [firstSubtable_singleton, hdrop] at hspecF
  rw [hspecF]
  cases hsel : ligForG? lm [.ligature cov sets] (projG x) (R.map projG) with
  | none =>
    rw [hsel] at happ
    exact happ
  | some p =>
    rw [hsel] at happ
    simp only [Option.map_some]
    rw [ligResult_pair]
    exact ligApplied_good l lm level hlv c h x R hin p.1 p.2 _ happ

def Subtable.isInPlace : Subtable → Bool
  | .single1 .. => true
  | .single2 .. => true
  | .alternate .. => true
  | _ => false

theorem isSimple_of_isInPlace (st : Subtable) (h : st.isInPlace = true) : st.isSimple = true := by
  cases st <;> simp [Subtable.isInPlace] at h <;> rfl

theorem simpleSeqGM_inplace (lm : Nat) (st : Subtable) (h : st.isInPlace = true) (gid mask : Nat) (ss : List Nat)
    (hs : simpleSeqGM lm [st] gid mask = some ss) : ∃ s, ss = [s] := by
  cases st with
  | single1 cov d =>
    simp only [simpleSeqGM] at hs
    split at hs
    · exact ⟨_, (Option.some.inj hs).symm⟩
    · cases hs
  | single2 cov sub =>
    simp only [simpleSeqGM] at hs
    split at hs
    · split at hs
      · exact ⟨_, (Option.some.inj hs).symm⟩
      · cases hs
    · cases hs
  | alternate cov alts =>
    simp only [simpleSeqGM] at hs
    split at hs
    · cases hs
    · split at hs
      · cases hs
      · split at hs
        · cases hs
        · split at hs
          · cases hs
          · split at hs
            · cases hs
            · exact ⟨_, (Option.some.inj hs).symm⟩
  | _ => simp [Subtable.isInPlace] at h

theorem applySeq_single_eq_ligRule (c : Ctx) (x : Info) (s : Nat) :
    (applySeq c x [s]).map (fun c' => (c', true)) = ligRule c ([], s) := by
  simp only [applySeq, ligRule, List.isEmpty_nil, if_true, bind, Except.bind, pure, Except.pure]
  cases ctxReplaceGlyph c s <;> rfl

theorem ligResult_nil (level : Nat) (gs : List G) (i : Nat) (g : G) (s : Nat) (hg : gs[i]? = some g) :
    (ligResult level gs i g [] s).1 = replaceAt gs i [{ g with gid := s }] 1 := by
  unfold ligResult replaceAt
  simp only [List.length_nil, Nat.add_zero, mergeClusters_single, hg, Option.getD_some, List.append_assoc,
    List.singleton_append]

theorem inplace_subSim (hg : Gen.Buf.ensureGrowOnly = true) (hguard : Gen.Buf.extendStartGuard = 1)
    (recurse : Ctx → Nat → M (Ctx × Bool)) (full : Bool) (l : Lookup) (lm level : Nat) (hlv : level ≠ 2)
    (hp : NoSkipFlags l.props) (hlm : lm < 2 ^ 32) (st : Subtable) (hst : st.isInPlace = true) (hshort : AltSetsShort [st]) :
    SubSim recurse full l lm level st := by
  intro c x R h hrnd hin
  have hol := outP_length c.buf h.inv
  obtain ⟨hcur, hx⟩ := inP_head c.buf h.inv x R hin
  have hctx : LigCtx c x R :=
    ⟨h.inv, hin, fun y hy => (h.plain y (by rw [hin]; exact hy)).1, by rw [h.props]; exact hp, h.nosyl, h.level,
      h.noconcat, by have := h.budget; rw [hin] at this; simp at this; omega⟩
  have hall : [st].all Subtable.isSimple = true := by simp [isSimple_of_isInPlace st hst]
  have hmodel := applySubtables_simple recurse full c [st] hall x hrnd hx
  rw [applySubtables_singleton, h.mask] at hmodel
  have hxg : x.gid < 65536 := (h.plain x (by rw [hin]; exact List.mem_cons_self)).2
  have hgs : ((outP c.buf ++ inP c.buf).map projG)[c.buf.outLen]? = some (projG x) := by
    rw [hin, List.getElem?_map, List.getElem?_append_right (by omega), hol]; simp
  have hspec := firstSubtable_simple c.font level l.props lm hlm _ c.buf.outLen (projG x) hgs hxg [st] hall hshort
  rw [firstSubtable_singleton] at hspec
  rw [hspec]
  have hsame : simpleSeqG? lm [st] (projG x) = simpleSeq? lm [st] x := rfl
  rw [hsame]
  cases hss : simpleSeq? lm [st] x with
  | none =>
    rw [hss] at hmodel
    exact hmodel
  | some ss =>
    rw [hss] at hmodel
    obtain ⟨s, rfl⟩ := simpleSeqGM_inplace lm st hst x.gid x.mask ss hss
    simp only [Option.map_some, List.map_cons, List.map_nil, List.length_cons, List.length_nil, Nat.zero_add]
    simp only [] at hmodel
    rw [applySeq_single_eq_ligRule] at hmodel
    have happ := ligRule_apply hg hguard c x R hctx ([], s) (by show 0 + 1 ≤ MAX_CONTEXT_LENGTH; decide) rfl
    obtain ⟨b', hres, hgood⟩ := ligApplied_good l lm level hlv c h x R hin [] s _ happ
    rw [ligResult_nil level _ c.buf.outLen (projG x) s hgs] at hgood
    exact ⟨b', hmodel.trans hres, hgood⟩

/-! ### `apply_string` -/

/-- `apply_string` of any forward lookup whose subtables all simulate the specification -/
theorem applyString_sim (l : Lookup) (hrev : l.reverse = false) (hp : NoSkipFlags l.props)
    (hg : Gen.Buf.ensureGrowOnly = true) (c : Ctx)
    (hsim : ∀ st ∈ l.subtables, SubSim (recurseAt MAX_NESTING_LEVEL) true l c.lookupMask c.buf.level st)
    (fuel : Nat) (hrnd : c.random = false) (hps : c.perSyllable = false) (hlv : c.buf.level ≠ 2)
    (hfl : c.buf.flags &&& Gen.Buf.produceUnsafeToConcat = 0)
    (hsu : c.buf.successful = true) (hlen : c.buf.len ≤ c.buf.info.length) (hout : c.buf.out.length = c.buf.info.length)
    (hbud : c.buf.len ≤ c.buf.maxLen)
    (hplain : ∀ x ∈ c.buf.info.take c.buf.len, Plain x ∧ x.gid < 65536)
    (hfeat : ∀ x ∈ c.buf.info.take c.buf.len, FeatMask x)
    (hmono : NonDecr (c.buf.info.take c.buf.len) ∨ NonIncr (c.buf.info.take c.buf.len)) :
    ∃ c', applyString c l fuel = .ok c' ∧ c'.buf.successful = true ∧ c'.buf.len ≤ c'.buf.info.length ∧
      (c'.buf.info.take c'.buf.len).map projG
        = applyLookupFwd c.font c.buf.level l c.lookupMask fuel ((c.buf.info.take c.buf.len).map projG) 0 := by
  unfold applyString
  by_cases h0 : (c.buf.len == 0 || c.lookupMask == 0) = true
  · simp only [h0, if_true, pure, Except.pure]
    have h0' : c.buf.len = 0 ∨ c.lookupMask = 0 := by simpa using h0
    refine ⟨c, rfl, hsu, hlen, ?_⟩
    rcases h0' with h | h
    · rw [h]; simp [applyLookupFwd_nil]
    · rw [h, applyLookupFwd_mask0]
  · simp only [h0, Bool.false_eq_true, if_false, hrev, Bool.not_false, if_true]
    have hinv0 : Inv ({ c.buf.clearOutput with idx := 0 } : Buf) :=
      ⟨Nat.zero_le _, by simpa [clearOutput] using hlen, by simpa [clearOutput] using hout,
        by simp [clearOutput], by simp [clearOutput], by simp [clearOutput]⟩
    have hin0 : inP ({ c.buf.clearOutput with idx := 0 } : Buf) = c.buf.info.take c.buf.len := by
      simp [inP, clearOutput]
    have hout0 : outP ({ c.buf.clearOutput with idx := 0 } : Buf) = [] := by
      simp [outP, clearOutput]
    have hI0 : LigInv l c.lookupMask { c with lookupProps := l.props, buf := { c.buf.clearOutput with idx := 0 } } := by
      refine ⟨hinv0, by simpa [clearOutput] using hsu, rfl, rfl, hps, by simpa [clearOutput] using hlv,
        by simpa [clearOutput] using hfl, ?_, ?_, ?_, ?_⟩
      · show ({ c.buf.clearOutput with idx := 0 } : Buf).outLen + (inP ({ c.buf.clearOutput with idx := 0 } : Buf)).length
            ≤ ({ c.buf.clearOutput with idx := 0 } : Buf).maxLen
        rw [hin0]; simp [clearOutput]; omega
      · intro y hy
        have hy' : y ∈ inP ({ c.buf.clearOutput with idx := 0 } : Buf) := hy
        rw [hin0] at hy'; exact hplain y hy'
      · intro y hy
        have hy' : y ∈ outP ({ c.buf.clearOutput with idx := 0 } : Buf) ++ inP ({ c.buf.clearOutput with idx := 0 } : Buf) := hy
        rw [hout0, hin0, List.nil_append] at hy'; exact hfeat y hy'
      · show NonDecr (outP ({ c.buf.clearOutput with idx := 0 } : Buf) ++ inP ({ c.buf.clearOutput with idx := 0 } : Buf)) ∨
            NonIncr (outP ({ c.buf.clearOutput with idx := 0 } : Buf) ++ inP ({ c.buf.clearOutput with idx := 0 } : Buf))
        rw [hout0, hin0, List.nil_append]; exact hmono
    obtain ⟨b', hres, hinv', hsu', hml', hbud', hout'⟩ :=
      applyForward_sim l hp hg c.buf.level c.lookupMask hsim fuel _ hI0 hrnd
    have htot : total b' ≤ b'.maxLen := by
      have h2 := inP_length b' hinv'
      have h3 : ({ c.buf.clearOutput with idx := 0 } : Buf).outLen
          + (inP ({ c.buf.clearOutput with idx := 0 } : Buf)).length ≤ c.buf.maxLen := by
        rw [hin0]; simp [clearOutput]; omega
      have h4 : b'.maxLen = c.buf.maxLen := by rw [hml']; rfl
      have h5 : b'.outLen + (inP b').length ≤ ({ c.buf.clearOutput with idx := 0 } : Buf).outLen
          + (inP ({ c.buf.clearOutput with idx := 0 } : Buf)).length := hbud'
      unfold total
      omega
    obtain ⟨b'', hsync, hsu'', _, hle'', htake⟩ := sync_parts b' hinv' hg hsu' htot
    simp only [bind, Except.bind, hres, hsync, pure, Except.pure]
    refine ⟨_, rfl, hsu'', hle'', ?_⟩
    show (b''.info.take b''.len).map projG = _
    rw [htake, hout']
    show applyLookupFwd c.font c.buf.level l c.lookupMask fuel
        ((outP ({ c.buf.clearOutput with idx := 0 } : Buf) ++ inP ({ c.buf.clearOutput with idx := 0 } : Buf)).map projG)
        ({ c.buf.clearOutput with idx := 0 } : Buf).outLen = _
    rw [hout0, hin0, List.nil_append]
    rfl

/-- one-for-one simple subtable, or ligature subtable -/
def Subtable.isInPlaceOrLig (st : Subtable) : Bool := st.isInPlace || st.isLigatureSt

theorem inPlaceOrLig_not_reverse (l : Lookup) (hall : l.subtables.all Subtable.isInPlaceOrLig = true) : l.reverse = false := by
  unfold Lookup.reverse
  cases hs : l.subtables with
  | nil => simp
  | cons st rest =>
    rw [hs] at hall
    simp only [List.all_cons, Bool.and_eq_true] at hall
    have : st.isReverse = false := by
      cases st <;> simp [Subtable.isInPlaceOrLig, Subtable.isInPlace, Subtable.isLigatureSt] at hall <;> rfl
    simp [this]

theorem mixed_subSim (hg : Gen.Buf.ensureGrowOnly = true) (hguard : Gen.Buf.extendStartGuard = 1) (l : Lookup)
    (hall : l.subtables.all Subtable.isInPlaceOrLig = true) (hshort : LigsShort l.subtables)
    (halt : AltSetsShort l.subtables) (hp : NoSkipFlags l.props) (lm level : Nat) (hlv : level ≠ 2) (hlm : lm < 2 ^ 32) :
    ∀ st ∈ l.subtables, SubSim (recurseAt MAX_NESTING_LEVEL) true l lm level st := by
  intro st hst
  have hk := List.all_eq_true.1 hall st hst
  by_cases hin : st.isInPlace = true
  · exact inplace_subSim hg hguard _ _ l lm level hlv hp hlm st hin (by
      intro st' hst' cov alts he set hset
      simp only [List.mem_singleton] at hst'
      subst hst'
      exact halt _ hst cov alts he set hset)
  · have hl : st.isLigatureSt = true := by
      simp only [Subtable.isInPlaceOrLig, Bool.or_eq_true] at hk
      rcases hk with h | h
      · exact absurd h hin
      · exact h
    cases st with
    | ligature cov sets =>
      exact ligature_subSim hg hguard _ _ l lm level hlv hp cov sets (fun ligs hl p hp' => hshort _ hst cov sets rfl ligs hl p hp')
    | _ => simp [Subtable.isLigatureSt] at hl

end RbModel.Gsub
