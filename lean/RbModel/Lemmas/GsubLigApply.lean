/-
  One application of a ligature subtable / of a lookup made of ligature subtables at the current glyph (per-step lemma 2,
  interpreter half): the first ligature of the covered set whose components are the next glyphs wins; with zero extra
  components it is a plain `replace_glyph`; otherwise `ligate_input`.  A ligature that does not match leaves the buffer
  alone (`unsafe_to_concat` is off unless the buffer asks for it: `hfl`).
-/
import RbModel.Lemmas.GsubLigSpec

namespace RbModel.Gsub
open RbModel RbModel.Buf RbModel.Mem RbModel.Spec.Subst

/-- the first ligature of a set whose components are the glyphs at the head of `R` -/
def firstLig (lm : Nat) (R : List Info) (ligs : List (List Nat × Nat)) : Option (List Nat × Nat) :=
  ligs.find? (fun p => ligMatch lm p.1 R)

/-- the ligature a lookup made of ligature subtables applies at current glyph `x` followed by `R` -/
def ligFor? (lm : Nat) : List Subtable → Info → List Info → Option (List Nat × Nat)
  | [], _, _ => none
  | .ligature cov sets :: rest, x, R =>
      match (cov.index (x.gid % 65536)).bind (fun k => (sets[k]?).bind (firstLig lm R)) with
      | some p => some p
      | none => ligFor? lm rest x R
  | _ :: rest, x, R => ligFor? lm rest x R

/-- every ligature of the lookup has fewer than `MAX_CONTEXT_LENGTH` glyphs (the implementation limit of `match_input`) -/
def LigsShort (sts : List Subtable) : Prop :=
  ∀ st ∈ sts, ∀ cov sets, st = .ligature cov sets → ∀ ligs ∈ sets, ∀ p ∈ ligs, p.1.length + 1 ≤ MAX_CONTEXT_LENGTH

/-- `Ligature::apply` for one ligature of the set -/
def ligRule (c : Ctx) (p : List Nat × Nat) : M (Ctx × Bool) := do
  if p.1.isEmpty then
    let c ← ctxReplaceGlyph c p.2
    pure (c, true)
  else
    let r ← matchInput c p.1.length (fun g i => g == p.1.getD i 0) [0, 0, 0, 0]
    if !r.ok then
      let b ← c.buf.unsafeToConcat c.buf.idx (some r.endPos)
      pure ({ c with buf := b }, false)
    else
      let c ← ligateInput c (p.1.length + 1) r.positions r.endPos r.totalComps p.2
      pure (c, true)

theorem applySubtable_ligature_eq (recurse : Ctx → Nat → M (Ctx × Bool)) (full : Bool) (c : Ctx) (cov : Cov)
    (sets : List (List (List Nat × Nat))) (x : Info) (hx : c.buf.info[c.buf.idx]? = some x) :
    applySubtable recurse full c (.ligature cov sets) =
      match (cov.index (x.gid % 65536)).bind (fun k => sets[k]?) with
      | none => .ok (c, false)
      | some ligs => firstRule ligs c ligRule := by
  have hget : Mem.get c.buf.info c.buf.idx = .ok x := by unfold Mem.get; rw [hx]; rfl
  simp only [applySubtable, bind, Except.bind, hget]
  cases hc : cov.index (x.gid % 65536) with
  | none => rfl
  | some k =>
    simp only [Option.bind]
    cases hs : sets[k]? with
    | none => rfl
    | some ligs => rfl

theorem firstRule_find {α} (c : Ctx) (F : Ctx → α → M (Ctx × Bool)) (sel : α → Bool) : ∀ (rules : List α),
    (∀ r ∈ rules, sel r = false → F c r = .ok (c, false)) →
    (∀ r ∈ rules, sel r = true → ∃ c', F c r = .ok (c', true)) →
    firstRule rules c F = match rules.find? sel with | none => .ok (c, false) | some r => F c r := by
  intro rules
  induction rules with
  | nil => intro _ _; rfl
  | cons r rest ih =>
    intro hd ha
    by_cases hs : sel r = true
    · obtain ⟨c', hc'⟩ := ha r (List.mem_cons_self) hs
      simp only [firstRule, List.find?_cons, hs, bind, Except.bind, hc', if_true, pure, Except.pure]
    · have hs' : sel r = false := by simpa using hs
      have := hd r (List.mem_cons_self) hs'
      simp only [firstRule, List.find?_cons, hs', bind, Except.bind, this, Bool.false_eq_true, if_false]
      exact ih (fun r' hr' => hd r' (List.mem_cons_of_mem _ hr')) (fun r' hr' => ha r' (List.mem_cons_of_mem _ hr'))

/-- how the logical sequence `L` relates to `L1` after the cluster merge of `n + 1` glyphs from position `S`:
    nothing to merge for a single glyph, `merge_clusters` otherwise -/
def MergeRel (L L1 : List Info) (S n : Nat) : Prop :=
  (n = 0 ∧ L1 = L) ∨ (1 ≤ n ∧ ∃ m, IsMerge L L1 S (S + (n + 1)) m)

/-- the outcome of applying ligature `comps → lig` at the current glyph -/
def LigApplied (c : Ctx) (comps : List Nat) (lig : Nat) (res : M (Ctx × Bool)) : Prop :=
  ∃ b' O1 x1 T1 y, res = .ok ({ c with buf := b' }, true) ∧ Inv b' ∧
    MergeRel (outP c.buf ++ inP c.buf) (O1 ++ x1 :: T1) c.buf.outLen comps.length ∧
    O1.length = c.buf.outLen ∧ projG y = projG x1 ∧
    outP b' = O1 ++ [{ y with gid := lig }] ∧ inP b' = T1.drop comps.length ∧ SameCfg c.buf b'

/-- the hypotheses under which one ligature application is analysed -/
structure LigCtx (c : Ctx) (x : Info) (R : List Info) : Prop where
  inv : Inv c.buf
  inp : inP c.buf = x :: R
  plain : ∀ y ∈ x :: R, Plain y
  noskip : NoSkipFlags c.lookupProps
  nosyl : c.perSyllable = false
  level : c.buf.level ≠ 2
  noconcat : c.buf.flags &&& Gen.Buf.produceUnsafeToConcat = 0
  budget : c.buf.outLen + 1 ≤ c.buf.maxLen

theorem ligRule_decline (c : Ctx) (x : Info) (R : List Info) (h : LigCtx c x R) (p : List Nat × Nat)
    (hshort : p.1.length + 1 ≤ MAX_CONTEXT_LENGTH) (hm : ligMatch c.lookupMask p.1 R = false) :
    ligRule c p = .ok (c, false) := by
  obtain ⟨comps, lig⟩ := p
  have hne : comps.isEmpty = false := by
    cases comps with
    | nil => simp [ligMatch] at hm
    | cons a t => rfl
  obtain ⟨r, hrun, hok, _⟩ := matchInput_plain c comps x R h.inv.len_le h.inp h.plain h.noskip h.nosyl hshort
  rw [hm] at hok
  have hcc : c.buf.unsafeToConcat c.buf.idx (some r.endPos) = .ok c.buf := by
    unfold unsafeToConcat
    simp only [h.noconcat, beq_self_eq_true, if_true]; rfl
  simp only [ligRule, hne, Bool.false_eq_true, if_false, bind, Except.bind, hrun, hok, Bool.not_false, if_true, hcc,
    pure, Except.pure]

theorem ligRule_apply (hg : Gen.Buf.ensureGrowOnly = true) (hguard : Gen.Buf.extendStartGuard = 1)
    (c : Ctx) (x : Info) (R : List Info) (h : LigCtx c x R) (p : List Nat × Nat)
    (hshort : p.1.length + 1 ≤ MAX_CONTEXT_LENGTH) (hm : ligMatch c.lookupMask p.1 R = true) :
    LigApplied c p.1 p.2 (ligRule c p) := by
  obtain ⟨comps, lig⟩ := p
  obtain ⟨hcur, hx⟩ := inP_head c.buf h.inv x R h.inp
  cases comps with
  | nil =>
    obtain ⟨np, hrun2⟩ := setGlyphClass_put c lig 0 false false x hx
    obtain ⟨hinv2, ho2, hi2, _, _, _, _⟩ := putCur_ctx c.buf h.inv x (setGlyphProps x np) R h.inp rfl
    obtain ⟨b3, hrun3, hinv3, ho3, hi3, hsu3, hml3⟩ :=
      replaceGlyph_parts _ lig hinv2 hg (setGlyphProps x np) R hi2 (by simpa using h.budget)
    have hcfg3 := replaceGlyph_cfg hrun3
    refine ⟨b3, outP c.buf, x, R, setGlyphProps x np, ?_, hinv3, Or.inl ⟨rfl, by rw [h.inp]⟩, outP_length c.buf h.inv, rfl,
      by rw [ho3, ho2], by simpa using hi3, ⟨hsu3, hml3, hcfg3.1, hcfg3.2⟩⟩
    simp only [ligRule, List.isEmpty_nil, if_true, ctxReplaceGlyph, bind, Except.bind, hrun2, hrun3, pure, Except.pure]
  | cons a t =>
    obtain ⟨r, hrun, hok, hrest⟩ := matchInput_plain c (a :: t) x R h.inv.len_le h.inp h.plain h.noskip h.nosyl hshort
    rw [hm] at hok
    obtain ⟨hend, hpos⟩ := hrest hok
    have hlenR := ligMatch_length c.lookupMask (a :: t) R hm
    obtain ⟨b', O1, x1, T1, m, y, hlig, hinv', hism, hO1, hy, ho', hi', hcfg⟩ :=
      ligateInput_parts hg hguard c (a :: t).length (by simp) r.positions r.totalComps lig h.inv
        (by rw [h.inp]; simp only [List.length_cons] at hlenR ⊢; omega) hpos
        (fun z hz => (h.plain z (by rw [← h.inp]; exact hz)).2) h.level h.budget
    refine ⟨b', O1, x1, T1, y, ?_, hinv', Or.inr ⟨by simp, m, hism⟩, hO1, hy, ho', hi', hcfg⟩
    rw [← hend] at hlig
    simp only [ligRule, List.isEmpty_cons, Bool.false_eq_true, if_false, bind, Except.bind, hrun, hok, Bool.not_true,
      hlig, pure, Except.pure]

/-- **one application of a lookup made of ligature subtables at the current glyph** (`SubstLookup::apply`): it declines
    exactly when `ligFor?` finds no ligature, and otherwise applies the ligature `ligFor?` names. -/
theorem applySubtables_ligature (hg : Gen.Buf.ensureGrowOnly = true) (hguard : Gen.Buf.extendStartGuard = 1)
    (recurse : Ctx → Nat → M (Ctx × Bool)) (full : Bool) (c : Ctx) (x : Info) (R : List Info) (h : LigCtx c x R) :
    ∀ sts : List Subtable, sts.all Subtable.isLigatureSt = true → LigsShort sts →
      match ligFor? c.lookupMask sts x R with
      | none => applySubtables recurse full c sts = .ok (c, false)
      | some p => LigApplied c p.1 p.2 (applySubtables recurse full c sts) := by
  obtain ⟨hcur, hx⟩ := inP_head c.buf h.inv x R h.inp
  intro sts
  induction sts with
  | nil => intro _ _; rfl
  | cons st rest ih =>
    intro hall hshort
    simp only [List.all_cons, Bool.and_eq_true] at hall
    have ihr := ih hall.2 (fun st' hm => hshort st' (List.mem_cons_of_mem _ hm))
    cases st with
    | ligature cov sets =>
      have hsh := hshort _ (List.mem_cons_self) cov sets rfl
      -- declining subtable: go on with the rest
      have hskip : applySubtable recurse full c (.ligature cov sets) = .ok (c, false) →
          applySubtables recurse full c (.ligature cov sets :: rest) = applySubtables recurse full c rest := by
        intro he
        simp only [applySubtables, bind, Except.bind, he, Bool.false_eq_true, if_false]
      rw [applySubtable_ligature_eq recurse full c cov sets x hx] at hskip
      simp only [ligFor?]
      cases hc : cov.index (x.gid % 65536) with
      | none =>
        rw [hc] at hskip
        simp only [Option.bind] at hskip ⊢
        rw [hskip trivial]; exact ihr
      | some k =>
        rw [hc] at hskip
        simp only [Option.bind] at hskip ⊢
        cases hs : sets[k]? with
        | none =>
          rw [hs] at hskip
          simp only [] at hskip ⊢
          rw [hskip trivial]; exact ihr
        | some ligs =>
          rw [hs] at hskip
          simp only [] at hskip ⊢
          have hmem : ligs ∈ sets := List.mem_of_getElem? hs
          have hfind := firstRule_find c ligRule (fun p => ligMatch c.lookupMask p.1 R) ligs
            (fun p hp hsel => ligRule_decline c x R h p (hsh ligs hmem p hp) hsel)
            (fun p hp hsel => by
              obtain ⟨b', _, _, _, _, hres, _⟩ := ligRule_apply hg hguard c x R h p (hsh ligs hmem p hp) hsel
              exact ⟨_, hres⟩)
          rw [hfind] at hskip
          unfold firstLig
          cases hf : ligs.find? (fun p => ligMatch c.lookupMask p.1 R) with
          | none =>
            rw [hf] at hskip
            simp only [] at hskip ⊢
            rw [hskip trivial]; exact ihr
          | some p =>
            simp only []
            have hp : p ∈ ligs := List.mem_of_find?_eq_some hf
            have hsel : ligMatch c.lookupMask p.1 R = true := by
              have := List.find?_some hf
              simpa using this
            have happ := ligRule_apply hg hguard c x R h p (hsh ligs hmem p hp) hsel
            obtain ⟨b', O1, x1, T1, y, hres, hrest⟩ := happ
            refine ⟨b', O1, x1, T1, y, ?_, hrest⟩
            have he : applySubtable recurse full c (.ligature cov sets) = .ok ({ c with buf := b' }, true) := by
              rw [applySubtable_ligature_eq recurse full c cov sets x hx, hc]
              simp only [Option.bind, hs]
              rw [hfind, hf]
              exact hres
            simp only [applySubtables, bind, Except.bind, he, if_true, pure, Except.pure]
    | _ => simp [Subtable.isLigatureSt] at hall

end RbModel.Gsub
