/-
  Every GSUB subtable applier starts by looking the current glyph up in the subtable's (first) coverage and
  gives up without touching anything when it is not covered.  This is the fact that makes the digest
  prefilters sound end-to-end (C10) and the starting point of the interpreter proofs (C06).
-/
import RbModel.Gsub

namespace RbModel.Gsub
open RbModel RbModel.Buf

/-- the coverage table `SubstLookup::parse` collects into the lookup digest for this subtable -/
def Subtable.coverage : Subtable → Cov
  | .single1 c _ => c
  | .single2 c _ => c
  | .multiple c _ => c
  | .alternate c _ => c
  | .ligature c _ => c
  | .context1 c _ => c
  | .context2 c _ _ => c
  | .context3 cs _ => cs.headD []
  | .chain1 c _ => c
  | .chain2 c _ _ _ _ => c
  | .chain3 _ i _ _ => i.headD []
  | .reverse c _ _ _ => c

theorem Cov.index_none_of_not_mem (c : Cov) (g : Nat) (h : g ∉ c) : Cov.index c g = none := by
  unfold Cov.index
  have : ¬ c.idxOf g < c.length := by
    intro hlt
    exact h (List.idxOf_lt_length_iff.mp hlt)
  simp [this]

/-- A subtable whose coverage does not contain the current glyph does nothing and reports "not applied". -/
theorem applySubtable_not_covered (recurse : Ctx → Nat → M (Ctx × Bool)) (full : Bool) (c : Ctx) (st : Subtable)
    (cur : Info) (hcur : c.buf.info[c.buf.idx]? = some cur) (hnc : cur.gid % 65536 ∉ st.coverage) :
    applySubtable recurse full c st = .ok (c, false) := by
  have hget : Mem.get c.buf.info c.buf.idx = .ok cur := by unfold Mem.get; rw [hcur]; rfl
  cases st with
  | single1 cov d =>
    simp only [applySubtable, bind, Except.bind, hget, Cov.index_none_of_not_mem cov _ hnc]; rfl
  | single2 cov s =>
    simp only [applySubtable, bind, Except.bind, hget, Cov.index_none_of_not_mem cov _ hnc]; rfl
  | multiple cov s =>
    simp only [applySubtable, bind, Except.bind, hget, Cov.index_none_of_not_mem cov _ hnc]; rfl
  | alternate cov s =>
    simp only [applySubtable, bind, Except.bind, hget, Cov.index_none_of_not_mem cov _ hnc]; rfl
  | ligature cov s =>
    simp only [applySubtable, bind, Except.bind, hget, Cov.index_none_of_not_mem cov _ hnc]; rfl
  | context1 cov s =>
    simp only [applySubtable, bind, Except.bind, hget, Cov.index_none_of_not_mem cov _ hnc]; rfl
  | context2 cov cd s =>
    simp only [applySubtable, bind, Except.bind, hget, Cov.index_none_of_not_mem cov _ hnc]; rfl
  | context3 covs lk =>
    cases covs with
    | nil => simp only [applySubtable, bind, Except.bind, hget]; rfl
    | cons c0 rest =>
      have : cur.gid % 65536 ∉ c0 := by simpa [Subtable.coverage] using hnc
      simp only [applySubtable, bind, Except.bind, hget, Cov.index_none_of_not_mem c0 _ this]; rfl
  | chain1 cov s =>
    simp only [applySubtable, bind, Except.bind, hget, Cov.index_none_of_not_mem cov _ hnc]; rfl
  | chain2 cov b i a s =>
    simp only [applySubtable, bind, Except.bind, hget, Cov.index_none_of_not_mem cov _ hnc]; rfl
  | chain3 b inp a lk =>
    cases inp with
    | nil => simp only [applySubtable, bind, Except.bind, hget]; rfl
    | cons c0 rest =>
      have : cur.gid % 65536 ∉ c0 := by simpa [Subtable.coverage] using hnc
      simp only [applySubtable, bind, Except.bind, hget, Cov.index_none_of_not_mem c0 _ this]; rfl
  | reverse cov b a s =>
    simp only [applySubtable, bind, Except.bind, hget, Cov.index_none_of_not_mem cov _ hnc]; rfl

/-- If no subtable of a lookup covers the current glyph, `SubstLookup::apply` does nothing. -/
theorem applySubtables_not_covered (recurse : Ctx → Nat → M (Ctx × Bool)) (full : Bool) (c : Ctx)
    (sts : List Subtable) (cur : Info) (hcur : c.buf.info[c.buf.idx]? = some cur)
    (hnc : ∀ st ∈ sts, cur.gid % 65536 ∉ st.coverage) :
    applySubtables recurse full c sts = .ok (c, false) := by
  induction sts with
  | nil => rfl
  | cons st rest ih =>
    have h1 := applySubtable_not_covered recurse full c st cur hcur (hnc st (List.mem_cons_self ..))
    simp only [applySubtables, bind, Except.bind, h1]
    exact ih (fun s hs => hnc s (List.mem_cons_of_mem _ hs))

end RbModel.Gsub
