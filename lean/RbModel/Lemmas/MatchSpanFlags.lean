/-
  "The flagged span covers what was inspected" — part 3: reading the flag calls glyph by glyph.
  Helper lemmas for the `C03_*_flags_inspected` / `C04_*_flags_inspected` theorems of Props/C03.lean and Props/C04.lean.
-/
import RbModel.Lemmas.Flags
import RbModel.Lemmas.Cluster
import RbModel.Lemmas.MatchSpanRule
import RbModel.Lemmas.MatchSpanLocal

namespace RbModel.Flags
open RbModel RbModel.Gsub

theorem MonoRange.shrink {l : List Info} {s e e' : Nat} (h : MonoRange l s e) (he : e' ≤ e) : MonoRange l s e' := by
  rcases h with h | h
  · exact Or.inl fun i j x y a b c d f => h i j x y a b (by omega) d f
  · exact Or.inr fun i j x y a b c d f => h i j x y a b (by omega) d f

theorem MonoRange.shrinkL {l : List Info} {s s' e : Nat} (h : MonoRange l s e) (hs : s ≤ s') : MonoRange l s' e := by
  rcases h with h | h
  · exact Or.inl fun i j x y a b c d f => h i j x y (by omega) b c d f
  · exact Or.inr fun i j x y a b c d f => h i j x y (by omega) b c d f

theorem Upd.at {l l' : List Info} {p q : Nat} {test : Info → Bool} {upd : Info → Info} (h : Upd l l' p q test upd)
    {i : Nat} {x : Info} (hx : l[i]? = some x) :
    l'[i]? = some (if p ≤ i ∧ i < q ∧ test x = true then upd x else x) := by
  rw [h.2 i, hx]; rfl

theorem orMask3_break (x : Info) : (orMask (Flag.UNSAFE_TO_BREAK ||| Flag.UNSAFE_TO_CONCAT) x).mask &&& Flag.UNSAFE_TO_BREAK ≠ 0 := by
  simp only [orMask]
  exact (or_and_ne_zero _ _ _).mpr (Or.inr (by decide))

theorem orMask2_concat (x : Info) : (orMask Flag.UNSAFE_TO_CONCAT x).mask &&& Flag.UNSAFE_TO_CONCAT ≠ 0 := by
  simp only [orMask]
  exact (or_and_ne_zero _ _ _).mpr (Or.inr (by decide))

/-- "glyph `i` of `l'` is glyph `x` of the range, flagged unless it lies in the minimum cluster `m`" -/
def BreakFlagged (l' : List Info) (i : Nat) (x : Info) (m : Nat) : Prop :=
  ∃ y, l'[i]? = some y ∧ y = (if x.cluster ≠ m then orMask (Flag.UNSAFE_TO_BREAK ||| Flag.UNSAFE_TO_CONCAT) x else x) ∧
    (x.cluster = m ∨ y.mask &&& Flag.UNSAFE_TO_BREAK ≠ 0)

theorem BreakFlagged.of_upd {l l' : List Info} {p q m i : Nat} {x : Info}
    (h : Upd l l' p q (neCl m) (orMask (Flag.UNSAFE_TO_BREAK ||| Flag.UNSAFE_TO_CONCAT))) (hx : l[i]? = some x)
    (hp : p ≤ i) (hq : i < q) : BreakFlagged l' i x m := by
  refine ⟨_, Upd.at h hx, ?_, ?_⟩
  · by_cases hc : x.cluster = m
    · simp [hc, neCl]
    · simp [hc, neCl, hp, hq]
  · by_cases hc : x.cluster = m
    · exact Or.inl hc
    · right
      have : (p ≤ i ∧ i < q ∧ neCl m x = true) := ⟨hp, hq, by simp [neCl, hc]⟩
      rw [if_pos this]
      exact orMask3_break x

/-- `unsafe_to_concat(s, Some(0))` (what the callers pass when match_input left `end_position` unwritten): no glyph is flagged -/
theorem unsafeToConcat_zero (b : Buf) (s : Nat) :
    ∃ b', b.unsafeToConcat s (some 0) = .ok b' ∧ b'.info = b.info ∧ b'.out = b.out := by
  unfold Buf.unsafeToConcat
  split
  · exact ⟨b, rfl, rfl, rfl⟩
  · refine ⟨{ b with scratch := b.scratch ||| SCRATCH_HAS_GLYPH_FLAGS }, ?_, rfl, rfl⟩
    simp [Buf.setGlyphFlags, Buf.orMaskRange, bind, Except.bind, pure, Except.pure]

/-- `unsafe_to_concat(s, Some(e))` when the flag is requested: every glyph of `[s, e)` gets UNSAFE_TO_CONCAT -/
theorem unsafeToConcat_span (b : Buf) (s e : Nat) (hreq : b.flags &&& Gen.Buf.produceUnsafeToConcat ≠ 0)
    (hse : s ≤ e) (he : e ≤ b.len) (hlen : b.len ≤ b.info.length) :
    ∃ b', b.unsafeToConcat s (some e) = .ok b' ∧
      Upd b.info b'.info s e (fun _ => true) (orMask Flag.UNSAFE_TO_CONCAT) ∧
      b' = { b with info := b'.info, scratch := b'.scratch } := by
  obtain ⟨info, hr, hu⟩ := setGlyphFlags_plain_in b Flag.UNSAFE_TO_CONCAT s e hse he hlen
  refine ⟨{ b with info := info, scratch := b.scratch ||| SCRATCH_HAS_GLYPH_FLAGS }, ?_, hu, rfl⟩
  unfold Buf.unsafeToConcat
  have : ¬ (b.flags &&& Gen.Buf.produceUnsafeToConcat == 0) = true := by simpa using hreq
  rw [if_neg this, hr]

/-- "glyph `i` of `l'` is glyph `x` with UNSAFE_TO_CONCAT added" -/
def ConcatFlagged (l' : List Info) (i : Nat) (x : Info) : Prop :=
  ∃ y, l'[i]? = some y ∧ y = orMask Flag.UNSAFE_TO_CONCAT x ∧ y.mask &&& Flag.UNSAFE_TO_CONCAT ≠ 0

theorem ConcatFlagged.of_upd {l l' : List Info} {p q i : Nat} {x : Info}
    (h : Upd l l' p q (fun _ => true) (orMask Flag.UNSAFE_TO_CONCAT)) (hx : l[i]? = some x)
    (hp : p ≤ i) (hq : i < q) : ConcatFlagged l' i x := by
  refine ⟨_, Upd.at h hx, ?_, ?_⟩
  · simp [hp, hq]
  · have : (p ≤ i ∧ i < q ∧ (fun _ : Info => true) x = true) := ⟨hp, hq, rfl⟩
    rw [if_pos this]
    exact orMask2_concat x

/-- unless match_input returned at the length test, the current glyph is among its reads -/
theorem matchInputI_reads_cur (c : Ctx) (n : Nat) (fn : Nat → Nat → Bool) (p : List Nat) (R : MatchInI)
    (hR : matchInputI c n fn p = .ok R) (hw : R.why ≠ .tooLong) : Rd.inp c.buf.idx ∈ R.reads := by
  unfold matchInputI at hR
  by_cases hc : n + 1 > MAX_CONTEXT_LENGTH
  · simp only [hc, if_true, pure, Except.pure, Except.ok.injEq] at hR
    subst hR; exact absurd rfl hw
  · simp only [hc, if_false, bind, Except.bind] at hR
    split at hR
    · cases hR
    · split at hR
      · cases hR
      · split at hR
        · cases hR
        · split at hR <;>
            (simp only [pure, Except.pure, Except.ok.injEq] at hR; subst hR; exact List.mem_cons_self ..)

/-- the failure half shared by every caller of match_input (Context formats 1-3, Ligature): after
    `unsafe_to_concat(idx, end_position)` -/
theorem matchFail_flags (c : Ctx) (n : Nat) (fn : Nat → Nat → Bool) (p : List Nat) (R : MatchInI) (b : Buf)
    (hR : matchInputI c n fn p = .ok R) (hok : R.r.ok = false)
    (hb : c.buf.unsafeToConcat c.buf.idx (some R.r.endPos) = .ok b)
    (hidx : c.buf.idx < c.buf.len) (hlen : c.buf.len ≤ c.buf.info.length)
    (hreq : c.buf.flags &&& Gen.Buf.produceUnsafeToConcat ≠ 0) :
    (R.why ≠ .tooLong → c.buf.idx < R.r.endPos ∧ R.r.endPos ≤ c.buf.len ∧ Rd.inp c.buf.idx ∈ R.reads ∧
        ∀ i, Rd.inp i ∈ R.reads → c.buf.idx ≤ i ∧ i < R.r.endPos ∧
          ∃ x, c.buf.info[i]? = some x ∧ ConcatFlagged b.info i x) ∧
    (R.why = .tooLong → R.reads = []) ∧
    R.why ≠ .matched ∧ (∀ j, Rd.out j ∉ R.reads) ∧ (∀ j, Rd.lig j ∈ R.reads → j < c.buf.outLen) := by
  obtain ⟨r1, r2, r4, r5⟩ := matchInputI_span c _ _ _ R hR hidx
  have hnm : R.why ≠ .matched := fun hw => by rw [r1.mpr hw] at hok; cases hok
  refine ⟨?_, fun hw => (r2 hw).1, hnm, ?_, ?_⟩
  · intro hw
    obtain ⟨q1, q2⟩ := r4 hw
    obtain ⟨b', hb', hu, _⟩ := unsafeToConcat_span c.buf c.buf.idx R.r.endPos hreq (by omega) q2 hlen
    rw [hb] at hb'; cases hb'
    refine ⟨q1, q2, matchInputI_reads_cur c _ _ _ R hR hw, ?_⟩
    intro i hi
    rcases r5 _ hi with ⟨i', a1, a2, a3, a4⟩ | ⟨j, a1, _⟩
    · cases a1
      have hil : i < c.buf.info.length := by omega
      exact ⟨a2, a4, _, List.getElem?_eq_getElem hil, ConcatFlagged.of_upd hu (List.getElem?_eq_getElem hil) a2 a4⟩
    · cases a1
  · intro j hj
    rcases r5 _ hj with ⟨i', a1, _⟩ | ⟨j', a1, _⟩ <;> cases a1
  · intro j hj
    rcases r5 _ hj with ⟨i', a1, _⟩ | ⟨j', a1, a2⟩
    · cases a1
    · cases a1; exact a2

theorem Upd.eq_of_empty {l l' : List Info} {p : Nat} {test : Info → Bool} {upd : Info → Info}
    (h : Upd l l' p p test upd) : l' = l := by
  apply List.ext_getElem?
  intro j
  rw [h.2 j]
  cases l[j]? with
  | none => rfl
  | some x =>
    have : ¬ (p ≤ j ∧ j < p ∧ test x = true) := by omega
    simp [this]

/-- reading a two-sided update (out-buffer part, then in-buffer part; in shared-output mode the out-buffer is the front of
    `info`) glyph by glyph -/
theorem twoSided_at {b b' : Buf} {o1 : List Info} {st e : Nat} {test : Info → Bool} {upd : Info → Info}
    (U1 : Upd b.outArr o1 st b.outLen test upd)
    (U2 : Upd (if b.sepOut then b.info else o1) b'.info b.idx e test upd)
    (hout : b'.out = (if b.sepOut then o1 else b.out)) (hsep : b'.sepOut = b.sepOut)
    (hns : b.sepOut = false → b.outLen ≤ b.idx) :
    (∀ i x, b.idx ≤ i → i < e → b.info[i]? = some x → b'.info[i]? = some (if test x = true then upd x else x)) ∧
    (∀ j x, st ≤ j → j < b.outLen → b.outArr[j]? = some x → b'.outArr[j]? = some (if test x = true then upd x else x)) := by
  cases hso : b.sepOut with
  | true =>
    simp only [hso, if_true] at U2 hout
    have ho' : b'.outArr = o1 := by simp [Buf.outArr, hsep, hso, hout]
    constructor
    · intro i x h1 h2 hx
      rw [Upd.at U2 hx]; simp [h1, h2]
    · intro j x h1 h2 hx
      rw [ho', Upd.at U1 hx]; simp [h1, h2]
  | false =>
    simp only [hso, Bool.false_eq_true, if_false] at U2 hout
    have hle := hns hso
    have ho : b.outArr = b.info := by simp [Buf.outArr, hso]
    have ho' : b'.outArr = b'.info := by simp [Buf.outArr, hsep, hso]
    rw [ho] at U1
    constructor
    · intro i x h1 h2 hx
      have h3 : o1[i]? = some x := by
        rw [Upd.at U1 hx]
        have : ¬ (st ≤ i ∧ i < b.outLen ∧ test x = true) := by omega
        rw [if_neg this]
      rw [Upd.at U2 h3]; simp [h1, h2]
    · intro j x h1 h2 hx
      rw [ho] at hx
      have h3 := Upd.at U1 hx
      rw [ho', Upd.at U2 h3]
      have : ∀ y : Info, ¬ (b.idx ≤ j ∧ j < e ∧ test y = true) := by intro y; omega
      rw [if_neg (this _)]
      simp [h1, h2]

theorem BreakFlagged.of_eq {l' : List Info} {m i : Nat} {x : Info}
    (h : l'[i]? = some (if neCl m x = true then orMask (Flag.UNSAFE_TO_BREAK ||| Flag.UNSAFE_TO_CONCAT) x else x)) :
    BreakFlagged l' i x m := by
  refine ⟨_, h, ?_, ?_⟩
  · by_cases hc : x.cluster = m <;> simp [hc, neCl]
  · by_cases hc : x.cluster = m
    · exact Or.inl hc
    · right
      have : neCl m x = true := by simp [neCl, hc]
      rw [if_pos this]
      exact orMask3_break x

theorem ConcatFlagged.of_eq {l' : List Info} {i : Nat} {x : Info}
    (h : l'[i]? = some (if (fun _ : Info => true) x = true then orMask Flag.UNSAFE_TO_CONCAT x else x)) :
    ConcatFlagged l' i x := by
  refine ⟨_, h, by simp, ?_⟩
  rw [if_pos rfl]
  exact orMask2_concat x

/-- `_set_glyph_flags(.., interior, from_out_buffer = true)` on a buffer WITHOUT output (in-place lookups: reverse chaining,
    GPOS) is the one-sided call on `info[s, e)`; unlike `unsafe_to_break` it has no early return for short ranges. -/
theorem setGlyphFlags_interior_noOutput (b : Buf) (mask s e : Nat) (hho : b.haveOutput = false) (hse : s < e) (he : e ≤ b.len)
    (hlen : b.len ≤ b.info.length)
    (hu32 : ∀ j x, s ≤ j → j < e → b.info[j]? = some x → x.cluster ≤ U32MAX) (hmono : MonoRange b.info s e) :
    ∃ info r, b.setGlyphFlags mask s (some e) true true =
        .ok { b with info := info, scratch := b.scratch ||| SCRATCH_HAS_GLYPH_FLAGS } ∧
      IsRangeMin b.info s e r ∧ Upd b.info info s e (neCl r) (orMask mask) := by
  have hel : e ≤ b.info.length := by omega
  obtain ⟨r, hr, hr1, hr2, hr3, hr4⟩ := findMinCluster_spec b.level b.info s e U32MAX (by omega) hel
  obtain ⟨l', ch, p, q, hi, hp1, hp2, hp3, hu, hw⟩ := infosSetGlyphFlags_spec b.level b.info s e r mask (by omega) hel
  have hatt : ∃ j x, s ≤ j ∧ j < e ∧ b.info[j]? = some x ∧ x.cluster = r := by
    rcases hr2 with h | h
    · have hs : s < b.info.length := by omega
      have hx : b.info[s]? = some b.info[s] := List.getElem?_eq_getElem hs
      have hle := hu32 s b.info[s] (Nat.le_refl _) (by omega) hx
      have hge := hr4 b.info[s] hx
      exact ⟨s, b.info[s], Nat.le_refl _, by omega, hx, by omega⟩
    · exact h
  refine ⟨l', r, ?_, ⟨hr3 (Or.inr hmono), hatt⟩,
    Upd.widen hu hp1 hp3 (window_exact hmono (hr3 (Or.inr hmono)) hp1 hp2 hp3 hel hw)⟩
  have hmin : min e b.len = e := by omega
  simp only [Buf.setGlyphFlags, Option.getD_some, hmin, hho, Bool.not_true, Bool.and_false, Bool.false_and,
    Bool.false_eq_true, if_false, Bool.not_false, Bool.or_true, if_true, hr, hi, bind, Except.bind, pure, Except.pure]
  cases ch with
  | true => simp [Buf.addScratch, or_scratch]
  | false => simp [Buf.addScratch]

theorem setGlyphFlags_plain_noOutput (b : Buf) (mask s e : Nat) (hho : b.haveOutput = false) :
    b.setGlyphFlags mask s (some e) false true = b.setGlyphFlags mask s (some e) false false := by
  simp [Buf.setGlyphFlags, hho]

/-- what a read of the reverse-chaining subtable is, after the flag call left the glyph array `l'`: an in-buffer glyph of
    `[idx, e)` or — in-place lookups have no out-buffer, the backtrack runs over `info[.., idx)` — a glyph of `[st, idx)`,
    in both cases satisfying `P` (flagged) -/
def RevRead (c : Ctx) (st e : Nat) (P : Nat → Info → Prop) (x : Rd) : Prop :=
  (∃ i y, x = .inp i ∧ c.buf.idx ≤ i ∧ i < e ∧ c.buf.info[i]? = some y ∧ P i y) ∨
  (∃ j y, x = .out j ∧ st ≤ j ∧ j < c.buf.idx ∧ c.buf.info[j]? = some y ∧ P j y)

/-- a list sorted by cluster is monotone on every range -/
theorem MonoRange.of_pairwise {l : List Info} (h : l.Pairwise (fun a b => a.cluster ≤ b.cluster)) (s e : Nat) :
    MonoRange l s e := by
  refine Or.inl ?_
  intro i j x y _ hij _ hx hy
  rcases Nat.lt_or_eq_of_le hij with hlt | heq
  · obtain ⟨hi, rfl⟩ := List.getElem?_eq_some_iff.mp hx
    obtain ⟨hj, rfl⟩ := List.getElem?_eq_some_iff.mp hy
    exact (List.pairwise_iff_getElem.mp h) i j hi hj hlt
  · subst heq; rw [hx] at hy; cases hy; exact Nat.le_refl _

theorem u32_of_all {l : List Info} (h : l.all (fun x => decide (x.cluster ≤ U32MAX)) = true) (j : Nat) (x : Info)
    (hx : l[j]? = some x) : x.cluster ≤ U32MAX := by
  have := List.all_eq_true.mp h x (List.mem_of_getElem? hx)
  simpa using this

end RbModel.Flags

/-! ### closed instances used by the non-vacuity examples of Props/C03.lean and Props/C04.lean -/
namespace RbModel.Gsub
open RbModel RbModel.Buf

/-- a nested-lookup function that never applies (the examples have no lookup records) -/
def spanNoRecurse : Ctx → Nat → M (Ctx × Bool) := fun c _ => pure (c, false)

/-- the observable part of an instrumented match_input result -/
def MatchInI.view (R : MatchInI) : Bool × Nat × List Rd × Why := (R.r.ok, R.r.endPos, R.reads, R.why)

def ChainM.view (m : ChainM) : Verdict × Nat × Nat × List Rd := (m.verdict, m.startIndex, m.endIndex, m.reads)

/-- glyphs 5 | 1, mark 10 (GDEF mark; the lookup flag IgnoreMarks skips it), 2, 3; the first glyph is already in the
    out-buffer (shared mode), the cursor is on glyph 1; PRODUCE_UNSAFE_TO_CONCAT requested -/
def spanCtx : Ctx :=
  { buf := { info := [{ gid := 5, mask := 1, cluster := 0, var1 := 2 }, { gid := 1, mask := 1, cluster := 1, var1 := 2 },
                      { gid := 10, mask := 1, cluster := 2, var1 := 8 }, { gid := 2, mask := 1, cluster := 3, var1 := 2 },
                      { gid := 3, mask := 1, cluster := 4, var1 := 2 }],
             len := 5, idx := 1, outLen := 1, haveOutput := true, flags := 64 },
    font := { hasGdef := true, hasGlyphClasses := true, glyphProps := [(1, 2), (2, 2), (3, 2), (5, 2), (10, 8)] },
    lookupProps := 8 }

/-- x(1), ligature 20 (GDEF ligature, lig_id 1, IS_LIG_BASE, 2 components), mark 10 with `var1 = markVar1`
    (`8 + 33 * 65536`: attached to component 1 of that ligature — lig_id 1, lig_comp 1; `8`: unattached), mark 10;
    lookup flag IgnoreLigatures; PRODUCE_UNSAFE_TO_CONCAT requested -/
def spanLigCtx (markVar1 : Nat) : Ctx :=
  { buf := { info := [{ gid := 1, mask := 1, cluster := 0, var1 := 2 },
                      { gid := 20, mask := 1, cluster := 1, var1 := 4 + 50 * 65536 },
                      { gid := 10, mask := 1, cluster := 1, var1 := markVar1 },
                      { gid := 10, mask := 1, cluster := 4, var1 := 8 }],
             len := 4, haveOutput := true, flags := 64 },
    font := { hasGdef := true, hasGlyphClasses := true, glyphProps := [(1, 2), (20, 4), (10, 8), (99, 4)] },
    lookupProps := 4 }

/-- an in-place buffer (no out-buffer: what a reverse-chaining lookup runs on): 5, mark, 1, mark, 3 with the cursor on
    glyph 1 (index 2); IgnoreMarks; PRODUCE_UNSAFE_TO_CONCAT requested -/
def spanRevCtx : Ctx :=
  { buf := { info := [{ gid := 5, mask := 1, cluster := 0, var1 := 2 }, { gid := 10, mask := 1, cluster := 1, var1 := 8 },
                      { gid := 1, mask := 1, cluster := 2, var1 := 2 }, { gid := 10, mask := 1, cluster := 3, var1 := 8 },
                      { gid := 3, mask := 1, cluster := 4, var1 := 2 }],
             len := 5, idx := 2, flags := 64 },
    font := { hasGdef := true, hasGlyphClasses := true, glyphProps := [(1, 2), (3, 2), (5, 2), (7, 2), (10, 8)] },
    lookupProps := 8 }

end RbModel.Gsub
