/-
  Contextual GSUB lookups, step 4: the forward scan (`apply_forward`) and `apply_string` of a lookup all of whose subtables
  simulate the specification (`SubSimC`), against `Spec.Subst.applyLookupFwd`, through (glyph id, cluster, feature bits).
-/
import RbModel.Lemmas.GsubCtxSub

namespace RbModel.Gsub
open RbModel RbModel.Buf RbModel.Mem RbModel.Spec.Subst

/-- the first applicable subtable decides, on both sides -/
theorem listSimC (recurse : Ctx → Nat → M (Ctx × Bool)) (full : Bool) (f : Font) (l : Lookup) (lm level K Rn : Nat) :
    ∀ sts : List Subtable, (∀ st ∈ sts, SubSimC recurse full f l lm level K Rn st) →
    ∀ (c : Ctx) (x : Info) (R : List Info) (gs : List G), c.font = f → CtxInv l lm K Rn c → inP c.buf = x :: R →
      RelF (outP c.buf ++ inP c.buf) gs →
      match firstSubtable f level l.props lm gs c.buf.outLen sts with
      | none => applySubtables recurse full c sts = .ok (c, false)
      | some (gs', nxt) => ∃ b', applySubtables recurse full c sts = .ok ({ c with buf := b' }, true) ∧
          StepGoodC l lm K Rn c b' gs' nxt := by
  intro sts
  induction sts with
  | nil => intro _ c x R gs _ _ _ _; rfl
  | cons st rest ih =>
    intro hsts c x R gs hf h hin hrel
    have hst := hsts st List.mem_cons_self c x R gs hf h hin hrel
    have ihr := ih (fun st' hm => hsts st' (List.mem_cons_of_mem _ hm)) c x R gs hf h hin hrel
    simp only [firstSubtable]
    cases hs : applySubtableAt f level l.props lm st gs c.buf.outLen with
    | none =>
      rw [hs] at hst
      simp only [] at hst ⊢
      have : applySubtables recurse full c (st :: rest) = applySubtables recurse full c rest := by
        simp only [applySubtables, bind, Except.bind, hst, Bool.false_eq_true, if_false]
      rw [this]; exact ihr
    | some r =>
      obtain ⟨gs', nxt⟩ := r
      rw [hs] at hst
      simp only [] at hst ⊢
      obtain ⟨b', hres, hgood⟩ := hst
      refine ⟨b', ?_, hgood⟩
      simp only [applySubtables, bind, Except.bind, hres, if_true, pure, Except.pure]

/-- skipping the current glyph keeps the invariant (both potentials fall) and the logical sequence -/
theorem ctxInv_next (hg : Gen.Buf.ensureGrowOnly = true) (l : Lookup) (lm K Rn : Nat) (c : Ctx) (h : CtxInv l lm K Rn c)
    (x : Info) (R : List Info) (hin : inP c.buf = x :: R) :
    ∃ b1, c.buf.nextGlyph = .ok b1 ∧ CtxInv l lm K Rn { c with buf := b1 } ∧
      outP b1 ++ inP b1 = outP c.buf ++ inP c.buf ∧ b1.outLen = c.buf.outLen + 1 ∧ b1.maxLen = c.buf.maxLen := by
  have hbud := h.budget
  rw [hin] at hbud
  simp only [List.length_cons] at hbud
  have hops := h.ops
  rw [hin] at hops
  simp only [List.length_cons] at hops
  have hb1 := budget_first c.buf.outLen R.length K 0 c.buf.maxLen (Nat.zero_le _) hbud
  obtain ⟨b1, hrun, hinv1, ho1, hi1, hsu1, hml1⟩ := nextGlyph_parts c.buf h.inv hg x R hin (by omega)
  have hfr := nextGlyph_fr hrun
  have hseq : outP b1 ++ inP b1 = outP c.buf ++ inP c.buf := by rw [ho1, hi1, hin]; simp
  have hol : b1.outLen = c.buf.outLen + 1 := by
    have := outP_length b1 hinv1
    rw [ho1] at this
    simp [outP_length c.buf h.inv] at this
    omega
  refine ⟨b1, hrun, ⟨hinv1, by show b1.successful = true; rw [hsu1]; exact h.succ, h.props, h.mask, h.nosyl,
    by show b1.flags &&& _ = 0; rw [hfr.flags]; exact h.noconcat, h.rnd, ?_, ?_, ?_, by show ∀ y ∈ outP b1 ++ inP b1, CtxG y; rw [hseq]; exact h.glyph⟩,
    hseq, hol, hml1⟩
  · show b1.outLen + (inP b1).length * (1 + K) ≤ b1.maxLen
    rw [hol, hi1, hml1]
    have e1 : (R.length + 1) * (1 + K) = R.length * (1 + K) + (1 + K) := by rw [Nat.add_mul, Nat.one_mul]
    generalize R.length * (1 + K) = A at *
    generalize (R.length + 1) * (1 + K) = B at *
    omega
  · show ((((inP b1).length * Rn : Nat)) : Int) ≤ b1.maxOps
    rw [hi1, hfr.maxOps]
    have e1 : (R.length + 1) * Rn = R.length * Rn + Rn := by rw [Nat.add_mul, Nat.one_mul]
    generalize R.length * Rn = A at *
    generalize (R.length + 1) * Rn = B at *
    omega
  · intro y hy
    have hy' : y ∈ inP b1 := hy
    rw [hi1] at hy'
    exact h.plain y (by rw [hin]; exact List.mem_cons_of_mem _ hy')

/-- **the forward scan of a contextual lookup** -/
theorem applyForward_simC (f : Font) (l : Lookup) (hp : NoSkipFlags l.props) (hg : Gen.Buf.ensureGrowOnly = true)
    (level lm K Rn : Nat) (hlmf : lm &&& (U32MAX - Flag.DEFINED) = lm)
    (hsim : ∀ st ∈ l.subtables, SubSimC (recurseAt MAX_NESTING_LEVEL) true f l lm level K Rn st) :
    ∀ (fuel : Nat) (c : Ctx) (gs : List G), c.font = f → CtxInv l lm K Rn c → RelF (outP c.buf ++ inP c.buf) gs →
      ∃ b', applyForward l fuel c = .ok { c with buf := b' } ∧ CtxInv l lm K Rn { c with buf := b' } ∧
        b'.maxLen = c.buf.maxLen ∧
        RelF (outP b' ++ inP b') (applyLookupFwd f level l lm fuel gs c.buf.outLen) := by
  intro fuel
  induction fuel with
  | zero =>
    intro c gs _ h hrel
    exact ⟨c.buf, rfl, h, rfl, hrel⟩
  | succ fuel ih =>
    intro c gs hf h hrel
    have hol := outP_length c.buf h.inv
    have hcases : inP c.buf = [] ∨ ∃ x R, inP c.buf = x :: R := by
      cases inP c.buf with
      | nil => exact Or.inl rfl
      | cons x R => exact Or.inr ⟨x, R, rfl⟩
    rcases hcases with hin | ⟨x, R, hin⟩
    · have hl := inP_length c.buf h.inv
      rw [hin] at hl
      simp at hl
      have hc : ¬ (c.buf.idx < c.buf.len) := by omega
      refine ⟨c.buf, ?_, h, rfl, ?_⟩
      · simp [applyForward, hc]; rfl
      · have hnone : gs[c.buf.outLen]? = none := by
          apply List.getElem?_eq_none
          rw [← hrel.length, hin]; simp [hol]
        simp only [applyLookupFwd, hnone]
        exact hrel
    · obtain ⟨hcur, hx⟩ := inP_head c.buf h.inv x R hin
      have hget : Mem.get c.buf.info c.buf.idx = .ok x := by unfold Mem.get; rw [hx]; rfl
      have hc2 : (decide (c.buf.idx < c.buf.len) && c.buf.successful) = true := by simp [hcur, h.succ]
      obtain ⟨g, hgs, hgx⟩ := hrel.get c.buf.outLen x (by
        rw [hin, List.getElem?_append_right (by omega), hol]; simp)
      have hchk : checkGlyphProperty c.font x c.lookupProps = true := by
        rw [h.props]; exact checkGlyphProperty_noSkip c.font x l.props hp
      have hign : ignored f l.props g = false := ignored_noSkip f l.props _ hp
      have hgm : g.mask &&& lm = x.mask &&& lm :=
        mask_and_of_featBits g.mask x.mask lm hlmf (congrArg (fun p : Nat × Nat × Nat => p.2.2) hgx)
      have hskip : (∀ b1, c.buf.nextGlyph = .ok b1 → applyForward l (fuel + 1) c = applyForward l fuel { c with buf := b1 }) →
          applyLookupFwd f level l lm (fuel + 1) gs c.buf.outLen
            = applyLookupFwd f level l lm fuel gs (c.buf.outLen + 1) →
          ∃ b', applyForward l (fuel + 1) c = .ok { c with buf := b' } ∧ CtxInv l lm K Rn { c with buf := b' } ∧
            b'.maxLen = c.buf.maxLen ∧
            RelF (outP b' ++ inP b') (applyLookupFwd f level l lm (fuel + 1) gs c.buf.outLen) := by
        intro hm hs
        obtain ⟨b1, hrun, hI1, hseq, hol1, hml1⟩ := ctxInv_next hg l lm K Rn c h x R hin
        obtain ⟨b', hres, hI', hml', hout'⟩ := ih { c with buf := b1 } gs hf hI1 (by
          show RelF (outP b1 ++ inP b1) gs
          rw [hseq]; exact hrel)
        refine ⟨b', by rw [hm b1 hrun]; exact hres, hI', by rw [hml']; exact hml1, ?_⟩
        rw [hs]
        have : ({ c with buf := b1 } : Ctx).buf.outLen = c.buf.outLen + 1 := hol1
        rw [← this]
        exact hout'
      by_cases hen : (x.mask &&& lm != 0) = true
      · have henc : (x.mask &&& c.lookupMask != 0) = true := by rw [h.mask]; exact hen
        have hstep := listSimC (recurseAt MAX_NESTING_LEVEL) true f l lm level K Rn l.subtables hsim c x R gs hf h hin hrel
        cases hfs : firstSubtable f level l.props lm gs c.buf.outLen l.subtables with
        | none =>
          rw [hfs] at hstep
          simp only [] at hstep
          apply hskip
          · intro b1 hb1
            simp only [applyForward, hc2, if_true, bind, Except.bind, hget, henc, hchk, Bool.and_self, applyTop,
              hstep, Bool.false_eq_true, if_false, hb1]
          · simp only [applyLookupFwd, hgs, hgm, hen, hign, Bool.not_false, Bool.and_self, if_true, hfs]
        | some r =>
          obtain ⟨gs', nxt⟩ := r
          rw [hfs] at hstep
          simp only [] at hstep
          obtain ⟨b1, hres, hI1, hgs', hol1, hnxt, hml1⟩ := hstep
          obtain ⟨b', hres', hI', hml', hout'⟩ := ih { c with buf := b1 } gs' hf hI1 hgs'
          refine ⟨b', ?_, hI', by rw [hml']; exact hml1, ?_⟩
          · simp only [applyForward, hc2, if_true, bind, Except.bind, hget, henc, hchk, Bool.and_self, applyTop, hres]
            exact hres'
          · simp only [applyLookupFwd, hgs, hgm, hen, hign, Bool.not_false, Bool.and_self, if_true, hfs]
            rw [Nat.max_eq_left (by omega)]
            have : ({ c with buf := b1 } : Ctx).buf.outLen = nxt := hol1
            rw [← this]
            exact hout'
      · have hen' : (x.mask &&& lm != 0) = false := by simpa using hen
        have henc : (x.mask &&& c.lookupMask != 0) = false := by rw [h.mask]; exact hen'
        apply hskip
        · intro b1 hb1
          simp only [applyForward, hc2, if_true, bind, Except.bind, hget, henc, Bool.false_and, Bool.false_eq_true,
            if_false, hb1]
        · simp only [applyLookupFwd, hgs, hgm, hen', Bool.false_and, Bool.false_eq_true, if_false]

theorem ctx_not_reverse (l : Lookup) (hall : ∀ st ∈ l.subtables, st.isCtx = true) : l.reverse = false := by
  unfold Lookup.reverse
  cases hs : l.subtables with
  | nil => simp
  | cons st rest =>
    have h1 := hall st (by rw [hs]; exact List.mem_cons_self)
    have : st.isReverse = false := by
      cases st <;> simp [Subtable.isCtx] at h1 <;> rfl
    simp [this]

/-- **`apply_string` of a contextual lookup** -/
theorem applyString_simC (l : Lookup) (hrev : l.reverse = false) (hp : NoSkipFlags l.props)
    (hg : Gen.Buf.ensureGrowOnly = true) (c : Ctx) (K Rn : Nat)
    (hlmf : c.lookupMask &&& (U32MAX - Flag.DEFINED) = c.lookupMask)
    (hsim : ∀ st ∈ l.subtables, SubSimC (recurseAt MAX_NESTING_LEVEL) true c.font l c.lookupMask c.buf.level K Rn st)
    (fuel : Nat) (hrnd : c.random = false) (hps : c.perSyllable = false)
    (hfl : c.buf.flags &&& Gen.Buf.produceUnsafeToConcat = 0)
    (hsu : c.buf.successful = true) (hlen : c.buf.len ≤ c.buf.info.length) (hout : c.buf.out.length = c.buf.info.length)
    (hbud : c.buf.len * (1 + K) ≤ c.buf.maxLen) (hops : (((c.buf.len * Rn : Nat)) : Int) ≤ c.buf.maxOps)
    (hgl : ∀ x ∈ c.buf.info.take c.buf.len, Plain x ∧ CtxG x) :
    ∃ c', applyString c l fuel = .ok c' ∧ c'.buf.successful = true ∧ c'.buf.len ≤ c'.buf.info.length ∧
      (c'.buf.info.take c'.buf.len).map projF
        = (applyLookupFwd c.font c.buf.level l c.lookupMask fuel ((c.buf.info.take c.buf.len).map projG) 0).map piGF := by
  unfold applyString
  by_cases h0 : (c.buf.len == 0 || c.lookupMask == 0) = true
  · simp only [h0, if_true, pure, Except.pure]
    have h0' : c.buf.len = 0 ∨ c.lookupMask = 0 := by simpa using h0
    refine ⟨c, rfl, hsu, hlen, ?_⟩
    rcases h0' with h | h
    · rw [h]; simp [applyLookupFwd_nil]
    · rw [h, applyLookupFwd_mask0]; exact RelF.refl _
  · simp only [h0, Bool.false_eq_true, if_false, hrev, Bool.not_false, if_true]
    have hinv0 : Inv ({ c.buf.clearOutput with idx := 0 } : Buf) :=
      ⟨Nat.zero_le _, by simpa [clearOutput] using hlen, by simpa [clearOutput] using hout,
        by simp [clearOutput], by simp [clearOutput], by simp [clearOutput]⟩
    have hin0 : inP ({ c.buf.clearOutput with idx := 0 } : Buf) = c.buf.info.take c.buf.len := by
      simp [inP, clearOutput]
    have hout0 : outP ({ c.buf.clearOutput with idx := 0 } : Buf) = [] := by
      simp [outP, clearOutput]
    have htl : (c.buf.info.take c.buf.len).length = c.buf.len := by simp; omega
    have hI0 : CtxInv l c.lookupMask K Rn { c with lookupProps := l.props, buf := { c.buf.clearOutput with idx := 0 } } := by
      refine ⟨hinv0, by simpa [clearOutput] using hsu, rfl, rfl, hps, by simpa [clearOutput] using hfl, hrnd, ?_, ?_, ?_, ?_⟩
      · show ({ c.buf.clearOutput with idx := 0 } : Buf).outLen + (inP ({ c.buf.clearOutput with idx := 0 } : Buf)).length * (1 + K)
            ≤ ({ c.buf.clearOutput with idx := 0 } : Buf).maxLen
        rw [hin0, htl]; simpa [clearOutput] using hbud
      · show ((((inP ({ c.buf.clearOutput with idx := 0 } : Buf)).length * Rn : Nat)) : Int)
            ≤ ({ c.buf.clearOutput with idx := 0 } : Buf).maxOps
        rw [hin0, htl]; simpa [clearOutput] using hops
      · intro y hy
        have hy' : y ∈ inP ({ c.buf.clearOutput with idx := 0 } : Buf) := hy
        rw [hin0] at hy'; exact (hgl y hy').1
      · intro y hy
        have hy' : y ∈ outP ({ c.buf.clearOutput with idx := 0 } : Buf) ++ inP ({ c.buf.clearOutput with idx := 0 } : Buf) := hy
        rw [hout0, hin0, List.nil_append] at hy'; exact (hgl y hy').2
    obtain ⟨b', hres, hI', hml', hout'⟩ :=
      applyForward_simC c.font l hp hg c.buf.level c.lookupMask K Rn hlmf hsim fuel
        { c with lookupProps := l.props, buf := { c.buf.clearOutput with idx := 0 } }
        ((c.buf.info.take c.buf.len).map projG) rfl hI0 (by
          show RelF (outP ({ c.buf.clearOutput with idx := 0 } : Buf) ++ inP ({ c.buf.clearOutput with idx := 0 } : Buf)) _
          rw [hout0, hin0, List.nil_append]; exact RelF.refl _)
    have hinv' : Inv b' := hI'.inv
    have hsu' : b'.successful = true := hI'.succ
    have htot : total b' ≤ b'.maxLen := by
      have h1 : b'.outLen + (inP b').length * (1 + K) ≤ b'.maxLen := hI'.budget
      have h2 := inP_length b' hinv'
      have e4 : (inP b').length ≤ (inP b').length * (1 + K) := Nat.le_mul_of_pos_right _ (by omega)
      unfold total
      omega
    obtain ⟨b'', hsync, hsu'', _, hle'', htake⟩ := sync_parts b' hinv' hg hsu' htot
    simp only [bind, Except.bind, hres, hsync, pure, Except.pure]
    refine ⟨_, rfl, hsu'', hle'', ?_⟩
    show (b''.info.take b''.len).map projF = _
    rw [htake]
    exact hout'

end RbModel.Gsub
