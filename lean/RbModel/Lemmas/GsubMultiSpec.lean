/-
  Specification side of "replace the current glyph by a list" lookups: `Spec.Subst.applyLookupFwd` expands the glyph string
  glyph by glyph (`flatMap`); instance: lookups made of multiple-substitution subtables; and the projection lemma that ties
  the interpreter's per-glyph step (`stepL`) to the specification's (`specStepL`).
-/
import RbModel.Lemmas.GsubMultiFwd

namespace RbModel.Spec.Subst
open RbModel RbModel.Gsub

/-- what the specification makes of one glyph under a replace-by-list lookup -/
def specStepL (f : Font) (l : Lookup) (lm : Nat) (subG : G → Option (List Nat)) (g : G) : List G :=
  if g.mask &&& lm != 0 && !ignored f l.props g then
    match subG g with
    | some ss => ss.map fun s => { g with gid := s }
    | none => [g]
  else [g]

theorem getElem?_lt {α} (gs : List α) (i : Nat) (g : α) (hg : gs[i]? = some g) : i < gs.length := by
  by_cases h : i < gs.length
  · exact h
  · rw [List.getElem?_eq_none (by omega)] at hg; cases hg

theorem split_at {α} (gs : List α) (i : Nat) (g : α) (hg : gs[i]? = some g) :
    gs = gs.take i ++ g :: gs.drop (i + 1) := by
  have hi := getElem?_lt gs i g hg
  have h1 : gs[i] = g := by rw [List.getElem?_eq_getElem hi] at hg; cases hg; rfl
  conv => lhs; rw [← List.take_append_drop i gs]
  rw [List.drop_eq_getElem_cons hi, h1]

/-- a forward lookup whose first applicable subtable replaces the glyph at `i` by `subG g` and resumes behind the
    replacement expands the string glyph by glyph; `P` is an invariant of the glyphs still to be visited (they are
    original glyphs: the glyphs a substitution puts in are never visited again) -/
theorem applyLookupFwd_list (f : Font) (level : Nat) (l : Lookup) (lm : Nat) (subG : G → Option (List Nat)) (P : G → Prop)
    (hfirst : ∀ (gs : List G) (i : Nat) (g : G), gs[i]? = some g → P g →
      firstSubtable f level l.props lm gs i l.subtables =
        (subG g).map fun ss => (replaceAt gs i (ss.map fun s => { g with gid := s }) 1, i + ss.length)) :
    ∀ (fuel : Nat) (gs : List G) (i : Nat), (∀ q g, i ≤ q → gs[q]? = some g → P g) → gs.length - i ≤ fuel → i ≤ gs.length →
      applyLookupFwd f level l lm fuel gs i = gs.take i ++ (gs.drop i).flatMap (specStepL f l lm subG) := by
  intro fuel
  induction fuel with
  | zero =>
    intro gs i _ hf hi
    have : i = gs.length := by omega
    subst this
    simp [applyLookupFwd]
  | succ fuel ih =>
    intro gs i hgs hf hi
    unfold applyLookupFwd
    cases hg : gs[i]? with
    | none =>
      have : gs.length ≤ i := by
        by_cases h : i < gs.length
        · rw [List.getElem?_eq_getElem h] at hg; cases hg
        · omega
      simp [List.drop_eq_nil_of_le this, List.take_of_length_le this]
    | some g =>
      have hil := getElem?_lt gs i g hg
      have hsplit := split_at gs i g hg
      have hdrop : gs.drop i = g :: gs.drop (i + 1) := by
        have h1 : gs[i] = g := by rw [List.getElem?_eq_getElem hil] at hg; cases hg; rfl
        rw [List.drop_eq_getElem_cons hil, h1]
      have htl : (gs.take i).length = i := by simp; omega
      simp only []
      rw [hdrop, List.flatMap_cons]
      -- the unchanged continuation: resume at i + 1 on the same string
      have hkeep : applyLookupFwd f level l lm fuel gs (i + 1)
          = gs.take i ++ ([g] ++ (gs.drop (i + 1)).flatMap (specStepL f l lm subG)) := by
        rw [ih gs (i + 1) (fun q g' hq hg' => hgs q g' (by omega) hg') (by omega) (by omega)]
        rw [List.take_add_one, hg]
        simp
      by_cases hc : (g.mask &&& lm != 0 && !ignored f l.props g) = true
      · simp only [hc, if_true]
        rw [hfirst gs i g hg (hgs i g (Nat.le_refl _) hg)]
        cases hs : subG g with
        | none =>
          simp only [Option.map_none]
          rw [hkeep]
          unfold specStepL
          simp only [hc, if_true, hs]
        | some ss =>
          simp only [Option.map_some]
          have hmax : max (i + ss.length) i = i + ss.length := by omega
          rw [hmax]
          have hst : specStepL f l lm subG g = ss.map fun s => { g with gid := s } := by
            unfold specStepL
            simp only [hc, if_true, hs]
          rw [hst]
          generalize hnew : (ss.map fun s => ({ g with gid := s } : G)) = new
          have hnl : new.length = ss.length := by rw [← hnew]; simp
          have hrep : replaceAt gs i new 1 = gs.take i ++ new ++ gs.drop (i + 1) := rfl
          rw [hrep]
          have htake : (gs.take i ++ new ++ gs.drop (i + 1)).take (i + ss.length) = gs.take i ++ new := by
            rw [List.take_append_of_le_length (by simp [hnl]; omega)]
            rw [List.take_of_length_le (by simp [hnl]; omega)]
          have hdr : (gs.take i ++ new ++ gs.drop (i + 1)).drop (i + ss.length) = gs.drop (i + 1) := by
            rw [List.drop_append_of_le_length (by simp [hnl]; omega)]
            rw [List.drop_of_length_le (by simp [hnl]; omega)]
            rfl
          rw [ih _ (i + ss.length) (by
              intro q g' hq hg'
              rw [List.getElem?_append_right (by simp [hnl]; omega)] at hg'
              simp only [List.length_append, htl, hnl, List.getElem?_drop] at hg'
              exact hgs _ g' (by omega) hg')
            (by simp [hnl]; omega) (by simp [hnl]; omega)]
          rw [htake, hdr, List.append_assoc]
      · simp only [hc, Bool.false_eq_true, if_false]
        rw [hkeep]
        unfold specStepL
        simp only [hc, Bool.false_eq_true, if_false]

theorem firstSubtable_multiple (f : Font) (level props lm : Nat) (gs : List G) (i : Nat) (g : G) (hg : gs[i]? = some g) :
    ∀ sts : List Subtable, sts.all Subtable.isMultiple = true →
      firstSubtable f level props lm gs i sts =
        (multiSeq? sts g.gid).map fun ss => (replaceAt gs i (ss.map fun s => { g with gid := s }) 1, i + ss.length) := by
  intro sts
  induction sts with
  | nil => intro _; rfl
  | cons st rest ih =>
    intro hall
    simp only [List.all_cons, Bool.and_eq_true] at hall
    have ihr := ih hall.2
    cases st with
    | multiple cov seqs =>
      unfold firstSubtable applySubtableAt
      simp only [hg, applySimple]
      cases hc : cov.index g.gid with
      | none => simp only [multiSeq?, hc, bind, Option.bind]; exact ihr
      | some k =>
        cases hs : seqs[k]? with
        | none => simp only [multiSeq?, hc, hs, bind, Option.bind]; exact ihr
        | some ss => simp only [multiSeq?, hc, hs, bind, Option.bind, pure, Option.map_some]
    | _ => simp [Subtable.isMultiple] at hall

end RbModel.Spec.Subst

namespace RbModel.Gsub
open RbModel RbModel.Buf RbModel.Spec.Subst

theorem actsAsL_multiple (l : Lookup) (hall : l.subtables.all Subtable.isMultiple = true) (lm : Nat) :
    ActsAsL l lm false (fun x => multiSeq? l.subtables (x.gid % 65536)) := by
  intro c cur _ _ hcur
  exact applySubtables_multiple _ _ c l.subtables hall cur hcur

theorem multiple_not_reverse (l : Lookup) (hall : l.subtables.all Subtable.isMultiple = true) : l.reverse = false := by
  unfold Lookup.reverse
  cases hs : l.subtables with
  | nil => simp
  | cons st rest =>
    rw [hs] at hall
    simp only [List.all_cons, Bool.and_eq_true] at hall
    have : st.isReverse = false := by
      cases st <;> simp [Subtable.isMultiple] at hall <;> rfl
    simp [this]

/-- the interpreter's per-glyph step is the specification's, on the projection, when the cached glyph properties agree
    with GDEF (`hsync`) and the substitution read from the buffer item is the one read from the projected glyph -/
theorem stepL_eq_specStepL (f : Font) (l : Lookup) (lm : Nat) (sub : Info → Option (List Nat)) (subG : G → Option (List Nat))
    (x : Info) (hsub : sub x = subG (projG x))
    (hsync : checkGlyphProperty f x l.props = !ignored f l.props (projG x)) :
    stepL f lm l.props sub x = specStepL f l lm subG (projG x) := by
  unfold stepL specStepL
  rw [hsync, hsub]
  rfl

/-- every sequence of every multiple-substitution subtable has at least one glyph (OpenType: "glyphCount should always be
    greater than 0"; an empty sequence makes `Sequence::apply` delete the glyph, see `delete_glyph`) -/
def SeqsNonempty (sts : List Subtable) : Prop :=
  ∀ st ∈ sts, ∀ cov seqs, st = .multiple cov seqs → ∀ ss ∈ seqs, ss ≠ []

theorem multiSeq?_ne_nil (sts : List Subtable) (h : SeqsNonempty sts) (g : Nat) (ss : List Nat)
    (hs : multiSeq? sts g = some ss) : ss ≠ [] := by
  induction sts with
  | nil => simp [multiSeq?] at hs
  | cons st rest ih =>
    have hrest : SeqsNonempty rest := fun st' hm => h st' (List.mem_cons_of_mem _ hm)
    cases st with
    | multiple cov seqs =>
      simp only [multiSeq?] at hs
      cases hc : cov.index g with
      | none => rw [hc] at hs; exact ih hrest hs
      | some k =>
        rw [hc] at hs
        simp only at hs
        cases hk : seqs[k]? with
        | none => rw [hk] at hs; exact ih hrest hs
        | some ss' =>
          rw [hk] at hs
          simp only [Option.some.injEq] at hs
          subst hs
          exact h _ (List.mem_cons_self) cov seqs rfl ss' (List.mem_of_getElem? hk)
    | _ => simp only [multiSeq?] at hs; exact ih hrest hs

theorem flatMap_congr_mem {α β} (f g : α → List β) (l : List α) (h : ∀ x ∈ l, f x = g x) : l.flatMap f = l.flatMap g := by
  induction l with
  | nil => rfl
  | cons a r ih =>
    simp only [List.flatMap_cons]
    rw [h a (List.mem_cons_self), ih (fun x hx => h x (List.mem_cons_of_mem _ hx))]

end RbModel.Gsub
