/-
  One application of a "replace the current glyph by a list" subtable (`Sequence::apply` of GSUB type 2, and
  `replace_glyph` of types 1 and 3 as the one-element case) on the pair (out-part, in-part) of the buffer.
-/
import RbModel.Lemmas.GsubMultiBuf
import RbModel.Lemmas.GsubAlternateSpec

namespace RbModel.Gsub
open RbModel RbModel.Buf RbModel.Mem RbModel.Spec.Subst

/-- what the specification sees of a buffer item (`toG` of Props/C06.lean) -/
def projG (x : Info) : G := { gid := x.gid, cluster := x.cluster, mask := x.mask }

theorem projG_setGlyphProps (x : Info) (n : Nat) : projG (setGlyphProps x n) = projG x := rfl
theorem projG_setLigPropsForMark (x : Info) (a b : Nat) : projG (setLigPropsForMark x a b) = projG x := rfl
theorem projG_gid (x y : Info) (s : Nat) (h : projG y = projG x) :
    projG { y with gid := s } = { projG x with gid := s } := by
  unfold projG at *
  simp only [G.mk.injEq] at h ⊢
  exact ⟨trivial, h.2.1, h.2.2⟩

/-- `Sequence::apply` on the current glyph `cur` -/
def applySeq (c : Ctx) (cur : Info) : List Nat → M Ctx
  | [] => do let b ← c.buf.deleteGlyph; pure { c with buf := b }
  | [s] => ctxReplaceGlyph c s
  | s1 :: s2 :: rest => do
      let c ← applySubtable.loop (if isLigature cur then GP.BASE_GLYPH else 0) (ligId cur) c 0 (s1 :: s2 :: rest)
      pure { c with buf := c.buf.skipGlyph }

/-- `set_glyph_class` rewrites the glyph-props half of `var1` of the current glyph and nothing else -/
theorem setGlyphClass_put (c : Ctx) (gid cg : Nat) (lig comp : Bool) (cur : Info)
    (hcur : c.buf.info[c.buf.idx]? = some cur) :
    ∃ np, setGlyphClass c gid cg lig comp =
      .ok { c with buf := { c.buf with info := c.buf.info.set c.buf.idx (setGlyphProps cur np) } } := by
  have hlt : c.buf.idx < c.buf.info.length := by
    by_cases h : c.buf.idx < c.buf.info.length
    · exact h
    · rw [List.getElem?_eq_none (by omega)] at hcur; cases hcur
  have hget : Mem.get c.buf.info c.buf.idx = .ok cur := by unfold Mem.get; rw [hcur]; rfl
  unfold setGlyphClass
  simp only [bind, Except.bind, hget, put_ok _ hlt, pure, Except.pure]
  cases lig <;> cases comp <;> exact ⟨_, rfl⟩

/-- the `cur_mut(0)` writes keep the buffer shape; the current glyph changes only in `var1` -/
theorem putCur_ctx (b : Buf) (hinv : Inv b) (x y : Info) (R : List Info) (hin : inP b = x :: R) (hxy : projG y = projG x) :
    let b' : Buf := { b with info := b.info.set b.idx y }
    Inv b' ∧ outP b' = outP b ∧ inP b' = y :: R ∧ projG y = projG x ∧ b'.successful = b.successful ∧
      b'.maxLen = b.maxLen ∧ b'.outLen = b.outLen := by
  obtain ⟨h1, h2, h3⟩ := putCur_parts b hinv x y R hin
  exact ⟨h1, h2, h3, hxy, rfl, rfl, rfl⟩

/-- `output_glyph_for_component`: `set_glyph_class` on the current glyph, then `output_glyph` -/
theorem outputForComponent_spec (hg : Gen.Buf.ensureGrowOnly = true) (c : Ctx) (s cls : Nat) (x : Info) (R : List Info)
    (hinv : Inv c.buf) (hin : inP c.buf = x :: R) (hb : c.buf.outLen + 1 ≤ c.buf.maxLen) :
    ∃ b3 np, (∀ (k : Ctx → M Ctx), (do
          let v ← setGlyphClass c s cls false true
          let b ← v.buf.outputGlyph s
          k { v with buf := b }) = k { c with buf := b3 }) ∧
      Inv b3 ∧ outP b3 = outP c.buf ++ [{ setGlyphProps x np with gid := s }] ∧ inP b3 = setGlyphProps x np :: R ∧
      b3.successful = c.buf.successful ∧ b3.maxLen = c.buf.maxLen ∧ b3.outLen = c.buf.outLen + 1 := by
  obtain ⟨hcur, hx⟩ := inP_head c.buf hinv x R hin
  obtain ⟨np, hrun2⟩ := setGlyphClass_put c s cls false true x hx
  obtain ⟨hinv2, ho2, hi2, _, _, _, _⟩ := putCur_ctx c.buf hinv x (setGlyphProps x np) R hin rfl
  obtain ⟨b3, hrun3, hinv3, ho3, hi3, hsu3, hml3⟩ :=
    outputGlyph_parts _ s hinv2 hg (setGlyphProps x np) R hi2 (by simpa using hb)
  have hol3 : b3.outLen = c.buf.outLen + 1 := by
    have h3 := outP_length b3 hinv3
    rw [ho3, ho2] at h3
    simp [outP_length c.buf hinv] at h3
    omega
  refine ⟨b3, np, ?_, hinv3, by rw [ho3, ho2], hi3, hsu3, hml3, hol3⟩
  intro k
  simp only [bind, Except.bind, hrun2, hrun3]

/-- the `for (i, subst) in substitutes` loop of `Sequence::apply`: every substitute is put out as a copy of the current
    glyph (cluster and mask of the current glyph, the new glyph id); the current glyph stays, only its `var1` changes. -/
theorem multiLoop_spec (cls lid : Nat) (hg : Gen.Buf.ensureGrowOnly = true) :
    ∀ (ss : List Nat) (c : Ctx) (i : Nat) (x : Info) (R : List Info),
      Inv c.buf → inP c.buf = x :: R → c.buf.outLen + ss.length ≤ c.buf.maxLen →
      ∃ b' x' outs, applySubtable.loop cls lid c i ss = .ok { c with buf := b' } ∧ Inv b' ∧
        outP b' = outP c.buf ++ outs ∧ inP b' = x' :: R ∧ projG x' = projG x ∧
        outs.map projG = ss.map (fun s => { projG x with gid := s }) ∧
        b'.successful = c.buf.successful ∧ b'.maxLen = c.buf.maxLen := by
  intro ss
  induction ss with
  | nil =>
    intro c i x R hinv hin _
    exact ⟨c.buf, x, [], rfl, hinv, by simp, hin, rfl, rfl, rfl, rfl⟩
  | cons s rest ih =>
    intro c i x R hinv hin hb
    simp only [List.length_cons] at hb
    obtain ⟨hcur, hx⟩ := inP_head c.buf hinv x R hin
    have hlt : c.buf.idx < c.buf.info.length := by have := hinv.len_le; omega
    have hget : Mem.get c.buf.info c.buf.idx = .ok x := by unfold Mem.get; rw [hx]; rfl
    -- the common tail, from the state `c1` after the optional lig-props write
    have tail : ∀ (c1 : Ctx) (x1 : Info), Inv c1.buf → inP c1.buf = x1 :: R → outP c1.buf = outP c.buf →
        projG x1 = projG x → c1.buf.outLen = c.buf.outLen → c1.buf.maxLen = c.buf.maxLen →
        c1.buf.successful = c.buf.successful →
        ∃ b' x' outs, (do
            let v ← setGlyphClass c1 s cls false true
            let b ← v.buf.outputGlyph s
            applySubtable.loop cls lid { v with buf := b } (i + 1) rest) = .ok { c1 with buf := b' } ∧ Inv b' ∧
          outP b' = outP c.buf ++ outs ∧ inP b' = x' :: R ∧ projG x' = projG x ∧
          outs.map projG = (s :: rest).map (fun s => { projG x with gid := s }) ∧
          b'.successful = c.buf.successful ∧ b'.maxLen = c.buf.maxLen := by
      intro c1 x1 hinv1 hi1 ho1 hx1 hol1 hml1 hsu1
      obtain ⟨b3, np, hrun, hinv3, ho3, hi3, hsu3, hml3, hol3⟩ :=
        outputForComponent_spec hg c1 s cls x1 R hinv1 hi1 (by rw [hol1, hml1]; omega)
      obtain ⟨b', x', outs, hrun4, hinv4, ho4, hi4, hx4, hm4, hsu4, hml4⟩ :=
        ih { c1 with buf := b3 } (i + 1) (setGlyphProps x1 np) R hinv3 hi3 (by
          show b3.outLen + rest.length ≤ b3.maxLen
          rw [hol3, hml3, hol1, hml1]; omega)
      refine ⟨b', x', { setGlyphProps x1 np with gid := s } :: outs, ?_, hinv4, ?_, hi4, ?_, ?_, ?_, ?_⟩
      · rw [hrun (fun c => applySubtable.loop cls lid c (i + 1) rest)]
        exact hrun4
      · rw [ho4]
        show outP b3 ++ outs = _
        rw [ho3, ho1]; simp
      · rw [hx4]; exact hx1
      · simp only [List.map_cons]
        rw [hm4]
        congr 1
        · exact projG_gid x (setGlyphProps x1 np) s hx1
        · apply List.map_congr_left
          intro a _
          have : projG (setGlyphProps x1 np) = projG x := hx1
          rw [this]
      · rw [hsu4]; show b3.successful = _; rw [hsu3, hsu1]
      · rw [hml4]; show b3.maxLen = _; rw [hml3, hml1]
    by_cases hl : (lid == 0) = true
    · -- the component number goes into the lig-props of the current glyph
      obtain ⟨hinv1, ho1, hi1, hx1, hsu1, hml1, hol1⟩ :=
        putCur_ctx c.buf hinv x (setLigPropsForMark x 0 (i % 256)) R hin rfl
      obtain ⟨b', x', outs, hrun, rest'⟩ :=
        tail { c with buf := { c.buf with info := c.buf.info.set c.buf.idx (setLigPropsForMark x 0 (i % 256)) } } _
          hinv1 hi1 ho1 hx1 hol1 hml1 hsu1
      refine ⟨b', x', outs, ?_, rest'⟩
      simp only [applySubtable.loop, bind, Except.bind, hl, if_true, hget, put_ok _ hlt, pure, Except.pure]
      exact hrun
    · obtain ⟨b', x', outs, hrun, rest'⟩ := tail c x hinv hin rfl rfl rfl rfl rfl
      refine ⟨b', x', outs, ?_, rest'⟩
      simp only [applySubtable.loop, bind, Except.bind, hl, Bool.false_eq_true, if_false, pure, Except.pure]
      exact hrun

/-- **One application of a sequence with at least one glyph**: the current glyph leaves the in-part, copies of it carrying the
    substitute glyph ids (same cluster, same mask) are appended to the out-part; nothing else moves.  The only guard is
    the length budget `out_len + n ≤ max_len` of `make_room_for`. -/
theorem applySeq_spec (hg : Gen.Buf.ensureGrowOnly = true) (c : Ctx) (ss : List Nat) (hne : ss ≠ []) (x : Info)
    (R : List Info) (hinv : Inv c.buf) (hin : inP c.buf = x :: R) (hb : c.buf.outLen + ss.length ≤ c.buf.maxLen) :
    ∃ b' outs, applySeq c x ss = .ok { c with buf := b' } ∧ Inv b' ∧ outP b' = outP c.buf ++ outs ∧ inP b' = R ∧
      outs.map projG = ss.map (fun s => { projG x with gid := s }) ∧
      b'.successful = c.buf.successful ∧ b'.maxLen = c.buf.maxLen := by
  match ss, hne with
  | [s], _ =>
    obtain ⟨hcur, hx⟩ := inP_head c.buf hinv x R hin
    obtain ⟨np, hrun2⟩ := setGlyphClass_put c s 0 false false x hx
    obtain ⟨hinv2, ho2, hi2, _, _, _, _⟩ := putCur_ctx c.buf hinv x (setGlyphProps x np) R hin rfl
    obtain ⟨b3, hrun3, hinv3, ho3, hi3, hsu3, hml3⟩ :=
      replaceGlyph_parts _ s hinv2 hg (setGlyphProps x np) R hi2 (by simpa using hb)
    refine ⟨b3, [{ setGlyphProps x np with gid := s }], ?_, hinv3, by rw [ho3, ho2], hi3, ?_, hsu3, hml3⟩
    · simp only [applySeq, ctxReplaceGlyph, bind, Except.bind, hrun2, hrun3, pure, Except.pure]
    · simp only [List.map_cons, List.map_nil]
      rw [projG_gid x (setGlyphProps x np) s rfl]
  | s1 :: s2 :: rest, _ =>
    obtain ⟨b1, x', outs, hrun, hinv1, ho1, hi1, hx1, hm1, hsu1, hml1⟩ :=
      multiLoop_spec (if isLigature x then GP.BASE_GLYPH else 0) (ligId x) hg (s1 :: s2 :: rest) c 0 x R hinv hin hb
    obtain ⟨hinv2, ho2, hi2⟩ := skipGlyph_parts b1 hinv1 x' R hi1
    refine ⟨b1.skipGlyph, outs, ?_, hinv2, by rw [ho2, ho1], hi2, hm1, hsu1, hml1⟩
    simp only [applySeq, bind, Except.bind, hrun, pure, Except.pure]

/-! ### lookups made of multiple-substitution subtables -/

def Subtable.isMultiple : Subtable → Bool
  | .multiple .. => true
  | _ => false

/-- the sequence the first applicable multiple-substitution subtable gives for glyph `g` -/
def multiSeq? : List Subtable → Nat → Option (List Nat)
  | [], _ => none
  | .multiple cov seqs :: rest, g =>
      match cov.index g with
      | some i => match seqs[i]? with
        | some ss => some ss
        | none => multiSeq? rest g
      | none => multiSeq? rest g
  | _ :: rest, g => multiSeq? rest g

/-- `SubstLookup::apply` of a lookup made of multiple-substitution subtables -/
theorem applySubtables_multiple (recurse : Ctx → Nat → M (Ctx × Bool)) (full : Bool) (c : Ctx)
    (sts : List Subtable) (hall : sts.all Subtable.isMultiple = true) (cur : Info)
    (hcur : c.buf.info[c.buf.idx]? = some cur) :
    applySubtables recurse full c sts =
      match multiSeq? sts (cur.gid % 65536) with
      | some ss => (applySeq c cur ss).map (fun c' => (c', true))
      | none => .ok (c, false) := by
  have hget : Mem.get c.buf.info c.buf.idx = .ok cur := by unfold Mem.get; rw [hcur]; rfl
  induction sts with
  | nil => rfl
  | cons st rest ih =>
    simp only [List.all_cons, Bool.and_eq_true] at hall
    have ih' := ih hall.2
    cases st with
    | multiple cov seqs =>
      simp only [applySubtables, applySubtable, bind, Except.bind, hget, multiSeq?]
      cases hi : cov.index (cur.gid % 65536) with
      | none => simp only [pure, Except.pure]; exact ih'
      | some i =>
        simp only
        cases hs : seqs[i]? with
        | none => simp only [pure, Except.pure]; exact ih'
        | some ss =>
          match ss with
          | [] =>
            simp only [applySeq, bind, Except.bind]
            generalize c.buf.deleteGlyph = res
            cases res with
            | error e => rfl
            | ok b => rfl
          | [s] =>
            simp only [applySeq]
            generalize ctxReplaceGlyph c s = res
            cases res with
            | error e => rfl
            | ok c' => rfl
          | s1 :: s2 :: r =>
            simp only [applySeq, bind, Except.bind]
            generalize applySubtable.loop _ _ c 0 (s1 :: s2 :: r) = res
            cases res with
            | error e => rfl
            | ok c' => rfl
    | single1 _ _ => simp [Subtable.isMultiple] at hall
    | single2 _ _ => simp [Subtable.isMultiple] at hall
    | alternate _ _ => simp [Subtable.isMultiple] at hall
    | ligature _ _ => simp [Subtable.isMultiple] at hall
    | context1 _ _ => simp [Subtable.isMultiple] at hall
    | context2 _ _ _ => simp [Subtable.isMultiple] at hall
    | context3 _ _ => simp [Subtable.isMultiple] at hall
    | chain1 _ _ => simp [Subtable.isMultiple] at hall
    | chain2 _ _ _ _ _ => simp [Subtable.isMultiple] at hall
    | chain3 _ _ _ _ => simp [Subtable.isMultiple] at hall
    | reverse _ _ _ _ => simp [Subtable.isMultiple] at hall

end RbModel.Gsub
