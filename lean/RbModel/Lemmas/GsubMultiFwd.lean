/-
  The forward scan (`apply_forward`) and `apply_string` of a lookup whose subtables act as "replace the current glyph by a
  list of glyphs" (generic scheme: `ActsAsL`; instance here: multiple substitution).
-/
import RbModel.Lemmas.GsubMultiStep

namespace RbModel.Gsub
open RbModel RbModel.Buf RbModel.Mem RbModel.Spec.Subst

/-- the hypothesis of the scheme: on every context with the given lookup mask (and, when `nr` is set, `random = false`:
    needed by alternate substitution only), applying the subtables at the current glyph is "replace it by the sequence
    `sub cur`, or decline" -/
def ActsAsL (l : Lookup) (lm : Nat) (nr : Bool) (sub : Info → Option (List Nat)) : Prop :=
  ∀ (c : Ctx) (cur : Info), c.lookupMask = lm → (nr = true → c.random = false) → c.buf.info[c.buf.idx]? = some cur →
    applySubtables (recurseAt MAX_NESTING_LEVEL) true c l.subtables =
      match sub cur with
      | some ss => (applySeq c cur ss).map (fun c' => (c', true))
      | none => .ok (c, false)

/-- what such a lookup makes of one glyph, seen through `projG` -/
def stepL (f : Font) (lm props : Nat) (sub : Info → Option (List Nat)) (x : Info) : List G :=
  if x.mask &&& lm != 0 && checkGlyphProperty f x props then
    match sub x with
    | some ss => ss.map fun s => { projG x with gid := s }
    | none => [projG x]
  else [projG x]

theorem applyForward_list (l : Lookup) (lm : Nat) (nr : Bool) (sub : Info → Option (List Nat)) (hact : ActsAsL l lm nr sub)
    (hne : ∀ x ss, sub x = some ss → ss ≠ []) (hg : Gen.Buf.ensureGrowOnly = true) :
    ∀ (fuel : Nat) (c : Ctx), c.lookupMask = lm → (nr = true → c.random = false) → Inv c.buf → c.buf.successful = true →
      c.lookupProps = l.props → (inP c.buf).length ≤ fuel →
      c.buf.outLen + ((inP c.buf).flatMap (stepL c.font lm l.props sub)).length ≤ c.buf.maxLen →
      ∃ b', applyForward l fuel c = .ok { c with buf := b' } ∧ Inv b' ∧ inP b' = [] ∧ b'.successful = true ∧
        b'.maxLen = c.buf.maxLen ∧
        (outP b').map projG = (outP c.buf).map projG ++ (inP c.buf).flatMap (stepL c.font lm l.props sub) := by
  intro fuel
  induction fuel with
  | zero =>
    intro c _ _ hinv hsu _ hf _
    have hnil : inP c.buf = [] := List.eq_nil_of_length_eq_zero (by omega)
    refine ⟨c.buf, rfl, hinv, hnil, hsu, rfl, ?_⟩
    rw [hnil]; simp
  | succ fuel ih =>
    intro c hlm hrnd hinv hsu hp hf hb
    cases hin : inP c.buf with
    | nil =>
      have hl := inP_length c.buf hinv
      rw [hin] at hl
      simp at hl
      have hc : ¬ (c.buf.idx < c.buf.len) := by omega
      refine ⟨c.buf, ?_, hinv, hin, hsu, rfl, by simp⟩
      simp [applyForward, hc]
      rfl
    | cons x R =>
      rw [hin] at hf hb
      simp only [List.length_cons, List.flatMap_cons, List.length_append] at hf hb
      obtain ⟨hcur, hx⟩ := inP_head c.buf hinv x R hin
      have hget : Mem.get c.buf.info c.buf.idx = .ok x := by unfold Mem.get; rw [hx]; rfl
      have hc2 : (decide (c.buf.idx < c.buf.len) && c.buf.successful) = true := by simp [hcur, hsu]
      have hol := outP_length c.buf hinv
      -- one step, then the induction hypothesis on the buffer after it
      have hstep : ∃ b1 outs, (∀ (rest : Ctx → M Ctx),
            (do
              let cur ← Mem.get c.buf.info c.buf.idx
              if cur.mask &&& c.lookupMask != 0 && checkGlyphProperty c.font cur c.lookupProps then
                let (c1, ok) ← applyTop c l
                if ok then rest c1
                else do let b ← c1.buf.nextGlyph; rest { c1 with buf := b }
              else do let b ← c.buf.nextGlyph; rest { c with buf := b }) = rest { c with buf := b1 }) ∧
          Inv b1 ∧ outP b1 = outP c.buf ++ outs ∧ inP b1 = R ∧ outs.map projG = stepL c.font lm l.props sub x ∧
          b1.successful = true ∧ b1.maxLen = c.buf.maxLen := by
        have hlen1 : (stepL c.font lm l.props sub x).length ≥ 1 := by
          unfold stepL
          split
          · split
            · rename_i ss hss
              have := hne x ss hss
              cases ss with
              | nil => exact absurd rfl this
              | cons a r => simp
            · simp
          · simp
        by_cases hen : (x.mask &&& c.lookupMask != 0 && checkGlyphProperty c.font x c.lookupProps) = true
        · have happ := hact c x hlm hrnd hx
          cases hss : sub x with
          | some ss =>
            rw [hss] at happ
            have hst : stepL c.font lm l.props sub x = ss.map fun s => { projG x with gid := s } := by
              unfold stepL
              rw [hlm, hp] at hen
              simp only [hen, if_true, hss]
            obtain ⟨b1, outs, hrun, hinv1, ho1, hi1, hm1, hsu1, hml1⟩ :=
              applySeq_spec hg c ss (hne x ss hss) x R hinv hin (by rw [hst] at hb; simp at hb; omega)
            refine ⟨b1, outs, ?_, hinv1, ho1, hi1, by rw [hst]; exact hm1, by rw [hsu1]; exact hsu, hml1⟩
            intro rest
            simp only [bind, Except.bind, hget, hen, if_true, applyTop, happ, hrun, Except.map]
          | none =>
            rw [hss] at happ
            have hst : stepL c.font lm l.props sub x = [projG x] := by
              unfold stepL
              rw [hlm, hp] at hen
              simp only [hen, if_true, hss]
            obtain ⟨b1, hrun, hinv1, ho1, hi1, hsu1, hml1⟩ := nextGlyph_parts c.buf hinv hg x R hin (by omega)
            refine ⟨b1, [x], ?_, hinv1, ho1, hi1, by rw [hst]; rfl, by rw [hsu1]; exact hsu, hml1⟩
            intro rest
            simp only [bind, Except.bind, hget, hen, if_true, applyTop, happ, Bool.false_eq_true, if_false, hrun]
        · have hen' : (x.mask &&& c.lookupMask != 0 && checkGlyphProperty c.font x c.lookupProps) = false := by
            simpa using hen
          have hst : stepL c.font lm l.props sub x = [projG x] := by
            unfold stepL
            rw [hlm, hp] at hen'
            simp only [hen', Bool.false_eq_true, if_false]
          obtain ⟨b1, hrun, hinv1, ho1, hi1, hsu1, hml1⟩ := nextGlyph_parts c.buf hinv hg x R hin (by omega)
          refine ⟨b1, [x], ?_, hinv1, ho1, hi1, by rw [hst]; rfl, by rw [hsu1]; exact hsu, hml1⟩
          intro rest
          simp only [bind, Except.bind, hget, hen', Bool.false_eq_true, if_false, hrun]
      obtain ⟨b1, outs, hrun, hinv1, ho1, hi1, hm1, hsu1, hml1⟩ := hstep
      have houts : outs.length = (stepL c.font lm l.props sub x).length := by
        rw [← hm1]; simp
      have hol1 : b1.outLen = c.buf.outLen + outs.length := by
        have := outP_length b1 hinv1
        rw [ho1] at this
        simp [hol] at this
        omega
      obtain ⟨b', hres, hinv', hi', hsu', hml', hout'⟩ := ih { c with buf := b1 } hlm hrnd hinv1 hsu1 hp
        (by show (inP b1).length ≤ fuel; rw [hi1]; omega)
        (by show b1.outLen + ((inP b1).flatMap (stepL c.font lm l.props sub)).length ≤ b1.maxLen
            rw [hi1, hol1, hml1, houts]; omega)
      refine ⟨b', ?_, hinv', hi', hsu', by rw [hml']; exact hml1, ?_⟩
      · have hrun' := hrun (applyForward l fuel)
        simp only [applyForward, hc2, if_true]
        rw [hrun']
        exact hres
      · rw [hout']
        show (outP b1).map projG ++ (inP b1).flatMap (stepL c.font lm l.props sub) = _
        rw [ho1, hi1, List.map_append, hm1, List.flatMap_cons, List.append_assoc]

theorem flatMap_single {α β} (f : α → β) (g : α → List β) (l : List α) (h : ∀ x ∈ l, g x = [f x]) :
    l.flatMap g = l.map f := by
  induction l with
  | nil => rfl
  | cons a r ih =>
    simp only [List.flatMap_cons, List.map_cons]
    rw [h a (List.mem_cons_self), ih (fun x hx => h x (List.mem_cons_of_mem _ hx))]
    rfl

/-- after `sync` the buffer content is out-part followed by in-part -/
theorem sync_parts (b : Buf) (hinv : Inv b) (hg : Gen.Buf.ensureGrowOnly = true) (hsu : b.successful = true)
    (hb : total b ≤ b.maxLen) :
    ∃ b', b.sync = .ok (b', true) ∧ b'.successful = true ∧ b'.haveOutput = false ∧ b'.len ≤ b'.info.length ∧
      b'.info.take b'.len = outP b ++ inP b := by
  obtain ⟨b', hrun, hl, hsu', hho, hle, hq⟩ := sync_ok b hinv hg hsu hb
  refine ⟨b', hrun, hsu', hho, hle, ?_⟩
  apply List.ext_getElem?
  intro q
  rw [List.getElem?_take, parts_getElem? b hinv]
  by_cases h1 : q < b'.len
  · simp only [h1, if_true]; exact hq q h1
  · simp only [h1, if_false]
    symm
    rw [← parts_getElem? b hinv]
    apply List.getElem?_eq_none
    rw [List.length_append, outP_length b hinv, inP_length b hinv]
    unfold total at hl
    omega

/-- `apply_string` of a replace-by-list lookup: the glyph string is expanded glyph by glyph. -/
theorem applyString_list (l : Lookup) (sub : Info → Option (List Nat)) (hrev : l.reverse = false) (c : Ctx)
    (nr : Bool) (hact : ActsAsL l c.lookupMask nr sub) (hne : ∀ x ss, sub x = some ss → ss ≠ []) (hg : Gen.Buf.ensureGrowOnly = true)
    (hrnd : nr = true → c.random = false) (fuel : Nat)
    (hsu : c.buf.successful = true) (hlen : c.buf.len ≤ c.buf.info.length) (hout : c.buf.out.length = c.buf.info.length)
    (hf : c.buf.len ≤ fuel)
    (hb : ((c.buf.info.take c.buf.len).flatMap (stepL c.font c.lookupMask l.props sub)).length ≤ c.buf.maxLen) :
    ∃ c', applyString c l fuel = .ok c' ∧ c'.buf.successful = true ∧ c'.buf.len ≤ c'.buf.info.length ∧
      (c'.buf.info.take c'.buf.len).map projG
        = (c.buf.info.take c.buf.len).flatMap (stepL c.font c.lookupMask l.props sub) := by
  unfold applyString
  by_cases h0 : (c.buf.len == 0 || c.lookupMask == 0) = true
  · simp only [h0, if_true, pure, Except.pure]
    have h0' : c.buf.len = 0 ∨ c.lookupMask = 0 := by simpa using h0
    refine ⟨c, rfl, hsu, hlen, ?_⟩
    symm
    apply flatMap_single
    intro x hx
    rcases h0' with h | h
    · rw [h] at hx; simp at hx
    · unfold stepL; simp [h]
  · simp only [h0, Bool.false_eq_true, if_false, hrev, Bool.not_false, if_true]
    have hinv0 : Inv ({ c.buf.clearOutput with idx := 0 } : Buf) :=
      ⟨Nat.zero_le _, by simpa [clearOutput] using hlen, by simpa [clearOutput] using hout,
        by simp [clearOutput], by simp [clearOutput], by simp [clearOutput]⟩
    have hin0 : inP ({ c.buf.clearOutput with idx := 0 } : Buf) = c.buf.info.take c.buf.len := by
      simp [inP, clearOutput]
    have hout0 : outP ({ c.buf.clearOutput with idx := 0 } : Buf) = [] := by
      simp [outP, clearOutput]
    obtain ⟨b', hres, hinv', hi', hsu', hml', hout'⟩ := applyForward_list l c.lookupMask nr sub hact hne hg fuel
      { c with lookupProps := l.props, buf := { c.buf.clearOutput with idx := 0 } }
      rfl hrnd hinv0 (by simpa [clearOutput] using hsu) rfl
      (by show (inP ({ c.buf.clearOutput with idx := 0 } : Buf)).length ≤ fuel
          rw [hin0]; simp; omega)
      (by show ({ c.buf.clearOutput with idx := 0 } : Buf).outLen
              + ((inP ({ c.buf.clearOutput with idx := 0 } : Buf)).flatMap (stepL c.font c.lookupMask l.props sub)).length
              ≤ ({ c.buf.clearOutput with idx := 0 } : Buf).maxLen
          rw [hin0]; simpa [clearOutput] using hb)
    have hml'' : b'.maxLen = c.buf.maxLen := by rw [hml']; rfl
    have hout'' : (outP b').map projG = (c.buf.info.take c.buf.len).flatMap (stepL c.font c.lookupMask l.props sub) := by
      rw [hout']
      show (outP ({ c.buf.clearOutput with idx := 0 } : Buf)).map projG
          ++ (inP ({ c.buf.clearOutput with idx := 0 } : Buf)).flatMap (stepL c.font c.lookupMask l.props sub) = _
      rw [hout0, hin0]; rfl
    have htot : total b' ≤ b'.maxLen := by
      have h1 := outP_length b' hinv'
      have h2 := inP_length b' hinv'
      rw [hi'] at h2
      simp at h2
      have h3 : (outP b').length = ((c.buf.info.take c.buf.len).flatMap (stepL c.font c.lookupMask l.props sub)).length := by
        rw [← hout'']; simp
      unfold total
      rw [hml'']
      omega
    obtain ⟨b'', hsync, hsu'', _, hle'', htake⟩ := sync_parts b' hinv' hg hsu' htot
    simp only [bind, Except.bind, hres, hsync, pure, Except.pure]
    refine ⟨_, rfl, hsu'', hle'', ?_⟩
    show (b''.info.take b''.len).map projG = _
    rw [htake, hi', List.append_nil, hout'']

end RbModel.Gsub
