import RbModel.Trak
import RbModel.Lemmas.Pipeline

/-! Tracking looks at the continuation bit and the mask only: it never reads a cluster value. -/
namespace RbModel.Trak
open RbModel.Pipeline

/-- what tracking does, slot by slot: the first slot and every slot that is not a continuation is a group start -/
def flat (t : Int) (hor : Bool) : List S → List S
  | [] => []
  | s :: tl => first t hor s :: tl.map (fun x => if x.1.cont then x else first t hor x)

theorem mem_takeWhile_true {α : Type} (p : α → Bool) (l : List α) (x : α) (h : x ∈ l.takeWhile p) : p x = true := by
  induction l with
  | nil => simp at h
  | cons a tl ih =>
    simp only [List.takeWhile_cons] at h
    split at h
    · rcases List.mem_cons.mp h with rfl | h'
      · assumption
      · exact ih h'
    · simp at h

theorem map_id_of_all {p : S → Bool} {f : S → S} (l : List S) (h : ∀ x ∈ l, p x = true) :
    l.map (fun x => if p x then x else f x) = l := by
  induction l with
  | nil => rfl
  | cons a tl ih =>
    simp only [List.map_cons, h a List.mem_cons_self, if_true]
    rw [ih (fun x hx => h x (List.mem_cons_of_mem _ hx))]

theorem track_flat (t : Int) (hor : Bool) (n : Nat) (l : List S) (hn : l.length ≤ n) :
    track t hor n l = flat t hor l := by
  induction n generalizing l with
  | zero =>
    cases l with
    | nil => rfl
    | cons s tl => simp at hn
  | succ n ih =>
    cases l with
    | nil => rfl
    | cons s tl =>
      have hn' : tl.length ≤ n := by simp at hn; omega
      simp only [track, flat]
      congr 1
      have hsplit := List.takeWhile_append_dropWhile (p := fun x : S => x.1.cont) (l := tl)
      have hd : (tl.dropWhile (fun x : S => x.1.cont)).length ≤ n :=
        Nat.le_trans (List.dropWhile_sublist _).length_le hn'
      rw [ih _ hd]
      conv => rhs; rw [← hsplit, List.map_append]
      rw [map_id_of_all (p := fun x : S => x.1.cont) _ (fun x hx => mem_takeWhile_true _ _ x hx)]
      congr 1
      cases hdw : tl.dropWhile (fun x : S => x.1.cont) with
      | nil => rfl
      | cons x d =>
        have hx : x.1.cont = false := by
          have := List.head_dropWhile_not (fun x : S => x.1.cont) (l := tl) (by rw [hdw]; simp)
          simpa [hdw] using this
        simp [flat, hx]

theorem trackAll_flat (t : Int) (hor : Bool) (l : List S) : trackAll t hor l = flat t hor l :=
  track_flat t hor l.length l (Nat.le_refl _)

/-- a slot with its cluster replaced -/
def reC (f : G → Nat) (s : S) : S := ({ s.1 with cluster := f s.1 }, s.2)

theorem bump_reC (t : Int) (hor : Bool) (c : Nat) (g : G) :
    bump t hor { g with cluster := c } = { bump t hor g with cluster := c } := by
  unfold bump; split <;> rfl

theorem bump_cluster (t : Int) (hor : Bool) (g : G) : (bump t hor g).cluster = g.cluster := by
  unfold bump; split <;> rfl

theorem bump_cont (t : Int) (hor : Bool) (g : G) : (bump t hor g).cont = g.cont := by
  unfold bump; split <;> rfl

end RbModel.Trak

/-! ## the place of tracking in `position_complex` (C13) -/
namespace RbModel.Trak
open RbModel.Pipeline RbModel.Gen.Pipeline

/-- a slot that is a default ignorable has zero advance and zero offset -/
def HiddenZero (g : G) : Prop := g.isDI = true → g.xa = 0 ∧ g.ya = 0 ∧ g.xo = 0 ∧ g.yo = 0

theorem hiddenZero_zeroDI1 (g : G) : HiddenZero (zeroDI1 g) := by
  intro h
  unfold zeroDI1 at h ⊢
  by_cases hd : g.isDI = true
  · simp [hd]
  · simp only [hd] at h
    exact absurd h hd

theorem hiddenZero_zeroMark (adjust : Bool) (g : G) (h : HiddenZero g) : HiddenZero (zeroMark adjust g) := by
  intro hd
  have hd' : g.isDI = true := by
    unfold zeroMark at hd
    cases adjust <;> simpa [G.isDI] using hd
  obtain ⟨h1, h2, h3, h4⟩ := h hd'
  unfold zeroMark
  cases adjust <;> simp [h1, h2, h3, h4]

theorem hiddenZero_positionMarksFb (adjust : Bool) (seen : Bool) (l : List G) (h : ∀ g ∈ l, HiddenZero g) :
    ∀ g ∈ positionMarksFb adjust seen l, HiddenZero g := by
  induction l generalizing seen with
  | nil => intro g hg; simp [positionMarksFb] at hg
  | cons a tl ih =>
    intro g hg
    have ha := h a List.mem_cons_self
    have htl : ∀ g ∈ tl, HiddenZero g := fun g hg => h g (List.mem_cons_of_mem _ hg)
    unfold positionMarksFb at hg
    by_cases hm : a.isMark = true
    · simp only [hm, if_true] at hg
      rcases List.mem_cons.mp hg with rfl | hg
      · split
        · exact hiddenZero_zeroMark adjust a ha
        · exact ha
      · exact ih seen htl g hg
    · simp only [hm] at hg
      rcases List.mem_cons.mp hg with rfl | hg
      · exact ha
      · exact ih true htl g hg

/-- whatever ran before it, `zero_width_default_ignorables` (when it runs) followed by the fallback mark pass leaves every
    default ignorable with zero advance and zero offset -/
theorem hiddenZero_after_zeroing (c : Cfg) (s : Scratch) (adjust : Bool) (l : List G)
    (hDI : s.hasDI = true) (hP : hasFlag c.flags BF_PRESERVE = false) (hR : hasFlag c.flags BF_REMOVE = false) :
    ∀ g ∈ positionMarksFb adjust false (zeroWidthDI c s l), HiddenZero g := by
  apply hiddenZero_positionMarksFb
  intro g hg
  unfold zeroWidthDI at hg
  simp only [hDI, hP, hR, Bool.not_false, Bool.and_self, if_true] at hg
  obtain ⟨a, _, rfl⟩ := List.mem_map.mp hg
  exact hiddenZero_zeroDI1 a

end RbModel.Trak
