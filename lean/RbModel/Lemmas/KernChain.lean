/-
  "The pairs of `machine_kern` form a chain" — helper lemma for `C07_kern_pairs_chain` / `C07_kerx_pairs_chain`
  (Props/C07.lean).

  src: kerning.rs::machine_kern / aat_layout_kerx_table.rs::apply_simple_kerning — the loop ends every iteration that found a
  second glyph `j` with `i = j;` (not `i += 1`): the glyphs the skipping iterator stepped over between `i` and `j` (GDEF marks,
  default ignorables) are never the LEFT glyph of a later pair.  Stated on the events of `machineKernLoopFI`
  (Lemmas/PairSpanKern.lean): one event per iteration that reached the iterator, in loop order.
-/
import RbModel.Lemmas.PairSpanKern

namespace RbModel.PairFlag
open RbModel RbModel.Gsub RbModel.GposFlag RbModel.Flags
open RbModel.Gpos (Pos Dir)

/-- what a later iteration `e2` of the kern loop has to do with an earlier one `e1`: it starts further right, and when `e1`
    found a second glyph (`e1.stop` = `j`), at or after that glyph -/
def KNext (e1 e2 : KEvent) : Prop :=
  e1.i < e2.i ∧ (e1.found = true → e1.stop ≤ e2.i)

/-- what the iterator of one iteration read: everything strictly right of `i`, nothing beyond the glyph it stopped at -/
def KReads (e : KEvent) : Prop :=
  e.found = true → e.i < e.stop ∧ e.stop ∈ e.reads ∧ ∀ q ∈ e.reads, e.i < q ∧ q ≤ e.stop

theorem machineKernLoopFI_chain (cm : Bool) (f : Font) (kernMask : Nat) (h cs : Bool) (kernOf : Nat → Nat → Int) :
    ∀ (fuel i : Nat) (b : Buf) (p : Array Pos) (fl : Bool) (r : Buf × Array Pos × Bool) (evs : List KEvent) (iEnd : Nat),
      machineKernLoopFI cm f kernMask h cs kernOf fuel i b p fl = .ok (r, evs, iEnd) →
      (∀ e ∈ evs, i ≤ e.i ∧ KReads e) ∧ evs.Pairwise KNext := by
  intro fuel
  induction fuel with
  | zero =>
    intro i b p fl r evs iEnd hl
    simp only [machineKernLoopFI, Except.ok.injEq, Prod.mk.injEq] at hl
    obtain ⟨_, rfl, _⟩ := hl
    exact ⟨fun e he => absurd he List.not_mem_nil, List.Pairwise.nil⟩
  | succ n ih =>
    intro i b p fl r evs iEnd hl
    unfold machineKernLoopFI at hl
    split at hl
    · rename_i hi
      cases hs : kernStepFI cm f kernMask h cs kernOf i b p fl with
      | error e => simp [hs] at hl
      | ok st =>
        obtain ⟨⟨i', b', p', fl'⟩, ev⟩ := st
        simp only [hs] at hl
        cases hr : machineKernLoopFI cm f kernMask h cs kernOf n i' b' p' fl' with
        | error e => simp [hr] at hl
        | ok r2 =>
          obtain ⟨r2, evs2, iEnd2⟩ := r2
          simp only [hr, Except.ok.injEq, Prod.mk.injEq] at hl
          obtain ⟨_, rfl, _⟩ := hl
          obtain ⟨lb, pw⟩ := ih i' b' p' fl' r2 evs2 iEnd2 hr
          obtain ⟨gi, _, s1, s2⟩ := kernStepFI_spec cm f kernMask h cs kernOf i b p fl i' b' p' fl' ev hs hi
          cases ev with
          | none =>
            have hi' : i' = i + 1 := (s1 rfl).2.1
            refine ⟨fun e he => ?_, pw⟩
            have := lb e he
            exact ⟨by omega, this.2⟩
          | some e =>
            obtain ⟨_, hei, t1, t2⟩ := s2 e rfl
            have hii : i < i' ∧ (e.found = true → i' = e.stop) ∧ KReads e := by
              cases hf : e.found with
              | false =>
                have h1 := (t1 hf).1
                refine ⟨by omega, fun hc => Bool.noConfusion hc, ?_⟩
                unfold KReads
                intro hc; rw [hf] at hc; exact Bool.noConfusion hc
              | true =>
                obtain ⟨h1, h2, _, h4, h5, _⟩ := t2 hf
                refine ⟨by omega, fun _ => h1, ?_⟩
                unfold KReads
                intro _; rw [hei]; exact ⟨h2, h4, h5⟩
            refine ⟨?_, List.pairwise_cons.mpr ⟨?_, pw⟩⟩
            · intro e2 he2
              rcases List.mem_cons.mp he2 with rfl | hm
              · exact ⟨by omega, hii.2.2⟩
              · have := lb e2 hm
                exact ⟨by omega, this.2⟩
            · intro e2 hm
              have := (lb e2 hm).1
              exact ⟨by omega, fun hf => by have := hii.2.1 hf; omega⟩
    · simp only [Except.ok.injEq, Prod.mk.injEq] at hl
      obtain ⟨_, rfl, _⟩ := hl
      exact ⟨fun e he => absurd he List.not_mem_nil, List.Pairwise.nil⟩

/-- base 1 | GDEF mark 9 (inside the kern range, with a pair of its own) | base 2 -/
def chainKernBuf : Buf :=
  { info := [(1, 256, 2, 7, 0), (9, 256, 8, 7, 1), (2, 256, 2, 7, 2)].map infoK, len := 3, flags := 0 }

def chainKernPos : Array Pos := #[{ xa := 600 }, { xa := 0 }, { xa := 500 }]

/-- the pairs (1, 2) = -100 and (9, 2) = -40 -/
def chainKernOf : Nat → Nat → Int := fun l r => if l = 1 ∧ r = 2 then -100 else if l = 9 ∧ r = 2 then -40 else 0

end RbModel.PairFlag
