/-
  The recomposition round (`Norm.round3Go` = ot_shape_normalize.rs::_hb_ot_shape_normalize, third round) on
  ARBITRARY buffers — not only `starter + marks with non-zero class` as in `round3Go_spec` — and its blocking
  side: a record of modified combining class 0 that is not itself absorbed becomes the new starter, and no
  later record is ever composed with anything before it.

  `recomposeFull` is the round read off code points, the mark bit and the modified class alone (`View`); the
  refinement `round3Go_full` has no hypotheses.  The blocking theorems are then statements about
  `recomposeFull` (no clusters, no flags).
-/
import RbModel.Norm
import RbModel.Lemmas.Norm

namespace RbModel.Norm

/-- what the recomposition round reads of a record: code point, `is_unicode_mark`, modified ccc -/
structure View where
  cp : Nat
  isMark : Bool
  mcc : Nat
deriving DecidableEq, Repr

def Info.view (i : Info) : View := { cp := i.cp, isMark := i.isMark, mcc := i.mcc }

/-- the composite the round would replace the starter `a` with when it meets `m` after having kept `kept`:
    `m` is a mark, is not blocked (`starter == out_len - 1 || mcc(prev) < mcc(cur)`), `comp a m` is defined and
    the font maps it -/
def absorbs (comp : Nat → Nat → Option Nat) (has : Nat → Bool) (a : Nat) (kept : List (Nat × Nat)) (m : View) :
    Option Nat :=
  if m.isMark && unblockedCm kept (m.cp, m.mcc) then
    (match comp a m.cp with
     | some c => if has c then some c else none
     | none => none)
  else none

/-- The third round on code points.  `done` = everything before the current starter (final), `a` = the current
    starter, `kept` = the records after it that were not absorbed (code point, modified ccc), then the input.
    A record that is not absorbed and has modified class 0 closes the segment and becomes the starter. -/
def recomposeFull (comp : Nat → Nat → Option Nat) (has : Nat → Bool) :
    List Nat → Nat → List (Nat × Nat) → List View → List Nat
  | done, a, kept, [] => done ++ a :: kept.map (·.1)
  | done, a, kept, m :: ms =>
    match absorbs comp has a kept m with
    | some c => recomposeFull comp has done c kept ms
    | none =>
      if m.mcc = 0 then recomposeFull comp has (done ++ a :: kept.map (·.1)) m.cp [] ms
      else recomposeFull comp has done a (kept ++ [(m.cp, m.mcc)]) ms

theorem view_setCluster (K : Consts) (i : Info) (c : Nat) : (setCluster K i c).view = i.view := by
  unfold Info.view
  rw [cp_setCluster, isMark_setCluster, mcc_setCluster]

theorem map_view_setCluster (K : Consts) (l : List Info) (c : Nat) :
    (l.map (setCluster K · c)).map Info.view = l.map Info.view := by
  simp [List.map_map, Function.comp_def, view_setCluster]

theorem mergeOutClusters_view (K : Consts) (pre : List Info) (s : Info) (mid rest : List Info) :
    (mergeOutClusters K pre s mid rest).2.2.2.map Info.view = rest.map Info.view := by
  unfold mergeOutClusters
  simp only
  rw [List.map_append, map_view_setCluster, ← List.map_append, List.take_append_drop]

theorem composeMapped_absorbs (U : UData) (F : Font) (s cur : Info) (mid : List Info) :
    (match (if cur.isMark && unblocked mid cur then composeMapped U F s.cp cur.cp else none) with
      | some (c, _) => some c
      | none => none) = absorbs U.comp F.has s.cp (mid.map cm) cur.view := by
  unfold absorbs composeMapped Info.view
  have hu : unblockedCm (mid.map cm) (cur.cp, cur.mcc) = unblocked mid cur := unblockedCm_map mid cur
  simp only [hu]
  cases hb : (cur.isMark && unblocked mid cur) with
  | false => simp
  | true =>
    simp only [↓reduceIte]
    cases hc : U.comp s.cp cur.cp with
    | none => simp
    | some c =>
      simp only
      cases hg : F.glyph c with
      | none => simp [Font.has, hg]
      | some g => simp [Font.has, hg]

/-- **The recomposition loop computes `recomposeFull`, on every buffer.** -/
theorem round3Go_full (U : UData) (F : Font) (K : Consts) (rest pre : List Info) (s : Info) (mid : List Info)
    (flags : Nat) :
    (round3Go U F K rest pre s mid flags).1.map (·.cp) =
      recomposeFull U.comp F.has (pre.map (·.cp)) s.cp (mid.map cm) (rest.map Info.view) := by
  generalize hn : rest.length = n
  induction n generalizing rest pre s mid flags with
  | zero =>
    have : rest = [] := List.length_eq_zero_iff.mp hn
    subst this
    rw [round3Go]
    simp [recomposeFull, cm, List.map_map, Function.comp_def]
  | succ n ih =>
    cases rest with
    | nil => simp at hn
    | cons cur rest =>
      have hab := composeMapped_absorbs U F s cur mid
      rw [round3Go]
      simp only [List.map_cons, recomposeFull]
      rw [← hab]
      cases hm : (if cur.isMark && unblocked mid cur then composeMapped U F s.cp cur.cp else none) with
      | none =>
        simp only
        have hmcc : cur.view.mcc = cur.mcc := rfl
        have hcp : cur.view.cp = cur.cp := rfl
        rw [hmcc, hcp]
        by_cases h0 : cur.mcc = 0
        · simp only [h0, ↓reduceIte]
          rw [ih rest (pre ++ s :: mid) cur [] flags (by simpa using hn)]
          simp [cm, List.map_map, Function.comp_def]
        · simp only [h0, ↓reduceIte]
          rw [ih rest pre s (mid ++ [cur]) flags (by simpa using hn)]
          simp [cm]
      | some cg =>
        obtain ⟨c, g⟩ := cg
        simp only
        have sp := mergeOutClusters_spec K pre s (mid ++ [cur]) rest
        rw [ih _ _ _ _ _ (by rw [length_mergeOutClusters]; simpa using hn)]
        rw [sp.1, mergeOutClusters_view]
        have : (mergeOutClusters K pre s (mid ++ [cur]) rest).2.2.1.dropLast.map cm = mid.map cm := by
          unfold mergeOutClusters
          exact dropLast_snoc_map K mid cur _
        rw [this]

/-- the whole third round (initial `next_glyph()`, `starter = 0`) -/
theorem round3_full (U : UData) (F : Font) (K : Consts) (x : Info) (rest : List Info) (flags : Nat) :
    (round3 U F K (x :: rest) flags).1.map (·.cp) =
      recomposeFull U.comp F.has [] x.cp [] (rest.map Info.view) := by
  have := round3Go_full U F K rest [] x [] flags
  simpa [round3] using this

/-! ### `done` is final -/

theorem recomposeFull_done (comp : Nat → Nat → Option Nat) (has : Nat → Bool) (done : List Nat) (a : Nat)
    (kept : List (Nat × Nat)) (l : List View) :
    recomposeFull comp has done a kept l = done ++ recomposeFull comp has [] a kept l := by
  induction l generalizing done a kept with
  | nil => simp [recomposeFull]
  | cons m ms ih =>
    simp only [recomposeFull]
    cases absorbs comp has a kept m with
    | some c => simp only; exact ih done c kept
    | none =>
      simp only
      by_cases h0 : m.mcc = 0
      · simp only [h0, ↓reduceIte]
        rw [ih (done ++ a :: kept.map (·.1)), ih ([] ++ a :: kept.map (·.1))]
        simp
      · simp only [h0, ↓reduceIte]
        exact ih done a (kept ++ [(m.cp, m.mcc)])

/-! ### blocking -/

/-- a record of class 0 that comes after a kept record is never absorbed (`mcc(prev) < 0` is false) -/
theorem absorbs_none_of_kept (comp : Nat → Nat → Option Nat) (has : Nat → Bool) (a : Nat)
    (kept : List (Nat × Nat)) (z : View) (hz : z.mcc = 0) (hk : kept ≠ []) : absorbs comp has a kept z = none := by
  unfold absorbs unblockedCm
  cases hl : kept.getLast? with
  | none => exact absurd (List.getLast?_eq_none_iff.mp hl) hk
  | some p => simp [hz]

/-- never absorbed, whatever the starter and the kept records: not a mark, or no composite with it as second
    component is both defined and mapped by the font -/
def NeverAbsorbed (comp : Nat → Nat → Option Nat) (has : Nat → Bool) (z : View) : Prop :=
  z.isMark = false ∨ ∀ a c, comp a z.cp = some c → has c = false

theorem absorbs_none_of_never (comp : Nat → Nat → Option Nat) (has : Nat → Bool) (a : Nat)
    (kept : List (Nat × Nat)) (z : View) (h : NeverAbsorbed comp has z) : absorbs comp has a kept z = none := by
  unfold absorbs
  rcases h with h | h
  · simp [h]
  · split
    · cases hc : comp a z.cp with
      | none => rfl
      | some c => simp [h a c hc]
    · rfl

/-- one step: a class-0 record that is not absorbed closes the segment; what precedes it is output as it
    stands and the round goes on with that record as the starter and nothing kept -/
theorem recomposeFull_block_step (comp : Nat → Nat → Option Nat) (has : Nat → Bool) (done : List Nat) (a : Nat)
    (kept : List (Nat × Nat)) (z : View) (l2 : List View) (hz : z.mcc = 0)
    (hna : absorbs comp has a kept z = none) :
    recomposeFull comp has done a kept (z :: l2) =
      (done ++ a :: kept.map (·.1)) ++ recomposeFull comp has [] z.cp [] l2 := by
  rw [recomposeFull]
  simp only [hna, hz, ↓reduceIte]
  exact recomposeFull_done comp has _ _ _ _

/-- **Recomposition never crosses a record of class 0.**  If `z` has modified class 0 and can never be
    absorbed, the round on `l1 ++ z :: l2` is the round on `l1` followed by the round on `z :: l2` started
    afresh: no record of `l2` is composed with (or blocked by) anything before `z`. -/
theorem recomposeFull_split (comp : Nat → Nat → Option Nat) (has : Nat → Bool) (done : List Nat) (a : Nat)
    (kept : List (Nat × Nat)) (l1 : List View) (z : View) (l2 : List View) (hz : z.mcc = 0)
    (hna : NeverAbsorbed comp has z) :
    recomposeFull comp has done a kept (l1 ++ z :: l2) =
      recomposeFull comp has done a kept l1 ++ recomposeFull comp has [] z.cp [] l2 := by
  induction l1 generalizing done a kept with
  | nil =>
    rw [List.nil_append, recomposeFull_block_step comp has done a kept z l2 hz
      (absorbs_none_of_never comp has a kept z hna)]
    simp [recomposeFull]
  | cons m ms ih =>
    simp only [List.cons_append, recomposeFull]
    cases absorbs comp has a kept m with
    | some c => simp only; exact ih done c kept
    | none =>
      simp only
      by_cases h0 : m.mcc = 0
      · simp only [h0, ↓reduceIte]; exact ih _ _ _
      · simp only [h0, ↓reduceIte]; exact ih _ _ _

/-- the same when `z` directly follows a kept record of non-zero class (then `z` may even be a mark that
    composes with the starter: it is blocked) -/
theorem recomposeFull_split_after_kept (comp : Nat → Nat → Option Nat) (has : Nat → Bool) (done : List Nat)
    (a : Nat) (kept : List (Nat × Nat)) (z : View) (l2 : List View) (hz : z.mcc = 0) (hk : kept ≠ []) :
    recomposeFull comp has done a kept (z :: l2) =
      (done ++ a :: kept.map (·.1)) ++ recomposeFull comp has [] z.cp [] l2 :=
  recomposeFull_block_step comp has done a kept z l2 hz (absorbs_none_of_kept comp has a kept z hz hk)

/-- consequence for the starter: as long as nothing is absorbed before `z`, the starter is output unchanged
    whatever follows `z` -/
theorem recomposeFull_starter_kept (comp : Nat → Nat → Option Nat) (has : Nat → Bool) (a : Nat) (z : View)
    (l2 : List View) (hz : z.mcc = 0) (hna : absorbs comp has a [] z = none) :
    recomposeFull comp has [] a [] (z :: l2) = a :: recomposeFull comp has [] z.cp [] l2 := by
  rw [recomposeFull_block_step comp has [] a [] z l2 hz hna]
  simp

/-! ### on `starter + marks of non-zero class` the two specs agree -/

theorem recomposeFull_eq_spec (comp : Nat → Nat → Option Nat) (has : Nat → Bool) (done : List Nat) (a : Nat)
    (kept : List (Nat × Nat)) (l : List View) (hl : ∀ m ∈ l, m.isMark = true ∧ m.mcc ≠ 0) :
    recomposeFull comp has done a kept l =
      done ++ (recomposeSpec comp has a kept (l.map fun m => (m.cp, m.mcc))).1 ::
        (recomposeSpec comp has a kept (l.map fun m => (m.cp, m.mcc))).2.map (·.1) := by
  induction l generalizing a kept with
  | nil => simp [recomposeFull, recomposeSpec]
  | cons m ms ih =>
    have hm := hl m List.mem_cons_self
    have hms : ∀ x ∈ ms, x.isMark = true ∧ x.mcc ≠ 0 := fun x hx => hl x (List.mem_cons_of_mem _ hx)
    simp only [recomposeFull, List.map_cons, recomposeSpec, absorbs, hm.1, Bool.true_and]
    by_cases hu : unblockedCm kept (m.cp, m.mcc) = true
    · simp only [hu, ↓reduceIte]
      cases hc : comp a m.cp with
      | none => simp only [hm.2, ↓reduceIte]; exact ih a _ hms
      | some c =>
        simp only
        by_cases hh : has c = true
        · simp only [hh, ↓reduceIte]; exact ih c kept hms
        · simp only [hh, Bool.false_eq_true, ↓reduceIte, hm.2]; exact ih a _ hms
    · simp only [hu, Bool.false_eq_true, ↓reduceIte, hm.2]; exact ih a _ hms

end RbModel.Norm
