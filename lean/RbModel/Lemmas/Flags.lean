import RbModel.Flags
import RbModel.Lemmas.BufZipper
