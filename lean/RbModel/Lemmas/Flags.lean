/-
  Helper lemmas for C03 / C04: pointwise characterisations of the flag loops of buffer.rs
  (`_infos_find_min_cluster`, `_infos_set_glyph_flags`, `_set_glyph_flags`) and of `propagate_flags`
  (ot_shape.rs).  Core Lean only.
-/
import RbModel.Flags
import RbModel.Lemmas.Mem

namespace RbModel.Flags
open RbModel.Mem

/-! ### bits -/

theorem and7_lt (m : Nat) : m &&& 7 < 8 := by
  have : m &&& 7 ≤ 7 := Nat.and_le_right
  omega

theorem or_lt8 {a b : Nat} (ha : a < 8) (hb : b < 8) : a ||| b < 8 := by
  have : ∀ a, a < 8 → ∀ b, b < 8 → a ||| b < 8 := by decide
  exact this a ha b hb

/-- a flag bit of `a ||| b` comes from `a` or from `b` -/
theorem or_and_ne_zero (a b bit : Nat) : (a ||| b) &&& bit ≠ 0 ↔ a &&& bit ≠ 0 ∨ b &&& bit ≠ 0 := by
  rw [Nat.and_or_distrib_right]
  constructor
  · intro h
    by_cases ha : a &&& bit = 0
    · right; intro hb; apply h; rw [ha, hb]; rfl
    · left; exact ha
  · intro h hz
    have := Nat.or_eq_zero_iff.mp hz
    rcases h with h | h
    · exact h this.1
    · exact h this.2

/-- masking with DEFINED first does not change a defined flag bit -/
theorem and7_and (m bit : Nat) (hb : 7 &&& bit = bit) : (m &&& 7) &&& bit = m &&& bit := by
  rw [Nat.and_assoc, hb]

/-! ### cluster value at an index, "only the mask of entry j changed" -/

/-- cluster of the i-th entry -/
def clAt (l : List Info) (i : Nat) : Option Nat := (l[i]?).map (·.cluster)

theorem clAt_some {l : List Info} {i : Nat} {x : Info} (h : l[i]? = some x) : clAt l i = some x.cluster := by
  simp [clAt, h]

/-- `l'` is `l` with the masks of some entries replaced: same length, every other field untouched -/
def SameButMasks (l l' : List Info) : Prop :=
  l'.length = l.length ∧ ∀ (j : Nat) (x' : Info), l'[j]? = some x' → ∃ x : Info, l[j]? = some x ∧ x' = { x with mask := x'.mask }

theorem SameButMasks.refl (l : List Info) : SameButMasks l l :=
  ⟨rfl, fun _ x' h => ⟨x', h, rfl⟩⟩

theorem SameButMasks.trans {a b c : List Info} (h1 : SameButMasks a b) (h2 : SameButMasks b c) : SameButMasks a c := by
  refine ⟨h2.1.trans h1.1, ?_⟩
  intro j x' hx'
  obtain ⟨y, hy, e2⟩ := h2.2 j x' hx'
  obtain ⟨x, hx, e1⟩ := h1.2 j y hy
  refine ⟨x, hx, ?_⟩
  rw [e2, e1]

theorem SameButMasks.clAt {l l' : List Info} (h : SameButMasks l l') (j : Nat) : clAt l' j = clAt l j := by
  unfold Flags.clAt
  cases hx' : l'[j]? with
  | none =>
    have : l[j]? = none := by
      rw [List.getElem?_eq_none_iff] at hx' ⊢
      rw [← h.1]; exact hx'
    simp [this]
  | some x' =>
    obtain ⟨x, hx, e⟩ := h.2 j x' hx'
    simp [hx]
    rw [e]

/-! ### the generic "update entries p ≤ j < q that satisfy a test" shape -/

/-- `l'` is `l` where exactly the entries `p ≤ j < q` with `test j x` had `upd` applied -/
def Upd (l l' : List Info) (p q : Nat) (test : Info → Bool) (upd : Info → Info) : Prop :=
  l'.length = l.length ∧
  ∀ j, l'[j]? = (l[j]?).map (fun x => if p ≤ j ∧ j < q ∧ test x = true then upd x else x)

theorem Upd.empty (l : List Info) (p : Nat) (test : Info → Bool) (upd : Info → Info) : Upd l l p p test upd := by
  refine ⟨rfl, ?_⟩
  intro j
  cases h : l[j]? with
  | none => simp
  | some x =>
    have : ¬ (p ≤ j ∧ j < p ∧ test x = true) := by omega
    simp [this]

/-- one more entry at the front -/
theorem Upd.cons_front {l l' : List Info} {i q : Nat} {test : Info → Bool} {upd : Info → Info} {x : Info}
    (hx : l[i]? = some x) (hlt : i < l.length) (hiq : i < q)
    (h : Upd (if test x then l.set i (upd x) else l) l' (i + 1) q test upd) :
    Upd l l' i q test upd := by
  by_cases ht : test x = true
  · simp only [ht, if_true] at h
    refine ⟨by rw [h.1, List.length_set], ?_⟩
    intro j
    rw [h.2 j]
    by_cases hj : j = i
    · subst hj
      rw [List.getElem?_set_self hlt, hx]
      have h1 : ¬ (j + 1 ≤ j ∧ j < q ∧ test (upd x) = true) := by omega
      simp only [Option.map_some, h1, if_false]
      have : j ≤ j ∧ j < q ∧ test x = true := ⟨Nat.le_refl _, hiq, ht⟩
      simp [this]
    · rw [List.getElem?_set_ne (fun e => hj e.symm)]
      cases hy : l[j]? with
      | none => simp
      | some y =>
        simp only [Option.map_some]
        by_cases c : i + 1 ≤ j ∧ j < q ∧ test y = true
        · have : i ≤ j ∧ j < q ∧ test y = true := ⟨by omega, c.2.1, c.2.2⟩
          simp [c, this]
        · have : ¬ (i ≤ j ∧ j < q ∧ test y = true) := by
            intro hh; apply c; refine ⟨by omega, hh.2.1, hh.2.2⟩
          simp [c, this]
  · have ht' : test x = false := by simpa using ht
    simp only [ht', Bool.false_eq_true, if_false] at h
    refine ⟨h.1, ?_⟩
    intro j
    rw [h.2 j]
    cases hy : l[j]? with
    | none => simp
    | some y =>
      simp only [Option.map_some]
      by_cases hj : j = i
      · subst hj
        rw [hx] at hy; cases hy
        have h1 : ¬ (j + 1 ≤ j ∧ j < q ∧ test x = true) := by omega
        simp [ht']
      · by_cases c : i + 1 ≤ j ∧ j < q ∧ test y = true
        · have : i ≤ j ∧ j < q ∧ test y = true := ⟨by omega, c.2.1, c.2.2⟩
          simp [c, this]
        · have : ¬ (i ≤ j ∧ j < q ∧ test y = true) := by
            intro hh; apply c; refine ⟨by omega, hh.2.1, hh.2.2⟩
          simp [c, this]

/-- one more entry at the back -/
theorem Upd.snoc_back {l l' : List Info} {p i : Nat} {test : Info → Bool} {upd : Info → Info} {x : Info}
    (hx : l[i]? = some x) (hlt : i < l.length) (hpi : p ≤ i) (ht : test x = true)
    (h : Upd (l.set i (upd x)) l' p i test upd) :
    Upd l l' p (i + 1) test upd := by
  refine ⟨by rw [h.1, List.length_set], ?_⟩
  intro j
  rw [h.2 j]
  by_cases hj : j = i
  · subst hj
    rw [List.getElem?_set_self hlt, hx]
    have h1 : ¬ (p ≤ j ∧ j < j ∧ test (upd x) = true) := by omega
    have h2 : p ≤ j ∧ j < j + 1 ∧ test x = true := ⟨hpi, by omega, ht⟩
    simp [h1, h2]
  · rw [List.getElem?_set_ne (fun e => hj e.symm)]
    cases hy : l[j]? with
    | none => simp
    | some y =>
      simp only [Option.map_some]
      by_cases c : p ≤ j ∧ j < i ∧ test y = true
      · have : p ≤ j ∧ j < i + 1 ∧ test y = true := ⟨c.1, by omega, c.2.2⟩
        simp [c, this]
      · have : ¬ (p ≤ j ∧ j < i + 1 ∧ test y = true) := by
          intro hh; apply c; exact ⟨hh.1, by omega, hh.2.2⟩
        simp [c, this]

/-- widening the index window over entries that fail the test changes nothing -/
theorem Upd.widen {l l' : List Info} {p q s e : Nat} {test : Info → Bool} {upd : Info → Info}
    (h : Upd l l' p q test upd) (hsp : s ≤ p) (hqe : q ≤ e)
    (hout : ∀ j x, s ≤ j → j < e → (j < p ∨ q ≤ j) → l[j]? = some x → test x = false) :
    Upd l l' s e test upd := by
  refine ⟨h.1, ?_⟩
  intro j
  rw [h.2 j]
  cases hy : l[j]? with
  | none => simp
  | some y =>
    simp only [Option.map_some]
    by_cases c : p ≤ j ∧ j < q ∧ test y = true
    · have : s ≤ j ∧ j < e ∧ test y = true := ⟨by omega, by omega, c.2.2⟩
      simp [c, this]
    · by_cases c2 : s ≤ j ∧ j < e ∧ test y = true
      · exfalso
        have hjo : j < p ∨ q ≤ j := by
          by_cases h1 : j < p
          · exact Or.inl h1
          · by_cases h2 : q ≤ j
            · exact Or.inr h2
            · exact absurd ⟨by omega, by omega, c2.2.2⟩ c
        have := hout j y c2.1 c2.2.1 hjo hy
        rw [this] at c2
        exact absurd c2.2.2 (by simp)
      · simp [c, c2]

/-- an `Upd` whose update only touches the mask keeps every other field -/
theorem Upd.sameButMasks {l l' : List Info} {p q : Nat} {test : Info → Bool} {upd : Info → Info}
    (h : Upd l l' p q test upd) (hu : ∀ x, upd x = { x with mask := (upd x).mask }) : SameButMasks l l' := by
  refine ⟨h.1, ?_⟩
  intro j x' hx'
  rw [h.2 j] at hx'
  cases hy : l[j]? with
  | none => simp [hy] at hx'
  | some y =>
    refine ⟨y, rfl, ?_⟩
    simp only [hy, Option.map_some, Option.some.injEq] at hx'
    by_cases c : p ≤ j ∧ j < q ∧ test y = true
    · simp only [c, and_self, if_true] at hx'
      rw [← hx']; exact hu y
    · simp only [c, if_false] at hx'
      rw [← hx']

/-! ### the flag loops of `_infos_set_glyph_flags` -/

/-- `mask |= m` -/
def orMask (m : Nat) (x : Info) : Info := { x with mask := x.mask ||| m }
/-- `cluster != c` -/
def neCl (c : Nat) (x : Info) : Bool := x.cluster != c

theorem orMask_eq (m : Nat) (x : Info) : orMask m x = { x with mask := (orMask m x).mask } := rfl

theorem neCl_false_iff {c : Nat} {x : Info} : neCl c x = false ↔ x.cluster = c := by
  simp [neCl]

theorem flagAllNe_spec (c mask : Nat) : ∀ (k : Nat) (l : List Info) (i : Nat) (ch : Bool), i + k ≤ l.length →
    ∃ l' ch', Buf.flagAllNe l c mask i k ch = .ok (l', ch') ∧ Upd l l' i (i + k) (neCl c) (orMask mask) := by
  intro k
  induction k with
  | zero =>
    intro l i ch _
    exact ⟨l, ch, rfl, Upd.empty l i _ _⟩
  | succ k ih =>
    intro l i ch hb
    have hlt : i < l.length := by omega
    have hx : l[i]? = some l[i] := List.getElem?_eq_getElem hlt
    by_cases ht : neCl c l[i] = true
    · obtain ⟨l', ch', hr, hu⟩ := ih (l.set i (orMask mask l[i])) (i + 1) true (by simp; omega)
      refine ⟨l', ch', ?_, ?_⟩
      · have ht2 : (l[i].cluster != c) = true := ht
        simp only [Buf.flagAllNe, get_ok hlt, bind, Except.bind, ht2, if_true]
        exact hr
      · have : i + (k + 1) = i + 1 + k := by omega
        rw [this]
        apply Upd.cons_front hx hlt (by omega)
        simp only [ht, if_true]
        exact hu
    · have ht' : neCl c l[i] = false := by simpa using ht
      obtain ⟨l', ch', hr, hu⟩ := ih l (i + 1) ch (by omega)
      refine ⟨l', ch', ?_, ?_⟩
      · have ht2 : (l[i].cluster != c) = false := ht'
        simp only [Buf.flagAllNe, get_ok hlt, bind, Except.bind, ht2, Bool.false_eq_true, if_false]
        exact hr
      · have : i + (k + 1) = i + 1 + k := by omega
        rw [this]
        apply Upd.cons_front hx hlt (by omega)
        simp only [ht', Bool.false_eq_true, if_false]
        exact hu

theorem clAt_set_orMask (l : List Info) (i : Nat) (m : Nat) (x : Info) (hx : l[i]? = some x) (j : Nat) :
    clAt (l.set i (orMask m x)) j = clAt l j := by
  unfold clAt
  rw [List.getElem?_set]
  by_cases h : i = j
  · subst h
    have hlt : i < l.length := by
      rcases Nat.lt_or_ge i l.length with h | h
      · exact h
      · rw [List.getElem?_eq_none_iff.mpr h] at hx; cases hx
    have hxe : l[i] = x := by
      have := List.getElem?_eq_getElem hlt
      rw [hx] at this; cases this; rfl
    simp [hlt, orMask, hxe]
  · simp [h]

/-- the loop that walks down from the end while the cluster differs from the first one (`cluster == cluster_first`):
    it flags a suffix `[p, i)` and stops at `p = start` or at an entry of cluster `c` -/
theorem flagFromEnd_spec (c mask start : Nat) : ∀ (i : Nat) (l : List Info) (ch : Bool), start ≤ i → i ≤ l.length →
    ∃ l' ch' p, Buf.flagFromEnd l c c mask start i ch = .ok (l', ch') ∧ start ≤ p ∧ p ≤ i ∧
      Upd l l' p i (neCl c) (orMask mask) ∧ (p = start ∨ (start < p ∧ clAt l (p - 1) = some c)) := by
  intro i
  induction i with
  | zero =>
    intro l ch hs _
    have : start = 0 := by omega
    subst this
    exact ⟨l, ch, 0, rfl, Nat.le_refl _, Nat.le_refl _, Upd.empty l 0 _ _, Or.inl rfl⟩
  | succ i ih =>
    intro l ch hs hb
    by_cases hsi : start < i + 1
    · have hlt : i < l.length := by omega
      have hx : l[i]? = some l[i] := List.getElem?_eq_getElem hlt
      by_cases ht : (l[i].cluster != c) = true
      · obtain ⟨l', ch', p, hr, hp1, hp2, hu, hp⟩ :=
          ih (l.set i (orMask mask l[i])) true (by omega) (by simp; omega)
        refine ⟨l', ch', p, ?_, hp1, by omega, ?_, ?_⟩
        · have ht3 : (c != l[i].cluster) = true := by
            simp only [bne_iff_ne, ne_eq] at ht ⊢
            exact fun e => ht e.symm
          simp only [Buf.flagFromEnd, hsi, if_true, get_ok hlt, bind, Except.bind, ht, ht3]
          exact hr
        · exact Upd.snoc_back hx hlt hp2 ht hu
        · rcases hp with hp | ⟨hp, hc⟩
          · exact Or.inl hp
          · right
            refine ⟨hp, ?_⟩
            rw [clAt_set_orMask l i mask l[i] hx] at hc
            exact hc
      · have ht' : (l[i].cluster != c) = false := by simpa using ht
        refine ⟨l, ch, i + 1, ?_, by omega, Nat.le_refl _, Upd.empty l (i + 1) _ _, ?_⟩
        · simp only [Buf.flagFromEnd, hsi, if_true, get_ok hlt, bind, Except.bind, ht', Bool.false_eq_true, if_false]
          rfl
        · right
          refine ⟨hsi, ?_⟩
          have : l[i].cluster = c := by simpa using ht'
          simp [clAt, hx, this]
    · have : start = i + 1 := by omega
      refine ⟨l, ch, i + 1, ?_, by omega, Nat.le_refl _, Upd.empty l (i + 1) _ _, Or.inl this.symm⟩
      simp only [Buf.flagFromEnd, hsi, if_false]
      rfl

/-- the loop that walks up from the start while the cluster differs from the last one (`cluster == cluster_last`) -/
theorem flagFromStart_spec (c mask : Nat) : ∀ (k : Nat) (l : List Info) (i : Nat) (ch : Bool), i + k ≤ l.length →
    ∃ l' ch' q, Buf.flagFromStart l c c mask i k ch = .ok (l', ch') ∧ i ≤ q ∧ q ≤ i + k ∧
      Upd l l' i q (neCl c) (orMask mask) ∧ (q = i + k ∨ (q < i + k ∧ clAt l q = some c)) := by
  intro k
  induction k with
  | zero =>
    intro l i ch _
    exact ⟨l, ch, i, rfl, Nat.le_refl _, Nat.le_refl _, Upd.empty l i _ _, Or.inl rfl⟩
  | succ k ih =>
    intro l i ch hb
    have hlt : i < l.length := by omega
    have hx : l[i]? = some l[i] := List.getElem?_eq_getElem hlt
    by_cases ht : (l[i].cluster != c) = true
    · obtain ⟨l', ch', q, hr, hq1, hq2, hu, hq⟩ :=
        ih (l.set i (orMask mask l[i])) (i + 1) true (by simp; omega)
      refine ⟨l', ch', q, ?_, by omega, by omega, ?_, ?_⟩
      · have ht3 : (c != l[i].cluster) = true := by
          simp only [bne_iff_ne, ne_eq] at ht ⊢
          exact fun e => ht e.symm
        simp only [Buf.flagFromStart, get_ok hlt, bind, Except.bind, ht, ht3, if_true]
        exact hr
      · apply Upd.cons_front hx hlt (by omega)
        have : neCl c l[i] = true := ht
        simp only [this, if_true]
        exact hu
      · rcases hq with hq | ⟨hq, hc⟩
        · left; omega
        · right
          refine ⟨by omega, ?_⟩
          rw [clAt_set_orMask l i mask l[i] hx] at hc
          exact hc
    · have ht' : (l[i].cluster != c) = false := by simpa using ht
      refine ⟨l, ch, i, ?_, Nat.le_refl _, by omega, Upd.empty l i _ _, ?_⟩
      · simp only [Buf.flagFromStart, get_ok hlt, bind, Except.bind, ht', Bool.false_eq_true, if_false]
        rfl
      · right
        refine ⟨by omega, ?_⟩
        have : l[i].cluster = c := by simpa using ht'
        simp [clAt, hx, this]

/-- `_infos_set_glyph_flags` on `[s, e)` with reference cluster `c`: the entries of a window `[p, q) ⊆ [s, e)` whose
    cluster differs from `c` get `mask |= m`; the window is everything (level 2, or `c` at neither end), or it stops
    short only at an entry of cluster `c` (first entry has cluster `c`: walk down from the end; else last entry has
    cluster `c`: walk up from the start). -/
theorem infosSetGlyphFlags_spec (level : Nat) (l : List Info) (s e c mask : Nat) (hse : s < e) (he : e ≤ l.length) :
    ∃ l' ch p q, Buf.infosSetGlyphFlags level l s e c mask = .ok (l', ch) ∧ s ≤ p ∧ p ≤ q ∧ q ≤ e ∧
      Upd l l' p q (neCl c) (orMask mask) ∧
      ((p = s ∧ q = e) ∨
       (clAt l s = some c ∧ q = e ∧ (p = s ∨ (s < p ∧ clAt l (p - 1) = some c))) ∨
       (clAt l (e - 1) = some c ∧ p = s ∧ (q = e ∨ (q < e ∧ clAt l q = some c)))) := by
  have hs : s < l.length := by omega
  have he1 : e - 1 < l.length := by omega
  have hne : (s == e) = false := by simp; omega
  have he0 : ¬ e = 0 := by omega
  by_cases h1 : (level == 2 || (c != l[s].cluster && c != l[e - 1].cluster)) = true
  · obtain ⟨l', ch', hr, hu⟩ := flagAllNe_spec c mask (e - s) l s false (by omega)
    have : s + (e - s) = e := by omega
    rw [this] at hu
    refine ⟨l', ch', s, e, ?_, Nat.le_refl _, by omega, Nat.le_refl _, hu, Or.inl ⟨rfl, rfl⟩⟩
    simp only [Buf.infosSetGlyphFlags, hne, Bool.false_eq_true, if_false, get_ok hs, he0, get_ok he1, bind, Except.bind,
      h1, if_true]
    exact hr
  · have h1' : (level == 2 || (c != l[s].cluster && c != l[e - 1].cluster)) = false := by simpa using h1
    by_cases h2 : (c == l[s].cluster) = true
    · have hcs : l[s].cluster = c := by
        have := beq_iff_eq.mp h2; exact this.symm
      obtain ⟨l', ch', p, hr, hp1, hp2, hu, hp⟩ := flagFromEnd_spec c mask s e l false (by omega) he
      refine ⟨l', ch', p, e, ?_, hp1, hp2, Nat.le_refl _, hu, Or.inr (Or.inl ⟨?_, rfl, hp⟩)⟩
      · simp only [Buf.infosSetGlyphFlags, hne, Bool.false_eq_true, if_false, get_ok hs, he0, get_ok he1, bind,
          Except.bind, h1', h2, if_true]
        rw [hcs]; exact hr
      · simp [clAt, List.getElem?_eq_getElem hs, hcs]
    · have h2' : (c == l[s].cluster) = false := by simpa using h2
      have hce : l[e - 1].cluster = c := by
        simp only [Bool.or_eq_false_iff, Bool.and_eq_false_iff, bne_eq_false_iff_eq] at h1'
        have hcs : ¬ c = l[s].cluster := by simpa using h2'
        rcases h1'.2 with h | h
        · exact absurd h hcs
        · exact h.symm
      obtain ⟨l', ch', q, hr, hq1, hq2, hu, hq⟩ := flagFromStart_spec c mask (e - s) l s false (by omega)
      have hse' : s + (e - s) = e := by omega
      rw [hse'] at hq2 hq
      refine ⟨l', ch', s, q, ?_, Nat.le_refl _, hq1, hq2, hu, Or.inr (Or.inr ⟨?_, rfl, hq⟩)⟩
      · simp only [Buf.infosSetGlyphFlags, hne, Bool.false_eq_true, if_false, get_ok hs, he0, get_ok he1, bind,
          Except.bind, h1', h2']
        rw [hce]; exact hr
      · simp [clAt, List.getElem?_eq_getElem he1, hce]

/-! ### monotone ranges -/

/-- the clusters of `[s, e)` are non-decreasing or non-increasing -/
def MonoRange (l : List Info) (s e : Nat) : Prop :=
  (∀ i j x y, s ≤ i → i ≤ j → j < e → l[i]? = some x → l[j]? = some y → x.cluster ≤ y.cluster) ∨
  (∀ i j x y, s ≤ i → i ≤ j → j < e → l[i]? = some x → l[j]? = some y → y.cluster ≤ x.cluster)

/-- `c` is below every cluster of `[s, e)` -/
def LowerBound (l : List Info) (s e c : Nat) : Prop :=
  ∀ j x, s ≤ j → j < e → l[j]? = some x → c ≤ x.cluster

/-- on a monotone range with lower bound `c`, the window of `infosSetGlyphFlags_spec` misses no entry that differs from `c` -/
theorem window_exact {l : List Info} {s e c p q : Nat} (hmono : MonoRange l s e) (hlb : LowerBound l s e c)
    (hsp : s ≤ p) (hpq : p ≤ q) (hqe : q ≤ e) (he : e ≤ l.length)
    (hw : (p = s ∧ q = e) ∨
       (clAt l s = some c ∧ q = e ∧ (p = s ∨ (s < p ∧ clAt l (p - 1) = some c))) ∨
       (clAt l (e - 1) = some c ∧ p = s ∧ (q = e ∨ (q < e ∧ clAt l q = some c)))) :
    ∀ j x, s ≤ j → j < e → (j < p ∨ q ≤ j) → l[j]? = some x → neCl c x = false := by
  intro j x hsj hje hout hx
  rw [neCl_false_iff]
  have hge := hlb j x hsj hje hx
  have getc : ∀ k, k < e → clAt l k = some c → ∃ y, l[k]? = some y ∧ y.cluster = c := by
    intro k hk hc
    have hk' : k < l.length := by omega
    refine ⟨l[k], List.getElem?_eq_getElem hk', ?_⟩
    simp [clAt, List.getElem?_eq_getElem hk'] at hc
    exact hc
  rcases hw with ⟨h1, h2⟩ | ⟨hcs, h2, hp⟩ | ⟨hce, h1, hq⟩
  · omega
  · -- first entry has cluster c; entries below p
    subst h2
    have hjp : j < p := by omega
    rcases hp with hp | ⟨hsp', hpc⟩
    · omega
    · obtain ⟨y, hy, hyc⟩ := getc (p - 1) (by omega) hpc
      obtain ⟨a, ha, hac⟩ := getc s (by omega) hcs
      rcases hmono with hm | hm
      · have h3 : j ≤ p - 1 := by omega
        have h4 : p - 1 < q := by omega
        have := hm j (p - 1) x y hsj h3 h4 hx hy
        omega
      · have := hm s j a x (Nat.le_refl _) hsj hje ha hx
        omega
  · -- last entry has cluster c; entries from q on
    subst h1
    have hqj : q ≤ j := by omega
    rcases hq with hq | ⟨hq', hqc⟩
    · omega
    · obtain ⟨y, hy, hyc⟩ := getc q hq' hqc
      obtain ⟨z, hz, hzc⟩ := getc (e - 1) (by omega) hce
      rcases hmono with hm | hm
      · have h3 : j ≤ e - 1 := by omega
        have h4 : e - 1 < e := by omega
        have := hm j (e - 1) x z hsj h3 h4 hx hz
        omega
      · have h3 : p ≤ q := by omega
        have := hm q j y x h3 hqj hje hy hx
        omega

/-! ### `_infos_find_min_cluster` -/

/-- `r` is the minimum of `c0` and the clusters of `[s, e)` -/
def MinOf (l : List Info) (s e c0 r : Nat) : Prop :=
  r ≤ c0 ∧ LowerBound l s e r ∧ (r = c0 ∨ ∃ j x, s ≤ j ∧ j < e ∧ l[j]? = some x ∧ x.cluster = r)

theorem minClusterLoop_spec (l : List Info) : ∀ (k i c0 : Nat), i + k ≤ l.length →
    ∃ r, Buf.minClusterLoop l c0 i k = .ok r ∧ MinOf l i (i + k) c0 r := by
  intro k
  induction k with
  | zero =>
    intro i c0 _
    refine ⟨c0, rfl, Nat.le_refl _, ?_, Or.inl rfl⟩
    intro j x h1 h2; omega
  | succ k ih =>
    intro i c0 hb
    have hlt : i < l.length := by omega
    have hx : l[i]? = some l[i] := List.getElem?_eq_getElem hlt
    obtain ⟨r, hr, h1, h2, h3⟩ := ih (i + 1) (min c0 l[i].cluster) (by omega)
    refine ⟨r, ?_, by omega, ?_, ?_⟩
    · simp only [Buf.minClusterLoop, get_ok hlt, bind, Except.bind]
      exact hr
    · intro j x hj1 hj2 hjx
      by_cases hji : j = i
      · subst hji
        rw [hx] at hjx; cases hjx
        omega
      · exact h2 j x (by omega) (by omega) hjx
    · rcases h3 with h3 | ⟨j, x, hj1, hj2, hjx, hc⟩
      · by_cases hm : c0 ≤ l[i].cluster
        · left; omega
        · right; exact ⟨i, l[i], Nat.le_refl _, by omega, hx, by omega⟩
      · right; exact ⟨j, x, by omega, by omega, hjx, hc⟩

/-- `_infos_find_min_cluster` on a non-empty range: at level 1 (scan) and on every monotone range (the two ends are
    enough) the result is the minimum of `c0` and the range; in general it is `c0` or a cluster of the range. -/
theorem findMinCluster_spec (level : Nat) (l : List Info) (s e c0 : Nat) (hse : s < e) (he : e ≤ l.length) :
    ∃ r, Buf.findMinCluster level l s e c0 = .ok r ∧ r ≤ c0 ∧
      (r = c0 ∨ ∃ j x, s ≤ j ∧ j < e ∧ l[j]? = some x ∧ x.cluster = r) ∧
      ((level = 1 ∨ MonoRange l s e) → LowerBound l s e r) ∧
      (∀ x, l[s]? = some x → r ≤ x.cluster) := by
  have hs : s < l.length := by omega
  have he1 : e - 1 < l.length := by omega
  have hne : (s == e) = false := by simp; omega
  have he0 : ¬ e = 0 := by omega
  have hxs : l[s]? = some l[s] := List.getElem?_eq_getElem hs
  have hxe : l[e - 1]? = some l[e - 1] := List.getElem?_eq_getElem he1
  by_cases hl : level = 1
  · subst hl
    obtain ⟨r1, hr1, h1, h2, h3⟩ := minClusterLoop_spec l (e - s) s c0 (by omega)
    have hse' : s + (e - s) = e := by omega
    rw [hse'] at h2 h3
    have ha := h2 s l[s] (Nat.le_refl _) hse hxs
    have hz := h2 (e - 1) l[e - 1] (by omega) (by omega) hxe
    have hcond : (e < s || e > l.length) = false := by simp; omega
    refine ⟨r1, ?_, h1, h3, fun _ => h2, fun x hx => h2 s x (Nat.le_refl _) hse hx⟩
    simp only [Buf.findMinCluster, hne, Bool.false_eq_true, if_false, BEq.rfl, if_true, hcond, hr1, he0, get_ok hs,
      get_ok he1, bind, Except.bind, pure, Except.pure]
    congr 1
    omega
  · have hl' : (level == 1) = false := by simpa using hl
    refine ⟨min c0 (min l[s].cluster l[e - 1].cluster), ?_, by omega, ?_, ?_, ?_⟩
    rotate_left 3
    · intro x hx
      rw [hxs] at hx; cases hx
      omega
    · simp only [Buf.findMinCluster, hne, Bool.false_eq_true, if_false, hl', he0, get_ok hs, get_ok he1, bind,
        Except.bind, pure, Except.pure]
    · by_cases h1 : c0 ≤ min l[s].cluster l[e - 1].cluster
      · left; omega
      · right
        by_cases h2 : l[s].cluster ≤ l[e - 1].cluster
        · exact ⟨s, l[s], Nat.le_refl _, hse, hxs, by omega⟩
        · exact ⟨e - 1, l[e - 1], by omega, by omega, hxe, by omega⟩
    · intro hm
      rcases hm with hm | hm
      · exact absurd hm hl
      · intro j x hj1 hj2 hjx
        rcases hm with hm | hm
        · have := hm s j l[s] x (Nat.le_refl _) hj1 hj2 hxs hjx
          omega
        · have := hm j (e - 1) x l[e - 1] hj1 (by omega) (by omega) hjx hxe
          omega

/-! ### `_set_glyph_flags`, interior, inside the in-buffer (`unsafe_to_break`, `safe_to_insert_tatweel`) -/

/-- `m` is the smallest cluster of `[s, e)` -/
def IsRangeMin (l : List Info) (s e m : Nat) : Prop :=
  LowerBound l s e m ∧ ∃ j x, s ≤ j ∧ j < e ∧ l[j]? = some x ∧ x.cluster = m

theorem or_scratch (x : Nat) : (x ||| SCRATCH_HAS_GLYPH_FLAGS) ||| SCRATCH_HAS_GLYPH_FLAGS = x ||| SCRATCH_HAS_GLYPH_FLAGS := by
  rw [Nat.or_assoc, Nat.or_self]

/-- interior flagging of `[s, e)` with at least two entries: no panic; only `info` and the scratch flag change; a window
    `[p, q) ⊆ [s, e)` of entries whose cluster differs from a reference cluster `r` of the range gets `mask |= m`;
    `r` is the range minimum at level 1 and on monotone ranges, and then the window misses nothing. -/
theorem setGlyphFlags_interior_in (b : Buf) (mask s e : Nat) (hse : s + 2 ≤ e) (he : e ≤ b.len)
    (hlen : b.len ≤ b.info.length)
    (hu32 : ∀ j x, s ≤ j → j < e → b.info[j]? = some x → x.cluster ≤ U32MAX) :
    ∃ info r p q, b.setGlyphFlags mask s (some e) true false =
        .ok { b with info := info, scratch := b.scratch ||| SCRATCH_HAS_GLYPH_FLAGS } ∧
      s ≤ p ∧ p ≤ q ∧ q ≤ e ∧ Upd b.info info p q (neCl r) (orMask mask) ∧
      (∃ j x, s ≤ j ∧ j < e ∧ b.info[j]? = some x ∧ x.cluster = r) ∧
      ((b.level = 1 ∨ MonoRange b.info s e) → LowerBound b.info s e r) ∧
      (MonoRange b.info s e → Upd b.info info s e (neCl r) (orMask mask)) := by
  have hel : e ≤ b.info.length := by omega
  obtain ⟨r, hr, hr1, hr2, hr3, hr4⟩ := findMinCluster_spec b.level b.info s e U32MAX (by omega) hel
  obtain ⟨l', ch, p, q, hi, hp1, hp2, hp3, hu, hw⟩ := infosSetGlyphFlags_spec b.level b.info s e r mask (by omega) hel
  have hatt : ∃ j x, s ≤ j ∧ j < e ∧ b.info[j]? = some x ∧ x.cluster = r := by
    rcases hr2 with h | h
    · -- r = U32MAX: then the first entry (≤ U32MAX, ≥ r at ... ) — use the first entry directly
      have hs : s < b.info.length := by omega
      have hx : b.info[s]? = some b.info[s] := List.getElem?_eq_getElem hs
      have hle := hu32 s b.info[s] (Nat.le_refl _) (by omega) hx
      have hge := hr4 b.info[s] hx
      exact ⟨s, b.info[s], Nat.le_refl _, by omega, hx, by omega⟩
    · exact h
  refine ⟨l', r, p, q, ?_, hp1, hp2, hp3, hu, hatt, hr3, ?_⟩
  · have hmin : min e b.len = e := by omega
    have hc : (true && !false && decide (s ≤ e) && decide (e - s < 2)) = false := by
      simp; omega
    simp only [Buf.setGlyphFlags, Option.getD_some, hmin, hc, Bool.false_eq_true, if_false, Bool.not_false,
      Bool.true_or, if_true, Bool.not_true, hr, hi, bind, Except.bind, pure, Except.pure]
    cases ch with
    | true =>
      simp [Buf.addScratch, or_scratch]
      intro _ h; omega
    | false =>
      simp [Buf.addScratch]
      intro _ h; omega
  · intro hm
    exact Upd.widen hu hp1 hp3 (window_exact hm (hr3 (Or.inr hm)) hp1 hp2 hp3 hel hw)

/-! ### `propagate_flags` -/

/-- union of the defined flag bits of entries `i, …, i+k-1` -/
def orSpec (l : List Info) : Nat → Nat → Nat
  | _, 0 => 0
  | i, k + 1 => (match l[i]? with | some x => x.mask &&& Flag.DEFINED | none => 0) ||| orSpec l (i + 1) k

theorem orFlags_spec (l : List Info) : ∀ (k i acc : Nat), i + k ≤ l.length →
    orFlags l acc i k = .ok (acc ||| orSpec l i k) := by
  intro k
  induction k with
  | zero => intro i acc _; simp [orFlags, orSpec]; rfl
  | succ k ih =>
    intro i acc hb
    have hlt : i < l.length := by omega
    simp only [orFlags, get_ok hlt, bind, Except.bind, orSpec, List.getElem?_eq_getElem hlt]
    rw [ih (i + 1) _ (by omega), Nat.or_assoc]

theorem orSpec_lt8 (l : List Info) : ∀ (k i : Nat), orSpec l i k < 8 := by
  intro k
  induction k with
  | zero => intro i; simp [orSpec]
  | succ k ih =>
    intro i
    simp only [orSpec]
    apply or_lt8 _ (ih (i + 1))
    cases l[i]? with
    | none => simp
    | some x => exact and7_lt x.mask

theorem orSpec_congr {l1 l2 : List Info} : ∀ (k i : Nat), (∀ j, i ≤ j → j < i + k → l1[j]? = l2[j]?) →
    orSpec l1 i k = orSpec l2 i k := by
  intro k
  induction k with
  | zero => intro i _; rfl
  | succ k ih =>
    intro i h
    simp only [orSpec]
    rw [h i (Nat.le_refl _) (by omega), ih (i + 1) (fun j h1 h2 => h j (by omega) (by omega))]

/-- a defined flag bit is in the union iff one of the entries has it -/
theorem orSpec_bit (l : List Info) (bit : Nat) (hb : 7 &&& bit = bit) : ∀ (k i : Nat),
    orSpec l i k &&& bit ≠ 0 ↔ ∃ j x, i ≤ j ∧ j < i + k ∧ l[j]? = some x ∧ x.mask &&& bit ≠ 0 := by
  intro k
  induction k with
  | zero =>
    intro i
    simp only [orSpec, Nat.zero_and, ne_eq, not_true_eq_false, false_iff]
    rintro ⟨j, x, h1, h2, _⟩; omega
  | succ k ih =>
    intro i
    simp only [orSpec]
    rw [or_and_ne_zero, ih (i + 1)]
    constructor
    · rintro (h | ⟨j, x, h1, h2, h3, h4⟩)
      · cases hx : l[i]? with
        | none => simp [hx] at h
        | some x =>
          simp only [hx] at h
          refine ⟨i, x, Nat.le_refl _, by omega, hx, ?_⟩
          have : (x.mask &&& Flag.DEFINED) &&& bit = x.mask &&& bit := and7_and x.mask bit hb
          rw [← this]; exact h
      · exact ⟨j, x, by omega, by omega, h3, h4⟩
    · rintro ⟨j, x, h1, h2, h3, h4⟩
      by_cases hji : j = i
      · subst hji
        left
        simp only [h3]
        have : (x.mask &&& Flag.DEFINED) &&& bit = x.mask &&& bit := and7_and x.mask bit hb
        rw [this]; exact h4
      · right; exact ⟨j, x, by omega, by omega, h3, h4⟩

/-- `info.mask = mask` on `[i, i+k)` -/
theorem writeMask_spec (m : Nat) : ∀ (k : Nat) (l : List Info) (i : Nat), i + k ≤ l.length →
    ∃ l', writeMask l m i k = .ok l' ∧ Upd l l' i (i + k) (fun _ => true) (fun x => { x with mask := m }) := by
  intro k
  induction k with
  | zero => intro l i _; exact ⟨l, rfl, Upd.empty l i _ _⟩
  | succ k ih =>
    intro l i hb
    have hlt : i < l.length := by omega
    have hx : l[i]? = some l[i] := List.getElem?_eq_getElem hlt
    obtain ⟨l', hr, hu⟩ := ih (l.set i { l[i] with mask := m }) (i + 1) (by simp; omega)
    refine ⟨l', ?_, ?_⟩
    · simp only [writeMask, get_ok hlt, bind, Except.bind]
      exact hr
    · have : i + (k + 1) = i + 1 + k := by omega
      rw [this]
      apply Upd.cons_front hx hlt (by omega)
      simp only [if_true]
      exact hu

/-- `group_end`'s loop: extends `e` over the entries that continue the cluster of their predecessor -/
theorem extendEnd_spec (l : List Info) (len : Nat) (hlen : len ≤ l.length) : ∀ (fuel e : Nat), 1 ≤ e → e ≤ len →
    len - e ≤ fuel →
    ∃ e', Buf.extendEnd l len e fuel = .ok e' ∧ e ≤ e' ∧ e' ≤ len ∧
      (∀ j, e ≤ j → j < e' → clAt l j = clAt l (j - 1)) ∧ (e' = len ∨ clAt l e' ≠ clAt l (e' - 1)) := by
  intro fuel
  induction fuel with
  | zero =>
    intro e h1 h2 h3
    have : e = len := by omega
    subst this
    refine ⟨e, by cases e <;> rfl, Nat.le_refl _, Nat.le_refl _, ?_, Or.inl rfl⟩
    intro j _ _; omega
  | succ fuel ih =>
    intro e h1 h2 h3
    by_cases he : e < len
    · have hlt1 : e - 1 < l.length := by omega
      have hlt : e < l.length := by omega
      have he0 : ¬ e = 0 := by omega
      by_cases hc : (l[e - 1].cluster == l[e].cluster) = true
      · obtain ⟨e', hr, g1, g2, g3, g4⟩ := ih (e + 1) (by omega) (by omega) (by omega)
        refine ⟨e', ?_, by omega, g2, ?_, g4⟩
        · simp only [Buf.extendEnd, he, if_true, he0, if_false, get_ok hlt1, get_ok hlt, bind, Except.bind, hc]
          exact hr
        · intro j hj1 hj2
          by_cases hje : j = e
          · subst hje
            have := beq_iff_eq.mp hc
            simp [clAt, List.getElem?_eq_getElem hlt1, List.getElem?_eq_getElem hlt, this]
          · exact g3 j (by omega) hj2
      · have hc' : (l[e - 1].cluster == l[e].cluster) = false := by simpa using hc
        refine ⟨e, ?_, Nat.le_refl _, h2, ?_, Or.inr ?_⟩
        · simp only [Buf.extendEnd, he, if_true, he0, if_false, get_ok hlt1, get_ok hlt, bind, Except.bind, hc',
            Bool.false_eq_true]
          rfl
        · intro j _ _; omega
        · have : ¬ l[e - 1].cluster = l[e].cluster := by simpa using hc'
          simp [clAt, List.getElem?_eq_getElem hlt1, List.getElem?_eq_getElem hlt]
          exact fun h => this h.symm
    · have : e = len := by omega
      subst this
      refine ⟨e, ?_, Nat.le_refl _, Nat.le_refl _, ?_, Or.inl rfl⟩
      · simp only [Buf.extendEnd, he, if_false]
        rfl
      · intro j _ _; omega

/-- `group_end(start)` for `start < len`: the end of the run of equal clusters that starts at `start` -/
theorem groupEnd_spec (l : List Info) (len start : Nat) (hlen : len ≤ l.length) (hs : start < len) :
    ∃ e, groupEnd l len start = .ok e ∧ start < e ∧ e ≤ len ∧
      (∀ j, start ≤ j → j < e → clAt l j = clAt l start) ∧ (e = len ∨ clAt l e ≠ clAt l start) := by
  obtain ⟨e, hr, h1, h2, h3, h4⟩ := extendEnd_spec l len hlen (len - start) (start + 1) (by omega) (by omega) (by omega)
  have hall : ∀ n j, j = start + n → j < e → clAt l j = clAt l start := by
    intro n
    induction n with
    | zero => intro j hj _; subst hj; rfl
    | succ n ih =>
      intro j hj hje
      rw [h3 j (by omega) hje]
      exact ih (j - 1) (by omega) (by omega)
  refine ⟨e, hr, by omega, h2, fun j hj1 hj2 => hall (j - start) j (by omega) hj2, ?_⟩
  rcases h4 with h4 | h4
  · exact Or.inl h4
  · right
    rw [← hall (e - 1 - start) (e - 1) (by omega) (by omega)]
    exact h4

theorem groupEnd_at_len (l : List Info) (len : Nat) : groupEnd l len len = .ok (len + 1) := by
  simp [groupEnd, Buf.extendEnd]
  rfl

theorem clusterLoop_done (len : Nat) (flip clear : Bool) (l : List Info) (start stop fuel : Nat) (h : len ≤ start) :
    clusterLoop len flip clear l start stop fuel = .ok l := by
  cases fuel with
  | zero => rfl
  | succ f =>
    have : ¬ start < len := by omega
    simp only [clusterLoop, this, if_false]
    rfl

/-- what `propagate_flags` leaves on one cluster run `[s, e)`: a maximal run of equal clusters of the original buffer
    whose glyphs all got the same mask `W (union of the run's flag bits)` -/
def RunDone (l l' : List Info) (len : Nat) (W : Nat → Nat) (s e : Nat) : Prop :=
  s < e ∧ e ≤ len ∧ (∀ j, s ≤ j → j < e → clAt l j = clAt l s) ∧ (s = 0 ∨ clAt l (s - 1) ≠ clAt l s) ∧
  (e = len ∨ clAt l e ≠ clAt l s) ∧
  ∀ j, s ≤ j → j < e → ∃ x, l[j]? = some x ∧ l'[j]? = some { x with mask := W (orSpec l s (e - s)) }

theorem RunDone.congr {l1 l l' : List Info} {len s e : Nat} {W : Nat → Nat}
    (hcl : ∀ j, clAt l1 j = clAt l j) (heq : ∀ j, s ≤ j → l1[j]? = l[j]?) (h : RunDone l1 l' len W s e) :
    RunDone l l' len W s e := by
  obtain ⟨h1, h2, h3, h4, h5, h6⟩ := h
  refine ⟨h1, h2, ?_, ?_, ?_, ?_⟩
  · intro j a b; rw [← hcl, ← hcl]; exact h3 j a b
  · rcases h4 with h4 | h4
    · exact Or.inl h4
    · right; rw [← hcl, ← hcl]; exact h4
  · rcases h5 with h5 | h5
    · exact Or.inl h5
    · right; rw [← hcl, ← hcl]; exact h5
  · intro j a b
    obtain ⟨x, hx, hx'⟩ := h6 j a b
    refine ⟨x, by rw [← heq j a]; exact hx, ?_⟩
    rw [← orSpec_congr (e - s) s (fun j h1 _ => heq j h1)]
    exact hx'

/-- the cluster loop of `propagate_flags` (write-back outside the `if clear_concat`, as in the repaired source): every glyph
    of `[start, len)` ends up in a finished run; nothing else is touched. -/
theorem clusterLoop_spec (len : Nat) (flip clear : Bool) (hg : Gen.Flags.propagateWriteBackGuarded = false) :
    ∀ (fuel : Nat) (l : List Info) (start stop : Nat), len ≤ l.length → start < len → len - start ≤ fuel →
      start < stop → stop ≤ len → (∀ j, start ≤ j → j < stop → clAt l j = clAt l start) →
      (stop = len ∨ clAt l stop ≠ clAt l start) → (start = 0 ∨ clAt l (start - 1) ≠ clAt l start) →
      ∃ l', clusterLoop len flip clear l start stop fuel = .ok l' ∧ SameButMasks l l' ∧
        (∀ j, j < start ∨ len ≤ j → l'[j]? = l[j]?) ∧
        ∀ i, start ≤ i → i < len →
          ∃ s e, start ≤ s ∧ s ≤ i ∧ i < e ∧ RunDone l l' len (reconcile flip clear) s e := by
  intro fuel
  induction fuel with
  | zero => intro l start stop _ h1 h2; omega
  | succ fuel ih =>
    intro l start stop hlen hs hfuel hss hsl hsame hright hleft
    have hor := orFlags_spec l (stop - start) start 0 (by omega)
    rw [Nat.zero_or] at hor
    obtain ⟨l1, hw, hu⟩ := writeMask_spec (reconcile flip clear (orSpec l start (stop - start))) (stop - start) l start
      (by omega)
    have hse : start + (stop - start) = stop := by omega
    rw [hse] at hu
    have hsb1 : SameButMasks l l1 := Upd.sameButMasks hu (fun _ => rfl)
    have hcl1 : ∀ j, clAt l1 j = clAt l j := hsb1.clAt
    have hout1 : ∀ j, j < start ∨ stop ≤ j → l1[j]? = l[j]? := by
      intro j hj
      rw [hu.2 j]
      cases hy : l[j]? with
      | none => simp
      | some y =>
        have : ¬ (start ≤ j ∧ j < stop ∧ True) := by omega
        simp only [Option.map_some]
        rw [if_neg this]
    have hin1 : ∀ j, start ≤ j → j < stop → ∃ x, l[j]? = some x ∧
        l1[j]? = some { x with mask := reconcile flip clear (orSpec l start (stop - start)) } := by
      intro j a b
      have hj : j < l.length := by omega
      refine ⟨l[j], List.getElem?_eq_getElem hj, ?_⟩
      rw [hu.2 j, List.getElem?_eq_getElem hj]
      have : start ≤ j ∧ j < stop ∧ true = true := ⟨a, b, rfl⟩
      simp [this]
    have hcond : (clear || !Gen.Flags.propagateWriteBackGuarded) = true := by simp [hg]
    have hrun0 : RunDone l l1 len (reconcile flip clear) start stop :=
      ⟨hss, hsl, hsame, hleft, hright, hin1⟩
    by_cases hstop : stop = len
    · -- last run
      refine ⟨l1, ?_, hsb1, ?_, ?_⟩
      · subst hstop
        simp only [clusterLoop, hs, if_true, hor, hcond, hw, bind, Except.bind, groupEnd_at_len]
        exact clusterLoop_done _ flip clear l1 _ _ fuel (Nat.le_refl _)
      · intro j hj; exact hout1 j (by omega)
      · intro i hi1 hi2
        exact ⟨start, stop, Nat.le_refl _, hi1, by omega, hrun0⟩
    · have hstl : stop < len := by omega
      obtain ⟨stop', hge, g1, g2, g3, g4⟩ := groupEnd_spec l1 len stop (by rw [hsb1.1]; exact hlen) hstl
      have hleft' : stop = 0 ∨ clAt l1 (stop - 1) ≠ clAt l1 stop := by
        right
        rw [hcl1, hcl1, hsame (stop - 1) (by omega) (by omega)]
        rcases hright with h | h
        · exact absurd h hstop
        · exact fun e => h e.symm
      obtain ⟨l', hr, hsb2, hfr, hruns⟩ := ih l1 stop stop' (by rw [hsb1.1]; exact hlen) hstl (by omega) g1 g2 g3 g4 hleft'
      refine ⟨l', ?_, hsb1.trans hsb2, ?_, ?_⟩
      · simp only [clusterLoop, hs, if_true, hor, hcond, hw, hge, bind, Except.bind]
        exact hr
      · intro j hj
        rw [hfr j (by omega), hout1 j (by omega)]
      · intro i hi1 hi2
        by_cases hi : i < stop
        · refine ⟨start, stop, Nat.le_refl _, hi1, hi, ?_⟩
          obtain ⟨a1, a2, a3, a4, a5, a6⟩ := hrun0
          refine ⟨a1, a2, a3, a4, a5, ?_⟩
          intro j b1 b2
          obtain ⟨x, hx, hx1⟩ := a6 j b1 b2
          exact ⟨x, hx, by rw [hfr j (Or.inl b2)]; exact hx1⟩
        · obtain ⟨s, e, c1, c2, c3, c4⟩ := hruns i (by omega) hi2
          refine ⟨s, e, by omega, c2, c3, ?_⟩
          exact RunDone.congr hcl1 (fun j hj => hout1 j (by omega)) c4

/-- `propagate_flags` when it runs (scratch flag set): only masks change, nothing beyond `len` is touched, and every glyph
    lies in a finished cluster run. -/
theorem propagateFlags_spec (b : Buf) (hg : Gen.Flags.propagateWriteBackGuarded = false)
    (hlen : b.len ≤ b.info.length) (hsc : b.scratch &&& SCRATCH_HAS_GLYPH_FLAGS ≠ 0) :
    ∃ info, propagateFlags b = .ok { b with info := info } ∧ SameButMasks b.info info ∧
      (∀ j, b.len ≤ j → info[j]? = b.info[j]?) ∧
      ∀ i, i < b.len → ∃ s e, s ≤ i ∧ i < e ∧
        RunDone b.info info b.len
          (reconcile (contains b.flags Gen.Buf.produceSafeToInsertTatweel) (!contains b.flags Gen.Buf.produceUnsafeToConcat)) s e := by
  have hsc' : (b.scratch &&& SCRATCH_HAS_GLYPH_FLAGS == 0) = false := by simpa using hsc
  by_cases h0 : b.len = 0
  · refine ⟨b.info, ?_, SameButMasks.refl _, fun _ _ => rfl, ?_⟩
    · simp only [propagateFlags, hsc', Bool.false_eq_true, if_false, h0, Nat.lt_irrefl, decide_false, bind, Except.bind,
        pure, Except.pure, clusterLoop, gt_iff_lt]
    · intro i hi; omega
  · have hpos : b.len > 0 := by omega
    obtain ⟨stop, hge, g1, g2, g3, g4⟩ := groupEnd_spec b.info b.len 0 hlen hpos
    obtain ⟨l', hr, hsb, hfr, hruns⟩ := clusterLoop_spec b.len (contains b.flags Gen.Buf.produceSafeToInsertTatweel)
      (!contains b.flags Gen.Buf.produceUnsafeToConcat) hg b.len b.info 0 stop hlen hpos (by omega) g1 g2 g3 g4 (Or.inl rfl)
    refine ⟨l', ?_, hsb, fun j hj => hfr j (Or.inr hj), ?_⟩
    · simp only [propagateFlags, hsc', Bool.false_eq_true, if_false, hpos, decide_true, if_true, hge, hr, bind, Except.bind,
        pure, Except.pure, gt_iff_lt]
    · intro i hi
      obtain ⟨s, e, _, c2, c3, c4⟩ := hruns i (Nat.zero_le _) hi
      exact ⟨s, e, c2, c3, c4⟩

theorem propagateFlags_skip (b : Buf) (hsc : b.scratch &&& SCRATCH_HAS_GLYPH_FLAGS = 0) : propagateFlags b = .ok b := by
  have : (b.scratch &&& SCRATCH_HAS_GLYPH_FLAGS == 0) = true := by simpa using hsc
  simp only [propagateFlags, this, if_true]
  rfl

/-! ### reconcile on a union of defined bits (all 8 values × the settings, by evaluation) and exposed bits -/

theorem rec_lt8 : ∀ m, m < 8 → ∀ flip clear : Bool, reconcile flip clear m < 8 := by decide

theorem rec_break_concat : ∀ m, m < 8 → ∀ flip : Bool, (m &&& 1 ≠ 0 → m &&& 2 ≠ 0) →
    (reconcile flip false m &&& 1 ≠ 0 → reconcile flip false m &&& 2 ≠ 0) := by decide

theorem rec_no_concat : ∀ m, m < 8 → ∀ flip : Bool, reconcile flip true m &&& 2 = 0 := by decide

theorem rec_no_tatweel : ∀ m, m < 8 → ∀ flip clear : Bool, m &&& 4 = 0 → reconcile flip clear m &&& 4 = 0 := by decide

theorem rec_break_iff : ∀ m, m < 8 → ∀ flip clear : Bool,
    (reconcile flip clear m &&& 1 ≠ 0 ↔ (m &&& 1 ≠ 0 ∨ (flip = true ∧ m &&& 4 ≠ 0))) := by decide

theorem exposed_bit (x : Info) (bit : Nat) (hb : 7 &&& bit = bit) : exposed x &&& bit = x.mask &&& bit := by
  unfold exposed Flag.DEFINED
  exact and7_and x.mask bit hb

/-! ### the same specs with possibly empty ranges (the two-sided `_set_glyph_flags`) -/

theorem findMinCluster_any (level : Nat) (l : List Info) (s e c0 : Nat) (hse : s ≤ e) (he : e ≤ l.length) :
    ∃ r, Buf.findMinCluster level l s e c0 = .ok r ∧ r ≤ c0 ∧
      (r = c0 ∨ ∃ j x, s ≤ j ∧ j < e ∧ l[j]? = some x ∧ x.cluster = r) ∧
      ((level = 1 ∨ MonoRange l s e) → LowerBound l s e r) := by
  by_cases h : s = e
  · subst h
    refine ⟨c0, ?_, Nat.le_refl _, Or.inl rfl, fun _ j x h1 h2 _ => by omega⟩
    simp [Buf.findMinCluster]; rfl
  · obtain ⟨r, h1, h2, h3, h4, _⟩ := findMinCluster_spec level l s e c0 (by omega) he
    exact ⟨r, h1, h2, h3, h4⟩

theorem infosSetGlyphFlags_any (level : Nat) (l : List Info) (s e c mask : Nat) (hse : s ≤ e) (he : e ≤ l.length) :
    ∃ l' ch p q, Buf.infosSetGlyphFlags level l s e c mask = .ok (l', ch) ∧ s ≤ p ∧ p ≤ q ∧ q ≤ e ∧
      Upd l l' p q (neCl c) (orMask mask) ∧
      (MonoRange l s e → LowerBound l s e c → Upd l l' s e (neCl c) (orMask mask)) := by
  by_cases h : s = e
  · subst h
    refine ⟨l, false, s, s, ?_, Nat.le_refl _, Nat.le_refl _, Nat.le_refl _, Upd.empty l s _ _, fun _ _ => Upd.empty l s _ _⟩
    simp [Buf.infosSetGlyphFlags]; rfl
  · obtain ⟨l', ch, p, q, h1, h2, h3, h4, h5, h6⟩ := infosSetGlyphFlags_spec level l s e c mask (by omega) he
    exact ⟨l', ch, p, q, h1, h2, h3, h4, h5,
      fun hm hlb => Upd.widen h5 h2 h4 (window_exact hm hlb h2 h3 h4 he h6)⟩

theorem MonoRange.of_sameButMasks {l l' : List Info} {s e : Nat} (h : SameButMasks l l') (hm : MonoRange l s e) :
    MonoRange l' s e := by
  have key : ∀ (j : Nat) (x' : Info), l'[j]? = some x' → ∃ x : Info, l[j]? = some x ∧ x.cluster = x'.cluster := by
    intro j x' hx'
    obtain ⟨x, hx, e⟩ := h.2 j x' hx'
    exact ⟨x, hx, by rw [e]⟩
  rcases hm with hm | hm
  · left
    intro i j x y a b c hx hy
    obtain ⟨x0, hx0, ex⟩ := key i x hx
    obtain ⟨y0, hy0, ey⟩ := key j y hy
    rw [← ex, ← ey]; exact hm i j x0 y0 a b c hx0 hy0
  · right
    intro i j x y a b c hx hy
    obtain ⟨x0, hx0, ex⟩ := key i x hx
    obtain ⟨y0, hy0, ey⟩ := key j y hy
    rw [← ex, ← ey]; exact hm i j x0 y0 a b c hx0 hy0

theorem LowerBound.of_sameButMasks {l l' : List Info} {s e c : Nat} (h : SameButMasks l l') (hb : LowerBound l s e c) :
    LowerBound l' s e c := by
  intro j x' a b hx'
  obtain ⟨x, hx, e⟩ := h.2 j x' hx'
  have := hb j x a b hx
  rw [e]; exact this

/-- two-sided interior flagging (`unsafe_to_break_from_outbuffer`): the range is `out[s, outLen)` followed by `info[idx, e)`;
    one reference cluster `r` for both parts; the out part is flagged first (in shared-output mode inside `info`), then the
    in part. -/
theorem setGlyphFlags_interior_out (b : Buf) (mask s e : Nat) (hho : b.haveOutput = true) (hs : s ≤ b.outLen)
    (hol : b.outLen ≤ b.outArr.length) (hie : b.idx ≤ e) (he : e ≤ b.len) (hlen : b.len ≤ b.info.length)
    (hu1 : ∀ j x, s ≤ j → j < b.outLen → b.outArr[j]? = some x → x.cluster ≤ U32MAX)
    (hu2 : ∀ j x, b.idx ≤ j → j < e → b.info[j]? = some x → x.cluster ≤ U32MAX)
    (hne : s < b.outLen ∨ b.idx < e) :
    ∃ b' r o1 p1 q1 p2 q2, b.setGlyphFlags mask s (some e) true true = .ok b' ∧
      s ≤ p1 ∧ q1 ≤ b.outLen ∧ Upd b.outArr o1 p1 q1 (neCl r) (orMask mask) ∧
      b.idx ≤ p2 ∧ q2 ≤ e ∧ Upd (if b.sepOut then b.info else o1) b'.info p2 q2 (neCl r) (orMask mask) ∧
      b'.out = (if b.sepOut then o1 else b.out) ∧
      b' = { b with info := b'.info, out := b'.out, scratch := b.scratch ||| SCRATCH_HAS_GLYPH_FLAGS } ∧
      ((∃ j x, s ≤ j ∧ j < b.outLen ∧ b.outArr[j]? = some x ∧ x.cluster = r) ∨
       (∃ j x, b.idx ≤ j ∧ j < e ∧ b.info[j]? = some x ∧ x.cluster = r)) ∧
      ((b.level = 1 ∨ (MonoRange b.outArr s b.outLen ∧ MonoRange b.info b.idx e)) →
        LowerBound b.outArr s b.outLen r ∧ LowerBound b.info b.idx e r) ∧
      (MonoRange b.outArr s b.outLen → MonoRange b.info b.idx e →
        Upd b.outArr o1 s b.outLen (neCl r) (orMask mask) ∧
        Upd (if b.sepOut then b.info else o1) b'.info b.idx e (neCl r) (orMask mask)) := by
  have hel : e ≤ b.info.length := by omega
  obtain ⟨r1, hr1, a1, a2, a3⟩ := findMinCluster_any b.level b.info b.idx e U32MAX hie hel
  obtain ⟨r, hr, c1, c2, c3⟩ := findMinCluster_any b.level b.outArr s b.outLen r1 hs hol
  obtain ⟨o1, ch1, p1, q1, hi1, d1, d2, d3, d4, d5⟩ := infosSetGlyphFlags_any b.level b.outArr s b.outLen r mask hs hol
  have hsb1 : SameButMasks b.outArr o1 := Upd.sameButMasks d4 (orMask_eq mask)
  -- the list the second call works on
  have hI1len : e ≤ (if b.sepOut then b.info else o1).length := by
    cases hso : b.sepOut with
    | true => simp; exact hel
    | false =>
      simp
      have : b.outArr = b.info := by simp [Buf.outArr, hso]
      rw [hsb1.1, this]; exact hel
  have hsbI : SameButMasks b.info (if b.sepOut then b.info else o1) := by
    cases hso : b.sepOut with
    | true => simp; exact SameButMasks.refl _
    | false =>
      simp
      have : b.outArr = b.info := by simp [Buf.outArr, hso]
      rw [this] at hsb1; exact hsb1
  obtain ⟨info, ch2, p2, q2, hi2, e1, e2, e3, e4, e5⟩ :=
    infosSetGlyphFlags_any b.level (if b.sepOut then b.info else o1) b.idx e r mask hie hI1len
  have hmin : min e b.len = e := by omega
  refine ⟨{ b with info := info, out := if b.sepOut then o1 else b.out, scratch := b.scratch ||| SCRATCH_HAS_GLYPH_FLAGS },
    r, o1, p1, q1, p2, q2, ?_, d1, d3, d4, e1, e3, e4, rfl, rfl, ?_, ?_, ?_⟩
  · have g1 : ¬ s > b.outLen := by omega
    have g2 : ¬ b.idx > e := by omega
    cases hso : b.sepOut with
    | true =>
      simp only [hso, if_true] at hi2
      have ho : b.outArr = b.out := by simp [Buf.outArr, hso]
      rw [ho] at hr hi1
      cases ch1 <;> cases ch2 <;>
        simp [Buf.setGlyphFlags, hmin, hho, g1, g2, hr1, hr, hi1, hi2, bind, Except.bind, pure, Except.pure, Buf.addScratch,
          Buf.setOutArr, Buf.outArr, hso, or_scratch]
    | false =>
      simp only [hso, Bool.false_eq_true, if_false] at hi2
      have ho : b.outArr = b.info := by simp [Buf.outArr, hso]
      rw [ho] at hr hi1
      cases ch1 <;> cases ch2 <;>
        simp [Buf.setGlyphFlags, hmin, hho, g1, g2, hr1, hr, hi1, hi2, bind, Except.bind, pure, Except.pure, Buf.addScratch,
          Buf.setOutArr, Buf.outArr, hso, or_scratch]
  · -- r is attained in one of the two parts
    rcases c2 with c2 | c2
    · rcases a2 with a2 | a2
      · -- r = r1 = U32MAX: any entry of a non-empty part has cluster ≤ U32MAX … and ≥ r only under a bound; use min-with-ends
        -- both findMinCluster calls return ≤ the first entry of a non-empty part
        rcases hne with hne | hne
        · left
          obtain ⟨r', hr', _, _, _, b4⟩ := findMinCluster_spec b.level b.outArr s b.outLen r1 hne hol
          rw [hr] at hr'; cases hr'
          have hlt : s < b.outArr.length := by omega
          have hx := List.getElem?_eq_getElem hlt
          have := b4 _ hx
          have := hu1 s _ (Nat.le_refl _) hne hx
          exact ⟨s, _, Nat.le_refl _, hne, hx, by omega⟩
        · right
          obtain ⟨r', hr', _, _, _, b4⟩ := findMinCluster_spec b.level b.info b.idx e U32MAX hne hel
          rw [hr1] at hr'; cases hr'
          have hlt : b.idx < b.info.length := by omega
          have hx := List.getElem?_eq_getElem hlt
          have := b4 _ hx
          have := hu2 b.idx _ (Nat.le_refl _) hne hx
          exact ⟨b.idx, _, Nat.le_refl _, hne, hx, by omega⟩
      · right; rw [c2]; exact a2
    · left; exact c2
  · intro hm
    have hm1 : b.level = 1 ∨ MonoRange b.outArr s b.outLen := by
      rcases hm with h | h
      · exact Or.inl h
      · exact Or.inr h.1
    have hm2 : b.level = 1 ∨ MonoRange b.info b.idx e := by
      rcases hm with h | h
      · exact Or.inl h
      · exact Or.inr h.2
    refine ⟨c3 hm1, ?_⟩
    intro j x h1 h2 hx
    have := a3 hm2 j x h1 h2 hx
    omega
  · intro hmo hmi
    have lb1 := c3 (Or.inr hmo)
    have lb2 : LowerBound b.info b.idx e r := by
      intro j x h1 h2 hx
      have := a3 (Or.inr hmi) j x h1 h2 hx
      omega
    exact ⟨d5 hmo lb1, e5 (MonoRange.of_sameButMasks hsbI hmi) (LowerBound.of_sameButMasks hsbI lb2)⟩

/-! ### non-interior flagging (`unsafe_to_concat*`) and what all setters preserve -/

theorem orMaskRange_spec (m : Nat) : ∀ (k : Nat) (l : List Info) (i : Nat), i + k ≤ l.length →
    ∃ l', Buf.orMaskRange l m i k = .ok l' ∧ Upd l l' i (i + k) (fun _ => true) (orMask m) := by
  intro k
  induction k with
  | zero => intro l i _; exact ⟨l, rfl, Upd.empty l i _ _⟩
  | succ k ih =>
    intro l i hb
    have hlt : i < l.length := by omega
    have hx : l[i]? = some l[i] := List.getElem?_eq_getElem hlt
    obtain ⟨l', hr, hu⟩ := ih (l.set i (orMask m l[i])) (i + 1) (by simp; omega)
    refine ⟨l', ?_, ?_⟩
    · simp only [Buf.orMaskRange, get_ok hlt, bind, Except.bind]
      exact hr
    · have : i + (k + 1) = i + 1 + k := by omega
      rw [this]
      apply Upd.cons_front hx hlt (by omega)
      simp only [if_true]
      exact hu

/-- `_set_glyph_flags(mask, s, e, interior = false, from_out_buffer = false)`: every entry of `[s, e)` gets `mask |= m` -/
theorem setGlyphFlags_plain_in (b : Buf) (mask s e : Nat) (hse : s ≤ e) (he : e ≤ b.len) (hlen : b.len ≤ b.info.length) :
    ∃ info, b.setGlyphFlags mask s (some e) false false =
        .ok { b with info := info, scratch := b.scratch ||| SCRATCH_HAS_GLYPH_FLAGS } ∧
      Upd b.info info s e (fun _ => true) (orMask mask) := by
  obtain ⟨info, hr, hu⟩ := orMaskRange_spec mask (e - s) b.info s (by omega)
  have : s + (e - s) = e := by omega
  rw [this] at hu
  have hmin : min e b.len = e := by omega
  refine ⟨info, ?_, hu⟩
  simp [Buf.setGlyphFlags, hmin, hr, bind, Except.bind, pure, Except.pure]

/-- `_set_glyph_flags(mask, s, e, interior = false, from_out_buffer = true)` with an out-buffer -/
theorem setGlyphFlags_plain_out (b : Buf) (mask s e : Nat) (hho : b.haveOutput = true) (hs : s ≤ b.outLen)
    (hol : b.outLen ≤ b.outArr.length) (hie : b.idx ≤ e) (he : e ≤ b.len) (hlen : b.len ≤ b.info.length) :
    ∃ b' o1, b.setGlyphFlags mask s (some e) false true = .ok b' ∧
      Upd b.outArr o1 s b.outLen (fun _ => true) (orMask mask) ∧
      Upd (if b.sepOut then b.info else o1) b'.info b.idx e (fun _ => true) (orMask mask) ∧
      b'.out = (if b.sepOut then o1 else b.out) ∧
      b' = { b with info := b'.info, out := b'.out, scratch := b.scratch ||| SCRATCH_HAS_GLYPH_FLAGS } := by
  obtain ⟨o1, hr1, hu1⟩ := orMaskRange_spec mask (b.outLen - s) b.outArr s (by omega)
  have e1 : s + (b.outLen - s) = b.outLen := by omega
  rw [e1] at hu1
  have hI1len : b.idx + (e - b.idx) ≤ (if b.sepOut then b.info else o1).length := by
    cases hso : b.sepOut with
    | true => simp; omega
    | false =>
      simp
      have : b.outArr = b.info := by simp [Buf.outArr, hso]
      rw [hu1.1, this]; omega
  obtain ⟨info, hr2, hu2⟩ := orMaskRange_spec mask (e - b.idx) (if b.sepOut then b.info else o1) b.idx hI1len
  have e2 : b.idx + (e - b.idx) = e := by omega
  rw [e2] at hu2
  have hmin : min e b.len = e := by omega
  have g1 : ¬ s > b.outLen := by omega
  have g2 : ¬ b.idx > e := by omega
  refine ⟨{ b with info := info, out := if b.sepOut then o1 else b.out, scratch := b.scratch ||| SCRATCH_HAS_GLYPH_FLAGS },
    o1, ?_, hu1, hu2, rfl, rfl⟩
  cases hso : b.sepOut with
  | true =>
    simp only [hso, if_true] at hr2
    have ho : b.outArr = b.out := by simp [Buf.outArr, hso]
    rw [ho] at hr1
    simp [Buf.setGlyphFlags, hmin, hho, g1, g2, hr1, hr2, bind, Except.bind, pure, Except.pure, Buf.setOutArr, Buf.outArr, hso]
  | false =>
    simp only [hso, Bool.false_eq_true, if_false] at hr2
    have ho : b.outArr = b.info := by simp [Buf.outArr, hso]
    rw [ho] at hr1
    simp [Buf.setGlyphFlags, hmin, hho, g1, g2, hr1, hr2, bind, Except.bind, pure, Except.pure, Buf.setOutArr, Buf.outArr, hso]

/-- every mask of the list satisfies `P` -/
def AllMask (P : Nat → Prop) (l : List Info) : Prop := ∀ (j : Nat) (x : Info), l[j]? = some x → P x.mask

theorem Upd.allMask {l l' : List Info} {p q m : Nat} {test : Info → Bool} {P : Nat → Prop}
    (h : Upd l l' p q test (orMask m)) (hP : ∀ a, P a → P (a ||| m)) (hl : AllMask P l) : AllMask P l' := by
  intro j x' hx'
  rw [h.2 j] at hx'
  cases hy : l[j]? with
  | none => simp [hy] at hx'
  | some y =>
    simp only [hy, Option.map_some, Option.some.injEq] at hx'
    have hyP := hl j y hy
    by_cases c : p ≤ j ∧ j < q ∧ test y = true
    · simp only [c, and_self, if_true] at hx'
      rw [← hx']; exact hP _ hyP
    · simp only [c, if_false] at hx'
      rw [← hx']; exact hyP

/-- "UNSAFE_TO_BREAK comes with UNSAFE_TO_CONCAT" on a mask -/
def BreakHasConcat (a : Nat) : Prop := a &&& 1 ≠ 0 → a &&& 2 ≠ 0
/-- "no SAFE_TO_INSERT_TATWEEL" on a mask -/
def NoTatweel (a : Nat) : Prop := a &&& 4 = 0

theorem breakHasConcat_or (m : Nat) (hm : m = 3 ∨ m = 2 ∨ m = 4) (a : Nat) (h : BreakHasConcat a) : BreakHasConcat (a ||| m) := by
  unfold BreakHasConcat at *
  rw [or_and_ne_zero, or_and_ne_zero]
  rcases hm with hm | hm | hm <;> subst hm
  · intro _; right; decide
  · intro h1
    rcases h1 with h1 | h1
    · left; exact h h1
    · exact absurd h1 (by decide)
  · intro h1
    rcases h1 with h1 | h1
    · left; exact h h1
    · exact absurd h1 (by decide)

theorem noTatweel_or (m : Nat) (hm : m = 3 ∨ m = 2) (a : Nat) (h : NoTatweel a) : NoTatweel (a ||| m) := by
  unfold NoTatweel at *
  rcases Nat.eq_zero_or_pos ((a ||| m) &&& 4) with h0 | h0
  · exact h0
  · exfalso
    have := (or_and_ne_zero a m 4).mp (by omega)
    rcases this with h1 | h1
    · exact h1 h
    · rcases hm with hm | hm <;> subst hm <;> exact h1 (by decide)

/-- in-buffer `_set_glyph_flags` (interior or not) keeps any mask property that is closed under `|= mask` -/
theorem setGlyphFlags_in_allMask (P : Nat → Prop) (b : Buf) (mask s e : Nat) (interior : Bool)
    (hP : ∀ a, P a → P (a ||| mask)) (hse : s ≤ e) (he : e ≤ b.len) (hlen : b.len ≤ b.info.length)
    (hu32 : ∀ j x, s ≤ j → j < e → b.info[j]? = some x → x.cluster ≤ U32MAX) (hin : AllMask P b.info) :
    ∃ b', b.setGlyphFlags mask s (some e) interior false = .ok b' ∧ AllMask P b'.info ∧ b'.out = b.out ∧
      b'.flags = b.flags ∧ b'.len = b.len := by
  cases interior with
  | false =>
    obtain ⟨info, hr, hu⟩ := setGlyphFlags_plain_in b mask s e hse he hlen
    exact ⟨_, hr, hu.allMask hP hin, rfl, rfl, rfl⟩
  | true =>
    by_cases h2 : s + 2 ≤ e
    · obtain ⟨info, r, p, q, hr, _, _, _, hu, _⟩ := setGlyphFlags_interior_in b mask s e h2 he hlen hu32
      exact ⟨_, hr, hu.allMask hP hin, rfl, rfl, rfl⟩
    · refine ⟨b, ?_, hin, rfl, rfl, rfl⟩
      have hmin : min e b.len = e := by omega
      have : e - s < 2 := by omega
      simp [Buf.setGlyphFlags, hmin, hse, this]
      rfl

/-- two-sided `_set_glyph_flags` (interior or not) keeps such a property on both arrays -/
theorem setGlyphFlags_out_allMask (P : Nat → Prop) (b : Buf) (mask s e : Nat) (interior : Bool)
    (hP : ∀ a, P a → P (a ||| mask)) (hho : b.haveOutput = true) (hs : s ≤ b.outLen)
    (hol : b.outLen ≤ b.outArr.length) (hie : b.idx ≤ e) (he : e ≤ b.len) (hlen : b.len ≤ b.info.length)
    (hu1 : ∀ j x, s ≤ j → j < b.outLen → b.outArr[j]? = some x → x.cluster ≤ U32MAX)
    (hu2 : ∀ j x, b.idx ≤ j → j < e → b.info[j]? = some x → x.cluster ≤ U32MAX)
    (hne : s < b.outLen ∨ b.idx < e) (hin : AllMask P b.info) (hout : AllMask P b.out) :
    ∃ b', b.setGlyphFlags mask s (some e) interior true = .ok b' ∧ AllMask P b'.info ∧ AllMask P b'.out ∧
      b'.flags = b.flags ∧ b'.len = b.len := by
  have hoa : AllMask P b.outArr := by
    cases hso : b.sepOut with
    | true => simpa [Buf.outArr, hso] using hout
    | false => simpa [Buf.outArr, hso] using hin
  have fin : ∀ (b' : Buf) (o1 : List Info) (p1 q1 p2 q2 : Nat) (t1 t2 : Info → Bool),
      Upd b.outArr o1 p1 q1 t1 (orMask mask) →
      Upd (if b.sepOut then b.info else o1) b'.info p2 q2 t2 (orMask mask) →
      b'.out = (if b.sepOut then o1 else b.out) → AllMask P b'.info ∧ AllMask P b'.out := by
    intro b' o1 p1 q1 p2 q2 t1 t2 u1 u2 ho
    have ho1 : AllMask P o1 := u1.allMask hP hoa
    cases hso : b.sepOut with
    | true =>
      simp only [hso, if_true] at u2 ho
      exact ⟨u2.allMask hP hin, by rw [ho]; exact ho1⟩
    | false =>
      simp only [hso, Bool.false_eq_true, if_false] at u2 ho
      exact ⟨u2.allMask hP ho1, by rw [ho]; exact hout⟩
  cases interior with
  | false =>
    obtain ⟨b', o1, hr, u1, u2, ho, hb'⟩ := setGlyphFlags_plain_out b mask s e hho hs hol hie he hlen
    obtain ⟨f1, f2⟩ := fin b' o1 _ _ _ _ _ _ u1 u2 ho
    exact ⟨b', hr, f1, f2, by rw [hb'], by rw [hb']⟩
  | true =>
    obtain ⟨b', r, o1, p1, q1, p2, q2, hr, _, _, u1, _, _, u2, ho, hb', _⟩ :=
      setGlyphFlags_interior_out b mask s e hho hs hol hie he hlen hu1 hu2 hne
    obtain ⟨f1, f2⟩ := fin b' o1 _ _ _ _ _ _ u1 u2 ho
    exact ⟨b', hr, f1, f2, by rw [hb'], by rw [hb']⟩

end RbModel.Flags
