/-
  Contextual GSUB lookups, step 3b: one contextual RULE at the current glyph of a forward-scan state (match, glyph flags,
  `apply_lookup`) against the specification's `ctxRule` in closed form (`ctxRuleG`); the invariant of the forward scan of a
  contextual lookup (`CtxInv`) with its two budget potentials.
-/
import RbModel.Lemmas.GsubCtxFlag

namespace RbModel.Spec.Subst
open RbModel RbModel.Gsub

/-- the local `ctxRule` of `applySubtableAt`, as a definition of its own (the `*_eq` lemmas of GsubCtxSub.lean are `rfl`) -/
def ctxRuleSpec (f : Font) (props lm : Nat) (gs : List G) (i : Nat) (input back ahead : List (Nat → Bool)) (recs : List Rec) : Step := do
  let ins ← matchSeq gs (visibleFrom f props gs (i + 1)) input (some lm)
  let lastIn := (ins.getLast?).getD i
  let afterIn := visibleFrom f props gs (lastIn + 1)
  let _ ← matchSeq gs afterIn ahead
  let _ ← matchSeq gs (visibleBefore f props gs i) back
  let (gs', ps') := applyRecords f lm recs gs (i :: ins)
  pure (gs', (ps'.getLast?).getD i + 1 + ((gs'.length - gs.length) - ((ps'.getLast?).getD i - lastIn)))

/-- … and in closed form under a flag-free lookup: three prefix tests, then the records on the positions `i, …, i + n` -/
def ctxRuleG (f : Font) (lm : Nat) (gs : List G) (i : Nat) (input back ahead : List (Nat → Bool)) (recs : List Rec) : Step :=
  if predMatchG (some lm) input (gs.drop (i + 1)) = true then
    if predMatchG none ahead (gs.drop (i + input.length + 1)) = true then
      if predMatchG none back (gs.take i).reverse = true then
        let r := applyRecords f lm recs gs (List.range' i (input.length + 1))
        some (r.1, (r.2.getLast?).getD i + 1 + ((r.1.length - gs.length) - ((r.2.getLast?).getD i - (i + input.length))))
      else none
    else none
  else none

theorem range'_lastD (i n : Nat) : ((List.range' (i + 1) n).getLast?).getD i = i + n := by
  cases n with
  | zero => rfl
  | succ n =>
    rw [List.getLast?_eq_getElem?]
    simp only [List.length_range', Nat.add_sub_cancel]
    rw [List.getElem?_range' (by omega)]
    simp; omega

theorem ctxRuleSpec_eq (f : Font) (props lm : Nat) (hp : NoSkipFlags props) (gs : List G) (i : Nat) (hi : i ≤ gs.length)
    (input back ahead : List (Nat → Bool)) (recs : List Rec) :
    ctxRuleSpec f props lm gs i input back ahead recs = ctxRuleG f lm gs i input back ahead recs := by
  unfold ctxRuleSpec ctxRuleG
  rw [matchSeq_after f props hp gs (some lm) input (i + 1)]
  by_cases h1 : predMatchG (some lm) input (gs.drop (i + 1)) = true
  · simp only [h1, if_true, bind, Option.bind, range'_lastD]
    rw [matchSeq_after f props hp gs none ahead (i + input.length + 1)]
    by_cases h2 : predMatchG none ahead (gs.drop (i + input.length + 1)) = true
    · simp only [h2, if_true]
      have h3 := matchSeq_before f props hp gs back i hi
      by_cases hb : predMatchG none back (gs.take i).reverse = true
      · rw [hb] at h3
        simp only [hb, if_true]
        cases hm : matchSeq gs (visibleBefore f props gs i) back with
        | none => rw [hm] at h3; cases h3
        | some v =>
          simp only [pure]
          rw [← List.range'_succ]
      · have hb' : predMatchG none back (gs.take i).reverse = false := by simpa using hb
        rw [hb'] at h3
        simp only [hb', Bool.false_eq_true, if_false]
        cases hm : matchSeq gs (visibleBefore f props gs i) back with
        | none => rfl
        | some v => rw [hm] at h3; cases h3
    · simp [h2]
  · simp [h1, bind, Option.bind]

end RbModel.Spec.Subst

namespace RbModel.Gsub
open RbModel RbModel.Buf RbModel.Mem RbModel.Spec.Subst

/-! ### budgets -/

theorem budget_step (o o' r n K g M : Nat) (hn : n ≤ r) (hg : g ≤ K) (hb : o + (r + 1) * (1 + K) ≤ M)
    (ho' : o' + (r - n) ≤ o + (r + 1) + g) : o' + (r - n) * (1 + K) ≤ M := by
  have e1 : (r + 1) * (1 + K) = (r - n) * (1 + K) + (n + 1) * (1 + K) := by
    rw [← Nat.add_mul]; congr 1; omega
  have e2 : (n + 1) * (1 + K) = (n + 1) + (n + 1) * K := by rw [Nat.mul_add, Nat.mul_one]
  have e3 : K ≤ (n + 1) * K := Nat.le_mul_of_pos_left K (by omega)
  have e4 : (r - n) ≤ (r - n) * (1 + K) := Nat.le_mul_of_pos_right _ (by omega)
  generalize (r - n) * (1 + K) = A at *
  generalize (n + 1) * K = B at *
  generalize (n + 1) * (1 + K) = C at *
  generalize (r + 1) * (1 + K) = D at *
  omega

theorem budget_first (o r K g M : Nat) (hg : g ≤ K) (hb : o + (r + 1) * (1 + K) ≤ M) : o + (r + 1) + g ≤ M := by
  have e2 : (r + 1) * (1 + K) = (r + 1) + (r + 1) * K := by rw [Nat.mul_add, Nat.mul_one]
  have e3 : K ≤ (r + 1) * K := Nat.le_mul_of_pos_left K (by omega)
  generalize (r + 1) * K = B at *
  generalize (r + 1) * (1 + K) = D at *
  omega

theorem ops_step (r n Rn k : Nat) (ops ops' : Int) (hk : k ≤ Rn) (h : (((r + 1) * Rn : Nat) : Int) ≤ ops)
    (h' : ops - (k : Int) ≤ ops') : ((((r - n) * Rn : Nat)) : Int) ≤ ops' := by
  have e1 : (r + 1) * Rn = r * Rn + Rn := by rw [Nat.add_mul, Nat.one_mul]
  have e2 : (r - n) * Rn ≤ r * Rn := Nat.mul_le_mul_right _ (by omega)
  generalize (r - n) * Rn = A at *
  generalize r * Rn = B at *
  generalize (r + 1) * Rn = C at *
  omega

/-! ### the invariant of the forward scan of a contextual lookup -/

/-- `K` = the most one application can add to the string, `Rn` = the most records a rule has.  The two potentials: every
    application consumes at least one glyph of the unconsumed input, adds at most `K` glyphs, spends at most `Rn` operations. -/
structure CtxInv (l : Lookup) (lm K Rn : Nat) (c : Ctx) : Prop where
  inv : Inv c.buf
  succ : c.buf.successful = true
  props : c.lookupProps = l.props
  mask : c.lookupMask = lm
  nosyl : c.perSyllable = false
  noconcat : c.buf.flags &&& Gen.Buf.produceUnsafeToConcat = 0
  rnd : c.random = false
  budget : c.buf.outLen + (inP c.buf).length * (1 + K) ≤ c.buf.maxLen
  ops : ((((inP c.buf).length * Rn : Nat)) : Int) ≤ c.buf.maxOps
  plain : ∀ y ∈ inP c.buf, Plain y
  glyph : ∀ y ∈ outP c.buf ++ inP c.buf, CtxG y

/-- what a successful application establishes -/
def StepGoodC (l : Lookup) (lm K Rn : Nat) (c : Ctx) (b' : Buf) (gs' : List G) (nxt : Nat) : Prop :=
  CtxInv l lm K Rn { c with buf := b' } ∧ RelF (outP b' ++ inP b') gs' ∧ b'.outLen = nxt ∧ c.buf.outLen < nxt ∧
    b'.maxLen = c.buf.maxLen

/-- a rule of the Spec's domain: `n` input glyphs behind the first, records `recs` -/
def RuleOk (f : Font) (Gr Rn n : Nat) (recs : List Rec) : Prop :=
  n + 1 + recs.length * Gr ≤ MAX_CONTEXT_LENGTH ∧ recs.length ≤ Rn ∧
    ∀ r ∈ recs, ∀ l, f.lookups[r.2]? = some l → NestedSts Gr l.subtables

/-- **after a successful match and the glyph-flag call: `apply_lookup` re-establishes the scan invariant and yields the
    specification's string and resume index** -/
theorem ctxApply_core (hg : Gen.Buf.ensureGrowOnly = true) (hr : Gen.Buf.moveToRewindReversed = true)
    (l : Lookup) (lm Gr Rn : Nat) (hlm : lm < 2 ^ 32) (hlmf : lm &&& (U32MAX - Flag.DEFINED) = lm)
    (c : Ctx) (h : CtxInv l lm (Rn * Gr) Rn c) (gs : List G) (x : Info) (R : List Info) (hin : inP c.buf = x :: R)
    (hrel : RelF (outP c.buf ++ inP c.buf) gs) (n : Nat) (hn : n ≤ R.length) (P : List Nat) (hP : n + 1 ≤ P.length)
    (hPj : ∀ j, j ≤ n → P[j]? = some (c.buf.idx + j)) (recs : List Rec) (hok : RuleOk c.font Gr Rn n recs)
    (bf : Buf) (hbf : FlagsOnlyOn FM c.buf bf) (m : Nat) :
    ∃ b', applyLookup (recurseAt (m + 1)) { c with buf := bf } n P (c.buf.idx + n + 1) recs = .ok { c with buf := b' } ∧
      StepGoodC l lm (Rn * Gr) Rn c b' (applyRecords c.font lm recs gs (List.range' c.buf.outLen (n + 1))).1
        (((applyRecords c.font lm recs gs (List.range' c.buf.outLen (n + 1))).2.getLast?).getD c.buf.outLen + 1 +
          (((applyRecords c.font lm recs gs (List.range' c.buf.outLen (n + 1))).1.length - gs.length) -
            (((applyRecords c.font lm recs gs (List.range' c.buf.outLen (n + 1))).2.getLast?).getD c.buf.outLen - (c.buf.outLen + n)))) := by
  obtain ⟨hctx, hrn, hnest⟩ := hok
  obtain ⟨hinvf, eol, eidx, elen, eml, emo, efl, esu, _, hso, hsi⟩ := flagged_state hbf h.inv
  have hKg : recs.length * Gr ≤ Rn * Gr := Nat.mul_le_mul_right _ hrn
  have hinl : (inP c.buf).length = R.length + 1 := by rw [hin]; rfl
  -- the flagged in-part
  have hil : (inP bf).length = R.length + 1 := by rw [hsi.length, hinl]
  obtain ⟨x', R', hin'⟩ : ∃ x' R', inP bf = x' :: R' := by
    cases hc : inP bf with
    | nil => rw [hc] at hil; simp at hil
    | cons a t => exact ⟨a, t, rfl⟩
  have hR'l : R'.length = R.length := by rw [hin'] at hil; simpa using hil
  have hsR : SameOn FM R R' := by
    have := SameOn.drop' hsi 1
    rw [hin, hin'] at this
    exact this
  have hsall : SameOn FM (outP c.buf ++ inP c.buf) (outP bf ++ inP bf) := SameOn.append' hso hsi
  have hrelf : RelF (outP bf ++ inP bf) gs := relF_sameOn hsall hrel
  have hglf : ∀ y ∈ outP bf ++ inP bf, CtxG y := by
    intro y hy
    obtain ⟨y0, hy0, hk⟩ := SameOn.mem hsall hy
    exact ctxG_keepOn hk (h.glyph y0 hy0)
  have hbud := h.budget
  rw [hinl] at hbud
  have hops := h.ops
  rw [hinl] at hops
  have hops1 : ((recs.length : Nat) : Int) ≤ c.buf.maxOps := by
    have e1 : (R.length + 1) * Rn = R.length * Rn + Rn := by rw [Nat.add_mul, Nat.one_mul]
    generalize (R.length + 1) * Rn = C at *
    generalize R.length * Rn = B at *
    omega
  have hmask : ({ c with buf := bf } : Ctx).lookupMask = lm := h.mask
  obtain ⟨b', hrun, hinv', hsu', hrel', hlen', hlast', hpos', hi', hgl', hml', hfl', htl', hmo', hge'⟩ :=
    applyLookup_sim hg hr m { c with buf := bf } n P recs gs x' R' Gr hinvf (by show bf.successful = true; rw [esu]; exact h.succ)
      hin' (by rw [hR'l]; exact hn) hrelf hglf hP (by intro j hj; show P[j]? = some (bf.idx + j); rw [eidx]; exact hPj j hj)
      (by rw [hmask]; exact hlm) (by rw [hmask]; exact hlmf) h.rnd hnest
      (by
        show bf.outLen + (inP bf).length + recs.length * Gr ≤ bf.maxLen
        rw [eol, hil, eml]
        exact budget_first _ _ _ _ _ hKg hbud)
      hctx (by show ((recs.length : Nat) : Int) ≤ bf.maxOps; rw [emo]; exact hops1)
  have e1 : ({ c with buf := bf } : Ctx).buf.idx = c.buf.idx := eidx
  have e2 : ({ c with buf := bf } : Ctx).buf.outLen = c.buf.outLen := eol
  have e3 : ({ c with buf := bf } : Ctx).font = c.font := rfl
  have e4 : ({ c with buf := bf } : Ctx).lookupMask = lm := h.mask
  rw [e1] at hrun
  rw [e2, e3, e4] at hrel' hlen' hlast'
  generalize hres : applyRecords c.font lm recs gs (List.range' c.buf.outLen (n + 1)) = res at *
  have hgl2 : gs.length = c.buf.outLen + (R.length + 1) := by
    rw [← hrel.length, hin]; simp [outP_length c.buf h.inv]
  have hi'l : (inP b').length = R.length - n := by rw [hi', List.length_drop, hR'l]
  have hnx : (res.2.getLast?).getD c.buf.outLen + 1 + ((res.1.length - gs.length) - ((res.2.getLast?).getD c.buf.outLen - (c.buf.outLen + n)))
      = b'.outLen := by
    rw [hlast']
    simp only [Option.getD_some]
    have key : ∀ o' L L' o n : Nat, 0 < o' → o' + L = o + n + 1 + L' → o' - 1 + 1 + (L' - L - (o' - 1 - (o + n))) = o' := by
      intro o' L L' o n h1 h2; omega
    exact key _ _ _ _ _ hpos' hlen'
  rw [hnx]
  have hgrow : c.buf.outLen < b'.outLen := by
    have : bf.outLen + n + 1 ≤ b'.outLen := hge'
    rw [eol] at this; omega
  refine ⟨b', hrun, ⟨?_, hrel', rfl, hgrow, ?_⟩⟩
  · refine ⟨hinv', hsu', h.props, h.mask, h.nosyl, ?_, h.rnd, ?_, ?_, ?_, hgl'⟩
    · show b'.flags &&& _ = 0
      rw [hfl']; show bf.flags &&& _ = 0; rw [efl]; exact h.noconcat
    · show b'.outLen + (inP b').length * (1 + Rn * Gr) ≤ b'.maxLen
      rw [hi'l, hml']
      show _ ≤ bf.maxLen
      rw [eml]
      have h1 : b'.outLen + (inP b').length ≤ bf.outLen + (inP bf).length + recs.length * Gr := htl'
      rw [hi'l, eol, hil] at h1
      exact budget_step c.buf.outLen b'.outLen R.length n (Rn * Gr) (recs.length * Gr) _ hn hKg hbud h1
    · show ((((inP b').length * Rn : Nat)) : Int) ≤ b'.maxOps
      rw [hi'l]
      have h1 : bf.maxOps - (recs.length : Int) ≤ b'.maxOps := hmo'
      rw [emo] at h1
      exact ops_step R.length n Rn recs.length _ _ hrn hops h1
    · intro y hy
      have hy' : y ∈ R'.drop n := by rw [← hi']; exact hy
      obtain ⟨y0, hy0, hk⟩ := SameOn.mem hsR (List.mem_of_mem_drop hy')
      exact plain_keepOn hk (h.plain y0 (by rw [hin]; exact List.mem_cons_of_mem _ hy0))
  · rw [hml']; exact eml

end RbModel.Gsub
