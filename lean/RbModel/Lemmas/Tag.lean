/-
  Helper lemmas for the tag core (C18, tag part of C01). Property theorems live in Props/C18.lean.
-/
import RbModel.Tag

namespace RbModel.Tag

/-! ## binary search -/

/-- rank of an `Ordering` (element vs key): `lt < eq < gt` -/
def rank : Ordering → Nat
  | .lt => 0
  | .eq => 1
  | .gt => 2

/-- the comparator results along the slice are monotone: `Less* Equal* Greater*` -/
def Monotone (n : Nat) (p : Nat → Ordering) : Prop :=
  ∀ i, i + 1 < n → rank (p i) ≤ rank (p (i + 1))

theorem Monotone.le {n : Nat} {p : Nat → Ordering} (h : Monotone n p) :
    ∀ i j, i ≤ j → j < n → rank (p i) ≤ rank (p j) := by
  intro i j hij hj
  induction j with
  | zero => have : i = 0 := by omega
            subst this; exact Nat.le_refl _
  | succ j ih =>
    by_cases he : i = j + 1
    · subst he; exact Nat.le_refl _
    · exact Nat.le_trans (ih (by omega) (by omega)) (h j hj)

/-- loop invariant of `binary_search_by` -/
structure BsInv (n : Nat) (p : Nat → Ordering) (size base : Nat) : Prop where
  pos : 1 ≤ size
  bound : base + size ≤ n
  low : 0 < base → p base ≠ .gt
  high : ∀ i, base + size ≤ i → i < n → p i = .gt

/-- partial correctness of the loop: whatever the probes that were not evaluated would have answered -/
theorem bsLoop_inv {n : Nat} {p : Nat → Ordering} {probe : Nat → Except Err Ordering}
    (hp : ∀ i o, i < n → probe i = .ok o → o = p i) (hm : Monotone n p) :
    ∀ fuel size base b, BsInv n p size base → bsLoop probe fuel size base = .ok b → BsInv n p 1 b := by
  intro fuel
  induction fuel with
  | zero =>
    intro size base b hi h
    unfold bsLoop at h
    split at h
    · cases h
    · injection h with h; subst h
      have : size = 1 := by have := hi.pos; omega
      subst this; exact hi
  | succ fuel ih =>
    intro size base b hi h
    unfold bsLoop at h
    by_cases hs : size > 1
    · simp only [hs, if_true, bind, Except.bind] at h
      have hmid : base + size / 2 < n := by have := hi.bound; omega
      split at h
      · cases h
      · rename_i c hc
        have hc' := hp _ _ hmid hc
        subst hc'
        refine ih _ _ b ?_ h
        by_cases hg : p (base + size / 2) = .gt
        · simp only [hg, beq_self_eq_true, if_true]
          refine ⟨by omega, by have := hi.bound; omega, hi.low, ?_⟩
          intro i h1 h2
          have hr := hm.le (base + size / 2) i (by omega) h2
          rw [hg] at hr
          cases hpi : p i <;> simp [hpi, rank] at hr ⊢
        · have : (p (base + size / 2) == Ordering.gt) = false := by
            cases hq : p (base + size / 2) <;> simp_all
          simp only [this, Bool.false_eq_true, ↓reduceIte]
          refine ⟨by omega, by have := hi.bound; omega, fun _ => hg, ?_⟩
          intro i h1 h2
          exact hi.high i (by omega) h2
    · have h1 : size = 1 := by have := hi.pos; omega
      subst h1
      simp only [hs, if_false] at h
      injection h with h; subst h; exact hi

/-- the loop stays inside the slice -/
theorem bsLoop_bound {probe : Nat → Except Err Ordering} (n : Nat) :
    ∀ fuel size base b, 1 ≤ size → base + size ≤ n → bsLoop probe fuel size base = .ok b → b < n := by
  intro fuel
  induction fuel with
  | zero =>
    intro size base b h1 hb h
    unfold bsLoop at h
    split at h
    · cases h
    · injection h with h; omega
  | succ fuel ih =>
    intro size base b h1 hb h
    unfold bsLoop at h
    by_cases hs : size > 1
    · simp only [hs, if_true, bind, Except.bind] at h
      split at h
      · cases h
      · refine ih _ _ b ?_ ?_ h
        · omega
        · split <;> omega
    · simp only [hs, if_false] at h
      injection h with h; omega

/-- the loop returns (never runs out of fuel, never probes outside the slice) when every probe inside returns -/
theorem bsLoop_total {n : Nat} {probe : Nat → Except Err Ordering}
    (hp : ∀ i, i < n → ∃ o, probe i = .ok o) :
    ∀ fuel size base, size ≤ fuel → 1 ≤ size → base + size ≤ n →
      ∃ b, bsLoop probe fuel size base = .ok b := by
  intro fuel
  induction fuel with
  | zero => intro size base hf h1 _; omega
  | succ fuel ih =>
    intro size base hf h1 hb
    unfold bsLoop
    by_cases hs : size > 1
    · simp only [hs, if_true, bind, Except.bind]
      obtain ⟨o, ho⟩ := hp (base + size / 2) (by omega)
      rw [ho]
      apply ih <;> (try split) <;> omega
    · simp only [hs, if_false]; exact ⟨base, rfl⟩

/-- `binary_search_by` on a slice whose comparator results are monotone (`Less* Equal* Greater*`):
    `Some(b)` only for an `Equal` element, `None` only when there is none. -/
theorem binarySearch_finds {n : Nat} {p : Nat → Ordering} {probe : Nat → Except Err Ordering}
    (hp : ∀ i o, i < n → probe i = .ok o → o = p i) (hm : Monotone n p)
    (r : Option Nat) (h : binarySearchBy n probe = .ok r) :
      (∀ b, r = some b → b < n ∧ p b = .eq) ∧ (r = none → ∀ i, i < n → p i ≠ .eq) := by
  unfold binarySearchBy at h
  by_cases hn : n = 0
  · subst hn; simp at h; subst h; exact ⟨by simp, by intro _ i hi; omega⟩
  · simp only [hn, if_false, bind, Except.bind] at h
    have hinv : BsInv n p n 0 := ⟨by omega, by omega, by omega, by intro i h1 h2; omega⟩
    split at h
    · cases h
    · rename_i b hb
      have hi := bsLoop_inv hp hm n n 0 b hinv hb
      have hbn : b < n := by have := hi.bound; omega
      split at h
      · cases h
      · rename_i c hc
        have := hp _ _ hbn hc
        subst this
        injection h with h
        by_cases he : p b = .eq
        · simp [he] at h; subst h
          exact ⟨by intro b' hb'; cases hb'; exact ⟨hbn, he⟩, by simp⟩
        · have : (p b == Ordering.eq) = false := by cases hq : p b <;> simp_all
          simp [this] at h; subst h
          refine ⟨by simp, ?_⟩
          intro _ i hin hie
          by_cases hib : i ≤ b
          · by_cases hib' : i = b
            · subst hib'; exact he hie
            · have hr := hm.le i b hib hbn
              have hl := hi.low (by omega)
              rw [hie] at hr
              cases hq : p b <;> simp_all [rank]
          · have := hi.high i (by omega) hin
            rw [hie] at this; cases this

theorem binarySearch_total {n : Nat} {probe : Nat → Except Err Ordering}
    (hp : ∀ i, i < n → ∃ o, probe i = .ok o) : ∃ r, binarySearchBy n probe = .ok r := by
  unfold binarySearchBy
  by_cases hn : n = 0
  · simp [hn]
  · simp only [hn, if_false, bind, Except.bind]
    obtain ⟨b, hb⟩ := bsLoop_total hp n n 0 (Nat.le_refl _) (by omega) (by omega)
    rw [hb]
    -- the final probe is inside the slice
    have hbn : b < n := by
      exact bsLoop_bound n n n 0 b (by omega) (by omega) hb
    obtain ⟨o, ho⟩ := hp b hbn
    simp only [ho]; exact ⟨_, rfl⟩

/-! ## byte-string comparison -/

theorem cmpBytes_eq_iff (a b : Bytes) : cmpBytes a b = .eq ↔ a = b := by
  fun_induction cmpBytes a b <;> grind

theorem cmpBytes_refl (a : Bytes) : cmpBytes a a = .eq := (cmpBytes_eq_iff a a).2 rfl

theorem rank_le_two (o : Ordering) : rank o ≤ 2 := by cases o <;> simp [rank]

theorem cmpBytes_mono_left (a b k : Bytes) (h : cmpBytes a b ≠ .gt) :
    rank (cmpBytes a k) ≤ rank (cmpBytes b k) := by
  induction a generalizing b k with
  | nil => cases b <;> cases k <;> simp_all [cmpBytes, rank]
           all_goals (split <;> simp [rank]; try split <;> simp [rank])
  | cons x xs ih =>
    cases b with
    | nil => simp [cmpBytes] at h
    | cons y ys =>
      cases k with
      | nil => simp [cmpBytes, rank]
      | cons z zs =>
        simp only [cmpBytes] at h ⊢
        by_cases hxy : x < y
        · by_cases h1 : x < z
          · simp [h1, rank]
          · have h3 : ¬ y < z := by omega
            have h4 : z < y := by omega
            simp only [h3, h4, if_true, if_false, rank]
            exact rank_le_two _
        · by_cases hyx : y < x
          · simp [hxy, hyx] at h
          · have : x = y := by omega
            subst this
            simp only [hxy, if_false] at h
            by_cases h1 : x < z
            · simp [h1]
            · by_cases h2 : z < x
              · simp [h1, h2]
              · simp only [h1, h2, if_false]; exact ih ys zs h

theorem cmpBytes_append_dash (s k r : Bytes) (hs : ∀ x ∈ s, 45 < x) (hl : k.length < s.length) :
    cmpBytes s (k ++ 45 :: r) = cmpBytes s k := by
  induction s generalizing k with
  | nil => simp at hl
  | cons x xs ih =>
    cases k with
    | nil =>
      have : 45 < x := hs x (by simp)
      simp only [List.nil_append, cmpBytes]
      have h1 : ¬ x < 45 := by omega
      simp [h1, this]
    | cons y ys =>
      simp only [List.cons_append, cmpBytes]
      rw [ih ys (fun z hz => hs z (by simp [hz])) (by simpa using hl)]

/-! ## `lang_cmp` -/

/-- the first subtag: everything before the first `-` -/
def firstSubtag (s : Bytes) : Bytes := s.take (findDash s)

theorem findDash_cons (x : Nat) (xs : Bytes) :
    findDash (x :: xs) = if x = 45 then 0 else findDash xs + 1 := by
  unfold findDash DASH
  rw [List.idxOf_cons]
  by_cases h : x = 45
  · subst h; simp
  · have : (x == 45) = false := by simp [h]
    simp [this, h]

theorem findDash_le (s : Bytes) : findDash s ≤ s.length := by
  induction s with
  | nil => simp [findDash]
  | cons x xs ih => rw [findDash_cons]; split <;> simp <;> omega

theorem firstSubtag_length (s : Bytes) : (firstSubtag s).length = findDash s := by
  unfold firstSubtag; rw [List.length_take]; have := findDash_le s; omega

theorem dash_split (s : Bytes) :
    (findDash s = s.length ∧ firstSubtag s = s) ∨
    (findDash s < s.length ∧ ∃ r, s = firstSubtag s ++ 45 :: r) := by
  induction s with
  | nil => left; simp [findDash, firstSubtag]
  | cons x xs ih =>
    unfold firstSubtag at *
    rw [findDash_cons]
    by_cases h : x = 45
    · subst h; right; simp
    · simp only [h, if_false]
      rcases ih with ⟨h1, h2⟩ | ⟨h1, r, h2⟩
      · left; simp [h1]
      · right; refine ⟨by simp; omega, r, ?_⟩
        simp only [List.take_succ_cons, List.cons_append]
        rw [← h2]

theorem findDash_eq_length_of_gt (s : Bytes) (h : ∀ x ∈ s, 45 < x) : findDash s = s.length := by
  induction s with
  | nil => simp [findDash]
  | cons x xs ih =>
    rw [findDash_cons]
    have : x ≠ 45 := by have := h x (by simp); omega
    simp [this, ih (fun y hy => h y (by simp [hy]))]

/-- what `lang_cmp` compares, for a dash-free left string whose bytes sort after `-` -/
theorem langCmp_core (s1 s2 : Bytes) (h1 : ∀ x ∈ s1, 45 < x) :
    cmpBytes (s1.take (min (max (findDash s1) (findDash s2)) s1.length))
             (s2.take (min (max (findDash s1) (findDash s2)) s2.length))
      = cmpBytes s1 (firstSubtag s2) := by
  rw [findDash_eq_length_of_gt s1 h1]
  have hle := findDash_le s2
  have e1 : min (max s1.length (findDash s2)) s1.length = s1.length := by omega
  rw [e1, List.take_length]
  by_cases hc : s1.length ≤ findDash s2
  · have : min (max s1.length (findDash s2)) s2.length = findDash s2 := by omega
    rw [this]; rfl
  · rcases dash_split s2 with ⟨h2, h3⟩ | ⟨h2, r, h3⟩
    · have : min (max s1.length (findDash s2)) s2.length = s2.length := by omega
      rw [this, List.take_length, h3]
    · have hl := firstSubtag_length s2
      generalize firstSubtag s2 = k at *
      generalize findDash s2 = d at *
      subst h3
      have hm : min (max s1.length d) (k ++ 45 :: r).length = k.length + (min s1.length (k.length + 1 + r.length) - k.length - 1) + 1 := by
        simp at *; omega
      rw [hm, List.take_append]
      simp only [List.length_append, List.length_cons] at *
      have : k.length + (min s1.length (k.length + 1 + r.length) - k.length - 1) + 1 - k.length
          = (min s1.length (k.length + 1 + r.length) - k.length - 1) + 1 := by omega
      rw [this, List.take_succ_cons]
      rw [List.take_of_length_le (by omega)]
      exact cmpBytes_append_dash s1 k _ h1 (by omega)

/-! ## slicing -/

def Ascii (s : Bytes) : Prop := ∀ x ∈ s, x < 128

theorem isBoundary_length (s : Bytes) : isBoundary s s.length = true := by
  unfold isBoundary; simp

theorem isBoundary_of_not_cont (s : Bytes) (i b : Nat) (h : s[i]? = some b) (hb : isCont b = false) :
    isBoundary s i = true := by
  unfold isBoundary; simp [h, hb]

theorem isBoundary_of_ascii (s : Bytes) (h : Ascii s) (i : Nat) (hi : i ≤ s.length) :
    isBoundary s i = true := by
  by_cases hl : i = s.length
  · subst hl; exact isBoundary_length s
  · have hlt : i < s.length := by omega
    have hb : s[i] < 128 := h _ (List.getElem_mem hlt)
    apply isBoundary_of_not_cont s i s[i] (by simp [hlt])
    unfold isCont; simp; omega

theorem sliceTo_ok (raw : Bool) (s : Bytes) (i : Nat) (hi : i ≤ s.length)
    (h : raw = true ∨ isBoundary s i = true) : sliceTo raw s i = .ok (s.take i) := by
  unfold sliceTo bytesTo strTo
  rcases h with h | h
  · simp [h, hi]
  · cases raw <;> simp [h, hi]

theorem sliceTo_eq (raw : Bool) (s : Bytes) (i : Nat) (r : Bytes) (h : sliceTo raw s i = .ok r) :
    r = s.take i := by
  unfold sliceTo bytesTo strTo at h
  cases raw <;> simp at h <;> split at h <;> simp_all

theorem Ascii.take {s : Bytes} (h : Ascii s) (n : Nat) : Ascii (s.take n) :=
  fun x hx => h x (List.mem_of_mem_take hx)
theorem Ascii.drop {s : Bytes} (h : Ascii s) (n : Nat) : Ascii (s.drop n) :=
  fun x hx => h x (List.mem_of_mem_drop hx)

theorem langCmp_spec (v : Variant) (s1 s2 : Bytes) (h1 : ∀ x ∈ s1, 45 < x) (o : Ordering)
    (h : langCmp v s1 s2 = .ok o) : o = cmpBytes s1 (firstSubtag s2) := by
  unfold langCmp at h
  simp only [bind, Except.bind] at h
  split at h
  · cases h
  · rename_i a ha
    split at h
    · cases h
    · rename_i b hb
      have := sliceTo_eq _ _ _ _ ha
      have := sliceTo_eq _ _ _ _ hb
      subst_vars
      injection h with h
      rw [← h]; exact langCmp_core s1 s2 h1

theorem langCmp_ok (v : Variant) (s1 s2 : Bytes) (h1 : ∀ x ∈ s1, 45 < x)
    (hs : v.cmpBytes = true ∨ Ascii s2) :
    langCmp v s1 s2 = .ok (cmpBytes s1 (firstSubtag s2)) := by
  have e1 : sliceTo v.cmpBytes s1 (min (max (findDash s1) (findDash s2)) s1.length) = .ok (s1.take (min (max (findDash s1) (findDash s2)) s1.length)) := by
    apply sliceTo_ok _ _ _ (by omega)
    right
    rw [findDash_eq_length_of_gt s1 h1]
    have : min (max s1.length (findDash s2)) s1.length = s1.length := by omega
    rw [this]; exact isBoundary_length s1
  have e2 : sliceTo v.cmpBytes s2 (min (max (findDash s1) (findDash s2)) s2.length) = .ok (s2.take (min (max (findDash s1) (findDash s2)) s2.length)) := by
    apply sliceTo_ok _ _ _ (by omega)
    rcases hs with hs | hs
    · left; exact hs
    · right; exact isBoundary_of_ascii s2 hs _ (by omega)
  unfold langCmp
  simp only [bind, Except.bind, e1, e2]
  rw [langCmp_core s1 s2 h1]

/-! ## the language table -/

/-- no language is empty; every byte of every language is ASCII and sorts after `-` (so no language contains a dash) -/
def rowsOk (langs : List (Bytes × Tag)) : Bool :=
  langs.all (fun r => !r.1.isEmpty && r.1.all (fun b => decide (45 < b) && decide (b < 128)))

/-- adjacent rows are in non-decreasing byte order -/
def adjSorted : List (Bytes × Tag) → Bool
  | a :: b :: rest => cmpBytes a.1 b.1 != .gt && adjSorted (b :: rest)
  | _ => true

structure TableOk (langs : List (Bytes × Tag)) : Prop where
  rows : rowsOk langs = true
  sorted : adjSorted langs = true

theorem rowsOk_get' {langs : List (Bytes × Tag)} (h : rowsOk langs = true) {i : Nat} {r : Bytes × Tag}
    (hr : langs[i]? = some r) : ∀ x ∈ r.1, 45 < x ∧ x < 128 := by
  unfold rowsOk at h
  rw [List.all_eq_true] at h
  have := h r (List.mem_of_getElem? hr)
  rw [Bool.and_eq_true, List.all_eq_true] at this
  intro x hx; simpa using this.2 x hx

theorem rowsOk_ne {langs : List (Bytes × Tag)} (h : rowsOk langs = true) {i : Nat} {r : Bytes × Tag}
    (hr : langs[i]? = some r) : r.1 ≠ [] := by
  unfold rowsOk at h
  rw [List.all_eq_true] at h
  have := h r (List.mem_of_getElem? hr)
  rw [Bool.and_eq_true] at this
  intro he; rw [he] at this; simp at this

theorem rowsOk_get {langs : List (Bytes × Tag)} (h : rowsOk langs = true) {i : Nat} {r : Bytes × Tag}
    (hr : langs[i]? = some r) : ∀ x ∈ r.1, 45 < x := fun x hx => (rowsOk_get' h hr x hx).1

theorem rowsOk_ascii {langs : List (Bytes × Tag)} (h : rowsOk langs = true) {i : Nat} {r : Bytes × Tag}
    (hr : langs[i]? = some r) : ∀ x ∈ r.1, x < 128 := fun x hx => (rowsOk_get' h hr x hx).2

theorem adjSorted_get {langs : List (Bytes × Tag)} (h : adjSorted langs = true) :
    ∀ i a b, langs[i]? = some a → langs[i + 1]? = some b → cmpBytes a.1 b.1 ≠ .gt := by
  induction langs with
  | nil => intro i a b ha; simp at ha
  | cons x xs ih =>
    intro i a b ha hb
    cases xs with
    | nil => simp at hb
    | cons y ys =>
      simp only [adjSorted, Bool.and_eq_true, bne_iff_ne] at h
      cases i with
      | zero => simp at ha hb; subst ha hb; exact h.1
      | succ i => exact ih h.2 i a b (by simpa using ha) (by simpa using hb)

/-- comparator result of row `i` against the key `k` (what `lang_cmp` yields on a good table) -/
def keyProbe (langs : List (Bytes × Tag)) (k : Bytes) (i : Nat) : Ordering :=
  match langs[i]? with
  | some r => cmpBytes r.1 k
  | none => .gt

theorem keyProbe_monotone {langs : List (Bytes × Tag)} (h : TableOk langs) (k : Bytes) :
    Monotone langs.length (keyProbe langs k) := by
  intro i hi
  unfold keyProbe
  have h0 : i < langs.length := by omega
  rw [List.getElem?_eq_getElem h0, List.getElem?_eq_getElem hi]
  exact cmpBytes_mono_left _ _ k (adjSorted_get h.sorted i _ _ (List.getElem?_eq_getElem h0) (List.getElem?_eq_getElem hi))

theorem keyProbe_eq_iff {langs : List (Bytes × Tag)} {k : Bytes} {i : Nat} {r : Bytes × Tag}
    (hr : langs[i]? = some r) : keyProbe langs k i = .eq ↔ r.1 = k := by
  unfold keyProbe; rw [hr]; exact cmpBytes_eq_iff _ _

/-- walking back over equal languages stops at the first row of the run -/
theorem walkBack_spec (langs : List (Bytes × Tag)) (k : Bytes) :
    ∀ idx, idx < langs.length → keyProbe langs k idx = .eq →
      ∃ f, walkBack langs idx = .ok f ∧ f ≤ idx ∧ keyProbe langs k f = .eq ∧
        (0 < f → keyProbe langs k (f - 1) ≠ .eq) := by
  intro idx
  induction idx with
  | zero => intro h0 he; exact ⟨0, rfl, Nat.le_refl _, he, by omega⟩
  | succ idx ih =>
    intro h0 he
    have h1 : idx < langs.length := by omega
    unfold walkBack
    rw [List.getElem?_eq_getElem h0, List.getElem?_eq_getElem h1]
    simp only
    have ea := (keyProbe_eq_iff (List.getElem?_eq_getElem h0)).1 he
    by_cases hq : (langs[idx + 1].1 == langs[idx].1) = true
    · simp only [hq, if_true]
      have : keyProbe langs k idx = .eq := by
        rw [keyProbe_eq_iff (List.getElem?_eq_getElem h1)]
        rw [beq_iff_eq] at hq; rw [← hq]; exact ea
      obtain ⟨f, hf, h2, h3, h4⟩ := ih h1 this
      exact ⟨f, hf, by omega, h3, h4⟩
    · simp only [hq]
      refine ⟨idx + 1, rfl, Nat.le_refl _, he, ?_⟩
      intro _ hc
      simp only [Nat.add_sub_cancel] at hc
      rw [keyProbe_eq_iff (List.getElem?_eq_getElem h1)] at hc
      apply hq; rw [beq_iff_eq, ea, hc]

/-- the forward walk collects the tags of the run (stopping at a null tag) -/
theorem walkFwd_spec (langs : List (Bytes × Tag)) (f : Nat) (r0 : Bytes × Tag) (h0 : langs[f]? = some r0) :
    ∀ cnt i acc, acc.length + cnt ≤ 3 → f + i + cnt ≤ langs.length →
      walkFwd langs f cnt i acc =
        .ok (acc ++ (((langs.drop (f + i)).take cnt).takeWhile (fun r => r.1 == r0.1 && r.2 != 0)).map (·.2)) := by
  intro cnt
  induction cnt with
  | zero => intro i acc _ _; simp [walkFwd]
  | succ cnt ih =>
    intro i acc h3 hn
    have hi : f + i < langs.length := by omega
    unfold walkFwd
    rw [List.getElem?_eq_getElem hi, h0]
    simp only
    have hd : langs.drop (f + i) = langs[f + i] :: langs.drop (f + i + 1) := by
      rw [List.drop_eq_getElem_cons hi]
    rw [hd, List.take_succ_cons, List.takeWhile_cons]
    by_cases hq : langs[f + i].1 = r0.1
    · have : (langs[f + i].1 != r0.1) = false := by simp [hq]
      simp only [this, Bool.false_eq_true, if_false]
      by_cases hz : langs[f + i].2 = 0
      · simp [hz]
      · have hz' : (langs[f + i].2 == 0) = false := by simp [hz]
        have hl : (acc.length == 3) = false := by simp; omega
        simp only [hz', hl, Bool.false_eq_true, if_false]
        rw [ih (i + 1) (acc ++ [langs[f + i].2]) (by simp; omega) (by omega)]
        simp [hq, hz, Nat.add_assoc]
    · have : (langs[f + i].1 != r0.1) = true := by simp [hq]
      simp [this, hq]

/-- index of the first row whose language is `k` (the table length when there is none) -/
def firstIdx (langs : List (Bytes × Tag)) (k : Bytes) : Nat := langs.findIdx (fun r => r.1 == k)

/-- what `tags_from_language` must return once the multi-subtag rules did not match: the tags of the first run of
    rows whose language is the key `k` (at most three, cut at a null tag, and — without the D14 repair — never
    reading the last table row); without such a run, the upper-cased language itself when it has three bytes. -/
def langSpec (v : Variant) (langs : List (Bytes × Tag)) (language k : Bytes) : List Tag :=
  let n := langs.length
  let f := firstIdx langs k
  if f < n then
    (((langs.drop f).take (min 3 (if v.lastRow then n - f else n - f - 1))).takeWhile
      (fun r => r.1 == k && r.2 != 0)).map (·.2)
  else if language.length = 3 then [tagToUpper (fromBytesLossy language)] else []

/-- the probe of the model's binary search -/
def langProbe (cfg : Cfg) (sub : Bytes) (i : Nat) : Except Err Ordering :=
  match cfg.langs[i]? with
  | some r => langCmp cfg.v r.1 sub
  | none => .error .oob

theorem langProbe_spec (cfg : Cfg) (ht : TableOk cfg.langs) (sub : Bytes) :
    ∀ i o, i < cfg.langs.length → langProbe cfg sub i = .ok o → o = keyProbe cfg.langs (firstSubtag sub) i := by
  intro i o hi h
  unfold langProbe at h
  unfold keyProbe
  rw [List.getElem?_eq_getElem hi] at h ⊢
  exact langCmp_spec _ _ _ (rowsOk_get ht.rows (List.getElem?_eq_getElem hi)) _ h

theorem firstIdx_of_walk {langs : List (Bytes × Tag)} (ht : TableOk langs) (k : Bytes) (f : Nat)
    (hf : f < langs.length) (he : keyProbe langs k f = .eq)
    (hp : 0 < f → keyProbe langs k (f - 1) ≠ .eq) : firstIdx langs k = f := by
  unfold firstIdx
  rw [List.findIdx_eq hf]
  constructor
  · have := (keyProbe_eq_iff (List.getElem?_eq_getElem hf)).1 he
    simp [this]
  · intro j hj
    have hm := (keyProbe_monotone ht k).le
    have h1 := hm (f - 1) f (by omega) hf
    have h2 := hm j (f - 1) (by omega) (by omega)
    have h3 := hp (by omega)
    rw [he] at h1
    have : keyProbe langs k j ≠ .eq := by
      intro hc; rw [hc] at h2
      cases hq : keyProbe langs k (f - 1) <;> simp_all [rank]
    rw [Ne, keyProbe_eq_iff (List.getElem?_eq_getElem (by omega))] at this
    simp [this]

theorem tagsFromLanguage_spec (cfg : Cfg) (ht : TableOk cfg.langs) (language sub : Bytes) (r : List Tag)
    (hc : complexLanguage cfg language = .ok none) (hs : sublangOf language = .ok sub)
    (h : tagsFromLanguage cfg language = .ok r) :
    r = langSpec cfg.v cfg.langs language (firstSubtag sub) := by
  unfold tagsFromLanguage at h
  simp only [bind, Except.bind, hc, hs] at h
  generalize hbs : binarySearchBy cfg.langs.length _ = bs at h
  have hbs' : binarySearchBy cfg.langs.length (langProbe cfg sub) = bs := hbs
  clear hbs
  cases bs with
  | error e => cases h
  | ok found =>
    have hfound := hbs'
    simp only at h
    have hb := binarySearch_finds (langProbe_spec cfg ht sub) (keyProbe_monotone ht _) found hfound
    unfold langSpec
    cases found with
    | none =>
      simp only at h
      have hnone := hb.2 rfl
      have : firstIdx cfg.langs (firstSubtag sub) = cfg.langs.length := by
        unfold firstIdx
        rw [List.findIdx_eq_length]
        intro x hx
        obtain ⟨i, hi, rfl⟩ := List.getElem_of_mem hx
        have := hnone i hi
        rw [Ne, keyProbe_eq_iff (List.getElem?_eq_getElem hi)] at this
        simp [this]
      simp only [this, Nat.lt_irrefl, if_false]
      split at h <;> rename_i hl
      · simp at hl; injection h with h; simp [hl, h]
      · simp at hl; injection h with h; simp [hl, h]
    | some idx =>
      simp only at h
      obtain ⟨hidx, heq⟩ := hb.1 idx rfl
      obtain ⟨f, hf, hle, hfe, hfp⟩ := walkBack_spec cfg.langs _ idx hidx heq
      rw [hf] at h
      simp only at h
      have hfl : f < cfg.langs.length := by omega
      have hfi := firstIdx_of_walk ht _ f hfl hfe hfp
      have hk := (keyProbe_eq_iff (List.getElem?_eq_getElem hfl)).1 hfe
      rw [walkFwd_spec cfg.langs f _ (List.getElem?_eq_getElem hfl) _ 0 [] (by simp; omega)
        (by split <;> omega)] at h
      injection h with h
      simp only [hfi, hfl, if_true, ← h, hk, List.nil_append, Nat.add_zero]

/-! ## well-formedness of strings -/

/-- a continuation byte is never the first byte and never directly follows an ASCII byte.
    Every valid UTF-8 string satisfies this (a continuation byte follows a lead or a continuation byte);
    it is all the slicing arguments below need. -/
def Wf (s : Bytes) : Prop :=
  ∀ i b, s[i]? = some b → isCont b = true → ∃ a, 0 < i ∧ s[i - 1]? = some a ∧ 128 ≤ a

theorem Ascii.wf {s : Bytes} (h : Ascii s) : Wf s := by
  intro i b hb hc
  have := h b (List.mem_of_getElem? hb)
  unfold isCont at hc; simp at hc; omega

theorem Wf.boundary_after {s : Bytes} (h : Wf s) {i a : Nat} (hi : 0 < i) (ha : s[i - 1]? = some a)
    (hlt : a < 128) : isBoundary s i = true := by
  unfold isBoundary
  cases hb : s[i]? with
  | none =>
    have h1 : i - 1 < s.length := by
      rcases Nat.lt_or_ge (i - 1) s.length with h | h
      · exact h
      · rw [List.getElem?_eq_none h] at ha; cases ha
    have h2 : s.length ≤ i := by
      rcases Nat.lt_or_ge i s.length with h | h
      · rw [List.getElem?_eq_getElem h] at hb; cases hb
      · exact h
    have : i = s.length := by omega
    simp [this]
  | some b =>
    cases hc : isCont b with
    | false => simp [hc]
    | true =>
      obtain ⟨a', _, ha', hge⟩ := h i b hb hc
      rw [ha] at ha'; cases ha'; omega

theorem Wf.take {s : Bytes} (h : Wf s) (n : Nat) : Wf (s.take n) := by
  intro i b hb hc
  rw [List.getElem?_take] at hb
  split at hb
  · rename_i hin
    obtain ⟨a, h0, ha, hge⟩ := h i b hb hc
    refine ⟨a, h0, ?_, hge⟩
    rw [List.getElem?_take, if_pos (by omega)]; exact ha
  · cases hb

theorem Wf.drop {s : Bytes} (h : Wf s) {n : Nat} (hn : isBoundary s n = true) : Wf (s.drop n) := by
  intro i b hb hc
  rw [List.getElem?_drop] at hb
  obtain ⟨a, h0, ha, hge⟩ := h (n + i) b hb hc
  by_cases hi : i = 0
  · subst hi
    unfold isBoundary at hn
    simp only [Nat.add_zero] at hb
    rw [hb] at hn
    simp [hc] at hn
    subst hn; simp at h0
  · refine ⟨a, by omega, ?_, hge⟩
    rw [List.getElem?_drop]
    have : n + (i - 1) = n + i - 1 := by omega
    rw [this]; exact ha

theorem toLower_lt {b : Nat} (h : b < 128) : toLower b < 128 := by unfold toLower; split <;> omega
theorem toLower_ge {b : Nat} (h : 128 ≤ b) : toLower b = b := by unfold toLower; split <;> omega
theorem isCont_toLower (b : Nat) : isCont (toLower b) = isCont b := by
  unfold toLower; split
  · rename_i h; unfold isCont
    have h1 : ¬ (128 ≤ b + 32) := by omega
    have h2 : ¬ (128 ≤ b) := by omega
    simp [h1, h2]
  · rfl

theorem Ascii.map_toLower {s : Bytes} (h : Ascii s) : Ascii (s.map toLower) := by
  intro x hx
  rw [List.mem_map] at hx
  obtain ⟨y, hy, rfl⟩ := hx
  exact toLower_lt (h y hy)

theorem Wf.map_toLower {s : Bytes} (h : Wf s) : Wf (s.map toLower) := by
  intro i b hb hc
  rw [List.getElem?_map] at hb
  cases hs : s[i]? with
  | none => rw [hs] at hb; cases hb
  | some b0 =>
    rw [hs] at hb; simp at hb; subst hb
    rw [isCont_toLower] at hc
    obtain ⟨a, h0, ha, hge⟩ := h i b0 hs hc
    refine ⟨toLower a, h0, ?_, ?_⟩
    · rw [List.getElem?_map, ha]; rfl
    · rw [toLower_ge hge]; exact hge

/-- the slices of `s` cannot panic: `s` is well-formed and either the two comparison routines look at bytes
    (defects D10, D10b repaired) or `s` is plain ASCII -/
def Safe (v : Variant) (s : Bytes) : Prop :=
  Wf s ∧ ((v.cmpBytes = true ∧ v.strncmpBytes = true) ∨ Ascii s)

theorem Safe.take {v : Variant} {s : Bytes} (h : Safe v s) (n : Nat) : Safe v (s.take n) :=
  ⟨h.1.take n, h.2.elim Or.inl (fun a => Or.inr (a.take n))⟩

theorem Safe.drop {v : Variant} {s : Bytes} (h : Safe v s) {n : Nat} (hn : isBoundary s n = true) :
    Safe v (s.drop n) :=
  ⟨h.1.drop hn, h.2.elim Or.inl (fun a => Or.inr (a.drop n))⟩

theorem Safe.map_toLower {v : Variant} {s : Bytes} (h : Safe v s) : Safe v (s.map toLower) :=
  ⟨h.1.map_toLower, h.2.elim Or.inl (fun a => Or.inr a.map_toLower)⟩


/-! ## totality of the pieces -/

theorem strFrom_ok {s : Bytes} {i : Nat} (h : isBoundary s i = true) : strFrom s i = .ok (s.drop i) := by
  unfold strFrom; simp [h]
theorem strTo_ok {s : Bytes} {i : Nat} (h : isBoundary s i = true) : strTo s i = .ok (s.take i) := by
  unfold strTo; simp [h]

theorem isBoundary_of_get_lt {s : Bytes} {i b : Nat} (h : s[i]? = some b) (hb : b < 128) :
    isBoundary s i = true :=
  isBoundary_of_not_cont s i b h (by unfold isCont; simp; omega)

theorem getElem?_of_drop_cons {s : Bytes} {i c : Nat} {rest : Bytes} (h : s.drop i = c :: rest) :
    s[i]? = some c ∧ s.drop (i + 1) = rest ∧ i < s.length := by
  have hl : i < s.length := by
    rcases Nat.lt_or_ge i s.length with h1 | h1
    · exact h1
    · rw [List.drop_of_length_le h1] at h; cases h
  rw [List.drop_eq_getElem_cons hl] at h
  injection h with h1 h2
  exact ⟨by rw [List.getElem?_eq_getElem hl, h1], h2, hl⟩

/-- the subtag scan never panics; the prefix is a prefix of the language, the private-use part a
    suffix starting at a char boundary, and the final index is a char boundary -/
theorem scan_total (language : Bytes) :
    ∀ rest i pfx, i ≤ language.length → language.drop i = rest → (pfx = [] ∨ ∃ j, pfx = language.take j) →
      ∃ i' pfx' pu', scan language rest i pfx = .ok (i', pfx', pu') ∧
        (pfx' = [] ∨ ∃ j, pfx' = language.take j) ∧
        (∀ p, pu' = some p → ∃ j, p = language.drop j ∧ isBoundary language j = true) ∧
        isBoundary language i' = true := by
  intro rest
  induction rest with
  | nil =>
    intro i pfx hi hd hp
    refine ⟨i, pfx, none, rfl, hp, by simp, ?_⟩
    have hl : language.length ≤ i := by
      have := congrArg List.length hd; simp at this; omega
    have : i = language.length := by omega
    subst this; exact isBoundary_length _
  | cons c rest ih =>
    intro i pfx hi hd hp
    obtain ⟨hc, hd', hlt⟩ := getElem?_of_drop_cons hd
    unfold scan
    by_cases hcond : (language[i - 1]? == some DASH && rest.head? == some DASH) = true
    · simp only [hcond, if_true]
      have hprev : language[i - 1]? = some 45 := by
        simp only [Bool.and_eq_true, beq_iff_eq] at hcond; exact hcond.1
      have hb1 : isBoundary language (i - 1) = true := isBoundary_of_get_lt hprev (by omega)
      by_cases hx : (c == LOWER_X) = true
      · simp only [hx, if_true]
        have hcx : c = 120 := by simpa [LOWER_X] using hx
        have hbi : isBoundary language i = true := isBoundary_of_get_lt hc (by omega)
        rw [strFrom_ok hbi]
        simp only [bind, Except.bind]
        by_cases he : pfx.isEmpty = true
        · simp only [he, if_true, strTo_ok hb1]
          exact ⟨i, _, _, rfl, Or.inr ⟨_, rfl⟩, by intro p hp; injection hp with hp; exact ⟨i, hp.symm, hbi⟩, hbi⟩
        · simp only [he, pure, Except.pure]
          exact ⟨i, _, _, rfl, hp, by intro p hp; injection hp with hp; exact ⟨i, hp.symm, hbi⟩, hbi⟩
      · simp only [hx, strTo_ok hb1, bind, Except.bind]
        exact ih (i + 1) _ (by omega) hd' (Or.inr ⟨_, rfl⟩)
    · simp only [hcond]
      exact ih (i + 1) _ (by omega) hd' hp

/-- `s.find(pat)`: a match starts at the returned offset -/
theorem findSub_spec (pat : Bytes) : ∀ (s : Bytes) (k j : Nat), findSub pat s k = some j →
    ∃ i, j = k + i ∧ pat.isPrefixOf (s.drop i) = true ∧ i < s.length := by
  intro s
  induction s with
  | nil => intro k j h; simp [findSub] at h
  | cons c cs ih =>
    intro k j h
    unfold findSub at h
    by_cases hp : pat.isPrefixOf (c :: cs) = true
    · simp only [hp, if_true] at h; injection h with h
      exact ⟨0, by omega, by simpa using hp, by simp⟩
    · simp only [hp] at h
      obtain ⟨i, h1, h2, h3⟩ := ih (k + 1) j h
      exact ⟨i + 1, by omega, by simpa using h2, by simp; omega⟩

theorem getElem?_of_isPrefixOf {pat s : Bytes} {i : Nat} (h : pat.isPrefixOf (s.drop i) = true) (j : Nat)
    (hj : j < pat.length) : s[i + j]? = pat[j]? := by
  rw [List.isPrefixOf_iff_prefix] at h
  obtain ⟨t, ht⟩ := h
  rw [← List.getElem?_drop, ← ht, List.getElem?_append_left hj]

/-- `parse_private_use_subtag` cannot panic on a well-formed string when the prefix is ASCII -/
theorem parsePrivate_total (pu : Option Bytes) (pfx : Bytes) (norm : Nat → Nat)
    (hw : ∀ s, pu = some s → Wf s) (hp : pfx ≠ []) (ha : Ascii pfx) :
    ∃ r, parsePrivate pu pfx norm = .ok r := by
  unfold parsePrivate
  cases pu with
  | none => exact ⟨_, rfl⟩
  | some s =>
    simp only
    cases hf : findSub pfx s 0 with
    | none => exact ⟨_, rfl⟩
    | some idx =>
      simp only
      obtain ⟨i, h1, h2, _⟩ := findSub_spec pfx s 0 idx hf
      have hi : idx = i := by omega
      subst hi
      have hlen : 0 < pfx.length := by cases pfx <;> simp_all
      have hlast := getElem?_of_isPrefixOf h2 (pfx.length - 1) (by omega)
      have hlt : pfx.length - 1 < pfx.length := by omega
      rw [List.getElem?_eq_getElem hlt] at hlast
      have hb : isBoundary s (idx + pfx.length) = true :=
        (hw s rfl).boundary_after (by omega)
          (by have : idx + pfx.length - 1 = idx + (pfx.length - 1) := by omega
              rw [this]; exact hlast)
          (ha _ (List.getElem_mem hlt))
      rw [strFrom_ok hb]
      simp only [bind, Except.bind]
      split <;> exact ⟨_, rfl⟩

theorem findDash_get {s : Bytes} (h : findDash s < s.length) : s[findDash s]? = some 45 := by
  rcases dash_split s with ⟨h1, _⟩ | ⟨_, r, h2⟩
  · omega
  · have hl := firstSubtag_length s
    have key : (firstSubtag s ++ 45 :: r)[findDash s]? = some 45 := by
      rw [List.getElem?_append_right (by omega)]; simp [hl]
    rw [← h2] at key; exact key

/-- `sublang` is the language or a suffix of it starting at a char boundary; choosing it cannot panic on a
    well-formed string -/
theorem sublangOf_total (language : Bytes) (hw : Wf language) :
    ∃ sub, sublangOf language = .ok sub ∧
      (sub = language ∨ ∃ j, sub = language.drop j ∧ isBoundary language j = true) := by
  unfold sublangOf
  simp only [bind, Except.bind]
  by_cases h1 : findDash language < language.length
  · simp only [h1, if_true]
    by_cases h2 : language.length ≥ 6
    · simp only [h2, if_true]
      have hb : isBoundary language (findDash language + 1) = true :=
        hw.boundary_after (by omega) (by simpa using findDash_get h1) (by omega)
      rw [strFrom_ok hb]
      simp only
      generalize hext : (if findDash (language.drop (findDash language + 1)) < (language.drop (findDash language + 1)).length
          then findDash (language.drop (findDash language + 1)) == 3
          else language.length - findDash language - 1 == 3) = ext
      cases ext with
      | false => exact ⟨_, rfl, Or.inl rfl⟩
      | true =>
        simp only [if_true]
        cases hg : language[findDash language + 1]? with
        | none =>
          exfalso
          have hge : language.length ≤ findDash language + 1 := by
            rcases Nat.lt_or_ge (findDash language + 1) language.length with h | h
            · rw [List.getElem?_eq_getElem h] at hg; cases hg
            · exact h
          have hl : (language.drop (findDash language + 1)).length = 0 := by simp; omega
          have hfd := findDash_le (language.drop (findDash language + 1))
          split at hext
          · omega
          · simp at hext; omega
        | some b =>
          simp only
          split
          · exact ⟨_, rfl, Or.inr ⟨_, rfl, hb⟩⟩
          · exact ⟨_, rfl, Or.inl rfl⟩
    · simp only [h2]; exact ⟨_, rfl, Or.inl rfl⟩
  · simp only [h1]; exact ⟨_, rfl, Or.inl rfl⟩

/-- the rules of `tags_from_complex_language` only ever slice after an ASCII first byte and compare with ASCII literals -/
def rulesOk (rules : List Rule) : Bool :=
  rules.all (fun r => decide (r.first < 128) && r.s1.all (fun b => decide (b < 128)))

theorem rulesOk_mem {rules : List Rule} (h : rulesOk rules = true) {r : Rule} (hr : r ∈ rules) :
    r.first < 128 ∧ Ascii r.s1 := by
  unfold rulesOk at h
  rw [List.all_eq_true] at h
  have := h r hr
  simp only [Bool.and_eq_true, decide_eq_true_eq, List.all_eq_true] at this
  exact ⟨this.1, fun x hx => this.2 x hx⟩

theorem strncmp_total (v : Variant) (s1 s2 : Bytes) (n : Nat)
    (h1 : v.strncmpBytes = true ∨ Ascii s1) (h2 : Ascii s2) : ∃ b, strncmp v s1 s2 n = .ok b := by
  have e1 := sliceTo_ok v.strncmpBytes s1 (min n s1.length) (by omega)
    (h1.elim Or.inl (fun a => Or.inr (isBoundary_of_ascii s1 a _ (by omega))))
  have e2 := sliceTo_ok v.strncmpBytes s2 (min n s2.length) (by omega)
    (Or.inr (isBoundary_of_ascii s2 h2 _ (by omega)))
  simp only [strncmp, bind, Except.bind, e1, e2]
  exact ⟨_, rfl⟩

theorem ruleHit_total (v : Variant) (language rest : Bytes) (r : Rule)
    (h1 : v.strncmpBytes = true ∨ Ascii rest) (h2 : Ascii r.s1) : ∃ b, ruleHit v language rest r = .ok b := by
  unfold ruleHit
  split
  · exact ⟨_, rfl⟩
  · split
    · exact ⟨_, rfl⟩
    · obtain ⟨b, hb⟩ := strncmp_total v rest r.s1 r.n h1 h2
      simp only [bind, Except.bind, hb]; exact ⟨_, rfl⟩

theorem evalRules_total (v : Variant) (language rest : Bytes) (h1 : v.strncmpBytes = true ∨ Ascii rest) :
    ∀ rules : List Rule, (∀ r ∈ rules, Ascii r.s1) → ∃ o, evalRules v language rest rules = .ok o := by
  intro rules
  induction rules with
  | nil => intro _; exact ⟨_, rfl⟩
  | cons r rs ih =>
    intro hr
    obtain ⟨b, hb⟩ := ruleHit_total v language rest r h1 (hr r (by simp))
    simp only [evalRules, bind, Except.bind, hb]
    split
    · exact ⟨_, rfl⟩
    · exact ih (fun x hx => hr x (by simp [hx]))

theorem complexLanguage_total (cfg : Cfg) (hr : rulesOk cfg.rules = true) (language : Bytes)
    (hne : language ≠ []) (hs : Safe cfg.v language) : ∃ o, complexLanguage cfg language = .ok o := by
  unfold complexLanguage
  split
  · exact ⟨_, rfl⟩
  · cases language with
    | nil => exact absurd rfl hne
    | cons b tl =>
      simp only
      split
      · exact ⟨_, rfl⟩
      · rename_i harm
        have : ∃ r ∈ cfg.rules, r.first = b := by
          cases hf : List.filter (fun r => r.first == b) cfg.rules with
          | nil => rw [hf] at harm; simp at harm
          | cons r _ =>
            have : r ∈ List.filter (fun r => r.first == b) cfg.rules := by rw [hf]; simp
            rw [List.mem_filter] at this
            exact ⟨r, this.1, by simpa using this.2⟩
        obtain ⟨r, hrm, hrb⟩ := this
        have hb : b < 128 := hrb ▸ (rulesOk_mem hr hrm).1
        have hbd : isBoundary (b :: tl) 1 = true :=
          hs.1.boundary_after (by omega) (by simp) hb
        rw [strFrom_ok hbd]
        simp only [bind, Except.bind]
        apply evalRules_total
        · exact hs.2.elim (fun a => Or.inl a.2) (fun a => Or.inr (a.drop 1))
        · intro r hr'
          rw [List.mem_filter] at hr'
          exact (rulesOk_mem hr hr'.1).2

theorem langProbe_total (cfg : Cfg) (ht : TableOk cfg.langs) (sub : Bytes)
    (hs : cfg.v.cmpBytes = true ∨ Ascii sub) :
    ∀ i, i < cfg.langs.length → ∃ o, langProbe cfg sub i = .ok o := by
  intro i hi
  unfold langProbe
  rw [List.getElem?_eq_getElem hi]
  exact ⟨_, langCmp_ok _ _ _ (rowsOk_get ht.rows (List.getElem?_eq_getElem hi)) hs⟩

/-- `tags_from_language` cannot panic on a non-empty well-formed string (ASCII, or any once D10 and D10b are repaired) -/
theorem tagsFromLanguage_total (cfg : Cfg) (ht : TableOk cfg.langs) (hr : rulesOk cfg.rules = true)
    (language : Bytes) (hne : language ≠ []) (hs : Safe cfg.v language) :
    ∃ r, tagsFromLanguage cfg language = .ok r := by
  obtain ⟨o, ho⟩ := complexLanguage_total cfg hr language hne hs
  obtain ⟨sub, hsub, hsd⟩ := sublangOf_total language hs.1
  have hsafe : cfg.v.cmpBytes = true ∨ Ascii sub := by
    rcases hs.2 with h | h
    · exact Or.inl h.1
    · right
      rcases hsd with rfl | ⟨j, rfl, _⟩
      · exact h
      · exact h.drop j
  unfold tagsFromLanguage
  simp only [bind, Except.bind, ho, hsub]
  cases o with
  | some ts => exact ⟨_, rfl⟩
  | none =>
    simp only
    obtain ⟨found, hfound⟩ := binarySearch_total (langProbe_total cfg ht sub hsafe)
    generalize hbs : binarySearchBy cfg.langs.length _ = bs
    have hbs2 : binarySearchBy cfg.langs.length (langProbe cfg sub) = bs := hbs
    rw [hfound] at hbs2; subst hbs2
    simp only
    have hb := binarySearch_finds (langProbe_spec cfg ht sub) (keyProbe_monotone ht _) found hfound
    cases found with
    | none => simp only; split <;> exact ⟨_, rfl⟩
    | some idx =>
      simp only
      obtain ⟨hidx, heq⟩ := hb.1 idx rfl
      obtain ⟨f, hf, hle, hfe, hfp⟩ := walkBack_spec cfg.langs _ idx hidx heq
      rw [hf]
      simp only
      have hfl : f < cfg.langs.length := by omega
      rw [walkFwd_spec cfg.langs f _ (List.getElem?_eq_getElem hfl) _ 0 [] (by simp; omega)
        (by split <;> omega)]
      exact ⟨_, rfl⟩

theorem HBSC_ascii : Ascii HBSC := by intro x hx; simp [HBSC] at hx; omega
theorem HBOT_ascii : Ascii HBOT := by intro x hx; simp [HBOT] at hx; omega

/-- the tail of `tags_from_script_and_language` once prefix and private-use subtag are known -/
theorem tags_tail_total (cfg : Cfg) (ht : TableOk cfg.langs) (hr : rulesOk cfg.rules = true)
    (script : Option Tag) (pfx : Bytes) (pu : Option Bytes)
    (hpfx : Safe cfg.v pfx) (hpu : ∀ s, pu = some s → Wf s) :
    ∃ r, (do
      let sc ← parsePrivate pu HBSC toLower
      let lg ← parsePrivate pu HBOT toUpper
      let languages ←
        match lg with
        | some t => pure [t]
        | none =>
          match languageFromStr pfx with
          | some p => tagsFromLanguage cfg p
          | none => pure []
      let scripts := match sc with
        | some t => [t]
        | none => allTagsFromScript script
      (.ok (scripts, languages) : Except Err (List Tag × List Tag))) = .ok r := by
  obtain ⟨sc, hsc⟩ := parsePrivate_total pu HBSC toLower hpu (by decide) HBSC_ascii
  obtain ⟨lg, hlg⟩ := parsePrivate_total pu HBOT toUpper hpu (by decide) HBOT_ascii
  simp only [bind, Except.bind, hsc, hlg]
  cases lg with
  | some t => exact ⟨_, rfl⟩
  | none =>
    unfold languageFromStr
    by_cases he : pfx.isEmpty = true
    · rw [if_pos he]; exact ⟨_, rfl⟩
    · rw [if_neg he]
      have hne : pfx.map toLower ≠ [] := by
        cases pfx <;> simp_all
      obtain ⟨r, hr'⟩ := tagsFromLanguage_total cfg ht hr _ hne hpfx.map_toLower
      simp only [hr']; exact ⟨_, rfl⟩

/-- `tags_from_script_and_language` cannot panic on a non-empty well-formed language string that is ASCII —
    or on any such string once D10 and D10b are repaired -/
theorem tagsFromScriptAndLanguage_total (cfg : Cfg) (ht : TableOk cfg.langs) (hr : rulesOk cfg.rules = true)
    (script : Option Tag) (language : Bytes) (hne : language ≠ []) (hs : Safe cfg.v language) :
    ∃ r, tagsFromScriptAndLanguage cfg script (some language) = .ok r := by
  unfold tagsFromScriptAndLanguage
  simp only
  by_cases hx : ([LOWER_X, DASH] : Bytes).isPrefixOf language = true
  · simp only [hx, if_true, pure, Except.pure, bind, Except.bind]
    have hempty : Safe cfg.v ([] : Bytes) := ⟨by intro i b hb; simp at hb, Or.inr (by intro x hx; simp at hx)⟩
    exact tags_tail_total cfg ht hr script [] (some language) hempty (by intro s h; injection h with h; exact h ▸ hs.1)
  · simp only [hx]
    have hlen : 1 ≤ language.length := by cases language <;> simp_all
    obtain ⟨i', pfx', pu', hscan, hpfx, hpu, hbd⟩ := scan_total language (language.drop 1) 1 [] hlen rfl (Or.inl rfl)
    simp only [bind, Except.bind, hscan]
    have hpuw : ∀ s, pu' = some s → Wf s := by
      intro s h
      obtain ⟨j, hj, hb⟩ := hpu s h
      rw [hj]; exact hs.1.drop hb
    by_cases he : pfx'.isEmpty = true
    · simp only [he, if_true, strTo_ok hbd]
      exact tags_tail_total cfg ht hr script _ pu' (hs.take i') hpuw
    · simp only [he, pure, Except.pure]
      have : Safe cfg.v pfx' := by
        rcases hpfx with h | ⟨j, h⟩
        · rw [h] at he; simp at he
        · rw [h]; exact hs.take j
      exact tags_tail_total cfg ht hr script _ pu' this hpuw

/-! ## record lists of a font: `RecordList::index` on strictly sorted tags -/

theorem rank_compare_mono {a b t : Nat} (h : a ≤ b) : rank (compare a t) ≤ rank (compare b t) := by
  rcases Nat.lt_trichotomy a t with h1 | h1 | h1 <;> rcases Nat.lt_trichotomy b t with h2 | h2 | h2
  all_goals (try omega)
  all_goals simp [Nat.compare_eq_lt.2, Nat.compare_eq_gt.2, rank, *]

theorem recIndex_spec (tags : List Tag) (hs : tags.Pairwise (· < ·)) (t : Tag) :
    recIndex tags t = .ok (if t ∈ tags then some (tags.idxOf t) else none) := by
  let p : Nat → Ordering := fun i => match tags[i]? with | some x => compare x t | none => .gt
  have hp : ∀ i, i < tags.length → (match tags[i]? with
      | some x => (.ok (compare x t) : Except Err Ordering)
      | none => .error .oob) = .ok (p i) := by
    intro i hi; simp only [p]; rw [List.getElem?_eq_getElem hi]
  have hlt : ∀ i j (hi : i < j) (hj : j < tags.length), tags[i] < tags[j] := by
    intro i j hi hj; exact List.pairwise_iff_getElem.1 hs i j (by omega) hj hi
  have hm : Monotone tags.length p := by
    intro i hi
    simp only [p]
    rw [List.getElem?_eq_getElem hi, List.getElem?_eq_getElem (by omega)]
    exact rank_compare_mono (Nat.le_of_lt (hlt i (i + 1) (by omega) hi))
  obtain ⟨r, hr⟩ := binarySearch_total (n := tags.length) (probe := fun i => match tags[i]? with
      | some x => (.ok (compare x t) : Except Err Ordering)
      | none => .error .oob) (fun i hi => ⟨_, hp i hi⟩)
  have hf := binarySearch_finds (p := p) (fun i o hi ho => by rw [hp i hi] at ho; injection ho with ho; exact ho.symm) hm r hr
  have hr' : recIndex tags t = .ok r := hr
  rw [hr']
  congr 1
  cases r with
  | none =>
    have hn := hf.2 rfl
    have : t ∉ tags := by
      intro hmem
      obtain ⟨i, hi, rfl⟩ := List.getElem_of_mem hmem
      have := hn i hi
      simp only [p] at this
      rw [List.getElem?_eq_getElem hi] at this
      simp at this
    simp [this]
  | some b =>
    obtain ⟨hb, he⟩ := hf.1 b rfl
    simp only [p] at he
    rw [List.getElem?_eq_getElem hb] at he
    have heq : tags[b] = t := by simpa [Nat.compare_eq_eq] using he
    have hmem : t ∈ tags := heq ▸ List.getElem_mem hb
    simp only [hmem, if_true]
    congr 1
    -- the first index holding `t` is `b` (tags are strictly increasing)
    have hidx : tags.idxOf t < tags.length := List.idxOf_lt_length_of_mem hmem
    have hget : tags[tags.idxOf t] = t := by simp
    rcases Nat.lt_trichotomy (tags.idxOf t) b with h | h | h
    · have := hlt _ _ h hb; rw [hget, heq] at this; exact absurd this (Nat.lt_irrefl _)
    · exact h.symm
    · have := hlt _ _ h hidx; rw [hget, heq] at this; exact absurd this (Nat.lt_irrefl _)

/-- `select_script` tries the candidates in order -/
theorem firstIndexed_spec (tags : List Tag) (hs : tags.Pairwise (· < ·)) :
    ∀ cands : List Tag, firstIndexed tags cands =
      .ok ((cands.find? (fun t => decide (t ∈ tags))).map (fun t => (tags.idxOf t, t))) := by
  intro cands
  induction cands with
  | nil => rfl
  | cons t ts ih =>
    unfold firstIndexed
    simp only [bind, Except.bind, recIndex_spec tags hs t]
    by_cases h : t ∈ tags
    · simp [h]
    · simp [h, ih]

/-! ## the multi-subtag rules depend on the variant only through `strncmpBytes` -/

theorem strncmp_congr {v v' : Variant} (h : v.strncmpBytes = v'.strncmpBytes) (a b : Bytes) (n : Nat) :
    strncmp v a b n = strncmp v' a b n := by unfold strncmp; rw [h]

theorem evalRules_congr {v v' : Variant} (h : v.strncmpBytes = v'.strncmpBytes) (language rest : Bytes) :
    ∀ rules, evalRules v language rest rules = evalRules v' language rest rules := by
  intro rules
  induction rules with
  | nil => rfl
  | cons r rs ih => simp only [evalRules, ruleHit, strncmp_congr h, ih]

theorem complexLanguage_congr (langs langs' : List (Bytes × Tag)) (pre : List (Bytes × List Tag)) (rules : List Rule)
    {v v' : Variant} (h : v.strncmpBytes = v'.strncmpBytes) (language : Bytes) :
    complexLanguage ⟨langs, pre, rules, v⟩ language = complexLanguage ⟨langs', pre, rules, v'⟩ language := by
  simp only [complexLanguage, evalRules_congr h]

/-- no multi-subtag rule fires on any language of the table (checked on the generated table, per value of the
    only switch the rules depend on) -/
def noRule (b : Bool) : Bool :=
  Gen.Lang.languages.all (fun r =>
    match complexLanguage (cfgOf ⟨false, b, false⟩) r.1 with
    | .ok none => true
    | _ => false)

theorem noRule_get {v : Variant} (h : noRule v.strncmpBytes = true) {i : Nat} {r : Bytes × Tag}
    (hr : Gen.Lang.languages[i]? = some r) : complexLanguage (cfgOf v) r.1 = .ok none := by
  unfold noRule at h
  rw [List.all_eq_true] at h
  have := h r (List.mem_of_getElem? hr)
  have e : complexLanguage (cfgOf v) r.1 = complexLanguage (cfgOf ⟨false, v.strncmpBytes, false⟩) r.1 :=
    complexLanguage_congr _ _ _ _ (v := v) (v' := ⟨false, v.strncmpBytes, false⟩) rfl _
  rw [e]
  split at this
  · assumption
  · cases this

theorem sublangOf_nodash (l : Bytes) (h : ∀ x ∈ l, 45 < x) : sublangOf l = .ok l := by
  unfold sublangOf
  simp [findDash_eq_length_of_gt l h]

theorem firstSubtag_nodash (l : Bytes) (h : ∀ x ∈ l, 45 < x) : firstSubtag l = l := by
  unfold firstSubtag; rw [findDash_eq_length_of_gt l h, List.take_length]

/-- the tag registered first for a language: the tag of its first row, unless null -/
def firstRegistered (langs : List (Bytes × Tag)) (l : Bytes) : Option Tag :=
  match langs[firstIdx langs l]? with
  | some r => if r.2 = 0 then none else some r.2
  | none => none

theorem langSpec_head (v : Variant) (langs : List (Bytes × Tag)) (language k : Bytes)
    (hf : firstIdx langs k < langs.length)
    (hlim : v.lastRow = true ∨ firstIdx langs k + 1 < langs.length) :
    (langSpec v langs language k).head? = firstRegistered langs k := by
  unfold langSpec firstRegistered
  simp only [hf, if_true]
  rw [List.getElem?_eq_getElem hf]
  have hk : (langs[firstIdx langs k].1 == k) = true := by
    unfold firstIdx at hf ⊢
    exact List.findIdx_getElem (w := hf)
  have hd := List.drop_eq_getElem_cons hf
  rw [hd]
  have : ∃ m, min 3 (if v.lastRow = true then langs.length - firstIdx langs k else langs.length - firstIdx langs k - 1) = m + 1 := by
    refine ⟨min 3 (if v.lastRow = true then langs.length - firstIdx langs k else langs.length - firstIdx langs k - 1) - 1, ?_⟩
    rcases hlim with h | h
    · simp only [h, if_true]; omega
    · split <;> omega
  obtain ⟨m, hm⟩ := this
  rw [hm, List.take_succ_cons, List.takeWhile_cons]
  by_cases hz : langs[firstIdx langs k].2 = 0
  · simp [hz, hk]
  · simp [hz, hk]

/-- every row (of the generated table) reaches the first tag registered for its language — provided the walk may
    reach it: either the D14 repair is in, or the row is not the last one -/
theorem lang_complete (v : Variant) (ht : TableOk Gen.Lang.languages)
    (hr : rulesOk (cfgOf v).rules = true) (hn : noRule v.strncmpBytes = true)
    (i : Nat) (hi : i < Gen.Lang.languages.length)
    (hlim : v.lastRow = true ∨ i + 1 < Gen.Lang.languages.length) :
    ∃ ts, tagsFromLanguage (cfgOf v) Gen.Lang.languages[i].1 = .ok ts ∧
      ts.head? = firstRegistered Gen.Lang.languages Gen.Lang.languages[i].1 := by
  have hrow := List.getElem?_eq_getElem hi
  generalize Gen.Lang.languages[i] = row at hrow
  have hgt := rowsOk_get ht.rows hrow
  have hasc : Ascii row.1 := rowsOk_ascii ht.rows hrow
  have hsafe : Safe (cfgOf v).v row.1 := ⟨hasc.wf, Or.inr hasc⟩
  have ht' : TableOk (cfgOf v).langs := ht
  obtain ⟨ts, hts⟩ := tagsFromLanguage_total (cfgOf v) ht' hr row.1 (rowsOk_ne ht.rows hrow) hsafe
  have hspec := tagsFromLanguage_spec (cfgOf v) ht' row.1 row.1 ts (noRule_get hn hrow)
    (sublangOf_nodash _ hgt) hts
  rw [firstSubtag_nodash _ hgt] at hspec
  refine ⟨ts, hts, ?_⟩
  have hle : firstIdx Gen.Lang.languages row.1 ≤ i := by
    rcases Nat.lt_or_ge i (firstIdx Gen.Lang.languages row.1) with h | h
    · have := List.not_of_lt_findIdx h
      rw [List.getElem?_eq_getElem hi] at hrow
      injection hrow with hrow
      rw [hrow] at this; simp at this
    · exact h
  rw [hspec]
  show (langSpec v Gen.Lang.languages row.1 row.1).head? = _
  exact langSpec_head v Gen.Lang.languages _ _ (by omega) (hlim.elim Or.inl (fun h => Or.inr (by omega)))

/-! ## case folding, private use -/

theorem toLower_toLower (b : Nat) : toLower (toLower b) = toLower b := by
  unfold toLower; split <;> (try split) <;> omega
theorem toLower_toUpper (b : Nat) : toLower (toUpper b) = toLower b := by
  unfold toLower toUpper; split <;> split <;> (try split) <;> omega

theorem languageFromStr_lower (s : Bytes) : languageFromStr (s.map toLower) = languageFromStr s := by
  unfold languageFromStr
  cases s <;> simp [toLower_toLower]
theorem languageFromStr_upper (s : Bytes) : languageFromStr (s.map toUpper) = languageFromStr s := by
  unfold languageFromStr
  cases s <;> simp [toLower_toUpper]

/-- the tag a private-use subtag `-hbot<t>` / `-hbsc<t>` denotes -/
def privTag (norm : Nat → Nat) (t : Bytes) : Tag :=
  let x := fromBytesLossy (t.map norm)
  if x &&& 0xDFDFDFDF == TAG_DFLT then x ^^^ 0x20202020 else x

theorem takeWhile_all {p : Nat → Bool} (l : List Nat) (h : ∀ x ∈ l, p x = true) : l.takeWhile p = l := by
  induction l with
  | nil => rfl
  | cons a as ih =>
    rw [List.takeWhile_cons_of_pos (h a (by simp)), ih (fun x hx => h x (by simp [hx]))]

theorem takeWhile_take_alnum (t rest : Bytes) (h1 : ∀ x ∈ t, isAlnum x = true) (h2 : t.length ≤ 4)
    (h3 : t.length = 4 ∨ rest = [] ∨ ∃ c r, rest = c :: r ∧ isAlnum c = false) :
    ((t ++ rest).take 4).takeWhile isAlnum = t := by
  rcases h3 with h | h | ⟨c, r, h, hc⟩
  · rw [List.take_append_of_le_length (by omega), List.take_of_length_le (by omega)]
    exact takeWhile_all _ h1
  · subst h; rw [List.append_nil, List.take_of_length_le (by omega)]
    exact takeWhile_all _ h1
  · subst h
    rw [List.take_append]
    by_cases h4 : t.length = 4
    · rw [List.take_of_length_le (by omega)]; simp [h4]
      exact takeWhile_all _ h1
    · obtain ⟨m, hm⟩ : ∃ m, 4 - t.length = m + 1 := ⟨4 - t.length - 1, by omega⟩
      rw [List.take_of_length_le (by omega), hm, List.take_succ_cons,
        List.takeWhile_append_of_pos h1, List.takeWhile_cons_of_neg (by simp [hc])]
      simp

/-- `x-hbot<t>…` / `x-hbsc<t>…`: the private-use parser returns exactly the tag spelled by `t` -/
theorem parsePrivate_x (pat : Bytes) (hp : pat = HBOT ∨ pat = HBSC) (norm : Nat → Nat) (t rest : Bytes)
    (h0 : t ≠ []) (h1 : ∀ x ∈ t, isAlnum x = true) (h2 : t.length ≤ 4)
    (h3 : t.length = 4 ∨ rest = [] ∨ ∃ c r, rest = c :: r ∧ isAlnum c = false) :
    parsePrivate (some (120 :: (pat ++ t ++ rest))) pat norm = .ok (some (privTag norm t)) := by
  have hfind : findSub pat (120 :: (pat ++ t ++ rest)) 0 = some 1 := by
    rcases hp with rfl | rfl <;> simp [findSub, HBOT, HBSC, List.isPrefixOf]
  have hlen : pat.length = 5 := by rcases hp with rfl | rfl <;> rfl
  have hdrop : (120 :: (pat ++ t ++ rest)).drop (1 + pat.length) = t ++ rest := by
    rw [Nat.add_comm, ← List.drop_drop]
    simp [List.append_assoc]
  have hb : isBoundary (120 :: (pat ++ t ++ rest)) (1 + pat.length) = true := by
    cases t with
    | nil => exact absurd rfl h0
    | cons c cs =>
      have hc : isAlnum c = true := h1 c (by simp)
      apply isBoundary_of_get_lt (b := c)
      · have := congrArg (fun l => l[0]?) hdrop
        simpa [List.getElem?_drop] using this
      · unfold isAlnum isAlpha at hc; simp at hc; omega
  unfold parsePrivate
  simp only [hfind, strFrom_ok hb, bind, Except.bind, hdrop, takeWhile_take_alnum t rest h1 h2 h3]
  have : (t.map norm).isEmpty = false := by cases t <;> simp_all
  simp only [this, Bool.false_eq_true, if_false, privTag]

/-! ## UTF-8 validity (RFC 3629 / Unicode table 3-7) implies `Wf` -/

/-- well-formed UTF-8 byte sequences, exactly as `core::str::from_utf8` accepts them -/
def validUtf8 : Bytes → Bool
  | [] => true
  | b0 :: rest =>
    if b0 < 128 then validUtf8 rest
    else if 194 ≤ b0 ∧ b0 ≤ 223 then
      match rest with
      | b1 :: r => isCont b1 && validUtf8 r
      | _ => false
    else if 224 ≤ b0 ∧ b0 ≤ 239 then
      match rest with
      | b1 :: b2 :: r =>
        isCont b1 && isCont b2 && (b0 != 224 || 160 ≤ b1) && (b0 != 237 || b1 ≤ 159) && validUtf8 r
      | _ => false
    else if 240 ≤ b0 ∧ b0 ≤ 244 then
      match rest with
      | b1 :: b2 :: b3 :: r =>
        isCont b1 && isCont b2 && isCont b3 && (b0 != 240 || 144 ≤ b1) && (b0 != 244 || b1 ≤ 143) && validUtf8 r
      | _ => false
    else false

/-- `Wf` without the condition on the first byte -/
def Wf' (s : Bytes) : Prop :=
  ∀ i b, 0 < i → s[i]? = some b → isCont b = true → ∃ a, s[i - 1]? = some a ∧ 128 ≤ a

theorem Wf'.cons {s : Bytes} (h : Wf' s) (b : Nat) (hb : ∀ x, s.head? = some x → isCont x = true → 128 ≤ b) :
    Wf' (b :: s) := by
  intro i c hi hc hcont
  match i, hi with
  | 1, _ =>
    simp at hc
    refine ⟨b, by simp, hb c ?_ hcont⟩
    cases s <;> simp_all
  | i + 2, _ =>
    simp at hc
    obtain ⟨a, ha, hge⟩ := h (i + 1) c (by omega) hc hcont
    exact ⟨a, by simpa using ha, hge⟩

theorem wf_of_wf' {s : Bytes} (h : Wf' s) (h0 : ∀ x, s.head? = some x → isCont x = false) : Wf s := by
  intro i b hb hc
  match i with
  | 0 =>
    have := h0 b (by cases s <;> simp_all)
    rw [this] at hc; cases hc
  | i + 1 =>
    obtain ⟨a, ha, hge⟩ := h (i + 1) b (by omega) hb hc
    exact ⟨a, by omega, ha, hge⟩

theorem validUtf8_wf' : ∀ s : Bytes, validUtf8 s = true → Wf' s ∧ (∀ x, s.head? = some x → isCont x = false) := by
  intro s
  fun_induction validUtf8 s with
  | case1 => intro _; exact ⟨by intro i b _ hb; simp at hb, by simp⟩
  | case2 b0 rest h0 ih =>
    intro h
    obtain ⟨h1, h2⟩ := ih h
    refine ⟨h1.cons b0 ?_, ?_⟩
    · intro x hx hc; rw [h2 x hx] at hc; cases hc
    · intro x hx; simp at hx; subst hx; unfold isCont; simp; omega
  | case3 b0 h0 hr b1 r ih =>
    intro h
    simp only [Bool.and_eq_true] at h
    obtain ⟨h1, h2⟩ := ih h.2
    refine ⟨?_, ?_⟩
    · apply Wf'.cons
      · apply h1.cons
        intro x hx hc; rw [h2 x hx] at hc; cases hc
      · intro x _ _; omega
    · intro x hx; simp at hx; subst hx; unfold isCont; simp; omega
  | case4 b0 h0 hr rest hne => intro h; cases h
  | case5 b0 h0 h1 hr b1 b2 r ih =>
    intro h
    simp only [Bool.and_eq_true] at h
    obtain ⟨h1', h2⟩ := ih h.2
    have hc2 : 128 ≤ b1 := by have := h.1.1.1.1; unfold isCont at this; simp at this; omega
    refine ⟨?_, ?_⟩
    · apply Wf'.cons
      · apply Wf'.cons
        · apply h1'.cons
          intro x hx hc; rw [h2 x hx] at hc; cases hc
        · intro x _ _; exact hc2
      · intro x _ _; omega
    · intro x hx; simp at hx; subst hx; unfold isCont; simp; omega
  | case6 b0 h0 h1 hr rest hne => intro h; cases h
  | case7 b0 h0 h1 h2 hr b1 b2 b3 r ih =>
    intro h
    simp only [Bool.and_eq_true] at h
    obtain ⟨h1', h2'⟩ := ih h.2
    have hc1 : 128 ≤ b1 := by have := h.1.1.1.1.1; unfold isCont at this; simp at this; omega
    have hc2 : 128 ≤ b2 := by have := h.1.1.1.1.2; unfold isCont at this; simp at this; omega
    refine ⟨?_, ?_⟩
    · apply Wf'.cons
      · apply Wf'.cons
        · apply Wf'.cons
          · apply h1'.cons
            intro x hx hc; rw [h2' x hx] at hc; cases hc
          · intro x _ _; exact hc2
        · intro x _ _; exact hc1
      · intro x _ _; omega
    · intro x hx; simp at hx; subst hx; unfold isCont; simp; omega
  | case8 b0 h0 h1 h2 hr rest hne => intro h; cases h
  | case9 b0 h0 h1 h2 h3 => intro h; cases h

/-- every valid UTF-8 string is well formed in the sense the slicing arguments need -/
theorem Utf8.wf (s : Bytes) (h : validUtf8 s = true) : Wf s :=
  let ⟨a, b⟩ := validUtf8_wf' s h
  wf_of_wf' a b


/-! ## feature resolution (`collect_feature_maps` on the selected records) -/

/-- `Some(b)` comes out of the final probe only -/
theorem binarySearchBy_some {n : Nat} {probe : Nat → Except Err Ordering} {b : Nat}
    (h : binarySearchBy n probe = .ok (some b)) : probe b = .ok .eq := by
  unfold binarySearchBy at h
  split at h
  · cases h
  · simp only [bind, Except.bind] at h
    split at h
    · cases h
    · split at h
      · cases h
      · rename_i b' _ c hc
        injection h with h
        split at h
        · rename_i hceq
          injection h with h; subst h
          cases c <;> simp_all
        · cases h

theorem recIndex_ok (tags : List Tag) (t : Tag) : ∃ r, recIndex tags t = .ok r := by
  unfold recIndex
  apply binarySearch_total
  intro i hi
  rw [List.getElem?_eq_getElem hi]; exact ⟨_, rfl⟩

/-- whatever the order of the records: a hit of `RecordList::index` carries the tag -/
theorem recIndex_some {tags : List Tag} {t : Tag} {b : Nat} (h : recIndex tags t = .ok (some b)) :
    tags[b]? = some t := by
  have hp := binarySearchBy_some h
  cases hb : tags[b]? with
  | none => simp [hb] at hp
  | some x =>
    simp only [hb] at hp
    injection hp with hp
    rw [Nat.compare_eq_eq] at hp
    rw [hp]

/-- on records sorted by tag (tags may repeat) `RecordList::index` misses only tags the list does not have -/
theorem recIndex_none_sorted {tags : List Tag} (hs : tags.Pairwise (· ≤ ·)) {t : Tag}
    (h : recIndex tags t = .ok none) : t ∉ tags := by
  let p : Nat → Ordering := fun i => match tags[i]? with | some x => compare x t | none => .gt
  have hle : ∀ i j (hi : i < j) (hj : j < tags.length), tags[i] ≤ tags[j] := by
    intro i j hi hj; exact List.pairwise_iff_getElem.1 hs i j (by omega) hj hi
  have hm : Monotone tags.length p := by
    intro i hi
    simp only [p]
    rw [List.getElem?_eq_getElem hi, List.getElem?_eq_getElem (by omega)]
    exact rank_compare_mono (hle i (i + 1) (by omega) hi)
  have hf := binarySearch_finds (p := p)
    (fun i o hi ho => by
      rw [List.getElem?_eq_getElem hi] at ho
      injection ho with ho
      simp only [p]; rw [List.getElem?_eq_getElem hi]; exact ho.symm) hm none h
  intro hmem
  obtain ⟨i, hi, rfl⟩ := List.getElem_of_mem hmem
  have := hf.2 rfl i hi
  simp only [p] at this
  rw [List.getElem?_eq_getElem hi] at this
  simp at this

theorem findTableFeature_ok (tb : Table) (ft : Tag) : ∃ r, findTableFeature tb ft = .ok r := by
  unfold findTableFeature
  obtain ⟨r, hr⟩ := recIndex_ok tb.features ft
  simp only [bind, Except.bind, hr]
  cases r <;> exact ⟨_, rfl⟩

/-- the record the global search returns carries the tag and no earlier record does — for every FeatureList,
    sorted or not -/
theorem findTableFeature_some {tb : Table} {ft : Tag} {i : Nat} (h : findTableFeature tb ft = .ok (some i)) :
    tb.features[i]? = some ft ∧ ∀ j, j < i → tb.features[j]? ≠ some ft := by
  unfold findTableFeature at h
  obtain ⟨r, hr⟩ := recIndex_ok tb.features ft
  simp only [bind, Except.bind, hr] at h
  cases r with
  | none => cases h
  | some idx =>
    have hidx := recIndex_some hr
    simp only at h
    injection h with h; injection h with h
    cases hf : (List.range idx).find? (fun i => tb.features[i]? == some ft) with
    | none =>
      rw [hf] at h; simp only [Option.getD_none] at h; subst h
      refine ⟨hidx, ?_⟩
      intro j hj
      have := (List.find?_range_eq_none.1 hf) j hj
      simpa using this
    | some k =>
      rw [hf] at h; simp only [Option.getD_some] at h; subst h
      obtain ⟨h1, _, h3⟩ := List.find?_range_eq_some.1 hf
      refine ⟨by simpa using h1, ?_⟩
      intro j hj
      have := h3 j hj
      simpa using this

/-- on a FeatureList sorted by tag the global search misses only tags without a record -/
theorem findTableFeature_none_sorted {tb : Table} (hs : tb.features.Pairwise (· ≤ ·)) {ft : Tag}
    (h : findTableFeature tb ft = .ok none) : ft ∉ tb.features := by
  unfold findTableFeature at h
  obtain ⟨r, hr⟩ := recIndex_ok tb.features ft
  simp only [bind, Except.bind, hr] at h
  cases r with
  | none => exact recIndex_none_sorted hs hr
  | some idx => cases h


theorem langFeatureAt_present (tables : List (Option Table)) (sels : List (Option Selection)) (t : Nat) (ft : Tag)
    (h : (tables[t]?.join).isSome = false) : langFeatureAt tables sels t ft = none := by
  unfold langFeatureAt
  cases ht : tables[t]?.join with
  | none => rfl
  | some tb => simp [ht] at h

theorem anyFeatureAt_present (tables : List (Option Table)) (t : Nat) (ft : Tag)
    (h : (tables[t]?.join).isSome = false) : anyFeatureAt tables t ft = none := by
  unfold anyFeatureAt
  cases ht : tables[t]?.join with
  | none => rfl
  | some tb => simp [ht] at h

/-- the two font searches of one `collect_feature_maps` iteration, on the selected records -/
def resolve (c : Map.Cfg) (tables : List (Option Table)) (sels : List (Option Selection)) (info : Map.Info) :
    Option Nat × Option Nat :=
  let l0 := langFeatureAt tables sels 0 info.tag
  let l1 := langFeatureAt tables sels 1 info.tag
  if l0.isSome || l1.isSome then (l0, l1)
  else if info.flags &&& c.fGlobalSearch ≠ 0 then (anyFeatureAt tables 0 info.tag, anyFeatureAt tables 1 info.tag)
  else (none, none)

theorem findFeature_mapFont (c : Map.Cfg) (tables : List (Option Table)) (sels : List (Option Selection))
    (lc : Nat → Nat) (fl : Nat → Nat → Option (List Nat)) (info : Map.Info) :
    Map.findFeature c (mapFont tables sels lc fl) info = resolve c tables sels info := by
  have hl : ∀ t, (if (mapFont tables sels lc fl).present t then (mapFont tables sels lc fl).langFeature t info.tag else none)
      = langFeatureAt tables sels t info.tag := by
    intro t
    by_cases h : (mapFont tables sels lc fl).present t = true
    · rw [if_pos h]; rfl
    · rw [if_neg h]; symm; apply langFeatureAt_present
      have : (mapFont tables sels lc fl).present t = (tables[t]?.join).isSome := rfl
      rw [← this]; simpa using h
  have ha : ∀ t, (if (mapFont tables sels lc fl).present t then (mapFont tables sels lc fl).anyFeature t info.tag else none)
      = anyFeatureAt tables t info.tag := by
    intro t
    by_cases h : (mapFont tables sels lc fl).present t = true
    · rw [if_pos h]; rfl
    · rw [if_neg h]; symm; apply anyFeatureAt_present
      have : (mapFont tables sels lc fl).present t = (tables[t]?.join).isSome := rfl
      rw [← this]; simpa using h
  unfold Map.findFeature resolve
  simp only [hl, ha]

/-- every entry of the allocation loop's result was made for one of the infos, with the indices of its two searches -/
theorem feats_index_from {c : Map.Cfg} (font : Map.Font) (infos : List Map.Info) :
    ∀ (l : List Map.Info) (st : Map.Alloc), (∀ x ∈ l, x ∈ infos) →
      (∀ f ∈ st.feats, ∃ info ∈ infos, info.tag = f.tag ∧ (f.index0, f.index1) = Map.findFeature c font info) →
      ∀ f ∈ (l.foldl (Map.allocStep c font) st).feats,
        ∃ info ∈ infos, info.tag = f.tag ∧ (f.index0, f.index1) = Map.findFeature c font info
  | [], _, _, h => h
  | x :: l, st, hl, h => by
    simp only [List.foldl_cons]
    apply feats_index_from font infos l _ (fun y hy => hl y (List.mem_cons_of_mem _ hy))
    unfold Map.allocStep
    split
    · exact h
    · simp only []
      split
      · exact h
      · split
        · intro f hf
          simp only [List.mem_append, List.mem_singleton] at hf
          rcases hf with hf | hf
          · exact h f hf
          · subst hf; exact ⟨x, hl x List.mem_cons_self, rfl, rfl⟩
        · intro f hf
          simp only [List.mem_append, List.mem_singleton] at hf
          rcases hf with hf | hf
          · exact h f hf
          · subst hf; exact ⟨x, hl x List.mem_cons_self, rfl, rfl⟩

/-- the compiled feature maps, entry by entry: the (deduplicated) feature info it was made for, and its two indices -/
theorem compileFeatures_index (c : Map.Cfg) (tables : List (Option Table)) (sels : List (Option Selection))
    (isSimple : Bool) (infos : List Map.Info) (f : Map.FMap) (hf : f ∈ compileFeatures c tables sels isSimple infos) :
    ∃ info ∈ Map.dedupInfos c isSimple infos, info.tag = f.tag ∧ (f.index0, f.index1) = resolve c tables sels info := by
  unfold compileFeatures Map.collectFeatureMaps at hf
  have key := feats_index_from (c := c) (mapFont tables sels (fun _ => 0) (fun _ _ => none))
    (Map.dedupInfos c isSimple infos) (Map.dedupInfos c isSimple infos) (Map.Alloc.init c) (fun _ h => h)
    (by intro f hf; simp [Map.Alloc.init] at hf)
  have hmem : f ∈ (Map.allocAll c (mapFont tables sels (fun _ => 0) (fun _ _ => none)) (Map.dedupInfos c isSimple infos)).feats := by
    simp only [] at hf
    split at hf
    · simpa [List.mem_mergeSort] using hf
    · exact hf
  obtain ⟨info, hi, ht, hx⟩ := key f hmem
  exact ⟨info, hi, ht, by rw [hx, findFeature_mapFont]⟩


/-! ### `find_language_feature`: the loop over the listed feature indices, dangling indices included -/

/-- the loop is `find?` for "the record exists and carries the tag" -/
theorem findFeatureLoop_eq_find? (feats : List Tag) (ft : Tag) (l : List Nat) :
    findFeatureLoop feats ft l = l.find? (fun i => feats[i]? == some ft) := by
  induction l with
  | nil => rfl
  | cons i rest ih =>
    unfold findFeatureLoop
    cases h : feats[i]? with
    | none => simp [h, ih]
    | some t =>
      by_cases e : t = ft
      · subst e; simp [h]
      · simp [h, e, ih]

/-- an index past the FeatureList is skipped: the search goes on behind it -/
theorem findFeatureLoop_dangling {feats : List Tag} {i : Nat} (ft : Tag) (rest : List Nat) (h : feats[i]? = none) :
    findFeatureLoop feats ft (i :: rest) = findFeatureLoop feats ft rest := by
  rw [findFeatureLoop, h]

/-- whatever stands in front — records with other tags, dangling indices — is skipped -/
theorem findFeatureLoop_skip {feats : List Tag} {ft : Tag} :
    ∀ (pre l : List Nat), (∀ j ∈ pre, feats[j]? ≠ some ft) →
      findFeatureLoop feats ft (pre ++ l) = findFeatureLoop feats ft l
  | [], _, _ => rfl
  | j :: pre, l, h => by
    have hj := h j List.mem_cons_self
    have ih := findFeatureLoop_skip pre l (fun k hk => h k (List.mem_cons_of_mem _ hk))
    rw [List.cons_append, findFeatureLoop]
    cases hf : feats[j]? with
    | none => exact ih
    | some t =>
      have : t ≠ ft := by intro e; subst e; exact hj hf
      simp only [beq_iff_eq, this, if_false]
      exact ih

/-- the first listed index whose record exists and carries the tag is the result -/
theorem findFeatureLoop_found {feats : List Tag} {ft : Tag} (pre post : List Nat) (i : Nat)
    (hi : feats[i]? = some ft) (hpre : ∀ j ∈ pre, feats[j]? ≠ some ft) :
    findFeatureLoop feats ft (pre ++ i :: post) = some i := by
  rw [findFeatureLoop_skip pre _ hpre, findFeatureLoop, hi]
  simp

/-- a result is a listed index, its record exists and carries the tag, and nothing listed before it does -/
theorem findFeatureLoop_some {feats : List Tag} {ft : Tag} :
    ∀ {l : List Nat} {i : Nat}, findFeatureLoop feats ft l = some i →
      feats[i]? = some ft ∧ ∃ pre post, l = pre ++ i :: post ∧ ∀ j ∈ pre, feats[j]? ≠ some ft
  | [], _, h => by cases h
  | j :: rest, i, h => by
    rw [findFeatureLoop] at h
    cases hf : feats[j]? with
    | none =>
      rw [hf] at h
      obtain ⟨h1, pre, post, h2, h3⟩ := findFeatureLoop_some (l := rest) h
      refine ⟨h1, j :: pre, post, by rw [h2]; rfl, ?_⟩
      intro k hk
      rcases List.mem_cons.1 hk with rfl | hk
      · rw [hf]; intro e; cases e
      · exact h3 k hk
    | some t =>
      rw [hf] at h
      by_cases e : t = ft
      · subst e
        simp only [beq_self_eq_true, if_true] at h
        injection h with h; subst h
        exact ⟨hf, [], rest, rfl, by intro k hk; cases hk⟩
      · simp only [beq_iff_eq, e, if_false] at h
        obtain ⟨h1, pre, post, h2, h3⟩ := findFeatureLoop_some (l := rest) h
        refine ⟨h1, j :: pre, post, by rw [h2]; rfl, ?_⟩
        intro k hk
        rcases List.mem_cons.1 hk with rfl | hk
        · rw [hf]; intro e'; injection e' with e'; exact e e'
        · exact h3 k hk

/-- nothing is found exactly when no listed index has an existing record with the tag -/
theorem findFeatureLoop_none {feats : List Tag} {ft : Tag} {l : List Nat} :
    findFeatureLoop feats ft l = none ↔ ∀ i ∈ l, feats[i]? ≠ some ft := by
  rw [findFeatureLoop_eq_find?, List.find?_eq_none]
  constructor
  · intro h i hi hf
    have := h i hi
    simp [hf] at this
  · intro h i hi
    simpa using h i hi

/-- a record found through the selected language system is listed by it and carries the tag -/
theorem langFeatureAt_some {tables : List (Option Table)} {sels : List (Option Selection)} {t : Nat} {ft : Tag} {i : Nat}
    (h : langFeatureAt tables sels t ft = some i) :
    ∃ tb s sys, tables[t]?.join = some tb ∧ sels[t]?.join = some s ∧
      langSysOf tb s.scriptIndex s.langIndex = some sys ∧ i ∈ sys.features ∧ tb.features[i]? = some ft := by
  unfold langFeatureAt at h
  split at h
  · rename_i tb s htb hs
    unfold findLanguageFeature at h
    split at h
    · cases h
    · rename_i sys hsys
      rw [findFeatureLoop_eq_find?] at h
      have h1 := List.find?_some h
      have h2 := List.mem_of_find?_eq_some h
      exact ⟨tb, s, sys, htb, hs, hsys, h2, by simpa using h1⟩
  · cases h

/-- a record found by the global search carries the tag, and no earlier record of the FeatureList does -/
theorem anyFeatureAt_some {tables : List (Option Table)} {t : Nat} {ft : Tag} {i : Nat}
    (h : anyFeatureAt tables t ft = some i) :
    ∃ tb, tables[t]?.join = some tb ∧ tb.features[i]? = some ft ∧ ∀ j, j < i → tb.features[j]? ≠ some ft := by
  unfold anyFeatureAt at h
  split at h
  · rename_i tb htb
    split at h
    · rename_i r hr
      subst h
      exact ⟨tb, htb, findTableFeature_some hr⟩
    · cases h
  · cases h

/-- the global search misses only when the (sorted) FeatureList has no record with the tag -/
theorem anyFeatureAt_none {tables : List (Option Table)} {t : Nat} {ft : Tag} {tb : Table}
    (htb : tables[t]?.join = some tb) (hs : tb.features.Pairwise (· ≤ ·)) (h : anyFeatureAt tables t ft = none) :
    ft ∉ tb.features := by
  unfold anyFeatureAt at h
  rw [htb] at h
  simp only at h
  obtain ⟨r, hr⟩ := findTableFeature_ok tb ft
  rw [hr] at h
  simp only at h
  subst h
  exact findTableFeature_none_sorted hs hr

/-- the deduplicated feature infos of the plan builder depend on the direction only through its class -/
theorem planBuilder_dir (c : Map.Cfg) (dir : Nat) (h : 2 ≤ dir) : Map.planBuilder c dir [] = Map.planBuilder c 2 [] := by
  unfold Map.planBuilder
  have h0 : dir ≠ 0 := by omega
  have h1 : dir ≠ 1 := by omega
  have h2 : ¬ dir ≤ 1 := by omega
  simp [h0, h1, h2]

theorem plan_vert_has_global_search (dir : Nat) (info : Map.Info)
    (hi : info ∈ Map.dedupInfos Map.genCfg (Map.planBuilder Map.genCfg dir []).isSimple (Map.planBuilder Map.genCfg dir []).infos)
    (ht : info.tag = TAG_vert) : info.flags &&& Map.genCfg.fGlobalSearch ≠ 0 := by
  have key : ∀ d, d ≤ 2 → ∀ info ∈ Map.dedupInfos Map.genCfg (Map.planBuilder Map.genCfg d []).isSimple (Map.planBuilder Map.genCfg d []).infos,
      info.tag = TAG_vert → info.flags &&& Map.genCfg.fGlobalSearch ≠ 0 := by
    decide +kernel
  by_cases h : dir ≤ 2
  · exact key dir h info hi ht
  · have hd : 2 ≤ dir := by omega
    rw [planBuilder_dir _ dir hd] at hi
    exact key 2 (Nat.le_refl 2) info hi ht


/-! ## evaluation helpers for the concrete theorems -/

instance {α} [DecidableEq α] : DecidableEq (Except Err α) := fun a b =>
  match a, b with
  | .ok x, .ok y => if h : x = y then isTrue (by rw [h]) else isFalse (by intro e; injection e; contradiction)
  | .error x, .error y => if h : x = y then isTrue (by rw [h]) else isFalse (by intro e; injection e; contradiction)
  | .ok _, .error _ => isFalse (by intro e; cases e)
  | .error _, .ok _ => isFalse (by intro e; cases e)

/-- bytes of an ASCII string literal (kernel-friendly, unlike `String.toUTF8`) -/
def asc (s : String) : Bytes := s.toList.map Char.toNat

/-- first language tag the public entry point yields for a language string -/
def firstLang (cfg : Cfg) (s : Bytes) : Option Tag :=
  match tagsApi cfg none (some s) with
  | .ok r => r.2.head?
  | .error _ => none

end RbModel.Tag
