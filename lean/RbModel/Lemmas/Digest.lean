/-
  Helper lemmas for the digest proofs (bit-level facts). Property theorems live in Props/C10.lean.
-/
import RbModel.Digest

namespace RbModel.Digest

theorem W64_eq : W64 = 18446744073709551616 := by decide
theorem FULL_eq : FULL = 18446744073709551615 := by decide

theorem and_two_pow_ne_zero_iff (m k : Nat) : (m &&& 2 ^ k) ≠ 0 ↔ m.testBit k = true := by
  constructor
  · intro h
    obtain ⟨i, hi⟩ := Nat.exists_testBit_of_ne_zero h
    rw [Nat.testBit_and, Nat.testBit_two_pow] at hi
    simp at hi
    obtain ⟨h1, h2⟩ := hi
    subst h2; exact h1
  · intro h h0
    have : (m &&& 2 ^ k).testBit k = true := by
      rw [Nat.testBit_and, Nat.testBit_two_pow]; simp [h]
    rw [h0] at this
    simp at this

theorem mayHaveGlyph_iff (s m g : Nat) :
    mayHaveGlyph s m g = true ↔ m.testBit ((g >>> s) % 64) = true := by
  unfold mayHaveGlyph maskFor
  rw [bne_iff_ne]
  exact and_two_pow_ne_zero_iff _ _

/-- bits i..j of `2^(j+1) - 2^i` are set -/
theorem testBit_pow_sub_pow {i j k : Nat} (hik : i ≤ k) (hkj : k ≤ j) :
    (2 ^ (j + 1) - 2 ^ i).testBit k = true := by
  have h1 : 2 ^ (j + 1) - 2 ^ i = 2 ^ i * (2 ^ (j + 1 - i) - 1) + 0 := by
    have : 2 ^ (j + 1) = 2 ^ i * 2 ^ (j + 1 - i) := by
      rw [← Nat.pow_add]; congr 1; omega
    rw [this, Nat.mul_sub, Nat.mul_one]; rfl
  rw [h1, Nat.testBit_two_pow_mul_add _ (Nat.two_pow_pos i)]
  have : ¬ k < i := by omega
  simp [this, Nat.testBit_two_pow_sub_one]
  omega

/-- wrapped run: bits i..63 and 0..j of `2^64 - 2^i + 2^(j+1) - 1` (j + 1 < i ≤ 63) -/
theorem testBit_wrapped {i j k : Nat} (hji : j + 1 ≤ i) (hi : i ≤ 64) (hk : k < 64)
    (hin : k ≤ j ∨ i ≤ k) :
    (2 ^ 64 - 2 ^ i + (2 ^ (j + 1) - 1)).testBit k = true := by
  have h1 : 2 ^ 64 - 2 ^ i = 2 ^ i * (2 ^ (64 - i) - 1) := by
    have : (2:Nat) ^ 64 = 2 ^ i * 2 ^ (64 - i) := by
      rw [← Nat.pow_add]; congr 1; omega
    rw [this, Nat.mul_sub, Nat.mul_one]
  have hb : 2 ^ (j + 1) - 1 < 2 ^ i := by
    have : 2 ^ (j + 1) ≤ 2 ^ i := Nat.pow_le_pow_right (by decide) hji
    have := Nat.two_pow_pos (j + 1)
    omega
  rw [h1, Nat.testBit_two_pow_mul_add _ hb]
  split
  · rw [Nat.testBit_two_pow_sub_one]; simp; omega
  · rw [Nat.testBit_two_pow_sub_one]; simp; omega

/-- closed form of the range mask, run not wrapping around bit 63 -/
theorem rangeArith_nowrap {i j : Nat} (hij : i ≤ j) (hj : j < 64) :
    wsub (wadd (2 ^ j) (wsub (2 ^ j) (2 ^ i))) (if 2 ^ j < 2 ^ i then 1 else 0)
      = 2 ^ (j + 1) - 2 ^ i := by
  have hP : 2 ^ i ≤ 2 ^ j := Nat.pow_le_pow_right (by decide) hij
  have hQ : 2 ^ j ≤ 2 ^ 63 := Nat.pow_le_pow_right (by decide) (by omega)
  have h63 : (2:Nat) ^ 63 = 9223372036854775808 := by decide
  have hs : 2 ^ (j + 1) = 2 * 2 ^ j := by rw [Nat.pow_succ]; omega
  have hpos := Nat.two_pow_pos i
  rw [hs]
  generalize 2 ^ i = P at *
  generalize 2 ^ j = Q at *
  unfold wsub wadd
  rw [W64_eq]
  have : ¬ Q < P := by omega
  simp only [this, if_false]
  omega

/-- closed form of the range mask, run wrapping around bit 63 (needs j + 1 < i: the `>= 63` guard) -/
theorem rangeArith_wrap {i j : Nat} (hji : j + 1 < i) (hi : i < 64) :
    wsub (wadd (2 ^ j) (wsub (2 ^ j) (2 ^ i))) (if 2 ^ j < 2 ^ i then 1 else 0)
      = 2 ^ 64 - 2 ^ i + (2 ^ (j + 1) - 1) := by
  have hP : 2 ^ (j + 2) ≤ 2 ^ i := Nat.pow_le_pow_right (by decide) (by omega)
  have hQ : 2 ^ i ≤ 2 ^ 63 := Nat.pow_le_pow_right (by decide) (by omega)
  have h63 : (2:Nat) ^ 63 = 9223372036854775808 := by decide
  have h64 : (2:Nat) ^ 64 = 18446744073709551616 := by decide
  have hs : 2 ^ (j + 1) = 2 * 2 ^ j := by rw [Nat.pow_succ]; omega
  have hs2 : 2 ^ (j + 2) = 4 * 2 ^ j := by rw [Nat.pow_succ, Nat.pow_succ]; omega
  have hpos := Nat.two_pow_pos j
  rw [hs, h64]
  rw [hs2] at hP
  generalize 2 ^ i = P at *
  generalize 2 ^ j = Q at *
  unfold wsub wadd
  rw [W64_eq]
  have : Q < P := by omega
  simp only [this, if_true]
  omega

end RbModel.Digest

namespace RbModel.Digest

theorem testBit_FULL {k : Nat} (hk : k < 64) : FULL.testBit k = true := by
  unfold FULL; rw [Nat.testBit_two_pow_sub_one]; simp [hk]

theorem shiftRight_mono {a b : Nat} (s : Nat) (h : a ≤ b) : a >>> s ≤ b >>> s := by
  rw [Nat.shiftRight_eq_div_pow, Nat.shiftRight_eq_div_pow]
  exact Nat.div_le_div_right h

theorem shiftRight_le_self (a s : Nat) : a >>> s ≤ a := by
  rw [Nat.shiftRight_eq_div_pow]; exact Nat.div_le_self _ _

theorem wsub_of_le {a b : Nat} (hab : b ≤ a) (ha : a < W64) : wsub a b = a - b := by
  unfold wsub
  have hb : b % W64 = b := Nat.mod_eq_of_lt (by omega)
  rw [hb]
  rw [W64_eq] at *
  omega

/-- the mask OR-ed in by `add_range` covers the bit of every glyph of the range
    whenever the `>= 63` guard let the range through. -/
theorem rangeMask_testBit {s a b g : Nat} (hb : b < W64) (hag : a ≤ g) (hgb : g ≤ b)
    (hguard : ¬ wsub (b >>> s) (a >>> s) ≥ 63) :
    (rangeMask s a b).testBit ((g >>> s) % 64) = true := by
  have hA := shiftRight_mono s hag
  have hB := shiftRight_mono s hgb
  have hBlt : b >>> s < W64 := Nat.lt_of_le_of_lt (shiftRight_le_self b s) hb
  rw [wsub_of_le (Nat.le_trans hA hB) hBlt] at hguard
  unfold rangeMask maskFor
  generalize a >>> s = A at *
  generalize b >>> s = B at *
  generalize g >>> s = G at *
  by_cases hij : A % 64 ≤ B % 64
  · rw [rangeArith_nowrap hij (Nat.mod_lt _ (by decide))]
    apply testBit_pow_sub_pow <;> omega
  · have h1 : B % 64 + 1 < A % 64 := by omega
    rw [rangeArith_wrap h1 (Nat.mod_lt _ (by decide))]
    apply testBit_wrapped <;> omega

end RbModel.Digest
