/-
  Generic spec side: a lookup whose subtables act one-for-one (`firstSubtable … = (subG g).map …`) maps the string.
-/
import RbModel.Lemmas.GsubSingleSpec
import RbModel.Lemmas.GsubAlternate

namespace RbModel.Spec.Subst
open RbModel RbModel.Gsub

/-- what the specification makes of one glyph under a one-for-one lookup -/
def specStepP (f : Font) (l : Lookup) (lm : Nat) (subG : G → Option Nat) (g : G) : G :=
  if g.mask &&& lm != 0 && !ignored f l.props g then
    match subG g with
    | some s => { g with gid := s }
    | none => g
  else g

theorem applyLookupFwd_pos (f : Font) (level : Nat) (l : Lookup) (lm : Nat) (subG : G → Option Nat)
    (hfirst : ∀ (gs : List G) (i : Nat) (g : G), gs[i]? = some g →
      firstSubtable f level l.props lm gs i l.subtables = (subG g).map fun s => (gs.set i { g with gid := s }, i + 1)) :
    ∀ (fuel : Nat) (gs : List G) (i : Nat), gs.length - i ≤ fuel → i ≤ gs.length →
      applyLookupFwd f level l lm fuel gs i = gs.take i ++ (gs.drop i).map (specStepP f l lm subG) := by
  intro fuel
  induction fuel with
  | zero =>
    intro gs i hf hi
    have : i = gs.length := by omega
    subst this
    simp [applyLookupFwd]
  | succ fuel ih =>
    intro gs i hf hi
    unfold applyLookupFwd
    cases hg : gs[i]? with
    | none =>
      have : gs.length ≤ i := by
        by_cases h : i < gs.length
        · rw [List.getElem?_eq_getElem h] at hg; cases hg
        · omega
      simp [List.drop_eq_nil_of_le this, List.take_of_length_le this]
    | some g =>
      have hil : i < gs.length := by
        by_cases h : i < gs.length
        · exact h
        · rw [List.getElem?_eq_none (by omega)] at hg; cases hg
      -- every branch continues at i + 1 on the string with position i replaced by specStep g
      simp only []
      have key : (if (g.mask &&& lm != 0 && !ignored f l.props g) = true then
                    (match firstSubtable f level l.props lm gs i l.subtables with
                     | some (gs', nxt) => applyLookupFwd f level l lm fuel gs' (max nxt i)
                     | none => applyLookupFwd f level l lm fuel gs (i + 1))
                   else applyLookupFwd f level l lm fuel gs (i + 1))
          = applyLookupFwd f level l lm fuel (gs.set i (specStepP f l lm subG g)) (i + 1) := by
        unfold specStepP
        by_cases hc : (g.mask &&& lm != 0 && !ignored f l.props g) = true
        · simp only [hc, if_true]
          rw [hfirst gs i g hg]
          cases hs : subG g with
          | none =>
            simp only [Option.map_none]
            rw [set_self _ _ _ hg]
          | some s =>
            simp only [Option.map_some]
            rw [Nat.max_eq_left (Nat.le_succ i)]
        · simp only [hc, Bool.false_eq_true, if_false]
          rw [set_self _ _ _ hg]
      refine key.trans ?_
      rw [ih _ _ (by simp; omega) (by simp; omega)]
      apply List.ext_getElem?
      intro q
      simp only [List.getElem?_append, List.length_take, List.length_set, List.getElem?_take, List.getElem?_map,
        List.getElem?_drop, List.getElem?_set]
      by_cases h1 : q < i
      · have : q < min (i + 1) gs.length := by omega
        have h2 : q < min i gs.length := by omega
        have h3 : i ≠ q := by omega
        simp [this, h2, h3, h1, Nat.lt_succ_of_lt h1]
      · by_cases h2 : q = i
        · subst h2
          have : q < min (q + 1) gs.length := by omega
          have h3 : ¬ q < min q gs.length := by omega
          have h5 : min q gs.length = q := by omega
          have hg' : gs[q] = g := by rw [List.getElem?_eq_getElem hil] at hg; cases hg; rfl
          simp [this, hil, h5, hg']
        · have : ¬ q < min (i + 1) gs.length := by omega
          have h3 : ¬ q < min i gs.length := by omega
          have h4 : min (i + 1) gs.length = i + 1 := by omega
          have h5 : min i gs.length = i := by omega
          have h6 : i ≠ i + 1 + (q - (i + 1)) := by omega
          have h7 : i + 1 + (q - (i + 1)) = i + (q - i) := by omega
          have h8 : ¬ q < i + 1 := by omega
          have h9 : q - i ≠ 0 := by omega
          simp [this, h3, h4, h5, h6, h7, h8, h9, h1]


theorem applyLookupFwd_pos_guarded (f : Font) (level : Nat) (l : Lookup) (lm : Nat) (subG : G → Option Nat) (P : G → Prop)
    (hfirst : ∀ (gs : List G) (i : Nat) (g : G), gs[i]? = some g → P g →
      firstSubtable f level l.props lm gs i l.subtables = (subG g).map fun s => (gs.set i { g with gid := s }, i + 1)) :
    ∀ (fuel : Nat) (gs : List G) (i : Nat), (∀ q g, i ≤ q → gs[q]? = some g → P g) → gs.length - i ≤ fuel → i ≤ gs.length →
      applyLookupFwd f level l lm fuel gs i = gs.take i ++ (gs.drop i).map (specStepP f l lm subG) := by
  intro fuel
  induction fuel with
  | zero =>
    intro gs i _ hf hi
    have : i = gs.length := by omega
    subst this
    simp [applyLookupFwd]
  | succ fuel ih =>
    intro gs i hgs hf hi
    unfold applyLookupFwd
    cases hg : gs[i]? with
    | none =>
      have : gs.length ≤ i := by
        by_cases h : i < gs.length
        · rw [List.getElem?_eq_getElem h] at hg; cases hg
        · omega
      simp [List.drop_eq_nil_of_le this, List.take_of_length_le this]
    | some g =>
      have hil : i < gs.length := by
        by_cases h : i < gs.length
        · exact h
        · rw [List.getElem?_eq_none (by omega)] at hg; cases hg
      -- every branch continues at i + 1 on the string with position i replaced by specStep g
      simp only []
      have key : (if (g.mask &&& lm != 0 && !ignored f l.props g) = true then
                    (match firstSubtable f level l.props lm gs i l.subtables with
                     | some (gs', nxt) => applyLookupFwd f level l lm fuel gs' (max nxt i)
                     | none => applyLookupFwd f level l lm fuel gs (i + 1))
                   else applyLookupFwd f level l lm fuel gs (i + 1))
          = applyLookupFwd f level l lm fuel (gs.set i (specStepP f l lm subG g)) (i + 1) := by
        unfold specStepP
        by_cases hc : (g.mask &&& lm != 0 && !ignored f l.props g) = true
        · simp only [hc, if_true]
          rw [hfirst gs i g hg (hgs i g (Nat.le_refl _) hg)]
          cases hs : subG g with
          | none =>
            simp only [Option.map_none]
            rw [set_self _ _ _ hg]
          | some s =>
            simp only [Option.map_some]
            rw [Nat.max_eq_left (Nat.le_succ i)]
        · simp only [hc, Bool.false_eq_true, if_false]
          rw [set_self _ _ _ hg]
      refine key.trans ?_
      rw [ih _ _ (by
        intro q g' hq hg'
        rw [List.getElem?_set_ne (by omega)] at hg'
        exact hgs q g' (by omega) hg') (by simp; omega) (by simp; omega)]
      apply List.ext_getElem?
      intro q
      simp only [List.getElem?_append, List.length_take, List.length_set, List.getElem?_take, List.getElem?_map,
        List.getElem?_drop, List.getElem?_set]
      by_cases h1 : q < i
      · have : q < min (i + 1) gs.length := by omega
        have h2 : q < min i gs.length := by omega
        have h3 : i ≠ q := by omega
        simp [this, h2, h3, h1, Nat.lt_succ_of_lt h1]
      · by_cases h2 : q = i
        · subst h2
          have : q < min (q + 1) gs.length := by omega
          have h3 : ¬ q < min q gs.length := by omega
          have h5 : min q gs.length = q := by omega
          have hg' : gs[q] = g := by rw [List.getElem?_eq_getElem hil] at hg; cases hg; rfl
          simp [this, hil, h5, hg']
        · have : ¬ q < min (i + 1) gs.length := by omega
          have h3 : ¬ q < min i gs.length := by omega
          have h4 : min (i + 1) gs.length = i + 1 := by omega
          have h5 : min i gs.length = i := by omega
          have h6 : i ≠ i + 1 + (q - (i + 1)) := by omega
          have h7 : i + 1 + (q - (i + 1)) = i + (q - i) := by omega
          have h8 : ¬ q < i + 1 := by omega
          have h9 : q - i ≠ 0 := by omega
          simp [this, h3, h4, h5, h6, h7, h8, h9, h1]



end RbModel.Spec.Subst
