/-
  `match_input` of a ligature (GSUB type 4) when nothing can be skipped: the lookup carries no ignore flags / mark filter
  (`NoSkipFlags`), no glyph of the unconsumed input is default-ignorable and none carries ligature ids (`Plain`: what
  `_hb_ot_layout_set_glyph_props` + `clear_lig_props` establish at the start of substitution).  Then the skipping iterator
  visits consecutive positions and `match_input` is a plain prefix test of the unconsumed input (`ligMatch`).
-/
import RbModel.Lemmas.GsubMultiStep

namespace RbModel.Gsub
open RbModel RbModel.Buf RbModel.Mem

/-- the lookup flags exclude nothing: no IGNORE_BASE_GLYPHS / IGNORE_LIGATURES / IGNORE_MARKS, no mark filtering set,
    no mark attachment type -/
def NoSkipFlags (props : Nat) : Prop :=
  (props % 65536) &&& LF.IGNORE_FLAGS = 0 ∧ (props % 65536) &&& LF.USE_MARK_FILTERING_SET = 0 ∧
  (props % 65536) &&& LF.MARK_ATTACHMENT_TYPE_MASK = 0

instance (props : Nat) : Decidable (NoSkipFlags props) := by unfold NoSkipFlags; exact inferInstance

theorem checkGlyphProperty_noSkip (f : Font) (x : Info) (props : Nat) (h : NoSkipFlags props) :
    checkGlyphProperty f x props = true := by
  obtain ⟨h1, h2, h3⟩ := h
  unfold checkGlyphProperty
  have e1 : glyphProps x &&& (props % 65536) &&& LF.IGNORE_FLAGS = 0 := by
    rw [Nat.and_assoc, h1, Nat.and_zero]
  simp only [e1, h2, h3, bne_self_eq_false, Bool.false_eq_true, if_false, ite_self]

/-- a glyph the skipping iterator can neither skip nor treat specially: not default-ignorable, no ligature id / component -/
def Plain (x : Info) : Prop := isDefaultIgnorable x = false ∧ ligProps x = 0

theorem Plain.ligId {x : Info} (h : Plain x) : ligId x = 0 := by
  unfold Gsub.ligId; rw [h.2]

/-- the components `comps` are the glyphs at the head of `R`, each with the lookup's feature on -/
def ligMatch (lm : Nat) : List Nat → List Info → Bool
  | [], _ => true
  | _ :: _, [] => false
  | cmp :: cs, y :: R => (y.mask &&& lm != 0 && y.gid % 65536 == cmp) && ligMatch lm cs R

theorem ligMatch_length (lm : Nat) : ∀ (cs : List Nat) (R : List Info), ligMatch lm cs R = true → cs.length ≤ R.length := by
  intro cs
  induction cs with
  | nil => intro R _; simp
  | cons a cs ih =>
    intro R h
    cases R with
    | nil => simp [ligMatch] at h
    | cons y R =>
      simp only [ligMatch, Bool.and_eq_true] at h
      have := ih R h.2
      simp; omega

/-- a window `l[i..n)` with a head -/
theorem window_cons {α} (l : List α) (i n : Nat) (x : α) (R : List α) (h : (l.drop i).take (n - i) = x :: R) :
    i < n ∧ l[i]? = some x ∧ (l.drop (i + 1)).take (n - (i + 1)) = R := by
  have hin : i < n := by
    by_cases hc : i < n
    · exact hc
    · have : n - i = 0 := by omega
      rw [this] at h; simp at h
  have hn : n - i = (n - (i + 1)) + 1 := by omega
  cases hd : l.drop i with
  | nil => rw [hd] at h; simp at h
  | cons a t =>
    rw [hd, hn, List.take_succ_cons] at h
    simp only [List.cons.injEq] at h
    refine ⟨hin, ?_, ?_⟩
    · have : l[i]? = (l.drop i)[0]? := by simp
      rw [this, hd, ← h.1]; rfl
    · have : l.drop (i + 1) = t := by
        have := List.drop_drop (i := 1) (j := i) (l := l)
        rw [hd] at this
        simp only [List.drop_succ_cons, List.drop_zero] at this
        exact this.symm
      rw [this]; exact h.2

theorem window_nil {α} (l : List α) (i n : Nat) (hn : n ≤ l.length) (h : (l.drop i).take (n - i) = []) : ¬ i < n := by
  intro hc
  have : ((l.drop i).take (n - i)).length = n - i := by simp; omega
  rw [h] at this
  simp at this
  omega

/-- the test `match_` makes on a plain glyph under a flag-free lookup: feature on, and the match function -/
theorem match_plain (it : It) (f : Font) (fn : Nat → Nat → Bool) (x : Info) (hp : NoSkipFlags it.lookupProps)
    (hs : it.syllable = 0) (hm : it.matching = some fn) (hx : isDefaultIgnorable x = false) :
    it.match_ f x =
      if (x.mask &&& it.mask != 0 && fn (x.gid % 65536) it.glyphData) = true then MatchR.matched else MatchR.notMatch := by
  have hskip : it.maySkip f x = Skip.no := by
    unfold It.maySkip
    simp [checkGlyphProperty_noSkip f x it.lookupProps hp, hx]
  unfold It.match_
  simp only [hskip, hs, hm]
  by_cases h0 : x.mask &&& it.mask = 0
  · simp [h0]
  · by_cases h1 : fn (x.gid % 65536) it.glyphData = true
    · simp [h0, h1]
    · simp [h0, h1]

/-- one step of the iterator over a plain glyph -/
theorem next_plain (it : It) (f : Font) (info : List Info) (fn : Nat → Nat → Bool) (fuel : Nat) (y : Info)
    (hp : NoSkipFlags it.lookupProps) (hs : it.syllable = 0) (hm : it.matching = some fn)
    (hlt : it.idx + 1 < it.bufLen) (hy : info[it.idx + 1]? = some y) (hpl : isDefaultIgnorable y = false) :
    It.next it f info (fuel + 1) =
      if (y.mask &&& it.mask != 0 && fn (y.gid % 65536) it.glyphData) = true then
        .ok (true, { it with idx := it.idx + 1, glyphData := it.glyphData + 1 }, 0)
      else .ok (false, { it with idx := it.idx + 1 }, it.idx + 1 + 1) := by
  have hget : Mem.get info (it.idx + 1) = .ok y := by unfold Mem.get; rw [hy]; rfl
  have hmatch := match_plain { it with idx := it.idx + 1 } f fn y hp hs hm hpl
  simp only [It.next, hlt, if_true, bind, Except.bind, hget, hmatch]
  by_cases hc : (y.mask &&& it.mask != 0 && fn (y.gid % 65536) it.glyphData) = true
  · simp only [hc, if_true]; rfl
  · simp only [hc]; rfl

theorem next_end (it : It) (f : Font) (info : List Info) (fuel : Nat) (hlt : ¬ it.idx + 1 < it.bufLen) :
    It.next it f info fuel = .ok (false, it, it.idx + 1) := by
  cases fuel with
  | zero => rfl
  | succ k => simp only [It.next, hlt, if_false]; rfl

/-- **the matching loop over plain glyphs**: it succeeds iff the remaining components are the next glyphs, one by one, and
    then it has recorded consecutive positions. -/
theorem matchLoop_plain (c : Ctx) (comps : List Nat) (flc : Nat) (hp : NoSkipFlags c.lookupProps)
    (hlen : c.buf.len ≤ c.buf.info.length) :
    ∀ (cs : List Nat) (it : It) (positions : List Nat) (total ligbase k : Nat) (R : List Info),
      it.lookupProps = c.lookupProps → it.syllable = 0 → it.matching = some (fun g i => g == comps.getD i 0) →
      it.mask = c.lookupMask → it.bufLen = c.buf.len →
      (c.buf.info.drop (it.idx + 1)).take (c.buf.len - (it.idx + 1)) = R → (∀ y ∈ R, Plain y) →
      comps.drop it.glyphData = cs → k + cs.length ≤ positions.length →
      ∃ r, matchInput.loop c 0 flc it positions total ligbase k cs.length = .ok r ∧
        r.ok = ligMatch c.lookupMask cs R ∧
        (r.ok = true → r.endPos = it.idx + cs.length + 1 ∧ r.positions.length = positions.length ∧
          (∀ j, j < cs.length → r.positions[k + j]? = some (it.idx + 1 + j)) ∧
          ∀ q, q < k → r.positions[q]? = positions[q]?) := by
  intro cs
  induction cs with
  | nil =>
    intro it positions total ligbase k R _ _ _ _ _ _ _ _ _
    refine ⟨_, rfl, rfl, ?_⟩
    intro _
    exact ⟨rfl, rfl, by intro j hj; simp at hj, fun _ _ => rfl⟩
  | cons cmp cs ih =>
    intro it positions total ligbase k R hlp hsy hma hmk hbl hR hpl hdrop hpos
    simp only [List.length_cons] at hpos ⊢
    have hpit : NoSkipFlags it.lookupProps := by rw [hlp]; exact hp
    have hcmp : comps.getD it.glyphData 0 = cmp := by
      have : (comps.drop it.glyphData)[0]? = some cmp := by rw [hdrop]; rfl
      simp only [List.getElem?_drop, Nat.add_zero] at this
      simp [List.getD, this]
    have hdrop' : comps.drop (it.glyphData + 1) = cs := by
      have := List.drop_drop (i := 1) (j := it.glyphData) (l := comps)
      rw [hdrop] at this
      simp only [List.drop_succ_cons, List.drop_zero] at this
      exact this.symm
    cases R with
    | nil =>
      have hnlt : ¬ it.idx + 1 < it.bufLen := by
        rw [hbl]
        by_cases hle : it.idx + 1 ≤ c.buf.info.length
        · exact window_nil c.buf.info (it.idx + 1) c.buf.len hlen hR
        · omega
      refine ⟨{ ok := false, endPos := it.idx + 1, positions := positions, totalComps := total }, ?_, ?_, ?_⟩
      · simp only [matchInput.loop, bind, Except.bind, bne_self_eq_false, Bool.false_and, Bool.false_eq_true, if_false]
        rw [← hbl, next_end it c.font c.buf.info it.bufLen hnlt]
        rfl
      · rfl
      · intro h; cases h
    | cons y R =>
      obtain ⟨hlt, hy, hR'⟩ := window_cons c.buf.info (it.idx + 1) c.buf.len y R hR
      have hply := hpl y (List.mem_cons_self)
      have hlen1 : c.buf.len = (c.buf.len - 1) + 1 := by omega
      have hnext := next_plain it c.font c.buf.info (fun g i => g == comps.getD i 0) (c.buf.len - 1) y hpit hsy hma
        (by rw [hbl]; exact hlt) hy hply.1
      rw [← hlen1, hcmp] at hnext
      by_cases hc : (y.mask &&& it.mask != 0 && y.gid % 65536 == cmp) = true
      · simp only [hc, if_true] at hnext
        rw [hmk] at hc
        have hget : Mem.get c.buf.info (it.idx + 1) = .ok y := by unfold Mem.get; rw [hy]; rfl
        obtain ⟨r, hrun, hok, hrest⟩ := ih { it with idx := it.idx + 1, glyphData := it.glyphData + 1 }
          (positions.set k (it.idx + 1)) (total + ligNumComps y) ligbase (k + 1) R hlp hsy hma hmk hbl hR'
          (fun z hz => hpl z (List.mem_cons_of_mem _ hz)) hdrop' (by simp; omega)
        refine ⟨r, ?_, ?_, ?_⟩
        · simp only [matchInput.loop, bind, Except.bind, bne_self_eq_false, Bool.false_and, Bool.false_eq_true, if_false,
            hnext, Bool.not_true, hget, hply.ligId]
          exact hrun
        · rw [hok]; simp only [ligMatch, hc, Bool.true_and]
        · intro hr
          obtain ⟨h1, h2, h3, h4⟩ := hrest hr
          refine ⟨by simp only [] at h1; omega, by simpa using h2, ?_, ?_⟩
          · intro j hj
            cases j with
            | zero =>
              have := h4 k (by omega)
              rw [Nat.add_zero, this, List.getElem?_set_self (by omega)]
            | succ j =>
              have := h3 j (by omega)
              simp only [] at this
              rw [show k + (j + 1) = k + 1 + j by omega, this]
              congr 1; omega
          · intro q hq
            rw [h4 q (by omega), List.getElem?_set_ne (by omega)]
      · simp only [hc, Bool.false_eq_true, if_false] at hnext
        rw [hmk] at hc
        refine ⟨{ ok := false, endPos := it.idx + 1 + 1, positions := positions, totalComps := total }, ?_, ?_, ?_⟩
        · simp only [matchInput.loop, bind, Except.bind, bne_self_eq_false, Bool.false_and, Bool.false_eq_true, if_false,
            hnext, Bool.not_false, if_true]
          rfl
        · simp only [ligMatch]
          have : (y.mask &&& c.lookupMask != 0 && y.gid % 65536 == cmp) = false := by simpa using hc
          rw [this]; rfl
        · intro h; cases h

theorem resizeNat_length (l : List Nat) (n : Nat) : (resizeNat l n).length = n := by
  unfold resizeNat
  by_cases h : n ≤ l.length
  · simp [h]
  · simp [h]; omega

/-- **`match_input` without skippable glyphs** (per-step lemma 1): on a context whose lookup excludes nothing, not in
    per-syllable mode, with a plain current glyph `x` and plain glyphs `R` behind it, `match_input` for the components
    `comps` (fewer than `MAX_CONTEXT_LENGTH`) does not panic, answers `ligMatch` — the components are the next glyphs,
    consecutively, each with the feature on — and on success reports the end `idx + n + 1` and the positions
    `idx, idx+1, …, idx+n`. -/
theorem matchInput_plain (c : Ctx) (comps : List Nat) (x : Info) (R : List Info)
    (hlen : c.buf.len ≤ c.buf.info.length) (hin : inP c.buf = x :: R) (hpl : ∀ y ∈ x :: R, Plain y)
    (hp : NoSkipFlags c.lookupProps) (hps : c.perSyllable = false) (hshort : comps.length + 1 ≤ MAX_CONTEXT_LENGTH) :
    ∃ r, matchInput c comps.length (fun g i => g == comps.getD i 0) [0, 0, 0, 0] = .ok r ∧
      r.ok = ligMatch c.lookupMask comps R ∧
      (r.ok = true → r.endPos = c.buf.idx + comps.length + 1 ∧
        ∀ j, j ≤ comps.length → r.positions[j]? = some (c.buf.idx + j)) := by
  obtain ⟨hcur, hx, hR⟩ := window_cons c.buf.info c.buf.idx c.buf.len x R hin
  have hget : Mem.get c.buf.info c.buf.idx = .ok x := by unfold Mem.get; rw [hx]; rfl
  have hplx := hpl x (List.mem_cons_self)
  have hnc : ¬ comps.length + 1 > MAX_CONTEXT_LENGTH := by omega
  generalize hP0 : (if comps.length + 1 > [0, 0, 0, 0].length then resizeNat [0, 0, 0, 0] (comps.length + 1) else [0, 0, 0, 0]) = P0
  have hP0l : comps.length + 1 ≤ P0.length := by
    rw [← hP0]
    by_cases h : comps.length + 1 > [0, 0, 0, 0].length
    · rw [if_pos h, resizeNat_length]; exact Nat.le_refl _
    · rw [if_neg h]; omega
  obtain ⟨r, hrun, hok, hrest⟩ := matchLoop_plain c comps (ligComp x) hp hlen comps
    { lookupProps := c.lookupProps, ignoreZwnj := c.isGpos || (false && c.autoZwnj), ignoreZwj := false || c.autoZwj,
      ignoreHidden := c.isGpos, mask := c.lookupMask, syllable := 0, bufLen := c.buf.len, glyphData := 0, idx := c.buf.idx,
      matching := some (fun g i => g == comps.getD i 0) }
    P0 0 0 1 R rfl rfl rfl rfl rfl hR (fun y hy => hpl y (List.mem_cons_of_mem _ hy)) rfl (by omega)
  by_cases hrok : r.ok = true
  · obtain ⟨h1, h2, h3, _⟩ := hrest hrok
    refine ⟨{ r with positions := r.positions.set 0 c.buf.idx, totalComps := (r.totalComps + ligNumComps x) % 256 }, ?_, hok, ?_⟩
    · simp only [matchInput, hnc, if_false, It.new, hps, Bool.and_false, Bool.false_eq_true, bind, Except.bind, pure,
        Except.pure, hget, hP0, hplx.ligId, Nat.add_sub_cancel, hrun, hrok, if_true]
    · intro _
      refine ⟨h1, ?_⟩
      intro j hj
      cases j with
      | zero => simp only [Nat.add_zero]; rw [List.getElem?_set_self (by omega)]
      | succ j =>
        rw [List.getElem?_set_ne (by omega)]
        have := h3 j (by omega)
        simp only [] at this
        rw [show j + 1 = 1 + j by omega, this]
        congr 1; omega
  · refine ⟨r, ?_, hok, fun h => absurd h hrok⟩
    simp only [matchInput, hnc, if_false, It.new, hps, Bool.and_false, Bool.false_eq_true, bind, Except.bind, pure,
      Except.pure, hget, hP0, hplx.ligId, Nat.add_sub_cancel, hrun, hrok]

end RbModel.Gsub
