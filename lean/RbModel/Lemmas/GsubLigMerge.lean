/-
  The crate's `merge_clusters` (as characterised on the logical glyph sequence by `IsMerge`, Lemmas/Cluster.lean) against
  the specification's `mergeClusters` (Spec/OpenTypeSubst.lean): on a string whose clusters are monotone — the condition
  under which HarfBuzz documents cluster levels 0/1 — and whose masks carry feature bits only, both rewrite exactly the
  glyphs whose cluster occurs in the merged range, to the minimum of the range.
-/
import RbModel.Lemmas.Cluster
import RbModel.Lemmas.GsubLigMatch

namespace RbModel.Gsub
open RbModel RbModel.Buf RbModel.Spec.Subst

/-- the mask holds feature bits only: none of the three glyph-flag bits (`set_cluster` clears those when the cluster
    changes, which the specification does not describe), and it is a 32-bit value -/
def FeatMask (x : Info) : Prop := x.mask &&& (U32MAX - Flag.DEFINED) = x.mask

theorem setCluster_featMask (x : Info) (m : Nat) (h : FeatMask x) : setCluster x m 0 = { x with cluster := m } := by
  unfold FeatMask at h
  unfold setCluster
  by_cases hc : x.cluster = m
  · simp [hc]
  · have : (x.cluster != m) = true := by simpa using hc
    simp only [this, if_true, Nat.zero_and, Nat.or_zero, h]

theorem projG_setCluster (x : Info) (m : Nat) (h : FeatMask x) : projG (setCluster x m 0) = { projG x with cluster := m } := by
  rw [setCluster_featMask x m h]; rfl

theorem cl?_map_projG (L : List Info) (q : Nat) : ((L.map projG)[q]?).map (·.cluster) = cl? L q := by
  unfold cl?
  rw [List.getElem?_map]
  cases L[q]? <;> rfl

/-- the cluster values of the range `[S, E)` as the specification collects them -/
theorem mem_rangeClusters (L : List Info) (S E : Nat) (v : Nat) :
    v ∈ (((L.map projG).drop S).take (E - S)).map (·.cluster) ↔ ∃ q, S ≤ q ∧ q < E ∧ cl? L q = some v := by
  rw [List.mem_iff_getElem?]
  constructor
  · rintro ⟨j, hj⟩
    rw [List.getElem?_map, List.getElem?_take] at hj
    by_cases hlt : j < E - S
    · simp only [hlt, if_true, List.getElem?_drop] at hj
      refine ⟨S + j, by omega, by omega, ?_⟩
      rw [← cl?_map_projG]; exact hj
    · simp [hlt] at hj
  · rintro ⟨q, h1, h2, h3⟩
    refine ⟨q - S, ?_⟩
    rw [List.getElem?_map, List.getElem?_take]
    have hlt : q - S < E - S := by omega
    simp only [hlt, if_true, List.getElem?_drop]
    rw [show S + (q - S) = q by omega, cl?_map_projG]; exact h3

/-- **`merge_clusters` is the specification's cluster merge** on monotone strings with feature-bit masks, at cluster
    levels 0 and 1. -/
theorem isMerge_spec (L L' : List Info) (S E m level : Nat) (h : IsMerge L L' S E m) (hSE : S < E)
    (hmono : NonDecr L ∨ NonIncr L) (hfm : ∀ x ∈ L, FeatMask x) (hlv : level ≠ 2) :
    Spec.Subst.mergeClusters level (L.map projG) S (E - 1) = L'.map projG := by
  unfold Spec.Subst.mergeClusters
  have hl2 : (level == 2) = false := by simpa using hlv
  simp only [hl2, Bool.false_eq_true, if_false]
  rw [show E - 1 + 1 - S = E - S by omega]
  generalize hcls : (((L.map projG).drop S).take (E - S)).map (·.cluster) = cls
  have hmem : ∀ v, v ∈ cls ↔ ∃ q, S ≤ q ∧ q < E ∧ cl? L q = some v := by
    intro v; rw [← hcls]; exact mem_rangeClusters L S E v
  have hmin : cls.min? = some m := by
    rw [List.min?_eq_some_iff]
    refine ⟨(hmem m).2 h.min_mem, ?_⟩
    intro b hb
    obtain ⟨q, h1, h2, h3⟩ := (hmem b).1 hb
    exact h.min_le q h1 h2 b h3
  simp only [hmin]
  apply List.ext_getElem?
  intro q
  simp only [List.getElem?_map]
  cases hx : L[q]? with
  | none =>
    have : L.length ≤ q := by
      by_cases hq : q < L.length
      · rw [List.getElem?_eq_getElem hq] at hx; cases hx
      · omega
    rw [List.getElem?_eq_none (by rw [h.len]; exact this)]
    rfl
  | some x =>
    have hxm : x ∈ L := List.mem_of_getElem? hx
    have hclq : cl? L q = some x.cluster := cl?_of_get hx
    simp only [Option.map_some]
    by_cases hz : Zone L S E q
    · rw [h.inz q hz, hx]
      simp only [Option.map_some]
      rw [projG_setCluster x m (hfm x hxm)]
      have hin : x.cluster ∈ cls := by
        rw [hmem]
        rcases hz with ⟨a, b⟩ | ⟨a, b⟩ | ⟨a, b⟩
        · exact ⟨q, a, b, hclq⟩
        · refine ⟨E - 1, by omega, by omega, ?_⟩
          rw [← b q (by omega) (Nat.le_refl _)]; exact hclq
        · refine ⟨S, Nat.le_refl _, hSE, ?_⟩
          rw [← b q (Nat.le_refl _) (by omega)]; exact hclq
      have : cls.contains (projG x).cluster = true := by
        simp only [List.contains_iff_mem]; exact hin
      simp only [this, if_true]
    · rw [h.outz q hz, hx]
      simp only [Option.map_some]
      have hnot : ¬ x.cluster ∈ cls := by
        intro hin
        obtain ⟨p, h1, h2, h3⟩ := (hmem _).1 hin
        apply hz
        by_cases hq1 : q < S
        · right; right
          refine ⟨hq1, ?_⟩
          intro r a b
          rw [mono_squeeze hmono a (by omega : r ≤ p) hclq h3,
            mono_squeeze hmono (by omega : q ≤ S) (by omega : S ≤ p) hclq h3]
        · by_cases hq2 : q < E
          · left; exact ⟨by omega, hq2⟩
          · right; left
            refine ⟨by omega, ?_⟩
            intro r a b
            rw [mono_squeeze hmono (by omega : p ≤ r) b h3 hclq,
              mono_squeeze hmono (by omega : p ≤ E - 1) (by omega : E - 1 ≤ q) h3 hclq]
      have : cls.contains (projG x).cluster = false := by
        simp only [Bool.eq_false_iff]
        intro hc
        exact hnot (by simpa [projG] using hc)
      simp only [this, Bool.false_eq_true, if_false]

end RbModel.Gsub
