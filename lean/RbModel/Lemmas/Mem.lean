/-
  Pointwise characterisation of the three copy loops (Mem.lean).
  Every lemma has the shape: under the obvious bounds the loop does not panic, keeps the length, and the
  q-th entry of the result is given by a closed formula.  For the in-Vec loops the formula is the
  memmove meaning exactly when the loop order matches the direction of the overlap.
-/
import RbModel.Mem

namespace RbModel.Mem

theorem get_ok {l : List Info} {i : Nat} (h : i < l.length) : get l i = .ok l[i] := by
  unfold get; simp [List.getElem?_eq_getElem h]; rfl

theorem get_eq_ok {l : List Info} {i : Nat} {x : Info} (h : get l i = .ok x) : l[i]? = some x := by
  unfold get at h
  cases hx : l[i]? with
  | none => simp [hx] at h
  | some y => simp [hx] at h; cases h; rfl

theorem put_ok {l : List Info} {i : Nat} (x : Info) (h : i < l.length) : put l i x = .ok (l.set i x) := by
  unfold put; simp [h]; rfl

theorem put_eq_ok {l r : List Info} {i : Nat} {x : Info} (h : put l i x = .ok r) :
    i < l.length ∧ r = l.set i x := by
  unfold put at h
  by_cases hi : i < l.length
  · simp [hi] at h; cases h; exact ⟨hi, rfl⟩
  · simp [hi] at h

/-- `copyAcross` between two different Vecs -/
theorem copyAcross_spec (src dst : List Info) (s d : Nat) :
    ∀ (k j : Nat), s + j + k ≤ src.length → d + j + k ≤ dst.length →
    ∃ r, copyAcross src dst s d k j = .ok r ∧ r.length = dst.length ∧
      ∀ q, r[q]? = if d + j ≤ q ∧ q < d + j + k then src[q - d + s]? else dst[q]? := by
  intro k
  induction k generalizing dst with
  | zero =>
    intro j _ _
    refine ⟨dst, rfl, rfl, ?_⟩
    intro q; simp; intro h1 h2; omega
  | succ k ih =>
    intro j hs hd
    have h1 : s + j < src.length := by omega
    have h2 : d + j < dst.length := by omega
    obtain ⟨r, hr, hlen, hq⟩ := ih (dst.set (d + j) src[s + j]) (j + 1) (by omega) (by simp; omega)
    refine ⟨r, ?_, by simpa using hlen, ?_⟩
    · simp only [copyAcross, get_ok h1, put_ok _ h2, bind, Except.bind]
      exact hr
    · intro q
      rw [hq q]
      by_cases hq1 : q = d + j
      · subst hq1
        have : ¬ (d + (j + 1) ≤ d + j ∧ d + j < d + (j + 1) + k) := by omega
        simp only [this, if_false]
        have : d + j ≤ d + j ∧ d + j < d + j + (k + 1) := by omega
        simp only [this, and_self, if_true]
        rw [List.getElem?_set_self h2]
        have : d + j - d + s = s + j := by omega
        rw [this, List.getElem?_eq_getElem h1]
      · rw [List.getElem?_set_ne (by omega)]
        by_cases hr1 : d + (j + 1) ≤ q ∧ q < d + (j + 1) + k
        · have : d + j ≤ q ∧ q < d + j + (k + 1) := by omega
          simp [hr1, this]
        · have : ¬ (d + j ≤ q ∧ q < d + j + (k + 1)) := by omega
          simp [hr1, this]

/-- ascending copy inside one Vec with the destination *below* the source: memmove -/
theorem copyWithinFwd_spec (s d : Nat) (hds : d ≤ s) :
    ∀ (k j : Nat) (l : List Info), s + j + k ≤ l.length →
    ∃ r, copyWithinFwd l s d k j = .ok r ∧ r.length = l.length ∧
      ∀ q, r[q]? = if d + j ≤ q ∧ q < d + j + k then l[q - d + s]? else l[q]? := by
  intro k
  induction k with
  | zero =>
    intro j l _
    refine ⟨l, rfl, rfl, ?_⟩
    intro q; simp; intro h1 h2; omega
  | succ k ih =>
    intro j l hs
    have h1 : s + j < l.length := by omega
    have h2 : d + j < l.length := by omega
    obtain ⟨r, hr, hlen, hq⟩ := ih (j + 1) (l.set (d + j) l[s + j]) (by simp; omega)
    refine ⟨r, ?_, by simpa using hlen, ?_⟩
    · simp only [copyWithinFwd, get_ok h1, put_ok _ h2, bind, Except.bind]
      exact hr
    · intro q
      rw [hq q]
      by_cases hq1 : q = d + j
      · subst hq1
        have : ¬ (d + (j + 1) ≤ d + j ∧ d + j < d + (j + 1) + k) := by omega
        simp only [this, if_false]
        have : d + j ≤ d + j ∧ d + j < d + j + (k + 1) := by omega
        simp only [this, and_self, if_true]
        rw [List.getElem?_set_self h2]
        have : d + j - d + s = s + j := by omega
        rw [this, List.getElem?_eq_getElem h1]
      · by_cases hr1 : d + (j + 1) ≤ q ∧ q < d + (j + 1) + k
        · have h3 : d + j ≤ q ∧ q < d + j + (k + 1) := by omega
          simp only [hr1, h3, and_self, if_true]
          -- the source entry has not been overwritten yet: q - d + s > d + j
          rw [List.getElem?_set_ne (by omega)]
        · have h3 : ¬ (d + j ≤ q ∧ q < d + j + (k + 1)) := by omega
          simp only [hr1, h3, if_false]
          rw [List.getElem?_set_ne (by omega)]

/-- descending copy inside one Vec with the destination *above* the source: memmove -/
theorem copyWithinBwd_spec (s d : Nat) (hsd : s ≤ d) :
    ∀ (n : Nat) (l : List Info), d + n ≤ l.length →
    ∃ r, copyWithinBwd l s d n = .ok r ∧ r.length = l.length ∧
      ∀ q, r[q]? = if d ≤ q ∧ q < d + n then l[q - d + s]? else l[q]? := by
  intro n
  induction n with
  | zero =>
    intro l _
    refine ⟨l, rfl, rfl, ?_⟩
    intro q; simp; intro h1 h2; omega
  | succ j ih =>
    intro l hd
    have h1 : s + j < l.length := by omega
    have h2 : d + j < l.length := by omega
    obtain ⟨r, hr, hlen, hq⟩ := ih (l.set (d + j) l[s + j]) (by simp; omega)
    refine ⟨r, ?_, by simpa using hlen, ?_⟩
    · simp only [copyWithinBwd, get_ok h1, put_ok _ h2, bind, Except.bind]
      exact hr
    · intro q
      rw [hq q]
      by_cases hq1 : q = d + j
      · subst hq1
        have : ¬ (d ≤ d + j ∧ d + j < d + j) := by omega
        simp only [this, if_false]
        have : d ≤ d + j ∧ d + j < d + (j + 1) := by omega
        simp only [this, and_self, if_true]
        rw [List.getElem?_set_self h2]
        have : d + j - d + s = s + j := by omega
        rw [this, List.getElem?_eq_getElem h1]
      · by_cases hr1 : d ≤ q ∧ q < d + j
        · have h3 : d ≤ q ∧ q < d + (j + 1) := by omega
          simp only [hr1, h3, and_self, if_true]
          -- source index q - d + s < s + j ≤ d + j: not yet overwritten
          rw [List.getElem?_set_ne (by omega)]
        · have h3 : ¬ (d ≤ q ∧ q < d + (j + 1)) := by omega
          simp only [hr1, h3, if_false]
          rw [List.getElem?_set_ne (by omega)]

end RbModel.Mem
