/- helper lemmas for Props/C17.lean -/
import RbModel.Morx
import RbModel.Spec.Aat

namespace RbModel.Morx

theorem rd_ok {a : Array G} {i : Nat} (h : i < a.size) : rd a i = .ok a[i] := by
  simp [rd, h]; rfl

theorem wr_ok {a : Array G} {i : Nat} {g : G} (h : i < a.size) : wr a i g = .ok (a.set i g h) := by
  simp [wr, h]; rfl

/-- an ascending copy loop moving a block to the *left* is a memmove. -/
theorem copyUp (src dst : Nat) (hds : dst ≤ src) : ∀ (n : Nat) (a : Array G), src + n ≤ a.size →
    ∃ a', forUp n (copyStep src dst) a = .ok a' ∧ a'.size = a.size ∧
      ∀ k, a'[k]? = if dst ≤ k ∧ k < dst + n then a[k - dst + src]? else a[k]? := by
  intro n
  induction n with
  | zero => intro a _; exact ⟨a, rfl, rfl, by intro k; simp; omega⟩
  | succ n ih =>
    intro a h
    obtain ⟨a1, h1, hs, hk⟩ := ih a (by omega)
    clear ih
    have hlt : src + n < a1.size := by omega
    have hlt2 : dst + n < a1.size := by omega
    refine ⟨a1.set (dst + n) a1[src + n] hlt2, ?_, by simp [hs], ?_⟩
    · simp [forUp, h1, copyStep, rd_ok hlt, wr_ok hlt2, bind, Except.bind]
    · intro k
      have e1 : a1[src + n]? = a[src + n]? := by
        rw [hk, if_neg (by omega)]
      have e2 : a1[src + n]? = some a1[src + n] := by simp [hlt]
      rw [Array.getElem?_set]
      by_cases hkk : dst + n = k
      · subst hkk
        have : (dst ≤ dst + n ∧ dst + n < dst + (n + 1)) := by omega
        simp only [this, and_self, if_true]
        have : dst + n - dst + src = src + n := by omega
        rw [this, ← e1, e2]
      · simp only [hkk, if_false, hk]
        by_cases hr : dst ≤ k ∧ k < dst + n
        · have : dst ≤ k ∧ k < dst + (n+1) := by omega
          simp only [hr, this, and_self, if_true]
        · have : ¬ (dst ≤ k ∧ k < dst + (n + 1)) := by omega
          simp only [hr, this, if_false]

/-- a descending copy loop moving a block to the *right* is a memmove. -/
theorem copyDown (src dst : Nat) (hds : src ≤ dst) : ∀ (n : Nat) (a : Array G), dst + n ≤ a.size →
    ∃ a', forDown n (copyStep src dst) a = .ok a' ∧ a'.size = a.size ∧
      ∀ k, a'[k]? = if dst ≤ k ∧ k < dst + n then a[k - dst + src]? else a[k]? := by
  intro n
  induction n with
  | zero => intro a _; exact ⟨a, rfl, rfl, by intro k; simp; omega⟩
  | succ n ih =>
    intro a h
    have hlt : src + n < a.size := by omega
    have hlt2 : dst + n < a.size := by omega
    obtain ⟨a2, h2, hs, hk⟩ := ih (a.set (dst + n) a[src + n] hlt2) (by simp; omega)
    clear ih
    refine ⟨a2, ?_, by simpa using hs, ?_⟩
    · simp [forDown, copyStep, rd_ok hlt, wr_ok hlt2, bind, Except.bind, h2]
    · intro k
      rw [hk]
      simp only [Array.getElem?_set]
      have e2 : a[src + n]? = some a[src + n] := by simp [hlt]
      by_cases hr : dst ≤ k ∧ k < dst + n
      · have h3 : dst ≤ k ∧ k < dst + (n+1) := by omega
        have h4 : ¬ (dst + n = k - dst + src) := by omega
        simp only [hr, h3, h4, and_self, if_true, if_false]
      · simp only [hr, if_false]
        by_cases hkk : dst + n = k
        · subst hkk
          have : (dst ≤ dst + n ∧ dst + n < dst + (n + 1)) := by omega
          simp only [this, and_self, if_true]
          have : dst + n - dst + src = src + n := by omega
          rw [this, e2]
        · have : ¬ (dst ≤ k ∧ k < dst + (n + 1)) := by omega
          simp only [hkk, this, if_false]

theorem copyFrom (a : Array G) (s t : Nat) : ∀ (n : Nat) (b : Array G), s + n ≤ a.size → t + n ≤ b.size →
    ∃ b', forUp n (copyFromStep a s t) b = .ok b' ∧ b'.size = b.size ∧
      ∀ k, b'[k]? = if t ≤ k ∧ k < t + n then a[k - t + s]? else b[k]? := by
  intro n
  induction n with
  | zero => intro b _ _; exact ⟨b, rfl, rfl, by intro k; simp; omega⟩
  | succ n ih =>
    intro b h1 h2
    obtain ⟨b1, e1, hs, hk⟩ := ih b (by omega) (by omega)
    clear ih
    have hlt : s + n < a.size := by omega
    have hlt2 : t + n < b1.size := by omega
    refine ⟨b1.set (t + n) a[s + n] hlt2, ?_, by simp [hs], ?_⟩
    · simp [forUp, e1, copyFromStep, rd_ok hlt, wr_ok hlt2, bind, Except.bind]
    · intro k
      have e2 : a[s + n]? = some a[s + n] := by simp [hlt]
      rw [Array.getElem?_set]
      by_cases hkk : t + n = k
      · subst hkk
        rw [if_pos rfl, if_pos (by omega)]
        have : t + n - t + s = s + n := by omega
        rw [this, e2]
      · rw [if_neg hkk, hk]
        by_cases hr : t ≤ k ∧ k < t + n
        · rw [if_pos hr, if_pos (by omega)]
        · rw [if_neg hr, if_neg (by omega)]

theorem swapA_spec (a : Array G) (i j : Nat) (hi : i < a.size) (hj : j < a.size) :
    ∃ a', swapA a i j = .ok a' ∧ a'.size = a.size ∧
      ∀ k, a'[k]? = if k = j then a[i]? else if k = i then a[j]? else a[k]? := by
  have h2 : j < (a.set i a[j] hi).size := by simp [hj]
  refine ⟨(a.set i a[j] hi).set j a[i] h2, ?_, by simp, ?_⟩
  · simp [swapA, rd_ok hi, rd_ok hj, wr_ok hi, wr_ok h2, bind, Except.bind]
  · intro k
    rw [Array.getElem?_set, Array.getElem?_set]
    by_cases h3 : j = k
    · subst h3; simp [hi]
    · have : ¬ k = j := fun h => h3 h.symm
      rw [if_neg h3, if_neg this]
      by_cases h4 : i = k
      · subst h4; simp [hj]
      · have : ¬ k = i := fun h => h4 h.symm
        rw [if_neg h4, if_neg this]

/-- the shift phase, whatever the direction of the copy loop -/
theorem shift_spec (a : Array G) (start end_ l r : Nat) (hse : start + l + r ≤ end_) (hsz : end_ ≤ a.size) :
    ∃ a', shiftPhase a start end_ l r = .ok a' ∧ a'.size = a.size ∧
      ∀ k, a'[k]? = if start + r ≤ k ∧ k < end_ - l then a[k - r + l]? else a[k]? := by
  unfold shiftPhase
  by_cases h1 : l > r
  · rw [if_pos h1]
    obtain ⟨a', e, hs, hk⟩ := copyUp (start + l) (start + r) (by omega) (end_ - start - l - r) a (by omega)
    refine ⟨a', e, hs, ?_⟩
    intro k; rw [hk]
    by_cases h : start + r ≤ k ∧ k < end_ - l
    · rw [if_pos (by omega), if_pos h]; congr 1; omega
    · rw [if_neg (by omega), if_neg h]
  · rw [if_neg h1]
    by_cases h2 : l < r
    · rw [if_pos h2]
      obtain ⟨a', e, hs, hk⟩ := copyDown (start + l) (start + r) (by omega) (end_ - start - l - r) a (by omega)
      refine ⟨a', e, hs, ?_⟩
      intro k; rw [hk]
      by_cases h : start + r ≤ k ∧ k < end_ - l
      · rw [if_pos (by omega), if_pos h]; congr 1; omega
      · rw [if_neg (by omega), if_neg h]
    · rw [if_neg h2]
      refine ⟨a, rfl, rfl, ?_⟩
      intro k
      by_cases h : start + r ≤ k ∧ k < end_ - l
      · rw [if_pos h]; congr 1; omega
      · rw [if_neg h]

end RbModel.Morx
