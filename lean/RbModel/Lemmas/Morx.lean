/- helper lemmas for Props/C17.lean -/
import RbModel.Morx
import RbModel.Spec.Aat

namespace RbModel.Morx

theorem rd_ok {a : Array G} {i : Nat} (h : i < a.size) : rd a i = .ok a[i] := by
  simp [rd, h]; rfl

theorem wr_ok {a : Array G} {i : Nat} {g : G} (h : i < a.size) : wr a i g = .ok (a.set i g h) := by
  simp [wr, h]; rfl

/-- an ascending copy loop moving a block to the *left* is a memmove. -/
theorem copyUp (src dst : Nat) (hds : dst ≤ src) : ∀ (n : Nat) (a : Array G), src + n ≤ a.size →
    ∃ a', forUp n (copyStep src dst) a = .ok a' ∧ a'.size = a.size ∧
      ∀ k, a'[k]? = if dst ≤ k ∧ k < dst + n then a[k - dst + src]? else a[k]? := by
  intro n
  induction n with
  | zero => intro a _; exact ⟨a, rfl, rfl, by intro k; simp; omega⟩
  | succ n ih =>
    intro a h
    obtain ⟨a1, h1, hs, hk⟩ := ih a (by omega)
    clear ih
    have hlt : src + n < a1.size := by omega
    have hlt2 : dst + n < a1.size := by omega
    refine ⟨a1.set (dst + n) a1[src + n] hlt2, ?_, by simp [hs], ?_⟩
    · simp [forUp, h1, copyStep, rd_ok hlt, wr_ok hlt2, bind, Except.bind]
    · intro k
      have e1 : a1[src + n]? = a[src + n]? := by
        rw [hk, if_neg (by omega)]
      have e2 : a1[src + n]? = some a1[src + n] := by simp [hlt]
      rw [Array.getElem?_set]
      by_cases hkk : dst + n = k
      · subst hkk
        have : (dst ≤ dst + n ∧ dst + n < dst + (n + 1)) := by omega
        simp only [this, and_self, if_true]
        have : dst + n - dst + src = src + n := by omega
        rw [this, ← e1, e2]
      · simp only [hkk, if_false, hk]
        by_cases hr : dst ≤ k ∧ k < dst + n
        · have : dst ≤ k ∧ k < dst + (n+1) := by omega
          simp only [hr, this, and_self, if_true]
        · have : ¬ (dst ≤ k ∧ k < dst + (n + 1)) := by omega
          simp only [hr, this, if_false]

/-- a descending copy loop moving a block to the *right* is a memmove. -/
theorem copyDown (src dst : Nat) (hds : src ≤ dst) : ∀ (n : Nat) (a : Array G), dst + n ≤ a.size →
    ∃ a', forDown n (copyStep src dst) a = .ok a' ∧ a'.size = a.size ∧
      ∀ k, a'[k]? = if dst ≤ k ∧ k < dst + n then a[k - dst + src]? else a[k]? := by
  intro n
  induction n with
  | zero => intro a _; exact ⟨a, rfl, rfl, by intro k; simp; omega⟩
  | succ n ih =>
    intro a h
    have hlt : src + n < a.size := by omega
    have hlt2 : dst + n < a.size := by omega
    obtain ⟨a2, h2, hs, hk⟩ := ih (a.set (dst + n) a[src + n] hlt2) (by simp; omega)
    clear ih
    refine ⟨a2, ?_, by simpa using hs, ?_⟩
    · simp [forDown, copyStep, rd_ok hlt, wr_ok hlt2, bind, Except.bind, h2]
    · intro k
      rw [hk]
      simp only [Array.getElem?_set]
      have e2 : a[src + n]? = some a[src + n] := by simp [hlt]
      by_cases hr : dst ≤ k ∧ k < dst + n
      · have h3 : dst ≤ k ∧ k < dst + (n+1) := by omega
        have h4 : ¬ (dst + n = k - dst + src) := by omega
        simp only [hr, h3, h4, and_self, if_true, if_false]
      · simp only [hr, if_false]
        by_cases hkk : dst + n = k
        · subst hkk
          have : (dst ≤ dst + n ∧ dst + n < dst + (n + 1)) := by omega
          simp only [this, and_self, if_true]
          have : dst + n - dst + src = src + n := by omega
          rw [this, e2]
        · have : ¬ (dst ≤ k ∧ k < dst + (n + 1)) := by omega
          simp only [hkk, this, if_false]

theorem copyFrom (a : Array G) (s t : Nat) : ∀ (n : Nat) (b : Array G), s + n ≤ a.size → t + n ≤ b.size →
    ∃ b', forUp n (copyFromStep a s t) b = .ok b' ∧ b'.size = b.size ∧
      ∀ k, b'[k]? = if t ≤ k ∧ k < t + n then a[k - t + s]? else b[k]? := by
  intro n
  induction n with
  | zero => intro b _ _; exact ⟨b, rfl, rfl, by intro k; simp; omega⟩
  | succ n ih =>
    intro b h1 h2
    obtain ⟨b1, e1, hs, hk⟩ := ih b (by omega) (by omega)
    clear ih
    have hlt : s + n < a.size := by omega
    have hlt2 : t + n < b1.size := by omega
    refine ⟨b1.set (t + n) a[s + n] hlt2, ?_, by simp [hs], ?_⟩
    · simp [forUp, e1, copyFromStep, rd_ok hlt, wr_ok hlt2, bind, Except.bind]
    · intro k
      have e2 : a[s + n]? = some a[s + n] := by simp [hlt]
      rw [Array.getElem?_set]
      by_cases hkk : t + n = k
      · subst hkk
        rw [if_pos rfl, if_pos (by omega)]
        have : t + n - t + s = s + n := by omega
        rw [this, e2]
      · rw [if_neg hkk, hk]
        by_cases hr : t ≤ k ∧ k < t + n
        · rw [if_pos hr, if_pos (by omega)]
        · rw [if_neg hr, if_neg (by omega)]

theorem swapA_spec (a : Array G) (i j : Nat) (hi : i < a.size) (hj : j < a.size) :
    ∃ a', swapA a i j = .ok a' ∧ a'.size = a.size ∧
      ∀ k, a'[k]? = if k = j then a[i]? else if k = i then a[j]? else a[k]? := by
  have h2 : j < (a.set i a[j] hi).size := by simp [hj]
  refine ⟨(a.set i a[j] hi).set j a[i] h2, ?_, by simp, ?_⟩
  · simp [swapA, rd_ok hi, rd_ok hj, wr_ok hi, wr_ok h2, bind, Except.bind]
  · intro k
    rw [Array.getElem?_set, Array.getElem?_set]
    by_cases h3 : j = k
    · subst h3; simp [hi]
    · have : ¬ k = j := fun h => h3 h.symm
      rw [if_neg h3, if_neg this]
      by_cases h4 : i = k
      · subst h4; simp [hj]
      · have : ¬ k = i := fun h => h4 h.symm
        rw [if_neg h4, if_neg this]

/-- the shift phase, whatever the direction of the copy loop -/
theorem shift_spec (a : Array G) (start end_ l r : Nat) (hse : start + l + r ≤ end_) (hsz : end_ ≤ a.size) :
    ∃ a', shiftPhase a start end_ l r = .ok a' ∧ a'.size = a.size ∧
      ∀ k, a'[k]? = if start + r ≤ k ∧ k < end_ - l then a[k - r + l]? else a[k]? := by
  unfold shiftPhase
  by_cases h1 : l > r
  · rw [if_pos h1]
    obtain ⟨a', e, hs, hk⟩ := copyUp (start + l) (start + r) (by omega) (end_ - start - l - r) a (by omega)
    refine ⟨a', e, hs, ?_⟩
    intro k; rw [hk]
    by_cases h : start + r ≤ k ∧ k < end_ - l
    · rw [if_pos (by omega), if_pos h]; congr 1; omega
    · rw [if_neg (by omega), if_neg h]
  · rw [if_neg h1]
    by_cases h2 : l < r
    · rw [if_pos h2]
      obtain ⟨a', e, hs, hk⟩ := copyDown (start + l) (start + r) (by omega) (end_ - start - l - r) a (by omega)
      refine ⟨a', e, hs, ?_⟩
      intro k; rw [hk]
      by_cases h : start + r ≤ k ∧ k < end_ - l
      · rw [if_pos (by omega), if_pos h]; congr 1; omega
      · rw [if_neg (by omega), if_neg h]
    · rw [if_neg h2]
      refine ⟨a, rfl, rfl, ?_⟩
      intro k
      by_cases h : start + r ≤ k ∧ k < end_ - l
      · rw [if_pos h]; congr 1; omega
      · rw [if_neg h]

theorem ok_bind {α β : Type} (x : α) (f : α → M β) : (Except.ok x >>= f) = f x := rfl

/-- index permutation inside a two-record block that is flipped -/
def flip2 (rev : Bool) (i : Nat) : Nat := if rev then 1 - i else i

theorem rearrangeCore_get (a : Array G) (start end_ l r : Nat) (revL revR : Bool)
    (hl : l ≤ 2) (hr : r ≤ 2) (hse : start + l + r ≤ end_) (hsz : end_ ≤ a.size)
    (hrl : revL = true → l = 2) (hrr : revR = true → r = 2) :
    ∃ a', rearrangeCore a start end_ l r revL revR = .ok a' ∧ a'.size = a.size ∧
      ∀ k, a'[k]? =
        if start ≤ k ∧ k < start + r then a[end_ - r + flip2 revR (k - start)]?
        else if start + r ≤ k ∧ k < end_ - l then a[k - r + l]?
        else if end_ - l ≤ k ∧ k < end_ then a[start + flip2 revL (k - (end_ - l))]?
        else a[k]? := by
  unfold rearrangeCore
  obtain ⟨b1, eb1, sb1, kb1⟩ := copyFrom a start 0 l (Array.replicate 4 G.dflt) (by omega) (by simp; omega)
  obtain ⟨b2, eb2, sb2, kb2⟩ := copyFrom a (end_ - r) 2 r b1 (by omega) (by simp [sb1]; omega)
  obtain ⟨a1, ea1, sa1, ka1⟩ := shift_spec a start end_ l r hse hsz
  have sb2' : b2.size = 4 := by simp [sb2, sb1]
  obtain ⟨a2, ea2, sa2, ka2⟩ := copyFrom b2 2 start r a1 (by omega) (by omega)
  obtain ⟨a3, ea3, sa3, ka3⟩ := copyFrom b2 0 (end_ - l) l a2 (by omega) (by omega)
  -- formula without the swaps
  have k3 : ∀ k, a3[k]? =
      if start ≤ k ∧ k < start + r then a[end_ - r + (k - start)]?
      else if start + r ≤ k ∧ k < end_ - l then a[k - r + l]?
      else if end_ - l ≤ k ∧ k < end_ then a[start + (k - (end_ - l))]?
      else a[k]? := by
    intro k
    rw [ka3]
    by_cases c3 : end_ - l ≤ k ∧ k < end_
    · rw [if_pos (by omega), if_neg (by omega), if_neg (by omega), if_pos c3]
      rw [kb2, if_neg (by omega), kb1, if_pos (by omega)]
      congr 1; omega
    · rw [if_neg (by omega), ka2]
      by_cases c1 : start ≤ k ∧ k < start + r
      · rw [if_pos c1, if_pos c1, kb2, if_pos (by omega)]
        congr 1; omega
      · rw [if_neg c1, if_neg c1, ka1]
        by_cases c2 : start + r ≤ k ∧ k < end_ - l
        · rw [if_pos c2, if_pos c2]
        · rw [if_neg c2, if_neg c2, if_neg c3]
  -- the two optional swaps
  have hsA : ∃ a4, optSwap revL a3 (end_ - 1) (end_ - 2) = .ok a4 ∧ a4.size = a.size ∧
      ∀ k, a4[k]? =
        if start ≤ k ∧ k < start + r then a[end_ - r + (k - start)]?
        else if start + r ≤ k ∧ k < end_ - l then a[k - r + l]?
        else if end_ - l ≤ k ∧ k < end_ then a[start + flip2 revL (k - (end_ - l))]?
        else a[k]? := by
    cases revL with
    | false => exact ⟨a3, rfl, by omega, by intro k; rw [k3]; simp [flip2]⟩
    | true =>
      have l2 : l = 2 := hrl rfl
      subst l2
      obtain ⟨a4, e4, s4, k4⟩ := swapA_spec a3 (end_ - 1) (end_ - 2) (by omega) (by omega)
      refine ⟨a4, e4, by omega, ?_⟩
      intro k; rw [k4]
      by_cases h1 : k = end_ - 2
      · rw [if_pos h1, k3, if_neg (by omega), if_neg (by omega), if_pos (by omega),
          if_neg (by omega), if_neg (by omega), if_pos (by omega)]
        congr 1; simp [flip2]; omega
      · rw [if_neg h1]
        by_cases h2 : k = end_ - 1
        · rw [if_pos h2, k3, if_neg (by omega), if_neg (by omega), if_pos (by omega),
            if_neg (by omega), if_neg (by omega), if_pos (by omega)]
          congr 1; simp [flip2]; omega
        · rw [if_neg h2, k3]
          by_cases c1 : start ≤ k ∧ k < start + r
          · rw [if_pos c1, if_pos c1]
          · rw [if_neg c1, if_neg c1]
            by_cases c2 : start + r ≤ k ∧ k < end_ - 2
            · rw [if_pos c2, if_pos c2]
            · rw [if_neg c2, if_neg c2, if_neg (by omega), if_neg (by omega)]
  obtain ⟨a4, ea4, sa4, ka4⟩ := hsA
  have hsB : ∃ a5, optSwap revR a4 start (start + 1) = .ok a5 ∧ a5.size = a.size ∧
      ∀ k, a5[k]? =
        if start ≤ k ∧ k < start + r then a[end_ - r + flip2 revR (k - start)]?
        else if start + r ≤ k ∧ k < end_ - l then a[k - r + l]?
        else if end_ - l ≤ k ∧ k < end_ then a[start + flip2 revL (k - (end_ - l))]?
        else a[k]? := by
    cases revR with
    | false => exact ⟨a4, rfl, by omega, by intro k; rw [ka4]; simp [flip2]⟩
    | true =>
      have r2 : r = 2 := hrr rfl
      subst r2
      obtain ⟨a5, e5, s5, k5⟩ := swapA_spec a4 start (start + 1) (by omega) (by omega)
      refine ⟨a5, e5, by omega, ?_⟩
      intro k; rw [k5]
      by_cases h1 : k = start + 1
      · rw [if_pos h1, ka4, if_pos (by omega), if_pos (by omega)]
        congr 1; simp [flip2]; omega
      · rw [if_neg h1]
        by_cases h2 : k = start
        · rw [if_pos h2, ka4, if_pos (by omega), if_pos (by omega)]
          congr 1; simp [flip2]; omega
        · rw [if_neg h2, ka4]
          have hc : ¬ (start ≤ k ∧ k < start + 2) := by omega
          simp only [if_neg hc]
  obtain ⟨a5, ea5, sa5, ka5⟩ := hsB
  refine ⟨a5, ?_, sa5, ka5⟩
  rw [eb1, ok_bind, eb2, ok_bind, ea1, ok_bind, ea2, ok_bind, ea3, ok_bind, ea4, ok_bind, ea5]

theorem getElem?_app5 {α : Type} (p A x D q : List α) (k : Nat) :
    (p ++ A ++ x ++ D ++ q)[k]? =
      if k < p.length then p[k]?
      else if k < p.length + A.length then A[k - p.length]?
      else if k < p.length + A.length + x.length then x[k - p.length - A.length]?
      else if k < p.length + A.length + x.length + D.length then D[k - p.length - A.length - x.length]?
      else q[k - p.length - A.length - x.length - D.length]? := by
  simp only [List.getElem?_append, List.length_append]
  by_cases h1 : k < p.length
  · have h2 : k < p.length + A.length := by omega
    have h3 : k < p.length + A.length + x.length := by omega
    have h4 : k < p.length + A.length + x.length + D.length := by omega
    simp only [h1, h2, h3, h4, if_true]
  · by_cases h2 : k < p.length + A.length
    · have h3 : k < p.length + A.length + x.length := by omega
      have h4 : k < p.length + A.length + x.length + D.length := by omega
      simp only [h1, h2, h3, h4, if_true, if_false]
    · by_cases h3 : k < p.length + A.length + x.length
      · have h4 : k < p.length + A.length + x.length + D.length := by omega
        simp only [h1, h2, h3, h4, if_true, if_false]
        congr 1; omega
      · by_cases h4 : k < p.length + A.length + x.length + D.length
        · simp only [h1, h2, h3, h4, if_true, if_false]
          congr 1; omega
        · simp only [h1, h2, h3, h4, if_false]
          congr 1; omega

def flipL {α : Type} (rev : Bool) (l : List α) : List α := if rev then l.reverse else l

theorem flipL_length {α : Type} (rev : Bool) (l : List α) : (flipL rev l).length = l.length := by
  unfold flipL; split <;> simp

theorem flipL_get {α : Type} (rev : Bool) (l : List α) (h : rev = true → l.length = 2) (j : Nat) (hj : j < l.length) :
    (flipL rev l)[j]? = l[flip2 rev j]? := by
  cases rev with
  | false => simp [flipL, flip2]
  | true =>
    have h2 := h rfl
    match l, h2 with
    | [c, d], _ =>
      simp [flipL, flip2]
      match j, hj with
      | 0, _ => simp
      | 1, _ => simp

theorem nibble_list (pre A x D post : List G) (l r : Nat) (revL revR : Bool)
    (hA : A.length = l) (hD : D.length = r) (hl : l ≤ 2) (hr : r ≤ 2)
    (hrl : revL = true → l = 2) (hrr : revR = true → r = 2) :
    rearrangeCore (pre ++ A ++ x ++ D ++ post).toArray pre.length (pre.length + l + x.length + r) l r revL revR
      = .ok (pre ++ flipL revR D ++ x ++ flipL revL A ++ post).toArray := by
  have hsz : (pre ++ A ++ x ++ D ++ post).toArray.size = pre.length + l + x.length + r + post.length := by
    simp [hA, hD]; omega
  obtain ⟨a', e, hs, hk⟩ := rearrangeCore_get (pre ++ A ++ x ++ D ++ post).toArray pre.length
    (pre.length + l + x.length + r) l r revL revR hl hr (by omega) (by omega) hrl hrr
  rw [e]; congr 1
  apply Array.ext_getElem?
  intro k
  rw [hk]
  simp only [List.getElem?_toArray]
  rw [getElem?_app5 pre (flipL revR D) x (flipL revL A) post k]
  simp only [flipL_length, hA, hD]
  by_cases c0 : k < pre.length
  · rw [if_neg (by omega), if_neg (by omega), if_neg (by omega), if_pos c0, getElem?_app5, if_pos c0]
  · rw [if_neg c0]
    by_cases c1 : k < pre.length + r
    · rw [if_pos (by omega), if_pos c1, flipL_get revR D (by simpa [hD] using hrr) _ (by omega), getElem?_app5]
      have hf : flip2 revR (k - pre.length) < r := by
        unfold flip2; split
        · have := hrr (by assumption); omega
        · omega
      rw [if_neg (by omega), if_neg (by omega), if_neg (by omega), if_pos (by simp [hA, hD]; omega)]
      congr 1; simp [hA]; omega
    · rw [if_neg (by omega), if_neg c1]
      by_cases c2 : k < pre.length + r + x.length
      · rw [if_pos (by omega), if_pos c2, getElem?_app5,
          if_neg (by omega), if_neg (by simp [hA]; omega), if_pos (by simp [hA]; omega)]
        congr 1; simp [hA]; omega
      · rw [if_neg (by omega), if_neg c2]
        by_cases c3 : k < pre.length + r + x.length + l
        · rw [if_pos (by omega), if_pos c3, flipL_get revL A (by simpa [hA] using hrl) _ (by omega), getElem?_app5]
          have hf : flip2 revL (k - (pre.length + l + x.length + r - l)) < l := by
            unfold flip2; split
            · have := hrl (by assumption); omega
            · omega
          rw [if_neg (by omega), if_pos (by simp [hA]; omega)]
          have e1 : k - pre.length - r - x.length = k - (pre.length + l + x.length + r - l) := by omega
          rw [e1]
          congr 1; simp
        · rw [if_neg (by omega), if_neg c3, getElem?_app5,
            if_neg (by omega), if_neg (by simp [hA]; omega), if_neg (by simp [hA]; omega),
            if_neg (by simp [hA, hD]; omega)]
          congr 1; simp [hA, hD]; omega

open RbModel.Spec.Aat in
theorem rearrange_table (σ : RbModel.Spec.Aat.Asg G) (pre post : List G) : (v : Nat) → (hv : v < 16) →
    rearrangeCore (pre ++ inst σ (verbTable v).1 ++ post).toArray pre.length
        (pre.length + (inst σ (verbTable v).1).length)
        (verbParams v).1 (verbParams v).2.1 (verbParams v).2.2.1 (verbParams v).2.2.2
      = .ok (pre ++ inst σ (verbTable v).2 ++ post).toArray
  | 0, _ => by
    have hp : verbParams 0 = (0, 0, false, false) := by decide
    have h := nibble_list pre [] σ.x [] post 0 0 false false rfl rfl (by omega) (by omega) (by simp) (by simp)
    simp only [hp, verbTable, inst]
    simpa [flipL, Nat.add_assoc, Nat.add_comm, Nat.add_left_comm] using h
  | 1, _ => by
    have hp : verbParams 1 = (1, 0, false, false) := by decide
    have h := nibble_list pre [σ.a] σ.x [] post 1 0 false false rfl rfl (by omega) (by omega) (by simp) (by simp)
    simp only [hp, verbTable, inst]
    simpa [flipL, Nat.add_assoc, Nat.add_comm, Nat.add_left_comm] using h
  | 2, _ => by
    have hp : verbParams 2 = (0, 1, false, false) := by decide
    have h := nibble_list pre [] σ.x [σ.d] post 0 1 false false rfl rfl (by omega) (by omega) (by simp) (by simp)
    simp only [hp, verbTable, inst]
    simpa [flipL, Nat.add_assoc, Nat.add_comm, Nat.add_left_comm] using h
  | 3, _ => by
    have hp : verbParams 3 = (1, 1, false, false) := by decide
    have h := nibble_list pre [σ.a] σ.x [σ.d] post 1 1 false false rfl rfl (by omega) (by omega) (by simp) (by simp)
    simp only [hp, verbTable, inst]
    simpa [flipL, Nat.add_assoc, Nat.add_comm, Nat.add_left_comm] using h
  | 4, _ => by
    have hp : verbParams 4 = (2, 0, false, false) := by decide
    have h := nibble_list pre [σ.a, σ.b] σ.x [] post 2 0 false false rfl rfl (by omega) (by omega) (by simp) (by simp)
    simp only [hp, verbTable, inst]
    simpa [flipL, Nat.add_assoc, Nat.add_comm, Nat.add_left_comm] using h
  | 5, _ => by
    have hp : verbParams 5 = (2, 0, true, false) := by decide
    have h := nibble_list pre [σ.a, σ.b] σ.x [] post 2 0 true false rfl rfl (by omega) (by omega) (by simp) (by simp)
    simp only [hp, verbTable, inst]
    simpa [flipL, Nat.add_assoc, Nat.add_comm, Nat.add_left_comm] using h
  | 6, _ => by
    have hp : verbParams 6 = (0, 2, false, false) := by decide
    have h := nibble_list pre [] σ.x [σ.c, σ.d] post 0 2 false false rfl rfl (by omega) (by omega) (by simp) (by simp)
    simp only [hp, verbTable, inst]
    simpa [flipL, Nat.add_assoc, Nat.add_comm, Nat.add_left_comm] using h
  | 7, _ => by
    have hp : verbParams 7 = (0, 2, false, true) := by decide
    have h := nibble_list pre [] σ.x [σ.c, σ.d] post 0 2 false true rfl rfl (by omega) (by omega) (by simp) (by simp)
    simp only [hp, verbTable, inst]
    simpa [flipL, Nat.add_assoc, Nat.add_comm, Nat.add_left_comm] using h
  | 8, _ => by
    have hp : verbParams 8 = (1, 2, false, false) := by decide
    have h := nibble_list pre [σ.a] σ.x [σ.c, σ.d] post 1 2 false false rfl rfl (by omega) (by omega) (by simp) (by simp)
    simp only [hp, verbTable, inst]
    simpa [flipL, Nat.add_assoc, Nat.add_comm, Nat.add_left_comm] using h
  | 9, _ => by
    have hp : verbParams 9 = (1, 2, false, true) := by decide
    have h := nibble_list pre [σ.a] σ.x [σ.c, σ.d] post 1 2 false true rfl rfl (by omega) (by omega) (by simp) (by simp)
    simp only [hp, verbTable, inst]
    simpa [flipL, Nat.add_assoc, Nat.add_comm, Nat.add_left_comm] using h
  | 10, _ => by
    have hp : verbParams 10 = (2, 1, false, false) := by decide
    have h := nibble_list pre [σ.a, σ.b] σ.x [σ.d] post 2 1 false false rfl rfl (by omega) (by omega) (by simp) (by simp)
    simp only [hp, verbTable, inst]
    simpa [flipL, Nat.add_assoc, Nat.add_comm, Nat.add_left_comm] using h
  | 11, _ => by
    have hp : verbParams 11 = (2, 1, true, false) := by decide
    have h := nibble_list pre [σ.a, σ.b] σ.x [σ.d] post 2 1 true false rfl rfl (by omega) (by omega) (by simp) (by simp)
    simp only [hp, verbTable, inst]
    simpa [flipL, Nat.add_assoc, Nat.add_comm, Nat.add_left_comm] using h
  | 12, _ => by
    have hp : verbParams 12 = (2, 2, false, false) := by decide
    have h := nibble_list pre [σ.a, σ.b] σ.x [σ.c, σ.d] post 2 2 false false rfl rfl (by omega) (by omega) (by simp) (by simp)
    simp only [hp, verbTable, inst]
    simpa [flipL, Nat.add_assoc, Nat.add_comm, Nat.add_left_comm] using h
  | 13, _ => by
    have hp : verbParams 13 = (2, 2, true, false) := by decide
    have h := nibble_list pre [σ.a, σ.b] σ.x [σ.c, σ.d] post 2 2 true false rfl rfl (by omega) (by omega) (by simp) (by simp)
    simp only [hp, verbTable, inst]
    simpa [flipL, Nat.add_assoc, Nat.add_comm, Nat.add_left_comm] using h
  | 14, _ => by
    have hp : verbParams 14 = (2, 2, false, true) := by decide
    have h := nibble_list pre [σ.a, σ.b] σ.x [σ.c, σ.d] post 2 2 false true rfl rfl (by omega) (by omega) (by simp) (by simp)
    simp only [hp, verbTable, inst]
    simpa [flipL, Nat.add_assoc, Nat.add_comm, Nat.add_left_comm] using h
  | 15, _ => by
    have hp : verbParams 15 = (2, 2, true, true) := by decide
    have h := nibble_list pre [σ.a, σ.b] σ.x [σ.c, σ.d] post 2 2 true true rfl rfl (by omega) (by omega) (by simp) (by simp)
    simp only [hp, verbTable, inst]
    simpa [flipL, Nat.add_assoc, Nat.add_comm, Nat.add_left_comm] using h
  | n + 16, h => by omega

/-- the control part of a buffer: everything but the two glyph vectors -/
def Buf.ctl (b : Buf) : Buf := { b with info := #[], out := #[] }

theorem bind_ok_inv {α β : Type} {x : M α} {f : α → M β} {y : β} (h : (x >>= f) = .ok y) :
    ∃ a, x = .ok a ∧ f a = .ok y := by
  cases x with
  | error e => simp [bind, Except.bind] at h
  | ok a => exact ⟨a, rfl, h⟩

theorem mergeClusters_ctl {b b' : Buf} {s e : Nat} (h : mergeClusters b s e = .ok b') : b'.ctl = b.ctl := by
  unfold mergeClusters at h
  simp only [bind, Except.bind, pure, Except.pure] at h
  split at h
  · cases h; rfl
  · split at h
    · cases h
    · cases h; rfl

theorem rearrApply_ctl {cs : CS} {v : Nat} {b b' : Buf} (h : rearrApply cs v b = .ok b') : b'.ctl = b.ctl := by
  unfold rearrApply at h
  simp only [] at h
  split at h
  · obtain ⟨b1, h1, h⟩ := bind_ok_inv h
    obtain ⟨b2, h2, h⟩ := bind_ok_inv h
    obtain ⟨i, _, h⟩ := bind_ok_inv h
    cases h
    have := mergeClusters_ctl h1
    have := mergeClusters_ctl h2
    simp_all [Buf.ctl]
  · cases h; rfl

theorem rearrTransition_ctl {cs cs' : CS} {e : Entry} {b b' : Buf}
    (h : rearrTransition cs e b = .ok (cs', b')) : b'.ctl = b.ctl := by
  unfold rearrTransition at h
  simp only [] at h
  split at h
  · obtain ⟨b1, h1, h⟩ := bind_ok_inv h
    cases h
    exact rearrApply_ctl h1
  · cases h; rfl

theorem ctxSubst_ctl {lks : Nat → Option Lookup} {i p : Nat} {b b' : Buf}
    (h : ctxSubst lks i p b = .ok (some b')) : b'.ctl = b.ctl := by
  unfold ctxSubst at h
  simp only [bind, Except.bind, pure, Except.pure] at h
  split at h
  · split at h
    · cases h
    · split at h
      · cases h
      · split at h
        · split at h
          · cases h
          · cases h; rfl
        · cases h; rfl
  · cases h; rfl

theorem ctxTransition_ctl {lks : Nat → Option Lookup} {cs cs' : CS} {e : Entry} {b b' : Buf}
    (h : ctxTransition lks cs e b = .ok (cs', b')) : b'.ctl = b.ctl := by
  unfold ctxTransition at h
  simp only [bind, Except.bind, pure, Except.pure] at h
  split at h
  · cases h; rfl
  · split at h
    · cases h
    · rename_i r1 hr1
      split at h
      · cases h; rfl
      · rename_i b1
        have c1 := ctxSubst_ctl hr1
        split at h
        · cases h
        · rename_i r2 hr2
          split at h
          · cases h; exact c1
          · rename_i b2
            have c2 := ctxSubst_ctl hr2
            cases h
            rw [c2, c1]

/-- a driver context whose transitions touch only the glyph vectors (rearrangement, contextual) -/
def KeepsCtl (c : Ctx) : Prop :=
  ∀ cs e b cs' b', c.transition cs e b = .ok (cs', b') → b'.ctl = b.ctl

theorem ctl_fields {b b' : Buf} (h : b'.ctl = b.ctl) :
    b'.idx = b.idx ∧ b'.len = b.len ∧ b'.maxOps = b.maxOps ∧ b'.successful = b.successful ∧
    b'.haveOutput = b.haveOutput ∧ b'.outLen = b.outLen := by
  simp only [Buf.ctl, Buf.mk.injEq] at h
  obtain ⟨_, _, h1, h2, h3, h4, _, h6, _, h8, _⟩ := h
  exact ⟨h1, h2, h8, h6, h4, h3⟩

/-- the linear budget of an in-place subtable -/
def mu (b : Buf) : Nat := (b.len - b.idx) + b.maxOps.toNat

theorem nextGlyph_inplace {b : Buf} (h : b.haveOutput = false) : nextGlyph b = .ok { b with idx := b.idx + 1 } := by
  simp [nextGlyph, h]; rfl

theorem advance_inplace {b b2 : Buf} {ca : Bool} (ho : b.haveOutput = false) (hs : b.successful = true)
    (hlt : b.idx < b.len) (h : advance ca b = .ok b2) :
    b2.haveOutput = false ∧ b2.idx ≤ b2.len ∧ mu b2 < mu b ∧ lexLt (psi b2) (psi b) = true := by
  unfold advance at h
  split at h
  · rw [nextGlyph_inplace ho] at h; cases h
    refine ⟨ho, by simp; omega, by simp [mu]; omega, ?_⟩
    simp [lexLt, psi, hs]; omega
  · split at h
    · rw [nextGlyph_inplace ho] at h
      simp only [bind, Except.bind, pure, Except.pure] at h
      cases h
      rename_i hle
      refine ⟨ho, by simp; omega, by simp [mu]; omega, ?_⟩
      simp [lexLt, psi, hs]; omega
    · cases h
      rename_i hgt
      refine ⟨ho, by simp; omega, by simp [mu]; omega, ?_⟩
      simp [lexLt, psi, hs]; omega

theorem driveStep_inplace {m : Machine} {c : Ctx} (hc : KeepsCtl c) {rf : Array Range} {sf : Nat}
    {b : Buf} {cs : CS} {st : Nat} {lr : Option Nat} {b' : Buf} {cs' : CS} {st' : Nat} {lr' : Option Nat}
    (ho : b.haveOutput = false) (hi : b.idx ≤ b.len)
    (h : driveStep m c rf sf b cs st lr = .ok (.next b' cs' st' lr')) :
    b'.haveOutput = false ∧ b'.idx ≤ b'.len ∧ mu b' < mu b ∧ lexLt (psi b') (psi b) = true := by
  unfold driveStep at h
  obtain ⟨⟨skip, lr1⟩, _, h⟩ := bind_ok_inv h
  simp only [] at h
  split at h
  · split at h
    · cases h
    · rename_i hcond
      simp only [Bool.or_eq_true, beq_iff_eq, Bool.not_eq_true', not_or, Bool.not_eq_false] at hcond
      obtain ⟨b1, h1, h⟩ := bind_ok_inv h
      cases h
      rw [nextGlyph_inplace ho] at h1; cases h1
      refine ⟨ho, by simp; omega, by simp [mu]; omega, ?_⟩
      simp [lexLt, psi, hcond.2]; omega
  · unfold driveMain at h
    obtain ⟨cls, _, h⟩ := bind_ok_inv h
    split at h
    · cases h
    · rename_i e he
      obtain ⟨_, _, h⟩ := bind_ok_inv h
      obtain ⟨⟨cs1, b1⟩, ht, h⟩ := bind_ok_inv h
      simp only [] at h
      split at h
      · cases h
      · rename_i hcond
        simp only [ge_iff_le, Bool.or_eq_true, decide_eq_true_eq, Bool.not_eq_true', not_or,
          Bool.not_eq_false] at hcond
        obtain ⟨b2, h2, h⟩ := bind_ok_inv h
        cases h
        obtain ⟨e1, e2, e3, e4, e5, _⟩ := ctl_fields (hc _ _ _ _ _ ht)
        have := advance_inplace (by rw [e5]; exact ho) hcond.2 (by omega) h2
        refine ⟨this.1, this.2.1, ?_, ?_⟩
        · have := this.2.2.1; simp [mu] at *; omega
        · have := this.2.2.2; simp [lexLt, psi] at *; rw [e4] at hcond; simp_all

theorem driveLoop_inplace {m : Machine} {c : Ctx} (hc : KeepsCtl c) (rf : Array Range) (sf : Nat) :
    ∀ (n : Nat) (b : Buf) (cs : CS) (st : Nat) (lr : Option Nat) (steps : Nat),
      mu b ≤ n → b.haveOutput = false → b.idx ≤ b.len →
      driveLoopO m c rf sf b cs st lr steps ≠ .ok none ∧
      ∀ b' k, driveLoopO m c rf sf b cs st lr steps = .ok (some (b', k)) → k ≤ steps + mu b + 1 := by
  intro n
  induction n with
  | zero =>
    intro b cs st lr steps hmu ho hi
    rw [driveLoopO]
    split
    · exact ⟨by simp, by simp⟩
    · refine ⟨by simp, ?_⟩
      intro b' k h; cases h; omega
    · rename_i b1 cs1 st1 lr1 hstep
      have := driveStep_inplace hc ho hi hstep
      omega
  | succ n ih =>
    intro b cs st lr steps hmu ho hi
    rw [driveLoopO]
    split
    · exact ⟨by simp, by simp⟩
    · refine ⟨by simp, ?_⟩
      intro b' k h; cases h; omega
    · rename_i b1 cs1 st1 lr1 hstep
      obtain ⟨ho1, hi1, hmu1, hlex⟩ := driveStep_inplace hc ho hi hstep
      rw [dif_pos hlex]
      have := ih b1 cs1 st1 lr1 (steps + 1) (by omega) ho1 hi1
      refine ⟨this.1, ?_⟩
      intro b' k h
      have := this.2 b' k h
      omega

section
open RbModel.Spec.Aat
set_option linter.unusedSimpArgs false
theorem rearr_keepsCtl : KeepsCtl rearrCtx := fun _ _ _ _ _ h => rearrTransition_ctl h
theorem ctx_keepsCtl (lks : Nat → Option Lookup) : KeepsCtl (ctxCtx lks) := fun _ _ _ _ _ h => ctxTransition_ctl h

def symSub {α : Type} (σ : Asg α) : Sym → List α
  | .A => [σ.a] | .B => [σ.b] | .C => [σ.c] | .D => [σ.d] | .x => σ.x

theorem inst_flatMap {α : Type} (σ : Asg α) (p : List Sym) : inst σ p = p.flatMap (symSub σ) := by
  induction p with
  | nil => rfl
  | cons s r ih => cases s <;> simp [inst, symSub, ih]

theorem inst_perm {α : Type} (σ : Asg α) {p q : List Sym} (h : p.Perm q) : (inst σ p).Perm (inst σ q) := by
  rw [inst_flatMap, inst_flatMap]; exact h.flatMap_right _

theorem verbTable_perm : ∀ v, v < 16 → (verbTable v).2.Perm (verbTable v).1 := by decide

theorem inst_perm_table {α : Type} (σ : Asg α) (v : Nat) (hv : v < 16) :
    (inst σ (verbTable v).2).Perm (inst σ (verbTable v).1) := inst_perm σ (verbTable_perm v hv)

theorem inst_long_enough (σ : Asg G) : (v : Nat) → (hv : v < 16) →
    (verbParams v).1 + (verbParams v).2.1 ≤ (inst σ (verbTable v).1).length
  | 0, _ => by
    have hp : verbParams 0 = (0, 0, false, false) := by decide
    simp [hp, verbTable, inst]; try omega
  | 1, _ => by
    have hp : verbParams 1 = (1, 0, false, false) := by decide
    simp [hp, verbTable, inst]; try omega
  | 2, _ => by
    have hp : verbParams 2 = (0, 1, false, false) := by decide
    simp [hp, verbTable, inst]; try omega
  | 3, _ => by
    have hp : verbParams 3 = (1, 1, false, false) := by decide
    simp [hp, verbTable, inst]; try omega
  | 4, _ => by
    have hp : verbParams 4 = (2, 0, false, false) := by decide
    simp [hp, verbTable, inst]; try omega
  | 5, _ => by
    have hp : verbParams 5 = (2, 0, true, false) := by decide
    simp [hp, verbTable, inst]; try omega
  | 6, _ => by
    have hp : verbParams 6 = (0, 2, false, false) := by decide
    simp [hp, verbTable, inst]; try omega
  | 7, _ => by
    have hp : verbParams 7 = (0, 2, false, true) := by decide
    simp [hp, verbTable, inst]; try omega
  | 8, _ => by
    have hp : verbParams 8 = (1, 2, false, false) := by decide
    simp [hp, verbTable, inst]; try omega
  | 9, _ => by
    have hp : verbParams 9 = (1, 2, false, true) := by decide
    simp [hp, verbTable, inst]; try omega
  | 10, _ => by
    have hp : verbParams 10 = (2, 1, false, false) := by decide
    simp [hp, verbTable, inst]; try omega
  | 11, _ => by
    have hp : verbParams 11 = (2, 1, true, false) := by decide
    simp [hp, verbTable, inst]; try omega
  | 12, _ => by
    have hp : verbParams 12 = (2, 2, false, false) := by decide
    simp [hp, verbTable, inst]; try omega
  | 13, _ => by
    have hp : verbParams 13 = (2, 2, true, false) := by decide
    simp [hp, verbTable, inst]; try omega
  | 14, _ => by
    have hp : verbParams 14 = (2, 2, false, true) := by decide
    simp [hp, verbTable, inst]; try omega
  | 15, _ => by
    have hp : verbParams 15 = (2, 2, true, true) := by decide
    simp [hp, verbTable, inst]; try omega
  | n + 16, h => by omega

theorem applyVerb_inst {α : Type} (σ : Asg α) : (v : Nat) → (hv : v < 16) →
    applyVerb v (inst σ (verbTable v).1) = some (inst σ (verbTable v).2)
  | 0, _ => by
    simp [applyVerb, verbTable, nLead, nTrail, inst, List.zipIdx, List.flatMap]
    try omega
  | 1, _ => by
    simp [applyVerb, verbTable, nLead, nTrail, inst, List.zipIdx, List.flatMap]
    try omega
  | 2, _ => by
    simp [applyVerb, verbTable, nLead, nTrail, inst, List.zipIdx, List.flatMap]
    try omega
  | 3, _ => by
    simp [applyVerb, verbTable, nLead, nTrail, inst, List.zipIdx, List.flatMap]
    try omega
  | 4, _ => by
    simp [applyVerb, verbTable, nLead, nTrail, inst, List.zipIdx, List.flatMap]
    try omega
  | 5, _ => by
    simp [applyVerb, verbTable, nLead, nTrail, inst, List.zipIdx, List.flatMap]
    try omega
  | 6, _ => by
    simp [applyVerb, verbTable, nLead, nTrail, inst, List.zipIdx, List.flatMap]
    try omega
  | 7, _ => by
    simp [applyVerb, verbTable, nLead, nTrail, inst, List.zipIdx, List.flatMap]
    try omega
  | 8, _ => by
    simp [applyVerb, verbTable, nLead, nTrail, inst, List.zipIdx, List.flatMap]
    try omega
  | 9, _ => by
    simp [applyVerb, verbTable, nLead, nTrail, inst, List.zipIdx, List.flatMap]
    try omega
  | 10, _ => by
    simp [applyVerb, verbTable, nLead, nTrail, inst, List.zipIdx, List.flatMap]
    try omega
  | 11, _ => by
    simp [applyVerb, verbTable, nLead, nTrail, inst, List.zipIdx, List.flatMap]
    try omega
  | 12, _ => by
    simp [applyVerb, verbTable, nLead, nTrail, inst, List.zipIdx, List.flatMap]
    try omega
  | 13, _ => by
    simp [applyVerb, verbTable, nLead, nTrail, inst, List.zipIdx, List.flatMap]
    try omega
  | 14, _ => by
    simp [applyVerb, verbTable, nLead, nTrail, inst, List.zipIdx, List.flatMap]
    try omega
  | 15, _ => by
    simp [applyVerb, verbTable, nLead, nTrail, inst, List.zipIdx, List.flatMap]
    try omega
  | n + 16, h => by omega

end
section
open RbModel.Spec.Aat RbModel.Gen.Morx
set_option linter.unusedSimpArgs false
/-! ### flags -/

/-- what `compile_flags` treats as "requested": present in the sorted current features, or the deprecated
    small-caps pair standing in for (lower case, small caps). -/
def requestedOf (cur : List FeatInfo) (ty setting : Nat) : Bool :=
  hasFeature cur ty setting ||
    (ty == FEATURE_TYPE_LETTER_CASE && setting == FEATURE_SELECTOR_SMALL_CAPS &&
      hasFeature cur FEATURE_TYPE_LOWER_CASE FEATURE_SELECTOR_LOWER_CASE_SMALL_CAPS)

theorem chainFlags_spec (cur : List FeatInfo) (fs : List (Nat × Nat × Nat × Nat)) :
    ∀ d, chainFlags cur d fs = chainFlagsSpec (requestedOf cur) d fs := by
  induction fs with
  | nil => intro d; rfl
  | cons f fs ih =>
    intro d
    obtain ⟨ty, setting, en, dis⟩ := f
    unfold chainFlags at *
    simp only [List.foldl_cons, chainFlagsSpec]
    rw [ih]
    congr 1
    unfold requestedOf
    by_cases h1 : hasFeature cur ty setting = true
    · simp [h1]
    · simp only [h1, Bool.false_eq_true, if_false, Bool.false_or]
      by_cases h2 : (ty == FEATURE_TYPE_LETTER_CASE && setting == FEATURE_SELECTOR_SMALL_CAPS) = true
      · simp only [h2, if_true, Bool.true_and]
      · simp [h2]

theorem subtableRuns_single (s : Subtable) (r : Range) (b : Buf) :
    subtableRuns s #[r] b =
      (s.featureFlags &&& r.flags != 0 && (s.isAllDirections || b.vertical == s.isVertical)) := by
  simp [subtableRuns, bne]

/-! ### non-contextual -/

theorem rangeBlock_none (rf : Array Range) (sf : Nat) (b : Buf) : rangeBlock rf sf b none = .ok (false, none) := rfl

theorem nc_loop (lk : Lookup) (rf : Array Range) (sf : Nat) (b : Buf) :
    ∀ n, n ≤ b.info.size → ∃ info', forUp n (ncStep lk rf sf) (b, none) = .ok ({ b with info := info' }, none) ∧
      info'.size = b.info.size ∧
      ∀ i, info'[i]? = if i < n then (b.info[i]?).map (fun g => { g with gid := (lk (glyph16 g.gid)).getD g.gid })
                       else b.info[i]? := by
  intro n
  induction n with
  | zero => intro _; exact ⟨b.info, rfl, rfl, by intro i; simp⟩
  | succ n ih =>
    intro hn
    obtain ⟨info1, e1, s1, k1⟩ := ih (by omega)
    have hlt : n < info1.size := by omega
    have hg : info1[n]? = b.info[n]? := by rw [k1, if_neg (by omega)]
    have hg2 : b.info[n]? = some (b.info[n]'(by omega)) := by simp
    have hrd : rd info1 n = .ok (b.info[n]'(by omega)) := by
      rw [rd_ok hlt]; congr 1
      have : some info1[n] = some (b.info[n]'(by omega)) := by rw [← hg2, ← hg]; simp [hlt]
      exact Option.some.inj this
    simp only [forUp, e1, bind, Except.bind, ncStep, rangeBlock_none, pure, Except.pure, Bool.false_eq_true, if_false, hrd]
    cases hl : lk (glyph16 (b.info[n]'(by omega)).gid) with
    | none =>
      refine ⟨info1, rfl, s1, ?_⟩
      intro i; rw [k1]
      by_cases h : i < n
      · rw [if_pos h, if_pos (by omega)]
      · by_cases h2 : i = n
        · subst h2; rw [if_neg h, if_pos (by omega), hg2]; simp [hl]
        · rw [if_neg h, if_neg (by omega)]
    | some v =>
      simp only [wr_ok hlt]
      refine ⟨info1.set n { b.info[n]'(by omega) with gid := v } hlt, rfl, by simp [s1], ?_⟩
      intro i; rw [Array.getElem?_set]
      by_cases h2 : n = i
      · subst h2; rw [if_pos rfl, if_pos (by omega), hg2]; simp [hl]
      · rw [if_neg h2, k1]
        by_cases h : i < n
        · rw [if_pos h, if_pos (by omega)]
        · rw [if_neg h, if_neg (by omega)]

/-! ### the flag compiler on the two standard inputs -/

theorem hasFeature_nil (k s : Nat) : hasFeature [] k s = false := rfl

theorem chainFlagsSpec_none (d : Nat) (fs : List (Nat × Nat × Nat × Nat)) (req : Nat → Nat → Bool)
    (h : ∀ a b, req a b = false) : chainFlagsSpec req d fs = d := by
  induction fs generalizing d with
  | nil => rfl
  | cons f fs ih => obtain ⟨a, b, c, e⟩ := f; simp [chainFlagsSpec, h, ih]

theorem chainFlags_nil (d : Nat) (fs : List (Nat × Nat × Nat × Nat)) : chainFlags [] d fs = d := by
  rw [chainFlags_spec]
  exact chainFlagsSpec_none d fs _ (by intro a b; simp [requestedOf, hasFeature_nil])

theorem compileFlagsGo_fresh (cur : List FeatInfo) (first last : Nat) (chains : List Chain) :
    ∀ m : List (List Range), (∀ x ∈ m, x = []) →
      compileFlagsGo cur first last chains m =
        chains.map (fun ch => [⟨chainFlags cur ch.defaultFlags ch.features, first % 2 ^ 32, last % 2 ^ 32⟩]) := by
  induction chains with
  | nil => intro m _; rfl
  | cons ch chs ih =>
    intro m hm
    have h1 : m.head?.getD [] = [] := by
      cases m with
      | nil => rfl
      | cons x xs => exact hm x (by simp)
    have h2 : ∀ x ∈ m.tail, x = [] := fun x hx => hm x (List.mem_of_mem_tail hx)
    simp [compileFlagsGo, h1, ih m.tail h2]

theorem map_setLast (chains : List Chain) (f : Chain → Nat) (a b : Nat) :
    (chains.map (fun ch => [(⟨f ch, a, b⟩ : Range)])).map setLastGlobalEnd =
      chains.map (fun ch => [⟨f ch, a, 0xFFFFFFFF⟩]) := by
  simp [List.map_map, Function.comp_def, setLastGlobalEnd]

/-- no user feature: one range covering everything, with the chain's default flags. -/
theorem builderCompile_default (chains : List Chain) :
    builderCompile chains [] = chains.map (fun ch => [⟨ch.defaultFlags, 0, 0xFFFFFFFF⟩]) := by
  unfold builderCompile
  simp only [List.foldl_nil, sortEv, List.nil_append, compileScan, compileFlags]
  have : sortDedup [] = [] := rfl
  simp only [show ((0xFFFFFFFF : Nat) != 0) = true by decide, if_true, this]
  rw [compileFlagsGo_fresh _ _ _ _ _ (by simp)]
  simp only [chainFlags_nil]
  exact map_setLast chains (fun ch => ch.defaultFlags) _ _

theorem sortDedup_single (f : FeatInfo) : sortDedup [f] = [f] := by
  simp [sortDedup, sortFI, insertFI, dedupFI]

theorem removeFirst_single (f : FeatInfo) : removeFirst f [f] = [] := by
  simp [removeFirst]

/-- one user feature switched on (or off) for the whole text: one range, flags compiled with that
    feature requested. -/
theorem builderCompile_global (chains : List Chain) (f : FeatInfo) :
    builderCompile chains [⟨f, 0, 0xFFFFFFFF⟩] =
      chains.map (fun ch => [⟨chainFlags [f] ch.defaultFlags ch.features, 0, 0xFFFFFFFF⟩]) := by
  unfold builderCompile
  simp [sortEv, insertEv, Event.lt, compileScan, compileFlags, sortDedup_single]
  rw [compileFlagsGo_fresh _ _ _ _ _ (by simp)]
  exact map_setLast chains (fun ch => chainFlags [f] ch.defaultFlags ch.features) _ _

theorem compileFlagsGo_map (cur : List FeatInfo) (first last : Nat) (chains : List Chain)
    (g : Chain → List Range) :
    compileFlagsGo cur first last chains (chains.map g) =
      chains.map (fun ch => g ch ++ [⟨chainFlags cur ch.defaultFlags ch.features, first % 2 ^ 32, last % 2 ^ 32⟩]) := by
  induction chains with
  | nil => rfl
  | cons ch chs ih => simp [compileFlagsGo, ih]

/-- one user feature on the cluster range [s, e): three ranges — before (default), inside (feature
    requested), after (default); boundaries as the code computes them (`cluster_last = next start - 1`). -/
theorem builderCompile_range (chains : List Chain) (f : FeatInfo) (s e : Nat)
    (hs : 0 < s) (hse : s < e) (he : e < 0xFFFFFFFF) :
    builderCompile chains [⟨f, s, e⟩] =
      chains.map (fun ch => [⟨ch.defaultFlags, 0, s - 1⟩,
                             ⟨chainFlags [f] ch.defaultFlags ch.features, s, e - 1⟩,
                             ⟨ch.defaultFlags, e, 0xFFFFFFFF⟩]) := by
  unfold builderCompile
  have h1 : ¬ s = e := by omega
  have h2 : ¬ e < s := by omega
  have h3 : ¬ s = 0 := by omega
  have h4 : ¬ e = s := by omega
  have h5 : ¬ (4294967295 : Nat) = e := by omega
  have h6 : ¬ e = 4294967295 := by omega
  have h7 : ¬ (4294967295 : Nat) < e := by omega
  have h8 : ¬ (4294967295 : Nat) < s := by omega
  have h9 : s < e := hse
  simp [sortEv, insertEv, Event.lt, compileScan, compileFlags, sortDedup_single, h1, h2, h3, h4, h5, h6, h7, h8, h9]
  have e0 : sortDedup [] = [] := rfl
  rw [e0, removeFirst_single, e0]
  rw [compileFlagsGo_map [] 0 _ chains (fun _ => []),
      compileFlagsGo_map [f] s _ chains, compileFlagsGo_map [] e _ chains]
  simp only [chainFlags_nil, List.map_map, Function.comp_def, List.nil_append, List.cons_append, setLastGlobalEnd]
  have a1 : wrappingPred s % 2 ^ 32 = s - 1 := by simp [wrappingPred, h3]; omega
  have a2 : wrappingPred e % 2 ^ 32 = e - 1 := by
    have : ¬ e = 0 := by omega
    simp [wrappingPred, this]; omega
  have a3 : s % 2 ^ 32 = s := by omega
  have a4 : e % 2 ^ 32 = e := by omega
  simp only [a1, a2, a3, a4, Nat.zero_mod]

/-- the records of the buffer, in order -/
def Buf.records (b : Buf) : List G := (b.info.extract 0 b.len).toList

/-- the cluster values of the buffer, in order -/
def Buf.clusters (b : Buf) : List Nat := b.records.map (·.cl)

theorem reverse_spec (b : Buf) (h : b.len ≤ b.info.size) :
    ∃ b', reverse b = .ok b' ∧ b'.ctl = b.ctl ∧ b'.out = b.out ∧ b'.info.size = b.info.size ∧
      b'.records = b.records.reverse := by
  unfold reverse
  by_cases h0 : b.len = 0
  · refine ⟨b, by simp [h0]; rfl, rfl, rfl, rfl, ?_⟩
    simp [Buf.records, h0]
  · by_cases h1 : b.len < 2
    · refine ⟨b, by simp [h0, h1]; rfl, rfl, rfl, rfl, ?_⟩
      have : b.len = 1 := by omega
      have hl : b.records.length = 1 := by simp [Buf.records, this]; omega
      match hr : b.records, hl with
      | [x], _ => rfl
    · have h2 : ¬ b.len > b.info.size := by omega
      refine ⟨{ b with info := (b.info.extract 0 b.len).reverse ++ b.info.extract b.len b.info.size }, ?_, rfl, rfl, ?_, ?_⟩
      · simp [h0, h1, h2, pure, Except.pure]
      · simp; omega
      · simp only [Buf.records]
        have hlen : ((b.info.extract 0 b.len).reverse).toList.length = b.len := by simp; omega
        rw [Array.toList_extract, Array.toList_append]
        rw [List.extract_eq_take_drop, List.drop_zero, Nat.sub_zero, List.take_left' hlen]
        simp


/-- a subtable action that keeps the order of the records' clusters (it may change glyph ids in place) -/
def KeepsOrder (act : Subtable → Array Range → Buf → M Buf) (P : Subtable → Prop) : Prop :=
  ∀ s rf b b', P s → b.len ≤ b.info.size → b.haveOutput = false → act s rf b = .ok b' →
    b'.len ≤ b'.info.size ∧ b'.haveOutput = false ∧ b'.clusters = b.clusters ∧ b'.vertical = b.vertical ∧
    b'.backward = b.backward

theorem ctl_dir {b b' : Buf} (h : b'.ctl = b.ctl) :
    b'.vertical = b.vertical ∧ b'.backward = b.backward ∧ b'.len = b.len ∧ b'.haveOutput = b.haveOutput := by
  simp only [Buf.ctl, Buf.mk.injEq] at h
  exact ⟨h.2.2.2.2.2.2.2.2.2.2.2.2, h.2.2.2.2.2.2.2.2.2.2.2.1, h.2.2.2.1, h.2.2.2.2.2.1⟩

theorem clusters_of_records {b b' : Buf} (h : b'.records = b.records.reverse) :
    b'.clusters = b.clusters.reverse := by
  simp [Buf.clusters, h]

theorem bracket_keeps {act : Subtable → Array Range → Buf → M Buf} {P : Subtable → Prop} (ha : KeepsOrder act P)
    (s : Subtable) (hs : P s) (rf : Array Range) (b b' : Buf) (hb : b.len ≤ b.info.size) (ho : b.haveOutput = false)
    (h : applySubtableBracket act s rf b = .ok b') :
    b'.len ≤ b'.info.size ∧ b'.haveOutput = false ∧ b'.clusters = b.clusters ∧ b'.vertical = b.vertical ∧
    b'.backward = b.backward := by
  unfold applySubtableBracket at h
  by_cases hr : subtableRuns s rf b = true
  · simp only [hr, Bool.not_true, Bool.false_eq_true, if_false] at h
    by_cases hv : subtableReverse s b = true
    · simp only [hv, if_true] at h
      obtain ⟨b1, e1, g1⟩ := bind_ok_inv h
      obtain ⟨b2, e2, g2⟩ := bind_ok_inv g1
      clear h g1
      obtain ⟨r1, re1, rc1, _, rs1, rr1⟩ := reverse_spec b hb
      obtain rfl : r1 = b1 := Except.ok.inj (re1.symm.trans e1)
      obtain ⟨d1, d2, d3, d4⟩ := ctl_dir rc1
      have hb1 : r1.len ≤ r1.info.size := by omega
      obtain ⟨k1, k0, k2, k3, k4⟩ := ha s rf r1 b2 hs hb1 (by rw [d4]; exact ho) e2
      obtain ⟨r2, re2, rc2, _, rs2, rr2⟩ := reverse_spec b2 k1
      obtain rfl : r2 = b' := Except.ok.inj (re2.symm.trans g2)
      obtain ⟨f1, f2, f3, f4⟩ := ctl_dir rc2
      refine ⟨by omega, by rw [f4]; exact k0, ?_, by rw [f1, k3, d1], by rw [f2, k4, d2]⟩
      rw [clusters_of_records rr2, k2, clusters_of_records rr1, List.reverse_reverse]
    · simp only [hv, Bool.false_eq_true, if_false] at h
      obtain ⟨b1, e1, h⟩ := bind_ok_inv h
      cases e1
      obtain ⟨b2, e2, h⟩ := bind_ok_inv h
      cases h
      exact ha s rf b b' hs hb ho e2
  · simp only [hr, Bool.not_false, if_true] at h
    cases h
    exact ⟨hb, ho, rfl, rfl, rfl⟩

theorem foldlM_keeps {act : Subtable → Array Range → Buf → M Buf} {P : Subtable → Prop} (ha : KeepsOrder act P)
    (rf : Array Range) :
    ∀ (subs : List Subtable) (b b' : Buf), (∀ s ∈ subs, P s) → b.len ≤ b.info.size → b.haveOutput = false →
      subs.foldlM (fun b s => applySubtableBracket act s rf b) b = .ok b' →
      b'.len ≤ b'.info.size ∧ b'.haveOutput = false ∧ b'.clusters = b.clusters ∧ b'.vertical = b.vertical ∧
      b'.backward = b.backward := by
  intro subs
  induction subs with
  | nil => intro b b' _ hb ho h; cases h; exact ⟨hb, ho, rfl, rfl, rfl⟩
  | cons s ss ih =>
    intro b b' hP hb ho h
    rw [List.foldlM_cons] at h
    obtain ⟨b1, e1, g⟩ := bind_ok_inv h
    obtain ⟨k1, k0, k2, k3, k4⟩ := bracket_keeps ha s (hP s (by simp)) rf b b1 hb ho e1
    obtain ⟨j1, j0, j2, j3, j4⟩ := ih b1 b' (fun x hx => hP x (by simp [hx])) k1 k0 g
    exact ⟨j1, j0, by rw [j2, k2], by rw [j3, k3], by rw [j4, k4]⟩

theorem applyChainsWith_keeps {act : Subtable → Array Range → Buf → M Buf} {P : Subtable → Prop}
    (ha : KeepsOrder act P) :
    ∀ (chains : List Chain) (flags : List (Array Range)) (b b' : Buf),
      (∀ ch ∈ chains, ∀ s ∈ ch.subtables, P s) → b.len ≤ b.info.size → b.haveOutput = false →
      applyChainsWith act chains flags b = .ok b' →
      b'.len ≤ b'.info.size ∧ b'.clusters = b.clusters := by
  intro chains
  induction chains with
  | nil => intro flags b b' _ hb _ h; cases h; exact ⟨hb, rfl⟩
  | cons ch chs ih =>
    intro flags b b' hP hb ho h
    unfold applyChainsWith at h
    obtain ⟨b1, e1, g⟩ := bind_ok_inv h
    obtain ⟨k1, k0, k2, _, _⟩ := foldlM_keeps ha _ ch.subtables b b1 (hP ch (by simp)) hb ho e1
    obtain ⟨j1, j2⟩ := ih flags.tail b1 b' (fun c hc => hP c (by simp [hc])) k1 k0 g
    exact ⟨j1, by rw [j2, k2]⟩

/-! the non-contextual subtable keeps the order (any range flags) -/

theorem ncStep_keeps (lk : Lookup) (rf : Array Range) (sf i : Nat) (st st' : Buf × Option Nat)
    (h : ncStep lk rf sf i st = .ok st') :
    st'.1.ctl = st.1.ctl ∧ st'.1.info.size = st.1.info.size ∧
      ∀ j : Nat, (st'.1.info[j]?).map G.cl = (st.1.info[j]?).map G.cl := by
  unfold ncStep at h
  obtain ⟨r, _, g⟩ := bind_ok_inv h
  split at g
  · cases g; exact ⟨rfl, rfl, fun _ => rfl⟩
  · obtain ⟨gl, hg, g2⟩ := bind_ok_inv g
    split at g2
    · rename_i v _
      obtain ⟨info', hw, g3⟩ := bind_ok_inv g2
      cases g3
      unfold wr at hw
      split at hw
      · rename_i hlt
        cases hw
        refine ⟨rfl, by simp, ?_⟩
        intro j
        simp only [Array.getElem?_set]
        by_cases hj : i = j
        · subst hj
          have : st.1.info[i]? = some gl := by
            unfold rd at hg; split at hg <;> simp_all [pure, Except.pure]
          simp [this]
        · simp [hj]
      · cases hw
    · cases g2; exact ⟨rfl, rfl, fun _ => rfl⟩

theorem ncLoop_keeps (lk : Lookup) (rf : Array Range) (sf : Nat) :
    ∀ (n : Nat) (st st' : Buf × Option Nat), forUp n (ncStep lk rf sf) st = .ok st' →
    st'.1.ctl = st.1.ctl ∧ st'.1.info.size = st.1.info.size ∧
      ∀ j : Nat, (st'.1.info[j]?).map G.cl = (st.1.info[j]?).map G.cl := by
  intro n
  induction n with
  | zero => intro st st' h; cases h; exact ⟨rfl, rfl, fun _ => rfl⟩
  | succ n ih =>
    intro st st' h
    simp only [forUp] at h
    obtain ⟨s1, e1, g⟩ := bind_ok_inv h
    obtain ⟨a1, a2, a3⟩ := ih st s1 e1
    obtain ⟨c1, c2, c3⟩ := ncStep_keeps lk rf sf n s1 st' g
    exact ⟨by rw [c1, a1], by rw [c2, a2], fun j => by rw [c3, a3]⟩

theorem clusters_eq_of_get {b b' : Buf} (hl : b'.len = b.len) (hs : b'.info.size = b.info.size)
    (h : ∀ j : Nat, (b'.info[j]?).map G.cl = (b.info[j]?).map G.cl) : b'.clusters = b.clusters := by
  apply List.ext_getElem?
  intro j
  simp only [Buf.clusters, Buf.records, List.getElem?_map, Array.getElem?_toList, Array.getElem?_extract, hl, hs]
  by_cases hj : j < min b.len b.info.size
  · have := h j
    simp only [hj, if_true, Nat.sub_zero, Nat.zero_add]
    simpa using this
  · simp [hj]

theorem nonContextual_keeps (lk : Lookup) (rf : Array Range) (sf : Nat) (b b' : Buf)
    (h : nonContextual lk rf sf b = .ok b') :
    b'.ctl = b.ctl ∧ b'.info.size = b.info.size ∧ b'.clusters = b.clusters := by
  unfold nonContextual at h
  obtain ⟨r, e, g⟩ := bind_ok_inv h
  cases g
  obtain ⟨a1, a2, a3⟩ := ncLoop_keeps lk rf sf b.len _ r e
  exact ⟨a1, a2, clusters_eq_of_get (ctl_dir a1).2.2.1 a2 a3⟩

def Subtable.isNonContextual (s : Subtable) : Prop := ∃ lk, s.kind = .noncontextual lk

theorem realAct_keeps_nc : KeepsOrder realAct Subtable.isNonContextual := by
  intro s rf b b' ⟨lk, hk⟩ hb ho h
  unfold realAct at h
  rw [hk] at h
  simp only [applySubtable] at h
  obtain ⟨a1, a2, a3⟩ := nonContextual_keeps lk rf s.featureFlags b b' h
  obtain ⟨d1, d2, d3, d4⟩ := ctl_dir a1
  exact ⟨by omega, by rw [d4]; exact ho, a3, d1, d2⟩

theorem addFeature_mapped (ft : FeatTable) (tag value s e ty en dis n : Nat) (excl : Bool)
    (htag : tag ≠ 0x61616C74)
    (hfind : featureMappings.find? (fun r => r.1 == tag) = some (tag, ty, en, dis))
    (hft : ft ty = some (n, excl)) (hn : n ≠ 0) :
    addFeature (some ft) tag value s e = .ok [⟨⟨ty, if value ≠ 0 then en else dis, excl⟩, s, e⟩] := by
  unfold addFeature
  simp [htag, hfind, hft, hn, pure, Except.pure, bind, Except.bind]


/-- the mapping table is sorted by tag (the precondition of the `binary_search_by` in `add_feature`) and
    has no duplicate tag, so "first row with this tag" = "the row the binary search finds". -/
theorem featureMappings_sorted :
    (featureMappings.map (·.1)).Pairwise (· < ·) := by decide +kernel

/-! contextual subtables keep the cluster order -/

theorem setGid_cl {a a' : Array G} {i v : Nat} (h : setGid a i v = .ok a') :
    a'.size = a.size ∧ ∀ j : Nat, (a'[j]?).map G.cl = (a[j]?).map G.cl := by
  unfold setGid at h
  obtain ⟨g, hg, h2⟩ := bind_ok_inv h
  unfold wr at h2
  split at h2
  · rename_i hlt
    cases h2
    refine ⟨by simp, ?_⟩
    intro j
    simp only [Array.getElem?_set]
    by_cases hj : i = j
    · subst hj
      have : a[i]? = some g := by
        unfold rd at hg; split at hg <;> simp_all [pure, Except.pure]
      simp [this]
    · simp [hj]
  · cases h2

theorem ctxSubst_cl {lks : Nat → Option Lookup} {i p : Nat} {b b' : Buf}
    (h : ctxSubst lks i p b = .ok (some b')) :
    b'.info.size = b.info.size ∧ ∀ j : Nat, (b'.info[j]?).map G.cl = (b.info[j]?).map G.cl := by
  unfold ctxSubst at h
  simp only [bind, Except.bind, pure, Except.pure] at h
  split at h
  · split at h
    · cases h
    · split at h
      · cases h
      · split at h
        · split at h
          · cases h
          · rename_i info' hs
            cases h
            exact setGid_cl hs
        · cases h; exact ⟨rfl, fun _ => rfl⟩
  · cases h; exact ⟨rfl, fun _ => rfl⟩

theorem ctxTransition_cl {lks : Nat → Option Lookup} {cs cs' : CS} {e : Entry} {b b' : Buf}
    (h : ctxTransition lks cs e b = .ok (cs', b')) :
    b'.info.size = b.info.size ∧ ∀ j : Nat, (b'.info[j]?).map G.cl = (b.info[j]?).map G.cl := by
  unfold ctxTransition at h
  simp only [bind, Except.bind, pure, Except.pure] at h
  split at h
  · cases h; exact ⟨rfl, fun _ => rfl⟩
  · split at h
    · cases h
    · rename_i r1 hr1
      split at h
      · cases h; exact ⟨rfl, fun _ => rfl⟩
      · rename_i b1
        have c1 := ctxSubst_cl hr1
        split at h
        · cases h
        · rename_i r2 hr2
          split at h
          · cases h; exact c1
          · rename_i b2
            have c2 := ctxSubst_cl hr2
            cases h
            exact ⟨by rw [c2.1, c1.1], fun j => by rw [c2.2, c1.2]⟩

/-- "same records up to glyph ids, same control fields except the cursor" -/
def SameShape (b b' : Buf) : Prop :=
  { b' with idx := 0, maxOps := 0 }.ctl = { b with idx := 0, maxOps := 0 }.ctl ∧ b'.info.size = b.info.size ∧
    ∀ j : Nat, (b'.info[j]?).map G.cl = (b.info[j]?).map G.cl

theorem SameShape.refl (b : Buf) : SameShape b b := ⟨rfl, rfl, fun _ => rfl⟩

theorem SameShape.trans {a b c : Buf} (h1 : SameShape a b) (h2 : SameShape b c) : SameShape a c :=
  ⟨h2.1.trans h1.1, h2.2.1.trans h1.2.1, fun j => (h2.2.2 j).trans (h1.2.2 j)⟩

theorem sameShape_of_ctl {b b' : Buf} (hc : b'.ctl = b.ctl) (hs : b'.info.size = b.info.size)
    (hk : ∀ j : Nat, (b'.info[j]?).map G.cl = (b.info[j]?).map G.cl) : SameShape b b' := by
  refine ⟨?_, hs, hk⟩
  simp only [Buf.ctl, Buf.mk.injEq] at hc ⊢
  simp_all

theorem sameShape_idx (b : Buf) (i : Nat) (m : Int) : SameShape b { b with idx := i, maxOps := m } :=
  ⟨rfl, rfl, fun _ => rfl⟩

theorem advance_shape {b b2 : Buf} {ca : Bool} (ho : b.haveOutput = false) (h : advance ca b = .ok b2) :
    SameShape b b2 := by
  unfold advance at h
  split at h
  · rw [nextGlyph_inplace ho] at h; cases h; exact sameShape_idx b _ b.maxOps
  · split at h
    · rw [nextGlyph_inplace ho] at h
      simp only [bind, Except.bind, pure, Except.pure] at h
      cases h; exact sameShape_idx b _ _
    · cases h; exact sameShape_idx b b.idx _

theorem ctx_step_shape {m : Machine} {lks : Nat → Option Lookup} {rf : Array Range} {sf : Nat}
    {b : Buf} {cs : CS} {st : Nat} {lr : Option Nat} {r : Step} (ho : b.haveOutput = false)
    (h : driveStep m (ctxCtx lks) rf sf b cs st lr = .ok r) :
    match r with
    | .done b' => SameShape b b'
    | .next b' _ _ _ => SameShape b b' := by
  unfold driveStep at h
  obtain ⟨⟨skip, lr1⟩, _, h⟩ := bind_ok_inv h
  simp only [] at h
  split at h
  · split at h
    · cases h; exact SameShape.refl b
    · obtain ⟨b1, h1, h⟩ := bind_ok_inv h
      cases h
      rw [nextGlyph_inplace ho] at h1; cases h1
      exact sameShape_idx b _ b.maxOps
  · unfold driveMain at h
    obtain ⟨cls, _, h⟩ := bind_ok_inv h
    split at h
    · cases h; exact SameShape.refl b
    · obtain ⟨_, _, h⟩ := bind_ok_inv h
      obtain ⟨⟨cs1, b1⟩, ht, h⟩ := bind_ok_inv h
      have hctl := ctxTransition_ctl ht
      have hcl := ctxTransition_cl ht
      have s1 : SameShape b b1 := sameShape_of_ctl hctl hcl.1 hcl.2
      simp only [] at h
      split at h
      · cases h; exact s1
      · obtain ⟨b2, h2, h⟩ := bind_ok_inv h
        cases h
        have ho1 : b1.haveOutput = false := by rw [(ctl_fields hctl).2.2.2.2.1]; exact ho
        exact s1.trans (advance_shape ho1 h2)

theorem shape_haveOutput {b b' : Buf} (h : SameShape b b') : b'.haveOutput = b.haveOutput ∧ b'.len = b.len ∧
    b'.vertical = b.vertical ∧ b'.backward = b.backward := by
  have := h.1
  simp only [Buf.ctl, Buf.mk.injEq] at this
  exact ⟨this.2.2.2.2.2.1, this.2.2.2.1, this.2.2.2.2.2.2.2.2.2.2.2.2, this.2.2.2.2.2.2.2.2.2.2.2.1⟩

theorem ctx_loop_shape {m : Machine} (lks : Nat → Option Lookup) (rf : Array Range) (sf : Nat) :
    ∀ (n : Nat) (b : Buf) (cs : CS) (st : Nat) (lr : Option Nat) (steps : Nat) (b' : Buf) (k : Nat),
      mu b ≤ n → b.haveOutput = false → b.idx ≤ b.len →
      driveLoopO m (ctxCtx lks) rf sf b cs st lr steps = .ok (some (b', k)) → SameShape b b' := by
  intro n
  induction n with
  | zero =>
    intro b cs st lr steps b' k hmu ho hi h
    rw [driveLoopO] at h
    split at h
    · cases h
    · rename_i b1 hstep
      cases h
      exact ctx_step_shape ho hstep
    · rename_i b1 cs1 st1 lr1 hstep
      have := driveStep_inplace (ctx_keepsCtl lks) ho hi hstep
      omega
  | succ n ih =>
    intro b cs st lr steps b' k hmu ho hi h
    rw [driveLoopO] at h
    split at h
    · cases h
    · rename_i b1 hstep
      cases h
      exact ctx_step_shape ho hstep
    · rename_i b1 cs1 st1 lr1 hstep
      obtain ⟨ho1, hi1, hmu1, hlex⟩ := driveStep_inplace (ctx_keepsCtl lks) ho hi hstep
      rw [dif_pos hlex] at h
      have s1 : SameShape b b1 := ctx_step_shape ho hstep
      exact s1.trans (ih b1 cs1 st1 lr1 (steps + 1) b' k (by omega) ho1 hi1 h)

theorem ctx_drive_shape {m : Machine} (lks : Nat → Option Lookup) (rf : Array Range) (sf : Nat) (b b' : Buf)
    (k : Nat) (ho : b.haveOutput = false) (h : drive m (ctxCtx lks) rf sf b = .ok (b', k)) : SameShape b b' := by
  unfold drive at h
  simp only [ctxCtx, Bool.not_true, Bool.false_eq_true, if_false] at h
  obtain ⟨⟨b1, k1⟩, h1, h⟩ := bind_ok_inv h
  simp only [pure, Except.pure] at h
  cases h
  unfold driveLoop at h1
  split at h1
  · cases h1
  · cases h1
  · rename_i r hr
    cases h1
    have s0 : SameShape b { b with idx := 0 } := sameShape_idx b 0 b.maxOps
    exact s0.trans (ctx_loop_shape lks rf sf _ _ _ _ _ _ _ _ (Nat.le_refl _) ho (Nat.zero_le _) hr)

/-- subtables that only rewrite glyph ids in place: non-contextual and contextual -/
def Subtable.isInPlaceSubst (s : Subtable) : Prop :=
  (∃ lk, s.kind = .noncontextual lk) ∨ (∃ m lks, s.kind = .contextual m lks)

theorem realAct_keeps_subst : KeepsOrder realAct Subtable.isInPlaceSubst := by
  intro s rf b b' hs hb ho h
  rcases hs with ⟨lk, hk⟩ | ⟨m, lks, hk⟩
  · exact realAct_keeps_nc s rf b b' ⟨lk, hk⟩ hb ho h
  · unfold realAct at h
    rw [hk] at h
    simp only [applySubtable] at h
    obtain ⟨⟨b1, k⟩, h1, h2⟩ := bind_ok_inv h
    cases h2
    have sh := ctx_drive_shape lks rf s.featureFlags b b1 k ho h1
    obtain ⟨d0, d1, d2, d3⟩ := shape_haveOutput sh
    exact ⟨by rw [d1, sh.2.1]; exact hb, by rw [d0]; exact ho, clusters_eq_of_get d1 sh.2.1 sh.2.2, d2, d3⟩


theorem mergeClusters_level2 (b : Buf) (s e : Nat) (h : b.level = 2) : mergeClusters b s e = .ok b := by
  unfold mergeClusters
  by_cases c : (decide (s ≤ e) && decide (e - s < 2)) = true
  · simp [c, pure, Except.pure]
  · simp only [c, Bool.false_eq_true, if_false, mergeClustersImpl, h, beq_self_eq_true, if_true, bind, Except.bind,
      pure, Except.pure]
    congr 1
    cases b; simp_all

theorem bits_of_verb : ∀ v, v < 16 → bit v REARR_MARK_FIRST = false ∧ bit v REARR_MARK_LAST = false ∧
    v &&& REARR_VERB = v := by decide

/-- the whole transition at cluster level 2 (no cluster merging): records are permuted exactly as Apple's
    table says. -/
theorem rearrTransition_level2 (v : Nat) (hv : v < 16) (hv0 : v ≠ 0) (σ : Asg G) (pre post : List G)
    (b : Buf) (cs : CS) (ns x1 x2 : Nat)
    (hinfo : b.info = (pre ++ inst σ (verbTable v).1 ++ post).toArray) (hlvl : b.level = 2)
    (hs : cs.start = pre.length) (he : cs.end_ = pre.length + (inst σ (verbTable v).1).length)
    (hlen : (inst σ (verbTable v).1).length ≤ MAX_CONTEXT_LENGTH) (hne : 0 < (inst σ (verbTable v).1).length) :
    rearrTransition cs ⟨ns, v, x1, x2⟩ b =
      .ok (cs, { b with info := (pre ++ inst σ (verbTable v).2 ++ post).toArray }) := by
  obtain ⟨b1, b2, b3⟩ := bits_of_verb v hv
  have hlong := inst_long_enough σ v hv
  have hcore := rearrange_table σ pre post v hv
  unfold rearrTransition rearrMarks
  simp only [b1, b2, Bool.false_eq_true, if_false]
  have hverb : bit v REARR_VERB = true := by
    unfold bit; rw [b3]; simp; exact hv0
  have hlt : cs.start < cs.end_ := by omega
  simp only [hverb, hlt, decide_true, Bool.and_self, if_true]
  unfold rearrApply
  simp only [b3]
  have hc : (decide (cs.end_ - cs.start ≥ (verbParams v).1 + (verbParams v).2.1) &&
      decide (cs.end_ - cs.start ≤ MAX_CONTEXT_LENGTH)) = true := by
    simp; omega
  simp only [hc, if_true]
  rw [mergeClusters_level2 b _ _ hlvl, ok_bind, mergeClusters_level2 b _ _ hlvl, ok_bind, hs, he, hinfo, hcore]
  rfl

end
end RbModel.Morx
