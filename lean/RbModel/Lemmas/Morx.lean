/- helper lemmas for Props/C17.lean -/
import RbModel.Morx
import RbModel.Spec.Aat

namespace RbModel.Morx

theorem rd_ok {a : Array G} {i : Nat} (h : i < a.size) : rd a i = .ok a[i] := by
  simp [rd, h]; rfl

theorem wr_ok {a : Array G} {i : Nat} {g : G} (h : i < a.size) : wr a i g = .ok (a.set i g h) := by
  simp [wr, h]; rfl

/-- an ascending copy loop moving a block to the *left* is a memmove. -/
theorem copyUp (src dst : Nat) (hds : dst ≤ src) : ∀ (n : Nat) (a : Array G), src + n ≤ a.size →
    ∃ a', forUp n (copyStep src dst) a = .ok a' ∧ a'.size = a.size ∧
      ∀ k, a'[k]? = if dst ≤ k ∧ k < dst + n then a[k - dst + src]? else a[k]? := by
  intro n
  induction n with
  | zero => intro a _; exact ⟨a, rfl, rfl, by intro k; simp; omega⟩
  | succ n ih =>
    intro a h
    obtain ⟨a1, h1, hs, hk⟩ := ih a (by omega)
    clear ih
    have hlt : src + n < a1.size := by omega
    have hlt2 : dst + n < a1.size := by omega
    refine ⟨a1.set (dst + n) a1[src + n] hlt2, ?_, by simp [hs], ?_⟩
    · simp [forUp, h1, copyStep, rd_ok hlt, wr_ok hlt2, bind, Except.bind]
    · intro k
      have e1 : a1[src + n]? = a[src + n]? := by
        rw [hk, if_neg (by omega)]
      have e2 : a1[src + n]? = some a1[src + n] := by simp [hlt]
      rw [Array.getElem?_set]
      by_cases hkk : dst + n = k
      · subst hkk
        have : (dst ≤ dst + n ∧ dst + n < dst + (n + 1)) := by omega
        simp only [this, and_self, if_true]
        have : dst + n - dst + src = src + n := by omega
        rw [this, ← e1, e2]
      · simp only [hkk, if_false, hk]
        by_cases hr : dst ≤ k ∧ k < dst + n
        · have : dst ≤ k ∧ k < dst + (n+1) := by omega
          simp only [hr, this, and_self, if_true]
        · have : ¬ (dst ≤ k ∧ k < dst + (n + 1)) := by omega
          simp only [hr, this, if_false]

/-- a descending copy loop moving a block to the *right* is a memmove. -/
theorem copyDown (src dst : Nat) (hds : src ≤ dst) : ∀ (n : Nat) (a : Array G), dst + n ≤ a.size →
    ∃ a', forDown n (copyStep src dst) a = .ok a' ∧ a'.size = a.size ∧
      ∀ k, a'[k]? = if dst ≤ k ∧ k < dst + n then a[k - dst + src]? else a[k]? := by
  intro n
  induction n with
  | zero => intro a _; exact ⟨a, rfl, rfl, by intro k; simp; omega⟩
  | succ n ih =>
    intro a h
    have hlt : src + n < a.size := by omega
    have hlt2 : dst + n < a.size := by omega
    obtain ⟨a2, h2, hs, hk⟩ := ih (a.set (dst + n) a[src + n] hlt2) (by simp; omega)
    clear ih
    refine ⟨a2, ?_, by simpa using hs, ?_⟩
    · simp [forDown, copyStep, rd_ok hlt, wr_ok hlt2, bind, Except.bind, h2]
    · intro k
      rw [hk]
      simp only [Array.getElem?_set]
      have e2 : a[src + n]? = some a[src + n] := by simp [hlt]
      by_cases hr : dst ≤ k ∧ k < dst + n
      · have h3 : dst ≤ k ∧ k < dst + (n+1) := by omega
        have h4 : ¬ (dst + n = k - dst + src) := by omega
        simp only [hr, h3, h4, and_self, if_true, if_false]
      · simp only [hr, if_false]
        by_cases hkk : dst + n = k
        · subst hkk
          have : (dst ≤ dst + n ∧ dst + n < dst + (n + 1)) := by omega
          simp only [this, and_self, if_true]
          have : dst + n - dst + src = src + n := by omega
          rw [this, e2]
        · have : ¬ (dst ≤ k ∧ k < dst + (n + 1)) := by omega
          simp only [hkk, this, if_false]

theorem copyFrom (a : Array G) (s t : Nat) : ∀ (n : Nat) (b : Array G), s + n ≤ a.size → t + n ≤ b.size →
    ∃ b', forUp n (copyFromStep a s t) b = .ok b' ∧ b'.size = b.size ∧
      ∀ k, b'[k]? = if t ≤ k ∧ k < t + n then a[k - t + s]? else b[k]? := by
  intro n
  induction n with
  | zero => intro b _ _; exact ⟨b, rfl, rfl, by intro k; simp; omega⟩
  | succ n ih =>
    intro b h1 h2
    obtain ⟨b1, e1, hs, hk⟩ := ih b (by omega) (by omega)
    clear ih
    have hlt : s + n < a.size := by omega
    have hlt2 : t + n < b1.size := by omega
    refine ⟨b1.set (t + n) a[s + n] hlt2, ?_, by simp [hs], ?_⟩
    · simp [forUp, e1, copyFromStep, rd_ok hlt, wr_ok hlt2, bind, Except.bind]
    · intro k
      have e2 : a[s + n]? = some a[s + n] := by simp [hlt]
      rw [Array.getElem?_set]
      by_cases hkk : t + n = k
      · subst hkk
        rw [if_pos rfl, if_pos (by omega)]
        have : t + n - t + s = s + n := by omega
        rw [this, e2]
      · rw [if_neg hkk, hk]
        by_cases hr : t ≤ k ∧ k < t + n
        · rw [if_pos hr, if_pos (by omega)]
        · rw [if_neg hr, if_neg (by omega)]

theorem swapA_spec (a : Array G) (i j : Nat) (hi : i < a.size) (hj : j < a.size) :
    ∃ a', swapA a i j = .ok a' ∧ a'.size = a.size ∧
      ∀ k, a'[k]? = if k = j then a[i]? else if k = i then a[j]? else a[k]? := by
  have h2 : j < (a.set i a[j] hi).size := by simp [hj]
  refine ⟨(a.set i a[j] hi).set j a[i] h2, ?_, by simp, ?_⟩
  · simp [swapA, rd_ok hi, rd_ok hj, wr_ok hi, wr_ok h2, bind, Except.bind]
  · intro k
    rw [Array.getElem?_set, Array.getElem?_set]
    by_cases h3 : j = k
    · subst h3; simp [hi]
    · have : ¬ k = j := fun h => h3 h.symm
      rw [if_neg h3, if_neg this]
      by_cases h4 : i = k
      · subst h4; simp [hj]
      · have : ¬ k = i := fun h => h4 h.symm
        rw [if_neg h4, if_neg this]

/-- the shift phase, whatever the direction of the copy loop -/
theorem shift_spec (a : Array G) (start end_ l r : Nat) (hse : start + l + r ≤ end_) (hsz : end_ ≤ a.size) :
    ∃ a', shiftPhase a start end_ l r = .ok a' ∧ a'.size = a.size ∧
      ∀ k, a'[k]? = if start + r ≤ k ∧ k < end_ - l then a[k - r + l]? else a[k]? := by
  unfold shiftPhase
  by_cases h1 : l > r
  · rw [if_pos h1]
    obtain ⟨a', e, hs, hk⟩ := copyUp (start + l) (start + r) (by omega) (end_ - start - l - r) a (by omega)
    refine ⟨a', e, hs, ?_⟩
    intro k; rw [hk]
    by_cases h : start + r ≤ k ∧ k < end_ - l
    · rw [if_pos (by omega), if_pos h]; congr 1; omega
    · rw [if_neg (by omega), if_neg h]
  · rw [if_neg h1]
    by_cases h2 : l < r
    · rw [if_pos h2]
      obtain ⟨a', e, hs, hk⟩ := copyDown (start + l) (start + r) (by omega) (end_ - start - l - r) a (by omega)
      refine ⟨a', e, hs, ?_⟩
      intro k; rw [hk]
      by_cases h : start + r ≤ k ∧ k < end_ - l
      · rw [if_pos (by omega), if_pos h]; congr 1; omega
      · rw [if_neg (by omega), if_neg h]
    · rw [if_neg h2]
      refine ⟨a, rfl, rfl, ?_⟩
      intro k
      by_cases h : start + r ≤ k ∧ k < end_ - l
      · rw [if_pos h]; congr 1; omega
      · rw [if_neg h]

theorem ok_bind {α β : Type} (x : α) (f : α → M β) : (Except.ok x >>= f) = f x := rfl

/-- index permutation inside a two-record block that is flipped -/
def flip2 (rev : Bool) (i : Nat) : Nat := if rev then 1 - i else i

theorem rearrangeCore_get (a : Array G) (start end_ l r : Nat) (revL revR : Bool)
    (hl : l ≤ 2) (hr : r ≤ 2) (hse : start + l + r ≤ end_) (hsz : end_ ≤ a.size)
    (hrl : revL = true → l = 2) (hrr : revR = true → r = 2) :
    ∃ a', rearrangeCore a start end_ l r revL revR = .ok a' ∧ a'.size = a.size ∧
      ∀ k, a'[k]? =
        if start ≤ k ∧ k < start + r then a[end_ - r + flip2 revR (k - start)]?
        else if start + r ≤ k ∧ k < end_ - l then a[k - r + l]?
        else if end_ - l ≤ k ∧ k < end_ then a[start + flip2 revL (k - (end_ - l))]?
        else a[k]? := by
  unfold rearrangeCore
  obtain ⟨b1, eb1, sb1, kb1⟩ := copyFrom a start 0 l (Array.replicate 4 G.dflt) (by omega) (by simp; omega)
  obtain ⟨b2, eb2, sb2, kb2⟩ := copyFrom a (end_ - r) 2 r b1 (by omega) (by simp [sb1]; omega)
  obtain ⟨a1, ea1, sa1, ka1⟩ := shift_spec a start end_ l r hse hsz
  have sb2' : b2.size = 4 := by simp [sb2, sb1]
  obtain ⟨a2, ea2, sa2, ka2⟩ := copyFrom b2 2 start r a1 (by omega) (by omega)
  obtain ⟨a3, ea3, sa3, ka3⟩ := copyFrom b2 0 (end_ - l) l a2 (by omega) (by omega)
  -- formula without the swaps
  have k3 : ∀ k, a3[k]? =
      if start ≤ k ∧ k < start + r then a[end_ - r + (k - start)]?
      else if start + r ≤ k ∧ k < end_ - l then a[k - r + l]?
      else if end_ - l ≤ k ∧ k < end_ then a[start + (k - (end_ - l))]?
      else a[k]? := by
    intro k
    rw [ka3]
    by_cases c3 : end_ - l ≤ k ∧ k < end_
    · rw [if_pos (by omega), if_neg (by omega), if_neg (by omega), if_pos c3]
      rw [kb2, if_neg (by omega), kb1, if_pos (by omega)]
      congr 1; omega
    · rw [if_neg (by omega), ka2]
      by_cases c1 : start ≤ k ∧ k < start + r
      · rw [if_pos c1, if_pos c1, kb2, if_pos (by omega)]
        congr 1; omega
      · rw [if_neg c1, if_neg c1, ka1]
        by_cases c2 : start + r ≤ k ∧ k < end_ - l
        · rw [if_pos c2, if_pos c2]
        · rw [if_neg c2, if_neg c2, if_neg c3]
  -- the two optional swaps
  have hsA : ∃ a4, optSwap revL a3 (end_ - 1) (end_ - 2) = .ok a4 ∧ a4.size = a.size ∧
      ∀ k, a4[k]? =
        if start ≤ k ∧ k < start + r then a[end_ - r + (k - start)]?
        else if start + r ≤ k ∧ k < end_ - l then a[k - r + l]?
        else if end_ - l ≤ k ∧ k < end_ then a[start + flip2 revL (k - (end_ - l))]?
        else a[k]? := by
    cases revL with
    | false => exact ⟨a3, rfl, by omega, by intro k; rw [k3]; simp [flip2]⟩
    | true =>
      have l2 : l = 2 := hrl rfl
      subst l2
      obtain ⟨a4, e4, s4, k4⟩ := swapA_spec a3 (end_ - 1) (end_ - 2) (by omega) (by omega)
      refine ⟨a4, e4, by omega, ?_⟩
      intro k; rw [k4]
      by_cases h1 : k = end_ - 2
      · rw [if_pos h1, k3, if_neg (by omega), if_neg (by omega), if_pos (by omega),
          if_neg (by omega), if_neg (by omega), if_pos (by omega)]
        congr 1; simp [flip2]; omega
      · rw [if_neg h1]
        by_cases h2 : k = end_ - 1
        · rw [if_pos h2, k3, if_neg (by omega), if_neg (by omega), if_pos (by omega),
            if_neg (by omega), if_neg (by omega), if_pos (by omega)]
          congr 1; simp [flip2]; omega
        · rw [if_neg h2, k3]
          by_cases c1 : start ≤ k ∧ k < start + r
          · rw [if_pos c1, if_pos c1]
          · rw [if_neg c1, if_neg c1]
            by_cases c2 : start + r ≤ k ∧ k < end_ - 2
            · rw [if_pos c2, if_pos c2]
            · rw [if_neg c2, if_neg c2, if_neg (by omega), if_neg (by omega)]
  obtain ⟨a4, ea4, sa4, ka4⟩ := hsA
  have hsB : ∃ a5, optSwap revR a4 start (start + 1) = .ok a5 ∧ a5.size = a.size ∧
      ∀ k, a5[k]? =
        if start ≤ k ∧ k < start + r then a[end_ - r + flip2 revR (k - start)]?
        else if start + r ≤ k ∧ k < end_ - l then a[k - r + l]?
        else if end_ - l ≤ k ∧ k < end_ then a[start + flip2 revL (k - (end_ - l))]?
        else a[k]? := by
    cases revR with
    | false => exact ⟨a4, rfl, by omega, by intro k; rw [ka4]; simp [flip2]⟩
    | true =>
      have r2 : r = 2 := hrr rfl
      subst r2
      obtain ⟨a5, e5, s5, k5⟩ := swapA_spec a4 start (start + 1) (by omega) (by omega)
      refine ⟨a5, e5, by omega, ?_⟩
      intro k; rw [k5]
      by_cases h1 : k = start + 1
      · rw [if_pos h1, ka4, if_pos (by omega), if_pos (by omega)]
        congr 1; simp [flip2]; omega
      · rw [if_neg h1]
        by_cases h2 : k = start
        · rw [if_pos h2, ka4, if_pos (by omega), if_pos (by omega)]
          congr 1; simp [flip2]; omega
        · rw [if_neg h2, ka4]
          have hc : ¬ (start ≤ k ∧ k < start + 2) := by omega
          simp only [if_neg hc]
  obtain ⟨a5, ea5, sa5, ka5⟩ := hsB
  refine ⟨a5, ?_, sa5, ka5⟩
  rw [eb1, ok_bind, eb2, ok_bind, ea1, ok_bind, ea2, ok_bind, ea3, ok_bind, ea4, ok_bind, ea5]

theorem getElem?_app5 {α : Type} (p A x D q : List α) (k : Nat) :
    (p ++ A ++ x ++ D ++ q)[k]? =
      if k < p.length then p[k]?
      else if k < p.length + A.length then A[k - p.length]?
      else if k < p.length + A.length + x.length then x[k - p.length - A.length]?
      else if k < p.length + A.length + x.length + D.length then D[k - p.length - A.length - x.length]?
      else q[k - p.length - A.length - x.length - D.length]? := by
  simp only [List.getElem?_append, List.length_append]
  by_cases h1 : k < p.length
  · have h2 : k < p.length + A.length := by omega
    have h3 : k < p.length + A.length + x.length := by omega
    have h4 : k < p.length + A.length + x.length + D.length := by omega
    simp only [h1, h2, h3, h4, if_true]
  · by_cases h2 : k < p.length + A.length
    · have h3 : k < p.length + A.length + x.length := by omega
      have h4 : k < p.length + A.length + x.length + D.length := by omega
      simp only [h1, h2, h3, h4, if_true, if_false]
    · by_cases h3 : k < p.length + A.length + x.length
      · have h4 : k < p.length + A.length + x.length + D.length := by omega
        simp only [h1, h2, h3, h4, if_true, if_false]
        congr 1; omega
      · by_cases h4 : k < p.length + A.length + x.length + D.length
        · simp only [h1, h2, h3, h4, if_true, if_false]
          congr 1; omega
        · simp only [h1, h2, h3, h4, if_false]
          congr 1; omega

def flipL {α : Type} (rev : Bool) (l : List α) : List α := if rev then l.reverse else l

theorem flipL_length {α : Type} (rev : Bool) (l : List α) : (flipL rev l).length = l.length := by
  unfold flipL; split <;> simp

theorem flipL_get {α : Type} (rev : Bool) (l : List α) (h : rev = true → l.length = 2) (j : Nat) (hj : j < l.length) :
    (flipL rev l)[j]? = l[flip2 rev j]? := by
  cases rev with
  | false => simp [flipL, flip2]
  | true =>
    have h2 := h rfl
    match l, h2 with
    | [c, d], _ =>
      simp [flipL, flip2]
      match j, hj with
      | 0, _ => simp
      | 1, _ => simp

theorem nibble_list (pre A x D post : List G) (l r : Nat) (revL revR : Bool)
    (hA : A.length = l) (hD : D.length = r) (hl : l ≤ 2) (hr : r ≤ 2)
    (hrl : revL = true → l = 2) (hrr : revR = true → r = 2) :
    rearrangeCore (pre ++ A ++ x ++ D ++ post).toArray pre.length (pre.length + l + x.length + r) l r revL revR
      = .ok (pre ++ flipL revR D ++ x ++ flipL revL A ++ post).toArray := by
  have hsz : (pre ++ A ++ x ++ D ++ post).toArray.size = pre.length + l + x.length + r + post.length := by
    simp [hA, hD]; omega
  obtain ⟨a', e, hs, hk⟩ := rearrangeCore_get (pre ++ A ++ x ++ D ++ post).toArray pre.length
    (pre.length + l + x.length + r) l r revL revR hl hr (by omega) (by omega) hrl hrr
  rw [e]; congr 1
  apply Array.ext_getElem?
  intro k
  rw [hk]
  simp only [List.getElem?_toArray]
  rw [getElem?_app5 pre (flipL revR D) x (flipL revL A) post k]
  simp only [flipL_length, hA, hD]
  by_cases c0 : k < pre.length
  · rw [if_neg (by omega), if_neg (by omega), if_neg (by omega), if_pos c0, getElem?_app5, if_pos c0]
  · rw [if_neg c0]
    by_cases c1 : k < pre.length + r
    · rw [if_pos (by omega), if_pos c1, flipL_get revR D (by simpa [hD] using hrr) _ (by omega), getElem?_app5]
      have hf : flip2 revR (k - pre.length) < r := by
        unfold flip2; split
        · have := hrr (by assumption); omega
        · omega
      rw [if_neg (by omega), if_neg (by omega), if_neg (by omega), if_pos (by simp [hA, hD]; omega)]
      congr 1; simp [hA]; omega
    · rw [if_neg (by omega), if_neg c1]
      by_cases c2 : k < pre.length + r + x.length
      · rw [if_pos (by omega), if_pos c2, getElem?_app5,
          if_neg (by omega), if_neg (by simp [hA]; omega), if_pos (by simp [hA]; omega)]
        congr 1; simp [hA]; omega
      · rw [if_neg (by omega), if_neg c2]
        by_cases c3 : k < pre.length + r + x.length + l
        · rw [if_pos (by omega), if_pos c3, flipL_get revL A (by simpa [hA] using hrl) _ (by omega), getElem?_app5]
          have hf : flip2 revL (k - (pre.length + l + x.length + r - l)) < l := by
            unfold flip2; split
            · have := hrl (by assumption); omega
            · omega
          rw [if_neg (by omega), if_pos (by simp [hA]; omega)]
          have e1 : k - pre.length - r - x.length = k - (pre.length + l + x.length + r - l) := by omega
          rw [e1]
          congr 1; simp
        · rw [if_neg (by omega), if_neg c3, getElem?_app5,
            if_neg (by omega), if_neg (by simp [hA]; omega), if_neg (by simp [hA]; omega),
            if_neg (by simp [hA, hD]; omega)]
          congr 1; simp [hA, hD]; omega

open RbModel.Spec.Aat in
theorem rearrange_table (σ : RbModel.Spec.Aat.Asg G) (pre post : List G) : (v : Nat) → (hv : v < 16) →
    rearrangeCore (pre ++ inst σ (verbTable v).1 ++ post).toArray pre.length
        (pre.length + (inst σ (verbTable v).1).length)
        (verbParams v).1 (verbParams v).2.1 (verbParams v).2.2.1 (verbParams v).2.2.2
      = .ok (pre ++ inst σ (verbTable v).2 ++ post).toArray
  | 0, _ => by
    have hp : verbParams 0 = (0, 0, false, false) := by decide
    have h := nibble_list pre [] σ.x [] post 0 0 false false rfl rfl (by omega) (by omega) (by simp) (by simp)
    simp only [hp, verbTable, inst]
    simpa [flipL, Nat.add_assoc, Nat.add_comm, Nat.add_left_comm] using h
  | 1, _ => by
    have hp : verbParams 1 = (1, 0, false, false) := by decide
    have h := nibble_list pre [σ.a] σ.x [] post 1 0 false false rfl rfl (by omega) (by omega) (by simp) (by simp)
    simp only [hp, verbTable, inst]
    simpa [flipL, Nat.add_assoc, Nat.add_comm, Nat.add_left_comm] using h
  | 2, _ => by
    have hp : verbParams 2 = (0, 1, false, false) := by decide
    have h := nibble_list pre [] σ.x [σ.d] post 0 1 false false rfl rfl (by omega) (by omega) (by simp) (by simp)
    simp only [hp, verbTable, inst]
    simpa [flipL, Nat.add_assoc, Nat.add_comm, Nat.add_left_comm] using h
  | 3, _ => by
    have hp : verbParams 3 = (1, 1, false, false) := by decide
    have h := nibble_list pre [σ.a] σ.x [σ.d] post 1 1 false false rfl rfl (by omega) (by omega) (by simp) (by simp)
    simp only [hp, verbTable, inst]
    simpa [flipL, Nat.add_assoc, Nat.add_comm, Nat.add_left_comm] using h
  | 4, _ => by
    have hp : verbParams 4 = (2, 0, false, false) := by decide
    have h := nibble_list pre [σ.a, σ.b] σ.x [] post 2 0 false false rfl rfl (by omega) (by omega) (by simp) (by simp)
    simp only [hp, verbTable, inst]
    simpa [flipL, Nat.add_assoc, Nat.add_comm, Nat.add_left_comm] using h
  | 5, _ => by
    have hp : verbParams 5 = (2, 0, true, false) := by decide
    have h := nibble_list pre [σ.a, σ.b] σ.x [] post 2 0 true false rfl rfl (by omega) (by omega) (by simp) (by simp)
    simp only [hp, verbTable, inst]
    simpa [flipL, Nat.add_assoc, Nat.add_comm, Nat.add_left_comm] using h
  | 6, _ => by
    have hp : verbParams 6 = (0, 2, false, false) := by decide
    have h := nibble_list pre [] σ.x [σ.c, σ.d] post 0 2 false false rfl rfl (by omega) (by omega) (by simp) (by simp)
    simp only [hp, verbTable, inst]
    simpa [flipL, Nat.add_assoc, Nat.add_comm, Nat.add_left_comm] using h
  | 7, _ => by
    have hp : verbParams 7 = (0, 2, false, true) := by decide
    have h := nibble_list pre [] σ.x [σ.c, σ.d] post 0 2 false true rfl rfl (by omega) (by omega) (by simp) (by simp)
    simp only [hp, verbTable, inst]
    simpa [flipL, Nat.add_assoc, Nat.add_comm, Nat.add_left_comm] using h
  | 8, _ => by
    have hp : verbParams 8 = (1, 2, false, false) := by decide
    have h := nibble_list pre [σ.a] σ.x [σ.c, σ.d] post 1 2 false false rfl rfl (by omega) (by omega) (by simp) (by simp)
    simp only [hp, verbTable, inst]
    simpa [flipL, Nat.add_assoc, Nat.add_comm, Nat.add_left_comm] using h
  | 9, _ => by
    have hp : verbParams 9 = (1, 2, false, true) := by decide
    have h := nibble_list pre [σ.a] σ.x [σ.c, σ.d] post 1 2 false true rfl rfl (by omega) (by omega) (by simp) (by simp)
    simp only [hp, verbTable, inst]
    simpa [flipL, Nat.add_assoc, Nat.add_comm, Nat.add_left_comm] using h
  | 10, _ => by
    have hp : verbParams 10 = (2, 1, false, false) := by decide
    have h := nibble_list pre [σ.a, σ.b] σ.x [σ.d] post 2 1 false false rfl rfl (by omega) (by omega) (by simp) (by simp)
    simp only [hp, verbTable, inst]
    simpa [flipL, Nat.add_assoc, Nat.add_comm, Nat.add_left_comm] using h
  | 11, _ => by
    have hp : verbParams 11 = (2, 1, true, false) := by decide
    have h := nibble_list pre [σ.a, σ.b] σ.x [σ.d] post 2 1 true false rfl rfl (by omega) (by omega) (by simp) (by simp)
    simp only [hp, verbTable, inst]
    simpa [flipL, Nat.add_assoc, Nat.add_comm, Nat.add_left_comm] using h
  | 12, _ => by
    have hp : verbParams 12 = (2, 2, false, false) := by decide
    have h := nibble_list pre [σ.a, σ.b] σ.x [σ.c, σ.d] post 2 2 false false rfl rfl (by omega) (by omega) (by simp) (by simp)
    simp only [hp, verbTable, inst]
    simpa [flipL, Nat.add_assoc, Nat.add_comm, Nat.add_left_comm] using h
  | 13, _ => by
    have hp : verbParams 13 = (2, 2, true, false) := by decide
    have h := nibble_list pre [σ.a, σ.b] σ.x [σ.c, σ.d] post 2 2 true false rfl rfl (by omega) (by omega) (by simp) (by simp)
    simp only [hp, verbTable, inst]
    simpa [flipL, Nat.add_assoc, Nat.add_comm, Nat.add_left_comm] using h
  | 14, _ => by
    have hp : verbParams 14 = (2, 2, false, true) := by decide
    have h := nibble_list pre [σ.a, σ.b] σ.x [σ.c, σ.d] post 2 2 false true rfl rfl (by omega) (by omega) (by simp) (by simp)
    simp only [hp, verbTable, inst]
    simpa [flipL, Nat.add_assoc, Nat.add_comm, Nat.add_left_comm] using h
  | 15, _ => by
    have hp : verbParams 15 = (2, 2, true, true) := by decide
    have h := nibble_list pre [σ.a, σ.b] σ.x [σ.c, σ.d] post 2 2 true true rfl rfl (by omega) (by omega) (by simp) (by simp)
    simp only [hp, verbTable, inst]
    simpa [flipL, Nat.add_assoc, Nat.add_comm, Nat.add_left_comm] using h
  | n + 16, h => by omega

/-- the control part of a buffer: everything but the two glyph vectors -/
def Buf.ctl (b : Buf) : Buf := { b with info := #[], out := #[] }

theorem bind_ok_inv {α β : Type} {x : M α} {f : α → M β} {y : β} (h : (x >>= f) = .ok y) :
    ∃ a, x = .ok a ∧ f a = .ok y := by
  cases x with
  | error e => simp [bind, Except.bind] at h
  | ok a => exact ⟨a, rfl, h⟩

theorem mergeClusters_ctl {b b' : Buf} {s e : Nat} (h : mergeClusters b s e = .ok b') : b'.ctl = b.ctl := by
  unfold mergeClusters at h
  simp only [bind, Except.bind, pure, Except.pure] at h
  split at h
  · simp [throw, throwThe, MonadExceptOf.throw] at h
  · split at h
    · cases h; rfl
    · split at h
      · cases h
      · cases h; rfl

theorem rearrApply_ctl {cs : CS} {v : Nat} {b b' : Buf} (h : rearrApply cs v b = .ok b') : b'.ctl = b.ctl := by
  unfold rearrApply at h
  simp only [] at h
  split at h
  · obtain ⟨b1, h1, h⟩ := bind_ok_inv h
    obtain ⟨b2, h2, h⟩ := bind_ok_inv h
    obtain ⟨i, _, h⟩ := bind_ok_inv h
    cases h
    have := mergeClusters_ctl h1
    have := mergeClusters_ctl h2
    simp_all [Buf.ctl]
  · cases h; rfl

theorem rearrTransition_ctl {cs cs' : CS} {e : Entry} {b b' : Buf}
    (h : rearrTransition cs e b = .ok (cs', b')) : b'.ctl = b.ctl := by
  unfold rearrTransition at h
  simp only [] at h
  split at h
  · obtain ⟨b1, h1, h⟩ := bind_ok_inv h
    cases h
    exact rearrApply_ctl h1
  · cases h; rfl

theorem ctxSubst_ctl {lks : Nat → Option Lookup} {i p : Nat} {b b' : Buf}
    (h : ctxSubst lks i p b = .ok (some b')) : b'.ctl = b.ctl := by
  unfold ctxSubst at h
  simp only [bind, Except.bind, pure, Except.pure] at h
  split at h
  · split at h
    · cases h
    · split at h
      · cases h
      · split at h
        · split at h
          · cases h
          · cases h; rfl
        · cases h; rfl
  · cases h; rfl

theorem ctxTransition_ctl {lks : Nat → Option Lookup} {cs cs' : CS} {e : Entry} {b b' : Buf}
    (h : ctxTransition lks cs e b = .ok (cs', b')) : b'.ctl = b.ctl := by
  unfold ctxTransition at h
  simp only [bind, Except.bind, pure, Except.pure] at h
  split at h
  · cases h; rfl
  · split at h
    · cases h
    · rename_i r1 hr1
      split at h
      · cases h; rfl
      · rename_i b1
        have c1 := ctxSubst_ctl hr1
        split at h
        · cases h
        · rename_i r2 hr2
          split at h
          · cases h; exact c1
          · rename_i b2
            have c2 := ctxSubst_ctl hr2
            cases h
            rw [c2, c1]

/-- a driver context whose transitions touch only the glyph vectors (rearrangement, contextual) -/
def KeepsCtl (c : Ctx) : Prop :=
  ∀ cs e b cs' b', c.transition cs e b = .ok (cs', b') → b'.ctl = b.ctl

theorem ctl_fields {b b' : Buf} (h : b'.ctl = b.ctl) :
    b'.idx = b.idx ∧ b'.len = b.len ∧ b'.maxOps = b.maxOps ∧ b'.successful = b.successful ∧
    b'.haveOutput = b.haveOutput ∧ b'.outLen = b.outLen := by
  simp only [Buf.ctl, Buf.mk.injEq] at h
  obtain ⟨_, _, h1, h2, h3, h4, _, h6, _, h8, _⟩ := h
  exact ⟨h1, h2, h8, h6, h4, h3⟩

/-- the linear budget of an in-place subtable -/
def mu (b : Buf) : Nat := (b.len - b.idx) + b.maxOps.toNat

theorem nextGlyph_inplace {b : Buf} (h : b.haveOutput = false) : nextGlyph b = .ok { b with idx := b.idx + 1 } := by
  simp [nextGlyph, h]; rfl

theorem advance_inplace {b b2 : Buf} {ca : Bool} (ho : b.haveOutput = false) (hs : b.successful = true)
    (hlt : b.idx < b.len) (h : advance ca b = .ok b2) :
    b2.haveOutput = false ∧ b2.idx ≤ b2.len ∧ mu b2 < mu b ∧ lexLt (psi b2) (psi b) = true := by
  unfold advance at h
  split at h
  · rw [nextGlyph_inplace ho] at h; cases h
    refine ⟨ho, by simp; omega, by simp [mu]; omega, ?_⟩
    simp [lexLt, psi, hs]; omega
  · split at h
    · rw [nextGlyph_inplace ho] at h
      simp only [bind, Except.bind, pure, Except.pure] at h
      cases h
      rename_i hle
      refine ⟨ho, by simp; omega, by simp [mu]; omega, ?_⟩
      simp [lexLt, psi, hs]; omega
    · cases h
      rename_i hgt
      refine ⟨ho, by simp; omega, by simp [mu]; omega, ?_⟩
      simp [lexLt, psi, hs]; omega

theorem driveStep_inplace {m : Machine} {c : Ctx} (hc : KeepsCtl c) {rf : Array Range} {sf : Nat}
    {b : Buf} {cs : CS} {st : Nat} {lr : Option Nat} {b' : Buf} {cs' : CS} {st' : Nat} {lr' : Option Nat}
    (ho : b.haveOutput = false) (hi : b.idx ≤ b.len)
    (h : driveStep m c rf sf b cs st lr = .ok (.next b' cs' st' lr')) :
    b'.haveOutput = false ∧ b'.idx ≤ b'.len ∧ mu b' < mu b ∧ lexLt (psi b') (psi b) = true := by
  unfold driveStep at h
  obtain ⟨⟨skip, lr1⟩, _, h⟩ := bind_ok_inv h
  simp only [] at h
  split at h
  · split at h
    · cases h
    · rename_i hcond
      simp only [Bool.or_eq_true, beq_iff_eq, Bool.not_eq_true', not_or, Bool.not_eq_false] at hcond
      obtain ⟨b1, h1, h⟩ := bind_ok_inv h
      cases h
      rw [nextGlyph_inplace ho] at h1; cases h1
      refine ⟨ho, by simp; omega, by simp [mu]; omega, ?_⟩
      simp [lexLt, psi, hcond.2]; omega
  · unfold driveMain at h
    obtain ⟨cls, _, h⟩ := bind_ok_inv h
    split at h
    · cases h
    · rename_i e he
      obtain ⟨_, _, h⟩ := bind_ok_inv h
      obtain ⟨⟨cs1, b1⟩, ht, h⟩ := bind_ok_inv h
      simp only [] at h
      split at h
      · cases h
      · rename_i hcond
        simp only [ge_iff_le, Bool.or_eq_true, decide_eq_true_eq, Bool.not_eq_true', not_or,
          Bool.not_eq_false] at hcond
        obtain ⟨b2, h2, h⟩ := bind_ok_inv h
        cases h
        obtain ⟨e1, e2, e3, e4, e5, _⟩ := ctl_fields (hc _ _ _ _ _ ht)
        have := advance_inplace (by rw [e5]; exact ho) hcond.2 (by omega) h2
        refine ⟨this.1, this.2.1, ?_, ?_⟩
        · have := this.2.2.1; simp [mu] at *; omega
        · have := this.2.2.2; simp [lexLt, psi] at *; rw [e4] at hcond; simp_all

theorem driveLoop_inplace {m : Machine} {c : Ctx} (hc : KeepsCtl c) (rf : Array Range) (sf : Nat) :
    ∀ (n : Nat) (b : Buf) (cs : CS) (st : Nat) (lr : Option Nat) (steps : Nat),
      mu b ≤ n → b.haveOutput = false → b.idx ≤ b.len →
      driveLoopO m c rf sf b cs st lr steps ≠ .ok none ∧
      ∀ b' k, driveLoopO m c rf sf b cs st lr steps = .ok (some (b', k)) → k ≤ steps + mu b + 1 := by
  intro n
  induction n with
  | zero =>
    intro b cs st lr steps hmu ho hi
    rw [driveLoopO]
    split
    · exact ⟨by simp, by simp⟩
    · refine ⟨by simp, ?_⟩
      intro b' k h; cases h; omega
    · rename_i b1 cs1 st1 lr1 hstep
      have := driveStep_inplace hc ho hi hstep
      omega
  | succ n ih =>
    intro b cs st lr steps hmu ho hi
    rw [driveLoopO]
    split
    · exact ⟨by simp, by simp⟩
    · refine ⟨by simp, ?_⟩
      intro b' k h; cases h; omega
    · rename_i b1 cs1 st1 lr1 hstep
      obtain ⟨ho1, hi1, hmu1, hlex⟩ := driveStep_inplace hc ho hi hstep
      rw [dif_pos hlex]
      have := ih b1 cs1 st1 lr1 (steps + 1) (by omega) ho1 hi1
      refine ⟨this.1, ?_⟩
      intro b' k h
      have := this.2 b' k h
      omega

section
open RbModel.Spec.Aat
set_option linter.unusedSimpArgs false
theorem rearr_keepsCtl : KeepsCtl rearrCtx := fun _ _ _ _ _ h => rearrTransition_ctl h
theorem ctx_keepsCtl (lks : Nat → Option Lookup) : KeepsCtl (ctxCtx lks) := fun _ _ _ _ _ h => ctxTransition_ctl h

def symSub {α : Type} (σ : Asg α) : Sym → List α
  | .A => [σ.a] | .B => [σ.b] | .C => [σ.c] | .D => [σ.d] | .x => σ.x

theorem inst_flatMap {α : Type} (σ : Asg α) (p : List Sym) : inst σ p = p.flatMap (symSub σ) := by
  induction p with
  | nil => rfl
  | cons s r ih => cases s <;> simp [inst, symSub, ih]

theorem inst_perm {α : Type} (σ : Asg α) {p q : List Sym} (h : p.Perm q) : (inst σ p).Perm (inst σ q) := by
  rw [inst_flatMap, inst_flatMap]; exact h.flatMap_right _

theorem verbTable_perm : ∀ v, v < 16 → (verbTable v).2.Perm (verbTable v).1 := by decide

theorem inst_perm_table {α : Type} (σ : Asg α) (v : Nat) (hv : v < 16) :
    (inst σ (verbTable v).2).Perm (inst σ (verbTable v).1) := inst_perm σ (verbTable_perm v hv)

theorem inst_long_enough (σ : Asg G) : (v : Nat) → (hv : v < 16) →
    (verbParams v).1 + (verbParams v).2.1 ≤ (inst σ (verbTable v).1).length
  | 0, _ => by
    have hp : verbParams 0 = (0, 0, false, false) := by decide
    simp [hp, verbTable, inst]; try omega
  | 1, _ => by
    have hp : verbParams 1 = (1, 0, false, false) := by decide
    simp [hp, verbTable, inst]; try omega
  | 2, _ => by
    have hp : verbParams 2 = (0, 1, false, false) := by decide
    simp [hp, verbTable, inst]; try omega
  | 3, _ => by
    have hp : verbParams 3 = (1, 1, false, false) := by decide
    simp [hp, verbTable, inst]; try omega
  | 4, _ => by
    have hp : verbParams 4 = (2, 0, false, false) := by decide
    simp [hp, verbTable, inst]; try omega
  | 5, _ => by
    have hp : verbParams 5 = (2, 0, true, false) := by decide
    simp [hp, verbTable, inst]; try omega
  | 6, _ => by
    have hp : verbParams 6 = (0, 2, false, false) := by decide
    simp [hp, verbTable, inst]; try omega
  | 7, _ => by
    have hp : verbParams 7 = (0, 2, false, true) := by decide
    simp [hp, verbTable, inst]; try omega
  | 8, _ => by
    have hp : verbParams 8 = (1, 2, false, false) := by decide
    simp [hp, verbTable, inst]; try omega
  | 9, _ => by
    have hp : verbParams 9 = (1, 2, false, true) := by decide
    simp [hp, verbTable, inst]; try omega
  | 10, _ => by
    have hp : verbParams 10 = (2, 1, false, false) := by decide
    simp [hp, verbTable, inst]; try omega
  | 11, _ => by
    have hp : verbParams 11 = (2, 1, true, false) := by decide
    simp [hp, verbTable, inst]; try omega
  | 12, _ => by
    have hp : verbParams 12 = (2, 2, false, false) := by decide
    simp [hp, verbTable, inst]; try omega
  | 13, _ => by
    have hp : verbParams 13 = (2, 2, true, false) := by decide
    simp [hp, verbTable, inst]; try omega
  | 14, _ => by
    have hp : verbParams 14 = (2, 2, false, true) := by decide
    simp [hp, verbTable, inst]; try omega
  | 15, _ => by
    have hp : verbParams 15 = (2, 2, true, true) := by decide
    simp [hp, verbTable, inst]; try omega
  | n + 16, h => by omega

theorem applyVerb_inst {α : Type} (σ : Asg α) : (v : Nat) → (hv : v < 16) →
    applyVerb v (inst σ (verbTable v).1) = some (inst σ (verbTable v).2)
  | 0, _ => by
    simp [applyVerb, verbTable, nLead, nTrail, inst, List.zipIdx, List.flatMap]
    try omega
  | 1, _ => by
    simp [applyVerb, verbTable, nLead, nTrail, inst, List.zipIdx, List.flatMap]
    try omega
  | 2, _ => by
    simp [applyVerb, verbTable, nLead, nTrail, inst, List.zipIdx, List.flatMap]
    try omega
  | 3, _ => by
    simp [applyVerb, verbTable, nLead, nTrail, inst, List.zipIdx, List.flatMap]
    try omega
  | 4, _ => by
    simp [applyVerb, verbTable, nLead, nTrail, inst, List.zipIdx, List.flatMap]
    try omega
  | 5, _ => by
    simp [applyVerb, verbTable, nLead, nTrail, inst, List.zipIdx, List.flatMap]
    try omega
  | 6, _ => by
    simp [applyVerb, verbTable, nLead, nTrail, inst, List.zipIdx, List.flatMap]
    try omega
  | 7, _ => by
    simp [applyVerb, verbTable, nLead, nTrail, inst, List.zipIdx, List.flatMap]
    try omega
  | 8, _ => by
    simp [applyVerb, verbTable, nLead, nTrail, inst, List.zipIdx, List.flatMap]
    try omega
  | 9, _ => by
    simp [applyVerb, verbTable, nLead, nTrail, inst, List.zipIdx, List.flatMap]
    try omega
  | 10, _ => by
    simp [applyVerb, verbTable, nLead, nTrail, inst, List.zipIdx, List.flatMap]
    try omega
  | 11, _ => by
    simp [applyVerb, verbTable, nLead, nTrail, inst, List.zipIdx, List.flatMap]
    try omega
  | 12, _ => by
    simp [applyVerb, verbTable, nLead, nTrail, inst, List.zipIdx, List.flatMap]
    try omega
  | 13, _ => by
    simp [applyVerb, verbTable, nLead, nTrail, inst, List.zipIdx, List.flatMap]
    try omega
  | 14, _ => by
    simp [applyVerb, verbTable, nLead, nTrail, inst, List.zipIdx, List.flatMap]
    try omega
  | 15, _ => by
    simp [applyVerb, verbTable, nLead, nTrail, inst, List.zipIdx, List.flatMap]
    try omega
  | n + 16, h => by omega

end
end RbModel.Morx
