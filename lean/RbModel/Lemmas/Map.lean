/- helper lemmas for Props/C14.lean: bit ranges, the allocation invariant of collect_feature_maps, set_masks -/
import RbModel.Map

namespace RbModel.Map

/-- the contiguous mask of `b` bits starting at bit `s` -/
def maskRange (s b : Nat) : Nat := (2 ^ b - 1) <<< s

theorem testBit_maskRange (s b k : Nat) : (maskRange s b).testBit k = (decide (s ≤ k) && decide (k < s + b)) := by
  unfold maskRange
  rw [Nat.testBit_shiftLeft, Nat.testBit_two_pow_sub_one]
  by_cases h : s ≤ k
  · simp [h]; omega
  · simp [h]

/-- the Rust expression `(1 << (next_bit + bits)) - (1 << next_bit)` is the contiguous mask -/
theorem shl_sub_shl (s b : Nat) : (1 <<< (s + b)) - (1 <<< s) = maskRange s b := by
  unfold maskRange
  rw [Nat.one_shiftLeft, Nat.one_shiftLeft, Nat.shiftLeft_eq, Nat.pow_add, Nat.sub_mul, Nat.one_mul, Nat.mul_comm]

theorem testBit_false_of_lt {x i j : Nat} (h : x < 2 ^ i) (hij : i ≤ j) : x.testBit j = false :=
  Nat.testBit_lt_two_pow (Nat.lt_of_lt_of_le h (Nat.pow_le_pow_right (by decide) hij))

theorem maskRange_disjoint {s1 b1 s2 b2 : Nat} (h : s1 + b1 ≤ s2) : maskRange s1 b1 &&& maskRange s2 b2 = 0 := by
  apply Nat.eq_of_testBit_eq
  intro k
  rw [Nat.testBit_and, testBit_maskRange, testBit_maskRange, Nat.zero_testBit]
  by_cases h1 : k < s1 + b1 <;> by_cases h2 : s2 ≤ k <;> simp [h1, h2] <;> omega

theorem maskRange_and_pow {s b g : Nat} (h : s + b ≤ g) : maskRange s b &&& 2 ^ g = 0 := by
  apply Nat.eq_of_testBit_eq
  intro k
  rw [Nat.testBit_and, testBit_maskRange, Nat.testBit_two_pow, Nat.zero_testBit]
  by_cases h1 : g = k <;> simp [h1] <;> omega

theorem maskRange_and_low {s b d : Nat} (h : d < 2 ^ s) : maskRange s b &&& d = 0 := by
  apply Nat.eq_of_testBit_eq
  intro k
  rw [Nat.testBit_and, testBit_maskRange, Nat.zero_testBit]
  by_cases h1 : s ≤ k
  · simp [testBit_false_of_lt h h1]
  · simp [h1]

theorem pow_and_low {g d : Nat} {s : Nat} (h : d < 2 ^ s) (hs : s ≤ g) : 2 ^ g &&& d = 0 := by
  apply Nat.eq_of_testBit_eq
  intro k
  rw [Nat.testBit_and, Nat.testBit_two_pow, Nat.zero_testBit]
  by_cases h1 : g = k
  · subst h1; simp [testBit_false_of_lt h hs]
  · simp [h1]

theorem maskRange_lt (s b n : Nat) (h : s + b ≤ n) : maskRange s b < 2 ^ n := by
  apply Nat.lt_pow_two_of_testBit
  intro i hi
  rw [testBit_maskRange]
  by_cases h1 : i < s + b <;> simp [h1]; omega

/-! ### the allocation invariant -/

/-- the entry shares the global bit (global feature with value 1) -/
def IsGlobalBit (c : Cfg) (f : FMap) : Prop := f.shift = c.globalShift ∧ f.mask = c.globalBit

/-- the entry owns the `b` bits `[f.shift, f.shift + b)`, above the flag bits and below the global bit -/
def OwnBits (c : Cfg) (f : FMap) (b : Nat) : Prop :=
  1 ≤ b ∧ b ≤ c.maxBits ∧ c.firstBit ≤ f.shift ∧ f.shift + b < c.globalShift ∧ f.mask = maskRange f.shift b

/-- the entry was made for one of `infos`, with `min MAX_BITS (bit_storage max_value)` bits -/
def FromInfo (c : Cfg) (infos : List Info) (f : FMap) (b : Nat) : Prop :=
  ∃ info ∈ infos, info.tag = f.tag ∧ info.maxValue ≠ 0 ∧ b = min c.maxBits (bitStorage info.maxValue)

def Disj (c : Cfg) (f g : FMap) : Prop := IsGlobalBit c f ∨ IsGlobalBit c g ∨ f.mask &&& g.mask = 0

theorem Disj.symm {c : Cfg} {f g : FMap} (h : Disj c f g) : Disj c g f := by
  rcases h with h | h | h
  · exact Or.inr (Or.inl h)
  · exact Or.inl h
  · exact Or.inr (Or.inr (by rw [Nat.and_comm]; exact h))

structure Inv (c : Cfg) (infos : List Info) (st : Alloc) : Prop where
  lo : c.firstBit ≤ st.nextBit
  ok : ∀ f ∈ st.feats, IsGlobalBit c f ∨ ∃ b, OwnBits c f b ∧ f.shift + b ≤ st.nextBit ∧ FromInfo c infos f b
  pw : st.feats.Pairwise (Disj c)
  gm : ∀ k, st.globalMask.testBit k = true → k = c.globalShift ∨ (c.firstBit ≤ k ∧ k < st.nextBit)

theorem bitStorage_pos {v : Nat} (h : v ≠ 0) : 1 ≤ bitStorage v := by
  unfold bitStorage; simp [h]

theorem Inv.init (c : Cfg) (infos : List Info) : Inv c infos (Alloc.init c) := by
  refine ⟨Nat.le_refl _, ?_, ?_, ?_⟩
  · intro f hf; simp [Alloc.init] at hf
  · simp [Alloc.init]
  · intro k hk
    simp only [Alloc.init, Cfg.globalBit, Nat.testBit_two_pow, decide_eq_true_eq] at hk
    exact Or.inl hk.symm

theorem Inv.step {c : Cfg} {infos : List Info} {st : Alloc} (font : Font) {info : Info}
    (hb : 0 < c.maxBits) (h : Inv c infos st) (hi : info ∈ infos) : Inv c infos (allocStep c font st info) := by
  unfold allocStep
  split
  · exact h
  · rename_i hskip
    simp only []
    split
    · exact ⟨h.lo, h.ok, h.pw, h.gm⟩
    · split
      · -- global bit
        refine ⟨h.lo, ?_, ?_, h.gm⟩
        · intro f hf
          simp only [List.mem_append, List.mem_singleton] at hf
          rcases hf with hf | hf
          · exact h.ok f hf
          · subst hf; exact Or.inl ⟨rfl, rfl⟩
        · simp only [List.pairwise_append, List.pairwise_cons, List.Pairwise.nil, and_true]
          refine ⟨h.pw, by simp, ?_⟩
          intro a _ b hb'
          simp only [List.mem_singleton] at hb'
          subst hb'
          exact Or.inr (Or.inl ⟨rfl, rfl⟩)
      · rename_i hglob
        -- own bits
        have hmv : info.maxValue ≠ 0 := by
          intro h0; apply hskip; simp [skipped, h0]
        have hlt : st.nextBit + bitsNeeded c info < c.globalShift := by
          apply Nat.lt_of_not_le; intro hge; apply hskip; simp [skipped]; exact Or.inr hge
        have hbits : bitsNeeded c info = min c.maxBits (bitStorage info.maxValue) := by
          simp [bitsNeeded, hglob]
        have hpos : 1 ≤ bitsNeeded c info := by
          rw [hbits]; have := bitStorage_pos hmv; omega
        have hle : bitsNeeded c info ≤ c.maxBits := by rw [hbits]; omega
        rw [shl_sub_shl]
        refine ⟨by simp only []; have := h.lo; omega, ?_, ?_, ?_⟩
        · intro f hf
          simp only [List.mem_append, List.mem_singleton] at hf
          rcases hf with hf | hf
          · rcases h.ok f hf with hg | ⟨b, ho, hle', hfi⟩
            · exact Or.inl hg
            · exact Or.inr ⟨b, ho, by simp only []; omega, hfi⟩
          · subst hf
            refine Or.inr ⟨bitsNeeded c info, ⟨hpos, hle, h.lo, hlt, rfl⟩, Nat.le_refl _, info, hi, rfl, hmv, hbits⟩
        · simp only [List.pairwise_append, List.pairwise_cons, List.Pairwise.nil, and_true]
          refine ⟨h.pw, by simp, ?_⟩
          intro a ha b hb'
          simp only [List.mem_singleton] at hb'
          subst hb'
          rcases h.ok a ha with hg | ⟨b, ho, hle', _⟩
          · exact Or.inl hg
          · refine Or.inr (Or.inr ?_)
            rw [ho.2.2.2.2]
            exact maskRange_disjoint hle'
        · intro k hk
          simp only [Nat.testBit_or, Nat.testBit_and, Bool.or_eq_true, Bool.and_eq_true] at hk
          rcases hk with hk | ⟨_, hk⟩
          · rcases h.gm k hk with h1 | h1
            · exact Or.inl h1
            · exact Or.inr ⟨h1.1, by simp only []; omega⟩
          · rw [testBit_maskRange] at hk
            simp only [Bool.and_eq_true, decide_eq_true_eq] at hk
            exact Or.inr ⟨by have := h.lo; omega, hk.2⟩

theorem Inv.foldl {c : Cfg} {infos : List Info} (font : Font) (hb : 0 < c.maxBits) :
    ∀ (l : List Info) (st : Alloc), (∀ x ∈ l, x ∈ infos) → Inv c infos st →
      Inv c infos (l.foldl (allocStep c font) st)
  | [], _, _, h => h
  | x :: l, st, hl, h => by
    simp only [List.foldl_cons]
    exact Inv.foldl font hb l _ (fun y hy => hl y (List.mem_cons_of_mem _ hy))
      (Inv.step font hb h (hl x (List.mem_cons_self)))

theorem Inv.allocAll (c : Cfg) (font : Font) (infos : List Info) (hb : 0 < c.maxBits) :
    Inv c infos (allocAll c font infos) :=
  Inv.foldl font hb infos _ (fun _ h => h) (Inv.init c infos)

/-! ### dropped features -/

theorem allocStep_skipped {c : Cfg} {font : Font} {st : Alloc} {info : Info} (h : skipped c st info = true) :
    allocStep c font st info = st := by
  unfold allocStep; simp [h]

/-- nothing in the font answers to the feature, it has no fallback, and it is not the required feature's tag -/
def Absent (c : Cfg) (font : Font) (info : Info) : Prop :=
  findFeature c font info = (none, none) ∧ info.flags &&& c.fHasFallback = 0 ∧
  ∀ t, font.present t = true → (font.required t).map (·.2) ≠ some info.tag

theorem allocStep_absent {c : Cfg} {font : Font} {st : Alloc} {info : Info} (h : Absent c font info) :
    allocStep c font st info = st := by
  obtain ⟨h1, h2, h3⟩ := h
  unfold allocStep
  split
  · rfl
  · have r0 : reqUpd font 0 info.tag st.req0 info.stage0 = st.req0 := by
      unfold reqUpd; split
      · rename_i hh; exact absurd hh.2 (h3 0 hh.1)
      · rfl
    have r1 : reqUpd font 1 info.tag st.req1 info.stage1 = st.req1 := by
      unfold reqUpd; split
      · rename_i hh; exact absurd hh.2 (h3 1 hh.1)
      · rfl
    simp only [h1, r0, r1, h2]
    simp

theorem foldl_drop {c : Cfg} {font : Font} (pre post : List Info) (info : Info)
    (h : allocStep c font (allocAll c font pre) info = allocAll c font pre) :
    allocAll c font (pre ++ info :: post) = allocAll c font (pre ++ post) := by
  unfold allocAll at *
  rw [List.foldl_append, List.foldl_append, List.foldl_cons, h]

/-- every entry of the result was made for an info that the font (or a fallback) answers to -/
theorem feats_from {c : Cfg} (font : Font) (infos : List Info) :
    ∀ (l : List Info) (st : Alloc), (∀ x ∈ l, x ∈ infos) →
      (∀ f ∈ st.feats, ∃ info ∈ infos, info.tag = f.tag ∧ ¬ Absent c font info) →
      ∀ f ∈ (l.foldl (allocStep c font) st).feats, ∃ info ∈ infos, info.tag = f.tag ∧ ¬ Absent c font info
  | [], _, _, h => h
  | x :: l, st, hl, h => by
    simp only [List.foldl_cons]
    apply feats_from font infos l _ (fun y hy => hl y (List.mem_cons_of_mem _ hy))
    unfold allocStep
    split
    · exact h
    · simp only []
      split
      · exact h
      · rename_i hfound
        have hx : ¬ Absent c font x := by
          intro ha
          apply hfound
          rw [ha.1]; exact ⟨by simp, ha.2.1⟩
        split
        · intro f hf
          simp only [List.mem_append, List.mem_singleton] at hf
          rcases hf with hf | hf
          · exact h f hf
          · subst hf; exact ⟨x, hl x List.mem_cons_self, rfl, hx⟩
        · intro f hf
          simp only [List.mem_append, List.mem_singleton] at hf
          rcases hf with hf | hf
          · exact h f hf
          · subst hf; exact ⟨x, hl x List.mem_cons_self, rfl, hx⟩

/-! ### set_masks -/

theorem getElem?_mapPrefix {α : Type} (f : α → α) :
    ∀ (l : List α) (n i : Nat), ((l.take n).map f ++ l.drop n)[i]? = if i < n then l[i]?.map f else l[i]?
  | [], n, i => by simp
  | x :: l, 0, i => by simp
  | x :: l, n + 1, 0 => by simp
  | x :: l, n + 1, i + 1 => by simpa using getElem?_mapPrefix f l n i

theorem length_mapPrefix {α : Type} (f : α → α) (l : List α) (n : Nat) :
    ((l.take n).map f ++ l.drop n).length = l.length := by
  simp; omega

/-- bit `k` of `(old & !mask) | (value & mask)` on u32 -/
theorem testBit_setMask1 (value mask : Nat) (g : Glyph) (hm : mask < W32) (hg : g.mask < W32) (k : Nat) :
    (setMask1 value mask g).mask.testBit k = if mask.testBit k then value.testBit k else g.mask.testBit k := by
  unfold setMask1
  simp only [Nat.testBit_or, Nat.testBit_and]
  have e : W32 - 1 - mask = 2 ^ 32 - (mask + 1) := by unfold W32; omega
  rw [e, Nat.testBit_two_pow_sub_succ (by unfold W32 at hm; exact hm)]
  by_cases hk : k < 32
  · cases hmk : mask.testBit k <;> simp [hk]
  · have hm' : mask < 2 ^ 32 := hm
    have hg' : g.mask < 2 ^ 32 := hg
    have h1 : mask.testBit k = false := testBit_false_of_lt hm' (by omega)
    have h2 : g.mask.testBit k = false := testBit_false_of_lt hg' (by omega)
    simp [hk, h1, h2]

/-! ### dedup_feature_infos: sorted, then strictly increasing tags -/

theorem lexLe_trans : ∀ (a b c : List Nat), lexLe a b = true → lexLe b c = true → lexLe a c = true
  | [], _, _, _, _ => by simp [lexLe]
  | _ :: _, [], _, h, _ => by simp [lexLe] at h
  | _ :: _, _ :: _, [], _, h => by simp [lexLe] at h
  | x :: xs, y :: ys, z :: zs, h1, h2 => by
    simp only [lexLe, Bool.or_eq_true, Bool.and_eq_true, decide_eq_true_eq, beq_iff_eq] at *
    rcases h1 with h1 | ⟨h1, h1'⟩ <;> rcases h2 with h2 | ⟨h2, h2'⟩
    · exact Or.inl (by omega)
    · exact Or.inl (by omega)
    · exact Or.inl (by omega)
    · exact Or.inr ⟨by omega, lexLe_trans xs ys zs h1' h2'⟩

theorem lexLe_total : ∀ (a b : List Nat), (lexLe a b || lexLe b a) = true
  | [], _ => by simp [lexLe]
  | _ :: _, [] => by simp [lexLe]
  | x :: xs, y :: ys => by
    have ih := lexLe_total xs ys
    simp only [lexLe, Bool.or_eq_true, Bool.and_eq_true, decide_eq_true_eq, beq_iff_eq] at *
    by_cases h1 : x < y
    · exact Or.inl (Or.inl h1)
    · by_cases h2 : y < x
      · exact Or.inr (Or.inl h2)
      · have : x = y := by omega
        rcases ih with ih | ih
        · exact Or.inl (Or.inr ⟨this, ih⟩)
        · exact Or.inr (Or.inr ⟨this.symm, ih⟩)

theorem mergeInfo_tag (c : Cfg) (j i : Info) : (mergeInfo c j i).tag = j.tag := by
  unfold mergeInfo; split <;> (try split) <;> rfl

theorem dedupLoop_sorted (c : Cfg) : ∀ (rest : List Info) (j : Info),
    (∀ x ∈ rest, j.tag ≤ x.tag) → rest.Pairwise (fun a b => a.tag ≤ b.tag) →
    (dedupLoop c j rest).Pairwise (fun a b => a.tag < b.tag) ∧ ∀ x ∈ dedupLoop c j rest, j.tag ≤ x.tag
  | [], j, _, _ => by simp [dedupLoop]
  | i :: rest, j, hj, hp => by
    rw [List.pairwise_cons] at hp
    unfold dedupLoop
    split
    · rename_i hne
      have ih := dedupLoop_sorted c rest i hp.1 hp.2
      have hji : j.tag < i.tag := by
        have := hj i List.mem_cons_self; omega
      refine ⟨List.pairwise_cons.2 ⟨fun x hx => by have := ih.2 x hx; omega, ih.1⟩, ?_⟩
      intro x hx
      rcases List.mem_cons.1 hx with h | h
      · subst h; exact Nat.le_refl _
      · have := ih.2 x h; omega
    · have ih := dedupLoop_sorted c rest (mergeInfo c j i)
        (fun x hx => by rw [mergeInfo_tag]; exact hj x (List.mem_cons_of_mem _ hx)) hp.2
      rw [mergeInfo_tag] at ih
      exact ih

theorem dedupInfos_sorted (c : Cfg) (infos : List Info) :
    (dedupInfos c false infos).Pairwise (fun a b => a.tag < b.tag) := by
  unfold dedupInfos
  simp only [Bool.false_eq_true, if_false]
  have hs := List.pairwise_mergeSort (le := fun (a b : Info) => lexLe a.key b.key)
    (fun a b c => lexLe_trans _ _ _) (fun a b => lexLe_total _ _) infos
  have hs' : (infos.mergeSort (fun a b => lexLe a.key b.key)).Pairwise (fun a b => a.tag ≤ b.tag) := by
    refine hs.imp ?_
    intro a b h
    simp only [Info.key, lexLe, Bool.or_eq_true, Bool.and_eq_true, decide_eq_true_eq, beq_iff_eq] at h
    rcases h with h | h
    · omega
    · omega
  cases hl : infos.mergeSort (fun a b => lexLe a.key b.key) with
  | nil => simp
  | cons x xs =>
    rw [hl] at hs'
    rw [List.pairwise_cons] at hs'
    exact (dedupLoop_sorted c xs x hs'.1 hs'.2).1

/-- the entries pushed by the allocation loop keep the order of the infos (a subsequence of their tags) -/
theorem feats_sublist {c : Cfg} (font : Font) : ∀ (l : List Info) (st : Alloc),
    ∃ extra : List FMap, (l.foldl (allocStep c font) st).feats = st.feats ++ extra ∧
      (extra.map (·.tag)).Sublist (l.map (·.tag))
  | [], st => ⟨[], by simp⟩
  | x :: l, st => by
    obtain ⟨extra, he, hs⟩ := feats_sublist font l (allocStep c font st x)
    simp only [List.foldl_cons]
    have hstep : (allocStep c font st x).feats = st.feats ∨
        ∃ f, (allocStep c font st x).feats = st.feats ++ [f] ∧ f.tag = x.tag := by
      unfold allocStep
      split
      · exact Or.inl rfl
      · simp only []
        split
        · exact Or.inl rfl
        · split
          · exact Or.inr ⟨_, rfl, rfl⟩
          · exact Or.inr ⟨_, rfl, rfl⟩
    rcases hstep with h | ⟨f, h, ht⟩
    · exact ⟨extra, by rw [he, h], by simpa using hs.cons _⟩
    · refine ⟨f :: extra, by rw [he, h]; simp, ?_⟩
      simp only [List.map_cons, ht]
      exact hs.cons₂ _

/-! ### collect_lookup_stages: "Sort lookups and merge duplicates" -/

/-- two masks meet iff they share a bit -/
theorem and_ne_zero_iff (x y : Nat) : x &&& y ≠ 0 ↔ ∃ k, x.testBit k = true ∧ y.testBit k = true := by
  constructor
  · intro h
    obtain ⟨k, hk⟩ := Nat.exists_testBit_of_ne_zero h
    rw [Nat.testBit_and, Bool.and_eq_true] at hk
    exact ⟨k, hk⟩
  · rintro ⟨k, h1, h2⟩ h0
    have : (x &&& y).testBit k = true := by rw [Nat.testBit_and, h1, h2]; rfl
    rw [h0, Nat.zero_testBit] at this
    exact absurd this (by decide)

/-- what the merge loop computes on a list sorted by lookup index (`j` = the entry being built, `rest` = what is
    still to be read): one entry per index, in strictly increasing order; its mask is the UNION of the masks of all
    entries with that index, its auto_zwnj / auto_zwj flags the conjunction; every index survives. -/
theorem mergeLookups_spec : ∀ (rest : List LMap) (j : LMap),
    (∀ x ∈ rest, j.index ≤ x.index) → rest.Pairwise (fun a b => a.index ≤ b.index) →
    (mergeLookups j rest).Pairwise (fun a b => a.index < b.index) ∧
    (∀ m ∈ mergeLookups j rest, j.index ≤ m.index) ∧
    (∀ m ∈ mergeLookups j rest, ∀ k, m.mask.testBit k = true ↔
        ∃ l ∈ j :: rest, l.index = m.index ∧ l.mask.testBit k = true) ∧
    (∀ m ∈ mergeLookups j rest, (m.autoZwnj = true ↔ ∀ l ∈ j :: rest, l.index = m.index → l.autoZwnj = true) ∧
        (m.autoZwj = true ↔ ∀ l ∈ j :: rest, l.index = m.index → l.autoZwj = true)) ∧
    (∀ l ∈ j :: rest, ∃ m ∈ mergeLookups j rest, m.index = l.index)
  | [], j, _, _ => by
    refine ⟨by simp [mergeLookups], by simp [mergeLookups], ?_, ?_, ?_⟩
    · intro m hm k
      simp only [mergeLookups, List.mem_singleton] at hm
      subst hm
      simp
    · intro m hm
      simp only [mergeLookups, List.mem_singleton] at hm
      subst hm
      simp
    · intro l hl
      simp only [List.mem_singleton] at hl
      subst hl
      exact ⟨l, by simp [mergeLookups], rfl⟩
  | i :: rest, j, hj, hp => by
    rw [List.pairwise_cons] at hp
    have hji : j.index ≤ i.index := hj i List.mem_cons_self
    unfold mergeLookups
    split
    · -- a new index starts: `j` is final
      rename_i hne
      have hlt : j.index < i.index := by omega
      obtain ⟨ih1, ih2, ih3, ih4, ih5⟩ := mergeLookups_spec rest i hp.1 hp.2
      have hge : ∀ l ∈ i :: rest, i.index ≤ l.index := by
        intro l hl
        rcases List.mem_cons.1 hl with h | h
        · subst h; exact Nat.le_refl _
        · exact hp.1 l h
      refine ⟨List.pairwise_cons.2 ⟨fun m hm => by have := ih2 m hm; omega, ih1⟩, ?_, ?_, ?_, ?_⟩
      · intro m hm
        rcases List.mem_cons.1 hm with h | h
        · subst h; exact Nat.le_refl _
        · have := ih2 m h; omega
      · intro m hm k
        rcases List.mem_cons.1 hm with h | h
        · subst h
          constructor
          · intro hb; exact ⟨m, List.mem_cons_self, rfl, hb⟩
          · rintro ⟨l, hl, hidx, hb⟩
            rcases List.mem_cons.1 hl with h | h
            · subst h; exact hb
            · have := hge l h; omega
        · have hmi := ih2 m h
          rw [ih3 m h k]
          constructor
          · rintro ⟨l, hl, hidx, hb⟩; exact ⟨l, List.mem_cons_of_mem _ hl, hidx, hb⟩
          · rintro ⟨l, hl, hidx, hb⟩
            rcases List.mem_cons.1 hl with h' | h'
            · subst h'; omega
            · exact ⟨l, h', hidx, hb⟩
      · intro m hm
        rcases List.mem_cons.1 hm with h | h
        · subst h
          refine ⟨⟨fun hb l hl hidx => ?_, fun hall => hall m List.mem_cons_self rfl⟩,
                  ⟨fun hb l hl hidx => ?_, fun hall => hall m List.mem_cons_self rfl⟩⟩
          · rcases List.mem_cons.1 hl with h | h
            · subst h; exact hb
            · have := hge l h; omega
          · rcases List.mem_cons.1 hl with h | h
            · subst h; exact hb
            · have := hge l h; omega
        · have hmi := ih2 m h
          obtain ⟨hz1, hz2⟩ := ih4 m h
          refine ⟨hz1.trans ⟨fun hall l hl hidx => ?_, fun hall l hl hidx => hall l (List.mem_cons_of_mem _ hl) hidx⟩,
                  hz2.trans ⟨fun hall l hl hidx => ?_, fun hall l hl hidx => hall l (List.mem_cons_of_mem _ hl) hidx⟩⟩
          · rcases List.mem_cons.1 hl with h' | h'
            · subst h'; omega
            · exact hall l h' hidx
          · rcases List.mem_cons.1 hl with h' | h'
            · subst h'; omega
            · exact hall l h' hidx
      · intro l hl
        rcases List.mem_cons.1 hl with h | h
        · subst h; exact ⟨l, List.mem_cons_self, rfl⟩
        · obtain ⟨m, hm, hidx⟩ := ih5 l h
          exact ⟨m, List.mem_cons_of_mem _ hm, hidx⟩
    · -- the same index again: merge `i` into `j`
      rename_i heq
      have heq : i.index = j.index := by omega
      let j' : LMap := { j with mask := j.mask ||| i.mask, autoZwnj := j.autoZwnj && i.autoZwnj,
                                autoZwj := j.autoZwj && i.autoZwj }
      have hj' : ∀ x ∈ rest, j'.index ≤ x.index := fun x hx => by
        have := hp.1 x hx
        show j.index ≤ x.index
        omega
      obtain ⟨ih1, ih2, ih3, ih4, ih5⟩ := mergeLookups_spec rest j' hj' hp.2
      refine ⟨ih1, ih2, ?_, ?_, ?_⟩
      · intro m hm k
        rw [ih3 m hm k]
        constructor
        · rintro ⟨l, hl, hidx, hb⟩
          rcases List.mem_cons.1 hl with h | h
          · subst h
            have hb' : (j.mask ||| i.mask).testBit k = true := hb
            rw [Nat.testBit_or, Bool.or_eq_true] at hb'
            rcases hb' with hb' | hb'
            · exact ⟨j, List.mem_cons_self, hidx, hb'⟩
            · exact ⟨i, List.mem_cons_of_mem _ List.mem_cons_self, by rw [heq]; exact hidx, hb'⟩
          · exact ⟨l, List.mem_cons_of_mem _ (List.mem_cons_of_mem _ h), hidx, hb⟩
        · rintro ⟨l, hl, hidx, hb⟩
          rcases List.mem_cons.1 hl with h | h
          · subst h
            refine ⟨j', List.mem_cons_self, hidx, ?_⟩
            show (l.mask ||| i.mask).testBit k = true
            rw [Nat.testBit_or, hb]; rfl
          · rcases List.mem_cons.1 h with h' | h'
            · subst h'
              refine ⟨j', List.mem_cons_self, by rw [← hidx]; exact heq.symm, ?_⟩
              show (j.mask ||| l.mask).testBit k = true
              rw [Nat.testBit_or, hb, Bool.or_true]
            · exact ⟨l, List.mem_cons_of_mem _ h', hidx, hb⟩
      · intro m hm
        obtain ⟨hz1, hz2⟩ := ih4 m hm
        refine ⟨hz1.trans ⟨fun hall l hl hidx => ?_, fun hall l hl hidx => ?_⟩,
                hz2.trans ⟨fun hall l hl hidx => ?_, fun hall l hl hidx => ?_⟩⟩
        · rcases List.mem_cons.1 hl with h | h
          · subst h
            have hjj : (l.autoZwnj && i.autoZwnj) = true := hall j' List.mem_cons_self hidx
            rw [Bool.and_eq_true] at hjj
            exact hjj.1
          · rcases List.mem_cons.1 h with h' | h'
            · subst h'
              have hjj : (j.autoZwnj && l.autoZwnj) = true := hall j' List.mem_cons_self (by
                show j.index = m.index; omega)
              rw [Bool.and_eq_true] at hjj
              exact hjj.2
            · exact hall l (List.mem_cons_of_mem _ h') hidx
        · rcases List.mem_cons.1 hl with h | h
          · subst h
            show (j.autoZwnj && i.autoZwnj) = true
            rw [Bool.and_eq_true]
            exact ⟨hall j List.mem_cons_self hidx,
                   hall i (List.mem_cons_of_mem _ List.mem_cons_self) (by rw [heq]; exact hidx)⟩
          · exact hall l (List.mem_cons_of_mem _ (List.mem_cons_of_mem _ h)) hidx
        · rcases List.mem_cons.1 hl with h | h
          · subst h
            have hjj : (l.autoZwj && i.autoZwj) = true := hall j' List.mem_cons_self hidx
            rw [Bool.and_eq_true] at hjj
            exact hjj.1
          · rcases List.mem_cons.1 h with h' | h'
            · subst h'
              have hjj : (j.autoZwj && l.autoZwj) = true := hall j' List.mem_cons_self (by
                show j.index = m.index; omega)
              rw [Bool.and_eq_true] at hjj
              exact hjj.2
            · exact hall l (List.mem_cons_of_mem _ h') hidx
        · rcases List.mem_cons.1 hl with h | h
          · subst h
            show (j.autoZwj && i.autoZwj) = true
            rw [Bool.and_eq_true]
            exact ⟨hall j List.mem_cons_self hidx,
                   hall i (List.mem_cons_of_mem _ List.mem_cons_self) (by rw [heq]; exact hidx)⟩
          · exact hall l (List.mem_cons_of_mem _ (List.mem_cons_of_mem _ h)) hidx
      · intro l hl
        rcases List.mem_cons.1 hl with h | h
        · subst h
          obtain ⟨m, hm, hidx⟩ := ih5 j' List.mem_cons_self
          exact ⟨m, hm, hidx⟩
        · rcases List.mem_cons.1 h with h' | h'
          · subst h'
            obtain ⟨m, hm, hidx⟩ := ih5 j' List.mem_cons_self
            exact ⟨m, hm, by rw [hidx]; exact heq.symm⟩
          · obtain ⟨m, hm, hidx⟩ := ih5 l (List.mem_cons_of_mem _ h')
            exact ⟨m, hm, hidx⟩

/-- "Sort lookups and merge duplicates" on an arbitrary stage tail -/
theorem sortMergeTail_spec (tail : List LMap) :
    (sortMergeTail tail).Pairwise (fun a b => a.index < b.index) ∧
    (∀ m ∈ sortMergeTail tail, ∀ k, m.mask.testBit k = true ↔
        ∃ l ∈ tail, l.index = m.index ∧ l.mask.testBit k = true) ∧
    (∀ m ∈ sortMergeTail tail, (m.autoZwnj = true ↔ ∀ l ∈ tail, l.index = m.index → l.autoZwnj = true) ∧
        (m.autoZwj = true ↔ ∀ l ∈ tail, l.index = m.index → l.autoZwj = true)) ∧
    (∀ l ∈ tail, ∃ m ∈ sortMergeTail tail, m.index = l.index) := by
  unfold sortMergeTail
  split
  · have hperm := List.mergeSort_perm tail (fun a b => lexLe a.key b.key)
    have hs := List.pairwise_mergeSort (le := fun (a b : LMap) => lexLe a.key b.key)
      (fun a b c => lexLe_trans _ _ _) (fun a b => lexLe_total _ _) tail
    have hs' : (tail.mergeSort (fun a b => lexLe a.key b.key)).Pairwise (fun a b => a.index ≤ b.index) := by
      refine hs.imp ?_
      intro a b h
      simp only [LMap.key, lexLe, Bool.or_eq_true, Bool.and_eq_true, decide_eq_true_eq, beq_iff_eq] at h
      rcases h with h | h
      · omega
      · omega
    cases hl : tail.mergeSort (fun a b => lexLe a.key b.key) with
    | nil =>
      have : tail = [] := by
        have := hperm.length_eq; rw [hl] at this; exact List.length_eq_zero_iff.1 this.symm
      subst this
      simp
    | cons x xs =>
      rw [hl] at hs' hperm
      rw [List.pairwise_cons] at hs'
      obtain ⟨h1, _, h3, h4, h5⟩ := mergeLookups_spec xs x hs'.1 hs'.2
      refine ⟨h1, ?_, ?_, ?_⟩
      · intro m hm k
        rw [h3 m hm k]
        constructor
        · rintro ⟨l, hl, r⟩; exact ⟨l, hperm.mem_iff.1 hl, r⟩
        · rintro ⟨l, hl, r⟩; exact ⟨l, hperm.mem_iff.2 hl, r⟩
      · intro m hm
        obtain ⟨hz1, hz2⟩ := h4 m hm
        exact ⟨hz1.trans ⟨fun h l hl => h l (hperm.mem_iff.2 hl), fun h l hl => h l (hperm.mem_iff.1 hl)⟩,
               hz2.trans ⟨fun h l hl => h l (hperm.mem_iff.2 hl), fun h l hl => h l (hperm.mem_iff.1 hl)⟩⟩
      · intro l hl
        exact h5 l (hperm.mem_iff.2 hl)
  · -- at most one lookup was added: nothing to sort or merge
    rename_i hlen
    match tail, hlen with
    | [], _ => simp
    | [x], _ =>
      refine ⟨by simp, ?_, ?_, ?_⟩
      · intro m hm k
        simp only [List.mem_singleton] at hm
        subst hm
        simp
      · intro m hm
        simp only [List.mem_singleton] at hm
        subst hm
        simp
      · intro l hl
        exact ⟨l, hl, rfl⟩
    | _ :: _ :: _, h => exact absurd (by simp) h

/-- the merge loop never invents a lookup index -/
theorem mergeLookups_index_from : ∀ (rest : List LMap) (j : LMap),
    ∀ m ∈ mergeLookups j rest, ∃ l, l ∈ j :: rest ∧ l.index = m.index
  | [], j => by
    intro m hm
    simp only [mergeLookups, List.mem_singleton] at hm
    subst hm
    exact ⟨m, List.mem_cons_self, rfl⟩
  | i :: rest, j => by
    intro m hm
    unfold mergeLookups at hm
    split at hm
    · rcases List.mem_cons.1 hm with h | h
      · subst h; exact ⟨m, List.mem_cons_self, rfl⟩
      · obtain ⟨l, hl, hidx⟩ := mergeLookups_index_from rest i m h
        exact ⟨l, List.mem_cons_of_mem _ hl, hidx⟩
    · obtain ⟨l, hl, hidx⟩ := mergeLookups_index_from rest _ m hm
      rcases List.mem_cons.1 hl with h | h
      · subst h; exact ⟨j, List.mem_cons_self, hidx⟩
      · exact ⟨l, List.mem_cons_of_mem _ (List.mem_cons_of_mem _ h), hidx⟩

theorem sortMergeTail_index_from (tail : List LMap) :
    ∀ m ∈ sortMergeTail tail, ∃ l, l ∈ tail ∧ l.index = m.index := by
  intro m hm
  unfold sortMergeTail at hm
  split at hm
  · have hperm := List.mergeSort_perm tail (fun a b => lexLe a.key b.key)
    cases hl : tail.mergeSort (fun a b => lexLe a.key b.key) with
    | nil => rw [hl] at hm; simp at hm
    | cons x xs =>
      rw [hl] at hm hperm
      obtain ⟨l, hl', hidx⟩ := mergeLookups_index_from xs x m hm
      exact ⟨l, hperm.mem_iff.1 hl', hidx⟩
  · exact ⟨m, hm, rfl⟩

/-! ### which features reference a lookup in a stage -/

/-- map entry `f` references lookup `i` of table `t` in stage `stage` (through the feature record the font answered
    with; indices past the lookup list are dropped by `add_lookups`) -/
def FeatureRefs (font : Font) (t stage : Nat) (f : FMap) (i : Nat) : Prop :=
  font.present t = true ∧ (if t = 0 then f.stage0 else f.stage1) = stage ∧
  ∃ fi ls, (if t = 0 then f.index0 else f.index1) = some fi ∧ font.featureLookups t fi = some ls ∧
    i ∈ ls ∧ i < font.lookupCount t

/-- the required feature of the selected language system references lookup `i` in stage `stage` -/
def RequiredRefs (font : Font) (t reqStage stage : Nat) (i : Nat) : Prop :=
  font.present t = true ∧ reqStage = stage ∧
  ∃ fi tag ls, font.required t = some (fi, tag) ∧ font.featureLookups t fi = some ls ∧
    i ∈ ls ∧ i < font.lookupCount t

theorem mem_addLookups {font : Font} {t fi mask : Nat} {zwnj zwj rnd syl : Bool} {l : LMap} :
    l ∈ addLookups font t fi mask zwnj zwj rnd syl ↔
      font.present t = true ∧ ∃ ls, font.featureLookups t fi = some ls ∧ l.index ∈ ls ∧
        l.index < font.lookupCount t ∧ l = ⟨l.index, zwnj, zwj, rnd, mask, syl⟩ := by
  unfold addLookups
  by_cases hp : font.present t = true
  · simp only [hp, if_true, true_and]
    cases hf : font.featureLookups t fi with
    | none => simp
    | some ls =>
      simp only [List.mem_map, List.mem_filter, decide_eq_true_eq, Option.some.injEq, exists_eq_left']
      constructor
      · rintro ⟨a, ⟨ha, hlt⟩, rfl⟩
        exact ⟨ha, hlt, rfl⟩
      · rintro ⟨ha, hlt, he⟩
        exact ⟨l.index, ⟨ha, hlt⟩, he.symm⟩
  · simp [hp]

theorem mem_stageFeatLookups {font : Font} {t stage : Nat} {f : FMap} {l : LMap} :
    l ∈ stageFeatLookups font t stage f ↔ FeatureRefs font t stage f l.index ∧
      l = ⟨l.index, f.autoZwnj, f.autoZwj, f.random, f.mask, f.perSyllable⟩ := by
  unfold stageFeatLookups FeatureRefs
  cases hi : (if t = 0 then f.index0 else f.index1) with
  | none => simp
  | some fi =>
    by_cases hs : (if t = 0 then f.stage0 else f.stage1) = stage
    · simp only [hs, if_true, mem_addLookups, Option.some.injEq, true_and]
      constructor
      · rintro ⟨hp, ls, hf, hm, hlt, he⟩
        exact ⟨⟨hp, fi, ls, rfl, hf, hm, hlt⟩, he⟩
      · rintro ⟨⟨hp, fi', ls, hfi, hf, hm, hlt⟩, he⟩
        subst hfi
        exact ⟨hp, ls, hf, hm, hlt, he⟩
    · simp [hs]

theorem mem_stageReqLookups {c : Cfg} {font : Font} {t reqStage stage : Nat} {l : LMap} :
    l ∈ stageReqLookups c font t reqStage stage ↔ RequiredRefs font t reqStage stage l.index ∧
      l = ⟨l.index, true, true, false, c.globalBit, false⟩ := by
  unfold stageReqLookups RequiredRefs
  by_cases hp : font.present t = true
  · simp only [hp, if_true, true_and]
    cases hr : font.required t with
    | none => simp
    | some p =>
      obtain ⟨fi, tag⟩ := p
      by_cases hs : reqStage = stage
      · simp only [hs, if_true, mem_addLookups, hp, true_and, Option.some.injEq, Prod.mk.injEq]
        constructor
        · rintro ⟨ls, hf, hm, hlt, he⟩
          exact ⟨⟨fi, tag, ls, ⟨rfl, rfl⟩, hf, hm, hlt⟩, he⟩
        · rintro ⟨⟨fi', tag', ls, ⟨h1, h2⟩, hf, hm, hlt⟩, he⟩
          subst h1
          exact ⟨ls, hf, hm, hlt, he⟩
      · simp [hs]
  · have : font.present t = false := by simpa using hp
    simp [this]

/-! ### reading a feature value back out of a glyph mask -/

theorem recover_value (s b v : Nat) (g : Glyph) (hb : s + b ≤ 32) :
    ((setMask1 ((v <<< s) % W32) (maskRange s b) g).mask &&& maskRange s b) >>> s = v % 2 ^ b := by
  have hM : maskRange s b < 2 ^ 32 := maskRange_lt s b 32 hb
  have e : W32 - 1 - maskRange s b = 2 ^ 32 - (maskRange s b + 1) := by unfold W32; omega
  apply Nat.eq_of_testBit_eq
  intro j
  have e32 : W32 = 2 ^ 32 := by decide
  unfold setMask1
  simp only []
  rw [e, e32]
  simp only [Nat.testBit_shiftRight, Nat.testBit_and, Nat.testBit_or, Nat.testBit_two_pow_sub_succ hM,
    testBit_maskRange, Nat.testBit_mod_two_pow, Nat.testBit_shiftLeft, Nat.add_sub_cancel_left]
  by_cases hj : j < b
  · have h1 : s + j < s + b := by omega
    have h2 : s + j < 32 := by omega
    simp [hj, h1, h2]
  · have h1 : ¬ s + j < s + b := by omega
    simp [hj, h1]

theorem maskRange_succ (s b : Nat) : maskRange (s + 1) b = 2 * maskRange s b := by
  unfold maskRange; rw [Nat.shiftLeft_succ]

theorem maskRange_zero_odd (b : Nat) (hb : 1 ≤ b) : maskRange 0 b % 2 = 1 := by
  unfold maskRange
  obtain ⟨k, rfl⟩ : ∃ k, b = k + 1 := ⟨b - 1, by omega⟩
  rw [Nat.shiftLeft_zero, Nat.pow_succ]
  have : 0 < 2 ^ k := Nat.pow_pos (by decide)
  omega

theorem trailingZeros_go (b : Nat) (hb : 1 ≤ b) : ∀ (s fuel : Nat), s < fuel → trailingZeros.go fuel (maskRange s b) = s
  | 0, fuel + 1, _ => by simp [trailingZeros.go, maskRange_zero_odd b hb]
  | s + 1, fuel + 1, h => by
    rw [maskRange_succ, trailingZeros.go]
    have : 2 * maskRange s b % 2 ≠ 1 := by omega
    simp only [this, if_false]
    rw [Nat.mul_div_cancel_left _ (by decide : 0 < 2), trailingZeros_go b hb s fuel (by omega)]
    omega

theorem trailingZeros_maskRange (s b : Nat) (hb : 1 ≤ b) (h : s + b ≤ 32) : trailingZeros (maskRange s b) = s := by
  have hM : maskRange s b < W32 := maskRange_lt s b 32 h
  have hne : maskRange s b ≠ 0 := by
    intro h0
    have := testBit_maskRange s b s
    rw [h0, Nat.zero_testBit] at this
    simp at this; omega
  unfold trailingZeros
  rw [Nat.mod_eq_of_lt hM]
  simp only [hne, if_false]
  exact trailingZeros_go b hb s 32 (by omega)

/-- `trailing_zeros` finds the lowest set bit, whatever lies above it -/
theorem trailingZeros_go_lowest : ∀ (s fuel m : Nat), s < fuel → (∀ k, k < s → m.testBit k = false) → m.testBit s = true →
    trailingZeros.go fuel m = s
  | 0, fuel + 1, m, _, _, hs => by
    rw [Nat.testBit_zero] at hs
    simp only [decide_eq_true_eq] at hs
    simp [trailingZeros.go, hs]
  | s + 1, fuel + 1, m, h, hlow, hs => by
    have h0 := hlow 0 (by omega)
    rw [Nat.testBit_zero] at h0
    simp only [decide_eq_false_iff_not] at h0
    rw [trailingZeros.go]
    simp only [h0, if_false]
    rw [trailingZeros_go_lowest s fuel (m / 2) (by omega)
      (fun k hk => by have := hlow (k + 1) (by omega); rwa [Nat.testBit_succ] at this)
      (by rwa [Nat.testBit_succ] at hs)]
    omega

end RbModel.Map
