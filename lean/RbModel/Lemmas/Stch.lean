/-
  Helper lemmas for the `apply_stch` model (Stch.lean): where the two backward scans stop, and what the flag call writes.
  Core Lean only.
-/
import RbModel.Stch
import RbModel.Lemmas.Flags

namespace RbModel.Stch
open RbModel.Flags

/-- the backward scan from `i ≤ l.length` stops at `k`: every entry of `[k, i)` satisfies `p`, the entry before `k` (if any)
    does not -/
theorem scanBack_spec (p : G → Bool) (l : List G) : ∀ i, i ≤ l.length →
    scanBack p l i ≤ i ∧
    (∀ q g, scanBack p l i ≤ q → q < i → l[q]? = some g → p g = true) ∧
    (scanBack p l i = 0 ∨ ∃ g, l[scanBack p l i - 1]? = some g ∧ p g = false) := by
  intro i
  induction i with
  | zero => intro _; exact ⟨Nat.le_refl _, by intro q g _ h; omega, Or.inl rfl⟩
  | succ i ih =>
    intro h
    have hi : i < l.length := by omega
    have hx : l[i]? = some l[i] := List.getElem?_eq_getElem hi
    by_cases hp : p l[i] = true
    · have e : scanBack p l (i + 1) = scanBack p l i := by simp [scanBack, hx, hp]
      obtain ⟨h1, h2, h3⟩ := ih (by omega)
      rw [e]
      refine ⟨by omega, ?_, h3⟩
      intro q g hq1 hq2 hg
      by_cases hqi : q = i
      · subst hqi; rw [hx] at hg; cases hg; exact hp
      · exact h2 q g hq1 (by omega) hg
    · have hpf : p l[i] = false := by simpa using hp
      have e : scanBack p l (i + 1) = i + 1 := by simp [scanBack, hx, hpf]
      rw [e]
      refine ⟨Nat.le_refl _, by intro q g _ _; omega, Or.inr ⟨l[i], ?_, hpf⟩⟩
      simp [hx]

/-- a buffer that ends in a tile: the span `[wordStart, tileStart)` + `[tileStart, length)` -/
theorem span_spec (l : List G) (last : G) (hl : l.getLast? = some last) (hs : last.isStch = true) :
    wordStart l ≤ tileStart l ∧ tileStart l < l.length ∧
    (∀ q g, tileStart l ≤ q → l[q]? = some g → g.isStch = true) ∧
    (tileStart l = 0 ∨ ∃ g, l[tileStart l - 1]? = some g ∧ g.isStch = false) ∧
    (∀ q g, wordStart l ≤ q → q < tileStart l → l[q]? = some g → g.isWord = true) ∧
    (wordStart l = 0 ∨ ∃ g, l[wordStart l - 1]? = some g ∧ g.isWord = false) := by
  have e1 : tileStart l = scanBack G.isStch l l.length := rfl
  have e2 : wordStart l = scanBack G.isWord l (tileStart l) := rfl
  obtain ⟨t1, t2, t3⟩ := scanBack_spec G.isStch l l.length (Nat.le_refl _)
  rw [← e1] at t1 t2 t3
  obtain ⟨w1, w2, w3⟩ := scanBack_spec G.isWord l (tileStart l) t1
  rw [← e2] at w1 w2 w3
  have hne : l ≠ [] := by intro h; subst h; simp at hl
  have hpos : 0 < l.length := List.length_pos_iff.mpr hne
  have hlast : l[l.length - 1]? = some last := by
    rw [List.getLast?_eq_getElem?] at hl; exact hl
  have hlt : tileStart l < l.length := by
    rcases t3 with h | ⟨g, hg, hgf⟩
    · omega
    · by_cases hc : tileStart l < l.length
      · exact hc
      · exfalso
        have : tileStart l = l.length := by omega
        rw [this, hlast] at hg
        cases hg
        rw [hs] at hgf; cases hgf
  refine ⟨w1, hlt, ?_, t3, w2, w3⟩
  intro q g hq hg
  have hql : q < l.length := (List.getElem?_eq_some_iff.mp hg).1
  exact t2 q g hq hql hg

end RbModel.Stch
