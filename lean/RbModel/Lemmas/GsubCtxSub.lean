/-
  Contextual GSUB lookups, step 3d: one application of a contextual SUBTABLE (Context / ChainContext, formats 1, 2, 3) at the
  current glyph of a forward-scan state = `Spec.Subst.applySubtableAt`: coverage of the first glyph, rule set, first matching
  rule wins.  `SubSimC` is the per-subtable simulation of Lemmas/GsubLigMixed.lean generalised to growing strings: the resume
  index is the specification's, the invariant (`CtxInv`) carries the budget potentials and `CtxG` for the out part.
-/
import RbModel.Lemmas.GsubCtxRuleSim

namespace RbModel.Spec.Subst
open RbModel RbModel.Gsub

theorem context1_eq (f : Font) (level props lm : Nat) (gs : List G) (i : Nat) (g : G) (hg : gs[i]? = some g)
    (cov : Cov) (sets : List (List Rule)) :
    applySubtableAt f level props lm (.context1 cov sets) gs i =
      (cov.index g.gid).bind fun k => (sets[k]?).bind fun rules =>
        rules.firstM fun r => ctxRuleSpec f props lm gs i (r.input.map fun v => fun x => x == v) [] [] r.lookups := by
  unfold applySubtableAt
  simp only [hg]
  rfl

theorem context2_eq (f : Font) (level props lm : Nat) (gs : List G) (i : Nat) (g : G) (hg : gs[i]? = some g)
    (cov : Cov) (classes : ClassDef) (sets : List (Option (List Rule))) :
    applySubtableAt f level props lm (.context2 cov classes sets) gs i =
      (cov.index g.gid).bind fun _ => ((sets[classes.get g.gid]?).join).bind fun rules =>
        rules.firstM fun r => ctxRuleSpec f props lm gs i (r.input.map fun v => fun x => classes.get x == v) [] [] r.lookups := by
  unfold applySubtableAt
  simp only [hg]
  rfl

theorem context3_eq' (f : Font) (level props lm : Nat) (gs : List G) (i : Nat) (g : G) (hg : gs[i]? = some g)
    (c0 : Cov) (rest : List Cov) (recs : List Rec) :
    applySubtableAt f level props lm (.context3 (c0 :: rest) recs) gs i =
      (c0.index g.gid).bind fun _ => ctxRuleSpec f props lm gs i (rest.map fun c => fun x => c.contains x) [] [] recs := by
  unfold applySubtableAt
  simp only [hg]
  rfl

theorem chain1_eq (f : Font) (level props lm : Nat) (gs : List G) (i : Nat) (g : G) (hg : gs[i]? = some g)
    (cov : Cov) (sets : List (List ChainRule)) :
    applySubtableAt f level props lm (.chain1 cov sets) gs i =
      (cov.index g.gid).bind fun k => (sets[k]?).bind fun rules =>
        rules.firstM fun r => ctxRuleSpec f props lm gs i (r.input.map fun v => fun x => x == v) (r.backtrack.map fun v => fun x => x == v)
          (r.lookahead.map fun v => fun x => x == v) r.lookups := by
  unfold applySubtableAt
  simp only [hg]
  rfl

theorem chain2_eq (f : Font) (level props lm : Nat) (gs : List G) (i : Nat) (g : G) (hg : gs[i]? = some g)
    (cov : Cov) (bc ic lc : ClassDef) (sets : List (Option (List ChainRule))) :
    applySubtableAt f level props lm (.chain2 cov bc ic lc sets) gs i =
      (cov.index g.gid).bind fun _ => ((sets[ic.get g.gid]?).join).bind fun rules =>
        rules.firstM fun r => ctxRuleSpec f props lm gs i (r.input.map fun v => fun x => ic.get x == v)
          (r.backtrack.map fun v => fun x => bc.get x == v) (r.lookahead.map fun v => fun x => lc.get x == v) r.lookups := by
  unfold applySubtableAt
  simp only [hg]
  rfl

theorem chain3_eq (f : Font) (level props lm : Nat) (gs : List G) (i : Nat) (g : G) (hg : gs[i]? = some g)
    (back ahead : List Cov) (c0 : Cov) (rest : List Cov) (recs : List Rec) :
    applySubtableAt f level props lm (.chain3 back (c0 :: rest) ahead recs) gs i =
      (c0.index g.gid).bind fun _ => ctxRuleSpec f props lm gs i (rest.map fun c => fun x => c.contains x)
        (back.map fun c => fun x => c.contains x) (ahead.map fun c => fun x => c.contains x) recs := by
  unfold applySubtableAt
  simp only [hg]
  rfl

end RbModel.Spec.Subst

namespace RbModel.Gsub
open RbModel RbModel.Buf RbModel.Mem RbModel.Spec.Subst

/-! ### the match functions of the three formats as predicate lists -/

theorem fnPreds_getD (mf : Nat → Nat → Bool) (input : List Nat) :
    input.map (fun v => fun x => mf x v) = fnPreds (fun g i => mf g (input.getD i 0)) 0 input.length := by
  unfold fnPreds
  apply List.ext_getElem?
  intro q
  simp only [List.getElem?_map]
  by_cases hq : q < input.length
  · rw [List.getElem?_range' hq, List.getElem?_eq_getElem hq]
    simp only [Option.map_some, Nat.zero_add, Nat.one_mul]
    congr 1
    funext y
    simp [List.getD, List.getElem?_eq_getElem hq]
  · rw [List.getElem?_eq_none (by omega), List.getElem?_eq_none (by simp; omega)]
    rfl

theorem fnPreds_nthCov (covs : List Cov) :
    covs.map (fun c => fun x => c.contains x) = fnPreds (fun g i => nthCov covs i g) 0 covs.length := by
  unfold fnPreds
  apply List.ext_getElem?
  intro q
  simp only [List.getElem?_map]
  by_cases hq : q < covs.length
  · rw [List.getElem?_range' hq, List.getElem?_eq_getElem hq]
    simp only [Option.map_some, Nat.zero_add, Nat.one_mul]
    congr 1
    funext y
    simp [nthCov, List.getElem?_eq_getElem hq]
  · rw [List.getElem?_eq_none (by omega), List.getElem?_eq_none (by simp; omega)]
    rfl

/-! ### first matching rule wins, on both sides -/

theorem firstRule_firstM {α} (c : Ctx) (F : Ctx → α → M (Ctx × Bool)) (S : α → Step) (P : Buf → List G → Nat → Prop) :
    ∀ rules : List α,
      (∀ r ∈ rules, match S r with
        | none => F c r = .ok (c, false)
        | some (gs', nxt) => ∃ b', F c r = .ok ({ c with buf := b' }, true) ∧ P b' gs' nxt) →
      match rules.firstM S with
      | none => firstRule rules c F = .ok (c, false)
      | some (gs', nxt) => ∃ b', firstRule rules c F = .ok ({ c with buf := b' }, true) ∧ P b' gs' nxt := by
  intro rules
  induction rules with
  | nil => intro _; rfl
  | cons r rest ih =>
    intro hall
    have hr := hall r List.mem_cons_self
    have ihr := ih (fun r' hr' => hall r' (List.mem_cons_of_mem _ hr'))
    cases hS : S r with
    | none =>
      rw [hS] at hr
      simp only [] at hr
      have e : (r :: rest).firstM S = rest.firstM S := by simp [List.firstM, hS]
      rw [e]
      have : firstRule (r :: rest) c F = firstRule rest c F := by
        simp only [firstRule, bind, Except.bind, hr, Bool.false_eq_true, if_false]
      rw [this]; exact ihr
    | some p =>
      obtain ⟨gs', nxt⟩ := p
      rw [hS] at hr
      simp only [] at hr
      obtain ⟨b', hres, hP⟩ := hr
      have e : (r :: rest).firstM S = some (gs', nxt) := by simp [List.firstM, hS]
      rw [e]
      refine ⟨b', ?_, hP⟩
      simp only [firstRule, bind, Except.bind, hres, if_true, pure, Except.pure]

/-! ### the subtables -/

/-- (number of input glyphs behind the first, records) of every rule of a contextual subtable -/
def Subtable.ctxRules : Subtable → List (Nat × List Rec)
  | .context1 _ sets => sets.flatMap fun rs => rs.map fun r => (r.input.length, r.lookups)
  | .context2 _ _ sets => sets.flatMap fun o => match o with
      | some rs => rs.map fun r => (r.input.length, r.lookups)
      | none => []
  | .context3 covs recs => [(covs.length - 1, recs)]
  | .chain1 _ sets => sets.flatMap fun rs => rs.map fun r => (r.input.length, r.lookups)
  | .chain2 _ _ _ _ sets => sets.flatMap fun o => match o with
      | some rs => rs.map fun r => (r.input.length, r.lookups)
      | none => []
  | .chain3 _ input _ recs => [(input.length - 1, recs)]
  | _ => []

def Subtable.isCtx : Subtable → Bool
  | .context1 .. | .context2 .. | .context3 .. | .chain1 .. | .chain2 .. | .chain3 .. => true
  | _ => false

/-- a contextual subtable of the Spec's domain -/
def CtxStOk (f : Font) (Gr Rn : Nat) (st : Subtable) : Prop :=
  st.isCtx = true ∧ ∀ p ∈ st.ctxRules, RuleOk f Gr Rn p.1 p.2

/-- **one subtable at the current glyph simulates `Spec.Subst.applySubtableAt`** on every state of the scan of a contextual
    lookup over the font `f` -/
def SubSimC (recurse : Ctx → Nat → M (Ctx × Bool)) (full : Bool) (f : Font) (l : Lookup) (lm level K Rn : Nat) (st : Subtable) : Prop :=
  ∀ (c : Ctx) (x : Info) (R : List Info) (gs : List G), c.font = f → CtxInv l lm K Rn c → inP c.buf = x :: R →
    RelF (outP c.buf ++ inP c.buf) gs →
    match applySubtableAt f level l.props lm st gs c.buf.outLen with
    | none => applySubtable recurse full c st = .ok (c, false)
    | some (gs', nxt) => ∃ b', applySubtable recurse full c st = .ok ({ c with buf := b' }, true) ∧ StepGoodC l lm K Rn c b' gs' nxt

/-- what every case needs about the current glyph -/
theorem cur_facts {l : Lookup} {lm K Rn : Nat} {c : Ctx} (h : CtxInv l lm K Rn c) {x : Info} {R : List Info} {gs : List G}
    (hin : inP c.buf = x :: R) (hrel : RelF (outP c.buf ++ inP c.buf) gs) :
    Mem.get c.buf.info c.buf.idx = .ok x ∧ x.gid % 65536 = x.gid ∧ c.buf.outLen ≤ gs.length ∧
      ∃ g, gs[c.buf.outLen]? = some g ∧ g.gid = x.gid := by
  have hol := outP_length c.buf h.inv
  obtain ⟨hcur, hx⟩ := inP_head c.buf h.inv x R hin
  have hxg : CtxG x := h.glyph x (List.mem_append_right _ (by rw [hin]; exact List.mem_cons_self))
  obtain ⟨g, hgs, hgx⟩ := hrel.get c.buf.outLen x (by rw [hin, List.getElem?_append_right (by omega), hol]; simp)
  refine ⟨by unfold Mem.get; rw [hx]; rfl, Nat.mod_eq_of_lt hxg.2.1, ?_, g, hgs, congrArg (fun p : Nat × Nat × Nat => p.1) hgx⟩
  rw [← hrel.length]; simp [hol]

section
variable (hg : Gen.Buf.ensureGrowOnly = true) (hr : Gen.Buf.moveToRewindReversed = true) (m : Nat) (full : Bool) (f : Font)
  (l : Lookup) (hp : NoSkipFlags l.props) (lm Gr Rn level : Nat) (hlm : lm < 2 ^ 32)
  (hlmf : lm &&& (U32MAX - Flag.DEFINED) = lm)
include hg hr hp hlm hlmf

theorem context1_subSimC (cov : Cov) (sets : List (List Rule)) (hok : CtxStOk f Gr Rn (.context1 cov sets)) :
    SubSimC (recurseAt (m + 1)) full f l lm level (Rn * Gr) Rn (.context1 cov sets) := by
  intro c x R gs hf h hin hrel
  subst hf
  obtain ⟨hget, hmod, hile, g, hgs, hgg⟩ := cur_facts h hin hrel
  rw [context1_eq c.font level l.props lm gs _ g hgs cov sets, hgg]
  simp only [applySubtable, bind, Except.bind, hget, hmod]
  cases hc : cov.index x.gid with
  | none => rfl
  | some k =>
    simp only [Option.bind]
    cases hs : sets[k]? with
    | none => rfl
    | some rules =>
      simp only []
      apply firstRule_firstM c _ _ (fun b' gs' nxt => StepGoodC l lm (Rn * Gr) Rn c b' gs' nxt) rules
      intro r hrm
      have e : r.input.map (fun v => fun x => x == v) = fnPreds (fun g i => g == r.input.getD i 0) 0 r.input.length :=
        fnPreds_getD (fun g v => g == v) r.input
      rw [ctxRuleSpec_eq c.font l.props lm hp gs _ hile, e, applyContextRule_eq_M]
      exact ctxRuleM_sim hg hr l hp lm Gr Rn hlm hlmf m c h gs x R hin hrel r.input.length _ r.lookups
        (hok.2 (r.input.length, r.lookups) (by
          simp only [Subtable.ctxRules, List.mem_flatMap, List.mem_map]
          exact ⟨rules, List.mem_of_getElem? hs, r, hrm, rfl⟩))

theorem context2_subSimC (cov : Cov) (classes : ClassDef) (sets : List (Option (List Rule)))
    (hok : CtxStOk f Gr Rn (.context2 cov classes sets)) :
    SubSimC (recurseAt (m + 1)) full f l lm level (Rn * Gr) Rn (.context2 cov classes sets) := by
  intro c x R gs hf h hin hrel
  subst hf
  obtain ⟨hget, hmod, hile, g, hgs, hgg⟩ := cur_facts h hin hrel
  rw [context2_eq c.font level l.props lm gs _ g hgs cov classes sets, hgg]
  simp only [applySubtable, bind, Except.bind, hget, hmod]
  cases hc : cov.index x.gid with
  | none => rfl
  | some k =>
    simp only [Option.bind]
    cases hs : sets[classes.get x.gid]? with
    | none => rfl
    | some o =>
      cases o with
      | none => rfl
      | some rules =>
        simp only [Option.join]
        apply firstRule_firstM c _ _ (fun b' gs' nxt => StepGoodC l lm (Rn * Gr) Rn c b' gs' nxt) rules
        intro r hrm
        have e : r.input.map (fun v => fun x => classes.get x == v)
            = fnPreds (fun g i => classes.get g == r.input.getD i 0) 0 r.input.length :=
          fnPreds_getD (fun g v => classes.get g == v) r.input
        rw [ctxRuleSpec_eq c.font l.props lm hp gs _ hile, e, applyContextRule_eq_M]
        exact ctxRuleM_sim hg hr l hp lm Gr Rn hlm hlmf m c h gs x R hin hrel r.input.length _ r.lookups
          (hok.2 (r.input.length, r.lookups) (by
            simp only [Subtable.ctxRules, List.mem_flatMap]
            exact ⟨some rules, List.mem_of_getElem? hs, List.mem_map.2 ⟨r, hrm, rfl⟩⟩))

theorem context3_subSimC (covs : List Cov) (recs : List Rec) (hok : CtxStOk f Gr Rn (.context3 covs recs)) :
    SubSimC (recurseAt (m + 1)) full f l lm level (Rn * Gr) Rn (.context3 covs recs) := by
  intro c x R gs hf h hin hrel
  subst hf
  obtain ⟨hget, hmod, hile, g, hgs, hgg⟩ := cur_facts h hin hrel
  cases covs with
  | nil =>
    have : applySubtableAt c.font level l.props lm (.context3 [] recs) gs c.buf.outLen = none := by
      unfold applySubtableAt; simp only [hgs]
    rw [this]
    simp only [applySubtable, bind, Except.bind, hget, pure, Except.pure]
  | cons c0 rest =>
    rw [context3_eq' c.font level l.props lm gs _ g hgs c0 rest recs, hgg]
    have hm : applySubtable (recurseAt (m + 1)) full c (.context3 (c0 :: rest) recs) =
        match c0.index x.gid with
        | none => pure (c, false)
        | some _ => ctxRuleM (recurseAt (m + 1)) c rest.length (fun g i => nthCov rest i g) recs := by
      simp only [applySubtable, bind, Except.bind, hget, hmod]
      cases c0.index x.gid <;> rfl
    rw [hm]
    cases hc : c0.index x.gid with
    | none => rfl
    | some k =>
      simp only [Option.bind]
      rw [ctxRuleSpec_eq c.font l.props lm hp gs _ hile, fnPreds_nthCov rest]
      exact ctxRuleM_sim hg hr l hp lm Gr Rn hlm hlmf m c h gs x R hin hrel rest.length _ recs
        (hok.2 (rest.length, recs) (by simp [Subtable.ctxRules]))

theorem chain1_subSimC (cov : Cov) (sets : List (List ChainRule)) (hok : CtxStOk f Gr Rn (.chain1 cov sets)) :
    SubSimC (recurseAt (m + 1)) full f l lm level (Rn * Gr) Rn (.chain1 cov sets) := by
  intro c x R gs hf h hin hrel
  subst hf
  obtain ⟨hget, hmod, hile, g, hgs, hgg⟩ := cur_facts h hin hrel
  rw [chain1_eq c.font level l.props lm gs _ g hgs cov sets, hgg]
  simp only [applySubtable, bind, Except.bind, hget, hmod]
  cases hc : cov.index x.gid with
  | none => rfl
  | some k =>
    simp only [Option.bind]
    cases hs : sets[k]? with
    | none => rfl
    | some rules =>
      simp only []
      apply firstRule_firstM c _ _ (fun b' gs' nxt => StepGoodC l lm (Rn * Gr) Rn c b' gs' nxt) rules
      intro r hrm
      have e1 : r.input.map (fun v => fun x => x == v) = fnPreds (fun g i => g == r.input.getD i 0) 0 r.input.length :=
        fnPreds_getD (fun g v => g == v) r.input
      have e2 : r.backtrack.map (fun v => fun x => x == v) = fnPreds (fun g i => g == r.backtrack.getD i 0) 0 r.backtrack.length :=
        fnPreds_getD (fun g v => g == v) r.backtrack
      have e3 : r.lookahead.map (fun v => fun x => x == v) = fnPreds (fun g i => g == r.lookahead.getD i 0) 0 r.lookahead.length :=
        fnPreds_getD (fun g v => g == v) r.lookahead
      rw [ctxRuleSpec_eq c.font l.props lm hp gs _ hile, e1, e2, e3]
      exact chainRule_sim hg hr l hp lm Gr Rn hlm hlmf m c h gs x R hin hrel _ _ _ _ _ _ r.lookups
        (hok.2 (r.input.length, r.lookups) (by
          simp only [Subtable.ctxRules, List.mem_flatMap, List.mem_map]
          exact ⟨rules, List.mem_of_getElem? hs, r, hrm, rfl⟩))

theorem chain2_subSimC (cov : Cov) (bc ic lc : ClassDef) (sets : List (Option (List ChainRule)))
    (hok : CtxStOk f Gr Rn (.chain2 cov bc ic lc sets)) :
    SubSimC (recurseAt (m + 1)) full f l lm level (Rn * Gr) Rn (.chain2 cov bc ic lc sets) := by
  intro c x R gs hf h hin hrel
  subst hf
  obtain ⟨hget, hmod, hile, g, hgs, hgg⟩ := cur_facts h hin hrel
  rw [chain2_eq c.font level l.props lm gs _ g hgs cov bc ic lc sets, hgg]
  simp only [applySubtable, bind, Except.bind, hget, hmod]
  cases hc : cov.index x.gid with
  | none => rfl
  | some k =>
    simp only [Option.bind]
    cases hs : sets[ic.get x.gid]? with
    | none => rfl
    | some o =>
      cases o with
      | none => rfl
      | some rules =>
        simp only [Option.join]
        apply firstRule_firstM c _ _ (fun b' gs' nxt => StepGoodC l lm (Rn * Gr) Rn c b' gs' nxt) rules
        intro r hrm
        have e1 : r.input.map (fun v => fun x => ic.get x == v) = fnPreds (fun g i => ic.get g == r.input.getD i 0) 0 r.input.length :=
          fnPreds_getD (fun g v => ic.get g == v) r.input
        have e2 : r.backtrack.map (fun v => fun x => bc.get x == v)
            = fnPreds (fun g i => bc.get g == r.backtrack.getD i 0) 0 r.backtrack.length :=
          fnPreds_getD (fun g v => bc.get g == v) r.backtrack
        have e3 : r.lookahead.map (fun v => fun x => lc.get x == v)
            = fnPreds (fun g i => lc.get g == r.lookahead.getD i 0) 0 r.lookahead.length :=
          fnPreds_getD (fun g v => lc.get g == v) r.lookahead
        rw [ctxRuleSpec_eq c.font l.props lm hp gs _ hile, e1, e2, e3]
        exact chainRule_sim hg hr l hp lm Gr Rn hlm hlmf m c h gs x R hin hrel _ _ _ _ _ _ r.lookups
          (hok.2 (r.input.length, r.lookups) (by
            simp only [Subtable.ctxRules, List.mem_flatMap]
            exact ⟨some rules, List.mem_of_getElem? hs, List.mem_map.2 ⟨r, hrm, rfl⟩⟩))

theorem chain3_subSimC (back input ahead : List Cov) (recs : List Rec) (hok : CtxStOk f Gr Rn (.chain3 back input ahead recs)) :
    SubSimC (recurseAt (m + 1)) full f l lm level (Rn * Gr) Rn (.chain3 back input ahead recs) := by
  intro c x R gs hf h hin hrel
  subst hf
  obtain ⟨hget, hmod, hile, g, hgs, hgg⟩ := cur_facts h hin hrel
  cases input with
  | nil =>
    have : applySubtableAt c.font level l.props lm (.chain3 back [] ahead recs) gs c.buf.outLen = none := by
      unfold applySubtableAt; simp only [hgs]
    rw [this]
    simp only [applySubtable, bind, Except.bind, hget, pure, Except.pure]
  | cons c0 rest =>
    rw [chain3_eq c.font level l.props lm gs _ g hgs back ahead c0 rest recs, hgg]
    simp only [applySubtable, bind, Except.bind, hget, hmod]
    cases hc : c0.index x.gid with
    | none => rfl
    | some k =>
      simp only [Option.bind]
      rw [ctxRuleSpec_eq c.font l.props lm hp gs _ hile, fnPreds_nthCov rest, fnPreds_nthCov back, fnPreds_nthCov ahead]
      exact chainRule_sim hg hr l hp lm Gr Rn hlm hlmf m c h gs x R hin hrel _ _ _ _ _ _ recs
        (hok.2 (rest.length, recs) (by simp [Subtable.ctxRules]))

/-- every contextual subtable of the Spec's domain simulates the specification -/
theorem ctx_subSimC (st : Subtable) (hok : CtxStOk f Gr Rn st) :
    SubSimC (recurseAt (m + 1)) full f l lm level (Rn * Gr) Rn st := by
  cases st with
  | context1 cov sets => exact context1_subSimC hg hr m full f l hp lm Gr Rn level hlm hlmf cov sets hok
  | context2 cov cl sets => exact context2_subSimC hg hr m full f l hp lm Gr Rn level hlm hlmf cov cl sets hok
  | context3 covs recs => exact context3_subSimC hg hr m full f l hp lm Gr Rn level hlm hlmf covs recs hok
  | chain1 cov sets => exact chain1_subSimC hg hr m full f l hp lm Gr Rn level hlm hlmf cov sets hok
  | chain2 cov bc ic lc sets => exact chain2_subSimC hg hr m full f l hp lm Gr Rn level hlm hlmf cov bc ic lc sets hok
  | chain3 b i a recs => exact chain3_subSimC hg hr m full f l hp lm Gr Rn level hlm hlmf b i a recs hok
  | _ => exact absurd hok.1 (by simp [Subtable.isCtx])

end

end RbModel.Gsub
