import RbModel.TagScript

/-! helper lemmas for the ISO 15924 part of C18 -/

namespace RbModel.TagScript

/-- adjusting the case twice is adjusting it once (whatever the two masks) -/
theorem adjust_idem (t a o : Nat) : ((((t &&& a) ||| o) &&& a) ||| o) = ((t &&& a) ||| o) := by
  apply Nat.eq_of_testBit_eq
  intro i
  simp only [Nat.testBit_or, Nat.testBit_and]
  cases t.testBit i <;> cases a.testBit i <;> cases o.testBit i <;> rfl

theorem or_ne_zero (x o : Nat) (ho : o ≠ 0) : (x ||| o) ≠ 0 := by
  intro h
  exact ho (Nat.or_eq_zero_iff.mp h).2

/-- A function that checks for the null tag, then adjusts the case, then does whatever else, gives a non-null tag the
    answer it gives the adjusted tag. -/
theorem fromIso_adjust_first (f : IsoFn) (a o : Nat) (rest : List Step)
    (hpre : f.pre = .nullCheck :: .adjust a o :: rest) (ho : o ≠ 0) (t : Nat) (ht : t ≠ 0) :
    fromIso15924 f t = fromIso15924 f ((t &&& a) ||| o) := by
  have h2 : ((t &&& a) ||| o) ≠ 0 := or_ne_zero _ _ ho
  unfold fromIso15924
  rw [hpre]
  simp only [runSteps, ht, h2, if_false, adjust_idem]

end RbModel.TagScript
