/-
  Lemmas about the variation-selector part of the first normalization round
  (`Norm.vsSkip`, `Norm.vsLoop` = ot_shape_normalize.rs::handle_variation_selector_cluster,
  `Norm.mergeClusters2` = the cluster merge of `replace_glyphs(2, 1, ..)`): which records survive.
-/
import RbModel.Norm

namespace RbModel.Norm

/-- what identifies a record of the text: character, cluster, mask -/
def Info.key (i : Info) : Nat × Nat × Nat := (i.cp, i.cluster, i.mask)

@[simp] theorem key_setGlyph (F : Font) (i : Info) : (setGlyph F i).key = i.key := by
  unfold setGlyph; split <;> rfl

@[simp] theorem key_customizeVS (F : Font) (i : Info) : (customizeVS F i).key = i.key := rfl

@[simp] theorem cp_setGlyph (F : Font) (i : Info) : (setGlyph F i).cp = i.cp := by
  unfold setGlyph; split <;> rfl

@[simp] theorem cp_customizeVS (F : Font) (i : Info) : (customizeVS F i).cp = i.cp := rfl

@[simp] theorem cp_setCluster (K : Consts) (i : Info) (c : Nat) : (setCluster K i c).cp = i.cp := by
  unfold setCluster; split <;> rfl

theorem map_cp_setCluster (K : Consts) (l : List Info) (c : Nat) :
    (l.map (setCluster K · c)).map (·.cp) = l.map (·.cp) := by
  simp [List.map_map, Function.comp_def]

/-- the skip loop copies a prefix of `k` selectors (only their glyph index changes) -/
theorem vsSkip_spec (U : UData) (F : Font) (inp : List Info) (n : Nat) :
    ∃ k, k ≤ n ∧ (vsSkip U F inp n).2.2 = n - k ∧ (vsSkip U F inp n).2.1 = inp.drop k ∧
      (vsSkip U F inp n).1.map Info.key = (inp.take k).map Info.key ∧
      (∀ x ∈ inp.take k, U.isVS x.cp = true) := by
  fun_induction vsSkip U F inp n with
  | case1 x inp n h ih =>
    obtain ⟨k, h1, h2, h3, h4, h5⟩ := ih
    refine ⟨k + 1, by omega, by show (vsSkip U F inp n).2.2 = _; omega, by simpa using h3, by simp [h4], ?_⟩
    intro y hy
    simp only [List.take_succ_cons, List.mem_cons] at hy
    rcases hy with hy | hy
    · subst hy; exact h
    · exact h5 y hy
  | case2 => exact ⟨0, by omega, by simp, by simp, by simp, by simp⟩
  | case3 => exact ⟨0, by omega, by simp, by simp, by simp, by simp⟩

theorem take_split {α : Type} (l : List α) (k n : Nat) (h : k ≤ n) :
    l.take k ++ (l.drop k).take (n - k) = l.take n := by
  have : n = k + (n - k) := by omega
  conv => rhs; rw [this, List.take_add]

/-- **No variation sequences in the font** (`glyph_variation_index` finds nothing: every cmap-only font
    without a format 14 subtable): the variation-selector round copies the `n` records of the cluster to
    the out-buffer one by one — same characters, clusters and masks, in the same order — and leaves the
    rest of the input exactly as it was. -/
theorem vsLoop_keeps (U : UData) (F : Font) (K : Consts) (n : Nat) (out inp : List Info) (flags : Nat)
    (hn : n ≤ inp.length) (hnv : ∀ a b, F.variant a b = none) :
    (vsLoop U F K n out inp flags).1.map Info.key = out.map Info.key ++ (inp.take n).map Info.key ∧
    (vsLoop U F K n out inp flags).2.1 = inp.drop n := by
  fun_induction vsLoop U F K n out inp flags with
  | case1 n out a b rest flags hvs g hg ih => rw [hnv] at hg; cases hg
  | case2 n out a b rest flags hvs hg ih =>
    obtain ⟨k, h1, h2, h3, h4, _⟩ := vsSkip_spec U F rest n
    simp only [List.length_cons] at hn
    have hk : k ≤ rest.length ∨ rest.length < k := by omega
    rw [h2, h3] at ih ⊢
    have ih' := ih (by simp only [List.length_drop]; omega)
    refine ⟨?_, ?_⟩
    · rw [ih'.1]
      simp only [List.map_append, List.map_cons, key_setGlyph, key_customizeVS, h4, List.take_succ_cons,
        List.append_assoc, List.cons_append]
      congr 3
      rw [← List.map_append, take_split rest k n h1]
    · rw [ih'.2, List.drop_drop]
      simp only [List.drop_succ_cons]
      congr 1; omega
  | case3 n out a b rest flags hvs ih =>
    have ih' := ih (by simpa using hn)
    refine ⟨?_, ?_⟩
    · rw [ih'.1]; simp
    · rw [ih'.2]; simp
  | case4 out a rest flags => simp
  | case5 n out inp flags h1 h2 =>
    match n, inp with
    | 0, _ => simp
    | 1, [] => simp at hn
    | 1, a :: rest => exact absurd rfl (h2 a rest rfl)
    | n + 2, [] => simp at hn
    | n + 2, [a] => simp at hn
    | n + 2, a :: b :: rest => exact absurd rfl (h1 n a b rest rfl)

/-! ### fonts with variation sequences: only selectors may disappear -/

theorem cps_extendStart (K : Consts) (pre : List Info) (c0 c : Nat) :
    (extendStart K pre c0 c).map (·.cp) = pre.map (·.cp) := by
  have h := congrArg List.reverse
    (List.takeWhile_append_dropWhile (p := fun i : Info => i.cluster == c0) (l := pre.reverse))
  simp only [List.reverse_append, List.reverse_reverse] at h
  unfold extendStart
  rw [List.map_append, map_cp_setCluster, ← List.map_append, h]

theorem cps_mergeClusters2 (K : Consts) (out : List Info) (a b : Info) (rest : List Info) :
    (mergeClusters2 K out a b rest).1.map (·.cp) = out.map (·.cp) ∧
    (mergeClusters2 K out a b rest).2.1.cp = a.cp ∧
    (mergeClusters2 K out a b rest).2.2.2.map (·.cp) = rest.map (·.cp) := by
  unfold mergeClusters2
  refine ⟨?_, by simp, ?_⟩
  · simp only
    split
    · exact cps_extendStart _ _ _ _
    · rfl
  · simp only
    rw [List.map_append, map_cp_setCluster, ← List.map_append, List.take_append_drop]

theorem cps_of_keys (l l' : List Info) (h : l.map Info.key = l'.map Info.key) :
    l.map (·.cp) = l'.map (·.cp) := by
  have := congrArg (List.map (fun t : Nat × Nat × Nat => t.1)) h
  simpa [List.map_map, Function.comp_def, Info.key] using this

/-- **Any font** (with or without variation sequences): the variation-selector round outputs the
    characters of the cluster in their order, except that selectors may be missing (a selector absorbed
    into the variant glyph of its base by `replace_glyphs(2, 1)`): what is appended to the out-buffer is a
    sublist of the cluster's characters containing every character that is not a variation selector;
    nothing already output and nothing still to come changes its character. -/
theorem vsLoop_chars (U : UData) (F : Font) (K : Consts) (n : Nat) (out inp : List Info) (flags : Nat)
    (hn : n ≤ inp.length) :
    ∃ kept, (vsLoop U F K n out inp flags).1.map (·.cp) = out.map (·.cp) ++ kept ∧
      kept.Sublist ((inp.take n).map (·.cp)) ∧
      kept.filter (fun c => !U.isVS c) = ((inp.take n).map (·.cp)).filter (fun c => !U.isVS c) ∧
      (vsLoop U F K n out inp flags).2.1.map (·.cp) = (inp.drop n).map (·.cp) := by
  fun_induction vsLoop U F K n out inp flags with
  | case1 n out a b rest flags hvs g hg ih =>
    obtain ⟨hm1, hm2, hm3⟩ := cps_mergeClusters2 K out { a with gidx := g } b rest
    obtain ⟨k, h1, h2, h3, h4, _⟩ := vsSkip_spec U F (mergeClusters2 K out { a with gidx := g } b rest).2.2.2 n
    simp only [List.length_cons] at hn
    have hlen := length_mergeClusters2 K out { a with gidx := g } b rest
    rw [h2, h3] at ih ⊢
    obtain ⟨kept, i1, i2, i3, i4⟩ := ih (by simp only [List.length_drop]; omega)
    have h4' := cps_of_keys _ _ h4
    have hdrop : ∀ j, ((mergeClusters2 K out { a with gidx := g } b rest).2.2.2.drop j).map (·.cp) =
        (rest.drop j).map (·.cp) := by
      intro j; rw [List.map_drop, hm3, ← List.map_drop]
    have htake : ∀ j, ((mergeClusters2 K out { a with gidx := g } b rest).2.2.2.take j).map (·.cp) =
        (rest.take j).map (·.cp) := by
      intro j; rw [List.map_take, hm3, ← List.map_take]
    have hsplit : (rest.take n).map (·.cp) = (rest.take k).map (·.cp) ++ ((rest.drop k).take (n - k)).map (·.cp) := by
      rw [← List.map_append, take_split rest k n h1]
    have i2' : kept.Sublist (((rest.drop k).take (n - k)).map (·.cp)) := by
      have : (((mergeClusters2 K out { a with gidx := g } b rest).2.2.2.drop k).take (n - k)).map (·.cp) =
          ((rest.drop k).take (n - k)).map (·.cp) := by
        rw [List.map_take, hdrop, ← List.map_take]
      rw [this] at i2; exact i2
    have i3' : kept.filter (fun c => !U.isVS c) = (((rest.drop k).take (n - k)).map (·.cp)).filter (fun c => !U.isVS c) := by
      have : (((mergeClusters2 K out { a with gidx := g } b rest).2.2.2.drop k).take (n - k)).map (·.cp) =
          ((rest.drop k).take (n - k)).map (·.cp) := by
        rw [List.map_take, hdrop, ← List.map_take]
      rw [this] at i3; exact i3
    refine ⟨a.cp :: (rest.take k).map (·.cp) ++ kept, ?_, ?_, ?_, ?_⟩
    · rw [i1]
      simp only [List.map_append, List.map_cons, hm1, hm2, h4', htake, List.append_assoc, List.cons_append]
    · simp only [List.take_succ_cons, List.map_cons, hsplit, List.cons_append]
      exact List.Sublist.cons_cons _ (List.Sublist.cons _ (List.Sublist.append (List.Sublist.refl _) i2'))
    · simp only [List.take_succ_cons, List.map_cons, hsplit, List.cons_append, List.filter_cons, List.filter_append,
        hvs, i3', Bool.not_true, Bool.false_eq_true, ↓reduceIte]
    · rw [i4, List.drop_drop, hdrop]
      simp only [List.drop_succ_cons]
      congr 2; omega
  | case2 n out a b rest flags hvs hg ih =>
    obtain ⟨k, h1, h2, h3, h4, _⟩ := vsSkip_spec U F rest n
    simp only [List.length_cons] at hn
    rw [h2, h3] at ih ⊢
    obtain ⟨kept, i1, i2, i3, i4⟩ := ih (by simp only [List.length_drop]; omega)
    have h4' := cps_of_keys _ _ h4
    have hsplit : (rest.take n).map (·.cp) = (rest.take k).map (·.cp) ++ ((rest.drop k).take (n - k)).map (·.cp) := by
      rw [← List.map_append, take_split rest k n h1]
    refine ⟨a.cp :: b.cp :: (rest.take k).map (·.cp) ++ kept, ?_, ?_, ?_, ?_⟩
    · rw [i1]
      simp only [List.map_append, List.map_cons, cp_setGlyph, cp_customizeVS, h4', List.append_assoc, List.cons_append]
    · simp only [List.take_succ_cons, List.map_cons, hsplit, List.cons_append]
      exact List.Sublist.cons_cons _ (List.Sublist.cons_cons _ (List.Sublist.append (List.Sublist.refl _) i2))
    · simp only [List.take_succ_cons, List.map_cons, hsplit, List.cons_append, List.filter_cons, List.filter_append, i3]
    · rw [i4, List.drop_drop]
      simp only [List.drop_succ_cons]
      congr 2; omega
  | case3 n out a b rest flags hvs ih =>
    obtain ⟨kept, i1, i2, i3, i4⟩ := ih (by simpa using hn)
    refine ⟨a.cp :: kept, ?_, ?_, ?_, ?_⟩
    · rw [i1]; simp
    · simp only [List.take_succ_cons, List.map_cons] at i2 ⊢
      exact List.Sublist.cons_cons _ i2
    · simp only [List.take_succ_cons, List.map_cons, List.filter_cons] at i3 ⊢
      rw [i3]
    · rw [i4]; simp
  | case4 out a rest flags => exact ⟨[a.cp], by simp, by simp, by simp, by simp⟩
  | case5 n out inp flags h1 h2 =>
    match n, inp with
    | 0, _ => exact ⟨[], by simp, by simp, by simp, by simp⟩
    | 1, [] => simp at hn
    | 1, a :: rest => exact absurd rfl (h2 a rest rfl)
    | n + 2, [] => simp at hn
    | n + 2, [a] => simp at hn
    | n + 2, a :: b :: rest => exact absurd rfl (h1 n a b rest rfl)

end RbModel.Norm
